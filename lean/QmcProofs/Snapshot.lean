/-
Lemmas about the regenerated field maps (`QmcModel/Generated/Fields.lean`) and the models of
`QmcModel/Snapshot.lean`.  Used by `QmcProps/C14.lean` and `QmcProps/C13.lean`.
Every proof about a generated definition is generic (`cases x; simp [..]`): it is re-run against whatever the
extractor produced from the current sources and fails as soon as one field is not carried over verbatim.
-/
import QmcModel.Snapshot
import Mathlib.Tactic.Common

namespace Qmc.Snap
open Qmc.Gen

/-! ## Ising sampler: snapshot / restore / serde / clone -/
section Ising
variable {F64 R M BW : Type}

theorem ising_restore_snapshot (g : QmcIsingGraph F64 R M BW) (sg : SerializeQmcGraph F64 M BW) (r : R)
    (hv : g.vars = List.range g.vars.length) (h : g.snapshot = some (sg, r)) : sg.restore r = g := by
  cases g with
  | mk edges transverse longitudinal state cutoff op_manager teo rng vars rvb cb trs rcc bw =>
    cases rng with
    | none => simp [QmcIsingGraph.snapshot] at h
    | some r0 =>
      simp only [QmcIsingGraph.snapshot, Option.some.injEq, Prod.mk.injEq] at h
      obtain ⟨h1, h2⟩ := h
      subst h1 h2
      simp only [SerializeQmcGraph.restore]
      simp only at hv
      rw [← hv]

theorem ising_snapshot_isSome (g : QmcIsingGraph F64 R M BW) : g.snapshot.isSome = g.rng.isSome := by
  cases g with
  | mk edges transverse longitudinal state cutoff op_manager teo rng vars rvb cb trs rcc bw =>
    cases rng <;> simp [QmcIsingGraph.snapshot]

theorem ising_snapshot_restore (sg : SerializeQmcGraph F64 M BW) (r : R) :
    (sg.restore r).snapshot = some (sg, r) := by
  cases sg
  simp [SerializeQmcGraph.restore, QmcIsingGraph.snapshot]

theorem ising_restore_wf (sg : SerializeQmcGraph F64 M BW) (r : R) :
    (sg.restore r).vars = List.range (sg.restore r).vars.length ∧ (sg.restore r).rng = some r := by
  cases sg
  simp [SerializeQmcGraph.restore]

theorem ising_serde_roundtrip (rtR : R → R) (rtM : M → M) (rtB : BW → BW)
    (hR : ∀ x, rtR x = x) (hM : ∀ x, rtM x = x) (hB : ∀ x, rtB x = x) (g : QmcIsingGraph F64 R M BW) :
    g.serdeRT rtR rtM rtB = g := by
  cases g
  simp [QmcIsingGraph.serdeRT, hR, hM, hB]

theorem serialize_graph_serde_roundtrip (rtM : M → M) (rtB : BW → BW)
    (hM : ∀ x, rtM x = x) (hB : ∀ x, rtB x = x) (sg : SerializeQmcGraph F64 M BW) :
    sg.serdeRT rtM rtB = sg := by
  cases sg
  simp [SerializeQmcGraph.serdeRT, hM, hB]

theorem ising_clone_eq (g : QmcIsingGraph F64 R M BW) : g.clone = g := by
  cases g
  rfl

end Ising

section QmcClone
variable {F64 R M I BW : Type}

theorem qmc_clone_eq (q : Gen.Qmc F64 R M I BW) : q.clone = q := by
  cases q
  rfl

theorem qmc_serde_roundtrip (rtR : R → R) (rtM : M → M) (rtI : I → I) (rtB : BW → BW)
    (hR : ∀ x, rtR x = x) (hM : ∀ x, rtM x = x) (hI : ∀ x, rtI x = x) (hB : ∀ x, rtB x = x)
    (q : Gen.Qmc F64 R M I BW) : q.serdeRT rtR rtM rtI rtB = q := by
  cases q
  simp [Gen.Qmc.serdeRT, hR, hM, hI, hB]

end QmcClone

/-! ## Leaves: every serde struct below the samplers round-trips to itself, except `Allocator` -/
section Leaves
variable {F64 T O LV A N P V S IT : Type}

theorem bondWeights_serde (x : BondWeights F64) : x.serdeRT = x := by cases x; rfl

theorem bondContainer_serde (rt : T → T) (h : ∀ x, rt x = x) (x : BondContainer F64 T) : x.serdeRT rt = x := by
  cases x; simp [BondContainer.serdeRT, h]

theorem pRel_serde (x : PRel) : x.serdeRT = x := by cases x; rfl

theorem basicOp_serde (rtV : V → V) (rtS : S → S) (hV : ∀ x, rtV x = x) (hS : ∀ x, rtS x = x)
    (x : BasicOp V S) : x.serdeRT rtV rtS = x := by
  cases x; simp [BasicOp.serdeRT, hV, hS]

theorem interaction_serde (rt : IT → IT) (h : ∀ x, rt x = x) (x : Interaction F64 IT) : x.serdeRT rt = x := by
  cases x; simp [Interaction.serdeRT, h]

theorem node_serde (rtO : O → O) (rtL : LV → LV) (hO : ∀ x, rtO x = x) (hL : ∀ x, rtL x = x)
    (x : FastOpNodeTemplate O LV) : x.serdeRT rtO rtL = x := by
  cases x; simp [FastOpNodeTemplate.serdeRT, hO, hL]

/-- the op container round-trips to itself up to its allocator -/
theorem fastOps_serde (rtA : A → A) (rtN : N → N) (rtP : P → P) (hN : ∀ x, rtN x = x) (hP : ∀ x, rtP x = x)
    (x : FastOpsTemplate A N P) : x.serdeRT rtA rtN rtP = { x with alloc := rtA x.alloc } := by
  cases x; simp [FastOpsTemplate.serdeRT, hN, hP]

theorem fastOps_serde_id (rtA : A → A) (rtN : N → N) (rtP : P → P) (hA : ∀ x, rtA x = x) (hN : ∀ x, rtN x = x)
    (hP : ∀ x, rtP x = x) (x : FastOpsTemplate A N P) : x.serdeRT rtA rtN rtP = x := by
  rw [fastOps_serde rtA rtN rtP hN hP, hA]

end Leaves

/-! ## Pool -/
section Pool
variable {T : Type} [Inhabited T]

theorem alloc_snapshot_counts (a : Allocator T) : counts a.serdeRT = counts a := by
  cases a; simp [Allocator.serdeRT, counts]

theorem alloc_serde_clean (a : Allocator T) (h : ∀ t ∈ a.instances, t = default) : a.serdeRT = a := by
  cases a with
  | mk inst gm =>
    simp only [Allocator.serdeRT, Allocator.mk.injEq, and_true]
    simp only at h
    exact (List.eq_replicate_iff.mpr ⟨rfl, h⟩).symm

theorem counts_get (a : Allocator T) :
    (poolGet a).map (fun p => counts p.2) =
      (if (counts a).1 > 0 then some ((counts a).1 - 1, (counts a).2)
       else if (counts a).2 then some (0, (counts a).2) else none) := by
  cases a with
  | mk inst gm =>
    rcases List.eq_nil_or_concat inst with h | ⟨l, t, h⟩
    · subst h; cases gm <;> simp [poolGet, counts]
    · subst h; simp [poolGet, counts]

omit [Inhabited T] in
theorem counts_ret (reset : T → T) (a : Allocator T) (t : T) :
    counts (poolRet reset a t) = ((counts a).1 + 1, (counts a).2) := by
  cases a; simp [poolRet, counts]

theorem pool_run_counts_only (reset : T → T) (evs : List Ev) (a : Allocator T) (held : List T) :
    (runPool reset evs (a, held)).map (fun s => counts s.1) = runCounts evs (counts a) := by
  induction evs generalizing a held with
  | nil => simp [runPool, runCounts]
  | cons e evs ih =>
    cases e with
    | get =>
      have hg := counts_get a
      cases hga : poolGet a with
      | none =>
        rw [hga] at hg
        simp only [Option.map_none] at hg
        simp only [runPool, hga, Option.map_none]
        rcases hc : counts a with ⟨n, gm⟩
        rw [hc] at hg
        dsimp only at hg
        simp only [runCounts]
        split at hg
        · simp at hg
        · split at hg
          · simp at hg
          · simp [*]
      | some p =>
        obtain ⟨t, a'⟩ := p
        rw [hga] at hg
        simp only [Option.map_some] at hg
        simp only [runPool, hga]
        rw [ih]
        rcases hc : counts a with ⟨n, gm⟩
        rw [hc] at hg
        dsimp only at hg
        simp only [runCounts]
        split at hg
        · simp only [Option.some.injEq] at hg; simp [*]
        · split at hg
          · simp only [Option.some.injEq] at hg; simp [*]
          · simp at hg
    | ret =>
      cases held with
      | nil =>
        simp only [runPool]
        rw [ih, counts_ret]
        rcases hc : counts a with ⟨n, gm⟩
        simp [runCounts]
      | cons t held' =>
        simp only [runPool]
        rw [ih, counts_ret]
        rcases hc : counts a with ⟨n, gm⟩
        simp [runCounts]

end Pool

/-! ## Tempering container: snapshot / restore -/
section TemperRestore
variable {F64 R1 R2 Q SQ : Type}

theorem optMapM_restore (snapG : Q → Option (SQ × R2)) (restoreG : SQ → R2 → Q)
    (l : List (Q × F64)) (hG : ∀ p ∈ l, ∀ sg r, snapG p.1 = some (sg, r) → restoreG sg r = p.1)
    (pairs : List ((SQ × F64) × R2))
    (h : optMapM (fun (p : Q × F64) => (snapG p.1).map (fun sr => ((sr.1, p.2), sr.2))) l = some pairs) :
    pairs.map (fun p => (restoreG p.1.1 p.2, p.1.2)) = l := by
  induction l generalizing pairs with
  | nil =>
    simp only [optMapM, Option.some.injEq] at h
    subst h; rfl
  | cons p l ih =>
    simp only [optMapM] at h
    cases hs : snapG p.1 with
    | none => simp [hs] at h
    | some sr =>
      cases hm : optMapM (fun (p : Q × F64) => (snapG p.1).map (fun sr => ((sr.1, p.2), sr.2))) l with
      | none => simp [hs, hm] at h
      | some bs =>
        simp only [hs, hm, Option.map_some, Option.some.injEq] at h
        subst h
        simp only [List.map_cons, ih (fun q hq => hG q (List.mem_cons_of_mem _ hq)) bs hm, List.cons.injEq, and_true]
        obtain ⟨sg, r⟩ := sr
        rw [hG p List.mem_cons_self sg r hs]

theorem tempering_restore_snapshot (snapG : Q → Option (SQ × R2)) (restoreG : SQ → R2 → Q)
    (tc : TemperingContainer F64 R1 Q)
    (hG : ∀ p ∈ tc.graphs, ∀ sg r, snapG p.1 = some (sg, r) → restoreG sg r = p.1) (st : SerializeTemperingContainer F64 SQ) (r : R1) (rs : List R2)
    (h : tc.snapshot snapG = some (st, r, rs)) :
    st.restore restoreG r rs = resetCaches tc := by
  unfold TemperingContainer.snapshot at h
  split at h
  · rename_i pairs rng hp hr
    simp only [Option.some.injEq, Prod.mk.injEq] at h
    obtain ⟨h1, h2, h3⟩ := h
    subst h1 h2 h3
    cases tc with
    | mk graphs rng0 ea eb ts =>
      simp only at hp hr
      subst hr
      simp only [SerializeTemperingContainer.restore, resetCaches, List.zip_unzip]
      rw [optMapM_restore snapG restoreG graphs hG pairs hp]
  · simp at h

end TemperRestore

/-! ## Tempering container: the reset caches are recomputed -/
section Cache
variable {F64 R Q U : Type}

/-- SPEC of the cache fill: both caches hold what `make_eqs_from_graphs` gives on the two sub-slices now -/
def fillCaches (ops : Ops F64 R Q U) (tc : TC F64 R Q) : TC F64 R Q :=
  { tc with
    graph_ham_eq_a := some (eqsOf ops (firstSub tc.graphs).1),
    graph_ham_eq_b := some (eqsOf ops (secondSub tc.graphs).2.1) }

/-- The obligation on the REGENERATED guard and `make_ham_equalities` body: from every valid cache state (each cache
`None` or up to date) the guarded rebuild ends with both caches up to date.  (Guard `a.is_none() || b.is_none()` +
"rebuild both" satisfies it; so would "rebuild what is missing"; a guard that misses a `None` cache does not.) -/
theorem ensure_of_valid (ops : Ops F64 R Q U) (tc : TC F64 R Q) (h : CacheValid ops tc) :
    ensureCaches ops tc = fillCaches ops tc := by
  cases tc with
  | mk graphs rng ea eb ts =>
    obtain ⟨ha, hb⟩ := h
    simp only at ha hb
    rcases ha with ha | ha <;> rcases hb with hb | hb <;> subst ha <;> subst hb <;>
      simp [ensureCaches, makeHamEqualities, fillCaches, TemperingContainer.rebuildGuard,
        TemperingContainer.makeHamEqualities]

theorem ensure_reset (ops : Ops F64 R Q U) (tc : TC F64 R Q) :
    ensureCaches ops (resetCaches tc) = fillCaches ops tc := by
  cases tc
  simp [ensureCaches, makeHamEqualities, resetCaches, fillCaches, TemperingContainer.rebuildGuard,
    TemperingContainer.makeHamEqualities]

theorem body_reset_irrelevant (ops : Ops F64 R Q U) (setAll : Nat → List (Q × F64) → List (Q × F64))
    (swA swB : R → List (Q × F64) → List Bool → List (Q × F64) × R × Nat)
    (tc : TC F64 R Q) (h : CacheValid ops tc) :
    temperingBody ops setAll swA swB (resetCaches tc) = temperingBody ops setAll swA swB tc := by
  simp only [temperingBody, ensure_reset, ensure_of_valid ops tc h]

theorem resetCaches_graphs (tc : TC F64 R Q) : (resetCaches tc).graphs = tc.graphs := rfl

theorem resetCaches_idem (tc : TC F64 R Q) : resetCaches (resetCaches tc) = resetCaches tc := rfl

theorem cacheValid_reset (ops : Ops F64 R Q U) (tc : TC F64 R Q) : CacheValid ops (resetCaches tc) :=
  ⟨Or.inl rfl, Or.inl rfl⟩

theorem step_reset_irrelevant (ops : Ops F64 R Q U) (tc : TC F64 R Q) (h : CacheValid ops tc) :
    resetCaches (temperingStep ops (resetCaches tc)) = resetCaches (temperingStep ops tc) := by
  unfold temperingStep
  rw [resetCaches_graphs]
  split
  · rfl
  · rw [body_reset_irrelevant ops _ _ _ tc h]

theorem parStep_reset_irrelevant (ops : Ops F64 R Q U) (sched : Scheduler) (k : Nat) (tc : TC F64 R Q)
    (h : CacheValid ops tc) :
    resetCaches (parTemperingStep ops sched k (resetCaches tc)) = resetCaches (parTemperingStep ops sched k tc) := by
  unfold parTemperingStep
  rw [resetCaches_graphs]
  split
  · rfl
  · rw [body_reset_irrelevant ops _ _ _ tc h]

end Cache

/-! ## The caches stay valid: `ham_eq` depends only on a signature that no step changes -/
section CachePreserve
variable {F64 R Q U H : Type}

/-- `ham_eq` compares Hamiltonian parameters (`sig`), and neither `set_op_cutoff` nor `swap_graphs` (which exchanges
op managers and states only) changes them. -/
structure HamStable (ops : Ops F64 R Q U) (sig : Q → H) (eqH : H → H → Bool) : Prop where
  hamEq_sig : ∀ a b, ops.hamEq a b = eqH (sig a) (sig b)
  sig_setCutoff : ∀ c q, sig (ops.setCutoff c q) = sig q
  sig_swap : ∀ a b u e, sig (ops.swapOn a b u e).1.1 = sig a.1 ∧ sig (ops.swapOn a b u e).2.1.1 = sig b.1

def sigs (sig : Q → H) (l : List (Q × F64)) : List H := l.map (fun g => sig g.1)

theorem eqsOf_congr {ops : Ops F64 R Q U} {sig : Q → H} {eqH : H → H → Bool} (hs : HamStable ops sig eqH) :
    ∀ (l l' : List (Q × F64)), sigs sig l = sigs sig l' → eqsOf ops l = eqsOf ops l'
  | a :: b :: rest, l', h => by
    match l', h with
    | a' :: b' :: rest', h =>
      simp only [sigs, List.map_cons, List.cons.injEq] at h
      obtain ⟨ha, hb, hr⟩ := h
      simp only [eqsOf, hs.hamEq_sig, ha, hb]
      rw [eqsOf_congr hs rest rest' hr]
    | [a'], h => simp [sigs] at h
    | [], h => simp [sigs] at h
  | [a], l', h => by
    match l', h with
    | [a'], _ => simp [eqsOf]
    | [], h => simp [sigs] at h
    | _ :: _ :: _, h => simp [sigs] at h
  | [], l', h => by
    match l', h with
    | [], _ => rfl
    | _ :: _, h => simp [sigs] at h

theorem sigs_length (sig : Q → H) (l : List (Q × F64)) : (sigs sig l).length = l.length := by simp [sigs]

theorem sigs_firstSub (sig : Q → H) (l l' : List (Q × F64)) (h : sigs sig l = sigs sig l') :
    sigs sig (firstSub l).1 = sigs sig (firstSub l').1 := by
  have hl : l.length = l'.length := by rw [← sigs_length sig l, h, sigs_length]
  simp only [firstSub, sigs, List.map_take] at *
  rw [h, hl]

theorem sigs_secondSub (sig : Q → H) (l l' : List (Q × F64)) (h : sigs sig l = sigs sig l') :
    sigs sig (secondSub l).2.1 = sigs sig (secondSub l').2.1 := by
  have hl : l.length = l'.length := by rw [← sigs_length sig l, h, sigs_length]
  simp only [secondSub, sigs] at *
  rw [hl]
  split <;> simp only [List.map_take, List.map_drop, h]

theorem firstSub_append {α : Type} (l : List α) : (firstSub l).1 ++ (firstSub l).2 = l := by
  simp [firstSub]

theorem secondSub_append {α : Type} (l : List α) :
    (secondSub l).1 ++ (secondSub l).2.1 ++ (secondSub l).2.2 = l := by
  unfold secondSub
  split
  · simp only [List.append_nil]
    exact List.take_append_drop 1 l
  · rename_i h
    rcases l with _ | ⟨a, l⟩
    · rfl
    · simp only [List.length_cons, List.take_succ_cons, List.take_zero, List.drop_succ_cons, List.drop_zero,
        Nat.add_sub_cancel, List.cons_append, List.nil_append, List.cons.injEq, true_and]
      have : l.length - 1 + 1 = l.length := by
        simp only [List.length_cons] at h
        omega
      have h2 : List.drop l.length (a :: l) = List.drop (l.length - 1) l := by
        conv_lhs => rw [← this]
        rfl
      rw [h2, show l.length + 1 - 2 = l.length - 1 by omega, List.take_append_drop]

theorem performSwaps_sigs {ops : Ops F64 R Q U} {sig : Q → H} {eqH : H → H → Bool} (hs : HamStable ops sig eqH) :
    ∀ (r : R) (l : List (Q × F64)) (eqs : List Bool), sigs sig (performSwaps ops r l eqs).1 = sigs sig l
  | r, a :: b :: rest, [] => by simp [performSwaps]
  | r, a :: b :: rest, eq :: eqs' => by
    have ih := performSwaps_sigs hs (ops.genUnif r).2 rest eqs'
    have h2 := hs.sig_swap a b (ops.genUnif r).1 (!eq)
    simp only [performSwaps, sigs, List.map_cons] at *
    rw [ih, h2.1, h2.2]
  | r, [a], eqs => by simp [performSwaps]
  | r, [], eqs => by simp [performSwaps]

/-- a swap routine that keeps the signatures in place -/
def KeepsSigs (sig : Q → H) (sw : R → List (Q × F64) → List Bool → List (Q × F64) × R × Nat) : Prop :=
  ∀ r l eqs, sigs sig (sw r l eqs).1 = sigs sig l

theorem sigs_append (sig : Q → H) (l l' : List (Q × F64)) : sigs sig (l ++ l') = sigs sig l ++ sigs sig l' := by
  simp [sigs]

theorem phaseA_keeps {sig : Q → H} {sw} (h : KeepsSigs (F64 := F64) sig sw) (s : TC F64 R Q × R) :
    sigs sig (phaseA sw s).1.graphs = sigs sig s.1.graphs ∧
    (phaseA sw s).1.graph_ham_eq_a = s.1.graph_ham_eq_a ∧ (phaseA sw s).1.graph_ham_eq_b = s.1.graph_ham_eq_b := by
  refine ⟨?_, rfl, rfl⟩
  have h' : ∀ r l eqs, sigs sig (sw r l eqs).1 = sigs sig l := h
  simp only [phaseA, sigs_append, h']
  rw [← sigs_append, firstSub_append]

theorem phaseB_keeps {sig : Q → H} {sw} (h : KeepsSigs (F64 := F64) sig sw) (s : TC F64 R Q × R) :
    sigs sig (phaseB sw s).1.graphs = sigs sig s.1.graphs ∧
    (phaseB sw s).1.graph_ham_eq_a = s.1.graph_ham_eq_a ∧ (phaseB sw s).1.graph_ham_eq_b = s.1.graph_ham_eq_b := by
  refine ⟨?_, rfl, rfl⟩
  have h' : ∀ r l eqs, sigs sig (sw r l eqs).1 = sigs sig l := h
  simp only [phaseB, sigs_append, h']
  rw [← sigs_append, ← sigs_append, secondSub_append]

theorem rest_keeps {ops : Ops F64 R Q U} {sig : Q → H} {setAll swA swB}
    (hset : ∀ c l, sigs sig (setAll c l) = sigs sig l)
    (hA : KeepsSigs sig swA) (hB : KeepsSigs sig swB) (tc : TC F64 R Q) :
    sigs sig (temperingRest ops setAll swA swB tc).graphs = sigs sig tc.graphs ∧
    (temperingRest ops setAll swA swB tc).graph_ham_eq_a = tc.graph_ham_eq_a ∧
    (temperingRest ops setAll swA swB tc).graph_ham_eq_b = tc.graph_ham_eq_b := by
  unfold temperingRest
  simp only
  split
  · exact ⟨hset _ _, rfl, rfl⟩
  · rename_i r hr
    have h1 := phaseA_keeps hA ({ tc with graphs := setAll (maxCutoff ops tc.graphs) tc.graphs }, (ops.genHalf r).2)
    have h2 := phaseB_keeps hB (phaseA swA ({ tc with graphs := setAll (maxCutoff ops tc.graphs) tc.graphs }, (ops.genHalf r).2))
    have h3 := phaseB_keeps hB ({ tc with graphs := setAll (maxCutoff ops tc.graphs) tc.graphs }, (ops.genHalf r).2)
    have h4 := phaseA_keeps hA (phaseB swB ({ tc with graphs := setAll (maxCutoff ops tc.graphs) tc.graphs }, (ops.genHalf r).2))
    split
    · simp only
      exact ⟨by rw [h2.1, h1.1]; exact hset _ _, by rw [h2.2.1, h1.2.1], by rw [h2.2.2, h1.2.2]⟩
    · simp only
      exact ⟨by rw [h4.1, h3.1]; exact hset _ _, by rw [h4.2.1, h3.2.1], by rw [h4.2.2, h3.2.2]⟩

theorem cacheValid_fill (ops : Ops F64 R Q U) (tc : TC F64 R Q) :
    CacheValid ops (fillCaches ops tc) := ⟨Or.inr rfl, Or.inr rfl⟩

theorem body_cacheValid {ops : Ops F64 R Q U} {sig : Q → H} {eqH : H → H → Bool} (hs : HamStable ops sig eqH)
    {setAll swA swB} (hset : ∀ c l, sigs sig (setAll c l) = sigs sig l)
    (hA : KeepsSigs sig swA) (hB : KeepsSigs sig swB) (tc : TC F64 R Q) (h : CacheValid ops tc) :
    CacheValid ops (temperingBody ops setAll swA swB tc) := by
  unfold temperingBody
  rw [ensure_of_valid ops tc h]
  obtain ⟨hg, ha, hb⟩ := rest_keeps (ops := ops) hset hA hB (fillCaches ops tc)
  have hg' : sigs sig (temperingRest ops setAll swA swB (fillCaches ops tc)).graphs = sigs sig tc.graphs := hg
  constructor
  · right
    rw [ha]
    show some (eqsOf ops (firstSub tc.graphs).1) = _
    rw [eqsOf_congr hs _ _ (sigs_firstSub sig _ _ hg')]
  · right
    rw [hb]
    show some (eqsOf ops (secondSub tc.graphs).2.1) = _
    rw [eqsOf_congr hs _ _ (sigs_secondSub sig _ _ hg')]

theorem setAllSerial_sigs {ops : Ops F64 R Q U} {sig : Q → H} {eqH : H → H → Bool} (hs : HamStable ops sig eqH)
    (c : Nat) (l : List (Q × F64)) : sigs sig (setAllSerial ops c l) = sigs sig l := by
  simp [sigs, setAllSerial, hs.sig_setCutoff]

theorem step_cacheValid {ops : Ops F64 R Q U} {sig : Q → H} {eqH : H → H → Bool} (hs : HamStable ops sig eqH)
    (tc : TC F64 R Q) (h : CacheValid ops tc) : CacheValid ops (temperingStep ops tc) := by
  unfold temperingStep
  split
  · exact h
  · exact body_cacheValid hs (setAllSerial_sigs hs) (performSwaps_sigs hs) (performSwaps_sigs hs) tc h

end CachePreserve

/-! ## Schedules of tasks on pairwise disjoint components -/
section Sched
variable {C : Type}

theorem modifyAt_getElem? (f : C → C) (i : Nat) (σ : List C) (j : Nat) :
    (modifyAt f i σ)[j]? = if i = j then σ[j]?.map f else σ[j]? := by
  induction σ generalizing i j with
  | nil => simp [modifyAt]
  | cons c cs ih =>
    cases i with
    | zero =>
      cases j with
      | zero => simp [modifyAt]
      | succ j => simp [modifyAt]
    | succ i =>
      cases j with
      | zero => simp [modifyAt]
      | succ j => simp [modifyAt, ih]

theorem modifyAt_length (f : C → C) (i : Nat) (σ : List C) : (modifyAt f i σ).length = σ.length := by
  induction σ generalizing i with
  | nil => cases i <;> simp [modifyAt]
  | cons c cs ih => cases i <;> simp [modifyAt, ih]

/-- what a schedule does to component `i` is: apply `i`'s own tasks in their order -/
theorem runTasks_getElem? (ts : List (Task C)) (σ : List C) (i : Nat) :
    (runTasks ts σ)[i]? = (σ[i]?).map (applyAll (proj i ts)) := by
  induction ts generalizing σ with
  | nil =>
    have : applyAll (proj i ([] : List (Task C))) = id := rfl
    rw [this]
    simp [runTasks]
  | cons t ts ih =>
    have : runTasks (t :: ts) σ = runTasks ts (modifyAt t.f t.idx σ) := rfl
    rw [this, ih, modifyAt_getElem?]
    by_cases h : t.idx = i
    · subst h
      simp only [if_true, proj, List.filter_cons, beq_self_eq_true, List.map_cons, Option.map_map]
      rfl
    · have hb : (t.idx == i) = false := by simpa using h
      simp only [h, if_false, proj, List.filter_cons, hb]
      rfl

/-- **Schedule independence**: two schedules that show every component the same sequence of its own tasks end in
the same state — in particular every interleaving of the per-component task lists. -/
theorem schedule_independent (s1 s2 : List (Task C)) (σ : List C) (h : ∀ i, proj i s1 = proj i s2) :
    runTasks s1 σ = runTasks s2 σ := by
  apply List.ext_getElem?
  intro i
  rw [runTasks_getElem?, runTasks_getElem?, h i]

theorem mapIdxFrom_getElem? (f : Nat → C → C) (k : Nat) (σ : List C) (i : Nat) :
    (mapIdxFrom f k σ)[i]? = (σ[i]?).map (f (k + i)) := by
  induction σ generalizing k i with
  | nil => simp [mapIdxFrom]
  | cons c cs ih =>
    cases i with
    | zero => simp [mapIdxFrom]
    | succ i =>
      simp only [mapIdxFrom, List.getElem?_cons_succ, ih]
      congr 2
      omega

theorem mapIdxFrom_const (g : C → C) (k : Nat) (σ : List C) : mapIdxFrom (fun _ => g) k σ = σ.map g := by
  induction σ generalizing k with
  | nil => rfl
  | cons c cs ih => simp [mapIdxFrom, ih]

theorem proj_order (f : Nat → C → C) (order : List Nat) (n : Nat) (h : order.Perm (List.range n)) (i : Nat) :
    proj i (order.map fun j => (⟨j, f j⟩ : Task C)) = if i < n then [f i] else [] := by
  unfold proj
  rw [List.filter_map]
  have hf : ((fun t : Task C => t.idx == i) ∘ fun j => (⟨j, f j⟩ : Task C)) = fun j => j == i := rfl
  rw [hf, List.filter_beq, h.count_eq, List.count_range]
  split <;> simp

/-- a `par_iter_mut` section run in ANY order of its tasks equals the sequential loop -/
theorem parSection_eq (f : Nat → C → C) (order : List Nat) (σ : List C) (h : order.Perm (List.range σ.length)) :
    parSection f order σ = mapIdxFrom f 0 σ := by
  apply List.ext_getElem?
  intro i
  rw [parSection, runTasks_getElem?, proj_order f order σ.length h, mapIdxFrom_getElem?]
  by_cases hi : i < σ.length
  · simp [hi, applyAll]
  · have : σ[i]? = none := by simp; omega
    simp [this]

theorem parSection_const (g : C → C) (order : List Nat) (σ : List C) (h : order.Perm (List.range σ.length)) :
    parSection (fun _ => g) order σ = σ.map g := by
  rw [parSection_eq _ _ _ h, mapIdxFrom_const]

end Sched

/-! ## Pre-drawn swap uniforms: the rayon swap routine equals the serial one -/
section Swaps
variable {F64 R Q U : Type}

theorem chunks2_length {α : Type} : ∀ (l : List α), (chunks2 l).length = l.length / 2
  | a :: b :: rest => by
    simp only [chunks2, List.length_cons, chunks2_length rest]
    omega
  | [a] => by simp [chunks2]
  | [] => by simp [chunks2]

theorem drawN_length (ops : Ops F64 R Q U) : ∀ (k : Nat) (r : R), (drawN ops k r).1.length = k
  | 0, r => rfl
  | k + 1, r => by simp [drawN, drawN_length ops k]

/-- serial `perform_swaps` written as "draw everything, then map the pair task" -/
theorem performSwaps_eq_drawn (ops : Ops F64 R Q U) :
    ∀ (r : R) (l : List (Q × F64)) (eqs : List Bool), l.length / 2 ≤ eqs.length →
      performSwaps ops r l eqs =
        (unchunks2 (((((chunks2 l).zip ((drawN ops (l.length / 2) r).1.zip eqs)).map (fun c => (c, false))).map
            (pairTask ops)).map (·.1.1)) ++ l.drop (2 * ((chunks2 l).zip ((drawN ops (l.length / 2) r).1.zip eqs)).length),
          (drawN ops (l.length / 2) r).2,
          countTrue (((((chunks2 l).zip ((drawN ops (l.length / 2) r).1.zip eqs)).map (fun c => (c, false))).map
            (pairTask ops)).map (·.2)))
  | r, a :: b :: rest, [], h => by
    exfalso
    simp only [List.length_cons, List.length_nil] at h
    omega
  | r, a :: b :: rest, eq :: eqs', h => by
    have hlen : (a :: b :: rest).length / 2 = rest.length / 2 + 1 := by simp only [List.length_cons]; omega
    have h' : rest.length / 2 ≤ eqs'.length := by
      simp only [List.length_cons] at h; omega
    have ih := performSwaps_eq_drawn ops (ops.genUnif r).2 rest eqs' h'
    rw [hlen]
    simp only [performSwaps, drawN, chunks2, List.zip_cons_cons, List.map_cons, pairTask, unchunks2, ih,
      List.length_cons, List.cons_append, countTrue, List.filter_cons, id]
    refine Prod.ext ?_ (Prod.ext rfl ?_)
    · simp only [List.cons.injEq, true_and]
      congr 1
    · simp only
      split <;> simp
  | r, [a], eqs, _ => by simp [performSwaps, drawN, chunks2, unchunks2, countTrue]
  | r, [], eqs, _ => by simp [performSwaps, drawN, chunks2, unchunks2, countTrue]

/-- **`swap_uniforms_pre_drawn`**: the parallel swap routine (uniforms drawn before the parallel section, pair tasks in
any order) returns the same replicas, RNG and swap count as the serial routine — same draws, same order. -/
theorem parPerformSwaps_eq (ops : Ops F64 R Q U) (order : List Nat) (r : R) (l : List (Q × F64)) (eqs : List Bool)
    (hlen : l.length / 2 ≤ eqs.length) (hord : order.Perm (List.range (min (l.length / 2) eqs.length))) :
    parPerformSwaps ops order r l eqs = performSwaps ops r l eqs := by
  unfold parPerformSwaps
  split
  · rename_i he
    have : l = [] := by simpa using he
    subst this
    simp [performSwaps]
  · rw [performSwaps_eq_drawn ops r l eqs hlen]
    have hc : (((chunks2 l).zip ((drawN ops (l.length / 2) r).1.zip eqs)).map (fun c => (c, false))).length
        = min (l.length / 2) eqs.length := by
      simp [chunks2_length, drawN_length]
    simp only
    rw [parSection_const _ _ _ (by rw [hc]; exact hord)]
    simp

end Swaps

/-! ## The rayon tempering step equals the serial one under every valid scheduler -/
section ParStep
variable {F64 R Q U : Type}

/-- enough cached equalities for the pairs of the first sub-slice -/
def CacheLen (tc : TC F64 R Q) : Prop :=
  (tc.graphs.length - tc.graphs.length % 2) / 2 ≤ (tc.graph_ham_eq_a.getD []).length

theorem firstSub_fst_length {α : Type} (l : List α) : (firstSub l).1.length = l.length - l.length % 2 := by
  simp only [firstSub, List.length_take]
  omega

theorem eqsOf_length (ops : Ops F64 R Q U) : ∀ l : List (Q × F64), (eqsOf ops l).length = l.length / 2
  | a :: b :: rest => by
    simp only [eqsOf, List.length_cons, eqsOf_length ops rest]
    omega
  | [a] => by simp [eqsOf]
  | [] => by simp [eqsOf]

theorem performSwaps_length (ops : Ops F64 R Q U) :
    ∀ (r : R) (l : List (Q × F64)) (eqs : List Bool), (performSwaps ops r l eqs).1.length = l.length
  | r, a :: b :: rest, [] => by simp [performSwaps]
  | r, a :: b :: rest, eq :: eqs' => by
    have ih := performSwaps_length ops (ops.genUnif r).2 rest eqs'
    simp only [performSwaps, List.length_cons, ih]
  | r, [a], eqs => by simp [performSwaps]
  | r, [], eqs => by simp [performSwaps]

theorem phaseB_serial_length (ops : Ops F64 R Q U) (s : TC F64 R Q × R) :
    (phaseB (performSwaps ops) s).1.graphs.length = s.1.graphs.length := by
  have h := congrArg List.length (secondSub_append s.1.graphs)
  simp only [List.length_append] at h
  simp only [phaseB, List.length_append, performSwaps_length]
  exact h

theorem cacheLen_ensure (ops : Ops F64 R Q U) (tc : TC F64 R Q) (h : CacheValid ops tc) :
    CacheLen (ensureCaches ops tc) := by
  rw [ensure_of_valid ops tc h]
  show _ ≤ (eqsOf ops (firstSub tc.graphs).1).length
  rw [eqsOf_length, firstSub_fst_length]
  exact Nat.le_refl _

theorem phaseA_par_eq (ops : Ops F64 R Q U) (sched : Scheduler) (hv : sched.Valid) (k : Nat) (s : TC F64 R Q × R)
    (h : CacheLen s.1) :
    phaseA (fun r l eqs => parPerformSwaps ops (sched 2 k (min (l.length / 2) eqs.length)) r l eqs) s
      = phaseA (performSwaps ops) s := by
  unfold phaseA
  simp only
  rw [parPerformSwaps_eq ops _ s.2 (firstSub s.1.graphs).1 (s.1.graph_ham_eq_a.getD [])
    (by rw [firstSub_fst_length]; exact h) (hv 2 k _)]

theorem rest_par_eq (ops : Ops F64 R Q U) (sched : Scheduler) (hv : sched.Valid) (k : Nat) (tc : TC F64 R Q)
    (h : CacheLen tc) :
    temperingRest ops (fun c l => parSection (fun _ g => (ops.setCutoff c g.1, g.2)) (sched 1 k l.length) l)
        (fun r l eqs => parPerformSwaps ops (sched 2 k (min (l.length / 2) eqs.length)) r l eqs)
        (performSwaps ops) tc
      = temperingRest ops (setAllSerial ops) (performSwaps ops) (performSwaps ops) tc := by
  unfold temperingRest
  simp only
  rw [parSection_const _ _ _ (hv 1 k _)]
  have hset : (tc.graphs.map fun g => (ops.setCutoff (maxCutoff ops tc.graphs) g.1, g.2))
      = setAllSerial ops (maxCutoff ops tc.graphs) tc.graphs := rfl
  rw [hset]
  split
  · rfl
  · rename_i r hr
    have hl : (setAllSerial ops (maxCutoff ops tc.graphs) tc.graphs).length = tc.graphs.length := by
      simp [setAllSerial]
    have h1 : CacheLen ({ tc with graphs := setAllSerial ops (maxCutoff ops tc.graphs) tc.graphs }, (ops.genHalf r).2).1 := by
      show (_ - _ % 2) / 2 ≤ _
      simp only [hl]
      exact h
    have h2 : CacheLen (phaseB (performSwaps ops)
        ({ tc with graphs := setAllSerial ops (maxCutoff ops tc.graphs) tc.graphs }, (ops.genHalf r).2)).1 := by
      show (_ - _ % 2) / 2 ≤ _
      rw [phaseB_serial_length]
      exact h1
    rw [phaseA_par_eq ops sched hv k _ h1, phaseA_par_eq ops sched hv k _ h2]

/-- **parallel_tempering_step = tempering_step** for every valid scheduler (any pool size, any interleaving) and
every number of replicas (the one-replica container included since the repair of finding F30, see
`one_replica_agrees`). -/
theorem parTemperingStep_eq (ops : Ops F64 R Q U) (sched : Scheduler) (hv : sched.Valid) (k : Nat) (tc : TC F64 R Q)
    (hc : CacheValid ops tc) :
    parTemperingStep ops sched k tc = temperingStep ops tc := by
  unfold parTemperingStep temperingStep
  by_cases hlen : tc.graphs.length ≤ 1
  · simp only [hlen, if_true]
  · simp only [hlen, if_false]
    unfold temperingBody
    exact rest_par_eq ops sched hv k _ (cacheLen_ensure ops tc hc)

end ParStep

/-! ## `parallel_timesteps_sample` = `timesteps_sample` -/
section Driver
variable {F64 R Q U E A S H : Type}

theorem sampleLoop_congr (b1 b2 : Nat → LoopState F64 R Q A S → LoopState F64 R Q A S)
    (Inv : LoopState F64 R Q A S → Prop)
    (hb : ∀ k s, Inv s → b1 k s = b2 k s ∧ Inv (b2 k s)) :
    ∀ (fuel k : Nat) (s : LoopState F64 R Q A S), Inv s → sampleLoop b1 fuel k s = sampleLoop b2 fuel k s
  | 0, _, _, _ => rfl
  | fuel + 1, k, s, hi => by
    simp only [sampleLoop]
    split
    · rfl
    · rw [(hb k s hi).1]
      exact sampleLoop_congr b1 b2 Inv hb fuel (k + 1) _ (hb k s hi).2

theorem cacheValid_of_sigs {ops : Ops F64 R Q U} {sig : Q → H} {eqH : H → H → Bool} (hs : HamStable ops sig eqH)
    (tc : TC F64 R Q) (g' : List (Q × F64)) (hg : sigs sig g' = sigs sig tc.graphs) (h : CacheValid ops tc) :
    CacheValid ops { tc with graphs := g' } := by
  obtain ⟨ha, hb⟩ := h
  constructor
  · rcases ha with ha | ha
    · exact Or.inl ha
    · right
      show tc.graph_ham_eq_a = some (eqsOf ops (firstSub g').1)
      rw [ha, eqsOf_congr hs _ _ (sigs_firstSub sig _ _ hg)]
  · rcases hb with hb | hb
    · exact Or.inl hb
    · right
      show tc.graph_ham_eq_b = some (eqsOf ops (secondSub g').2.1)
      rw [hb, eqsOf_congr hs _ _ (sigs_secondSub sig _ _ hg)]

theorem step_length {ops : Ops F64 R Q U} {sig : Q → H} {eqH : H → H → Bool} (hs : HamStable ops sig eqH)
    (tc : TC F64 R Q) (hc : CacheValid ops tc) : (temperingStep ops tc).graphs.length = tc.graphs.length := by
  unfold temperingStep
  split
  · rfl
  · unfold temperingBody
    rw [ensure_of_valid ops tc hc]
    have h := (rest_keeps (ops := ops) (sig := sig) (setAllSerial_sigs hs) (performSwaps_sigs hs) (performSwaps_sigs hs)
      (fillCaches ops tc)).1
    have h2 := congrArg List.length h
    rw [sigs_length, sigs_length] at h2
    exact h2

/-- the loop invariant of the sampling drivers -/
def DriverInv (ops : Ops F64 R Q U) (s : LoopState F64 R Q A S) : Prop :=
  s.acc.length = s.tc.graphs.length ∧ s.states.length = s.tc.graphs.length ∧ CacheValid ops s.tc

theorem stepped_graphs (so : SampleOps F64 Q E A S) (sig : Q → H)
    (hts : ∀ t b q, sig (so.timesteps t b q).1 = sig q) (t : Nat) :
    ∀ (g : List (Q × F64)) (acc : List A), acc.length = g.length →
      sigs sig (((g.zip acc).map (stepTask so t)).map (·.1)) = sigs sig g ∧
      (((g.zip acc).map (stepTask so t)).map (·.2)).length = g.length
  | [], _, _ => by simp [sigs]
  | q :: g, [], h => by simp at h
  | q :: g, a :: acc, h => by
    have ih := stepped_graphs so sig hts t g acc (by simpa using h)
    simp only [sigs, List.zip_cons_cons, List.map_cons, stepTask, List.length_cons, List.map_map] at *
    exact ⟨by rw [hts, ih.1], by rw [ih.2]⟩

theorem body_eq_and_inv {ops : Ops F64 R Q U} {sig : Q → H} {eqH : H → H → Bool} (hs : HamStable ops sig eqH)
    (so : SampleOps F64 Q E A S) (hts : ∀ t b q, sig (so.timesteps t b q).1 = sig q)
    (sched : Scheduler) (hv : sched.Valid) (swapFreq sampleFreq : Nat) (k : Nat) (s : LoopState F64 R Q A S)
    (hi : DriverInv ops s) :
    loopBody (fun t σ => parSection (fun _ => stepTask so t) (sched 0 k σ.length) σ) (parTemperingStep ops sched k)
        (fun σ => parSection (fun _ => sampleTask so) (sched 3 k σ.length) σ) swapFreq sampleFreq s
      = loopBody (fun t σ => σ.map (stepTask so t)) (temperingStep ops) (fun σ => σ.map (sampleTask so))
          swapFreq sampleFreq s ∧
    DriverInv ops (loopBody (fun t σ => σ.map (stepTask so t)) (temperingStep ops) (fun σ => σ.map (sampleTask so))
          swapFreq sampleFreq s) := by
  obtain ⟨hacc, hst, hcv⟩ := hi
  obtain ⟨hsig, hlen2⟩ := stepped_graphs so sig hts (min (min s.toSample s.toSwap) s.remaining) s.tc.graphs s.acc hacc
  have hlen1 : (((s.tc.graphs.zip s.acc).map (stepTask so (min (min s.toSample s.toSwap) s.remaining))).map (·.1)).length
      = s.tc.graphs.length := by
    have := congrArg List.length hsig
    rwa [sigs_length, sigs_length] at this
  have hcv' := cacheValid_of_sigs hs s.tc _ hsig hcv
  have hpar := parTemperingStep_eq ops sched hv k
    { s.tc with graphs := ((s.tc.graphs.zip s.acc).map (stepTask so (min (min s.toSample s.toSwap) s.remaining))).map (·.1) }
    hcv'
  have hsl := step_length hs
    { s.tc with graphs := ((s.tc.graphs.zip s.acc).map (stepTask so (min (min s.toSample s.toSwap) s.remaining))).map (·.1) }
    hcv'
  have hscv := step_cacheValid hs _ hcv'
  constructor
  · unfold loopBody
    simp only [parSection_const _ _ _ (hv 0 k _), parSection_const _ _ _ (hv 3 k _), hpar]
  · unfold loopBody
    simp only
    refine ⟨?_, ?_, ?_⟩
    · simp only [hlen2]
      split
      · rw [hsl]; exact hlen1.symm
      · exact hlen1.symm
    · split <;> split <;> simp_all
    · split
      · exact hscv
      · exact hcv'

end Driver

/-! ## Cache validity is an invariant of everything the API can do to a container -/
section Reach
variable {F64 R Q U H : Type}

/-- `TemperingContainer::new` (regenerated literal): both caches empty -/
theorem cacheValid_new (ops : Ops F64 R Q U) (r : R) : CacheValid ops (TemperingContainer.new r : TC F64 R Q) := by
  simp [TemperingContainer.new, CacheValid]

/-- **`cache_valid_after_add`**, against the REGENERATED body of `add_qmc_stepper`: appending a replica changes both
sub-slices' pairings, so validity survives only because BOTH caches are reset.  (A body that resets one cache, or
resets under a parity guard, leaves a stale `Some` that is one entry short: this proof then fails.) -/
theorem cacheValid_add (ops : Ops F64 R Q U) (tc : TC F64 R Q) (q : Q) (beta : F64) (h : CacheValid ops tc) :
    CacheValid ops (addReplica tc q beta) := by
  cases tc with
  | mk graphs rng ea eb ts =>
    obtain ⟨ha, hb⟩ := h
    simp only at ha hb
    rcases ha with ha | ha <;> rcases hb with hb | hb <;> subst ha <;> subst hb <;>
      simp [addReplica, TemperingContainer.addQmcStepper, CacheValid]

/-- Everything reachable through the API: `new`, `add_qmc_stepper`, serial and rayon tempering steps, any update of
the replicas that leaves the Hamiltonian data in place (`timesteps`, and `graph_mut` used that way), and an RNG-less
snapshot / restore cycle. -/
inductive Reachable (ops : Ops F64 R Q U) (sig : Q → H) : TC F64 R Q → Prop
  | new (r : R) : Reachable ops sig (TemperingContainer.new r)
  | add {tc : TC F64 R Q} (q : Q) (beta : F64) : Reachable ops sig tc → Reachable ops sig (addReplica tc q beta)
  | step {tc : TC F64 R Q} : Reachable ops sig tc → Reachable ops sig (temperingStep ops tc)
  | parStep {tc : TC F64 R Q} (sched : Scheduler) (hv : sched.Valid) (k : Nat) :
      Reachable ops sig tc → Reachable ops sig (parTemperingStep ops sched k tc)
  | update {tc : TC F64 R Q} (g' : List (Q × F64)) (hg : sigs sig g' = sigs sig tc.graphs) :
      Reachable ops sig tc → Reachable ops sig { tc with graphs := g' }
  | restore {tc : TC F64 R Q} : Reachable ops sig tc → Reachable ops sig (resetCaches tc)

theorem reachable_cacheValid {ops : Ops F64 R Q U} {sig : Q → H} {eqH : H → H → Bool} (hs : HamStable ops sig eqH)
    {tc : TC F64 R Q} (h : Reachable ops sig tc) : CacheValid ops tc := by
  induction h with
  | new r => exact cacheValid_new ops r
  | add q beta _ ih => exact cacheValid_add ops _ q beta ih
  | step _ ih => exact step_cacheValid hs _ ih
  | parStep sched hv k _ ih =>
    rw [parTemperingStep_eq ops sched hv k _ ih]
    exact step_cacheValid hs _ ih
  | update g' hg _ ih => exact cacheValid_of_sigs hs _ g' hg ih
  | restore _ ih => exact cacheValid_reset ops _

end Reach

/-! ## Reset of a pooled `BondContainer` -/
section BcReset
variable {F64 K : Type}

theorem foldl_unmap_getElem? (idx : K → Nat) (keys : List (K × F64)) (m : List (Option Nat)) (i v : Nat)
    (h : (keys.foldl (fun m k => m.set (idx k.1) none) m)[i]? = some (some v)) :
    m[i]? = some (some v) ∧ ∀ k ∈ keys, idx k.1 ≠ i := by
  induction keys generalizing m with
  | nil => exact ⟨h, fun _ hk => by simp at hk⟩
  | cons k ks ih =>
    simp only [List.foldl_cons] at h
    obtain ⟨h1, h2⟩ := ih _ h
    rw [List.getElem?_set] at h1
    split at h1
    · split at h1 <;> simp at h1
    · rename_i hne
      exact ⟨h1, fun k' hk' => by
        rcases List.mem_cons.mp hk' with rfl | hk''
        · exact hne
        · exact h2 k' hk''⟩

/-- **a reset container is observably `Default`** — no keys, total weight EXACTLY zero (whatever floating-point
residue `remove()` left), nothing mapped; the last part needs the container's own map invariant. -/
theorem bcClear_clean (zero : F64) (idx : K → Nat) (bc : BondContainer F64 K) (hinv : bcMapInv idx bc) :
    bcClean zero (bcClear zero idx bc) := by
  refine ⟨rfl, rfl, ?_⟩
  intro i v h
  obtain ⟨h1, h2⟩ := foldl_unmap_getElem? idx bc.keys bc.map i v h
  obtain ⟨k, hk, hki⟩ := hinv i v h1
  exact h2 k hk hki

end BcReset

end Qmc.Snap
