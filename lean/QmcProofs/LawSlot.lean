import QmcProofs.LawTree
import QmcProofs.KernelInvarianceSweep
import Mathlib.Algebra.BigOperators.Fin

/-!
# Law of one Metropolis slot visit = the row of the slot kernel `slotKM`

* `metropolisSlot_refines` — **refinement**: for every script, `metropolisSlot … rs` is the run of the tree
  `metropolisSlotT …` (`QmcModel/ProbTree.lean`) on `rs` (result and RNG state, flags and margin included).
* `SlotLegal H c p` — what the kernel needs of the configuration at slot `p`.
* `law_metropolisSlot` — **law = kernel**: on a configuration legal at `p`, the idealised law of the visit
  of slot `p` (rolling state `stateAt c p`, count `countOps c.slots`, cutoff `c.slots.length`), transported
  along `result ↦ setSlot c p result.slot`, is the row `slotKM H β p c` of the kernel of
  `QmcProofs/KernelInvarianceSlot.lean` — which is *defined* from `slotFlip`, `pInsertM`, `pRemoveM`.
-/

open Finset

namespace Qmc.Law
open Qmc Qmc.Kernel Qmc.Dist

theorem withRS_run_ret (o : SlotOut) (rs : RS) :
    ((PT.run (PT.ret o) rs).1.withRS (PT.run (PT.ret o) rs).2) = ⟨o.slot, o.state, o.n, rs⟩ := rfl

theorem metropolisSlot_refines (H : Ham) (β : Rat) (L : Nat) (slot : Option Op) (st : List Bool) (n : Nat)
    (rs : RS) :
    metropolisSlot H β L slot st n rs =
      ((metropolisSlotT H β L slot st n).run rs).1.withRS ((metropolisSlotT H β L slot st n).run rs).2 := by
  unfold metropolisSlot metropolisSlotT
  cases slot with
  | none =>
    simp only [PT.run_pick, metropolisInsertT]
    split
    · simp only [PT.run_panic, PT.run_ret, SlotRes.panic, SlotOut.withRS]
    · simp only [PT.run_clipped]
      split <;> rfl
  | some op =>
    simp only
    split
    · split
      · simp only [PT.run_panic, PT.run_ret, SlotRes.panic, SlotOut.withRS]
      · simp only [PT.run_clipped]
        split <;> rfl
    · rfl

/-- what the slot kernel needs of the configuration at slot `p`: the variables of every bond are
defined in the state, and a diagonal-tagged operator is the canonical one of a bond of `H` -/
def SlotLegal (H : Ham) (c : Config) (p : Nat) : Prop :=
  (∀ b, b < H.nbonds → varsInRange (stateAt c p) (H.vars b) = true) ∧
  ∀ o, c.slots[p]? = some (some o) → o.tagDiag = true → o.bond < H.nbonds ∧ o = canonOp H c p o.bond

theorem sum_inv_card (n : Nat) (hn : 0 < n) : ∑ _i ∈ Finset.range n, (1 / (n : Rat)) = 1 := by
  rw [Finset.sum_const, Finset.card_range, nsmul_eq_mul]
  have : (n : Rat) ≠ 0 := by exact_mod_cast (Nat.pos_iff_ne_zero.mp hn)
  field_simp

theorem canonOp_inj {H : Ham} {c : Config} {p b b' : Nat} (h : canonOp H c p b = canonOp H c p b') : b = b' := by
  have := congrArg Op.bond h
  exact this

theorem setSlot_ne_of {c : Config} {p : Nat} {x y : Option Op} (h : c.slots[p]? = some x) (hxy : y ≠ x) :
    setSlot c p y ≠ c := by
  intro e
  have := getElem?_setSlot (lt_of_getElem? h) y
  rw [e, h] at this
  exact hxy (Option.some.inj this).symm

/-- algebra of the empty-slot case -/
theorem empty_slot_algebra (n : Nat) (hn : 0 < n) (A : Nat → Rat) (cb : Nat → Config) (c c' : Config)
    (hne : ∀ b, b < n → cb b ≠ c) :
    ∑ b ∈ Finset.range n, 1 / (n : Rat) *
        (A b * (if c' = cb b then 1 else 0) + (1 - A b) * (if c' = c then 1 else 0)) =
      (∑ b ∈ Finset.range n, if c' = cb b ∧ cb b ≠ c then 1 / (n : Rat) * A b else 0) +
        (if c' = c then 1 - ∑ b ∈ Finset.range n, (if cb b ≠ c then 1 / (n : Rat) * A b else 0) else 0) := by
  by_cases h0 : c' = c
  · have h1 : ∀ b ∈ Finset.range n, (if c' = cb b ∧ cb b ≠ c then 1 / (n : Rat) * A b else 0) = 0 := by
      intro b hb
      rw [if_neg]
      rintro ⟨e, hne'⟩
      exact hne' (e ▸ h0)
    have h2 : ∀ b ∈ Finset.range n, (if cb b ≠ c then 1 / (n : Rat) * A b else 0) = 1 / (n : Rat) * A b := by
      intro b hb
      rw [if_pos (hne b (Finset.mem_range.mp hb))]
    have h3 : ∀ b ∈ Finset.range n, 1 / (n : Rat) *
        (A b * (if c' = cb b then 1 else 0) + (1 - A b) * (if c' = c then 1 else 0)) =
        1 / (n : Rat) - 1 / (n : Rat) * A b := by
      intro b hb
      have : ¬ c' = cb b := fun e => hne b (Finset.mem_range.mp hb) (e ▸ h0)
      rw [if_neg this, if_pos h0]; ring
    rw [Finset.sum_congr rfl h1, Finset.sum_congr rfl h2, Finset.sum_congr rfl h3, Finset.sum_const_zero,
      Finset.sum_sub_distrib, sum_inv_card n hn, if_pos h0]
    ring
  · rw [if_neg h0 (t := 1 - ∑ b ∈ Finset.range n, (if cb b ≠ c then 1 / (n : Rat) * A b else 0)), add_zero]
    refine Finset.sum_congr rfl (fun b hb => ?_)
    rw [if_neg h0]
    by_cases h1 : c' = cb b
    · rw [if_pos h1, if_pos ⟨h1, hne b (Finset.mem_range.mp hb)⟩]; ring
    · rw [if_neg h1, if_neg (fun h => h1 h.1)]; ring


theorem natSub_nonneg (L n : Nat) : (0 : Rat) ≤ ((L - n : Nat) : Rat) := Nat.cast_nonneg _

/-- **law of one Metropolis slot visit = row of `slotKM`** -/
theorem law_metropolisSlot (H : Ham) (β : Rat) (hβ : 0 ≤ β) (hw : ∀ b i, 0 ≤ H.w b i i)
    (hNb : 0 < H.nbonds) (c : Config) (p : Nat) (s : Option Op) (hs : c.slots[p]? = some s)
    (hleg : SlotLegal H c p) (c' : Config) :
    PT.law (PT.map (fun r => setSlot c p r.slot)
      (metropolisSlotT H β c.slots.length s (stateAt c p) (countOps c.slots))) c' = slotKM H β p c c' := by
  have hp := lt_of_getElem? hs
  have hnL : ¬ (c.slots.length < countOps c.slots) := not_lt.mpr (countOps_le c.slots)
  have hNbq : (0 : Rat) ≤ (H.nbonds : Rat) := Nat.cast_nonneg _
  unfold slotKM movesK
  rw [Fin.sum_univ_eq_sum_range (fun b => if c' = slotFlip H p b c ∧ slotFlip H p b c ≠ c then
      slotProbM H β p b c else 0) H.nbonds,
    Fin.sum_univ_eq_sum_range (fun b => if slotFlip H p b c ≠ c then slotProbM H β p b c else 0) H.nbonds]
  cases s with
  | none =>
    -- the empty slot
    have hsplit := slots_split hs
    have hn : countOps c.slots < c.slots.length := by
      rw [hsplit]; exact countOps_split_none _ _
    have hden : (0 : Rat) < ((c.slots.length - countOps c.slots : Nat) : Rat) := by
      have : 0 < c.slots.length - countOps c.slots := by omega
      exact_mod_cast this
    have hself : setSlot c p none = c := setSlot_self hs
    unfold metropolisSlotT
    simp only [PT.map_pick, PT.law_pick]
    have hL : ∀ b ∈ Finset.range H.nbonds,
        1 / (H.nbonds : Rat) * PT.law (PT.map (fun r : SlotOut => setSlot c p r.slot)
          (metropolisInsertT H β c.slots.length (stateAt c p) (countOps c.slots) b)) c' =
        1 / (H.nbonds : Rat) *
          (accInsM β H.nbonds (curW H c p b) c.slots.length (countOps c.slots) *
              (if c' = setSlot c p (some (canonOp H c p b)) then 1 else 0) +
            (1 - accInsM β H.nbonds (curW H c p b) c.slots.length (countOps c.slots)) *
              (if c' = c then 1 else 0)) := by
      intro b hb
      have hb' := Finset.mem_range.mp hb
      have hg : ¬ (c.slots.length < countOps c.slots ∨ varsInRange (stateAt c p) (H.vars b) = false) := by
        rw [hleg.1 b hb']; simp; exact countOps_le _
      unfold metropolisInsertT
      simp only [if_neg hg]
      rw [PT.map_clipped, PT.law_clipped (mul_nonneg (mul_nonneg hβ hNbq) (hw b _)) (le_of_lt hden)
        (fun e => absurd e (ne_of_gt hden))]
      simp only [PT.map_ret, PT.law_ret, hself]
      rfl
    rw [Finset.sum_congr rfl hL]
    have hR1 : ∀ b ∈ Finset.range H.nbonds,
        (if c' = slotFlip H p b c ∧ slotFlip H p b c ≠ c then slotProbM H β p b c else 0) =
        (if c' = setSlot c p (some (canonOp H c p b)) ∧ setSlot c p (some (canonOp H c p b)) ≠ c then
          1 / (H.nbonds : Rat) * accInsM β H.nbonds (curW H c p b) c.slots.length (countOps c.slots) else 0) := by
      intro b _
      rw [slotFlip_empty hs]
      simp only [slotProbM, hs, pInsertM]
    have hR2 : ∀ b ∈ Finset.range H.nbonds,
        (if slotFlip H p b c ≠ c then slotProbM H β p b c else 0) =
        (if setSlot c p (some (canonOp H c p b)) ≠ c then
          1 / (H.nbonds : Rat) * accInsM β H.nbonds (curW H c p b) c.slots.length (countOps c.slots) else 0) := by
      intro b _
      rw [slotFlip_empty hs]
      simp only [slotProbM, hs, pInsertM]
    rw [Finset.sum_congr rfl hR1, Finset.sum_congr rfl hR2]
    exact empty_slot_algebra H.nbonds hNb _ (fun b => setSlot c p (some (canonOp H c p b))) c c'
      (fun b _ => setSlot_ne_of hs (by simp))
  | some op =>
    have hself : setSlot c p (some op) = c := setSlot_self hs
    by_cases hd : op.tagDiag = true
    · -- a diagonal operator: the canonical one of its bond
      obtain ⟨hb0, hcanon⟩ := hleg.2 op hs hd
      have hg : ¬ (c.slots.length < countOps c.slots ∨ varsInRange (stateAt c p) (H.vars op.bond) = false) := by
        rw [hleg.1 op.bond hb0]; simp; exact countOps_le _
      have hne : setSlot c p none ≠ c := setSlot_ne_of hs (by simp)
      have hflip0 : slotFlip H p op.bond c = setSlot c p none := by
        apply slotFlip_canon; rw [hs, ← hcanon]
      have hflip : ∀ b, b ≠ op.bond → slotFlip H p b c = c := by
        intro b hb
        unfold slotFlip
        simp only [hs]
        rw [if_neg]
        intro e
        rw [hcanon] at e
        exact hb (canonOp_inj e).symm
      unfold metropolisSlotT
      simp only [hd, if_true, if_neg hg, PT.map_clipped, PT.map_ret, hself]
      rw [PT.law_clipped (add_nonneg (natSub_nonneg _ _) zero_le_one)
        (mul_nonneg (mul_nonneg hβ hNbq) (hw op.bond _))
        (fun _ => add_pos_of_nonneg_of_pos (natSub_nonneg _ _) zero_lt_one)]
      rw [Finset.sum_eq_single op.bond, Finset.sum_eq_single op.bond]
      · rw [hflip0, if_pos hne]
        have hP : slotProbM H β p op.bond c =
            clipProb (((c.slots.length - countOps c.slots : Nat) : Rat) + 1)
              (β * (H.nbonds : Rat) * H.w op.bond (readVars (stateAt c p) (H.vars op.bond))
                (readVars (stateAt c p) (H.vars op.bond))) := by
          simp only [slotProbM, hs, pRemoveM, accRemM, curW]
        rw [hP]
        simp only [PT.law_ret]
        by_cases h1 : c' = setSlot c p none
        · have h2 : ¬ c' = c := fun e => hne (h1 ▸ e)
          simp [h1, hne]
        · simp [h1]
      · intro b _ hb; rw [hflip b hb]; simp
      · intro h; exact absurd (Finset.mem_range.mpr hb0) h
      · intro b _ hb; rw [hflip b hb]; simp
      · intro h; exact absurd (Finset.mem_range.mpr hb0) h
    · -- an off-diagonal operator: nothing happens to the configuration
      have hflip : ∀ b, slotFlip H p b c = c := by
        intro b
        unfold slotFlip
        simp only [hs]
        rw [if_neg]
        intro e
        apply hd
        rw [e]; rfl
      unfold metropolisSlotT
      have hd' : op.tagDiag = false := by simpa using hd
      simp only [hd', Bool.false_eq_true, if_false, PT.map_ret, PT.law_ret, hflip]
      rw [hself]
      simp
end Qmc.Law
