/-
C09 helper: what `legGraph` (QmcModel/Cluster.lean) computes, and the bridge between its link
edges and propagation: a mask configuration on a skeleton is `Consistent` exactly when its leg
values are equal along every world-line link of `legGraph` (and its state at p = 0 carries the value
of the first input leg of every variable).
-/
import QmcModel.ClusterExact
import QmcProofs.Cluster

namespace Qmc

/-! ### association lists -/

theorem lookup_filter_ne : ∀ (l : List (Nat × Nat)) (k k' : Nat), k' ≠ k →
    (l.filter (fun e => e.1 != k)).lookup k' = l.lookup k'
  | [], _, _, _ => rfl
  | (a, b) :: t, k, k', h => by
    by_cases hak : a = k
    · subst hak
      have : (k' == a) = false := by simpa using h
      simp [List.lookup_cons, this, lookup_filter_ne t a k' h]
    · have hf : ((a, b).1 != k) = true := by simpa using hak
      simp only [List.filter_cons, hf, if_true, List.lookup_cons, lookup_filter_ne t k k' h]

theorem lookup_assocSet (l : List (Nat × Nat)) (k x k' : Nat) :
    (assocSet l k x).lookup k' = if k' = k then some x else l.lookup k' := by
  simp only [assocSet, List.lookup_cons]
  by_cases h : k' = k
  · simp [h]
  · have : (k' == k) = false := by simpa using h
    simp [this, h, lookup_filter_ne l k k' h]

/-! ### one variable of one op -/

theorem stepVar_fields (nv : Nat) (sc : Scan) (kv : Nat × Nat) :
    (Scan.stepVar nv sc kv).off = sc.off ∧ (Scan.stepVar nv sc kv).p = sc.p ∧
    (Scan.stepVar nv sc kv).legs = sc.legs ∧ (Scan.stepVar nv sc kv).hasEdge = sc.hasEdge ∧
    (Scan.stepVar nv sc kv).opsAt = sc.opsAt := by
  unfold Scan.stepVar
  cases sc.last.lookup kv.2 <;> exact ⟨rfl, rfl, rfl, rfl, rfl⟩

theorem stepVar_last (nv : Nat) (sc : Scan) (kv : Nat × Nat) (v : Nat) :
    (Scan.stepVar nv sc kv).last.lookup v =
      if v = kv.2 then some (sc.off + nv + kv.1) else sc.last.lookup v := by
  unfold Scan.stepVar
  cases sc.last.lookup kv.2 <;> exact lookup_assocSet _ _ _ _

theorem stepVar_edges (nv : Nat) (sc : Scan) (kv : Nat × Nat) (e : Nat × Nat) :
    e ∈ (Scan.stepVar nv sc kv).edges ↔
      e ∈ sc.edges ∨ ∃ l, sc.last.lookup kv.2 = some l ∧ e = (l, sc.off + kv.1) := by
  unfold Scan.stepVar
  cases h : sc.last.lookup kv.2 with
  | none => simp
  | some l =>
    simp only [List.mem_cons, Option.some.injEq, exists_eq_left']
    exact Or.comm

theorem stepVar_first (nv : Nat) (sc : Scan) (kv : Nat × Nat) (vf : Nat × Nat) :
    vf ∈ (Scan.stepVar nv sc kv).first ↔
      vf ∈ sc.first ∨ (sc.last.lookup kv.2 = none ∧ vf = (kv.2, sc.off + kv.1)) := by
  unfold Scan.stepVar
  cases h : sc.last.lookup kv.2 with
  | none =>
    simp only [List.mem_cons, true_and]
    exact Or.comm
  | some l => simp

/-! ### all variables of one op -/

theorem foldl_stepVar (nv : Nat) : ∀ (kvs : List (Nat × Nat)) (sc : Scan), (kvs.map Prod.snd).Nodup →
    (kvs.foldl (Scan.stepVar nv) sc).off = sc.off ∧ (kvs.foldl (Scan.stepVar nv) sc).p = sc.p ∧
    (kvs.foldl (Scan.stepVar nv) sc).legs = sc.legs ∧
    (kvs.foldl (Scan.stepVar nv) sc).hasEdge = sc.hasEdge ∧
    (kvs.foldl (Scan.stepVar nv) sc).opsAt = sc.opsAt ∧
    (∀ kv ∈ kvs, (kvs.foldl (Scan.stepVar nv) sc).last.lookup kv.2 = some (sc.off + nv + kv.1)) ∧
    (∀ v, v ∉ kvs.map Prod.snd → (kvs.foldl (Scan.stepVar nv) sc).last.lookup v = sc.last.lookup v) ∧
    (∀ e, e ∈ (kvs.foldl (Scan.stepVar nv) sc).edges ↔
      e ∈ sc.edges ∨ ∃ kv ∈ kvs, ∃ l, sc.last.lookup kv.2 = some l ∧ e = (l, sc.off + kv.1)) ∧
    (∀ vf, vf ∈ (kvs.foldl (Scan.stepVar nv) sc).first ↔
      vf ∈ sc.first ∨ ∃ kv ∈ kvs, sc.last.lookup kv.2 = none ∧ vf = (kv.2, sc.off + kv.1))
  | [], sc, _ => by simp
  | kv :: t, sc, hn => by
    simp only [List.map_cons, List.nodup_cons] at hn
    obtain ⟨hnot, hnt⟩ := hn
    obtain ⟨f1, f2, f3, f4, f5⟩ := stepVar_fields nv sc kv
    obtain ⟨i1, i2, i3, i4, i5, i6, i7, i8, i9⟩ := foldl_stepVar nv t (Scan.stepVar nv sc kv) hnt
    have hne : ∀ kv' ∈ t, kv'.2 ≠ kv.2 := fun kv' h he => hnot (he ▸ List.mem_map_of_mem h)
    simp only [List.foldl_cons]
    refine ⟨by rw [i1, f1], by rw [i2, f2], by rw [i3, f3], by rw [i4, f4], by rw [i5, f5], ?_, ?_, ?_, ?_⟩
    · intro kv' hkv'
      rcases List.mem_cons.mp hkv' with rfl | h
      · rw [i7 _ hnot, stepVar_last, if_pos rfl]
      · rw [i6 kv' h, f1]
    · intro v hv
      simp only [List.map_cons, List.mem_cons, not_or] at hv
      rw [i7 v hv.2, stepVar_last, if_neg hv.1]
    · intro e
      rw [i8 e, stepVar_edges, f1]
      constructor
      · rintro ((h | ⟨l, hl, he⟩) | ⟨kv', hkv', l, hl, he⟩)
        · exact Or.inl h
        · exact Or.inr ⟨kv, List.mem_cons_self .., l, hl, he⟩
        · rw [stepVar_last, if_neg (hne kv' hkv')] at hl
          exact Or.inr ⟨kv', List.mem_cons_of_mem _ hkv', l, hl, he⟩
      · rintro (h | ⟨kv', hkv', l, hl, he⟩)
        · exact Or.inl (Or.inl h)
        · rcases List.mem_cons.mp hkv' with rfl | h
          · exact Or.inl (Or.inr ⟨l, hl, he⟩)
          · refine Or.inr ⟨kv', h, l, ?_, he⟩
            rw [stepVar_last, if_neg (hne kv' h)]; exact hl
    · intro vf
      rw [i9 vf, stepVar_first, f1]
      constructor
      · rintro ((h | ⟨hl, he⟩) | ⟨kv', hkv', hl, he⟩)
        · exact Or.inl h
        · exact Or.inr ⟨kv, List.mem_cons_self .., hl, he⟩
        · rw [stepVar_last, if_neg (hne kv' hkv')] at hl
          exact Or.inr ⟨kv', List.mem_cons_of_mem _ hkv', hl, he⟩
      · rintro (h | ⟨kv', hkv', hl, he⟩)
        · exact Or.inl (Or.inl h)
        · rcases List.mem_cons.mp hkv' with rfl | h
          · exact Or.inl (Or.inr ⟨hl, he⟩)
          · refine Or.inr ⟨kv', h, ?_, he⟩
            rw [stepVar_last, if_neg (hne kv' h)]; exact hl

theorem mem_zip_range (vs : List Nat) (kv : Nat × Nat) :
    kv ∈ (List.range vs.length).zip vs ↔ vs[kv.1]? = some kv.2 := by
  rw [List.mem_iff_getElem?]
  constructor
  · rintro ⟨i, hi⟩
    rw [List.getElem?_zip_eq_some] at hi
    obtain ⟨h1, h2⟩ := hi
    obtain ⟨_, h3⟩ := List.getElem?_eq_some_iff.mp h1
    have : i = kv.1 := by simpa using h3
    rw [← this]; exact h2
  · intro h
    have hlt : kv.1 < vs.length := by
      rcases Nat.lt_or_ge kv.1 vs.length with h' | h'
      · exact h'
      · rw [List.getElem?_eq_none h'] at h; cases h
    refine ⟨kv.1, ?_⟩
    rw [List.getElem?_zip_eq_some]
    exact ⟨by simp [hlt], h⟩

theorem map_snd_zip_range (vs : List Nat) : ((List.range vs.length).zip vs).map Prod.snd = vs :=
  List.map_snd_zip (by simp)

theorem mem_tail_range (m j : Nat) : j ∈ (List.range m).tail ↔ 1 ≤ j ∧ j < m := by
  cases m with
  | zero => simp
  | succ m =>
    rw [List.range_succ_eq_map, List.tail_cons, List.mem_map]
    constructor
    · rintro ⟨a, ha, rfl⟩
      exact ⟨Nat.succ_le_succ (Nat.zero_le _), Nat.succ_lt_succ (List.mem_range.mp ha)⟩
    · rintro ⟨h1, h2⟩
      exact ⟨j - 1, List.mem_range.mpr (by omega), by omega⟩

/-! ### one op -/

structure StepSpec (sc : Scan) (o : SkOp) (r : Scan) : Prop where
  off : r.off = sc.off + 2 * o.vars.length
  hasEdge : r.hasEdge = (sc.hasEdge || o.isEdge)
  opsAt : r.opsAt = sc.opsAt ++ [(sc.off, o)]
  lastIn : ∀ k v, o.vars[k]? = some v → r.last.lookup v = some (sc.off + o.vars.length + k)
  lastOut : ∀ v, v ∉ o.vars → r.last.lookup v = sc.last.lookup v
  edges : ∀ e, e ∈ r.edges ↔ e ∈ sc.edges ∨
    (o.isEdge = false ∧ ∃ j, 1 ≤ j ∧ j < 2 * o.vars.length ∧ e = (sc.off, sc.off + j)) ∨
    (∃ k v l, o.vars[k]? = some v ∧ sc.last.lookup v = some l ∧ e = (l, sc.off + k))
  first : ∀ vf, vf ∈ r.first ↔ vf ∈ sc.first ∨
    ∃ k v, o.vars[k]? = some v ∧ sc.last.lookup v = none ∧ vf = (v, sc.off + k)

theorem step_some_spec (sc : Scan) (o : SkOp) (hn : o.vars.Nodup) : StepSpec sc o (sc.step (some o)) := by
  have hnod : (((List.range o.vars.length).zip o.vars).map Prod.snd).Nodup := by
    rw [map_snd_zip_range]; exact hn
  obtain ⟨i1, _, _, i4, i5, i6, i7, i8, i9⟩ :=
    foldl_stepVar o.vars.length ((List.range o.vars.length).zip o.vars) sc hnod
  refine ⟨rfl, ?_, ?_, ?_, ?_, ?_, ?_⟩
  · simp only [Scan.step]
  · simp only [Scan.step]
  · intro k v hkv
    simp only [Scan.step]
    exact i6 (k, v) ((mem_zip_range o.vars (k, v)).mpr hkv)
  · intro v hv
    simp only [Scan.step]
    exact i7 v (by rw [map_snd_zip_range]; exact hv)
  · intro e
    simp only [Scan.step, List.mem_append, i8 e]
    constructor
    · rintro (h | h | ⟨kv, hkv, l, hl, he⟩)
      · cases hed : o.isEdge
        · rw [hed] at h
          simp only [Bool.false_eq_true, if_false, List.mem_map] at h
          obtain ⟨j, hj, rfl⟩ := h
          exact Or.inr (Or.inl ⟨rfl, j, ((mem_tail_range _ _).mp hj).1, ((mem_tail_range _ _).mp hj).2, rfl⟩)
        · rw [hed] at h; simp at h
      · exact Or.inl h
      · exact Or.inr (Or.inr ⟨kv.1, kv.2, l, (mem_zip_range o.vars kv).mp hkv, hl, he⟩)
    · rintro (h | ⟨hed, j, h1, h2, rfl⟩ | ⟨k, v, l, hkv, hl, he⟩)
      · exact Or.inr (Or.inl h)
      · refine Or.inl ?_
        rw [hed]
        simp only [Bool.false_eq_true, if_false, List.mem_map]
        exact ⟨j, (mem_tail_range _ _).mpr ⟨h1, h2⟩, rfl⟩
      · exact Or.inr (Or.inr ⟨(k, v), (mem_zip_range o.vars (k, v)).mpr hkv, l, hl, he⟩)
  · intro vf
    simp only [Scan.step, i9 vf]
    constructor
    · rintro (h | ⟨kv, hkv, hl, he⟩)
      · exact Or.inl h
      · exact Or.inr ⟨kv.1, kv.2, (mem_zip_range o.vars kv).mp hkv, hl, he⟩
    · rintro (h | ⟨k, v, hkv, hl, he⟩)
      · exact Or.inl h
      · exact Or.inr ⟨(k, v), (mem_zip_range o.vars (k, v)).mpr hkv, hl, he⟩

theorem step_none_fields (sc : Scan) :
    (sc.step none).off = sc.off ∧ (sc.step none).last = sc.last ∧ (sc.step none).first = sc.first ∧
    (sc.step none).edges = sc.edges ∧ (sc.step none).hasEdge = sc.hasEdge ∧
    (sc.step none).opsAt = sc.opsAt := ⟨rfl, rfl, rfl, rfl, rfl, rfl⟩

/-! ### the scan of a string -/

/-- scan of (the rest of) a string from an intermediate scan state -/
def scanFrom (sc : Scan) (s : Slots) : Scan := (skeleton s).foldl Scan.step sc

theorem scanFrom_nil (sc : Scan) : scanFrom sc [] = sc := rfl
theorem scanFrom_none (sc : Scan) (t : Slots) : scanFrom sc (none :: t) = scanFrom (sc.step none) t := rfl
theorem scanFrom_some (sc : Scan) (o : Op) (t : Slots) :
    scanFrom sc (some o :: t) = scanFrom (sc.step (some o.sk)) t := rfl

/-- ops of a string with the leg id of their first leg -/
def opOffsets : Nat → Slots → List (Nat × Op)
  | _, [] => []
  | off, none :: t => opOffsets off t
  | off, some o :: t => (off, o) :: opOffsets (off + 2 * o.vars.length) t

def NodupVars (s : Slots) : Prop := ∀ o ∈ opsOf s, o.vars.Nodup

theorem NodupVars.tail_none {t : Slots} (h : NodupVars (none :: t)) : NodupVars t :=
  fun o ho => h o (by simpa [opsOf] using ho)
theorem NodupVars.tail_some {o : Op} {t : Slots} (h : NodupVars (some o :: t)) : NodupVars t :=
  fun o' ho => h o' (by simp [opsOf, ho])
theorem NodupVars.head {o : Op} {t : Slots} (h : NodupVars (some o :: t)) : o.vars.Nodup :=
  h o (by simp [opsOf])

/-- structural facts about the scan that do not involve leg values -/
theorem scanFrom_facts : ∀ (m : Slots) (sc : Scan), NodupVars m →
    (∀ e ∈ sc.edges, e ∈ (scanFrom sc m).edges) ∧ (∀ vf ∈ sc.first, vf ∈ (scanFrom sc m).first) ∧
    (scanFrom sc m).opsAt = sc.opsAt ++ (opOffsets sc.off m).map (fun x => (x.1, x.2.sk)) ∧
    (∀ x ∈ opOffsets sc.off m, x.2.isEdge = false → ∀ j, 1 ≤ j → j < 2 * x.2.vars.length →
      (x.1, x.1 + j) ∈ (scanFrom sc m).edges) ∧
    (scanFrom sc m).hasEdge = (sc.hasEdge || (opsOf m).any (·.isEdge))
  | [], sc, _ => by simp [scanFrom_nil, opOffsets, opsOf]
  | none :: t, sc, hn => by
    rw [scanFrom_none]
    obtain ⟨h1, h2, h3, h4, h5⟩ := scanFrom_facts t (sc.step none) hn.tail_none
    exact ⟨h1, h2, h3, h4, by rw [h5]; rfl⟩
  | some o :: t, sc, hn => by
    rw [scanFrom_some]
    have hs := step_some_spec sc o.sk hn.head
    obtain ⟨h1, h2, h3, h4, h5⟩ := scanFrom_facts t (sc.step (some o.sk)) hn.tail_some
    rw [hs.off] at h3 h4
    refine ⟨fun e he => h1 e ((hs.edges e).mpr (Or.inl he)), fun vf hvf => h2 vf ((hs.first vf).mpr (Or.inl hvf)),
      ?_, ?_, ?_⟩
    · rw [h3, hs.opsAt]; simp [opOffsets, Op.sk]
    · intro x hx hed j hj1 hj2
      simp only [opOffsets, List.mem_cons] at hx
      rcases hx with rfl | hx
      · exact h1 _ ((hs.edges _).mpr (Or.inr (Or.inl ⟨hed, j, hj1, hj2, rfl⟩)))
      · exact h4 x hx hed j hj1 hj2
    · rw [h5, hs.hasEdge]; simp [opsOf, Op.isEdge, Bool.or_assoc]

/-- well-formedness of a scan state: ids below the running offset, every seen variable has a
first input leg -/
structure ScanWF (sc : Scan) : Prop where
  edgesLt : ∀ e ∈ sc.edges, e.1 < sc.off ∧ e.2 < sc.off
  lastLt : ∀ v l, sc.last.lookup v = some l → l < sc.off
  firstLt : ∀ vf ∈ sc.first, vf.2 < sc.off
  firstOf : ∀ v l, sc.last.lookup v = some l → ∃ f, (v, f) ∈ sc.first

theorem scanWF_init : ScanWF {} :=
  ⟨fun e he => by simp at he, fun v l h => by simp at h, fun vf h => by simp at h, fun v l h => by simp at h⟩

theorem getElem?_lt {α : Type} {l : List α} {k : Nat} {x : α} (h : l[k]? = some x) : k < l.length := by
  rcases Nat.lt_or_ge k l.length with h' | h'
  · exact h'
  · rw [List.getElem?_eq_none h'] at h; cases h

theorem scanWF_step {sc : Scan} (hw : ScanWF sc) (o : SkOp) (hn : o.vars.Nodup) :
    ScanWF (sc.step (some o)) := by
  have hs := step_some_spec sc o hn
  refine ⟨?_, ?_, ?_, ?_⟩
  · intro e he
    rw [hs.off]
    rcases (hs.edges e).mp he with h | ⟨_, j, _, hj2, rfl⟩ | ⟨k, v, l, hkv, hl, rfl⟩
    · have := hw.edgesLt e h; omega
    · simp only; omega
    · have := hw.lastLt v l hl
      have := getElem?_lt hkv
      simp only; omega
  · intro v l hl
    rw [hs.off]
    by_cases hv : v ∈ o.vars
    · obtain ⟨k, hk⟩ := List.getElem?_of_mem hv
      rw [hs.lastIn k v hk] at hl
      have := getElem?_lt hk
      cases hl; omega
    · rw [hs.lastOut v hv] at hl
      have := hw.lastLt v l hl; omega
  · intro vf hvf
    rw [hs.off]
    rcases (hs.first vf).mp hvf with h | ⟨k, v, hkv, _, rfl⟩
    · have := hw.firstLt vf h; omega
    · have := getElem?_lt hkv
      simp only; omega
  · intro v l hl
    by_cases hv : v ∈ o.vars
    · obtain ⟨k, hk⟩ := List.getElem?_of_mem hv
      cases hsl : sc.last.lookup v with
      | none => exact ⟨sc.off + k, (hs.first _).mpr (Or.inr ⟨k, v, hk, hsl, rfl⟩)⟩
      | some l' =>
        obtain ⟨f, hf⟩ := hw.firstOf v l' hsl
        exact ⟨f, (hs.first _).mpr (Or.inl hf)⟩
    · rw [hs.lastOut v hv] at hl
      obtain ⟨f, hf⟩ := hw.firstOf v l hl
      exact ⟨f, (hs.first _).mpr (Or.inl hf)⟩

theorem scanWF_scanFrom : ∀ (m : Slots) (sc : Scan), NodupVars m → ScanWF sc → ScanWF (scanFrom sc m)
  | [], _, _, hw => hw
  | none :: t, sc, hn, hw => by
    rw [scanFrom_none]
    exact scanWF_scanFrom t _ hn.tail_none ⟨hw.edgesLt, hw.lastLt, hw.firstLt, hw.firstOf⟩
  | some o :: t, sc, hn, hw => by
    rw [scanFrom_some]
    exact scanWF_scanFrom t _ hn.tail_some (scanWF_step hw o.sk hn.head)

/-! ### leg values along the scan -/

/-- the string `m` carries the leg values `val` (leg ids from `off`) -/
def Carries (val : Nat → Bool) : Nat → Slots → Prop
  | _, [] => True
  | off, none :: t => Carries val off t
  | off, some o :: t =>
    o.ins = (List.range o.vars.length).map (fun k => val (off + k)) ∧
    o.outs = (List.range o.vars.length).map (fun k => val (off + o.vars.length + k)) ∧
    Carries val (off + 2 * o.vars.length) t

theorem zip_range_all (P : Nat × Bool → Bool) : ∀ (vs : List Nat) (f : Nat → Bool),
    (vs.zip ((List.range vs.length).map f)).all P = true ↔ ∀ k v, vs[k]? = some v → P (v, f k) = true
  | [], f => by simp
  | w :: ws, f => by
    rw [List.length_cons, List.range_succ_eq_map, List.map_cons, List.zip_cons_cons, List.all_cons,
      Bool.and_eq_true, List.map_map, zip_range_all P ws (f ∘ Nat.succ)]
    constructor
    · rintro ⟨h0, ht⟩ k v hk
      cases k with
      | zero => simp only [List.getElem?_cons_zero, Option.some.injEq] at hk; rw [← hk]; exact h0
      | succ k => exact ht k v (by simpa using hk)
    · intro h
      exact ⟨h 0 w rfl, fun k v hk => h (k + 1) v (by simpa using hk)⟩

theorem zip_range_lookup : ∀ (vs : List Nat) (f : Nat → Bool), vs.Nodup → ∀ k v, vs[k]? = some v →
    (vs.zip ((List.range vs.length).map f)).lookup v = some (f k)
  | [], _, _, k, v, hk => by simp at hk
  | w :: ws, f, hn, k, v, hk => by
    rw [List.length_cons, List.range_succ_eq_map, List.map_cons, List.zip_cons_cons, List.map_map,
      List.lookup_cons]
    obtain ⟨hw, hn'⟩ := List.nodup_cons.mp hn
    cases k with
    | zero =>
      simp only [List.getElem?_cons_zero, Option.some.injEq] at hk
      simp [hk]
    | succ k =>
      have hk' : ws[k]? = some v := by simpa using hk
      have hne : v ≠ w := fun e => hw (e ▸ List.mem_of_getElem? hk')
      have : (v == w) = false := by simpa using hne
      rw [this]
      exact zip_range_lookup ws (f ∘ Nat.succ) hn' k v hk'

/-- what the scan knows about the rolling state of the propagation -/
structure ScanInv (val : Nat → Bool) (st0 : List Bool) (sc : Scan) (st : List Bool) : Prop where
  seen : ∀ v l, sc.last.lookup v = some l → st[v]? = some (val l)
  unseen : ∀ v, sc.last.lookup v = none → st[v]? = st0[v]?

theorem inputsMatch_iff {val : Nat → Bool} {st0 st : List Bool} {sc : Scan} (hinv : ScanInv val st0 sc st)
    (o : Op) (hins : o.ins = (List.range o.vars.length).map (fun k => val (sc.off + k))) :
    inputsMatch st o = true ↔
      (∀ k v l, o.vars[k]? = some v → sc.last.lookup v = some l → val l = val (sc.off + k)) ∧
      (∀ k v, o.vars[k]? = some v → sc.last.lookup v = none → st0[v]? = some (val (sc.off + k))) := by
  unfold inputsMatch
  rw [hins, zip_range_all]
  simp only [beq_iff_eq]
  constructor
  · intro h
    refine ⟨fun k v l hk hl => ?_, fun k v hk hl => ?_⟩
    · have := h k v hk
      rw [hinv.seen v l hl] at this
      exact Option.some.inj this
    · rw [← hinv.unseen v hl]; exact h k v hk
  · rintro ⟨h1, h2⟩ k v hk
    cases hl : sc.last.lookup v with
    | none => rw [hinv.unseen v hl]; exact h2 k v hk hl
    | some l => rw [hinv.seen v l hl, h1 k v l hk hl]

theorem inputsMatch_lt {st : List Bool} {o : Op} (hm : inputsMatch st o = true)
    (hl : o.ins.length = o.vars.length) {v : Nat} (hv : v ∈ o.vars) : v < st.length := by
  obtain ⟨k, hk⟩ := List.getElem?_of_mem hv
  have hklt := getElem?_lt hk
  have hk2 : o.ins[k]? = some o.ins[k] := List.getElem?_eq_getElem (hl ▸ hklt)
  have hmem : (v, o.ins[k]) ∈ o.vars.zip o.ins :=
    List.mem_iff_getElem?.mpr ⟨k, List.getElem?_zip_eq_some.mpr ⟨hk, hk2⟩⟩
  simp only [inputsMatch, List.all_eq_true, beq_iff_eq] at hm
  have := hm _ hmem
  exact getElem?_lt this

theorem scanInv_step {val : Nat → Bool} {st0 st : List Bool} {sc r : Scan} (hinv : ScanInv val st0 sc st)
    (o : Op) (hn : o.vars.Nodup)
    (hins : o.ins = (List.range o.vars.length).map (fun k => val (sc.off + k)))
    (houts : o.outs = (List.range o.vars.length).map (fun k => val (sc.off + o.vars.length + k)))
    (hm : inputsMatch st o = true) (hs : StepSpec sc o.sk r) :
    ScanInv val st0 r (writeVars st o.vars o.outs) := by
  have hsv : o.sk.vars = o.vars := rfl
  have hil : o.ins.length = o.vars.length := by rw [hins]; simp
  have hol : o.outs.length = o.vars.length := by rw [houts]; simp
  refine ⟨fun v l hl => ?_, fun v hl => ?_⟩
  · by_cases hv : v ∈ o.vars
    · obtain ⟨k, hk⟩ := List.getElem?_of_mem hv
      rw [hs.lastIn k v (hsv ▸ hk)] at hl
      cases hl
      rw [writeVars_getElem?_mem v _ _ _ hn hol hv (inputsMatch_lt hm hil hv), houts,
        zip_range_lookup o.vars _ hn k v hk]
      rfl
    · rw [hs.lastOut v (hsv ▸ hv)] at hl
      rw [writeVars_getElem?_not_mem v _ _ _ hv]
      exact hinv.seen v l hl
  · by_cases hv : v ∈ o.vars
    · obtain ⟨k, hk⟩ := List.getElem?_of_mem hv
      rw [hs.lastIn k v (hsv ▸ hk)] at hl
      cases hl
    · rw [hs.lastOut v (hsv ▸ hv)] at hl
      rw [writeVars_getElem?_not_mem v _ _ _ hv]
      exact hinv.unseen v hl

theorem scanInv_none {val : Nat → Bool} {st0 st : List Bool} {sc : Scan} (hinv : ScanInv val st0 sc st) :
    ScanInv val st0 (sc.step none) st := ⟨hinv.seen, hinv.unseen⟩

/-- **forward bridge**: along a successful propagation every world-line link of the scan joins
legs of equal value, and every first input leg carries the state at p = 0 -/
theorem bridge_fwd (val : Nat → Bool) (st0 : List Bool) : ∀ (m : Slots) (sc : Scan) (st st' : List Bool),
    Carries val sc.off m → NodupVars m → ScanInv val st0 sc st → propagate st m = some st' →
    (∀ x ∈ opOffsets sc.off m, x.2.isEdge = false → ∀ j, j < 2 * x.2.vars.length → val (x.1 + j) = val x.1) →
    ScanInv val st0 (scanFrom sc m) st' ∧
    (∀ e ∈ (scanFrom sc m).edges, e ∈ sc.edges ∨ val e.1 = val e.2) ∧
    (∀ vf ∈ (scanFrom sc m).first, vf ∈ sc.first ∨ st0[vf.1]? = some (val vf.2))
  | [], sc, st, st', _, _, hinv, hp, _ => by
    simp only [propagate, Option.some.injEq] at hp
    subst hp
    exact ⟨hinv, fun e he => Or.inl he, fun vf h => Or.inl h⟩
  | none :: t, sc, st, st', hc, hn, hinv, hp, hstar => by
    rw [scanFrom_none]
    exact bridge_fwd val st0 t (sc.step none) st st' hc hn.tail_none (scanInv_none hinv) hp hstar
  | some o :: t, sc, st, st', hc, hn, hinv, hp, hstar => by
    rw [scanFrom_some]
    obtain ⟨hins, houts, hct⟩ := hc
    simp only [propagate] at hp
    cases ha : applyOp st o with
    | none => rw [ha] at hp; cases hp
    | some st1 =>
      rw [ha] at hp
      simp only [applyOp] at ha
      split at ha
      · rename_i hm
        simp only [Option.some.injEq] at ha
        subst ha
        have hs := step_some_spec sc o.sk hn.head
        have hinv1 := scanInv_step hinv o hn.head hins houts hm hs
        obtain ⟨hl, hf⟩ := (inputsMatch_iff hinv o hins).mp hm
        have hoff : (sc.step (some o.sk)).off = sc.off + 2 * o.vars.length := hs.off
        obtain ⟨i1, i2, i3⟩ := bridge_fwd val st0 t (sc.step (some o.sk)) _ st' (hoff ▸ hct) hn.tail_some hinv1 hp
          (fun x hx => hstar x (by rw [hoff] at hx; simp [opOffsets, hx]))
        refine ⟨i1, fun e he => ?_, fun vf hvf => ?_⟩
        · rcases i2 e he with h | h
          · rcases (hs.edges e).mp h with h | ⟨hed, j, _, hj2, rfl⟩ | ⟨k, v, l, hkv, hlv, rfl⟩
            · exact Or.inl h
            · exact Or.inr (hstar (sc.off, o) (by simp [opOffsets]) hed j hj2).symm
            · exact Or.inr (hl k v l hkv hlv)
          · exact Or.inr h
        · rcases i3 vf hvf with h | h
          · rcases (hs.first vf).mp h with h | ⟨k, v, hkv, hlv, rfl⟩
            · exact Or.inl h
            · exact Or.inr (hf k v hkv hlv)
          · exact Or.inr h
      · cases ha

/-- **backward bridge**: if all links of the scan join legs of equal value and the first input
legs carry the state at p = 0, the propagation succeeds -/
theorem bridge_bwd (val : Nat → Bool) (st0 : List Bool) : ∀ (m : Slots) (sc : Scan) (st : List Bool),
    Carries val sc.off m → NodupVars m → ScanInv val st0 sc st →
    (∀ e ∈ (scanFrom sc m).edges, val e.1 = val e.2) →
    (∀ vf ∈ (scanFrom sc m).first, st0[vf.1]? = some (val vf.2)) →
    ∃ st', propagate st m = some st' ∧ ScanInv val st0 (scanFrom sc m) st'
  | [], sc, st, _, _, hinv, _, _ => ⟨st, rfl, hinv⟩
  | none :: t, sc, st, hc, hn, hinv, he, hf => by
    rw [scanFrom_none] at he hf ⊢
    exact bridge_bwd val st0 t (sc.step none) st hc hn.tail_none (scanInv_none hinv) he hf
  | some o :: t, sc, st, hc, hn, hinv, he, hf => by
    rw [scanFrom_some] at he hf ⊢
    obtain ⟨hins, houts, hct⟩ := hc
    have hs := step_some_spec sc o.sk hn.head
    have hoff : (sc.step (some o.sk)).off = sc.off + 2 * o.vars.length := hs.off
    obtain ⟨m1, m2, _⟩ := scanFrom_facts t (sc.step (some o.sk)) hn.tail_some
    have hm : inputsMatch st o = true := by
      rw [inputsMatch_iff hinv o hins]
      refine ⟨fun k v l hkv hlv => ?_, fun k v hkv hlv => ?_⟩
      · exact he _ (m1 _ ((hs.edges _).mpr (Or.inr (Or.inr ⟨k, v, l, hkv, hlv, rfl⟩))))
      · exact hf _ (m2 _ ((hs.first _).mpr (Or.inr ⟨k, v, hkv, hlv, rfl⟩)))
    have hinv1 := scanInv_step hinv o hn.head hins houts hm hs
    obtain ⟨st', hp, hi⟩ := bridge_bwd val st0 t (sc.step (some o.sk)) _ (hoff ▸ hct) hn.tail_some hinv1 he hf
    refine ⟨st', ?_, hi⟩
    simp only [propagate, applyOp, if_pos hm]
    exact hp

end Qmc
