/-
Lemmas for C10: the per-bond-count formula of `relative_weight` (Ising sampler) equals the product
of matrix-element ratios over the operator string; algebra of the swap probability.
-/
import QmcModel.Tempering
import Mathlib.Tactic.Ring
import Mathlib.Tactic.Linarith
import Mathlib.Tactic.NormNum
import Mathlib.Tactic.FieldSimp
import Mathlib.Algebra.Order.Field.Rat

namespace Qmc
namespace Tempering

/-! ### counts -/

/-- the indicator count function of one bond -/
def delta (b : Nat) : Nat → Nat := fun x => if x = b then 1 else 0

theorem countBond_nil (b : Nat) : countBond [] b = 0 := rfl

theorem countBond_none (s : Slots) (b : Nat) : countBond (none :: s) b = countBond s b := by
  simp [countBond, List.filter]

theorem countBond_some (o : Op) (s : Slots) (b : Nat) :
    countBond (some o :: s) b = delta o.bond b + countBond s b := by
  unfold countBond delta
  by_cases h : o.bond = b
  · subst h; simp [List.filter]; omega
  · have hb : (o.bond == b) = false := by simpa using h
    have h' : ¬ b = o.bond := fun e => h e.symm
    simp [List.filter, hb, h']

/-! ### multiplicativity of the count formula -/

theorem bondRatioFrom_add (c1 c2 : Nat → Nat) :
    ∀ (o s : List (List Nat × Rat)) (k : Nat),
      bondRatioFrom k o s (fun x => c1 x + c2 x) = bondRatioFrom k o s c1 * bondRatioFrom k o s c2
  | [], _, _ => by simp [bondRatioFrom]
  | _ :: _, [], _ => by simp [bondRatioFrom]
  | (_, ja) :: o, (_, jb) :: s, k => by
    simp only [bondRatioFrom]
    rw [bondRatioFrom_add c1 c2 o s (k + 1), pow_add]
    ring

theorem sumCount_add (c1 c2 : Nat → Nat) (st : Nat) :
    ∀ n, sumCount (fun x => c1 x + c2 x) st n = sumCount c1 st n + sumCount c2 st n
  | 0 => rfl
  | n + 1 => by simp only [sumCount]; rw [sumCount_add c1 c2 st n]; omega

theorem relWIsingCounts_add (self other : IsingH) (c1 c2 : Nat → Nat) :
    relWIsingCounts self other (fun x => c1 x + c2 x) =
      relWIsingCounts self other c1 * relWIsingCounts self other c2 := by
  unfold relWIsingCounts
  simp only [bondRatioFrom_add, sumCount_add, pow_add]
  split <;> ring

theorem bondRatioFrom_zero : ∀ (o s : List (List Nat × Rat)) (k : Nat),
    bondRatioFrom k o s (fun _ => 0) = 1
  | [], _, _ => by simp [bondRatioFrom]
  | _ :: _, [], _ => by simp [bondRatioFrom]
  | (_, ja) :: o, (_, jb) :: s, k => by
    simp only [bondRatioFrom]; rw [bondRatioFrom_zero o s (k + 1)]; simp

theorem sumCount_zero (st : Nat) : ∀ n, sumCount (fun _ => 0) st n = 0
  | 0 => rfl
  | n + 1 => by simp only [sumCount]; rw [sumCount_zero st n]

theorem relWIsingCounts_zero (self other : IsingH) :
    relWIsingCounts self other (fun _ => 0) = 1 := by
  unfold relWIsingCounts
  simp only [bondRatioFrom_zero, sumCount_zero]
  split <;> simp

/-! ### the count formula on one bond -/

theorem bondRatioFrom_delta (b : Nat) : ∀ (o s : List (List Nat × Rat)) (k : Nat),
    o.length = s.length →
    bondRatioFrom k o s (delta b) =
      if k ≤ b ∧ b - k < s.length then (o.getD (b - k) ([], 0)).2 / (s.getD (b - k) ([], 0)).2 else 1
  | [], [], k, _ => by simp [bondRatioFrom]
  | [], _ :: _, _, h => by simp at h
  | _ :: _, [], _, h => by simp at h
  | (ea, ja) :: o, (eb, jb) :: s, k, h => by
    have hl : o.length = s.length := by simpa using h
    simp only [bondRatioFrom]
    rw [bondRatioFrom_delta b o s (k + 1) hl]
    by_cases hk : k = b
    · subst hk
      have : ¬ (k + 1 ≤ k ∧ k - (k + 1) < s.length) := by omega
      simp [delta, this]
    · have hd : delta b k = 0 := by simp [delta, hk]
      rw [hd]
      by_cases h1 : k ≤ b ∧ b - k < (s.length + 1)
      · have h2 : k + 1 ≤ b ∧ b - (k + 1) < s.length := by omega
        have h3 : b - k = (b - (k + 1)) + 1 := by omega
        simp only [List.length_cons, h1, h2, and_self, if_true, pow_zero, one_mul]
        rw [h3]; simp [List.getD_cons_succ]
      · have h2 : ¬ (k + 1 ≤ b ∧ b - (k + 1) < s.length) := by omega
        simp only [List.length_cons, h1, h2, if_false, pow_zero, one_mul]

theorem sumCount_delta (b st : Nat) : ∀ n,
    sumCount (delta b) st n = if st ≤ b ∧ b < st + n then 1 else 0
  | 0 => by simp [sumCount]
  | n + 1 => by
    simp only [sumCount]; rw [sumCount_delta b st n]
    by_cases h : n + st = b
    · have h1 : ¬ (st ≤ b ∧ b < st + n) := by omega
      have h2 : st ≤ b ∧ b < st + (n + 1) := by omega
      rw [if_neg h1, if_pos h2]; simp [delta, h]
    · have hd : delta b (n + st) = 0 := by simp [delta, h]
      rw [hd]
      by_cases h1 : st ≤ b ∧ b < st + n
      · have h2 : st ≤ b ∧ b < st + (n + 1) := by omega
        simp [h1, h2]
      · have h2 : ¬ (st ≤ b ∧ b < st + (n + 1)) := by omega
        simp [h1, h2]

/-- the per-bond ratio `ρ(b)` the count formula multiplies in for one operator on bond `b` -/
def bondRho (self other : IsingH) (b : Nat) : Rat :=
  if b < self.nedges then other.J b / self.J b
  else if b < self.nedges + self.nvars then other.gamma / self.gamma
  else other.h / self.h

theorem relWIsingCounts_delta (self other : IsingH) (b : Nat)
    (hlen : other.edges.length = self.edges.length) (hb : b < self.numBonds) :
    relWIsingCounts self other (delta b) = bondRho self other b := by
  unfold relWIsingCounts bondRho IsingH.numBonds at *
  simp only [bondRatioFrom_delta b _ _ 0 hlen, sumCount_delta, IsingH.nedges, IsingH.J] at *
  by_cases h1 : b < self.edges.length
  · have a1 : ¬ (self.edges.length ≤ b ∧ b < self.edges.length + self.nvars) := by omega
    have a2 : ¬ (self.nvars + self.edges.length ≤ b ∧ b < self.nvars + self.edges.length + self.nvars) := by omega
    simp [h1, a1, a2]
  · by_cases h2 : b < self.edges.length + self.nvars
    · have a0 : ¬ (0 ≤ b ∧ b - 0 < self.edges.length) := by omega
      have a1 : self.edges.length ≤ b ∧ b < self.edges.length + self.nvars := by omega
      have a2 : ¬ (self.nvars + self.edges.length ≤ b ∧ b < self.nvars + self.edges.length + self.nvars) := by omega
      simp [h1, h2, a0, a1, a2]
    · have a0 : ¬ (0 ≤ b ∧ b - 0 < self.edges.length) := by omega
      have a1 : ¬ (self.edges.length ≤ b ∧ b < self.edges.length + self.nvars) := by omega
      by_cases he : absR self.h > eps
      · have a2 : self.nvars + self.edges.length ≤ b ∧ b < self.nvars + self.edges.length + self.nvars := by
          simp only [he, if_true] at hb; omega
        simp [h1, h2, a0, a1, a2, he]
      · simp only [he, if_false] at hb; omega

/-! ### matrix-element ratios of one legal operator -/

theorem twoSite_ratio (i0 i1 o0 o1 : Bool) (Js Jo : Rat) (hs : sgn Jo = sgn Js)
    (hw : 0 < twoSite i0 i1 o0 o1 Js) :
    twoSite i0 i1 o0 o1 Jo / twoSite i0 i1 o0 o1 Js = Jo / Js := by
  unfold twoSite absR sgn at *
  split_ifs at hs hw ⊢ <;>
    first
    | (exfalso; linarith)
    | (exfalso; omega)
    | (rw [div_eq_div_iff (by linarith) (by linarith)]; ring)

theorem longitudinal_ratio (i o : Bool) (hs_ ho_ : Rat) (hs : sgn ho_ = sgn hs_)
    (hw : 0 < longitudinalW i o hs_) :
    longitudinalW i o ho_ / longitudinalW i o hs_ = ho_ / hs_ := by
  unfold longitudinalW absR sgn at *
  split_ifs at hs hw ⊢ <;>
    first
    | (exfalso; linarith)
    | (exfalso; omega)
    | (rw [div_eq_div_iff (by linarith) (by linarith)]; ring)

/-- what `can_swap_managers` establishes for a pair of well-formed Hamiltonians -/
structure Swappable (x y : IsingH) : Prop where
  len : y.edges.length = x.edges.length
  nvars : y.nvars = x.nvars
  sgnJ : ∀ b, b < x.edges.length → sgn (y.J b) = sgn (x.J b)
  sgnh : sgn y.h = sgn x.h

theorem wOp_ratio {self other : IsingH} (hs : Swappable self other) (o : Op)
    (hb : o.bond < self.numBonds) (hw : 0 < self.wOp o) :
    other.wOp o / self.wOp o = bondRho self other o.bond := by
  unfold IsingH.wOp IsingH.w bondRho IsingH.numBonds IsingH.nedges at *
  rw [hs.len, hs.nvars]
  by_cases h1 : o.bond < self.edges.length
  · simp only [h1, if_true] at hw ⊢
    exact twoSite_ratio _ _ _ _ _ _ (hs.sgnJ _ h1) hw
  · by_cases h2 : o.bond < self.edges.length + self.nvars
    · simp only [h1, h2, if_true, if_false] at hw ⊢
    · by_cases he : absR self.h > eps
      · have h3 : o.bond < self.edges.length + 2 * self.nvars := by
          simp only [he, if_true] at hb; omega
        simp only [h1, h2, h3, if_true, if_false] at hw ⊢
        exact longitudinal_ratio _ _ _ _ hs.sgnh hw
      · simp only [he, if_false] at hb; omega

/-! ### the count formula equals the product over the string -/

theorem relativeWeightIsing_eq_opsProd {self other : IsingH} (hs : Swappable self other) :
    ∀ (s : Slots), LegalIsing self s →
      relativeWeightIsing self other s = opsProd (fun o => other.wOp o / self.wOp o) s
  | [], _ => by
    unfold relativeWeightIsing
    have : countBond ([] : Slots) = fun _ => 0 := by funext b; rfl
    rw [this, relWIsingCounts_zero]; rfl
  | none :: s, hl => by
    have hl' : LegalIsing self s := fun o ho => hl o (List.mem_cons_of_mem _ ho)
    have ih := relativeWeightIsing_eq_opsProd hs s hl'
    unfold relativeWeightIsing at *
    have : countBond (none :: s) = countBond s := by funext b; exact countBond_none s b
    rw [this, ih]; rfl
  | some o :: s, hl => by
    have hl' : LegalIsing self s := fun o ho => hl o (List.mem_cons_of_mem _ ho)
    have ih := relativeWeightIsing_eq_opsProd hs s hl'
    have ho := hl o (List.mem_cons_self ..)
    unfold relativeWeightIsing at *
    have : countBond (some o :: s) = fun b => delta o.bond b + countBond s b := by
      funext b; exact countBond_some o s b
    rw [this, relWIsingCounts_add, ih, relWIsingCounts_delta self other o.bond hs.len ho.1,
      ← wOp_ratio hs o ho.1 ho.2]
    rfl

/-! ### from `can_swap_managers` to `Swappable` -/

/-- the constructor derives the number of variables from the edge list -/
def IsingH.WF (H : IsingH) : Prop := H.nvars = IsingH.nvarsOf H.edges

theorem canSwapEdges_spec : ∀ (a b : List (List Nat × Rat)), a.length = b.length →
    canSwapEdges a b = true →
    a.map (·.1) = b.map (·.1) ∧
      ∀ i, i < a.length → sgn (a.getD i ([], 0)).2 = sgn (b.getD i ([], 0)).2
  | [], [], _, _ => by simp
  | [], _ :: _, h, _ => by simp at h
  | _ :: _, [], h, _ => by simp at h
  | (ea, ja) :: a, (eb, jb) :: b, h, hc => by
    simp only [canSwapEdges, Bool.and_eq_true, decide_eq_true_eq] at hc
    obtain ⟨⟨he, hj⟩, hr⟩ := hc
    have ih := canSwapEdges_spec a b (by simpa using h) hr
    refine ⟨by simp [he, ih.1], ?_⟩
    intro i hi
    cases i with
    | zero => simpa using hj
    | succ i =>
      have : i < a.length := by simpa using hi
      simpa using ih.2 i this

theorem nvarsOf_congr (a b : List (List Nat × Rat)) (h : a.map (·.1) = b.map (·.1)) :
    IsingH.nvarsOf a = IsingH.nvarsOf b := by
  have key : ∀ (l : List (List Nat × Rat)) (m : Nat),
      l.foldl (fun m e => e.1.foldl max m) m = (l.map (·.1)).foldl (fun m vs => vs.foldl max m) m := by
    intro l
    induction l with
    | nil => intro m; rfl
    | cons e l ih => intro m; simp only [List.foldl_cons, List.map_cons]; exact ih _
  unfold IsingH.nvarsOf
  rw [key a, key b, h]

theorem swappable_of_canSwap {x y : IsingH} (hx : x.WF) (hy : y.WF)
    (hc : canSwapIsing x y = true) : Swappable x y := by
  simp only [canSwapIsing, Bool.and_eq_true, decide_eq_true_eq] at hc
  obtain ⟨⟨hlen, he⟩, hh⟩ := hc
  have sp := canSwapEdges_spec _ _ hlen he
  refine ⟨hlen.symm, ?_, ?_, hh.symm⟩
  · unfold IsingH.WF at hx hy; rw [hx, hy]; exact (nvarsOf_congr _ _ sp.1).symm
  · intro b hb; exact (sp.2 b hb).symm

theorem Swappable.symm {x y : IsingH} (h : Swappable x y) : Swappable y x :=
  ⟨h.len.symm, h.nvars.symm, fun b hb => (h.sgnJ b (h.len ▸ hb)).symm, h.sgnh.symm⟩

theorem Swappable.refl (x : IsingH) : Swappable x x := ⟨rfl, rfl, fun _ _ => rfl, rfl⟩

/-- `ham_eq` (on well-formed Hamiltonians) means the two Hamiltonians are the same record -/
theorem eq_of_hamEq {x y : IsingH} (hx : x.WF) (hy : y.WF) (h : hamEqIsing x y = true) : x = y := by
  simp only [hamEqIsing, Bool.and_eq_true, decide_eq_true_eq] at h
  obtain ⟨⟨he, hg⟩, hh⟩ := h
  unfold IsingH.WF at hx hy
  cases x; cases y; simp_all

/-! ### products over the string -/

theorem opsProd_div (f g : Op → Rat) : ∀ s : Slots,
    opsProd (fun o => f o / g o) s = opsProd f s / opsProd g s
  | [] => by simp [opsProd]
  | none :: s => by simp only [opsProd]; exact opsProd_div f g s
  | some o :: s => by simp only [opsProd]; rw [opsProd_div f g s, div_mul_div_comm]

theorem opsProd_pos {nb : Nat} {w : Op → Rat} : ∀ {s : Slots}, LegalOps nb w s → 0 < opsProd w s
  | [], _ => by simp [opsProd]
  | none :: s, h => by
    simp only [opsProd]; exact opsProd_pos (s := s) (fun o ho => h o (List.mem_cons_of_mem _ ho))
  | some o :: s, h => by
    simp only [opsProd]
    exact mul_pos (h o (List.mem_cons_self ..)).2
      (opsProd_pos (s := s) (fun o ho => h o (List.mem_cons_of_mem _ ho)))

theorem opsProd_self_ratio {nb : Nat} {w : Op → Rat} {s : Slots} (h : LegalOps nb w s) :
    opsProd (fun o => w o / w o) s = 1 := by
  rw [opsProd_div]; exact div_self (ne_of_gt (opsProd_pos h))

/-! ### `powi` -/

theorem powi_eq_zpow (x : Rat) (e : Int) : powi x e = x ^ e := by
  unfold powi
  cases e with
  | ofNat n => simp
  | negSucc n =>
    have h1 : ¬ (0 : Int) ≤ Int.negSucc n := by omega
    have h2 : (-(Int.negSucc n)).toNat = n + 1 := by omega
    rw [if_neg h1, h2, zpow_negSucc]

theorem powi_sub {x : Rat} (hx : x ≠ 0) (m n : Nat) :
    powi x ((m : Int) - (n : Int)) = x ^ m / x ^ n := by
  rw [powi_eq_zpow, zpow_sub₀ hx, zpow_natCast, zpow_natCast]

theorem fact_pos : ∀ n, 0 < fact n
  | 0 => by simp [fact]
  | n + 1 => by simp only [fact]; exact Nat.mul_pos (by omega) (fact_pos n)

/-! ### the swap probability is the Metropolis ratio -/

/-- the algebra behind `swap_on_chunks`, for arbitrary weight functions -/
theorem ratio_algebra (wa wb : Op → Rat) (βa βb : Rat) (L na nb : Nat) (A A' B B' : Rat)
    (hβa : 0 < βa) (hβb : 0 < βb) (hA : 0 < A) (hB : 0 < B) :
    powi (βa / βb) ((nb : Int) - (na : Int)) * ((A' / A) * (B' / B)) =
      (βa ^ nb * ((fact (L - nb) : Rat) / (fact L : Rat)) * B') *
        (βb ^ na * ((fact (L - na) : Rat) / (fact L : Rat)) * A') /
      ((βa ^ na * ((fact (L - na) : Rat) / (fact L : Rat)) * A) *
        (βb ^ nb * ((fact (L - nb) : Rat) / (fact L : Rat)) * B)) := by
  have hx : βa / βb ≠ 0 := div_ne_zero (ne_of_gt hβa) (ne_of_gt hβb)
  rw [powi_sub hx, div_pow, div_pow]
  have hA' := ne_of_gt hA
  have hB' := ne_of_gt hB
  have hβa' := ne_of_gt hβa
  have hβb' := ne_of_gt hβb
  have f1 : ((fact (L - na) : Nat) : Rat) ≠ 0 :=
    Nat.cast_ne_zero.mpr (Nat.pos_iff_ne_zero.mp (fact_pos _))
  have f2 : ((fact (L - nb) : Nat) : Rat) ≠ 0 :=
    Nat.cast_ne_zero.mpr (Nat.pos_iff_ne_zero.mp (fact_pos _))
  have f3 : ((fact L : Nat) : Rat) ≠ 0 :=
    Nat.cast_ne_zero.mpr (Nat.pos_iff_ne_zero.mp (fact_pos _))
  field_simp

theorem pSwap_eval_eq_metropolisRatio (a b : Replica IsingH)
    (hL : a.cutoff = b.cutoff) (hβa : 0 < a.beta) (hβb : 0 < b.beta)
    (hla : LegalIsing a.ham a.cfg.slots) (hlb : LegalIsing b.ham b.cfg.slots)
    (hs : Swappable a.ham b.ham) :
    pSwap isingIface a b true = metropolisRatio a b := by
  unfold pSwap relH metropolisRatio WIsing configWeight isingIface
  simp only [if_true]
  rw [relativeWeightIsing_eq_opsProd hs _ hla, relativeWeightIsing_eq_opsProd hs.symm _ hlb,
    opsProd_div, opsProd_div, hL]
  exact ratio_algebra a.ham.wOp b.ham.wOp a.beta b.beta b.cutoff _ _ _ _ _ _ hβa hβb
    (opsProd_pos hla) (opsProd_pos hlb)

theorem relH_hamEq_one (a b : Replica IsingH) (h : a.ham = b.ham)
    (hla : LegalIsing a.ham a.cfg.slots) (hlb : LegalIsing b.ham b.cfg.slots) :
    relH isingIface a b true = 1 := by
  unfold relH isingIface
  simp only [if_true]
  rw [← h] at hlb ⊢
  rw [relativeWeightIsing_eq_opsProd (Swappable.refl _) _ hla,
    relativeWeightIsing_eq_opsProd (Swappable.refl _) _ hlb,
    opsProd_self_ratio hla, opsProd_self_ratio hlb]
  norm_num

theorem pSwap_skip_eq_eval (a b : Replica IsingH) (h : a.ham = b.ham)
    (hla : LegalIsing a.ham a.cfg.slots) (hlb : LegalIsing b.ham b.cfg.slots) :
    pSwap isingIface a b false = pSwap isingIface a b true := by
  unfold pSwap
  rw [relH_hamEq_one a b h hla hlb]
  simp [relH]

/-! ### the generic sampler -/

theorem relWLoop_eq (w1 w2 : Op → Rat) : ∀ (s : Slots) (t : Rat),
    (∀ o, some o ∈ s → w2 o ≠ 0) →
    relWLoop w1 w2 s t = some (t * opsProd (fun o => w1 o / w2 o) s)
  | [], t, _ => by simp [relWLoop, opsProd]
  | none :: s, t, h => by
    simp only [relWLoop, opsProd]
    exact relWLoop_eq w1 w2 s t (fun o ho => h o (List.mem_cons_of_mem _ ho))
  | some o :: s, t, h => by
    have h2 : w2 o ≠ 0 := h o (List.mem_cons_self ..)
    simp only [relWLoop, opsProd]
    by_cases h1 : w1 o = 0
    · simp [h1]
    · rw [if_neg h1, if_neg h2,
        relWLoop_eq w1 w2 s _ (fun o ho => h o (List.mem_cons_of_mem _ ho))]
      congr 1; ring

end Tempering
end Qmc
