/-
Lemmas for C10: the per-bond-count formula of `relative_weight` (Ising sampler) equals the product
of matrix-element ratios over the operator string; algebra of the swap probability.
-/
import QmcModel.Tempering
import Mathlib.Tactic.Ring
import Mathlib.Tactic.Linarith
import Mathlib.Tactic.NormNum
import Mathlib.Tactic.FieldSimp
import Mathlib.Algebra.Order.Field.Rat

namespace Qmc
namespace Tempering

/-! ### counts -/

/-- the indicator count function of one bond -/
def delta (b : Nat) : Nat → Nat := fun x => if x = b then 1 else 0

theorem countBond_nil (b : Nat) : countBond [] b = 0 := rfl

theorem countBond_none (s : Slots) (b : Nat) : countBond (none :: s) b = countBond s b := by
  simp [countBond, List.filter]

theorem countBond_some (o : Op) (s : Slots) (b : Nat) :
    countBond (some o :: s) b = delta o.bond b + countBond s b := by
  unfold countBond delta
  by_cases h : o.bond = b
  · subst h; simp [List.filter]; omega
  · have h' : ¬ b = o.bond := fun e => h e.symm
    simp [List.filter, h, h']

/-! ### multiplicativity of the count formula -/

theorem bondRatioFrom_add (c1 c2 : Nat → Nat) :
    ∀ (o s : List (List Nat × Rat)) (k : Nat),
      bondRatioFrom k o s (fun x => c1 x + c2 x) = bondRatioFrom k o s c1 * bondRatioFrom k o s c2
  | [], _, _ => by simp [bondRatioFrom]
  | _ :: _, [], _ => by simp [bondRatioFrom]
  | (_, ja) :: o, (_, jb) :: s, k => by
    simp only [bondRatioFrom]
    rw [bondRatioFrom_add c1 c2 o s (k + 1), pow_add]
    ring

theorem sumCount_add (c1 c2 : Nat → Nat) (st : Nat) :
    ∀ n, sumCount (fun x => c1 x + c2 x) st n = sumCount c1 st n + sumCount c2 st n
  | 0 => rfl
  | n + 1 => by simp only [sumCount]; rw [sumCount_add c1 c2 st n]; omega

theorem relWIsingCounts_add (self other : IsingH) (c1 c2 : Nat → Nat) :
    relWIsingCounts self other (fun x => c1 x + c2 x) =
      relWIsingCounts self other c1 * relWIsingCounts self other c2 := by
  unfold relWIsingCounts
  simp only [bondRatioFrom_add, sumCount_add, pow_add]
  split <;> ring

theorem bondRatioFrom_zero : ∀ (o s : List (List Nat × Rat)) (k : Nat),
    bondRatioFrom k o s (fun _ => 0) = 1
  | [], _, _ => by simp [bondRatioFrom]
  | _ :: _, [], _ => by simp [bondRatioFrom]
  | (_, ja) :: o, (_, jb) :: s, k => by
    simp only [bondRatioFrom]; rw [bondRatioFrom_zero o s (k + 1)]; simp

theorem sumCount_zero (st : Nat) : ∀ n, sumCount (fun _ => 0) st n = 0
  | 0 => rfl
  | n + 1 => by simp only [sumCount]; rw [sumCount_zero st n]

theorem relWIsingCounts_zero (self other : IsingH) :
    relWIsingCounts self other (fun _ => 0) = 1 := by
  unfold relWIsingCounts
  simp only [bondRatioFrom_zero, sumCount_zero]
  split <;> simp

/-! ### the count formula on one bond -/

theorem bondRatioFrom_delta (b : Nat) : ∀ (o s : List (List Nat × Rat)) (k : Nat),
    o.length = s.length →
    bondRatioFrom k o s (delta b) =
      if k ≤ b ∧ b - k < s.length then (o.getD (b - k) ([], 0)).2 / (s.getD (b - k) ([], 0)).2 else 1
  | [], [], k, _ => by simp [bondRatioFrom]
  | [], _ :: _, _, h => by simp at h
  | _ :: _, [], _, h => by simp at h
  | (ea, ja) :: o, (eb, jb) :: s, k, h => by
    have hl : o.length = s.length := by simpa using h
    simp only [bondRatioFrom]
    rw [bondRatioFrom_delta b o s (k + 1) hl]
    by_cases hk : k = b
    · subst hk
      have : ¬ (k + 1 ≤ k ∧ k - (k + 1) < s.length) := by omega
      simp [delta, this]
    · have hd : delta b k = 0 := by simp [delta, hk]
      rw [hd]
      by_cases h1 : k ≤ b ∧ b - k < (s.length + 1)
      · have h2 : k + 1 ≤ b ∧ b - (k + 1) < s.length := by omega
        have h3 : b - k = (b - (k + 1)) + 1 := by omega
        simp only [List.length_cons, h1, h2, and_self, if_true, pow_zero, one_mul]
        rw [h3]; simp [List.getD_cons_succ]
      · have h2 : ¬ (k + 1 ≤ b ∧ b - (k + 1) < s.length) := by omega
        simp only [List.length_cons, h1, h2, if_false, pow_zero, one_mul]

theorem sumCount_delta (b st : Nat) : ∀ n,
    sumCount (delta b) st n = if st ≤ b ∧ b < st + n then 1 else 0
  | 0 => by simp [sumCount]
  | n + 1 => by
    simp only [sumCount]; rw [sumCount_delta b st n]
    by_cases h : n + st = b
    · have h1 : ¬ (st ≤ b ∧ b < st + n) := by omega
      have h2 : st ≤ b ∧ b < st + (n + 1) := by omega
      simp [delta, h, h1, h2]
    · have hd : delta b (n + st) = 0 := by simp [delta, h]
      rw [hd]
      by_cases h1 : st ≤ b ∧ b < st + n
      · have h2 : st ≤ b ∧ b < st + (n + 1) := by omega
        simp [h1, h2]
      · have h2 : ¬ (st ≤ b ∧ b < st + (n + 1)) := by omega
        simp [h1, h2]

/-- the per-bond ratio `ρ(b)` the count formula multiplies in for one operator on bond `b` -/
def bondRho (self other : IsingH) (b : Nat) : Rat :=
  if b < self.nedges then other.J b / self.J b
  else if b < self.nedges + self.nvars then other.gamma / self.gamma
  else other.h / self.h

theorem relWIsingCounts_delta (self other : IsingH) (b : Nat)
    (hlen : other.edges.length = self.edges.length) (hb : b < self.numBonds) :
    relWIsingCounts self other (delta b) = bondRho self other b := by
  unfold relWIsingCounts bondRho IsingH.numBonds at *
  simp only [bondRatioFrom_delta b _ _ 0 hlen, sumCount_delta, IsingH.nedges, IsingH.J] at *
  by_cases h1 : b < self.edges.length
  · have a1 : ¬ (self.edges.length ≤ b ∧ b < self.edges.length + self.nvars) := by omega
    have a2 : ¬ (self.nvars + self.edges.length ≤ b ∧ b < self.nvars + self.edges.length + self.nvars) := by omega
    simp [h1, a1, a2]
  · by_cases h2 : b < self.edges.length + self.nvars
    · have a0 : ¬ (0 ≤ b ∧ b - 0 < self.edges.length) := by omega
      have a1 : self.edges.length ≤ b ∧ b < self.edges.length + self.nvars := by omega
      have a2 : ¬ (self.nvars + self.edges.length ≤ b ∧ b < self.nvars + self.edges.length + self.nvars) := by omega
      simp [h1, h2, a0, a1, a2]
    · have a0 : ¬ (0 ≤ b ∧ b - 0 < self.edges.length) := by omega
      have a1 : ¬ (self.edges.length ≤ b ∧ b < self.edges.length + self.nvars) := by omega
      by_cases he : absR self.h > eps
      · have a2 : self.nvars + self.edges.length ≤ b ∧ b < self.nvars + self.edges.length + self.nvars := by
          simp only [he, if_true] at hb; omega
        simp [h1, h2, a0, a1, a2, he]
      · simp only [he, if_false] at hb; omega

end Tempering
end Qmc
