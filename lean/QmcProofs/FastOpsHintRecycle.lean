/-
C11: handing prepared args back through `get_empty_args(SubvarAccess::Args(args))` and
`fill_args_at_p(p, args)` again (the "complete whatever is still open" idiom).

`get_empty_args(Args(args))` — `getEmptyArgsFromArgs` of QmcModel/FastOps.lean, exactly as the code
writes it today — recomputes ONLY `unfilled` (entries that are `None` while the variable has ops);
`last_p` and both tables are kept.  `fill_args_at_p` then
* returns at once when `unfilled = 0`;
* otherwise walks down from `p`; its closures write an entry only where it is still `None`, record
  `last_p` only when it is `None` (op strictly above `p`) or overwrite it with `previous_p` of the node
  sitting at `p`.
Consequences proved here, on the canonical container:
* `fillArgsAtP_complete`: args that are a correct cursor at `p` (last_p = last occupied slot before `p`,
  every variable with an op before `p` resolved) come back UNCHANGED, whatever `unfilled` says;
* `recycle_partial`: args with the right `last_p` whose entries are each either `None` or the scan value
  come back as the full scan cursor of the listed variables.
-/
import QmcProofs.FastOpsSubOps

namespace Qmc

/-- a cursor that needs nothing more at `p`: `last_p` is the last occupied slot before `p`, and every
variable (known to the cursor) of every op before `p` already has an entry -/
def CompleteAt (a : Cursor) (s : Slots) (p : Nat) : Prop :=
  a.lastP = prevOcc (occAt s) p ∧
  ∀ q op, slotAt s q = some op → q < p → ∀ v ∈ op.vars, ∀ sub, a.varToSubvar v = some sub →
    (a.lastVar sub).isNone = false

theorem foldl_fix {α σ : Type} (f : σ → α → σ) (l : List α) (a : σ) (h : ∀ x ∈ l, f a x = a) :
    l.foldl f a = a := by
  induction l with
  | nil => rfl
  | cons x t ih =>
    simp only [List.foldl_cons]
    rw [h x List.mem_cons_self]
    exact ih (fun y hy => h y (List.mem_cons_of_mem _ hy))

namespace FastOps

theorem fillF_complete (s : Slots) (p q : Nat) (op : Op) (a : Cursor) (hc : CompleteAt a s p)
    (hsq : slotAt s q = some op) (hqp : q < p) :
    (fillF q (canonNode s q op) a).1 = a := by
  have hlp : a.lastP.isNone = false := by
    rw [hc.1]
    obtain ⟨y, hy, _⟩ := prevOcc_ge_of_mem (occ_of_slotAt hsq) hqp
    rw [hy]; rfl
  unfold fillF
  simp only [hlp, Bool.false_eq_true, if_false]
  have hop : (canonNode s q op).op = op := rfl
  rw [hop]
  apply foldl_fix
  intro vr hvr
  have hmem : vr.1 ∈ op.vars := List.mem_of_getElem? (zipIdx_getElem? op.vars vr hvr)
  cases hsub : a.varToSubvar vr.1 with
  | none => rfl
  | some sub =>
    simp only []
    rw [hc.2 q op hsq hqp vr.1 hmem sub hsub]
    rfl

theorem fillWalk_complete (nv : Nat) (nb : Option Nat) (s : Slots) (p : Nat) (a : Cursor) (hc : CompleteAt a s p) :
    ∀ (fuel r : Nat), r ≤ p → fillWalk (canon nv nb s) fuel (prevOcc (occAt s) r) a = a := by
  intro fuel
  induction fuel with
  | zero => intro r _; rfl
  | succ fuel ih =>
    intro r hr
    cases hq : prevOcc (occAt s) r with
    | none => rfl
    | some q =>
      obtain ⟨hqr, hqocc⟩ := prevOcc_lt hq
      obtain ⟨op, hsq⟩ := occ_iff.mp hqocc
      simp only [fillWalk, getNode_canon, hsq, Option.map_some]
      have h1 : (fillF q (canonNode s q op) a).1 = a := fillF_complete s p q op a hc hsq (by omega)
      have hprev : (canonNode s q op).previousP = prevOcc (occAt s) q := rfl
      split
      · rw [h1, hprev]; exact ih q (by omega)
      · exact h1

theorem fillAtP_complete (s : Slots) (p : Nat) (op : Op) (a : Cursor) (hc : CompleteAt a s p) : (fillAtP (canonNode s p op) a).1 = a := by
  unfold fillAtP
  simp only [canonNode, zip_self_map]
  rw [foldl_fix]
  · have : prevOcc (occAt s) p = a.lastP := hc.1.symm
    rw [this]
  · intro vp hvp
    rw [List.mem_map] at hvp
    obtain ⟨v, hv, e⟩ := hvp
    subst e
    cases hpr : prevRel s v p with
    | none => rfl
    | some prel =>
      simp only []
      cases hsub : a.varToSubvar v with
      | none => rfl
      | some sub =>
        simp only []
        -- an op on `v` lies before `p`
        have : ∃ q, prevOcc (occVAt s v) p = some q := by
          unfold prevRel at hpr
          cases h : prevOcc (occVAt s v) p with
          | none => rw [h] at hpr; cases hpr
          | some q => exact ⟨q, rfl⟩
        obtain ⟨q, hq⟩ := this
        obtain ⟨hqp, hqocc⟩ := prevOcc_lt hq
        obtain ⟨op', hsq, hmem⟩ := occV_slot hqocc
        rw [hc.2 q op' hsq hqp v hmem sub hsub]
        rfl

/-- **a complete cursor comes back unchanged** from `fill_args_at_p`, whatever its counter says -/
theorem fillArgsAtP_complete (nv : Nat) (nb : Option Nat) (s : Slots) (p : Nat) (a : Cursor)
    (hc : CompleteAt a s p) : (canon nv nb s).fillArgsAtP p a = a := by
  unfold fillArgsAtP
  split
  · rw [getNode_canon]
    cases hsp : slotAt s p with
    | none =>
      simp only [Option.map_none, scanDown_canon]
      exact fillWalk_complete nv nb s p a hc (p + 1) p (Nat.le_refl _)
    | some op =>
      simp only [Option.map_some]
      have h1 := fillAtP_complete s p op a hc
      have hprev : (canonNode s p op).previousP = prevOcc (occAt s) p := rfl
      split
      · rw [h1, hprev]; exact fillWalk_complete nv nb s p a hc (p + 1) p (Nat.le_refl _)
      · exact h1
  · rfl

theorem getEmptyArgsFromArgs_fields (c : FastOps) (a : Cursor) :
    c.getEmptyArgsFromArgs a = { a with unfilled := (c.getEmptyArgsFromArgs a).unfilled } := rfl

theorem completeAt_recycle (c : FastOps) (a : Cursor) (s : Slots) (p : Nat) (hc : CompleteAt a s p) :
    CompleteAt (c.getEmptyArgsFromArgs a) s p := hc

end FastOps

/-- a correct Varlist cursor at `p` is complete -/
theorem SubCur.complete {a : Cursor} {vs : List Nat} {s : Slots} {p : Nat} (h : SubCur a vs s p) (hn : vs.Nodup) :
    CompleteAt a s p := by
  refine ⟨h.hP, ?_⟩
  intro q op hsq hqp v hv sub hsub
  rw [h.hm v] at hsub
  by_cases hvs : v ∈ vs
  · simp only [hvs, if_true, Option.some.injEq] at hsub
    subst hsub
    obtain ⟨y, hy, _⟩ := prevOcc_ge_of_mem (occV_of_mem hsq hv) hqp
    simp only [Cursor.lastVar, h.hv, map_idxOf vs hn _ v hvs, Option.join_some, prevRel, hy, Option.map_some]
    rfl
  · simp [hvs] at hsub

/-- the full scan cursor at `p` is complete -/
theorem cursorByScan_complete (nv : Nat) (nb : Option Nat) (s : Slots) (hwf : WF nv nb s) (p u : Nat) :
    CompleteAt (cursorByScan nv s p u) s p := by
  refine ⟨rfl, ?_⟩
  intro q op hsq hqp v hv sub hsub
  have hvn : v < nv := (hwf q op hsq).2.2.1 v hv
  simp only [Cursor.varToSubvar, cursorByScan, Option.some.injEq] at hsub
  subst hsub
  obtain ⟨y, hy, _⟩ := prevOcc_ge_of_mem (occV_of_mem hsq hv) hqp
  simp [Cursor.lastVar, cursorByScan, List.getElem?_range hvn, prevRel, hy]

/-! ### partially resolved args: the second fill completes them -/

/-- args whose `last_p` is right and whose entries are each `None` or the scan value (`fl v` = the entry
of `v` is resolved); `subvars` = the listed variables -/
structure PartCur (a : Cursor) (vs : List Nat) (s : Slots) (p : Nat) (fl : Nat → Bool) : Prop where
  hP : a.lastP = prevOcc (occAt s) p
  hmap : ∃ m, a.subvarMapping = some (m, vs)
  hm : ∀ v, a.varToSubvar v = if v ∈ vs then some (vs.idxOf v) else none
  hv : a.lastVars = vs.map (fun v => if fl v then (prevRel s v p).map (·.p) else none)
  hr : a.lastRels = vs.map (fun v => if fl v then (prevRel s v p).map (·.relv) else none)
  hs : ∀ v, fl v = true → (prevRel s v p).isSome = true

namespace FastOps

/-- `fillAtP` from ANY walk state (generalises `fillAtP_WGS`, which starts from the empty cursor) -/
theorem fillAtP_WGS_gen (nv : Nat) (nb : Option Nat) (vs : List Nat) (hn : vs.Nodup) (s : Slots) (p : Nat)
    (op : Op) (hwf : WF nv nb s) (hsp : slotAt s p = some op) (a : Cursor) (fl0 : Nat → Bool)
    (hw : WGS vs s p fl0 a) :
    WGS vs s p (fun w => fl0 w || (op.vars.reverse.contains w && (prevRel s w p).isSome))
      (fillAtP (canonNode s p op) a).1 := by
  obtain ⟨_, hnodup, hlt, _⟩ := hwf p op hsp
  unfold fillAtP
  simp only [canonNode, zip_self_map]
  let I : List Nat → Cursor → Prop := fun D a' =>
    WGS vs s p (fun w => fl0 w || (D.contains w && (prevRel s w p).isSome)) a'
  have hbase : I [] a := WGS_congr vs s p (fun v _ => by simp) (fun v hv => hw.hs v (by simpa using hv)) hw
  have hsI : ∀ (D : List Nat) (w : Nat), (fl0 w || (D.contains w && (prevRel s w p).isSome)) = true →
      (prevRel s w p).isSome = true := by
    intro D w h
    simp only [Bool.or_eq_true, Bool.and_eq_true] at h
    cases h with
    | inl h => exact hw.hs w h
    | inr h => exact h.2
  have hfold := fold_inv' I
    (fun (a : Cursor) (vp : Nat × Option PRel) =>
      match vp.2 with
      | none => a
      | some prel =>
        match a.varToSubvar vp.1 with
        | some sub =>
          if (a.lastVar sub).isNone then
            { a with unfilled := a.unfilled - 1, lastVars := a.lastVars.set sub (some prel.p),
                     lastRels := a.lastRels.set sub (some prel.relv) }
          else a
        | none => a)
    (fun vp => vp.1) (fun vp => vp.2 = prevRel s vp.1 p ∧ vp.1 ∈ op.vars)
    (by
      intro D a' x hx hD hI
      obtain ⟨hx2, hxmem⟩ := hx
      cases hpr : x.2 with
      | none =>
        simp only []
        apply WGS_congr vs s p _ (hsI _) hI
        intro w _
        by_cases hw' : w = x.1
        · rw [hw', ← hx2, hpr]; simp [hD]
        · simp [hw']
      | some prel =>
        simp only []
        have hprel : prevRel s x.1 p = some prel := by rw [← hx2, hpr]
        by_cases hxv : x.1 ∈ vs
        · have hsub : a'.varToSubvar x.1 = some (vs.idxOf x.1) := by rw [hI.hm]; simp [hxv]
          simp only [hsub]
          have hln := WGS_lastVar vs s p hn hI x.1 hxv
          have hflD : (fl0 x.1 || (D.contains x.1 && (prevRel s x.1 p).isSome)) = fl0 x.1 := by
            simp [hD]
          rw [hflD] at hln
          cases hf0 : fl0 x.1 with
          | true =>
            rw [hf0] at hln
            simp only [Bool.not_true] at hln
            simp only [hln, Bool.false_eq_true, if_false]
            apply WGS_congr vs s p _ (hsI _) hI
            intro w _
            by_cases hw' : w = x.1
            · subst hw'; simp [hf0]
            · simp [hw']
          | false =>
            rw [hf0] at hln
            simp only [Bool.not_false] at hln
            simp only [hln, if_true]
            have := WGS_fill vs s p hn hI x.1 hxv prel hprel (by rw [hflD, hf0])
            apply WGS_congr vs s p _ (hsI _) this
            intro w _
            by_cases hw' : w = x.1
            · subst hw'; simp [hprel]
            · simp [hw']
        · have hsub : a'.varToSubvar x.1 = none := by rw [hI.hm]; simp [hxv]
          simp only [hsub]
          apply WGS_congr vs s p _ (hsI _) hI
          intro w hw
          have : ¬ w = x.1 := fun e => hxv (e ▸ hw)
          simp [this])
    (op.vars.map (fun v => (v, prevRel s v p))) [] a
    (by
      intro x hx
      rw [List.mem_map] at hx
      obtain ⟨v, hv, e⟩ := hx
      subst e
      exact ⟨rfl, hv⟩)
    (by rw [List.map_map]; simpa [Function.comp_def] using hnodup) (by simp) hbase
  rw [List.map_map, List.append_nil] at hfold
  have hkeys : (List.map ((fun (vp : Nat × Option PRel) => vp.1) ∘ fun v => (v, prevRel s v p)) op.vars) = op.vars := by
    simp [Function.comp_def]
  rw [hkeys] at hfold
  exact ⟨hfold.hm, hfold.hv, hfold.hr, hfold.hc, hfold.hs⟩

theorem fillF_lastP_keep (q : Nat) (node : Node) (a : Cursor) (h : a.lastP.isNone = false) :
    (fillF q node a).1.lastP = a.lastP := by
  unfold fillF
  simp only [h, Bool.false_eq_true, if_false]
  apply foldl_keeps (fun (c : Cursor) => c.lastP = a.lastP)
  · intro c x hc
    cases c.varToSubvar x.1 with
    | none => exact hc
    | some sub =>
      simp only []
      split <;> exact hc
  · rfl

theorem fillWalk_lastP_keep (c : FastOps) :
    ∀ (fuel : Nat) (q : Option Nat) (a : Cursor), a.lastP.isNone = false →
      (fillWalk c fuel q a).lastP = a.lastP := by
  intro fuel
  induction fuel with
  | zero => intro q a _; rfl
  | succ fuel ih =>
    intro q a h
    cases q with
    | none => rfl
    | some q =>
      unfold fillWalk
      cases c.getNode q with
      | none => rfl
      | some node =>
        simp only []
        have h1 := fillF_lastP_keep q node a h
        split
        · rw [ih _ _ (by rw [h1]; exact h), h1]
        · exact h1

theorem fillWalk_none (c : FastOps) (fuel : Nat) (a : Cursor) : fillWalk c fuel none a = a := by
  cases fuel <;> rfl

/-- the counter `get_empty_args(Args(a))` computes for partially resolved Varlist args -/
theorem recycle_unfilled (nv : Nat) (nb : Option Nat) (s : Slots) (vs : List Nat) (hn : vs.Nodup)
    (hlt : ∀ v ∈ vs, v < nv) (p : Nat) (a : Cursor) (fl : Nat → Bool) (h : PartCur a vs s p fl) :
    ((canon nv nb s).getEmptyArgsFromArgs a).unfilled = (vs.filter (fun v => hasOpsV s v && !fl v)).length := by
  obtain ⟨m, hmap⟩ := h.hmap
  have hlen : a.lastVars.length = vs.length := by rw [h.hv]; simp
  have hW : WGS vs s p fl { a with unfilled := vs.length } :=
    ⟨h.hm, h.hv, h.hr, by simpa using List.length_filter_le _ vs, h.hs⟩
  unfold getEmptyArgsFromArgs
  simp only [hlen]
  have : (List.range vs.length).filter (fun sub =>
      (a.lastVar sub).isNone && ((canon nv nb s).varEnd (a.subvarToVar sub)).isSome)
      = (List.range vs.length).filter (fun i => (fun v => hasOpsV s v && !fl v) (vs.getD i 0)) := by
    apply List.filter_congr
    intro i hi
    have hi' : i < vs.length := by simpa using hi
    have hvi : vs.getD i 0 = vs[i] := by simp [List.getD_eq_getElem?_getD, hi']
    have hmem : vs[i] ∈ vs := List.getElem_mem hi'
    have hidx : vs.idxOf vs[i] = i := hn.idxOf_getElem i hi'
    have hln := WGS_lastVar vs s p hn hW vs[i] hmem
    rw [hidx] at hln
    have hln' : (a.lastVar i).isNone = !fl vs[i] := hln
    have hsv : a.subvarToVar i = vs[i] := by
      simp [Cursor.subvarToVar, hmap, List.getD_eq_getElem?_getD, hi']
    have hve : ((canon nv nb s).varEnd vs[i]).isSome = hasOpsV s vs[i] := by
      rw [varEnd_canon nv nb s _ (hlt _ hmem)]
      simp only [hasOpsV, canonVarEnd, firstRel, lastRel]
      have := @first_some_iff_last_some (occVAt s vs[i]) s.length
      cases h1 : firstOcc (occVAt s vs[i]) s.length <;> cases h2 : lastOcc (occVAt s vs[i]) s.length <;>
        simp [h1, h2, zipOpt] at this ⊢
    rw [hln', hsv, hve, hvi, Bool.and_comm]
  rw [this, filter_range_getD vs (fun v => hasOpsV s v && !fl v) 0]

/-- **partially resolved args are completed**: `get_empty_args(Args(a))` + `fill_args_at_p(p, ·)` on args
with the right `last_p` whose entries are each `None` or the scan value yield the scan cursor of the listed
variables -/
theorem recycle_partial (nv : Nat) (nb : Option Nat) (s : Slots) (hwf : WF nv nb s) (vs : List Nat)
    (hn : vs.Nodup) (hlt : ∀ v ∈ vs, v < nv) (p : Nat) (a : Cursor) (fl : Nat → Bool)
    (h : PartCur a vs s p fl) :
    SubCur ((canon nv nb s).fillArgsAtP p ((canon nv nb s).getEmptyArgsFromArgs a)) vs s p := by
  have hu := recycle_unfilled nv nb s vs hn hlt p a fl h
  generalize ha' : (canon nv nb s).getEmptyArgsFromArgs a = a' at hu
  have hfields : a'.lastP = a.lastP ∧ a'.lastVars = a.lastVars ∧ a'.lastRels = a.lastRels ∧
      a'.subvarMapping = a.subvarMapping := by rw [← ha']; exact ⟨rfl, rfl, rfl, rfl⟩
  have hm' : ∀ v, a'.varToSubvar v = if v ∈ vs then some (vs.idxOf v) else none := by
    intro v; rw [← h.hm v]; simp only [Cursor.varToSubvar, hfields.2.2.2]
  have h0 : WGS vs s p fl a' :=
    ⟨hm', by rw [hfields.2.1]; exact h.hv, by rw [hfields.2.2.1]; exact h.hr, by rw [hu]; exact Nat.le_refl _, h.hs⟩
  have hP' : a'.lastP = prevOcc (occAt s) p := by rw [hfields.1]; exact h.hP
  have hfp : ∀ w, fil s p p w = false := by
    intro w
    unfold fil
    cases hx : prevOcc (occVAt s w) p with
    | none => rfl
    | some x => have := (prevOcc_lt hx).1; simp; omega
  -- tables and `last_p` of the result
  have key : ∃ fl', WGS vs s p fl' ((canon nv nb s).fillArgsAtP p a') ∧
      (∀ v, v ∈ vs → ∀ x, prevOcc (occVAt s v) p = some x → fl' v = true) ∧
      ((canon nv nb s).fillArgsAtP p a').lastP = prevOcc (occAt s) p := by
    unfold fillArgsAtP
    by_cases hun : a'.unfilled > 0
    · simp only [hun, if_true, getNode_canon]
      cases hsp : slotAt s p with
      | none =>
        simp only [Option.map_none, scanDown_canon]
        obtain ⟨fl', h1, h2⟩ := fillWalk_WGS nv nb vs hn s p hwf fl (p + 1) p a' (Nat.le_refl p)
          (WGS_congr vs s p (fun v _ => by simp [hfp]) (fun v hv => h0.hs v (by simpa [hfp] using hv)) h0)
          (by intro q hq; have := (prevOcc_lt hq).1; omega)
        refine ⟨fl', h1, h2, ?_⟩
        cases hq : prevOcc (occAt s) p with
        | none => rw [fillWalk_none]; rw [hP', hq]
        | some q =>
          rw [fillWalk_lastP_keep _ _ _ _ (by rw [hP', hq]; rfl), hP', hq]
      | some op =>
        simp only [Option.map_some]
        have hA := fillAtP_WGS_gen nv nb vs hn s p op hwf hsp a' fl h0
        have hlpA : (fillAtP (canonNode s p op) a').1.lastP = prevOcc (occAt s) p := rfl
        have hprev : (canonNode s p op).previousP = prevOcc (occAt s) p := rfl
        by_cases hcont : (fillAtP (canonNode s p op) a').2 = true
        · simp only [hcont, if_true, hprev]
          obtain ⟨fl', h1, h2⟩ := fillWalk_WGS nv nb vs hn s p hwf
            (fun w => fl w || (op.vars.reverse.contains w && (prevRel s w p).isSome)) (p + 1) p _ (Nat.le_refl p)
            (WGS_congr vs s p (fun v _ => by simp [hfp])
              (fun v hv => hA.hs v (by simpa [hfp] using hv)) hA)
            (by intro q hq; have := (prevOcc_lt hq).1; omega)
          refine ⟨fl', h1, h2, ?_⟩
          cases hq : prevOcc (occAt s) p with
          | none => rw [fillWalk_none]; rw [hlpA, hq]
          | some q =>
            rw [fillWalk_lastP_keep _ _ _ _ (by rw [hlpA, hq]; rfl), hlpA, hq]
        · simp only [hcont, Bool.false_eq_true, if_false]
          refine ⟨_, hA, ?_, hlpA⟩
          apply WGS_all_of_zero vs s p hA
          have : (fillAtP (canonNode s p op) a').2
              = decide ((fillAtP (canonNode s p op) a').1.unfilled > 0) := rfl
          rw [this] at hcont
          simpa using hcont
    · simp only [hun, if_false]
      exact ⟨fl, h0, WGS_all_of_zero vs s p h0 (by omega), hP'⟩
  obtain ⟨fl', hfl, hall, hlp⟩ := key
  obtain ⟨e1, e2⟩ := WGS_final vs s p hfl hall
  exact ⟨hlp, hfl.hm, e1, e2⟩

end FastOps
end Qmc
