import QmcProofs.KernelInvarianceLib
import QmcProofs.Diagonal
import QmcProps.C09

/-!
# Cluster update and free-spin refresh as Markov kernels (helper of `KernelInvariance.lean`)

* `ClusterFamily fr S`: for every skeleton a finite list of maps `Config → Config` (one per
  flippable cluster) which, on the configurations of `S` with that skeleton, are pairwise commuting
  involutions, stay in `S`, and are cluster moves in the sense of C09 (`ClusterMove fr c (f c)`).
  Nothing else is assumed; weight, skeleton, count and consistency preservation are *derived* from
  `ClusterMove` with the C09 theorems.
* `clusterK fam`: every cluster of the family of the current skeleton is flipped independently with
  probability ½ (`flipsK`), read off the skeleton (`fiberK`).
* `toggleIdle v`: flip the `p = 0` value of variable `v` if it carries no operator; `refreshK N`
  flips every idle variable `v < N` independently with probability ½, which is the same as
  resetting it to a fair coin (`lazy_toggle_eq_reset`).
-/

open Finset

namespace Qmc.Kernel
open Qmc Qmc.Dist

/-! ### the weight reads only the operator string -/

theorem opsWeight_eq_prod (H : Ham) : ∀ s : Slots, opsWeight H s = configWeightProd H s
  | [] => rfl
  | none :: t => by simp only [opsWeight, configWeightProd]; exact opsWeight_eq_prod H t
  | some o :: t => by simp only [opsWeight, configWeightProd]; rw [opsWeight_eq_prod H t]

theorem configWeight_congr (H : Ham) (β : Rat) {a b : Config} (hl : a.slots.length = b.slots.length)
    (hn : countOps a.slots = countOps b.slots) (hw : opsWeight H a.slots = opsWeight H b.slots) :
    configWeight H β a = configWeight H β b := by
  unfold configWeight
  simp only [hl, hn, hw]

theorem configWeight_of_slots_eq (H : Ham) (β : Rat) {a b : Config} (h : a.slots = b.slots) :
    configWeight H β a = configWeight H β b := by
  unfold configWeight; rw [h]

/-- **a cluster move preserves the SSE weight** (C09: same cutoff, same count, same product of
matrix elements) -/
theorem clusterMove_configWeight (H : Ham) (β : Rat) {fr : SkOp → Bool} {b a : Config}
    (h : ClusterMove fr b a)
    (hsym : ∀ o ∈ opsOf b.slots, o.isEdge = false → fr o.sk = false → H.FlipSym o.bond)
    (hconst : ∀ o ∈ opsOf b.slots, o.isEdge = true → H.ConstW o.bond) :
    configWeight H β a = configWeight H β b :=
  configWeight_congr H β (Qmc.C09.clusterMove_positions h).1 (Qmc.C09.clusterMove_count h)
    (by rw [opsWeight_eq_prod, opsWeight_eq_prod]; exact Qmc.C09.clusterMove_weight H h hsym hconst)

/-! ### the cluster family -/

/-- what is needed of the Hamiltonian on the operators that occur in `S` (hypotheses of
`clusterMove_weight`) -/
def ClusterSym (H : Ham) (fr : SkOp → Bool) (S : Finset Config) : Prop :=
  ∀ c ∈ S, (∀ o ∈ opsOf c.slots, o.isEdge = false → fr o.sk = false → H.FlipSym o.bond) ∧
    (∀ o ∈ opsOf c.slots, o.isEdge = true → H.ConstW o.bond)

/-- The flippable clusters of every skeleton, as maps on configurations.  On the configurations
of `S` with skeleton `s` the maps `flips s` stay in `S`, are involutions, commute, and each is a
cluster move of C09 (or does nothing). -/
structure ClusterFamily (fr : SkOp → Bool) (S : Finset Config) where
  flips : Skel → List (Config → Config)
  closed : ∀ s, ∀ f ∈ flips s, ∀ c ∈ S, skeleton c.slots = s → f c ∈ S
  invol : ∀ s, ∀ f ∈ flips s, ∀ c ∈ S, skeleton c.slots = s → f (f c) = c
  comm : ∀ s, ∀ f ∈ flips s, ∀ g ∈ flips s, ∀ c ∈ S, skeleton c.slots = s → f (g c) = g (f c)
  move : ∀ s, ∀ f ∈ flips s, ∀ c ∈ S, skeleton c.slots = s → f c = c ∨ ClusterMove fr c (f c)

/-- a flip of the family of skeleton `s`, made total: identity off its domain -/
def guardFlip (S : Finset Config) (s : Skel) (f : Config → Config) (c : Config) : Config :=
  if c ∈ S ∧ skeleton c.slots = s then f c else c

variable {fr : SkOp → Bool} {S : Finset Config}

theorem ClusterFamily.skeleton_eq (fam : ClusterFamily fr S) {s : Skel} {f : Config → Config}
    (hf : f ∈ fam.flips s) {c : Config} (hc : c ∈ S) (hs : skeleton c.slots = s) :
    skeleton (f c).slots = s := by
  rcases fam.move s f hf c hc hs with h | h
  · rw [h]; exact hs
  · rw [Qmc.C09.clusterMove_skeleton h]; exact hs

theorem guardFlip_dom (fam : ClusterFamily fr S) {s : Skel} {f : Config → Config}
    (hf : f ∈ fam.flips s) {c : Config} (h : c ∈ S ∧ skeleton c.slots = s) :
    guardFlip S s f c ∈ S ∧ skeleton (guardFlip S s f c).slots = s := by
  unfold guardFlip
  rw [if_pos h]
  exact ⟨fam.closed s f hf c h.1 h.2, fam.skeleton_eq hf h.1 h.2⟩

theorem guardFlip_invol (fam : ClusterFamily fr S) {s : Skel} {f : Config → Config}
    (hf : f ∈ fam.flips s) (c : Config) : guardFlip S s f (guardFlip S s f c) = c := by
  by_cases h : c ∈ S ∧ skeleton c.slots = s
  · have h' := guardFlip_dom fam hf h
    have e : guardFlip S s f c = f c := by unfold guardFlip; rw [if_pos h]
    rw [e] at h' ⊢
    unfold guardFlip
    rw [if_pos h']
    exact fam.invol s f hf c h.1 h.2
  · have e : guardFlip S s f c = c := by unfold guardFlip; rw [if_neg h]
    rw [e, e]

theorem guardFlip_comm (fam : ClusterFamily fr S) {s : Skel} {f g : Config → Config}
    (hf : f ∈ fam.flips s) (hg : g ∈ fam.flips s) (c : Config) :
    guardFlip S s f (guardFlip S s g c) = guardFlip S s g (guardFlip S s f c) := by
  by_cases h : c ∈ S ∧ skeleton c.slots = s
  · have h1 := guardFlip_dom fam hf h
    have h2 := guardFlip_dom fam hg h
    have e1 : guardFlip S s f c = f c := by unfold guardFlip; rw [if_pos h]
    have e2 : guardFlip S s g c = g c := by unfold guardFlip; rw [if_pos h]
    rw [e1] at h1 ⊢
    rw [e2] at h2 ⊢
    unfold guardFlip
    rw [if_pos h1, if_pos h2]
    exact fam.comm s f hf g hg c h.1 h.2
  · have e1 : guardFlip S s f c = c := by unfold guardFlip; rw [if_neg h]
    have e2 : guardFlip S s g c = c := by unfold guardFlip; rw [if_neg h]
    rw [e1, e2, e1]

theorem guardFlip_skeleton (fam : ClusterFamily fr S) {s : Skel} {f : Config → Config}
    (hf : f ∈ fam.flips s) (c : Config) : skeleton (guardFlip S s f c).slots = skeleton c.slots := by
  by_cases h : c ∈ S ∧ skeleton c.slots = s
  · rw [(guardFlip_dom fam hf h).2, h.2]
  · unfold guardFlip; rw [if_neg h]

theorem guardFlip_mem (fam : ClusterFamily fr S) {s : Skel} {f : Config → Config}
    (hf : f ∈ fam.flips s) {c : Config} (hc : c ∈ S) : guardFlip S s f c ∈ S := by
  by_cases h : c ∈ S ∧ skeleton c.slots = s
  · exact (guardFlip_dom fam hf h).1
  · unfold guardFlip; rw [if_neg h]; exact hc

/-- each flip of the family preserves the SSE weight — derived from `ClusterMove` -/
theorem guardFlip_weight (fam : ClusterFamily fr S) (H : Ham) (β : Rat) (hH : ClusterSym H fr S)
    {s : Skel} {f : Config → Config} (hf : f ∈ fam.flips s) (c : Config) :
    configWeight H β (guardFlip S s f c) = configWeight H β c := by
  unfold guardFlip
  by_cases h : c ∈ S ∧ skeleton c.slots = s
  · rw [if_pos h]
    rcases fam.move s f hf c h.1 h.2 with e | hm
    · rw [e]
    · exact clusterMove_configWeight H β hm (hH c h.1).1 (hH c h.1).2
  · rw [if_neg h]

/-- each flip of the family preserves consistency — derived from `ClusterMove` -/
theorem guardFlip_consistent (fam : ClusterFamily fr S) {s : Skel} {f : Config → Config}
    (hf : f ∈ fam.flips s) (c : Config) : Consistent (guardFlip S s f c) ↔ Consistent c := by
  by_cases h : c ∈ S ∧ skeleton c.slots = s
  · have e : guardFlip S s f c = f c := by unfold guardFlip; rw [if_pos h]
    rw [e]
    rcases fam.move s f hf c h.1 h.2 with e' | hm
    · rw [e']
    · exact ⟨Qmc.C09.clusterMove_consistent (Qmc.C09.clusterMove_symm hm),
        Qmc.C09.clusterMove_consistent hm⟩
  · unfold guardFlip; rw [if_neg h]

/-- the fair-coin flips of the clusters of skeleton `s` -/
def clusterFlipList (fam : ClusterFamily fr S) (s : Skel) : List (Rat × (Config → Config)) :=
  (fam.flips s).map (fun f => ((1 / 2 : Rat), guardFlip S s f))

/-- **the cluster kernel**: read the skeleton, flip each of its flippable clusters independently with
probability ½ (clusters of flip weight 0 are not in the family: they are never flipped) -/
def clusterK (fam : ClusterFamily fr S) : Config → Config → Rat :=
  fiberK (fun c => skeleton c.slots) (fun s => flipsK (clusterFlipList fam s))

theorem mem_clusterFlipList {fam : ClusterFamily fr S} {s : Skel} {x : Rat × (Config → Config)}
    (hx : x ∈ clusterFlipList fam s) : x.1 = 1 / 2 ∧ ∃ f ∈ fam.flips s, x.2 = guardFlip S s f := by
  unfold clusterFlipList at hx
  obtain ⟨f, hf, rfl⟩ := List.mem_map.mp hx
  exact ⟨rfl, f, hf, rfl⟩

theorem clusterFlipList_invol (fam : ClusterFamily fr S) (s : Skel) :
    ∀ x ∈ clusterFlipList fam s, ∀ a, x.2 (x.2 a) = a := by
  intro x hx a
  obtain ⟨-, f, hf, e⟩ := mem_clusterFlipList hx
  rw [e]; exact guardFlip_invol fam hf a

theorem clusterFlipList_comm (fam : ClusterFamily fr S) (s : Skel) :
    Commuting (clusterFlipList fam s) := by
  intro x hx y hy a
  obtain ⟨-, f, hf, e⟩ := mem_clusterFlipList hx
  obtain ⟨-, g, hg, e'⟩ := mem_clusterFlipList hy
  rw [e, e']; exact guardFlip_comm fam hf hg a

theorem clusterFlipList_skeleton (fam : ClusterFamily fr S) (s : Skel) :
    ∀ x ∈ clusterFlipList fam s, ∀ a, skeleton (x.2 a).slots = skeleton a.slots := by
  intro x hx a
  obtain ⟨-, f, hf, e⟩ := mem_clusterFlipList hx
  rw [e]; exact guardFlip_skeleton fam hf a

theorem clusterFlipList_mem (fam : ClusterFamily fr S) (s : Skel) :
    ∀ x ∈ clusterFlipList fam s, ∀ a ∈ S, x.2 a ∈ S := by
  intro x hx a ha
  obtain ⟨-, f, hf, e⟩ := mem_clusterFlipList hx
  rw [e]; exact guardFlip_mem fam hf ha

/-- **`cluster_kernel_reversible`** (general weight): the cluster kernel is in detailed balance with
every weight that each flip of the family preserves. -/
theorem clusterK_reversible_of (fam : ClusterFamily fr S) (π : Config → Rat)
    (hπ : ∀ s, ∀ f ∈ fam.flips s, ∀ c, π (guardFlip S s f c) = π c) :
    Reversible π (clusterK fam) := by
  refine fiberK_reversible _ _ (fun s => ?_) (fun s a b h => ?_)
  · refine flipsK_reversible _ (clusterFlipList_invol fam s) ?_ (clusterFlipList_comm fam s)
    intro x hx a
    obtain ⟨-, f, hf, e⟩ := mem_clusterFlipList hx
    rw [e]; exact hπ s f hf a
  · exact flipsK_support (fun c => skeleton c.slots) _ (clusterFlipList_skeleton fam s) a b h

/-- the kernel is symmetric: `K(c, c') = K(c', c)` -/
theorem clusterK_symmetric (fam : ClusterFamily fr S) (a b : Config) :
    clusterK fam a b = clusterK fam b a := by
  have := clusterK_reversible_of fam (fun _ => (1 : Rat)) (fun _ _ _ _ => rfl) a b
  simpa using this

/-- … with value `2^-k · #{subsets T of the k clusters : flip_T c = c'}` (`= 2^-k` on the orbit when
different subsets give different configurations) -/
theorem clusterK_value (fam : ClusterFamily fr S) (a b : Config) :
    clusterK fam a b =
      (1 / 2 : Rat) ^ (fam.flips (skeleton a.slots)).length *
        (((bitLists (fam.flips (skeleton a.slots)).length).filter
          (fun t => decide (applySub t (clusterFlipList fam (skeleton a.slots)) a = b))).length : Rat) := by
  have : Invertible (2 : Rat) := invertibleOfNonzero (by norm_num)
  have h := flipsK_half_count (clusterFlipList fam (skeleton a.slots))
    (fun x hx => by rw [(mem_clusterFlipList hx).1]; simp) a b
  have hl : (clusterFlipList fam (skeleton a.slots)).length = (fam.flips (skeleton a.slots)).length := by
    simp [clusterFlipList]
  rw [hl] at h
  have h2 : (⅟2 : Rat) = 1 / 2 := by simp
  rw [h2] at h
  exact h

theorem clusterK_rowSumOn (fam : ClusterFamily fr S) : RowSumOn S (clusterK fam) :=
  fiberK_rowSumOn _ _ (fun a ha => flipsK_rowSumOn _ (clusterFlipList_mem fam _) a ha)

theorem clusterK_nonneg (fam : ClusterFamily fr S) (a b : Config) : 0 ≤ clusterK fam a b := by
  unfold clusterK fiberK
  refine flipsK_nonneg _ (fun x hx => ?_) a b
  rw [(mem_clusterFlipList hx).1]; constructor <;> norm_num

/-- the kernel connects only configurations that are both consistent or both not -/
theorem clusterK_consistent (fam : ClusterFamily fr S) (a b : Config) (h : clusterK fam a b ≠ 0) :
    (Consistent a ↔ Consistent b) := by
  unfold clusterK fiberK at h
  have := flipsK_support (fun c => (Consistent c : Prop)) (clusterFlipList fam (skeleton a.slots))
    (fun x hx c => by
      obtain ⟨-, f, hf, e⟩ := mem_clusterFlipList hx
      rw [e]; exact propext (guardFlip_consistent fam hf c)) a b h
  exact (iff_of_eq this).symm

/-! ### free-spin refresh -/

/-- flip the `p = 0` value of variable `v` if no operator acts on it -/
def toggleIdle (v : Nat) (c : Config) : Config :=
  if varHasOp (skeleton c.slots) v = false ∧ v < c.state.length then
    { c with state := c.state.set v (!(c.state.getD v false)) }
  else c

theorem toggleIdle_slots (v : Nat) (c : Config) : (toggleIdle v c).slots = c.slots := by
  unfold toggleIdle; split <;> rfl

theorem toggleIdle_length (v : Nat) (c : Config) : (toggleIdle v c).state.length = c.state.length := by
  unfold toggleIdle; split
  · simp
  · rfl

theorem getD_set_self (l : List Bool) (v : Nat) (x : Bool) (h : v < l.length) :
    (l.set v x).getD v false = x := by
  simp [List.getD_eq_getElem?_getD, List.getElem?_set_self h]

theorem getD_set_ne (l : List Bool) {v w : Nat} (x : Bool) (h : v ≠ w) :
    (l.set v x).getD w false = l.getD w false := by
  simp [List.getD_eq_getElem?_getD, List.getElem?_set_ne h]

theorem set_getD_self (l : List Bool) (v : Nat) (h : v < l.length) : l.set v (l.getD v false) = l := by
  have : l.getD v false = l[v] := by simp [List.getD_eq_getElem?_getD, List.getElem?_eq_getElem h]
  rw [this]; exact List.set_getElem_self h

theorem toggleIdle_invol (v : Nat) (c : Config) : toggleIdle v (toggleIdle v c) = c := by
  by_cases h : varHasOp (skeleton c.slots) v = false ∧ v < c.state.length
  · have e : toggleIdle v c = { c with state := c.state.set v (!(c.state.getD v false)) } := by
      unfold toggleIdle; rw [if_pos h]
    rw [e]
    unfold toggleIdle
    have h' : varHasOp (skeleton c.slots) v = false ∧ v < (c.state.set v (!(c.state.getD v false))).length := by
      simpa using h
    simp only [h', and_self, if_true]
    cases c with
    | mk st sl =>
      simp only [Config.mk.injEq, and_true]
      simp only at h
      rw [List.set_set, getD_set_self st v _ h.2, Bool.not_not, set_getD_self st v h.2]
  · have e : toggleIdle v c = c := by unfold toggleIdle; rw [if_neg h]
    rw [e, e]

theorem toggleIdle_comm (v w : Nat) (c : Config) :
    toggleIdle v (toggleIdle w c) = toggleIdle w (toggleIdle v c) := by
  by_cases hvw : v = w
  · rw [hvw]
  · cases c with
    | mk st sl =>
      unfold toggleIdle
      by_cases hv : varHasOp (skeleton sl) v = false ∧ v < st.length <;>
      by_cases hw : varHasOp (skeleton sl) w = false ∧ w < st.length <;>
      simp only [hv, hw, if_true, if_false, List.length_set, and_self]
      rw [getD_set_ne st _ (Ne.symm hvw), getD_set_ne st _ hvw, List.set_comm _ _ (Ne.symm hvw)]

theorem toggleIdle_weight (H : Ham) (β : Rat) (v : Nat) (c : Config) :
    configWeight H β (toggleIdle v c) = configWeight H β c :=
  configWeight_of_slots_eq H β (toggleIdle_slots v c)

/-- the fair-coin flips of the idle variables below `N` -/
def refreshList (N : Nat) : List (Rat × (Config → Config)) :=
  (List.range N).map (fun v => ((1 / 2 : Rat), toggleIdle v))

/-- **the free-spin refresh kernel**: every variable `v < N` without operators is flipped
independently with probability ½ -/
def refreshK (N : Nat) : Config → Config → Rat := flipsK (refreshList N)

theorem mem_refreshList {N : Nat} {x : Rat × (Config → Config)} (hx : x ∈ refreshList N) :
    x.1 = 1 / 2 ∧ ∃ v, x.2 = toggleIdle v := by
  unfold refreshList at hx
  obtain ⟨v, -, rfl⟩ := List.mem_map.mp hx
  exact ⟨rfl, v, rfl⟩

/-- detailed balance of the refresh with every weight that does not read the idle variables -/
theorem refreshK_reversible_of (N : Nat) (π : Config → Rat) (hπ : ∀ v c, π (toggleIdle v c) = π c) :
    Reversible π (refreshK N) := by
  refine flipsK_reversible _ ?_ ?_ ?_
  · intro x hx a
    obtain ⟨-, v, e⟩ := mem_refreshList hx
    rw [e]; exact toggleIdle_invol v a
  · intro x hx a
    obtain ⟨-, v, e⟩ := mem_refreshList hx
    rw [e]; exact hπ v a
  · intro x hx y hy a
    obtain ⟨-, v, e⟩ := mem_refreshList hx
    obtain ⟨-, w, e'⟩ := mem_refreshList hy
    rw [e, e']; exact toggleIdle_comm v w a

theorem refreshK_rowSumOn (N : Nat) (hcl : ∀ v, ∀ c ∈ S, toggleIdle v c ∈ S) :
    RowSumOn S (refreshK N) := by
  refine flipsK_rowSumOn _ ?_
  intro x hx a ha
  obtain ⟨-, v, e⟩ := mem_refreshList hx
  rw [e]; exact hcl v a ha

theorem refreshK_nonneg (N : Nat) (a b : Config) : 0 ≤ refreshK N a b := by
  refine flipsK_nonneg _ (fun x hx => ?_) a b
  rw [(mem_refreshList hx).1]; constructor <;> norm_num

/-- flipping an idle variable with probability ½ *is* resetting it to a fair coin: both kernels put
mass ½ on "value false" and ½ on "value true" -/
theorem lazy_toggle_eq_reset (v : Nat) (c : Config)
    (h : varHasOp (skeleton c.slots) v = false ∧ v < c.state.length) (b : Config) :
    lazyK (1 / 2 : Rat) (toggleIdle v) c b =
      (1 / 2) * (if b = { c with state := c.state.set v false } then 1 else 0) +
      (1 / 2) * (if b = { c with state := c.state.set v true } then 1 else 0) := by
  rw [lazyK_apply]
  have e : toggleIdle v c = { c with state := c.state.set v (!(c.state.getD v false)) } := by
    unfold toggleIdle; rw [if_pos h]
  rw [e]
  cases c with
  | mk st sl =>
    simp only at h ⊢
    cases hx : st.getD v false
    · have hc : st.set v false = st := by rw [← hx]; exact set_getD_self st v h.2
      rw [hc]
      simp only [Bool.not_false]
      by_cases h1 : b = { state := st.set v true, slots := sl } <;>
      by_cases h2 : b = { state := st, slots := sl } <;> simp [h1, h2] <;> ring_nf
    · have hc : st.set v true = st := by rw [← hx]; exact set_getD_self st v h.2
      rw [hc]
      simp only [Bool.not_true]
      by_cases h1 : b = { state := st.set v false, slots := sl } <;>
      by_cases h2 : b = { state := st, slots := sl } <;> simp [h1, h2] <;> ring_nf

end Qmc.Kernel
