/-
C01 capstone, Ising side: the bond matrices of the whole-step model's Hamiltonian `IsingSpec.ham`
(QmcModel/IsingHam.lean; the Hamiltonian of `Sampler.isingTimestep`, of C06/C07 and of
`Kernel.ising_timestep_invariant_cut`) sum to `C·1 − H_Ising`.

QmcProps/C01.lean proves `Σ_b M_b = C·1 − H` for `Qmc.isingHam m` (QmcModel/Ham.lean, `m : IsingModel`).  Here:
  * `toModel s : IsingModel` — the same graph, couplings and fields as `s : IsingSpec`;
  * `opEntry_eq` / `totalEntry_eq` — bond by bond the two Hamiltonians have the same matrix `⟨σ'|M_b|σ⟩`, and the same
    number of bonds when `FieldOK s`: `h = 0` or `|h| > 2^-52` (for `0 < |h| ≤ 2^-52` the code — and `isingHam` — creates
    no longitudinal bonds, while `IsingSpec.ham` decides by `h = 0`; `IsingSpec.ham` is the code's Hamiltonian exactly in
    the regime `FieldOK`);
  * `isingMatrix s` — the matrix of `H = Σ_edges J σz_a σz_b − Γ Σ_i σx_i − h Σ_i σz_i` in the σz basis (states of
    `N` booleans, `true` = +1): diagonal `isingEnergy s σ`, off-diagonal `−Γ` for every site at which the two
    states differ when they differ in exactly that site;
  * `bondMatrix_sum_eq` — `Σ_b bondMatrix s.ham N b = isingOffset s • 1 − isingMatrix s`,
    `isingOffset = Σ|J| + N(Γ + |h|)` (`total_energy_offset`).
-/
import QmcProofs.ConfigMarginal
import QmcProofs.WorldlineIsing

open BigOperators Finset

namespace Qmc.Marginal
open Qmc Qmc.IsingSSE Qmc.PathSum Qmc.Kernel Qmc.SSE Qmc.SSEConfig

/-- the `IsingModel` (QmcModel/Ham.lean) with the graph, couplings and fields of `s` -/
def toModel (s : IsingSpec) : IsingModel :=
  { edges := s.edges.map fun e => ([e.1, e.2.1], e.2.2), transverse := s.gamma, longitudinal := s.h,
    nvars := s.nvars }

/-- `h = 0` or `|h| > f64::EPSILON`: the regime in which the sampler creates longitudinal bonds iff `h ≠ 0` -/
def FieldOK (s : IsingSpec) : Prop := s.h = 0 ∨ (toModel s).hasField = true

theorem ratAbs_eq_absR' : ratAbs = absR := rfl

theorem toModel_edges_length (s : IsingSpec) : (toModel s).edges.length = s.nedges := by
  simp [toModel, IsingSpec.nedges]

theorem hasField_of_zero (s : IsingSpec) (h0 : s.h = 0) : (toModel s).hasField = false := by
  simp only [IsingModel.hasField, toModel, h0, absR, decide_eq_false_iff_not, not_lt]
  norm_num [eps]

theorem nbonds_eq (s : IsingSpec) (hf : FieldOK s) : s.ham.nbonds = (isingHam (toModel s)).nbonds := by
  show s.nedges + s.nvars + (if s.h = 0 then 0 else s.nvars)
    = (toModel s).edges.length + (toModel s).nvars + (if (toModel s).hasField then (toModel s).nvars else 0)
  rw [toModel_edges_length]
  by_cases h0 : s.h = 0
  · rw [if_pos h0, hasField_of_zero s h0]; rfl
  · rcases hf with h | h
    · exact absurd h h0
    · rw [if_neg h0, h]; rfl

theorem vars_eq (s : IsingSpec) (b : Nat) (hb : b < (isingHam (toModel s)).nbonds) :
    s.ham.vars b = (isingHam (toModel s)).vars b := by
  have hb' : b < (toModel s).numBonds := hb
  simp only [IsingSpec.ham, isingHam, hb', if_true, IsingModel.bondVars, toModel_edges_length]
  by_cases h1 : b < s.nedges
  · have h1' : b < s.edges.length := h1
    simp [h1, IsingSpec.edgeVars, toModel, List.getElem?_eq_getElem h1']
  · by_cases h2 : b < s.nedges + s.nvars
    · simp [h1, h2, toModel]
    · simp only [h1, h2, if_false, toModel]
      congr 1; omega

theorem w_eq (s : IsingSpec) (b : Nat) (hb : b < (isingHam (toModel s)).nbonds) (i o : List Bool)
    (hi : i.length = (s.ham.vars b).length) (ho : o.length = (s.ham.vars b).length) :
    s.ham.w b i o = (isingHam (toModel s)).w b i o := by
  have hb' : b < (toModel s).numBonds := hb
  by_cases h1 : b < s.nedges
  · have h1' : b < s.edges.length := h1
    rw [IsingSpec.w_edge s b i o h1]
    simp only [isingHam, hb', if_true, IsingModel.hamiltonian, toModel_edges_length, h1]
    rcases i with _ | ⟨a, _ | ⟨a', _ | ⟨a'', i⟩⟩⟩ <;> rcases o with _ | ⟨c, _ | ⟨c', _ | ⟨c'', o⟩⟩⟩ <;>
      simp only [twoSite, twoSiteHamiltonian]
    simp [IsingSpec.J, toModel, List.getElem?_eq_getElem h1', ratAbs_eq_absR']
  · by_cases h2 : b < s.nedges + s.nvars
    · rw [IsingSpec.w_transverse s b i o (by omega) h2]
      have hv : s.ham.vars b = [b - s.nedges] := by simp [IsingSpec.ham, h1, h2]
      rw [hv] at hi ho
      simp only [isingHam, hb', if_true, IsingModel.hamiltonian, toModel_edges_length, h1, if_false]
      have h2' : b < s.nedges + (toModel s).nvars := h2
      rw [if_pos h2']
      rcases i with _ | ⟨a, _ | ⟨a', i⟩⟩ <;> simp at hi
      rcases o with _ | ⟨c, _ | ⟨c', o⟩⟩ <;> simp at ho
      simp [transverseHamiltonian, toModel]
    · rw [IsingSpec.w_longitudinal s b i o (by omega)]
      have hnb : (toModel s).numBonds ≤ s.nedges + 2 * s.nvars := by
        unfold IsingModel.numBonds; rw [toModel_edges_length]
        show s.nedges + s.nvars + (if (toModel s).hasField then s.nvars else 0) ≤ _
        split <;> omega
      have h2' : ¬ b < s.nedges + (toModel s).nvars := h2
      have h3 : b < s.nedges + 2 * (toModel s).nvars := by
        show b < s.nedges + 2 * s.nvars; omega
      simp only [isingHam, hb', if_true, IsingModel.hamiltonian, toModel_edges_length, h1, if_false, h2',
        h3]
      rcases i with _ | ⟨a, _ | ⟨a', i⟩⟩ <;> rcases o with _ | ⟨c, _ | ⟨c', o⟩⟩ <;>
        simp only [longitudinal, longitudinalHamiltonian]
      cases a <;> cases c <;> simp [toModel, ratAbs_eq_absR']

theorem opEntry_eq (s : IsingSpec) (b : Nat) (hb : b < (isingHam (toModel s)).nbonds) (σ σ' : List Bool) :
    opEntry s.ham b σ σ' = opEntry (isingHam (toModel s)) b σ σ' := by
  unfold opEntry
  rw [← vars_eq s b hb, w_eq s b hb _ _ (readVars_length _ _) (readVars_length _ _)]

/-- **the two Ising Hamiltonians have the same total matrix `Σ_b M_b`** (in the regime `FieldOK`) -/
theorem totalEntry_eq (s : IsingSpec) (hf : FieldOK s) (σ σ' : List Bool) :
    totalEntry s.ham σ σ' = totalEntry (isingHam (toModel s)) σ σ' := by
  unfold totalEntry
  rw [nbonds_eq s hf]
  exact sum_map_congr _ _ _ (fun b hb => opEntry_eq s b (List.mem_range.mp hb) σ σ')

/-! ### `Σ_b bondMatrix` as `totalEntry` -/

theorem bondMatrix_sum_apply (H : Ham) (N : Nat) (σ σ' : St N) :
    (∑ b : Fin H.nbonds, bondMatrix H N b.val) σ σ' = totalEntry H σ.1 σ'.1 := by
  rw [Matrix.sum_apply]
  unfold totalEntry bondMatrix
  rw [list_range_sum, ← Fin.sum_univ_eq_sum_range (fun b => opEntry H b σ.1 σ'.1)]

/-! ### the Ising Hamiltonian as a matrix -/

/-- `Σ_edges J σ_a σ_b − h Σ_i σ_i` (`σ = ±1`, `true = +1`): the diagonal of `H` in the σz basis -/
def isingEnergy (s : IsingSpec) (σ : List Bool) : ℚ :=
  (s.edges.map fun e => e.2.2 * spinAt σ e.1 * spinAt σ e.2.1).sum
    - s.h * ((List.range s.nvars).map (spinAt σ)).sum

/-- `total_energy_offset = Σ|J| + N(Γ + |h|)` -/
def isingOffset (s : IsingSpec) : ℚ :=
  (s.edges.map fun e => ratAbs e.2.2).sum + (s.nvars : ℚ) * (s.gamma + ratAbs s.h)

/-- number of sites `i < N` such that `σ'` is `σ` with spin `i` flipped (0 or 1 for `σ ≠ σ'`) -/
def flipSites (N : Nat) (σ σ' : List Bool) : Nat :=
  ((List.range N).filter fun i => agreeOff [i] σ σ').length

/-- **the transverse-field Ising Hamiltonian** `H = Σ J σzσz − Γ Σ σx − h Σ σz` in the σz basis -/
def isingMatrix (s : IsingSpec) : Matrix (St s.nvars) (St s.nvars) ℚ :=
  fun σ σ' => if σ = σ' then isingEnergy s σ.1 else -(s.gamma * (flipSites s.nvars σ.1 σ'.1 : ℚ))

theorem isingEnergy_eq (s : IsingSpec) (σ : List Bool) : isingEnergy s σ = Ecl (toModel s) σ := by
  simp [isingEnergy, Ecl, toModel, List.map_map, Function.comp_def]

theorem isingOffset_eq (s : IsingSpec) : isingOffset s = (toModel s).offset := by
  simp [isingOffset, IsingModel.offset, toModel, List.map_map, Function.comp_def, ratAbs_eq_absR']

theorem toModel_edgesWF (s : IsingSpec) : EdgesWF (toModel s) := by
  intro e he
  simp only [toModel, List.mem_map] at he
  obtain ⟨e', -, rfl⟩ := he
  exact ⟨_, _, rfl⟩

/-- **`Σ_b M_b = C·1 − H`** for the Hamiltonian of the whole-step model -/
theorem bondMatrix_sum_eq (s : IsingSpec) (hf : FieldOK s) :
    (∑ b : Fin s.ham.nbonds, bondMatrix s.ham s.nvars b.val)
      = isingOffset s • (1 : Matrix (St s.nvars) (St s.nvars) ℚ) - isingMatrix s := by
  ext σ σ'
  rw [bondMatrix_sum_apply, totalEntry_eq s hf, Matrix.sub_apply, Matrix.smul_apply, Matrix.one_apply]
  have hh : (toModel s).longitudinal = 0 ∨ (toModel s).hasField = true := hf
  by_cases e : σ = σ'
  · subst e
    rw [total_diag (toModel s) σ.1 (toModel_edgesWF s) hh, isingOffset_eq]
    simp [isingMatrix, isingEnergy_eq]
  · have hne : σ.1 ≠ σ'.1 := fun h => e (Subtype.ext h)
    rw [total_offdiag (toModel s) σ.1 σ'.1 (toModel_edgesWF s) hne]
    simp [isingMatrix, e, flipSites, toModel]

end Qmc.Marginal
