import QmcModel.Rvb
import QmcProofs.Rvb
import Mathlib.Tactic.Ring
import Mathlib.Tactic.Linarith
import Mathlib.Tactic.NormNum
import Mathlib.Tactic.FieldSimp
import Mathlib.Tactic.Positivity
import Mathlib.Algebra.Order.Field.Rat

/-! Detailed balance of the RVB update on the segment abstraction. -/

namespace Qmc
namespace Rvb

/-! ### products -/

@[simp] theorem prodR_nil : prodR [] = 1 := rfl
@[simp] theorem prodR_cons (a : Rat) (l : List Rat) : prodR (a :: l) = a * prodR l := rfl

theorem prodR_nonneg {l : List Rat} (h : ∀ x ∈ l, 0 ≤ x) : 0 ≤ prodR l := by
  induction l with
  | nil => simp
  | cons a t ih =>
    rw [prodR_cons]
    exact mul_nonneg (h a (by simp)) (ih fun x hx => h x (by simp [hx]))

theorem prodR_map_div {α} (l : List α) (f g : α → Rat) :
    prodR (l.map fun x => f x / g x) = prodR (l.map f) / prodR (l.map g) := by
  induction l with
  | nil => simp
  | cons a t ih => simp only [List.map_cons, prodR_cons, ih]; rw [mul_div_mul_comm]

theorem prodR_map_div_const {α} (l : List α) (f : α → Rat) (w : Rat) :
    prodR (l.map fun x => f x / w) = prodR (l.map f) / w ^ l.length := by
  induction l with
  | nil => simp
  | cons a t ih =>
    simp only [List.map_cons, prodR_cons, ih, List.length_cons, pow_succ]
    rw [div_mul_div_comm, mul_comm w]

theorem sum_eq_zero_all {l : List Rat} (hnn : ∀ x ∈ l, 0 ≤ x) (h : l.sum = 0) : ∀ x ∈ l, x = 0 := by
  induction l with
  | nil => intro x hx; simp at hx
  | cons a t ih =>
    have ha := hnn a (by simp)
    have ht : 0 ≤ t.sum := List.sum_nonneg (fun x hx => hnn x (by simp [hx]))
    simp only [List.sum_cons] at h
    intro x hx
    rcases List.mem_cons.1 hx with e | e
    · subst e; linarith
    · exact ih (fun x hx => hnn x (by simp [hx])) (by linarith) x e

/-! ### the scalar identity behind detailed balance -/

theorem minR_one_mul_inv {x : Rat} (hx : 0 < x) : minR 1 x = x * minR 1 (1 / x) := by
  unfold minR
  by_cases h : (1 : Rat) ≤ x
  · rw [if_pos h]
    by_cases h' : (1 : Rat) ≤ 1 / x
    · rw [if_pos h']
      have : x ≤ 1 := by rwa [le_div_iff₀ hx, one_mul] at h'
      linarith
    · rw [if_neg h']; field_simp
  · rw [if_neg h]
    have : (1 : Rat) ≤ 1 / x := by rw [le_div_iff₀ hx]; linarith
    rw [if_pos this]; ring

/-- `π(c)·A·(a/𝒜) = π(c')·A'·(b/ℬ)` with `A = min 1 ((𝒜/ℬ)(I'/I))`, `A' = min 1 ((ℬ/𝒜)(I/I'))`,
for all non-negative values, provided `𝒜 = 0 → a = 0` and `ℬ = 0 → b = 0`. -/
theorem balance_scalar (I I' a b A B : Rat) (hI : 0 ≤ I) (hI' : 0 ≤ I') (hA : 0 ≤ A) (hB : 0 ≤ B)
    (haA : A = 0 → a = 0) (hbB : B = 0 → b = 0) :
    (I * b) * (minR 1 ((A / B) * (I' / I)) * (a / A)) = (I' * a) * (minR 1 ((B / A) * (I / I')) * (b / B)) := by
  by_cases hA0 : A = 0
  · rw [haA hA0, hA0]; simp
  by_cases hB0 : B = 0
  · rw [hbB hB0, hB0]; simp
  by_cases hI0 : I = 0
  · subst hI0; simp [minR]
  by_cases hI'0 : I' = 0
  · subst hI'0; simp [minR]
  have hAp : 0 < A := lt_of_le_of_ne hA (Ne.symm hA0)
  have hBp : 0 < B := lt_of_le_of_ne hB (Ne.symm hB0)
  have hIp : 0 < I := lt_of_le_of_ne hI (Ne.symm hI0)
  have hI'p : 0 < I' := lt_of_le_of_ne hI' (Ne.symm hI'0)
  have hx : 0 < (A / B) * (I' / I) := by positivity
  have hinv : (B / A) * (I / I') = 1 / ((A / B) * (I' / I)) := by field_simp
  rw [hinv, minR_one_mul_inv hx]
  field_simp

/-! ### per-segment bookkeeping -/

/-- `Π_s W_after(s)^{k_s}` and `Π_s W_before(s)^{k_s}` -/
def powAft (segs : List Seg) (ks : List Nat) : Rat := prodR ((segs.zip ks).map fun sk => sk.1.wAft ^ sk.2)
def powBef (segs : List Seg) (ks : List Nat) : Rat := prodR ((segs.zip ks).map fun sk => sk.1.wBef ^ sk.2)
/-- product of the before / after weights of the bonds an assignment uses -/
def useBef (segs : List Seg) (c : Assign) : Rat :=
  prodR ((segs.zip c).map fun sj => prodR (sj.2.map fun j => (sj.1.bonds.getD j (0, 0)).1))
def useAft (segs : List Seg) (c : Assign) : Rat :=
  prodR ((segs.zip c).map fun sj => prodR (sj.2.map fun j => (sj.1.bonds.getD j (0, 0)).2))

def SegNonneg (s : Seg) : Prop := ∀ p ∈ s.bonds, 0 ≤ p.1 ∧ 0 ≤ p.2

theorem wBef_nonneg {s : Seg} (h : SegNonneg s) : 0 ≤ s.wBef := by
  unfold Seg.wBef
  apply List.sum_nonneg
  intro x hx
  obtain ⟨p, hp, rfl⟩ := List.mem_map.1 hx
  exact (h p hp).1

theorem wAft_nonneg {s : Seg} (h : SegNonneg s) : 0 ≤ s.wAft := by
  unfold Seg.wAft
  apply List.sum_nonneg
  intro x hx
  obtain ⟨p, hp, rfl⟩ := List.mem_map.1 hx
  exact (h p hp).2

theorem getD_aft_zero {s : Seg} (h : SegNonneg s) (h0 : s.wAft = 0) (j : Nat) : (s.bonds.getD j (0, 0)).2 = 0 := by
  rw [List.getD_eq_getElem?_getD]
  cases hj : s.bonds[j]? with
  | none => rfl
  | some p =>
    have hm := List.mem_of_getElem? hj
    have := sum_eq_zero_all (l := s.bonds.map (·.2))
      (by intro x hx; obtain ⟨q, hq, rfl⟩ := List.mem_map.1 hx; exact (h q hq).2) (show (s.bonds.map (·.2)).sum = 0 from h0)
    exact this _ (List.mem_map.2 ⟨p, hm, rfl⟩)

theorem getD_bef_zero {s : Seg} (h : SegNonneg s) (h0 : s.wBef = 0) (j : Nat) : (s.bonds.getD j (0, 0)).1 = 0 := by
  rw [List.getD_eq_getElem?_getD]
  cases hj : s.bonds[j]? with
  | none => rfl
  | some p =>
    have hm := List.mem_of_getElem? hj
    have := sum_eq_zero_all (l := s.bonds.map (·.1))
      (by intro x hx; obtain ⟨q, hq, rfl⟩ := List.mem_map.1 hx; exact (h q hq).1) (show (s.bonds.map (·.1)).sum = 0 from h0)
    exact this _ (List.mem_map.2 ⟨p, hm, rfl⟩)

theorem powAft_nonneg (segs : List Seg) (ks : List Nat) (h : ∀ s ∈ segs, SegNonneg s) : 0 ≤ powAft segs ks := by
  unfold powAft
  apply prodR_nonneg
  intro x hx
  obtain ⟨sk, hsk, rfl⟩ := List.mem_map.1 hx
  exact pow_nonneg (wAft_nonneg (h _ (List.of_mem_zip hsk).1)) _

theorem powBef_nonneg (segs : List Seg) (ks : List Nat) (h : ∀ s ∈ segs, SegNonneg s) : 0 ≤ powBef segs ks := by
  unfold powBef
  apply prodR_nonneg
  intro x hx
  obtain ⟨sk, hsk, rfl⟩ := List.mem_map.1 hx
  exact pow_nonneg (wBef_nonneg (h _ (List.of_mem_zip hsk).1)) _

/-- if some `W_after(s)^{k_s}` vanishes, every assignment of that shape uses a zero after-weight -/
theorem useAft_zero_of_powAft_zero (segs : List Seg) (c : Assign) (h : ∀ s ∈ segs, SegNonneg s)
    (h0 : powAft segs (c.map List.length) = 0) : useAft segs c = 0 := by
  induction segs generalizing c with
  | nil => simp [powAft] at h0
  | cons s t ih =>
    cases c with
    | nil => simp [powAft] at h0
    | cons js ct =>
      simp only [powAft, useAft, List.map_cons, List.zip_cons_cons, prodR_cons] at h0 ⊢
      rcases mul_eq_zero.1 h0 with h1 | h1
      · have hk : js.length ≠ 0 := by
          intro e; rw [e] at h1; simp at h1
        have hw : s.wAft = 0 := by
          by_contra hne; exact (pow_ne_zero _ hne) h1
        cases js with
        | nil => simp at hk
        | cons j jt =>
          simp only [List.map_cons, prodR_cons]
          rw [getD_aft_zero (h s (by simp)) hw j]; simp
      · have := ih ct (fun s hs => h s (by simp [hs])) h1
        simp only [useAft] at this
        rw [this]; simp

theorem useBef_zero_of_powBef_zero (segs : List Seg) (c : Assign) (h : ∀ s ∈ segs, SegNonneg s)
    (h0 : powBef segs (c.map List.length) = 0) : useBef segs c = 0 := by
  induction segs generalizing c with
  | nil => simp [powBef] at h0
  | cons s t ih =>
    cases c with
    | nil => simp [powBef] at h0
    | cons js ct =>
      simp only [powBef, useBef, List.map_cons, List.zip_cons_cons, prodR_cons] at h0 ⊢
      rcases mul_eq_zero.1 h0 with h1 | h1
      · have hk : js.length ≠ 0 := by
          intro e; rw [e] at h1; simp at h1
        have hw : s.wBef = 0 := by
          by_contra hne; exact (pow_ne_zero _ hne) h1
        cases js with
        | nil => simp at hk
        | cons j jt =>
          simp only [List.map_cons, prodR_cons]
          rw [getD_bef_zero (h s (by simp)) hw j]; simp
      · have := ih ct (fun s hs => h s (by simp [hs])) h1
        simp only [useBef] at this
        rw [this]; simp

/-- the redraw probability is `useAft / powAft` -/
theorem redrawProb_eq (segs : List Seg) (inner : List (Rat × Rat)) (c' : Assign) :
    redrawProb { segs := segs, inner := inner } c' = useAft segs c' / powAft segs (c'.map List.length) := by
  unfold redrawProb useAft powAft
  simp only
  induction segs generalizing c' with
  | nil => simp
  | cons s t ih =>
    cases c' with
    | nil => simp
    | cons js ct =>
      simp only [List.zip_cons_cons, List.map_cons, prodR_cons, ih ct]
      rw [prodR_map_div_const, mul_div_mul_comm]

/-- the segment part of the multiplier is `powAft / powBef` when the shortcuts are exact -/
theorem segMult_eq (segs : List Seg) (ks : List Nat) (eps : Rat)
    (hclose : ∀ s ∈ segs, absR (s.wBef - s.wAft) < eps → s.wBef = s.wAft)
    (hdiv : ∀ sk ∈ segs.zip ks, sk.2 ≠ 0 → sk.1.wBef ≠ 0 ∨ sk.1.wAft ≠ 0) :
    prodR ((segs.zip ks).map fun sk => calculateMult sk.1.wBef sk.1.wAft sk.2 eps) =
      powAft segs ks / powBef segs ks := by
  unfold powAft powBef
  induction segs generalizing ks with
  | nil => simp
  | cons s t ih =>
    cases ks with
    | nil => simp
    | cons k kt =>
      simp only [List.zip_cons_cons, List.map_cons, prodR_cons]
      rw [ih kt (fun s hs => hclose s (by simp [hs])) (fun sk hsk => hdiv sk (by simp [hsk]))]
      have hcm : calculateMult s.wBef s.wAft k eps = (s.wAft / s.wBef) ^ k := by
        unfold calculateMult
        split
        · rename_i h
          rcases h with h | h
          · subst h; simp
          · have he := hclose s (by simp) h
            by_cases hk : k = 0
            · subst hk; simp
            · have := hdiv (s, k) (by simp) hk
              have hne : s.wBef ≠ 0 := by
                rcases this with h1 | h1
                · exact h1
                · rw [he]; exact h1
              rw [← he, div_self hne]; simp
        · rfl
      rw [hcm, div_pow, mul_div_mul_comm]

theorem flip_wBef (s : Seg) : s.flip.wBef = s.wAft := by
  unfold Seg.flip Seg.wBef Seg.wAft; simp [List.map_map, Function.comp_def]

theorem flip_wAft (s : Seg) : s.flip.wAft = s.wBef := by
  unfold Seg.flip Seg.wBef Seg.wAft; simp [List.map_map, Function.comp_def]

theorem flip_getD_fst (s : Seg) (j : Nat) : (s.flip.bonds.getD j (0, 0)).1 = (s.bonds.getD j (0, 0)).2 := by
  unfold Seg.flip
  simp only [List.getD_eq_getElem?_getD, List.getElem?_map]
  cases s.bonds[j]? <;> rfl

theorem flip_getD_snd (s : Seg) (j : Nat) : (s.flip.bonds.getD j (0, 0)).2 = (s.bonds.getD j (0, 0)).1 := by
  unfold Seg.flip
  simp only [List.getD_eq_getElem?_getD, List.getElem?_map]
  cases s.bonds[j]? <;> rfl

theorem powAft_flip (segs : List Seg) (ks : List Nat) : powAft (segs.map Seg.flip) ks = powBef segs ks := by
  unfold powAft powBef
  induction segs generalizing ks with
  | nil => simp
  | cons s t ih =>
    cases ks with
    | nil => simp
    | cons k kt => simp only [List.map_cons, List.zip_cons_cons, prodR_cons, ih kt, flip_wAft]

theorem powBef_flip (segs : List Seg) (ks : List Nat) : powBef (segs.map Seg.flip) ks = powAft segs ks := by
  unfold powAft powBef
  induction segs generalizing ks with
  | nil => simp
  | cons s t ih =>
    cases ks with
    | nil => simp
    | cons k kt => simp only [List.map_cons, List.zip_cons_cons, prodR_cons, ih kt, flip_wBef]

theorem useBef_flip (segs : List Seg) (c : Assign) : useBef (segs.map Seg.flip) c = useAft segs c := by
  unfold useBef useAft
  induction segs generalizing c with
  | nil => simp
  | cons s t ih =>
    cases c with
    | nil => simp
    | cons js ct =>
      simp only [List.map_cons, List.zip_cons_cons, prodR_cons, ih ct]
      congr 2
      apply List.map_congr_left
      intro j _; exact flip_getD_fst s j

theorem useAft_flip (segs : List Seg) (c : Assign) : useAft (segs.map Seg.flip) c = useBef segs c := by
  unfold useBef useAft
  induction segs generalizing c with
  | nil => simp
  | cons s t ih =>
    cases c with
    | nil => simp
    | cons js ct =>
      simp only [List.map_cons, List.zip_cons_cons, prodR_cons, ih ct]
      congr 2
      apply List.map_congr_left
      intro j _; exact flip_getD_snd s j

theorem flip_nonneg {s : Seg} (h : SegNonneg s) : SegNonneg s.flip := by
  intro p hp
  unfold Seg.flip at hp
  obtain ⟨q, hq, rfl⟩ := List.mem_map.1 hp
  exact ⟨(h q hq).2, (h q hq).1⟩

/-- hypotheses under which the balance identity is stated -/
structure Admissible (P : Problem) (ks : List Nat) (eps : Rat) : Prop where
  segNonneg : ∀ s ∈ P.segs, SegNonneg s
  innerNonneg : ∀ p ∈ P.inner, 0 ≤ p.1 ∧ 0 ≤ p.2
  /-- the "totals closer than eps" shortcut of `calculate_mult` is exact -/
  closeExact : ∀ s ∈ P.segs, absR (s.wBef - s.wAft) < eps → s.wBef = s.wAft
  /-- a segment that contains rotatable operators has a positive total before the flip (the
  operators sit on bonds of positive weight) -/
  occupied : ∀ sk ∈ P.segs.zip ks, sk.2 ≠ 0 → sk.1.wBef ≠ 0

theorem absR_sub_comm (a b : Rat) : absR (a - b) = absR (b - a) := by
  unfold absR; split <;> split <;> linarith

/-- **detailed balance on the segment abstraction** -/
theorem detailed_balance (P : Problem) (c c' : Assign) (eps : Rat)
    (hshape : c.map List.length = c'.map List.length)
    (hadm : Admissible P (c.map List.length) eps) :
    weight P c * transProb P c c' eps = weight P.flip c' * transProb P.flip c' c eps := by
  obtain ⟨segs, inner⟩ := P
  have hsn := hadm.segNonneg
  have hin := hadm.innerNonneg
  simp only at hsn hin
  set ks := c.map List.length with hks
  -- name the six scalars
  have hI : 0 ≤ prodR (inner.map (·.1)) := prodR_nonneg (by
    intro x hx; obtain ⟨p, hp, rfl⟩ := List.mem_map.1 hx; exact (hin p hp).1)
  have hI' : 0 ≤ prodR (inner.map (·.2)) := prodR_nonneg (by
    intro x hx; obtain ⟨p, hp, rfl⟩ := List.mem_map.1 hx; exact (hin p hp).2)
  have hA := powAft_nonneg segs ks hsn
  have hB := powBef_nonneg segs ks hsn
  have hfwd : rawMult { segs := segs, inner := inner } ks eps =
      (powAft segs ks / powBef segs ks) * (prodR (inner.map (·.2)) / prodR (inner.map (·.1))) := by
    unfold rawMult
    simp only
    rw [segMult_eq segs ks eps hadm.closeExact (fun sk hsk hk => Or.inl (hadm.occupied sk hsk hk)),
      prodR_map_div]
  have hbwd : rawMult (Problem.flip { segs := segs, inner := inner }) ks eps =
      (powBef segs ks / powAft segs ks) * (prodR (inner.map (·.1)) / prodR (inner.map (·.2))) := by
    unfold rawMult Problem.flip
    simp only
    rw [segMult_eq (segs.map Seg.flip) ks eps, powAft_flip, powBef_flip, prodR_map_div]
    · simp [List.map_map, Function.comp_def]
    · intro s hs
      obtain ⟨s0, hs0, rfl⟩ := List.mem_map.1 hs
      rw [flip_wBef, flip_wAft, absR_sub_comm]
      intro h; exact (hadm.closeExact s0 hs0 h).symm
    · intro sk hsk hk
      rw [List.zip_map_left] at hsk
      obtain ⟨sk0, hsk0, rfl⟩ := List.mem_map.1 hsk
      right
      simp only [Prod.map_fst, flip_wAft]
      exact hadm.occupied sk0 hsk0 (by simpa using hk)
  unfold transProb acceptProb
  rw [hfwd, ← hshape, hbwd]
  have hr1 := redrawProb_eq segs inner c'
  have hr2 := redrawProb_eq (segs.map Seg.flip) (inner.map fun p => (p.2, p.1)) c
  rw [← hshape] at hr1
  rw [← hks, powAft_flip, useAft_flip] at hr2
  have hw1 : weight { segs := segs, inner := inner } c = prodR (inner.map (·.1)) * useBef segs c := rfl
  have hw2 : weight (Problem.flip { segs := segs, inner := inner }) c' =
      prodR (inner.map (·.2)) * useAft segs c' := by
    unfold weight Problem.flip
    simp only
    have := useBef_flip segs c'
    unfold useBef at this
    rw [this]
    simp [List.map_map, Function.comp_def]
  have hflip : Problem.flip { segs := segs, inner := inner } =
      { segs := segs.map Seg.flip, inner := inner.map fun p => (p.2, p.1) } := rfl
  rw [hw1, hw2, hr1, hflip, hr2]
  exact balance_scalar _ _ _ _ _ _ hI hI' hA hB
    (fun h => useAft_zero_of_powAft_zero segs c' hsn (by rw [← hshape]; exact h))
    (fun h => useBef_zero_of_powBef_zero segs c hsn h)

end Rvb
end Qmc
