/-
Umbrella of the agreement proofs "hand model == definitions translated from the Rust source"
(`QmcModel/Generated/PureFns.lean`, tools/translate_pure.py).  The theorems live in ONE MODULE PER GROUP under
`QmcProofs/PureFnsAgree/` (namespaces `Qmc.PureFnsAgree` and, for the theorems about QmcModel/Cluster.lean,
`Qmc.PureFnsAgreeCluster` — names unchanged):

  Prelude IsingHam Tempering Rvb Cluster ClusterIsing RefreshIsing RefreshGeneric Cutoff EnergyIsing EnergyGeneric
  Diag HeatBath HeatBathIsing Convert Size Classical Stepper BondContainer Autocorr Loop

so that a translated function that stops agreeing takes down only its own group; `checks/pure_fns.py` builds and audits,
per check, only the groups relevant to that check's property (design_notes/Translator.md).  This umbrella is listed in some
checks' LEAN_TARGETS; it therefore imports ONLY the `Prelude` group (fixed text of the translation, never affected by a
source edit) and must not import the others: it would go red, and every check with it, whenever any group does.
`lake build QmcAll` imports every group.
-/
import QmcProofs.PureFnsAgree.Prelude
