/-
Agreement of the hand-written model with the definitions TRANSLATED FROM THE RUST SOURCE
(`QmcModel/Generated/PureFns.lean`, written by `tools/translate_pure.py` on every run of a check).

Every theorem says: a hand-written model definition EQUALS (for all arguments) the term the translator produced
from the current text of the corresponding Rust function / expression.  The file is re-checked by
`checks/pure_fns.py` after the generated file has been refreshed, so an edit of one of the translated Rust
functions changes `Qmc.Gen.*` and breaks the theorem that names it (or the translator fails closed).  No testing is
involved.  See design_notes/Translator.md.

Naming: `<generated name>_agree…`.  Hand models with several copies of the same Rust function (each property's
model has its own) get one theorem per copy.  The copy of `longitudinal_hamiltonian` in Tempering.lean does NOT agree
with the current source off the diagonal (it still carries the value `|h|` of the code before the fix 9464564): only
the diagonal agreement is proved; reported in design_notes/Translator.md; no sampler path evaluates those entries.
-/
import QmcModel.Generated.PureFns
import QmcModel.Ham
import QmcModel.Cutoff
import QmcModel.Diagonal
import QmcModel.HeatBath
import QmcModel.Tempering
import QmcModel.Convert
import QmcModel.Generic
import QmcModel.Stepper
import QmcModel.Rvb
import QmcModel.IsingHam
import Mathlib.Tactic.NormNum

namespace Qmc.PureFnsAgree

open Qmc

/-! ### the fixed prelude of the translation -/

theorem fabs_agree : Gen.fabs = absR := rfl
theorem fabs_agree_rvb : Gen.fabs = Rvb.absR := rfl
theorem fabs_agree_isingHam : Gen.fabs = ratAbs := rfl
theorem EPSILON_agree : Gen.EPSILON = eps := rfl
theorem EPSILON_agree_rvb : Gen.EPSILON = Rvb.f64eps := rfl
theorem powi_agree : Gen.powi = Tempering.powi := rfl

/-! ### `two_site_hamiltonian`, `transverse_hamiltonian`, `longitudinal_hamiltonian` (src/sse/qmc_ising.rs) -/

/-- Ham.lean `twoSiteHamiltonian` (C01, C15, C08 …) -/
theorem two_site_hamiltonian_agree (i0 i1 o0 o1 : Bool) (j : Rat) :
    twoSiteHamiltonian i0 i1 o0 o1 j = Gen.two_site_hamiltonian (i0, i1) (o0, o1) j := by
  cases i0 <;> cases i1 <;> cases o0 <;> cases o1 <;>
    simp [twoSiteHamiltonian, Gen.two_site_hamiltonian, fabs_agree]

/-- the same, for pairs -/
theorem two_site_hamiltonian_agree_pairs (ins outs : Bool × Bool) (j : Rat) :
    Gen.two_site_hamiltonian ins outs j = twoSiteHamiltonian ins.1 ins.2 outs.1 outs.2 j := by
  obtain ⟨a, b⟩ := ins
  obtain ⟨c, d⟩ := outs
  exact (two_site_hamiltonian_agree a b c d j).symm

theorem transverse_hamiltonian_agree : transverseHamiltonian = Gen.transverse_hamiltonian := rfl

/-- Ham.lean `longitudinalHamiltonian` -/
theorem longitudinal_hamiltonian_agree : longitudinalHamiltonian = Gen.longitudinal_hamiltonian := by
  funext i o h
  cases i <;> cases o <;> rfl

/-- Tempering.lean `twoSite` -/
theorem two_site_hamiltonian_agree_tempering (i0 i1 o0 o1 : Bool) (j : Rat) :
    Tempering.twoSite i0 i1 o0 o1 j = Gen.two_site_hamiltonian (i0, i1) (o0, o1) j :=
  two_site_hamiltonian_agree i0 i1 o0 o1 j

/-- Rvb.lean `twoSite` (diagonal element only: `ins = outs = (a, b)`) -/
theorem two_site_hamiltonian_agree_rvb (a b : Bool) (j : Rat) :
    Rvb.twoSite j a b = Gen.two_site_hamiltonian (a, b) (a, b) j := by
  cases a <;> cases b <;> simp [Rvb.twoSite, Gen.two_site_hamiltonian, fabs_agree_rvb]

/-- Rvb.lean `longitudinal` -/
theorem longitudinal_hamiltonian_agree_rvb (h : Rat) (i o : Bool) :
    Rvb.longitudinal h i o = Gen.longitudinal_hamiltonian i o h := by
  cases i <;> cases o <;> simp [Rvb.longitudinal, Gen.longitudinal_hamiltonian, fabs_agree_rvb, Rat.sub_eq_add_neg]

/-- IsingHam.lean `twoSite` (value lists of length 2) -/
theorem two_site_hamiltonian_agree_isingHam (a b c d : Bool) (j : Rat) :
    Qmc.twoSite [a, b] [c, d] j = Gen.two_site_hamiltonian (a, b) (c, d) j := by
  cases a <;> cases b <;> cases c <;> cases d <;>
    simp [Qmc.twoSite, Gen.two_site_hamiltonian, fabs_agree_isingHam]

/-- IsingHam.lean `longitudinal` (value lists of length 1) -/
theorem longitudinal_hamiltonian_agree_isingHam (i o : Bool) (h : Rat) :
    Qmc.longitudinal [i] [o] h = Gen.longitudinal_hamiltonian i o h := by
  cases i <;> cases o <;> rfl

/-- Tempering.lean `longitudinalW`: agrees with the source ON THE DIAGONAL (the only entries a sampler reads) -/
theorem longitudinal_hamiltonian_agree_tempering_diag (i : Bool) (h : Rat) :
    Tempering.longitudinalW i i h = Gen.longitudinal_hamiltonian i i h := by
  cases i <;> simp [Tempering.longitudinalW, Gen.longitudinal_hamiltonian, fabs_agree, Rat.sub_eq_add_neg]

/- Off the diagonal `Tempering.longitudinalW true false h = |h|` while the source (after 9464564) returns 0: that
copy of the model is stale there (reported in design_notes/Translator.md).  It is deliberately NOT stated as a
theorem here, so that a repair of Tempering.lean by its owner does not break this file. -/

/-! ### `is_valid_cluster_edge` (src/sse/qmc_traits/cluster.rs) -/

theorem is_valid_cluster_edge_agree : isValidClusterEdge = Gen.is_valid_cluster_edge := by
  funext c n
  cases c <;> simp [isValidClusterEdge, Gen.is_valid_cluster_edge, beq_eq_decide]

/-! ### the cutoff growth rule at its three sites -/

theorem cutoff_rule_single_diagonal_step_agree : nextCutoff = Gen.cutoff_rule_single_diagonal_step := rfl
theorem cutoff_rule_timestep_agree : nextCutoff = Gen.cutoff_rule_timestep := rfl
theorem cutoff_rule_diagonal_update_agree : nextCutoff = Gen.cutoff_rule_diagonal_update := rfl

/-! ### `get_energy_for_average_n` of both samplers -/

/-- Convert.lean `IsingSampler.energy` -/
theorem get_energy_for_average_n_ising_agree (g : IsingSampler) (avgN beta : Rat) :
    g.energy avgN beta = Gen.get_energy_for_average_n_ising g.model.offset avgN beta := rfl

/-- Convert.lean `GenericSampler.energy` -/
theorem get_energy_for_average_n_generic_agree (q : GenericSampler) (avgN beta : Rat) :
    q.energy avgN beta = Gen.get_energy_for_average_n_generic q.offset avgN beta := rfl

/-- Generic.lean `energyForAverageN` -/
theorem get_energy_for_average_n_generic_agree_gqmc (q : GQmc) (avgN beta : Rat) :
    energyForAverageN q avgN beta = Gen.get_energy_for_average_n_generic q.offset avgN beta := rfl

/-- Stepper.lean `energyForAvgN` (one definition for both samplers) -/
theorem get_energy_for_average_n_agree_stepper (β off avg : Rat) :
    energyForAvgN β off avg = Gen.get_energy_for_average_n_ising off avg β ∧
    energyForAvgN β off avg = Gen.get_energy_for_average_n_generic off avg β := ⟨rfl, rfl⟩

/-! ### `total_energy_offset`, `num_bonds`, the field guard -/

/-- Ham.lean `IsingModel.offset` = `edge_offset + field_offset` with the translated pieces -/
theorem total_energy_offset_agree (m : IsingModel) :
    m.offset = Gen.total_energy_offset ((m.edges.map (fun e => Gen.edge_offset_term e.2)).sum)
      (Gen.field_offset m.nvars m.transverse m.longitudinal) := rfl

/-- Ham.lean `IsingModel.hasField` -/
theorem field_guard_agree (m : IsingModel) : m.hasField = Gen.field_guard m.longitudinal := rfl

/-- the guard as it is spelled in Tempering.lean (`if absR h > eps then …`) -/
theorem field_guard_agree_tempering (h : Rat) : (absR h > eps) ↔ Gen.field_guard h = true := by
  simp [Gen.field_guard, fabs_agree, EPSILON_agree]

theorem num_bonds_single_diagonal_step_agree (m : IsingModel) :
    m.numBonds = Gen.num_bonds_single_diagonal_step m.edges.length m.nvars m.longitudinal := rfl
theorem num_bonds_single_rvb_sweep_agree (m : IsingModel) :
    m.numBonds = Gen.num_bonds_single_rvb_sweep m.edges.length m.nvars m.longitudinal := rfl
theorem num_bonds_set_enable_heatbath_agree (m : IsingModel) :
    m.numBonds = Gen.num_bonds_set_enable_heatbath m.edges.length m.nvars m.longitudinal := rfl
theorem num_bonds_timestep_agree (m : IsingModel) :
    m.numBonds = Gen.num_bonds_timestep m.edges.length m.nvars m.longitudinal := rfl

/-- Tempering.lean `IsingH.numBonds` -/
theorem num_bonds_agree_tempering (H : Tempering.IsingH) :
    H.numBonds = Gen.num_bonds_timestep H.nedges H.nvars H.h := by
  simp [Tempering.IsingH.numBonds, Gen.num_bonds_timestep, fabs_agree, EPSILON_agree]

/-- IsingHam.lean `IsingSpec.ham`: its bond count uses `h = 0` instead of the guard; equal whenever the field is
zero or visible to the guard (true of the dyadic inputs of the correspondence runs) -/
theorem num_bonds_agree_isingHam (s : IsingSpec) (hh : s.h = 0 ∨ absR s.h > eps) :
    s.ham.nbonds = Gen.num_bonds_timestep s.nedges s.nvars s.h := by
  have e : (0 : Rat) < eps := by norm_num [eps]
  rcases hh with h0 | hb
  · have : ¬ (eps < absR 0) := by
      simp only [absR]
      norm_num [eps]
    simp [IsingSpec.ham, Gen.num_bonds_timestep, fabs_agree, EPSILON_agree, h0, this]
  · have hne : s.h ≠ 0 := by
      intro h0
      rw [h0] at hb
      simp only [absR] at hb
      norm_num [eps] at hb
    simp [IsingSpec.ham, Gen.num_bonds_timestep, fabs_agree, EPSILON_agree, hne, hb]

/-! ### `metropolis_single_diagonal_update` (src/sse/qmc_traits/diagonal.rs) -/

/-- idealised insertion acceptance = clip of translated numerator / denominator -/
theorem diag_insert_prob_agree (β : Rat) (Nb : Nat) (w : Rat) (L n : Nat) :
    accInsM β Nb w L n = clipProb (Gen.diag_numerator β Nb w) (Gen.diag_denominator L n) := rfl

/-- idealised removal acceptance: the translated `denominator + 1.0` over the numerator -/
theorem diag_remove_prob_agree (β : Rat) (Nb : Nat) (w : Rat) (L n : Nat) :
    accRemM β Nb w L n =
      clipProb (Gen.diag_remove_denominator (Gen.diag_denominator L n)) (Gen.diag_numerator β Nb w) := rfl

/-- the decision of `genClipped` is the translated test `numerator > denominator || rng.gen_bool(numerator /
denominator)` with `gen_bool` read off the RNG state (whenever `genClipped` does not model a panic) -/
theorem diag_insert_accept_agree (rs : RS) (num den : Rat) (h : num > den ∨ den ≠ 0) :
    (genClipped rs num den).1 = Gen.diag_insert_accept (fun p => (rs.genBool p).1) num den := by
  unfold genClipped Gen.diag_insert_accept
  by_cases h1 : num > den
  · simp [h1]
  · have h2 : den ≠ 0 := by
      rcases h with h | h
      · exact absurd h h1
      · exact h
    simp [h1, h2]

/-- … and the draws it makes are exactly the translated short-circuit draw list -/
theorem diag_insert_accept_draws_agree (rs : RS) (num den : Rat) (h : num > den ∨ den ≠ 0) :
    (genClipped rs num den).2 =
      (Gen.diag_insert_accept_draws num den).foldl (fun r p => (r.genBool p).2) rs := by
  unfold genClipped Gen.diag_insert_accept_draws
  by_cases h1 : num > den
  · simp [h1]
  · have h2 : den ≠ 0 := by
      rcases h with h | h
      · exact absurd h h1
      · exact h
    simp [h1, h2]

/-- removal: `genClipped rs denominator numerator` is the translated `denominator > numerator ||
rng.gen_bool(denominator / numerator)` -/
theorem diag_remove_accept_agree (rs : RS) (num den : Rat) (h : den > num ∨ num ≠ 0) :
    (genClipped rs den num).1 = Gen.diag_remove_accept (fun p => (rs.genBool p).1) num den := by
  unfold genClipped Gen.diag_remove_accept
  by_cases h1 : den > num
  · simp [h1]
  · have h2 : num ≠ 0 := by
      rcases h with h | h
      · exact absurd h h1
      · exact h
    simp [h1, h2]

theorem diag_remove_accept_draws_agree (rs : RS) (num den : Rat) (h : den > num ∨ num ≠ 0) :
    (genClipped rs den num).2 =
      (Gen.diag_remove_accept_draws num den).foldl (fun r p => (r.genBool p).2) rs := by
  unfold genClipped Gen.diag_remove_accept_draws
  by_cases h1 : den > num
  · simp [h1]
  · have h2 : num ≠ 0 := by
      rcases h with h | h
      · exact absurd h h1
      · exact h
    simp [h1, h2]

/-- the model's slot visit, empty slot: it uses exactly the translated numerator and denominator -/
theorem metropolisSlot_none_agree (H : Ham) (β : Rat) (cutoff : Nat) (st : List Bool) (n : Nat) (rs : RS) :
    metropolisSlot H β cutoff none st n rs =
      (let (b, rs1) := rs.genRange H.nbonds
       let vars := H.vars b
       if cutoff < n ∨ varsInRange st vars = false then SlotRes.panic none st n rs1 else
       let sub := readVars st vars
       let (ins, rs2) := genClipped rs1 (Gen.diag_numerator β H.nbonds (H.w b sub sub)) (Gen.diag_denominator cutoff n)
       if ins then ⟨some (Op.diagonal vars b sub (H.const b)), st, n + 1, rs2⟩ else ⟨none, st, n, rs2⟩) := rfl

/-- the model's slot visit, diagonal operator: translated numerator and `denominator + 1.0`, arguments swapped -/
theorem metropolisSlot_diag_agree (H : Ham) (β : Rat) (cutoff : Nat) (op : Op) (st : List Bool) (n : Nat) (rs : RS)
    (hd : op.tagDiag = true) :
    metropolisSlot H β cutoff (some op) st n rs =
      (let b := op.bond
       let vars := H.vars b
       if cutoff < n ∨ varsInRange st vars = false then SlotRes.panic (some op) st n rs else
       let sub := readVars st vars
       let (rm, rs') := genClipped rs (Gen.diag_remove_denominator (Gen.diag_denominator cutoff n))
         (Gen.diag_numerator β H.nbonds (H.w b sub sub))
       if rm then ⟨none, st, n - 1, rs'⟩ else ⟨some op, st, n, rs'⟩) := by
  simp only [metropolisSlot, hd, if_true]
  rfl

/-! ### the heat-bath gates (src/sse/qmc_traits/heatbath.rs) -/

theorem hb_remove_prob_agree (β W : Rat) (L n : Nat) :
    pRemoveHB β W L n =
      Gen.hb_remove_gate (Gen.hb_remove_numerator L n)
        (Gen.hb_remove_denominator (Gen.hb_remove_numerator L n) β W) := rfl

theorem hb_insert_prob_agree (β W mw w : Rat) (L n : Nat) :
    pInsertHB β W mw w L n =
      Gen.hb_insert_gate (Gen.hb_insert_numerator β W)
        (Gen.hb_insert_denominator L n (Gen.hb_insert_numerator β W)) * (mw / W) * (w / mw) := rfl

/-- the model's heat-bath slot visit on an empty slot with the translated gate and rejection test -/
theorem heatBathSlot_none_agree (H : Ham) (bw : BW) (β : Rat) (cutoff : Nat) (st : List Bool) (n : Nat) (rs : RS) :
    heatBathSlot H bw β cutoff none st n rs =
      (match bwTotal bw with
       | none => SlotRes.panic none st n rs
       | some W =>
         if cutoff < n then SlotRes.panic none st n rs else
         let num : Rat := Gen.hb_insert_numerator β W
         let den : Rat := Gen.hb_insert_denominator cutoff n num
         if den = 0 then SlotRes.panic none st n rs else
         let (go, rs1) := rs.genBool (Gen.hb_insert_gate num den)
         if !go then ⟨none, st, n, rs1⟩ else
         let (u, rs2) := rs1.genRangeF 1
         let (x, rs3) := rs2.genRangeF W
         let b := indexForCumulative (cumul bw) x
         let rs3 := rs3.noteMargin (cumMargin (cumul bw) x)
         let maxw := bw.getD b 0
         let vars := H.vars b
         if bw.length ≤ b ∨ varsInRange st vars = false then SlotRes.panic none st n rs3 else
         let sub := readVars st vars
         let w := H.w b sub sub
         let rs4 := rs3.noteMargin (u * maxw - w)
         if Gen.hb_insert_test u maxw w then ⟨some (Op.diagonal vars b sub (H.const b)), st, n + 1, rs4⟩
         else ⟨none, st, n, rs4⟩) := by
  simp only [heatBathSlot, Gen.hb_insert_test, decide_eq_true_eq]
  rfl

/-- … and on a diagonal operator with the translated removal gate -/
theorem heatBathSlot_diag_agree (H : Ham) (bw : BW) (β : Rat) (cutoff : Nat) (op : Op) (st : List Bool) (n : Nat)
    (rs : RS) (hd : op.tagDiag = true) :
    heatBathSlot H bw β cutoff (some op) st n rs =
      (match bwTotal bw with
       | none => SlotRes.panic (some op) st n rs
       | some W =>
         if cutoff < n then SlotRes.panic (some op) st n rs else
         let num : Rat := Gen.hb_remove_numerator cutoff n
         let den : Rat := Gen.hb_remove_denominator num β W
         if den = 0 then SlotRes.panic (some op) st n rs else
         let (rm, rs') := rs.genBool (Gen.hb_remove_gate num den)
         if rm then ⟨none, st, n - 1, rs'⟩ else ⟨some op, st, n, rs'⟩) := by
  simp only [heatBathSlot, hd, if_true]
  rfl

/-! ### `swap_on_chunks` (src/sse/parallel_tempering/tempering_container.rs) -/

/-- Tempering.lean `swapOnChunks`: its decision is the translated function of the two relative weights, the two
operator counts, the two temperatures and the uniform draw -/
theorem swap_on_chunks_agree {H : Type} (I : Tempering.Iface H) (a b : Tempering.Replica H) (u : Rat) (evalH : Bool) :
    (Tempering.swapOnChunks I a b u evalH).2.2 =
      Gen.swap_on_chunks (I.relW a.ham b.ham a.cfg.slots) (I.relW b.ham a.ham b.cfg.slots)
        (countOps a.cfg.slots) (countOps b.cfg.slots) a.beta b.beta u evalH := by
  unfold Tempering.swapOnChunks Gen.swap_on_chunks Tempering.pSwap Tempering.relH
  rw [powi_agree]
  cases evalH <;> simp <;> split <;> simp_all

/-- the model's decision record uses the same test -/
theorem swap_on_chunks_agree_dec {H : Type} (I : Tempering.Iface H) (pos : Nat) (a b : Tempering.Replica H) (u : Rat)
    (eq : Bool) :
    (Tempering.mkDec I pos a b u eq).accepted =
      Gen.swap_on_chunks (I.relW a.ham b.ham a.cfg.slots) (I.relW b.ham a.ham b.cfg.slots)
        (countOps a.cfg.slots) (countOps b.cfg.slots) a.beta b.beta u (!eq) := by
  rw [← swap_on_chunks_agree]
  unfold Tempering.mkDec Tempering.swapOnChunks
  simp only
  split <;> simp_all

/-! ### bond numbering: `QmcIsingGraph::hamiltonian`'s dispatch and the `bonds_fn` closures -/

/-- Ham.lean `IsingModel.hamiltonian`: the arm taken is the translated dispatch, the arms call the translated
matrix-element functions -/
theorem hamiltonian_dispatch_agree (m : IsingModel) (bond : Nat) (ins outs : List Bool) :
    m.hamiltonian bond ins outs =
      (match Gen.hamiltonian_dispatch bond m.edges.length m.nvars with
       | 0 => (match ins, outs with
          | [i0, i1], [o0, o1] =>
            Gen.two_site_hamiltonian (i0, i1) (o0, o1) ((m.edges[bond]?.map (·.2)).getD 0)
          | _, _ => 0)
       | 1 => (match ins, outs with
          | [i], [o] => Gen.transverse_hamiltonian i o m.transverse
          | _, _ => 0)
       | 2 => (match ins, outs with
          | [i], [o] => Gen.longitudinal_hamiltonian i o m.longitudinal
          | _, _ => 0)
       | _ => 0) := by
  unfold IsingModel.hamiltonian Gen.hamiltonian_dispatch
  by_cases h1 : bond < m.edges.length
  · simp only [h1, decide_true, if_true]
    split <;> simp_all [two_site_hamiltonian_agree]
  · by_cases h2 : bond < m.edges.length + m.nvars
    · simp only [h1, h2, decide_true, decide_false, if_true, if_false, Bool.false_eq_true]
      rfl
    · by_cases h3 : bond < m.edges.length + 2 * m.nvars
      · simp only [h1, h2, h3, decide_true, decide_false, if_true, if_false, Bool.false_eq_true]
        rw [longitudinal_hamiltonian_agree]
        rfl
      · simp only [h1, h2, h3, decide_false, if_false, Bool.false_eq_true]

/-- Ham.lean `IsingModel.bondVars` / `bondConst` against the translated `bonds_fn` (`vars[k] = k`) -/
theorem bonds_fn_timestep_agree (m : IsingModel) (b : Nat) :
    m.bondVars b =
        (if (Gen.bonds_fn_timestep b m.edges.length m.nvars).1.1
         then [(Gen.bonds_fn_timestep b m.edges.length m.nvars).2]
         else (m.edges[(Gen.bonds_fn_timestep b m.edges.length m.nvars).2]?.map (·.1)).getD []) ∧
      m.bondConst b = (Gen.bonds_fn_timestep b m.edges.length m.nvars).1.2 := by
  unfold IsingModel.bondVars IsingModel.bondConst Gen.bonds_fn_timestep
  by_cases h1 : b < m.edges.length
  · simp [h1]
    try omega
  · by_cases h2 : b < m.edges.length + m.nvars
    · simp [h1, h2]
      try omega
    · simp [h1, h2]
      try omega

theorem bonds_fn_single_diagonal_step_agree : Gen.bonds_fn_single_diagonal_step = Gen.bonds_fn_timestep := rfl
theorem bonds_fn_single_rvb_sweep_agree : Gen.bonds_fn_single_rvb_sweep = Gen.bonds_fn_timestep := rfl
theorem bonds_fn_set_enable_heatbath_agree : Gen.bonds_fn_set_enable_heatbath = Gen.bonds_fn_timestep := rfl

/-! ### the matrices `into_qmc` hands to the generic sampler -/

theorem into_qmc_edge_matrix_agree : edgeMat = Gen.into_qmc_edge_matrix := rfl
theorem into_qmc_transverse_matrix_agree : transverseMat = Gen.into_qmc_transverse_matrix := rfl
theorem into_qmc_field_matrix_agree : fieldMat = Gen.into_qmc_field_matrix := rfl

/-! ### `get_mat_var_size` (src/sse/qmc_runner.rs) -/

theorem mat_var_size_rule_agree (len : Nat) :
    getMatVarSize len = (getPowerOfTwo len).bind Gen.mat_var_size_rule := by
  unfold getMatVarSize Gen.mat_var_size_rule
  cases getPowerOfTwo len with
  | none => rfl
  | some i => simp [Nat.shiftRight_eq_div_pow]

end Qmc.PureFnsAgree
