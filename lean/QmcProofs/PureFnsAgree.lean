/-
Agreement of the hand-written model with the definitions TRANSLATED FROM THE RUST SOURCE
(`QmcModel/Generated/PureFns.lean`, written by `tools/translate_pure.py` on every run of a check).

Every theorem says: a hand-written model definition EQUALS (for all arguments) the term the translator produced
from the current text of the corresponding Rust function / expression.  The file is re-checked by
`checks/pure_fns.py` after the generated file has been refreshed, so an edit of one of the translated Rust
functions changes `Qmc.Gen.*` and breaks the theorem that names it (or the translator fails closed).  No testing is
involved.  See design_notes/Translator.md.

Naming: `<generated name>_agree…`.  Hand models with several copies of the same Rust function (each property's
model has its own) get one theorem per copy.  The copy of `longitudinal_hamiltonian` in Tempering.lean does NOT agree
with the current source off the diagonal (it still carries the value `|h|` of the code before the fix 9464564): only
the diagonal agreement is proved; reported in design_notes/Translator.md; no sampler path evaluates those entries.
-/
import QmcModel.Generated.PureFns
import QmcModel.Ham
import QmcModel.Cutoff
import QmcModel.Diagonal
import QmcModel.HeatBath
import QmcModel.Tempering
import QmcModel.Convert
import QmcModel.Generic
import QmcModel.Stepper
import QmcModel.Rvb
import QmcModel.IsingHam
import QmcModel.SamplerCore
import Mathlib.Tactic.NormNum
import Mathlib.Tactic.Linarith

namespace Qmc.PureFnsAgree

open Qmc

/-! ### the fixed prelude of the translation -/

theorem fabs_agree : Gen.fabs = absR := rfl
theorem fabs_agree_rvb : Gen.fabs = Rvb.absR := rfl
theorem fabs_agree_isingHam : Gen.fabs = ratAbs := rfl
theorem EPSILON_agree : Gen.EPSILON = eps := rfl
theorem EPSILON_agree_rvb : Gen.EPSILON = Rvb.f64eps := rfl
theorem powi_agree : Gen.powi = Tempering.powi := rfl

/-! ### `two_site_hamiltonian`, `transverse_hamiltonian`, `longitudinal_hamiltonian` (src/sse/qmc_ising.rs) -/

/-- Ham.lean `twoSiteHamiltonian` (C01, C15, C08 …) -/
theorem two_site_hamiltonian_agree (i0 i1 o0 o1 : Bool) (j : Rat) :
    twoSiteHamiltonian i0 i1 o0 o1 j = Gen.two_site_hamiltonian (i0, i1) (o0, o1) j := by
  cases i0 <;> cases i1 <;> cases o0 <;> cases o1 <;>
    simp [twoSiteHamiltonian, Gen.two_site_hamiltonian, fabs_agree]

/-- the same, for pairs -/
theorem two_site_hamiltonian_agree_pairs (ins outs : Bool × Bool) (j : Rat) :
    Gen.two_site_hamiltonian ins outs j = twoSiteHamiltonian ins.1 ins.2 outs.1 outs.2 j := by
  obtain ⟨a, b⟩ := ins
  obtain ⟨c, d⟩ := outs
  exact (two_site_hamiltonian_agree a b c d j).symm

theorem transverse_hamiltonian_agree : transverseHamiltonian = Gen.transverse_hamiltonian := rfl

/-- Ham.lean `longitudinalHamiltonian` -/
theorem longitudinal_hamiltonian_agree : longitudinalHamiltonian = Gen.longitudinal_hamiltonian := by
  funext i o h
  cases i <;> cases o <;> rfl

/-- Tempering.lean `twoSite` -/
theorem two_site_hamiltonian_agree_tempering (i0 i1 o0 o1 : Bool) (j : Rat) :
    Tempering.twoSite i0 i1 o0 o1 j = Gen.two_site_hamiltonian (i0, i1) (o0, o1) j :=
  two_site_hamiltonian_agree i0 i1 o0 o1 j

/-- Rvb.lean `twoSite` (diagonal element only: `ins = outs = (a, b)`) -/
theorem two_site_hamiltonian_agree_rvb (a b : Bool) (j : Rat) :
    Rvb.twoSite j a b = Gen.two_site_hamiltonian (a, b) (a, b) j := by
  cases a <;> cases b <;> simp [Rvb.twoSite, Gen.two_site_hamiltonian, fabs_agree_rvb]

/-- Rvb.lean `longitudinal` -/
theorem longitudinal_hamiltonian_agree_rvb (h : Rat) (i o : Bool) :
    Rvb.longitudinal h i o = Gen.longitudinal_hamiltonian i o h := by
  cases i <;> cases o <;> simp [Rvb.longitudinal, Gen.longitudinal_hamiltonian, fabs_agree_rvb, Rat.sub_eq_add_neg]

/-- IsingHam.lean `twoSite` (value lists of length 2) -/
theorem two_site_hamiltonian_agree_isingHam (a b c d : Bool) (j : Rat) :
    Qmc.twoSite [a, b] [c, d] j = Gen.two_site_hamiltonian (a, b) (c, d) j := by
  cases a <;> cases b <;> cases c <;> cases d <;>
    simp [Qmc.twoSite, Gen.two_site_hamiltonian, fabs_agree_isingHam]

/-- IsingHam.lean `longitudinal` (value lists of length 1) -/
theorem longitudinal_hamiltonian_agree_isingHam (i o : Bool) (h : Rat) :
    Qmc.longitudinal [i] [o] h = Gen.longitudinal_hamiltonian i o h := by
  cases i <;> cases o <;> rfl

/-- Tempering.lean `longitudinalW`: agrees with the source ON THE DIAGONAL (the only entries a sampler reads) -/
theorem longitudinal_hamiltonian_agree_tempering_diag (i : Bool) (h : Rat) :
    Tempering.longitudinalW i i h = Gen.longitudinal_hamiltonian i i h := by
  cases i <;> simp [Tempering.longitudinalW, Gen.longitudinal_hamiltonian, fabs_agree, Rat.sub_eq_add_neg]

/- Off the diagonal `Tempering.longitudinalW true false h = |h|` while the source (after 9464564) returns 0: that
copy of the model is stale there (reported in design_notes/Translator.md).  It is deliberately NOT stated as a
theorem here, so that a repair of Tempering.lean by its owner does not break this file. -/

/-! ### `is_valid_cluster_edge` (src/sse/qmc_traits/cluster.rs) -/

theorem is_valid_cluster_edge_agree : isValidClusterEdge = Gen.is_valid_cluster_edge := by
  funext c n
  cases c <;> simp [isValidClusterEdge, Gen.is_valid_cluster_edge, beq_eq_decide]

/-! ### the cutoff growth rule at its three sites -/

theorem cutoff_rule_single_diagonal_step_agree : nextCutoff = Gen.cutoff_rule_single_diagonal_step := rfl
theorem cutoff_rule_timestep_agree : nextCutoff = Gen.cutoff_rule_timestep := rfl
theorem cutoff_rule_diagonal_update_agree : nextCutoff = Gen.cutoff_rule_diagonal_update := rfl

/-! ### `get_energy_for_average_n` of both samplers -/

/-- Convert.lean `IsingSampler.energy` -/
theorem get_energy_for_average_n_ising_agree (g : IsingSampler) (avgN beta : Rat) :
    g.energy avgN beta = Gen.get_energy_for_average_n_ising g.model.offset avgN beta := rfl

/-- Convert.lean `GenericSampler.energy` -/
theorem get_energy_for_average_n_generic_agree (q : GenericSampler) (avgN beta : Rat) :
    q.energy avgN beta = Gen.get_energy_for_average_n_generic q.offset avgN beta := rfl

/-- Generic.lean `energyForAverageN` -/
theorem get_energy_for_average_n_generic_agree_gqmc (q : GQmc) (avgN beta : Rat) :
    energyForAverageN q avgN beta = Gen.get_energy_for_average_n_generic q.offset avgN beta := rfl

/-- Stepper.lean `energyForAvgN` (one definition for both samplers) -/
theorem get_energy_for_average_n_agree_stepper (β off avg : Rat) :
    energyForAvgN β off avg = Gen.get_energy_for_average_n_ising off avg β ∧
    energyForAvgN β off avg = Gen.get_energy_for_average_n_generic off avg β := ⟨rfl, rfl⟩

/-! ### `total_energy_offset`, `num_bonds`, the field guard -/

/-- Ham.lean `IsingModel.offset` = `edge_offset + field_offset` with the translated pieces -/
theorem total_energy_offset_agree (m : IsingModel) :
    m.offset = Gen.total_energy_offset ((m.edges.map (fun e => Gen.edge_offset_term e.2)).sum)
      (Gen.field_offset m.nvars m.transverse m.longitudinal) := rfl

/-- Ham.lean `IsingModel.hasField` -/
theorem field_guard_agree (m : IsingModel) : m.hasField = Gen.field_guard m.longitudinal := rfl

/-- the guard as it is spelled in Tempering.lean (`if absR h > eps then …`) -/
theorem field_guard_agree_tempering (h : Rat) : (absR h > eps) ↔ Gen.field_guard h = true := by
  simp [Gen.field_guard, fabs_agree, EPSILON_agree]

theorem num_bonds_single_diagonal_step_agree (m : IsingModel) :
    m.numBonds = Gen.num_bonds_single_diagonal_step m.edges.length m.nvars m.longitudinal := rfl
theorem num_bonds_single_rvb_sweep_agree (m : IsingModel) :
    m.numBonds = Gen.num_bonds_single_rvb_sweep m.edges.length m.nvars m.longitudinal := rfl
theorem num_bonds_set_enable_heatbath_agree (m : IsingModel) :
    m.numBonds = Gen.num_bonds_set_enable_heatbath m.edges.length m.nvars m.longitudinal := rfl
theorem num_bonds_timestep_agree (m : IsingModel) :
    m.numBonds = Gen.num_bonds_timestep m.edges.length m.nvars m.longitudinal := rfl

/-- Tempering.lean `IsingH.numBonds` -/
theorem num_bonds_agree_tempering (H : Tempering.IsingH) :
    H.numBonds = Gen.num_bonds_timestep H.nedges H.nvars H.h := by
  simp [Tempering.IsingH.numBonds, Gen.num_bonds_timestep, fabs_agree, EPSILON_agree]

/-- IsingHam.lean `IsingSpec.ham`: its bond count uses `h = 0` instead of the guard; equal whenever the field is
zero or visible to the guard (true of the dyadic inputs of the correspondence runs) -/
theorem num_bonds_agree_isingHam (s : IsingSpec) (hh : s.h = 0 ∨ absR s.h > eps) :
    s.ham.nbonds = Gen.num_bonds_timestep s.nedges s.nvars s.h := by
  have e : (0 : Rat) < eps := by norm_num [eps]
  rcases hh with h0 | hb
  · have : ¬ (eps < absR 0) := by
      simp only [absR]
      norm_num [eps]
    simp [IsingSpec.ham, Gen.num_bonds_timestep, fabs_agree, EPSILON_agree, h0, this]
  · have hne : s.h ≠ 0 := by
      intro h0
      rw [h0] at hb
      simp only [absR] at hb
      norm_num [eps] at hb
    simp [IsingSpec.ham, Gen.num_bonds_timestep, fabs_agree, EPSILON_agree, hne, hb]

/-! ### `metropolis_single_diagonal_update` (src/sse/qmc_traits/diagonal.rs) -/

/-- idealised insertion acceptance = clip of translated numerator / denominator -/
theorem diag_insert_prob_agree (β : Rat) (Nb : Nat) (w : Rat) (L n : Nat) :
    accInsM β Nb w L n = clipProb (Gen.diag_numerator β Nb w) (Gen.diag_denominator L n) := rfl

/-- idealised removal acceptance: the translated `denominator + 1.0` over the numerator -/
theorem diag_remove_prob_agree (β : Rat) (Nb : Nat) (w : Rat) (L n : Nat) :
    accRemM β Nb w L n =
      clipProb (Gen.diag_remove_denominator (Gen.diag_denominator L n)) (Gen.diag_numerator β Nb w) := rfl

/-- the decision of `genClipped` is the translated test `numerator > denominator || rng.gen_bool(numerator /
denominator)` with `gen_bool` read off the RNG state (whenever `genClipped` does not model a panic) -/
theorem diag_insert_accept_agree (rs : RS) (num den : Rat) (h : num > den ∨ den ≠ 0) :
    (genClipped rs num den).1 = Gen.diag_insert_accept (fun p => (rs.genBool p).1) num den := by
  unfold genClipped Gen.diag_insert_accept
  by_cases h1 : num > den
  · simp [h1]
  · have h2 : den ≠ 0 := by
      rcases h with h | h
      · exact absurd h h1
      · exact h
    simp [h1, h2]

/-- … and the draws it makes are exactly the translated short-circuit draw list -/
theorem diag_insert_accept_draws_agree (rs : RS) (num den : Rat) (h : num > den ∨ den ≠ 0) :
    (genClipped rs num den).2 =
      (Gen.diag_insert_accept_draws num den).foldl (fun r p => (r.genBool p).2) rs := by
  unfold genClipped Gen.diag_insert_accept_draws
  by_cases h1 : num > den
  · simp [h1]
  · have h2 : den ≠ 0 := by
      rcases h with h | h
      · exact absurd h h1
      · exact h
    simp [h1, h2]

/-- removal: `genClipped rs denominator numerator` is the translated `denominator > numerator ||
rng.gen_bool(denominator / numerator)` -/
theorem diag_remove_accept_agree (rs : RS) (num den : Rat) (h : den > num ∨ num ≠ 0) :
    (genClipped rs den num).1 = Gen.diag_remove_accept (fun p => (rs.genBool p).1) num den := by
  unfold genClipped Gen.diag_remove_accept
  by_cases h1 : den > num
  · simp [h1]
  · have h2 : num ≠ 0 := by
      rcases h with h | h
      · exact absurd h h1
      · exact h
    simp [h1, h2]

theorem diag_remove_accept_draws_agree (rs : RS) (num den : Rat) (h : den > num ∨ num ≠ 0) :
    (genClipped rs den num).2 =
      (Gen.diag_remove_accept_draws num den).foldl (fun r p => (r.genBool p).2) rs := by
  unfold genClipped Gen.diag_remove_accept_draws
  by_cases h1 : den > num
  · simp [h1]
  · have h2 : num ≠ 0 := by
      rcases h with h | h
      · exact absurd h h1
      · exact h
    simp [h1, h2]

/-- the model's slot visit, empty slot: it uses exactly the translated numerator and denominator -/
theorem metropolisSlot_none_agree (H : Ham) (β : Rat) (cutoff : Nat) (st : List Bool) (n : Nat) (rs : RS) :
    metropolisSlot H β cutoff none st n rs =
      (let (b, rs1) := rs.genRange H.nbonds
       let vars := H.vars b
       if cutoff < n ∨ varsInRange st vars = false then SlotRes.panic none st n rs1 else
       let sub := readVars st vars
       let (ins, rs2) := genClipped rs1 (Gen.diag_numerator β H.nbonds (H.w b sub sub)) (Gen.diag_denominator cutoff n)
       if ins then ⟨some (Op.diagonal vars b sub (H.const b)), st, n + 1, rs2⟩ else ⟨none, st, n, rs2⟩) := rfl

/-- the model's slot visit, diagonal operator: translated numerator and `denominator + 1.0`, arguments swapped -/
theorem metropolisSlot_diag_agree (H : Ham) (β : Rat) (cutoff : Nat) (op : Op) (st : List Bool) (n : Nat) (rs : RS)
    (hd : op.tagDiag = true) :
    metropolisSlot H β cutoff (some op) st n rs =
      (let b := op.bond
       let vars := H.vars b
       if cutoff < n ∨ varsInRange st vars = false then SlotRes.panic (some op) st n rs else
       let sub := readVars st vars
       let (rm, rs') := genClipped rs (Gen.diag_remove_denominator (Gen.diag_denominator cutoff n))
         (Gen.diag_numerator β H.nbonds (H.w b sub sub))
       if rm then ⟨none, st, n - 1, rs'⟩ else ⟨some op, st, n, rs'⟩) := by
  simp only [metropolisSlot, hd, if_true]
  rfl

/-! ### the heat-bath gates (src/sse/qmc_traits/heatbath.rs) -/

theorem hb_remove_prob_agree (β W : Rat) (L n : Nat) :
    pRemoveHB β W L n =
      Gen.hb_remove_gate (Gen.hb_remove_numerator L n)
        (Gen.hb_remove_denominator (Gen.hb_remove_numerator L n) β W) := rfl

theorem hb_insert_prob_agree (β W mw w : Rat) (L n : Nat) :
    pInsertHB β W mw w L n =
      Gen.hb_insert_gate (Gen.hb_insert_numerator β W)
        (Gen.hb_insert_denominator L n (Gen.hb_insert_numerator β W)) * (mw / W) * (w / mw) := rfl

/-- the model's heat-bath slot visit on an empty slot with the translated gate and rejection test -/
theorem heatBathSlot_none_agree (H : Ham) (bw : BW) (β : Rat) (cutoff : Nat) (st : List Bool) (n : Nat) (rs : RS) :
    heatBathSlot H bw β cutoff none st n rs =
      (match bwTotal bw with
       | none => SlotRes.panic none st n rs
       | some W =>
         if cutoff < n then SlotRes.panic none st n rs else
         let num : Rat := Gen.hb_insert_numerator β W
         let den : Rat := Gen.hb_insert_denominator cutoff n num
         if den = 0 then SlotRes.panic none st n rs else
         let (go, rs1) := rs.genBool (Gen.hb_insert_gate num den)
         if !go then ⟨none, st, n, rs1⟩ else
         let (u, rs2) := rs1.genRangeF 1
         let (x, rs3) := rs2.genRangeF W
         let b := indexForCumulative (cumul bw) x
         let rs3 := rs3.noteMargin (cumMargin (cumul bw) x)
         let maxw := bw.getD b 0
         let vars := H.vars b
         if bw.length ≤ b ∨ varsInRange st vars = false then SlotRes.panic none st n rs3 else
         let sub := readVars st vars
         let w := H.w b sub sub
         let rs4 := rs3.noteMargin (u * maxw - w)
         if Gen.hb_insert_test u maxw w then ⟨some (Op.diagonal vars b sub (H.const b)), st, n + 1, rs4⟩
         else ⟨none, st, n, rs4⟩) := by
  simp only [heatBathSlot, Gen.hb_insert_test, decide_eq_true_eq]
  rfl

/-- … and on a diagonal operator with the translated removal gate -/
theorem heatBathSlot_diag_agree (H : Ham) (bw : BW) (β : Rat) (cutoff : Nat) (op : Op) (st : List Bool) (n : Nat)
    (rs : RS) (hd : op.tagDiag = true) :
    heatBathSlot H bw β cutoff (some op) st n rs =
      (match bwTotal bw with
       | none => SlotRes.panic (some op) st n rs
       | some W =>
         if cutoff < n then SlotRes.panic (some op) st n rs else
         let num : Rat := Gen.hb_remove_numerator cutoff n
         let den : Rat := Gen.hb_remove_denominator num β W
         if den = 0 then SlotRes.panic (some op) st n rs else
         let (rm, rs') := rs.genBool (Gen.hb_remove_gate num den)
         if rm then ⟨none, st, n - 1, rs'⟩ else ⟨some op, st, n, rs'⟩) := by
  simp only [heatBathSlot, hd, if_true]
  rfl

/-! ### `swap_on_chunks` (src/sse/parallel_tempering/tempering_container.rs) -/

/-- Tempering.lean `swapOnChunks`: its decision is the translated function of the two relative weights, the two
operator counts, the two temperatures and the uniform draw -/
theorem swap_on_chunks_agree {H : Type} (I : Tempering.Iface H) (a b : Tempering.Replica H) (u : Rat) (evalH : Bool) :
    (Tempering.swapOnChunks I a b u evalH).2.2 =
      Gen.swap_on_chunks (I.relW a.ham b.ham a.cfg.slots) (I.relW b.ham a.ham b.cfg.slots)
        (countOps a.cfg.slots) (countOps b.cfg.slots) a.beta b.beta u evalH := by
  unfold Tempering.swapOnChunks Gen.swap_on_chunks Tempering.pSwap Tempering.relH
  rw [powi_agree]
  cases evalH <;> simp <;> split <;> simp_all

/-- the model's decision record uses the same test -/
theorem swap_on_chunks_agree_dec {H : Type} (I : Tempering.Iface H) (pos : Nat) (a b : Tempering.Replica H) (u : Rat)
    (eq : Bool) :
    (Tempering.mkDec I pos a b u eq).accepted =
      Gen.swap_on_chunks (I.relW a.ham b.ham a.cfg.slots) (I.relW b.ham a.ham b.cfg.slots)
        (countOps a.cfg.slots) (countOps b.cfg.slots) a.beta b.beta u (!eq) := by
  rw [← swap_on_chunks_agree]
  unfold Tempering.mkDec Tempering.swapOnChunks
  simp only
  split <;> simp_all

/-! ### bond numbering: `QmcIsingGraph::hamiltonian`'s dispatch and the `bonds_fn` closures -/

/-- Ham.lean `IsingModel.hamiltonian`: the arm taken is the translated dispatch, the arms call the translated
matrix-element functions -/
theorem hamiltonian_dispatch_agree (m : IsingModel) (bond : Nat) (ins outs : List Bool) :
    m.hamiltonian bond ins outs =
      (match Gen.hamiltonian_dispatch bond m.edges.length m.nvars with
       | 0 => (match ins, outs with
          | [i0, i1], [o0, o1] =>
            Gen.two_site_hamiltonian (i0, i1) (o0, o1) ((m.edges[bond]?.map (·.2)).getD 0)
          | _, _ => 0)
       | 1 => (match ins, outs with
          | [i], [o] => Gen.transverse_hamiltonian i o m.transverse
          | _, _ => 0)
       | 2 => (match ins, outs with
          | [i], [o] => Gen.longitudinal_hamiltonian i o m.longitudinal
          | _, _ => 0)
       | _ => 0) := by
  unfold IsingModel.hamiltonian Gen.hamiltonian_dispatch
  by_cases h1 : bond < m.edges.length
  · simp only [h1, decide_true, if_true]
    split <;> simp_all [two_site_hamiltonian_agree]
  · by_cases h2 : bond < m.edges.length + m.nvars
    · simp only [h1, h2, decide_true, decide_false, if_true, if_false, Bool.false_eq_true]
      rfl
    · by_cases h3 : bond < m.edges.length + 2 * m.nvars
      · simp only [h1, h2, h3, decide_true, decide_false, if_true, if_false, Bool.false_eq_true]
        rw [longitudinal_hamiltonian_agree]
        rfl
      · simp only [h1, h2, h3, decide_false, if_false, Bool.false_eq_true]

/-- Ham.lean `IsingModel.bondVars` / `bondConst` against the translated `bonds_fn` (`vars[k] = k`) -/
theorem bonds_fn_timestep_agree (m : IsingModel) (b : Nat) :
    m.bondVars b =
        (if (Gen.bonds_fn_timestep b m.edges.length m.nvars).1.1
         then [(Gen.bonds_fn_timestep b m.edges.length m.nvars).2]
         else (m.edges[(Gen.bonds_fn_timestep b m.edges.length m.nvars).2]?.map (·.1)).getD []) ∧
      m.bondConst b = (Gen.bonds_fn_timestep b m.edges.length m.nvars).1.2 := by
  unfold IsingModel.bondVars IsingModel.bondConst Gen.bonds_fn_timestep
  by_cases h1 : b < m.edges.length
  · simp [h1]
    try omega
  · by_cases h2 : b < m.edges.length + m.nvars
    · simp [h1, h2]
      try omega
    · simp [h1, h2]
      try omega

theorem bonds_fn_single_diagonal_step_agree : Gen.bonds_fn_single_diagonal_step = Gen.bonds_fn_timestep := rfl
theorem bonds_fn_single_rvb_sweep_agree : Gen.bonds_fn_single_rvb_sweep = Gen.bonds_fn_timestep := rfl
theorem bonds_fn_set_enable_heatbath_agree : Gen.bonds_fn_set_enable_heatbath = Gen.bonds_fn_timestep := rfl

/-! ### the matrices `into_qmc` hands to the generic sampler -/

theorem into_qmc_edge_matrix_agree : edgeMat = Gen.into_qmc_edge_matrix := rfl
theorem into_qmc_transverse_matrix_agree : transverseMat = Gen.into_qmc_transverse_matrix := rfl
theorem into_qmc_field_matrix_agree : fieldMat = Gen.into_qmc_field_matrix := rfl

/-! ### replicated closures of qmc_ising.rs / qmc_runner.rs (the translator REQUIRES the copies identical) -/

/-- the cluster-weight / ising-ratio closure: 0 on the longitudinal-field bonds, 1 elsewhere -/
theorem cluster_weight_timestep_agree (bond nedges nvars : Nat) :
    Gen.cluster_weight_timestep bond nedges nvars = if nedges + nvars ≤ bond then 0 else 1 := by
  unfold Gen.cluster_weight_timestep
  by_cases h : nedges + nvars ≤ bond <;> simp [h]

theorem cluster_weight_single_cluster_step_agree :
    Gen.cluster_weight_single_cluster_step = Gen.cluster_weight_timestep := rfl
theorem ising_ratio_single_rvb_sweep_agree : Gen.ising_ratio_single_rvb_sweep = Gen.cluster_weight_timestep := rfl
theorem ising_ratio_timestep_agree : Gen.ising_ratio_timestep = Gen.cluster_weight_timestep := rfl

/-- SamplerCore.lean `IsingSampler.frozenBond` ("the closure returns 0.0 on bond b"), field on -/
theorem cluster_weight_agree_samplerCore (s : Sampler.IsingSampler) (hh : s.spec.h ≠ 0) (b : Nat) :
    s.frozenBond b = decide (Gen.cluster_weight_timestep b s.spec.nedges s.spec.nvars = 0) := by
  rw [cluster_weight_timestep_agree]
  unfold Sampler.IsingSampler.frozenBond
  by_cases h : s.spec.nedges + s.spec.nvars ≤ b <;> simp [hh, h]

/-- Rvb.lean derives the ratio of an operator inside the flipped region from the matrix elements; on a legal
operator (positive weight) it is the translated `ising_ratio` closure — two-site bond -/
theorem ising_ratio_agree_rvb_edge (E : Rvb.Ising) (bond : Nat) (a b : Bool) (hb : bond < E.edges.length)
    (hpos : 0 < E.w bond [a, b] [a, b]) :
    E.w bond [!a, !b] [!a, !b] / E.w bond [a, b] [a, b] =
      Gen.ising_ratio_timestep bond E.edges.length E.nvars := by
  have hne : ¬ (E.edges.length + E.nvars ≤ bond) := by omega
  have hflip : E.w bond [!a, !b] [!a, !b] = E.w bond [a, b] [a, b] := by
    cases a <;> cases b <;> simp [Rvb.Ising.w, hb, Rvb.twoSite]
  rw [ising_ratio_timestep_agree, cluster_weight_timestep_agree, hflip, if_neg hne]
  exact div_self (ne_of_gt hpos)

/-- … transverse bond -/
theorem ising_ratio_agree_rvb_transverse (E : Rvb.Ising) (bond : Nat) (i : Bool) (h1 : E.edges.length ≤ bond)
    (h2 : bond < E.edges.length + E.nvars) (hpos : 0 < E.w bond [i] [i]) :
    E.w bond [!i] [!i] / E.w bond [i] [i] = Gen.ising_ratio_timestep bond E.edges.length E.nvars := by
  have hne : ¬ (E.edges.length + E.nvars ≤ bond) := by omega
  have hlt : ¬ (bond < E.edges.length) := by omega
  have hflip : E.w bond [!i] [!i] = E.w bond [i] [i] := by simp [Rvb.Ising.w, hlt, h2]
  rw [ising_ratio_timestep_agree, cluster_weight_timestep_agree, hflip, if_neg hne]
  exact div_self (ne_of_gt hpos)

/-- … longitudinal bond: the flipped operator has weight 0 -/
theorem ising_ratio_agree_rvb_field (E : Rvb.Ising) (bond : Nat) (i : Bool)
    (h2 : E.edges.length + E.nvars ≤ bond) (hpos : 0 < E.w bond [i] [i]) :
    E.w bond [!i] [!i] / E.w bond [i] [i] = Gen.ising_ratio_timestep bond E.edges.length E.nvars := by
  have h1 : ¬ (bond < E.edges.length) := by omega
  have h3 : ¬ (bond < E.edges.length + E.nvars) := by omega
  have hflip : E.w bond [!i] [!i] = 0 := by
    cases i <;> simp [Rvb.Ising.w, h1, h3, Rvb.longitudinal, Rvb.absR] at hpos ⊢ <;> split_ifs at hpos ⊢ <;> linarith
  rw [ising_ratio_timestep_agree, cluster_weight_timestep_agree, hflip, if_pos h2]
  simp

/-- the RVB diagonal edge weight closure, instantiated with the model's Hamiltonian and edge list, is Rvb.lean's
`twoSite` of that edge -/
theorem rvb_edge_weight_agree_rvb (E : Rvb.Ising) (b u v : Nat) (j : Rat) (sa sb : Bool)
    (he : E.edges[b]? = some (u, v, j)) :
    Gen.rvb_edge_weight_timestep_field
        (fun b => ((E.edges.getD b (0, 0, 0)).1, (E.edges.getD b (0, 0, 0)).2.1))
        (fun _ b i o => E.w b i o) b sa sb = Rvb.twoSite j sa sb := by
  have hb : b < E.edges.length := by
    rcases Nat.lt_or_ge b E.edges.length with h | h
    · exact h
    · rw [List.getElem?_eq_none h] at he
      cases he
  have hg : E.edges[b] = (u, v, j) := by
    have := List.getElem?_eq_getElem hb
    rw [this] at he
    exact Option.some.inj he
  simp [Gen.rvb_edge_weight_timestep_field, Rvb.Ising.w, hb, hg]

theorem rvb_edge_weight_timestep_nofield_agree :
    @Gen.rvb_edge_weight_timestep_nofield = @Gen.rvb_edge_weight_timestep_field := rfl
theorem rvb_edge_weight_single_rvb_sweep_field_agree :
    @Gen.rvb_edge_weight_single_rvb_sweep_field = @Gen.rvb_edge_weight_timestep_field := rfl
theorem rvb_edge_weight_single_rvb_sweep_nofield_agree :
    @Gen.rvb_edge_weight_single_rvb_sweep_nofield = @Gen.rvb_edge_weight_timestep_field := rfl

/-- every cluster update flips with probability 1/2 -/
theorem cluster_flip_prob_agree :
    Gen.cluster_flip_prob_single_cluster_step_field = 1 / 2 ∧ Gen.cluster_flip_prob_single_cluster_step_sym = 1 / 2 ∧
    Gen.cluster_flip_prob_timestep_field = 1 / 2 ∧ Gen.cluster_flip_prob_timestep_sym = 1 / 2 ∧
    Gen.cluster_flip_prob_cluster_update_sym = 1 / 2 := ⟨rfl, rfl, rfl, rfl, rfl⟩

/-- every free-spin refresh draws with probability 1/2 -/
theorem free_refresh_prob_agree :
    Gen.free_refresh_prob_single_cluster_step = 1 / 2 ∧ Gen.free_refresh_prob_timestep = 1 / 2 ∧
    Gen.free_refresh_prob_flip_free_bits = 1 / 2 := ⟨rfl, rfl, rfl⟩

/-- SamplerCore.lean `isingTimestepWith` with the translated flip probability and cutoff rule in place -/
theorem cluster_flip_prob_agree_isingTimestep (CK : Sampler.ClusterK) (s : Sampler.IsingSampler) (β : Rat) (rs : RS) :
    Sampler.isingTimestepWith CK s β rs =
      (let H := s.spec.ham
       let d := Sampler.diagUpdate H s.table β s.cutoff s.cfg rs
       let m := CK Gen.cluster_flip_prob_timestep_field s.frozenBond d.1 d.2
       let r := Sampler.freeRefresh m.1 m.2
       ({ s with state := r.1.state, slots := r.1.slots,
                 cutoff := Gen.cutoff_rule_timestep s.cutoff (countOps r.1.slots) }, r.2)) := rfl

/-- SamplerCore.lean `genericTimestepWith` with the translated flip probability in place -/
theorem cluster_flip_prob_agree_genericTimestep (LK : Sampler.LoopK) (CK : Sampler.ClusterK) (s : Sampler.GenericSampler)
    (β : Rat) (rs : RS) :
    Sampler.genericTimestepWith LK CK s β rs =
      (let d := Sampler.genericDiagonalUpdate s β rs
       let l := if d.1.doLoop then LK d.1.ham.w d.1.cfg d.2 else (d.1.cfg, d.2)
       let m := if d.1.shouldCluster then CK Gen.cluster_flip_prob_cluster_update_sym (fun _ => false) l.1 l.2 else l
       let r := Sampler.freeRefresh m.1 m.2
       (d.1.withCfg r.1, r.2)) := rfl

/-- SamplerCore.lean `refreshAux`: the draw of a variable without operators uses the translated probability -/
theorem free_refresh_prob_agree_samplerCore (s : Slots) (v : Nat) (x : Bool) (t : List Bool) (rs : RS) :
    Sampler.refreshAux s v (x :: t) rs =
      (if Sampler.hasOps s v then
        (let r := Sampler.refreshAux s (v + 1) t rs
         (x :: r.1, r.2))
      else
        (let d := rs.genBool Gen.free_refresh_prob_timestep
         let r := Sampler.refreshAux s (v + 1) t d.2
         (d.1 :: r.1, r.2))) := by
  rw [Sampler.refreshAux]
  rfl

/-- Generic.lean `flipFreeBitsFrom` -/
theorem free_refresh_prob_agree_generic (slots : Slots) (fuel v : Nat) (st : List Bool) (rs : RS) :
    flipFreeBitsFrom slots (fuel + 1) v st rs =
      (if varHasOps slots v then flipFreeBitsFrom slots fuel (v + 1) st rs
       else
        (let (b, rs) := rs.genBool Gen.free_refresh_prob_flip_free_bits
         flipFreeBitsFrom slots fuel (v + 1) (st.set v b) rs)) := by
  rw [flipFreeBitsFrom]
  rfl

/-- `steps_to_run` (no hand model computes it: the RVB models take the number of proposals as an input) -/
theorem steps_to_run_timestep_agree (n : Nat) : Gen.steps_to_run_timestep n = (n + 1) / 2 := rfl
theorem steps_to_run_single_rvb_sweep_agree : Gen.steps_to_run_single_rvb_sweep = Gen.steps_to_run_timestep := rfl

/-- the `h` closures just forward to `Self::hamiltonian(&hinfo, …)` -/
theorem h_closure_timestep_agree : @Gen.h_closure_timestep = fun f => f := rfl
theorem h_closure_single_diagonal_step_agree : @Gen.h_closure_single_diagonal_step = @Gen.h_closure_timestep := rfl
theorem h_closure_single_rvb_sweep_agree : @Gen.h_closure_single_rvb_sweep = @Gen.h_closure_timestep := rfl
theorem h_closure_set_enable_heatbath_agree : @Gen.h_closure_set_enable_heatbath = @Gen.h_closure_timestep := rfl

/-- Ham.lean `isingHam`: its weight function is the translated `h` closure over `IsingModel.hamiltonian` -/
theorem h_closure_agree_isingHam (m : IsingModel) (vars : List Nat) (b : Nat) (i o : List Bool) (hb : b < m.numBonds) :
    (isingHam m).w b i o = Gen.h_closure_timestep (fun _ b i o => m.hamiltonian b i o) vars b i o := by
  simp [isingHam, hb, Gen.h_closure_timestep]

/-! ### `get_mat_var_size` (src/sse/qmc_runner.rs) -/

theorem mat_var_size_rule_agree (len : Nat) :
    getMatVarSize len = (getPowerOfTwo len).bind Gen.mat_var_size_rule := by
  unfold getMatVarSize Gen.mat_var_size_rule
  cases getPowerOfTwo len with
  | none => rfl
  | some i => simp [Nat.shiftRight_eq_div_pow]

end Qmc.PureFnsAgree
