/-
Agreement of `QmcModel/Cluster.lean` with the definitions translated from the Rust source
(`QmcModel/Generated/PureFns.lean`).  Separate from `PureFnsAgree.lean` only because `QmcModel/Cluster.lean` and
`QmcModel/Interaction.lean` both declare `Qmc.absR` and cannot be imported into one file.  Re-checked on every run
by `checks/pure_fns.py`; see design_notes/Translator.md.
-/
import QmcModel.Generated.PureFns
import QmcModel.Cluster

namespace Qmc.PureFnsAgreeCluster

open Qmc

theorem fabs_agree : Gen.fabs = absR := rfl

/-- Cluster.lean `isingFrozen` (the frozen predicate of C09 / the kernel-invariance proofs) = "the translated
cluster-weight closure returns 0.0 on this operator's bond" -/
theorem isingFrozen_agree (nedges nvars : Nat) (o : SkOp) :
    isingFrozen nedges nvars o = decide (Gen.cluster_weight_timestep o.bond nedges nvars = 0) := by
  unfold isingFrozen Gen.cluster_weight_timestep
  by_cases h : nedges + nvars ≤ o.bond <;> simp [h]

/-- … and for the copy in `single_cluster_step` -/
theorem isingFrozen_agree_single_cluster_step (nedges nvars : Nat) (o : SkOp) :
    isingFrozen nedges nvars o = decide (Gen.cluster_weight_single_cluster_step o.bond nedges nvars = 0) :=
  isingFrozen_agree nedges nvars o

/-- Cluster.lean `freeRefresh`: the draw of a variable without operators uses the translated probability -/
theorem freeRefresh_agree (sk : Skel) (v : Nat) (x : Bool) (xs : List Bool) (s : RS) :
    freeRefresh sk v (x :: xs) s =
      (if varHasOp sk v then
        (let rest := freeRefresh sk (v + 1) xs s
         (x :: rest.1, rest.2))
      else
        (let r := s.genBool Gen.free_refresh_prob_single_cluster_step
         let rest := freeRefresh sk (v + 1) xs r.2
         (r.1 :: rest.1, rest.2))) := by
  rw [freeRefresh]
  rfl

/-- Cluster.lean `twoSiteW` -/
theorem twoSiteW_agree (J : Rat) (a b c d : Bool) :
    twoSiteW J [a, b] [c, d] = Gen.two_site_hamiltonian (a, b) (c, d) J := by
  cases a <;> cases b <;> cases c <;> cases d <;> simp [twoSiteW, Gen.two_site_hamiltonian, fabs_agree]

/-- Cluster.lean `transverseW` -/
theorem transverseW_agree (g : Rat) (i o : Bool) :
    transverseW g [i] [o] = Gen.transverse_hamiltonian i o g := rfl

/-- Cluster.lean `longitudinalW`: agrees with the source on the diagonal (off the diagonal this copy still has `|h|`,
the source returns 0 since 9464564; no sampler path reads those entries) -/
theorem longitudinalW_agree_diag (h : Rat) (i : Bool) :
    longitudinalW h [i] [i] = Gen.longitudinal_hamiltonian i i h := by
  cases i <;> simp [longitudinalW, Gen.longitudinal_hamiltonian, fabs_agree, Rat.sub_eq_add_neg]

/-- Cluster.lean `isingClusterHam`: variables and constant flag of a bond are the translated `bonds_fn` -/
theorem bonds_fn_agree_isingClusterHam (edges : List (List Nat × Rat)) (g h : Rat) (nvars b : Nat)
    :
    (isingClusterHam edges g h nvars).vars b =
        (if (Gen.bonds_fn_timestep b edges.length nvars).1.1
         then [(Gen.bonds_fn_timestep b edges.length nvars).2]
         else (edges[(Gen.bonds_fn_timestep b edges.length nvars).2]?.map (·.1)).getD []) ∧
      (isingClusterHam edges g h nvars).const b = (Gen.bonds_fn_timestep b edges.length nvars).1.2 := by
  unfold isingClusterHam Gen.bonds_fn_timestep
  by_cases h1 : b < edges.length
  · simp [h1]
    try omega
  · by_cases h2 : b < edges.length + nvars
    · simp [h1, h2]
      try omega
    · simp [h1, h2]
      try omega

end Qmc.PureFnsAgreeCluster
