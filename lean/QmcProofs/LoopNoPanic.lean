/-
Panic-freedom of the directed-loop model on legal input: for non-negative weights, well-formed
ops with at least one variable and strictly positive stored matrix elements, no branch of
`loopUpdate` that models a panic of the implementation (`gen_range` on an empty range, `unwrap`
on a missing node / exit / link) is ever taken. Hence the only way a modelled loop does not
close is an exhausted script (`short`) — which the real, unbounded RNG never produces.
-/
import QmcProofs.LoopSingleSite

namespace Qmc.LoopC
open Qmc

theorem noteMargin_flags (rs : RS) (m : Rat) :
    (rs.noteMargin m).panicked = rs.panicked ∧ (rs.noteMargin m).short = rs.short := by
  unfold RS.noteMargin
  simp only
  repeat' split
  all_goals exact ⟨rfl, rfl⟩

theorem genRangeLoop_panicked (range zone fuel : Nat) (s : RS) :
    (RS.genRangeLoop range zone fuel s).2.panicked = s.panicked := by
  induction fuel generalizing s with
  | zero => rfl
  | succ f ih =>
    unfold RS.genRangeLoop
    simp only
    split
    · exact (next_flags s).1
    · split
      · exact (next_flags s).1
      · rw [ih]; exact (next_flags s).1

theorem genRange_panicked (s : RS) (n : Nat) (hn : n ≠ 0) : (s.genRange n).2.panicked = s.panicked := by
  unfold RS.genRange
  rw [if_neg hn]
  exact genRangeLoop_panicked _ _ _ _

/-- the real draw on a non-empty range: no panic, `0 ≤ c < t` -/
theorem genRangeF_pos (s : RS) (t : Rat) (ht : 0 < t) :
    (s.genRangeF t).2.panicked = s.panicked ∧ (s.genRangeF t).1 < t := by
  unfold RS.genRangeF
  rw [if_neg (not_le.mpr ht)]
  refine ⟨(next_flags s).1, ?_⟩
  simp only
  have hv : s.next.1 / 2 ^ 12 < 2 ^ 52 := by
    rw [Nat.div_lt_iff_lt_mul (by norm_num)]
    have := next_lt s
    simp only [RS.two64] at this
    omega
  have h1 : ((s.next.1 / 2 ^ 12 : Nat) : Rat) / ((2 ^ 52 : Nat) : Rat) < 1 := by
    have hb : (0 : Rat) < ((2 ^ 52 : Nat) : Rat) := by exact_mod_cast (by norm_num : 0 < 2 ^ 52)
    rw [div_lt_iff₀ hb, one_mul]
    exact_mod_cast hv
  calc ((s.next.1 / 2 ^ 12 : Nat) : Rat) / ((2 ^ 52 : Nat) : Rat) * t < 1 * t :=
        mul_lt_mul_of_pos_right h1 ht
    _ = t := one_mul t

theorem exitTotal_pos (W : List Bool → List Bool → Rat) (hW : ∀ a b, 0 ≤ W a b)
    (io : List Bool × List Bool) (i : Leg) (k : Nat) (hi : i.rel < k) (hpos : 0 < W io.1 io.2) :
    0 < sumR (exitWeights W io i k) ∧ ∀ x ∈ exitWeights W io i k, 0 ≤ x := by
  have hmem : exitWeight W io i i ∈ exitWeights W io i k :=
    List.mem_map.mpr ⟨i, (mem_legsOf k i).mpr hi, rfl⟩
  have hnn : ∀ x ∈ exitWeights W io i k, 0 ≤ x := by
    intro x hx
    obtain ⟨l, _, rfl⟩ := List.mem_map.mp hx
    exact hW _ _
  have := sumR_ge_mem _ hnn _ hmem
  rw [exitWeight_bounce] at this
  exact ⟨lt_of_lt_of_le hpos this, hnn⟩

/-- the exit leg always is linked to something: the visited op itself acts on the variable -/
theorem moveOn_some (slots : Slots) (st : List Bool) (pos : Nat) (op op' : Op) (ex : Leg)
    (hop : slots[pos]? = some (some op)) (hv : op'.vars = op.vars) (hr : ex.rel < op.vars.length) :
    ∃ q, (moveOn slots st pos op' ex).2 = some q := by
  have hvv : op'.vars.getD ex.rel 0 = op.vars[ex.rel] := by
    rw [hv]; simp [List.getD, List.getElem?_eq_getElem hr]
  obtain ⟨r, hr'⟩ := occV_of_touch slots op.vars[ex.rel] pos op hop (List.getElem_mem hr)
  have hne : occV slots op.vars[ex.rel] ≠ [] := List.ne_nil_of_mem hr'
  unfold moveOn
  simp only [hvv]
  split
  · split
    · exact ⟨_, rfl⟩
    · simp only [firstForVar]
      cases h : occV slots op.vars[ex.rel] with
      | nil => exact absurd h hne
      | cons a t => exact ⟨a, rfl⟩
  · split
    · exact ⟨_, rfl⟩
    · simp only [lastForVar]
      cases h : (occV slots op.vars[ex.rel]).getLast? with
      | none => exact absurd (List.getLast?_eq_none_iff.mp h) hne
      | some a => exact ⟨a, rfl⟩

theorem loopBody_no_panic (w : Nat → List Bool → List Bool → Rat) (hW : ∀ b i o, 0 ≤ w b i o)
    (init : Nat × Leg) (pos : Nat) (ent : Leg) (s : LoopSt) (hlegal : LegalSlots w s.slots)
    (hh : HeadOK s.slots pos ent) (hp : s.rs.panicked = false) :
    (loopBody w init pos ent s).1.rs.panicked = false := by
  obtain ⟨op, hop, hent⟩ := hh
  have hmem : some op ∈ s.slots := List.mem_of_getElem? hop
  obtain ⟨htot, hnn⟩ := exitTotal_pos (w op.bond) (hW op.bond) (op.ins, op.outs) ent op.vars.length hent
    (hlegal op hmem)
  obtain ⟨hgp, hlt⟩ := genRangeF_pos s.rs _ htot
  have hc0 := genRangeF_nonneg s.rs (sumR (exitWeights (w op.bond) (op.ins, op.outs) ent op.vars.length))
  unfold loopBody
  simp only [hop]
  split
  · simp only; rw [hgp]; exact hp
  · split
    · rename_i hpick
      obtain ⟨j, hj⟩ := pickIdx_total _ hnn _ hc0 hlt
      rw [hj] at hpick; cases hpick
    · rename_i j hj
      have hjl := pickIdx_lt hj
      simp only [exitWeights, List.length_map] at hjl
      have hleg : (legsOf op.vars.length).getD j default = (legsOf op.vars.length)[j] := by
        simp [List.getD, List.getElem?_eq_getElem hjl]
      have hrel : ((legsOf op.vars.length).getD j default).rel < op.vars.length := by
        rw [hleg]; exact (mem_legsOf _ _).mp (List.getElem_mem hjl)
      have hrs : (if (s.rs.genRangeF (sumR (exitWeights (w op.bond) (op.ins, op.outs) ent op.vars.length))).1 = 0
          then (s.rs.genRangeF (sumR (exitWeights (w op.bond) (op.ins, op.outs) ent op.vars.length))).2
          else (s.rs.genRangeF (sumR (exitWeights (w op.bond) (op.ins, op.outs) ent op.vars.length))).2.noteMargin
            (pickMargin (s.rs.genRangeF (sumR (exitWeights (w op.bond) (op.ins, op.outs) ent op.vars.length))).1
              (exitWeights (w op.bond) (op.ins, op.outs) ent op.vars.length) /
              sumR (exitWeights (w op.bond) (op.ins, op.outs) ent op.vars.length))).panicked = false := by
        split
        · rw [hgp]; exact hp
        · rw [(noteMargin_flags _ _).1, hgp]; exact hp
      split
      · exact hrs
      · split
        · split <;> exact hrs
        · rename_i st' hmv
          obtain ⟨q, hq⟩ := moveOn_some s.slots s.state pos op
            (passThrough op ent ((legsOf op.vars.length).getD j default))
            ((legsOf op.vars.length).getD j default) hop (passThrough_fields _ _ _).1 hrel
          rw [hmv] at hq; cases hq

theorem loopIter_no_panic (w : Nat → List Bool → List Bool → Rat) (hW : ∀ b i o, 0 ≤ w b i o)
    (init : Nat × Leg) (fuel pos : Nat) (ent : Leg) (s : LoopSt) {sk n}
    (hinv : LoopInv w sk n s.slots s.state) (hh : HeadOK s.slots pos ent)
    (hp : s.rs.panicked = false) : (loopIter w init fuel pos ent s).rs.panicked = false := by
  induction fuel generalizing pos ent s with
  | zero => exact hp
  | succ f ih =>
    have h1 := loopBody_no_panic w hW init pos ent s hinv.legal hh hp
    have h2 := loopBody_inv w init pos ent s hinv
    have h3 := loopBody_head w init pos ent s
    unfold loopIter
    split
    · rename_i s' heq; rw [heq] at h1; exact h1
    · rename_i s' p e heq
      rw [heq] at h1 h2 h3
      exact ih p e s' h2 (h3 p e rfl) h1

theorem totalVars_ne_zero (slots : Slots) (hk : ∀ o, some o ∈ slots → o.vars ≠ [])
    (hn : countOps slots ≠ 0) : totalVars slots ≠ 0 := by
  induction slots with
  | nil => simp [countOps] at hn
  | cons x t ih =>
    cases x with
    | none =>
      simp only [totalVars]
      exact ih (fun o ho => hk o (List.mem_cons_of_mem _ ho)) (by simpa [countOps] using hn)
    | some o =>
      simp only [totalVars]
      have := hk o (List.mem_cons_self ..)
      have : o.vars.length ≠ 0 := fun h => this (List.length_eq_zero_iff.mp h)
      omega

theorem loopStart_no_panic (slots : Slots) (rs : RS) (hk : ∀ o, some o ∈ slots → o.vars ≠ [])
    (hn : countOps slots ≠ 0) (hp : rs.panicked = false) : (loopStart slots rs).2.panicked = false := by
  have ht := totalVars_ne_zero slots hk hn
  obtain ⟨⟨p, b⟩, hq⟩ := pickLeg_total slots 0 _ (genRange_lt rs (totalVars slots) ht)
  have e : ∀ s : RS, s.genStdBool.2 = s.next.2 := fun s => rfl
  have hfin : ((rs.genRange (totalVars slots)).2.genStdBool).2.panicked = false := by
    rw [e, (next_flags _).1, genRange_panicked _ _ ht]; exact hp
  unfold loopStart
  simp only [hq]
  split <;> exact hfin

/-- **No modelled panic on legal input.** -/
theorem loopUpdate_no_panic (w : Nat → List Bool → List Bool → Rat) (hW : ∀ b i o, 0 ≤ w b i o)
    (cfg : Config) (rs : RS) (hwf : WFSlots cfg.slots) (hlegal : LegalSlots w cfg.slots)
    (hk : ∀ o, some o ∈ cfg.slots → o.vars ≠ []) (hp : rs.panicked = false) :
    (loopUpdate w cfg rs).2.panicked = false := by
  unfold loopUpdate
  split
  · exact hp
  · rename_i hn
    have hs := loopStart_no_panic cfg.slots rs hk hn hp
    split
    · rename_i rs' heq; rw [heq] at hs; exact hs
    · rename_i p leg rs' heq
      rw [heq] at hs
      exact loopIter_no_panic w hW (p, leg) _ p leg _ (sk := skeletonOf cfg.slots)
        (n := cfg.state.length) ⟨rfl, hwf, hlegal, rfl⟩ (loopStart_head _ _ _ _ _ heq) hs

end Qmc.LoopC
