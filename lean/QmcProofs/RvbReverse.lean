import QmcProofs.RvbHam
import QmcProofs.KernelInvarianceCutGood

/-!
# The RVB move relation is symmetric on legal configurations, and keeps them legal

* `rvbMove_reverse`: `RvbMove E b a R → Legal (isingHam E) b → RvbMove E a b R` — from the new
  configuration the same region admits the move back (the rotatable operators return to bonds that are
  satisfied after flipping back, because they sat on bonds of positive weight).
* `rvbMove_good`: `RvbMove E b a R → GoodN (isingHam E) N b → GoodN (isingHam E) N a` (terms of the
  Hamiltonian, canonical tags, well-formedness, positive weights, consistency, number of variables).
* `RegionOK` (toggles sit at constant operators; every variable ever inside the region and both ends
  of every non-zero edge touching it are listed in `subvars`) and its transfer along a move.
-/

namespace Qmc.Rvb.Kernel
open Qmc Qmc.Rvb Qmc.Rvb.ExtractFlip

/-! ## list facts -/

theorem xorL_inj {a b m : List Bool} (ha : a.length = m.length) (hb : b.length = m.length)
    (h : xorL a m = xorL b m) : a = b := by
  rw [← xorL_xorL a m ha, h, xorL_xorL b m hb]

theorem getB_of_getElem? {l : List Bool} {i : Nat} {x : Bool} (h : l[i]? = some x) : getB l i = x := by
  unfold getB; rw [List.getD_eq_getElem?_getD, h]; rfl

theorem lt_of_getElem?_some {α} {l : List α} {i : Nat} {x : α} (h : l[i]? = some x) : i < l.length := by
  by_contra hc
  rw [List.getElem?_eq_none (by omega)] at h; cases h

/-- a two-variable operator whose inputs match the state records the state of its variables -/
theorem ins_of_match {st : List Bool} {o : Op} {u v : Nat} (hv : o.vars = [u, v])
    (hl : o.ins.length = o.vars.length) (hin : inputsMatch st o = true) :
    o.ins = [getB st u, getB st v] ∧ u < st.length ∧ v < st.length := by
  rw [hv] at hl
  unfold inputsMatch at hin
  rw [hv] at hin
  match hio : o.ins, hl with
  | [x, y], _ =>
    rw [hio] at hin
    simp only [List.zip_cons_cons, List.zip_nil_right, List.all_cons, List.all_nil, Bool.and_true,
      Bool.and_eq_true, beq_iff_eq] at hin
    exact ⟨by rw [getB_of_getElem? hin.1, getB_of_getElem? hin.2], lt_of_getElem?_some hin.1,
      lt_of_getElem?_some hin.2⟩

/-- weight of a diagonal edge operator = the boundary weight of its bond -/
theorem opW_edge {E : Ising} {o : Op} {u v : Nat} {j : Rat} {st : List Bool}
    (he : E.edges[o.bond]? = some (u, v, j)) (hio : o.outs = o.ins) (hins : o.ins = [getB st u, getB st v]) :
    E.opW o = twoSite j (getB st u) (getB st v) := by
  have hb := lt_of_getElem?_some he
  have hg : E.edges.getD o.bond (0, 0, 0) = (u, v, j) := by
    rw [List.getD_eq_getElem?_getD, he]; rfl
  unfold Ising.opW Ising.w
  rw [if_pos hb, hio, if_pos rfl, hg, hins]
  rfl

theorem opW_pos_of_legalFor {E : Ising} {o : Op} (h : o.LegalFor (isingHam E)) : 0 < E.opW o := by
  obtain ⟨-, l2, -, -, l5, l6⟩ := h
  rw [← isingHam_w E o l2 l5.1 l5.2.1]; exact l6

theorem tag_of_canon {o : Op} (h : o.tagDiag = true ↔ o.ins = o.outs) : o.tagDiag = (o.ins == o.outs) := by
  cases ht : o.tagDiag with
  | true => rw [h.1 ht]; simp
  | false =>
    have : ¬ o.ins = o.outs := fun e => by rw [h.2 e] at ht; cases ht
    simp [this]

/-! ## the reverse move -/

/-- **the walk can be read backwards**: exchanging the two operator strings and starting from the
flipped state is again a walk of the move relation, provided the operators of the first string are
legal (positive weight, canonical tags, on their bond's variables) -/
theorem Steps.reverse {E : Ising} {p st mask tog s s' m t} (h : Steps E p st mask tog s s' m t)
    (hl : st.length = mask.length) (hleg : ∀ o, some o ∈ s → o.LegalFor (isingHam E)) :
    Steps E p (xorL st mask) mask tog s' s m t := by
  induction h with
  | nil p st mask tog => exact Steps.nil ..
  | skip _ _ _ _ _ _ _ _ _ ih =>
    exact Steps.skip _ _ _ _ _ _ _ _ (ih hl (fun o ho => hleg o (List.mem_cons_of_mem _ ho)))
  | rebond p st mask tog o o' s s' m t hin hb hr _ ih =>
    have hL := hleg o (by simp)
    have hok := opOK_of_legalFor hL
    have hpos := opW_pos_of_legalFor hL
    have hxl : (xorL st mask).length = st.length := xorL_length st mask hl
    obtain ⟨⟨b0, wb0, wa0⟩, hx, hxb⟩ := hb
    simp only at hxb
    subst hxb
    obtain ⟨u, v, j, he, hm, hwb, hwa⟩ := mem_boundary hx
    have hvars : o.vars = [u, v] := hok.2.1 u v j he
    obtain ⟨hins, hu, hv⟩ := ins_of_match hvars hL.2.2.2.2.1.1 hin
    have hwm : writeVars st o.vars o.outs = st := by
      rw [hr.oldDiag.2]
      exact writeVars_matched st o.vars o.ins (by simpa [inputsMatch] using hin)
    have hne : u ≠ v := by
      have := hL.2.2.2.2.1.2.2.1
      rw [hvars] at this
      simpa using this
    have hwpos : 0 < wb0 := by rw [hwb, ← opW_edge he hr.oldDiag.2 hins]; exact hpos
    obtain ⟨b1, wb1, wa1, u1, v1, j1, hx1, hb1, hg1, hwa1, huv1, hvars1, hins1, hu1, hv1⟩ := hr.target
    have him : inputsMatch (xorL st mask) o' = true := by
      unfold inputsMatch
      rw [hvars1, hins1]
      simp only [List.zip_cons_cons, List.zip_nil_right, List.all_cons, List.all_nil, Bool.and_true,
        Bool.and_eq_true, beq_iff_eq]
      unfold getB
      constructor
      · rw [List.getD_eq_getElem?_getD, List.getElem?_eq_getElem (by omega)]; rfl
      · rw [List.getD_eq_getElem?_getD, List.getElem?_eq_getElem (by omega)]; rfl
    have hw' : writeVars (xorL st mask) o'.vars o'.outs = xorL st mask := by
      rw [hr.newDiag.1]
      exact writeVars_matched _ _ _ (by simpa [inputsMatch] using him)
    have hbx := boundary_xor E st mask hl
    have hg : E.edges.getD o.bond (0, 0, 0) = (u, v, j) := by
      rw [List.getD_eq_getElem?_getD, he]; rfl
    refine Steps.rebond p _ mask tog o' o s' s m t him ?_ ?_ ?_
    · exact ⟨(b1, wa1, wb1), by rw [hbx]; exact List.mem_map.2 ⟨(b1, wb1, wa1), hx1, rfl⟩, hb1.symm⟩
    · refine ⟨⟨hr.newDiag.2.1, hr.newDiag.1⟩,
        ⟨o.bond, wa0, wb0, u, v, j, ?_, rfl, hg, hwpos, hne, hvars, ?_, by omega, by omega⟩,
        ⟨hr.oldDiag.2, hr.oldDiag.1, hr.newDiag.2.2.symm⟩, hpos⟩
      · rw [hbx]; exact List.mem_map.2 ⟨(o.bond, wb0, wa0), hx, rfl⟩
      · rw [xorL_xorL st mask hl]; exact hins
    · rw [hw']
      have := ih (by rw [hwm]; exact hl) (fun o ho => hleg o (List.mem_cons_of_mem _ ho))
      rwa [hwm] at this
  | flip p st mask tog o o' s s' m t isTog mask2 hin hnb hT c1 c2 hnd hli hlo ho' _ _ ih =>
    have hL := hleg o (by simp)
    have hpos := opW_pos_of_legalFor hL
    have hvars : o'.vars = o.vars := by rw [ho']; rfl
    have hbond : o'.bond = o.bond := by rw [ho']; rfl
    have hconst : o'.const = o.const := by rw [ho']; rfl
    have hins : o'.ins = xorL o.ins (o.vars.map (getB mask)) := by rw [ho']; rfl
    have houts : o'.outs = xorL o.outs (o.vars.map (getB mask2)) := by rw [ho']; rfl
    have hm2 : mask2.length = mask.length := by
      cases hc : isTog with
      | true => obtain ⟨_, v, _, hm⟩ := c1 hc; rw [hm, toggleAt_length]
      | false => rw [(c2 hc).1]
    have hoff : ∀ i, i ∉ o.vars → getB mask2 i = getB mask i := by
      intro i hi
      cases hc : isTog with
      | true =>
        obtain ⟨_, v, hv, hm⟩ := c1 hc
        rw [hm]
        apply getB_toggleAt_ne
        intro e; apply hi; rw [hv, e]; simp
      | false => rw [(c2 hc).1]
    have hmatch : ((o.vars.zip o.ins).all fun vb => st[vb.1]? == some vb.2) = true := by
      simpa [inputsMatch] using hin
    have hW : writeVars (xorL st mask) o'.vars o'.outs = xorL (writeVars st o.vars o.outs) mask2 := by
      rw [hvars, houts]; exact ExtractFlip.writeVars_xor _ _ _ _ _ hl hm2 hnd hlo hoff
    have hl2 : (writeVars st o.vars o.outs).length = mask2.length := by rw [writeVars_length, hm2, hl]
    have him : inputsMatch (xorL st mask) o' = true := by
      unfold inputsMatch
      rw [hvars, hins]
      exact inputsMatch_xor st mask hl o.vars o.ins hli hmatch
    have hli' : o'.ins.length = o'.vars.length := by
      rw [hins, hvars, xorL_length _ _ (by simp [hli])]; exact hli
    have hlo' : o'.outs.length = o'.vars.length := by
      rw [houts, hvars, xorL_length _ _ (by simp [hlo])]; exact hlo
    have hback : o = xorOp o' mask mask2 isTog := by
      have e1 : xorL o'.ins (o'.vars.map (getB mask)) = o.ins := by
        rw [hins, hvars]; exact xorL_xorL _ _ (by simp [hli])
      have e2 : xorL o'.outs (o'.vars.map (getB mask2)) = o.outs := by
        rw [houts, hvars]; exact xorL_xorL _ _ (by simp [hlo])
      have e3 : (if isTog = true then (o.ins == o.outs) else o'.tagDiag) = o.tagDiag := by
        cases hc : isTog with
        | false => simp only [Bool.false_eq_true, if_false]; rw [ho', hc]; rfl
        | true => simp only [if_true]; exact (tag_of_canon hL.2.2.2.1).symm
      unfold xorOp
      simp only [e1, e2, e3]
      cases o with
      | mk vars bond ins outs tag cst =>
        simp only at hvars hbond hconst
        rw [hvars, hbond, hconst]
    refine Steps.flip p _ mask tog o' o s' s m t isTog mask2 him ?_ hT ?_ ?_ (hvars ▸ hnd) hli' hlo' hback hpos ?_
    · intro hb'
      apply hnb
      obtain ⟨x, hx, e⟩ := hb'
      rw [boundary_xor E st mask hl] at hx
      obtain ⟨y, hy, rfl⟩ := List.mem_map.1 hx
      exact ⟨y, hy, by rw [← hbond]; exact e⟩
    · intro hc
      obtain ⟨h1, v, h2, h3⟩ := c1 hc
      exact ⟨by rw [hconst]; exact h1, v, by rw [hvars]; exact h2, h3⟩
    · intro hc; rw [hvars]; exact c2 hc
    · rw [hW]
      exact ih hl2 (fun o ho => hleg o (List.mem_cons_of_mem _ ho))

/-- **the RVB move relation is symmetric on legal configurations** -/
theorem rvbMove_reverse {E : Ising} {b a : Config} {R : Region} (h : RvbMove E b a R)
    (hleg : Qmc.Legal (isingHam E) b) : RvbMove E a b R := by
  obtain ⟨h1, h2, h3⟩ := h
  have hs := Steps.reverse h3 h2 hleg
  refine ⟨?_, by rw [h1, xorL_length _ _ h2]; exact h2, ?_⟩
  · rw [h1, xorL_xorL _ _ h2]
  · rw [h1]; exact hs

/-! ## legality is preserved -/

theorem isingHam_nbonds (E : Ising) : (isingHam E).nbonds = E.edges.length + 2 * E.nvars := by
  simp [isingHam, isingEdges, isingClusterHam]

theorem isingHam_const_edge (E : Ising) (b : Nat) (h : b < E.edges.length) : (isingHam E).const b = false := by
  simp only [isingHam, isingEdges, isingClusterHam, List.length_map, decide_eq_false_iff_not]
  omega

/-- every operator of the new string is legal for the Ising Hamiltonian -/
theorem Steps.legalFor {E : Ising} {p st mask tog s s' m t} (h : Steps E p st mask tog s s' m t)
    (hleg : ∀ o, some o ∈ s → o.LegalFor (isingHam E)) : ∀ o', some o' ∈ s' → o'.LegalFor (isingHam E) := by
  induction h with
  | nil => intro o' ho; simp at ho
  | skip _ _ _ _ _ _ _ _ _ ih =>
    intro o' ho
    rcases List.mem_cons.1 ho with e | e
    · cases e
    · exact ih (fun o ho => hleg o (List.mem_cons_of_mem _ ho)) o' e
  | rebond p st mask tog o o' s s' m t hin hb hr _ ih =>
    intro o'' ho
    rcases List.mem_cons.1 ho with e | e
    · injection e with e; subst e
      have hL := hleg o (by simp)
      obtain ⟨b1, wb1, wa1, u, v, j, hx1, hb1, hg1, -, huv, hvars1, hins1, -, -⟩ := hr.target
      obtain ⟨u2, v2, j2, he2, -, -, -⟩ := mem_boundary hx1
      have hg2 : E.edges.getD b1 (0, 0, 0) = (u2, v2, j2) := by
        rw [List.getD_eq_getElem?_getD, he2]; rfl
      rw [hg1] at hg2
      injection hg2 with e1 e2
      injection e2 with e2 e3
      subst e1 e2 e3
      rw [← hb1] at he2
      have hlt := lt_of_getElem?_some he2
      have hvv : o''.vars = (isingHam E).vars o''.bond := by
        rw [isingHam_vars_edge E _ _ _ _ he2]; exact hvars1
      have hli : o''.ins.length = o''.vars.length := by rw [hvars1, hins1]; rfl
      have hlo : o''.outs.length = o''.vars.length := by rw [hr.newDiag.1]; exact hli
      refine ⟨by rw [isingHam_nbonds]; omega, hvv, ?_, ?_, ⟨hli, hlo, ?_, fun _ => hr.newDiag.1⟩, ?_⟩
      · rw [hr.newDiag.2.2, hL.2.2.1, isingHam_const_edge E _ hlt,
          isingHam_const_edge E _ (onBoundary_lt hb)]
      · exact ⟨fun _ => hr.newDiag.1.symm, fun _ => hr.newDiag.2.1⟩
      · rw [hvars1]; simp [huv]
      · rw [isingHam_w E o'' hvv hli hlo]; exact hr.pos
    · exact ih (fun o ho => hleg o (List.mem_cons_of_mem _ ho)) o'' e
  | flip p st mask tog o o' s s' m t isTog mask2 hin hnb hT c1 c2 hnd hli hlo ho' hpos _ ih =>
    intro o'' ho
    rcases List.mem_cons.1 ho with e | e
    · injection e with e; subst e
      have hL := hleg o (by simp)
      have hvars : o''.vars = o.vars := by rw [ho']; rfl
      have hbond : o''.bond = o.bond := by rw [ho']; rfl
      have hconst : o''.const = o.const := by rw [ho']; rfl
      have hins : o''.ins = xorL o.ins (o.vars.map (getB mask)) := by rw [ho']; rfl
      have houts : o''.outs = xorL o.outs (o.vars.map (getB mask2)) := by rw [ho']; rfl
      have hli' : o''.ins.length = o''.vars.length := by
        rw [hins, hvars, xorL_length _ _ (by simp [hli])]; exact hli
      have hlo' : o''.outs.length = o''.vars.length := by
        rw [houts, hvars, xorL_length _ _ (by simp [hlo])]; exact hlo
      have hvv : o''.vars = (isingHam E).vars o''.bond := by rw [hvars, hbond]; exact hL.2.1
      have htag : o''.tagDiag = true ↔ o''.ins = o''.outs := by
        cases hc : isTog with
        | true =>
          have : o''.tagDiag = (o''.ins == o''.outs) := by rw [ho', hc]; rfl
          rw [this]; simp
        | false =>
          have ht : o''.tagDiag = o.tagDiag := by rw [ho', hc]; rfl
          have hm : mask2 = mask := (c2 hc).1
          rw [ht, hL.2.2.2.1, hins, houts, hm]
          constructor
          · intro e; rw [e]
          · intro e; exact xorL_inj (by simp [hli]) (by simp [hlo]) e
      refine ⟨by rw [hbond]; exact hL.1, hvv, by rw [hconst, hbond]; exact hL.2.2.1, htag,
        ⟨hli', hlo', by rw [hvars]; exact hnd, fun ht => (htag.1 ht).symm⟩, ?_⟩
      rw [isingHam_w E o'' hvv hli' hlo']; exact hpos
    · exact ih (fun o ho => hleg o (List.mem_cons_of_mem _ ho)) o'' e

/-- **an RVB move of a Good configuration is Good** (consistent world lines — C06 —, operators that
are terms of the Hamiltonian with canonical tag and positive weight — C07 —, same number of variables) -/
theorem rvbMove_good {E : Ising} {N : Nat} {b a : Config} {R : Region} (h : RvbMove E b a R)
    (hb : Qmc.Kernel.GoodN (isingHam E) N b) : Qmc.Kernel.GoodN (isingHam E) N a := by
  refine ⟨?_, h.consistent hb.2.1, fun o ho => Steps.legalFor h.2.2 hb.2.2 o ho⟩
  rw [h.1, xorL_length _ _ h.2.1]; exact hb.1

/-! ## well-formed regions -/

/-- `v` is inside the region at `p = 0`, or a variable of the operator at a toggle position -/
def EverIn (c : Config) (R : Region) (v : Nat) : Prop :=
  getB R.mask0 v = true ∨ ∃ p ∈ R.toggles, ∃ o, c.slots[p]? = some (some o) ∧ v ∈ o.vars

/-- what the code's proposal guarantees about the region it hands to `calculate_flip_prob`
(`subvars` = cluster ∪ boundary variables): the membership toggles at constant operators; every
variable that is ever inside, and both ends of every edge of non-zero coupling touching such a
variable, are listed in `subvars` (edges with `J = 0` are skipped when the cluster grows — F21 —
and contribute weight 0 whatever the state). -/
structure RegionOK (E : Ising) (c : Config) (R : Region) : Prop where
  tog : ∀ p ∈ R.toggles, ∀ o, c.slots[p]? = some (some o) → o.const = true
  cov : ∀ v, EverIn c R v → v ∈ R.subvars
  nbr : ∀ e ∈ E.edges, e.2.2 ≠ 0 → (EverIn c R e.1 ∨ EverIn c R e.2.1) →
    e.1 ∈ R.subvars ∧ e.2.1 ∈ R.subvars

theorem RegionOK.covered {E : Ising} {c : Config} {R : Region} (h : RegionOK E c R) : Covered c R := by
  refine ⟨fun v hv => h.cov v (Or.inl hv), ?_⟩
  intro k o hk hp v hv
  exact h.cov v (Or.inr ⟨k, by simpa using hp, o, hk, hv⟩)

/-- slot by slot, the move keeps the constant flag, and the variables of constant operators -/
theorem Steps.pointwise {E : Ising} {p st mask tog s s' m t} (h : Steps E p st mask tog s s' m t)
    (hok : OpsOK E s) : ∀ (k : Nat) (o' : Op), s'[k]? = some (some o') →
      ∃ o : Op, s[k]? = some (some o) ∧ o'.const = o.const ∧ (o.const = true → o'.vars = o.vars) := by
  induction h with
  | nil => intro k o' hk; simp at hk
  | skip _ _ _ _ _ _ _ _ _ ih =>
    intro k o' hk
    cases k with
    | zero => simp at hk
    | succ k => simpa using ih hok.tail k o' (by simpa using hk)
  | rebond p st mask tog o o' s s' m t _ hb hr _ ih =>
    intro k o'' hk
    cases k with
    | zero =>
      simp only [List.getElem?_cons_zero, Option.some.injEq] at hk
      subst hk
      have hc : o.const = false := by
        cases hcc : o.const with
        | false => rfl
        | true =>
          have := ((hok o (by simp)).2.2 hcc).1
          have := onBoundary_lt hb
          omega
      exact ⟨o, rfl, hr.newDiag.2.2, fun h => by rw [hc] at h; cases h⟩
    | succ k => simpa using ih hok.tail k o'' (by simpa using hk)
  | flip p st mask tog o o' s s' m t _ _ _ _ _ _ _ _ _ _ ho' _ _ ih =>
    intro k o'' hk
    cases k with
    | zero =>
      simp only [List.getElem?_cons_zero, Option.some.injEq] at hk
      subst hk
      exact ⟨o, rfl, by rw [ho']; rfl, fun _ => by rw [ho']; rfl⟩
    | succ k => simpa using ih hok.tail k o'' (by simpa using hk)

theorem everIn_of_move {E : Ising} {b a : Config} {R : Region} (h : RvbMove E b a R) (hok : OpsOK E b.slots)
    (hR : RegionOK E b R) (v : Nat) (hv : EverIn a R v) : EverIn b R v := by
  rcases hv with hv | ⟨p, hp, o', ho', hvo⟩
  · exact Or.inl hv
  · obtain ⟨o, ho, -, hvars⟩ := Steps.pointwise h.2.2 hok p o' ho'
    exact Or.inr ⟨p, hp, o, ho, by rw [← hvars (hR.tog p hp o ho)]; exact hvo⟩

/-- a region that is well formed for `b` is well formed for every RVB move of `b` on it -/
theorem regionOK_of_move {E : Ising} {b a : Config} {R : Region} (h : RvbMove E b a R)
    (hok : OpsOK E b.slots) (hR : RegionOK E b R) : RegionOK E a R := by
  refine ⟨?_, fun v hv => hR.cov v (everIn_of_move h hok hR v hv), ?_⟩
  · intro p hp o' ho'
    obtain ⟨o, ho, hc, -⟩ := Steps.pointwise h.2.2 hok p o' ho'
    rw [hc]; exact hR.tog p hp o ho
  · intro e he hj hin
    exact hR.nbr e he hj (hin.imp (everIn_of_move h hok hR _) (everIn_of_move h hok hR _))

end Qmc.Rvb.Kernel
