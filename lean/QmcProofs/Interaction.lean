import QmcModel.Interaction
import Mathlib.Tactic.Ring
import Mathlib.Tactic.Linarith
import Mathlib.Tactic.NormNum
import Mathlib.Algebra.Order.Field.Rat
import Mathlib.Data.List.Nodup

namespace Qmc

theorem shiftCount_pos (x : Nat) (h : 0 < x) : shiftCount x = shiftCount (x / 2) + 1 := by
  cases x with
  | zero => omega
  | succ y => rw [shiftCount]

theorem shiftCount_two_pow (k : Nat) : shiftCount (2 ^ k) = k + 1 := by
  induction k with
  | zero =>
    show shiftCount 1 = 1
    rw [shiftCount_pos 1 (by omega)]
    have : (1 : Nat) / 2 = 0 := by omega
    rw [this, shiftCount]
  | succ k ih =>
    rw [shiftCount_pos _ (Nat.two_pow_pos _)]
    have : 2 ^ (k + 1) / 2 = 2 ^ k := by
      rw [Nat.pow_succ]; omega
    rw [this, ih]

theorem getPowerOfTwo_two_pow (i : Nat) : getPowerOfTwo (2 ^ i) = some i := by
  unfold getPowerOfTwo
  cases i with
  | zero => simp [shiftCount]
  | succ k =>
    have : 2 ^ (k + 1) / 2 = 2 ^ k := by rw [Nat.pow_succ]; omega
    simp [this, shiftCount_two_pow]

theorem getPowerOfTwo_some {n i : Nat} (h : getPowerOfTwo n = some i) : n = 2 ^ i := by
  unfold getPowerOfTwo at h
  simp only at h
  split at h
  · rename_i heq
    injection h with h
    rw [← h]; exact heq.symm
  · cases h

theorem pow2_iff (n i : Nat) : getPowerOfTwo n = some i ↔ n = 2 ^ i :=
  ⟨getPowerOfTwo_some, fun h => h ▸ getPowerOfTwo_two_pow i⟩

theorem getMatVarSize_iff (len n : Nat) : getMatVarSize len = some n ↔ len = 4 ^ n := by
  unfold getMatVarSize
  constructor
  · intro h
    split at h
    · rename_i i hi
      have := getPowerOfTwo_some hi
      split at h
      · injection h with h
        subst this
        have : i = 2 * n := by omega
        rw [this, Nat.pow_mul]
      · cases h
    · cases h
  · intro h
    have : len = 2 ^ (2 * n) := by rw [h, Nat.pow_mul]
    rw [this, getPowerOfTwo_two_pow]
    simp

end Qmc

namespace Qmc

theorem getP_of_lt {l : List Rat} {i : Nat} (h : i < l.length) : getP l i = .ok (l[i]?.getD 0) := by
  unfold getP
  rw [List.getElem?_eq_getElem h]; rfl

theorem mapP_ok (l : List Nat) (f : Nat → Res Rat) (g : Nat → Rat)
    (h : ∀ a ∈ l, f a = .ok (g a)) : mapP l f = .ok (l.map g) := by
  induction l with
  | nil => rfl
  | cons a t ih =>
    have ha := h a (by simp)
    have ht := ih (fun b hb => h b (by simp [hb]))
    simp [mapP, ha, ht, Res.map, Res.bind]

/-- the diagonal of a full matrix over `n` variables -/
def diagOf (m : List Rat) (n : Nat) : List Rat :=
  (List.range (2 ^ n)).map (fun row => (m[row * 2 ^ n + row]?).getD 0)

theorem diag_index_lt {n row : Nat} (h : row < 2 ^ n) : row * 2 ^ n + row < 4 ^ n := by
  have h4 : (4 : Nat) ^ n = 2 ^ n * 2 ^ n := by
    rw [show (4 : Nat) = 2 * 2 from rfl, Nat.mul_pow]
  rw [h4]
  have : row + 1 ≤ 2 ^ n := h
  calc row * 2 ^ n + row < row * 2 ^ n + 2 ^ n := by omega
    _ = (row + 1) * 2 ^ n := by ring
    _ ≤ 2 ^ n * 2 ^ n := Nat.mul_le_mul_right _ this

theorem any_neg_false_iff (m : List Rat) : (m.any (· < 0)) = false ↔ ∀ x ∈ m, 0 ≤ x := by
  simp [List.any_eq_false, not_lt]

/-- What `Interaction::new` returns, in closed form. -/
def newResult (m : List Rat) (vs : List Nat) : Interaction :=
  { itype := .full (chainConst m), mat := m, n := vs.length, vars := vs,
    constDiag := chainConst (diagOf m vs.length) }

theorem new_eq (m : List Rat) (vs : List Nat) :
    Interaction.new m vs =
      if (∀ x ∈ m, 0 ≤ x) ∧ (vs ≠ [] ∧ vs.Nodup) ∧ m.length = 4 ^ vs.length then .ok (newResult m vs)
      else .err := by
  unfold Interaction.new
  by_cases hneg : (m.any (· < 0)) = true
  · have : ¬ (∀ x ∈ m, 0 ≤ x) := by
      intro h; rw [(any_neg_false_iff m).mpr h] at hneg; cases hneg
    simp [hneg, this]
  · have hneg' : (m.any (· < 0)) = false := by simpa using hneg
    have hall := (any_neg_false_iff m).mp hneg'
    rw [if_neg hneg]
    cases hsz : getMatVarSize m.length with
    | none =>
      have : ¬ m.length = 4 ^ vs.length := fun h => by
        rw [(getMatVarSize_iff _ _).mpr h] at hsz; cases hsz
      simp [this]
    | some n =>
      have hlen := (getMatVarSize_iff _ _).mp hsz
      by_cases hemp : vs = []
      · simp [hemp]
      · have : vs.isEmpty = false := by simpa using hemp
        simp only [this]
        by_cases hnd : vs.Nodup
        case neg => simp [hnd]
        simp only [hnd, not_true_eq_false, if_false]
        by_cases hn : n = vs.length
        · subst hn
          have hm : mapP (List.range (2 ^ vs.length)) (fun row => getP m (row * 2 ^ vs.length + row))
              = .ok (diagOf m vs.length) := by
            apply mapP_ok
            intro a ha
            have : a < 2 ^ vs.length := by simpa using ha
            exact getP_of_lt (by rw [hlen]; exact diag_index_lt this)
          simp [hm, hemp, hlen, hnd, newResult]
          exact hall
        · have : ¬ m.length = 4 ^ vs.length := by
            intro h; rw [hlen] at h
            exact hn (Nat.pow_right_injective (by omega : 2 ≤ 4) h)
          simp [hn, this]

end Qmc

namespace Qmc

theorem eps_pos : 0 < eps := by
  unfold eps; positivity

theorem absR_zero : absR 0 = 0 := by simp [absR]

/-- entries are pairwise equal or at least `eps` apart (true of 0/1 matrices and of every
matrix whose entries are multiples of a unit ≥ eps) -/
def Separated (l : List Rat) : Prop := ∀ x ∈ l, ∀ y ∈ l, x = y ∨ eps ≤ absR (x - y)

def AllEq (l : List Rat) : Prop := ∀ x ∈ l, ∀ y ∈ l, x = y

theorem Separated.tail {a : Rat} {l : List Rat} (h : Separated (a :: l)) : Separated l :=
  fun x hx y hy => h x (by simp [hx]) y (by simp [hy])

theorem chainConst_of_allEq : ∀ (l : List Rat), AllEq l → chainConst l = true
  | [], _ => rfl
  | [_], _ => rfl
  | a :: b :: t, h => by
    have hab : a = b := h a (by simp) b (by simp)
    have ht : AllEq (b :: t) := fun x hx y hy => h x (by simp [hx]) y (by simp [hy])
    simp [chainConst, hab, absR_zero, eps_pos, chainConst_of_allEq (b :: t) ht]

theorem allEq_of_chainConst : ∀ (l : List Rat), Separated l → chainConst l = true → AllEq l
  | [], _, _ => fun x hx => by simp at hx
  | [a], _, _ => fun x hx y hy => by
    simp at hx hy; rw [hx, hy]
  | a :: b :: t, hs, hc => by
    simp only [chainConst, Bool.and_eq_true, decide_eq_true_eq] at hc
    have hab : a = b := by
      rcases hs a (by simp) b (by simp) with h | h
      · exact h
      · exact absurd hc.1 (not_lt.mpr h)
    have ht := allEq_of_chainConst (b :: t) hs.tail hc.2
    intro x hx y hy
    have hx' : x ∈ b :: t := by
      rcases List.mem_cons.mp hx with h | h
      · rw [h, hab]; simp
      · exact h
    have hy' : y ∈ b :: t := by
      rcases List.mem_cons.mp hy with h | h
      · rw [h, hab]; simp
      · exact h
    exact ht x hx' y hy'

theorem chainConst_iff (l : List Rat) (hs : Separated l) : chainConst l = true ↔ AllEq l :=
  ⟨allEq_of_chainConst l hs, chainConst_of_allEq l⟩

/-- What `Interaction::new_diagonal` returns, in closed form. -/
def newDiagonalResult (m : List Rat) (vs : List Nat) : Interaction :=
  { itype := .diagonal, mat := m, n := vs.length, vars := vs, constDiag := chainConst m }

theorem newDiagonal_eq (m : List Rat) (vs : List Nat) :
    Interaction.newDiagonal m vs =
      if (∀ x ∈ m, 0 ≤ x) ∧ (vs ≠ [] ∧ vs.Nodup) ∧ m.length = 2 ^ vs.length then .ok (newDiagonalResult m vs)
      else .err := by
  unfold Interaction.newDiagonal
  by_cases hneg : (m.any (· < 0)) = true
  · have : ¬ (∀ x ∈ m, 0 ≤ x) := by
      intro h; rw [(any_neg_false_iff m).mpr h] at hneg; cases hneg
    simp [hneg, this]
  · have hneg' : (m.any (· < 0)) = false := by simpa using hneg
    have hall := (any_neg_false_iff m).mp hneg'
    rw [if_neg hneg]
    cases hsz : getPowerOfTwo m.length with
    | none =>
      have : ¬ m.length = 2 ^ vs.length := fun h => by
        rw [(pow2_iff _ _).mpr h] at hsz; cases hsz
      simp [this]
    | some n =>
      have hlen := (pow2_iff _ _).mp hsz
      by_cases hemp : vs = []
      · simp [hemp]
      · have : vs.isEmpty = false := by simpa using hemp
        simp only [this]
        by_cases hnd : vs.Nodup
        case neg => simp [hnd]
        simp only [hnd, not_true_eq_false, if_false]
        by_cases hn : n = vs.length
        · subst hn
          simp [hemp, hlen, hnd, newDiagonalResult]
          exact hall
        · have : ¬ m.length = 2 ^ vs.length := by
            intro h; rw [hlen] at h
            exact hn (Nat.pow_right_injective (by omega : 2 ≤ 2) h)
          simp [hn, this]

end Qmc

namespace Qmc
open Interaction

theorem foldl_bits (bs : List Bool) (acc : Nat) :
    bs.foldl (fun acc b => acc * 2 + (if b then 1 else 0)) acc
      = acc * 2 ^ bs.length + indexFromBits bs := by
  induction bs generalizing acc with
  | nil => simp [indexFromBits]
  | cons b t ih =>
    simp only [List.foldl_cons, List.length_cons, indexFromBits]
    rw [ih, ih (0 * 2 + _)]
    ring

theorem indexFromBits_cons (b : Bool) (t : List Bool) :
    indexFromBits (b :: t) = (if b then 1 else 0) * 2 ^ t.length + indexFromBits t := by
  show List.foldl _ _ _ = _
  simp only [List.foldl_cons]
  rw [foldl_bits]; simp

theorem indexFromBits_lt (bs : List Bool) : indexFromBits bs < 2 ^ bs.length := by
  induction bs with
  | nil => simp [indexFromBits]
  | cons b t ih =>
    rw [indexFromBits_cons, List.length_cons, Nat.pow_succ]
    cases b <;> simp <;> omega

theorem indexFromBits_append (a b : List Bool) :
    indexFromBits (a ++ b) = indexFromBits a * 2 ^ b.length + indexFromBits b := by
  show List.foldl _ _ _ = _
  rw [List.foldl_append, foldl_bits]; rfl

theorem indexFromBits_not (bs : List Bool) :
    indexFromBits (bs.map not) + indexFromBits bs = 2 ^ bs.length - 1 := by
  induction bs with
  | nil => simp [indexFromBits]
  | cons b t ih =>
    rw [List.map_cons, indexFromBits_cons, indexFromBits_cons, List.length_map, List.length_cons,
      Nat.pow_succ]
    have := Nat.two_pow_pos t.length
    cases b <;> simp <;> omega

/-- the bit pattern (msb first) of `idx` on `k` bits -/
def bitsOf : Nat → Nat → List Bool
  | 0, _ => []
  | k + 1, idx => decide (idx / 2 ^ k % 2 = 1) :: bitsOf k (idx % 2 ^ k)

theorem bitsOf_length (k idx : Nat) : (bitsOf k idx).length = k := by
  induction k generalizing idx with
  | zero => rfl
  | succ k ih => simp [bitsOf, ih]

theorem indexFromBits_bitsOf (k idx : Nat) (h : idx < 2 ^ k) : indexFromBits (bitsOf k idx) = idx := by
  induction k generalizing idx with
  | zero => simp [bitsOf, indexFromBits]; omega
  | succ k ih =>
    rw [bitsOf, indexFromBits_cons, bitsOf_length, ih _ (Nat.mod_lt _ (Nat.two_pow_pos k))]
    have hq : idx / 2 ^ k < 2 := by
      rw [Nat.div_lt_iff_lt_mul (Nat.two_pow_pos k)]; rw [Nat.pow_succ] at h; omega
    have hdm := Nat.div_add_mod idx (2 ^ k)
    generalize idx / 2 ^ k = q at hq hdm ⊢
    generalize idx % 2 ^ k = r at hdm ⊢
    have hq' : q = 0 ∨ q = 1 := by omega
    rcases hq' with h0 | h1
    · subst h0; simp at hdm ⊢; exact hdm
    · subst h1; simp at hdm ⊢; omega

/-- `flipPairsOk` in closed form when all indices are in range. -/
theorem flipPairsOk_eq (m : List Rat) (mask count : Nat) (hc : count ≤ m.length)
    (hm : mask < m.length) :
    flipPairsOk m mask count
      = .ok (decide (∀ idx, idx < count → absR ((m[idx]?).getD 0 - (m[mask - idx]?).getD 0) < eps)) := by
  unfold flipPairsOk
  induction count with
  | zero => simp
  | succ k ih =>
    rw [List.range_succ, List.foldl_append, ih (by omega)]
    simp only [List.foldl_cons, List.foldl_nil]
    by_cases hall : ∀ idx, idx < k → absR ((m[idx]?).getD 0 - (m[mask - idx]?).getD 0) < eps
    · have hk : k < m.length := by omega
      have hk2 : mask - k < m.length := by omega
      have hd : decide (∀ idx, idx < k → absR ((m[idx]?).getD 0 - (m[mask - idx]?).getD 0) < eps) = true :=
        decide_eq_true hall
      rw [hd]
      simp only []
      rw [List.getElem?_eq_getElem hk, List.getElem?_eq_getElem hk2]
      simp only [Res.ok.injEq, decide_eq_decide]
      constructor
      · intro h idx hidx
        rcases Nat.lt_succ_iff_lt_or_eq.mp hidx with h1 | h1
        · exact hall idx h1
        · subst h1
          rw [List.getElem?_eq_getElem hk, List.getElem?_eq_getElem hk2]; simpa using h
      · intro h
        have := h k (by omega)
        rw [List.getElem?_eq_getElem hk, List.getElem?_eq_getElem hk2] at this; simpa using this
    · have : ¬ ∀ idx, idx < k + 1 → absR ((m[idx]?).getD 0 - (m[mask - idx]?).getD 0) < eps :=
        fun h => hall (fun idx hi => h idx (by omega))
      simp [hall, this]

end Qmc

namespace Qmc
open Interaction

/-! ### offset variants -/

def minStep (acc : Option Rat) (item : Rat) : Option Rat :=
  match acc with
  | none => some item
  | some a => if a < item then some a else some item

theorem minFold_eq (l : List Rat) : minFold l = l.foldl minStep none := rfl

theorem foldl_minStep_some (l : List Rat) (a : Rat) :
    ∃ d, l.foldl minStep (some a) = some d ∧ d ∈ a :: l ∧ ∀ x ∈ a :: l, d ≤ x := by
  induction l generalizing a with
  | nil => exact ⟨a, rfl, by simp, by simp⟩
  | cons b t ih =>
    simp only [List.foldl_cons, minStep]
    by_cases hab : a < b
    · simp only [hab, if_true]
      obtain ⟨d, hd, hmem, hmin⟩ := ih a
      refine ⟨d, hd, ?_, ?_⟩
      · rcases List.mem_cons.mp hmem with h | h
        · simp [h]
        · simp [h]
      · intro x hx
        rcases List.mem_cons.mp hx with h | h
        · exact h ▸ hmin a (by simp)
        · rcases List.mem_cons.mp h with h | h
          · have := hmin a (by simp); rw [h]; linarith
          · exact hmin x (by simp [h])
    · simp only [hab, if_false]
      obtain ⟨d, hd, hmem, hmin⟩ := ih b
      refine ⟨d, hd, ?_, ?_⟩
      · rcases List.mem_cons.mp hmem with h | h
        · simp [h]
        · simp [h]
      · intro x hx
        rcases List.mem_cons.mp hx with h | h
        · have := hmin b (by simp); rw [h]; linarith [not_lt.mp hab]
        · exact hmin x h

/-- `minFold` of a non-empty list is its minimum. -/
theorem minFold_spec (l : List Rat) (hl : l ≠ []) :
    ∃ d, minFold l = some d ∧ d ∈ l ∧ ∀ x ∈ l, d ≤ x := by
  cases l with
  | nil => exact absurd rfl hl
  | cons a t =>
    rw [minFold_eq]
    simp only [List.foldl_cons, minStep]
    exact foldl_minStep_some t a

theorem newDiagonalOffset_eq (m : List Rat) (vs : List Nat) :
    Interaction.newDiagonalOffset m vs =
      if (vs ≠ [] ∧ vs.Nodup) ∧ m.length = 2 ^ vs.length then
        .ok (newDiagonalResult (m.map (· - (minFold m).getD 0)) vs, (minFold m).getD 0)
      else .err := by
  unfold Interaction.newDiagonalOffset
  simp only []
  rw [newDiagonal_eq]
  by_cases h : (vs ≠ [] ∧ vs.Nodup) ∧ m.length = 2 ^ vs.length
  · have hne : m ≠ [] := by
      intro h0; rw [h0] at h; simp at h
      have := Nat.two_pow_pos vs.length; omega
    obtain ⟨d, hd, _, hmin⟩ := minFold_spec m hne
    have hall : ∀ x ∈ m.map (· - (minFold m).getD 0), 0 ≤ x := by
      intro x hx
      obtain ⟨y, hy, rfl⟩ := List.mem_map.mp hx
      rw [hd]; simp only [Option.getD_some]
      linarith [hmin y hy]
    have hc : (∀ x ∈ m.map (· - (minFold m).getD 0), 0 ≤ x) ∧ (vs ≠ [] ∧ vs.Nodup) ∧
        (m.map (· - (minFold m).getD 0)).length = 2 ^ vs.length := ⟨hall, h.1, by simpa using h.2⟩
    rw [if_pos hc, if_pos h]; rfl
  · have hc : ¬ ((∀ x ∈ m.map (· - (minFold m).getD 0), 0 ≤ x) ∧ (vs ≠ [] ∧ vs.Nodup) ∧
        (m.map (· - (minFold m).getD 0)).length = 2 ^ vs.length) := by
      intro hc; exact h ⟨hc.2.1, by simpa using hc.2.2⟩
    rw [if_neg hc, if_neg h]; rfl

/-- effect of `subAt` when all indices are in range -/
theorem subAt_spec (d : Rat) : ∀ (idxs : List Nat) (m : List Rat), (∀ i ∈ idxs, i < m.length) →
    ∃ m', subAt m d idxs = .ok m' ∧ m'.length = m.length ∧
      (∀ j, j ∉ idxs → m'[j]? = m[j]?) ∧
      (idxs.Nodup → ∀ j ∈ idxs, m'[j]? = (m[j]?).map (· - d))
  | [], m, _ => ⟨m, rfl, rfl, fun _ _ => rfl, fun _ j hj => by simp at hj⟩
  | i :: t, m, h => by
    have hi : i < m.length := h i (by simp)
    have ht : ∀ k ∈ t, k < (m.set i (m[i] - d)).length := by
      intro k hk; rw [List.length_set]; exact h k (by simp [hk])
    obtain ⟨m', hm', hlen, hout, hin⟩ := subAt_spec d t (m.set i (m[i] - d)) ht
    refine ⟨m', ?_, ?_, ?_, ?_⟩
    · simp only [subAt, List.getElem?_eq_getElem hi]; exact hm'
    · rw [hlen, List.length_set]
    · intro j hj
      have hji : j ≠ i := fun e => hj (by simp [e])
      have hjt : j ∉ t := fun e => hj (by simp [e])
      rw [hout j hjt, List.getElem?_set_ne (Ne.symm hji)]
    · intro hnd j hj
      have hnd' := List.nodup_cons.mp hnd
      rcases List.mem_cons.mp hj with e | e
      · subst e
        rw [hout j hnd'.1, List.getElem?_set_self hi, List.getElem?_eq_getElem hi]; rfl
      · have hji : j ≠ i := fun e' => hnd'.1 (e' ▸ e)
        rw [hin hnd'.2 j e, List.getElem?_set_ne (Ne.symm hji)]

/-- indices of the diagonal of a `2^n × 2^n` matrix, as `new_offset` enumerates them -/
def diagIdxs (n : Nat) : List Nat := (List.range (2 ^ n)).map (fun i => (1 + 2 ^ n) * i)

theorem diagIdxs_lt {n i : Nat} (h : i ∈ diagIdxs n) : i < 4 ^ n := by
  obtain ⟨r, hr, rfl⟩ := List.mem_map.mp h
  have hr' : r < 2 ^ n := by simpa using hr
  have := diag_index_lt hr'
  calc (1 + 2 ^ n) * r = r * 2 ^ n + r := by ring
    _ < 4 ^ n := this

theorem diagIdxs_nodup (n : Nat) : (diagIdxs n).Nodup := by
  unfold diagIdxs
  apply List.Nodup.map _ List.nodup_range
  intro a b hab
  have : 0 < 1 + 2 ^ n := Nat.add_pos_left Nat.one_pos _
  exact Nat.eq_of_mul_eq_mul_left this hab

/-- `new_offset` never panics; when the size fits a non-empty variable list it behaves like `new`
on the matrix with the minimal diagonal entry `d` subtracted from the diagonal, and reports `d`. -/
theorem newOffset_spec (m : List Rat) (vs : List Nat) :
    (¬ (m.length = 4 ^ vs.length) → Interaction.newOffset m vs = .err ∨
        (∃ n, m.length = 4 ^ n ∧ n ≠ vs.length ∧ Interaction.newOffset m vs = .err)) ∧
    (m.length = 4 ^ vs.length →
      ∃ d m', (d ∈ (diagIdxs vs.length).map (fun i => (m[i]?).getD 0)) ∧
        (∀ i ∈ diagIdxs vs.length, d ≤ (m[i]?).getD 0) ∧
        m'.length = m.length ∧
        (∀ j, j ∉ diagIdxs vs.length → m'[j]? = m[j]?) ∧
        (∀ j ∈ diagIdxs vs.length, m'[j]? = (m[j]?).map (· - d)) ∧
        Interaction.newOffset m vs = (Interaction.new m' vs).map (fun i => (i, d))) := by
  have key : ∀ n, m.length = 4 ^ n →
      ∃ d m', (d ∈ (diagIdxs n).map (fun i => (m[i]?).getD 0)) ∧
        (∀ i ∈ diagIdxs n, d ≤ (m[i]?).getD 0) ∧
        m'.length = m.length ∧
        (∀ j, j ∉ diagIdxs n → m'[j]? = m[j]?) ∧
        (∀ j ∈ diagIdxs n, m'[j]? = (m[j]?).map (· - d)) ∧
        Interaction.newOffset m vs = (Interaction.new m' vs).map (fun i => (i, d)) := by
    intro n hlen
    have hsz := (getMatVarSize_iff _ _).mpr hlen
    have hmap : mapP (diagIdxs n) (getP m) = .ok ((diagIdxs n).map (fun i => (m[i]?).getD 0)) := by
      apply mapP_ok
      intro a ha
      exact getP_of_lt (by rw [hlen]; exact diagIdxs_lt ha)
    have hne : (diagIdxs n).map (fun i => (m[i]?).getD 0) ≠ [] := by
      have : 0 < 2 ^ n := Nat.two_pow_pos n
      simp [diagIdxs]
    obtain ⟨d, hd, hmem, hmin⟩ := minFold_spec _ hne
    obtain ⟨m', hm', hl', hout, hin⟩ := subAt_spec d (diagIdxs n) m
      (fun i hi => by rw [hlen]; exact diagIdxs_lt hi)
    refine ⟨d, m', hmem, ?_, hl', hout, hin (diagIdxs_nodup n), ?_⟩
    · intro i hi
      exact hmin _ (List.mem_map.mpr ⟨i, hi, rfl⟩)
    · unfold Interaction.newOffset
      simp only [hsz]
      have e : (List.range (2 ^ n)).map (fun i => (1 + 2 ^ n) * i) = diagIdxs n := rfl
      rw [e, hmap]
      simp only [hd, Option.getD_some, hm']
  constructor
  · intro hlen
    cases hsz : getMatVarSize m.length with
    | none => left; unfold Interaction.newOffset; simp [hsz]
    | some n =>
      right
      have hl := (getMatVarSize_iff _ _).mp hsz
      have hn : n ≠ vs.length := fun e => hlen (e ▸ hl)
      refine ⟨n, hl, hn, ?_⟩
      obtain ⟨d, m', _, _, hl', _, _, heq⟩ := key n hl
      rw [heq, new_eq]
      have : ¬ ((∀ x ∈ m', 0 ≤ x) ∧ (vs ≠ [] ∧ vs.Nodup) ∧ m'.length = 4 ^ vs.length) := by
        intro hc; rw [hl', hl] at hc
        exact hn (Nat.pow_right_injective (by omega : 2 ≤ 4) hc.2.2)
      rw [if_neg this]; rfl
  · intro hlen
    exact key vs.length hlen

end Qmc
