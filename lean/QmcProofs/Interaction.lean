import QmcModel.Interaction
import Mathlib.Tactic.Ring
import Mathlib.Tactic.Linarith
import Mathlib.Tactic.NormNum
import Mathlib.Algebra.Order.Field.Rat

namespace Qmc

theorem shiftCount_pos (x : Nat) (h : 0 < x) : shiftCount x = shiftCount (x / 2) + 1 := by
  cases x with
  | zero => omega
  | succ y => rw [shiftCount]

theorem shiftCount_two_pow (k : Nat) : shiftCount (2 ^ k) = k + 1 := by
  induction k with
  | zero =>
    show shiftCount 1 = 1
    rw [shiftCount_pos 1 (by omega)]
    have : (1 : Nat) / 2 = 0 := by omega
    rw [this, shiftCount]
  | succ k ih =>
    rw [shiftCount_pos _ (Nat.two_pow_pos _)]
    have : 2 ^ (k + 1) / 2 = 2 ^ k := by
      rw [Nat.pow_succ]; omega
    rw [this, ih]

theorem getPowerOfTwo_two_pow (i : Nat) : getPowerOfTwo (2 ^ i) = some i := by
  unfold getPowerOfTwo
  cases i with
  | zero => simp [shiftCount]
  | succ k =>
    have : 2 ^ (k + 1) / 2 = 2 ^ k := by rw [Nat.pow_succ]; omega
    simp [this, shiftCount_two_pow]

theorem getPowerOfTwo_some {n i : Nat} (h : getPowerOfTwo n = some i) : n = 2 ^ i := by
  unfold getPowerOfTwo at h
  simp only at h
  split at h
  · rename_i heq
    injection h with h
    rw [← h]; exact heq.symm
  · cases h

theorem pow2_iff (n i : Nat) : getPowerOfTwo n = some i ↔ n = 2 ^ i :=
  ⟨getPowerOfTwo_some, fun h => h ▸ getPowerOfTwo_two_pow i⟩

theorem getMatVarSize_iff (len n : Nat) : getMatVarSize len = some n ↔ len = 4 ^ n := by
  unfold getMatVarSize
  constructor
  · intro h
    split at h
    · rename_i i hi
      have := getPowerOfTwo_some hi
      split at h
      · injection h with h
        subst this
        have : i = 2 * n := by omega
        rw [this, Nat.pow_mul]
      · cases h
    · cases h
  · intro h
    have : len = 2 ^ (2 * n) := by rw [h, Nat.pow_mul]
    rw [this, getPowerOfTwo_two_pow]
    simp

end Qmc

namespace Qmc

theorem getP_of_lt {l : List Rat} {i : Nat} (h : i < l.length) : getP l i = .ok (l[i]?.getD 0) := by
  unfold getP
  rw [List.getElem?_eq_getElem h]; rfl

theorem mapP_ok (l : List Nat) (f : Nat → Res Rat) (g : Nat → Rat)
    (h : ∀ a ∈ l, f a = .ok (g a)) : mapP l f = .ok (l.map g) := by
  induction l with
  | nil => rfl
  | cons a t ih =>
    have ha := h a (by simp)
    have ht := ih (fun b hb => h b (by simp [hb]))
    simp [mapP, ha, ht, Res.map, Res.bind]

/-- the diagonal of a full matrix over `n` variables -/
def diagOf (m : List Rat) (n : Nat) : List Rat :=
  (List.range (2 ^ n)).map (fun row => (m[row * 2 ^ n + row]?).getD 0)

theorem diag_index_lt {n row : Nat} (h : row < 2 ^ n) : row * 2 ^ n + row < 4 ^ n := by
  have h4 : (4 : Nat) ^ n = 2 ^ n * 2 ^ n := by
    rw [show (4 : Nat) = 2 * 2 from rfl, Nat.mul_pow]
  rw [h4]
  have : row + 1 ≤ 2 ^ n := h
  calc row * 2 ^ n + row < row * 2 ^ n + 2 ^ n := by omega
    _ = (row + 1) * 2 ^ n := by ring
    _ ≤ 2 ^ n * 2 ^ n := Nat.mul_le_mul_right _ this

theorem any_neg_false_iff (m : List Rat) : (m.any (· < 0)) = false ↔ ∀ x ∈ m, 0 ≤ x := by
  simp [List.any_eq_false, not_lt]

/-- What `Interaction::new` returns, in closed form. -/
def newResult (m : List Rat) (vs : List Nat) : Interaction :=
  { itype := .full (chainConst m), mat := m, n := vs.length, vars := vs,
    constDiag := chainConst (diagOf m vs.length) }

theorem new_eq (m : List Rat) (vs : List Nat) :
    Interaction.new m vs =
      if (∀ x ∈ m, 0 ≤ x) ∧ vs ≠ [] ∧ m.length = 4 ^ vs.length then .ok (newResult m vs)
      else .err := by
  unfold Interaction.new
  by_cases hneg : (m.any (· < 0)) = true
  · have : ¬ (∀ x ∈ m, 0 ≤ x) := by
      intro h; rw [(any_neg_false_iff m).mpr h] at hneg; cases hneg
    simp [hneg, this]
  · have hneg' : (m.any (· < 0)) = false := by simpa using hneg
    have hall := (any_neg_false_iff m).mp hneg'
    rw [if_neg hneg]
    cases hsz : getMatVarSize m.length with
    | none =>
      have : ¬ m.length = 4 ^ vs.length := fun h => by
        rw [(getMatVarSize_iff _ _).mpr h] at hsz; cases hsz
      simp [this]
    | some n =>
      have hlen := (getMatVarSize_iff _ _).mp hsz
      by_cases hemp : vs = []
      · simp [hemp]
      · have : vs.isEmpty = false := by simpa using hemp
        simp only [this]
        by_cases hn : n = vs.length
        · subst hn
          have hm : mapP (List.range (2 ^ vs.length)) (fun row => getP m (row * 2 ^ vs.length + row))
              = .ok (diagOf m vs.length) := by
            apply mapP_ok
            intro a ha
            have : a < 2 ^ vs.length := by simpa using ha
            exact getP_of_lt (by rw [hlen]; exact diag_index_lt this)
          simp [hm, hemp, hlen, newResult]
          exact hall
        · have : ¬ m.length = 4 ^ vs.length := by
            intro h; rw [hlen] at h
            exact hn (Nat.pow_right_injective (by omega : 2 ≤ 4) h)
          simp [hn, this]

end Qmc

namespace Qmc

theorem eps_pos : 0 < eps := by
  unfold eps; positivity

theorem absR_zero : absR 0 = 0 := by simp [absR]

/-- entries are pairwise equal or at least `eps` apart (true of 0/1 matrices and of every
matrix whose entries are multiples of a unit ≥ eps) -/
def Separated (l : List Rat) : Prop := ∀ x ∈ l, ∀ y ∈ l, x = y ∨ eps ≤ absR (x - y)

def AllEq (l : List Rat) : Prop := ∀ x ∈ l, ∀ y ∈ l, x = y

theorem Separated.tail {a : Rat} {l : List Rat} (h : Separated (a :: l)) : Separated l :=
  fun x hx y hy => h x (by simp [hx]) y (by simp [hy])

theorem chainConst_of_allEq : ∀ (l : List Rat), AllEq l → chainConst l = true
  | [], _ => rfl
  | [_], _ => rfl
  | a :: b :: t, h => by
    have hab : a = b := h a (by simp) b (by simp)
    have ht : AllEq (b :: t) := fun x hx y hy => h x (by simp [hx]) y (by simp [hy])
    simp [chainConst, hab, absR_zero, eps_pos, chainConst_of_allEq (b :: t) ht]

theorem allEq_of_chainConst : ∀ (l : List Rat), Separated l → chainConst l = true → AllEq l
  | [], _, _ => fun x hx => by simp at hx
  | [a], _, _ => fun x hx y hy => by
    simp at hx hy; rw [hx, hy]
  | a :: b :: t, hs, hc => by
    simp only [chainConst, Bool.and_eq_true, decide_eq_true_eq] at hc
    have hab : a = b := by
      rcases hs a (by simp) b (by simp) with h | h
      · exact h
      · exact absurd hc.1 (not_lt.mpr h)
    have ht := allEq_of_chainConst (b :: t) hs.tail hc.2
    intro x hx y hy
    have hx' : x ∈ b :: t := by
      rcases List.mem_cons.mp hx with h | h
      · rw [h, hab]; simp
      · exact h
    have hy' : y ∈ b :: t := by
      rcases List.mem_cons.mp hy with h | h
      · rw [h, hab]; simp
      · exact h
    exact ht x hx' y hy'

theorem chainConst_iff (l : List Rat) (hs : Separated l) : chainConst l = true ↔ AllEq l :=
  ⟨allEq_of_chainConst l hs, chainConst_of_allEq l⟩

/-- What `Interaction::new_diagonal` returns, in closed form. -/
def newDiagonalResult (m : List Rat) (vs : List Nat) : Interaction :=
  { itype := .diagonal, mat := m, n := vs.length, vars := vs, constDiag := chainConst m }

theorem newDiagonal_eq (m : List Rat) (vs : List Nat) :
    Interaction.newDiagonal m vs =
      if (∀ x ∈ m, 0 ≤ x) ∧ vs ≠ [] ∧ m.length = 2 ^ vs.length then .ok (newDiagonalResult m vs)
      else .err := by
  unfold Interaction.newDiagonal
  by_cases hneg : (m.any (· < 0)) = true
  · have : ¬ (∀ x ∈ m, 0 ≤ x) := by
      intro h; rw [(any_neg_false_iff m).mpr h] at hneg; cases hneg
    simp [hneg, this]
  · have hneg' : (m.any (· < 0)) = false := by simpa using hneg
    have hall := (any_neg_false_iff m).mp hneg'
    rw [if_neg hneg]
    cases hsz : getPowerOfTwo m.length with
    | none =>
      have : ¬ m.length = 2 ^ vs.length := fun h => by
        rw [(pow2_iff _ _).mpr h] at hsz; cases hsz
      simp [this]
    | some n =>
      have hlen := (pow2_iff _ _).mp hsz
      by_cases hemp : vs = []
      · simp [hemp]
      · have : vs.isEmpty = false := by simpa using hemp
        simp only [this]
        by_cases hn : n = vs.length
        · subst hn
          simp [hemp, hlen, newDiagonalResult]
          exact hall
        · have : ¬ m.length = 2 ^ vs.length := by
            intro h; rw [hlen] at h
            exact hn (Nat.pow_right_injective (by omega : 2 ≤ 2) h)
          simp [hn, this]

end Qmc

namespace Qmc
open Interaction

theorem foldl_bits (bs : List Bool) (acc : Nat) :
    bs.foldl (fun acc b => acc * 2 + (if b then 1 else 0)) acc
      = acc * 2 ^ bs.length + indexFromBits bs := by
  induction bs generalizing acc with
  | nil => simp [indexFromBits]
  | cons b t ih =>
    simp only [List.foldl_cons, List.length_cons, indexFromBits]
    rw [ih, ih (0 * 2 + _)]
    ring

theorem indexFromBits_cons (b : Bool) (t : List Bool) :
    indexFromBits (b :: t) = (if b then 1 else 0) * 2 ^ t.length + indexFromBits t := by
  show List.foldl _ _ _ = _
  simp only [List.foldl_cons]
  rw [foldl_bits]; simp

theorem indexFromBits_lt (bs : List Bool) : indexFromBits bs < 2 ^ bs.length := by
  induction bs with
  | nil => simp [indexFromBits]
  | cons b t ih =>
    rw [indexFromBits_cons, List.length_cons, Nat.pow_succ]
    cases b <;> simp <;> omega

theorem indexFromBits_append (a b : List Bool) :
    indexFromBits (a ++ b) = indexFromBits a * 2 ^ b.length + indexFromBits b := by
  show List.foldl _ _ _ = _
  rw [List.foldl_append, foldl_bits]; rfl

theorem indexFromBits_not (bs : List Bool) :
    indexFromBits (bs.map not) + indexFromBits bs = 2 ^ bs.length - 1 := by
  induction bs with
  | nil => simp [indexFromBits]
  | cons b t ih =>
    rw [List.map_cons, indexFromBits_cons, indexFromBits_cons, List.length_map, List.length_cons,
      Nat.pow_succ]
    have := Nat.two_pow_pos t.length
    cases b <;> simp <;> omega

/-- the bit pattern (msb first) of `idx` on `k` bits -/
def bitsOf : Nat → Nat → List Bool
  | 0, _ => []
  | k + 1, idx => decide (idx / 2 ^ k % 2 = 1) :: bitsOf k (idx % 2 ^ k)

theorem bitsOf_length (k idx : Nat) : (bitsOf k idx).length = k := by
  induction k generalizing idx with
  | zero => rfl
  | succ k ih => simp [bitsOf, ih]

theorem indexFromBits_bitsOf (k idx : Nat) (h : idx < 2 ^ k) : indexFromBits (bitsOf k idx) = idx := by
  induction k generalizing idx with
  | zero => simp [bitsOf, indexFromBits]; omega
  | succ k ih =>
    rw [bitsOf, indexFromBits_cons, bitsOf_length, ih _ (Nat.mod_lt _ (Nat.two_pow_pos k))]
    have hq : idx / 2 ^ k < 2 := by
      rw [Nat.div_lt_iff_lt_mul (Nat.two_pow_pos k)]; rw [Nat.pow_succ] at h; omega
    have hdm := Nat.div_add_mod idx (2 ^ k)
    generalize idx / 2 ^ k = q at hq hdm ⊢
    generalize idx % 2 ^ k = r at hdm ⊢
    have hq' : q = 0 ∨ q = 1 := by omega
    rcases hq' with h0 | h1
    · subst h0; simp at hdm ⊢; exact hdm
    · subst h1; simp at hdm ⊢; omega

/-- `flipPairsOk` in closed form when all indices are in range. -/
theorem flipPairsOk_eq (m : List Rat) (mask count : Nat) (hc : count ≤ m.length)
    (hm : mask < m.length) :
    flipPairsOk m mask count
      = .ok (decide (∀ idx, idx < count → absR ((m[idx]?).getD 0 - (m[mask - idx]?).getD 0) < eps)) := by
  unfold flipPairsOk
  induction count with
  | zero => simp
  | succ k ih =>
    rw [List.range_succ, List.foldl_append, ih (by omega)]
    simp only [List.foldl_cons, List.foldl_nil]
    by_cases hall : ∀ idx, idx < k → absR ((m[idx]?).getD 0 - (m[mask - idx]?).getD 0) < eps
    · have hk : k < m.length := by omega
      have hk2 : mask - k < m.length := by omega
      have hd : decide (∀ idx, idx < k → absR ((m[idx]?).getD 0 - (m[mask - idx]?).getD 0) < eps) = true :=
        decide_eq_true hall
      rw [hd]
      simp only []
      rw [List.getElem?_eq_getElem hk, List.getElem?_eq_getElem hk2]
      simp only [Res.ok.injEq, decide_eq_decide]
      constructor
      · intro h idx hidx
        rcases Nat.lt_succ_iff_lt_or_eq.mp hidx with h1 | h1
        · exact hall idx h1
        · subst h1
          rw [List.getElem?_eq_getElem hk, List.getElem?_eq_getElem hk2]; simpa using h
      · intro h
        have := h k (by omega)
        rw [List.getElem?_eq_getElem hk, List.getElem?_eq_getElem hk2] at this; simpa using this
    · have : ¬ ∀ idx, idx < k + 1 → absR ((m[idx]?).getD 0 - (m[mask - idx]?).getD 0) < eps :=
        fun h => hall (fun idx hi => h idx (by omega))
      simp [hall, this]

end Qmc
