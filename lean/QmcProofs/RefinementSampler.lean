/-
Refinement, parts 2 and 3: the free-spin refresh as a function (one `gen_bool(0.5)` per variable
without operators, increasing index — `flip_free_bits`, the tail of `single_cluster_step` and of both
`timestep`s; the `refresh` branch of lean/Drivers/C01.lean replays exactly these draws) satisfies
`FreeStep`; a sampler step `sweep ; refresh ; cutoff rule` is two `Step`s, any run of such steps is a
`History`, and the world-line invariants of C06/C07 hold along the run TOGETHER with the cutoff
invariant of C12 (`run_consistent_legal_headroom`).
-/
import QmcProofs.RefinementSweep
import QmcProps.C06
import QmcProps.C07
import QmcProps.C12

namespace Qmc.Refine
open Qmc Qmc.RS

/-! ### item 2: the free-spin refresh -/

/-- `does_var_have_ops(v)`: some stored operator acts on `v` -/
def hasOps (s : Slots) (v : Nat) : Bool := (coveredVars s).contains v

/-- `state.iter_mut().enumerate().for_each(|(var, s)| if !does_var_have_ops(var) { *s = rng.gen_bool(0.5) })`
from variable `v` on -/
def refreshAux (s : Slots) : Nat → List Bool → RS → List Bool × RS
  | _, [], rs => ([], rs)
  | v, x :: t, rs =>
    if hasOps s v then
      let r := refreshAux s (v + 1) t rs
      (x :: r.1, r.2)
    else
      let d := rs.genBool (1 / 2)
      let r := refreshAux s (v + 1) t d.2
      (d.1 :: r.1, r.2)

/-- the free-spin refresh of a configuration -/
def freeRefresh (c : Config) (rs : RS) : Config × RS :=
  let r := refreshAux c.slots 0 c.state rs
  ({ state := r.1, slots := c.slots }, r.2)

/-- the fold of the `refresh` branch of lean/Drivers/C01.lean, verbatim: input = one bit per variable
("has no operators"), output = the drawn bit per idle variable (`false` elsewhere) and the RNG -/
def driverRefresh (idle : List Bool) (rs0 : RS) : List Bool × RS :=
  idle.foldl (fun (acc : List Bool × RS) isIdle =>
    if isIdle then
      let (b, rs') := acc.2.genBool (1 / 2)
      (acc.1 ++ [b], rs')
    else (acc.1 ++ [false], acc.2)) ([], rs0)

theorem refreshAux_length (s : Slots) : ∀ (v : Nat) (st : List Bool) (rs : RS),
    (refreshAux s v st rs).1.length = st.length
  | _, [], _ => rfl
  | v, x :: t, rs => by
    unfold refreshAux
    split <;> simp [refreshAux_length s (v + 1) t]

/-- a variable that carries an operator keeps its value -/
theorem refreshAux_covered (s : Slots) : ∀ (v : Nat) (st : List Bool) (rs : RS) (i : Nat),
    hasOps s (v + i) = true → (refreshAux s v st rs).1[i]? = st[i]?
  | _, [], _, _, _ => rfl
  | v, x :: t, rs, 0, h => by
    unfold refreshAux
    rw [if_pos (by simpa using h)]
    rfl
  | v, x :: t, rs, i + 1, h => by
    have h' : hasOps s (v + 1 + i) = true := by
      have : v + 1 + i = v + (i + 1) := by omega
      rw [this]; exact h
    unfold refreshAux
    split
    · simp only [List.getElem?_cons_succ]
      exact refreshAux_covered s (v + 1) t rs i h'
    · simp only [List.getElem?_cons_succ]
      exact refreshAux_covered s (v + 1) t _ i h'

/-- **`freeRefresh_is_freeStep`**: for every configuration and RNG state (any script) the refresh
changes no operator, keeps the number of variables and leaves every variable that carries an operator
alone. No hypothesis. -/
theorem freeRefresh_is_freeStep (c : Config) (rs : RS) : FreeStep c (freeRefresh c rs).1 := by
  refine ⟨rfl, refreshAux_length c.slots 0 c.state rs, ?_⟩
  intro v hv
  have h : hasOps c.slots (0 + v) = true := by
    unfold hasOps
    rw [Nat.zero_add]
    exact List.contains_iff_mem.mpr hv
  exact refreshAux_covered c.slots 0 c.state rs v h

/-- the refresh draws what the C01 driver replays: same final RNG state, and the new value of every
variable is the driver's output bit where the variable is idle, the old value elsewhere -/
theorem refreshAux_driver (s : Slots) : ∀ (st : List Bool) (v : Nat) (acc : List Bool) (rs : RS),
    let idle := (List.range' v st.length).map (fun u => !hasOps s u)
    let d := idle.foldl (fun (acc : List Bool × RS) isIdle =>
      if isIdle then
        let (b, rs') := acc.2.genBool (1 / 2)
        (acc.1 ++ [b], rs')
      else (acc.1 ++ [false], acc.2)) (acc, rs)
    d.2 = (refreshAux s v st rs).2 ∧
    d.1 = acc ++ List.zipWith (fun u x => if hasOps s u then false else x) (List.range' v st.length)
      (refreshAux s v st rs).1
  | [], v, acc, rs => by simp [refreshAux]
  | x :: t, v, acc, rs => by
    intro idle d
    have ih := refreshAux_driver s t (v + 1)
    by_cases h : hasOps s v = true
    · have := ih (acc ++ [false]) rs
      simp only [List.length_cons, List.range'_succ, List.map_cons, List.foldl_cons, h, Bool.not_true,
        Bool.false_eq_true, if_false, refreshAux, if_true, List.zipWith_cons_cons, idle, d] at this ⊢
      refine ⟨this.1, ?_⟩
      rw [this.2]; simp
    · have hf : hasOps s v = false := by simpa using h
      have := ih (acc ++ [(rs.genBool (1 / 2)).1]) (rs.genBool (1 / 2)).2
      simp only [List.length_cons, List.range'_succ, List.map_cons, List.foldl_cons, hf, Bool.not_false,
        if_true, refreshAux, Bool.false_eq_true, if_false, List.zipWith_cons_cons, idle, d] at this ⊢
      refine ⟨this.1, ?_⟩
      rw [this.2]; simp

theorem freeRefresh_driver (c : Config) (rs : RS) :
    let idle := (List.range c.state.length).map (fun u => !hasOps c.slots u)
    (driverRefresh idle rs).2 = (freeRefresh c rs).2 ∧
    (driverRefresh idle rs).1 = List.zipWith (fun u x => if hasOps c.slots u then false else x)
      (List.range c.state.length) (freeRefresh c rs).1.state := by
  have := refreshAux_driver c.slots c.state 0 [] rs
  simp only [List.range_eq_range', List.nil_append] at this ⊢
  exact this

/-- the refresh as one public call of C06/C07 (`Step.flip` with an empty operator mask) -/
theorem freeRefresh_is_step (H : Ham) (n : Nat) (hH : HamWF H n) (c : Config) (rs : RS)
    (hn : c.state.length = n) (hl : Legal H c) : Step H c (freeRefresh c rs).1 :=
  Step.flip (free_spinFlip H n hH c _ hn hl (freeRefresh_is_freeStep c rs))
    (flipKeepsWeight_refl H c.slots)

/-- **Corollary**: the refresh keeps `Consistent` and `Legal`, for all scripts. -/
theorem freeRefresh_pres (H : Ham) (n : Nat) (hH : HamWF H n) (c : Config) (rs : RS)
    (hn : c.state.length = n) (hc : Consistent c) (hl : Legal H c) :
    Consistent (freeRefresh c rs).1 ∧ Legal H (freeRefresh c rs).1 :=
  Qmc.C06.freeRefresh_pres H n hH c _ hn hc hl (freeRefresh_is_freeStep c rs)

/-! ### item 3: sampler steps -/

/-- the part of a sampler the three invariants talk about: its `cutoff` field and the configuration
(state at p = 0 and the container's slot array) -/
structure Sampler where
  cutoff : Nat
  cfg : Config

/-- `if let Some(bond_weights) = &self.bond_weights { heat-bath } else { Metropolis }` -/
def diagUpdate (H : Ham) (bw : Option BW) (β : Rat) (cutoff : Nat) (c : Config) (rs : RS) : Config × RS :=
  match bw with
  | none => metropolisSweep H β cutoff c rs
  | some t => heatBathSweep H t β cutoff c rs

/-- the sign / table hypothesis of whichever sweep runs -/
def DiagOK (H : Ham) (bw : Option BW) (β : Rat) : Prop :=
  match bw with
  | none => MetroSigns H β
  | some t => TableOK H t

/-- A full `timestep` with the spin-only middle part left abstract: diagonal sweep with the sampler's
cutoff; `mid` (cluster update, loop update, spin part of RVB, … or nothing); free-spin refresh; growth
rule `cutoff = max(cutoff, n + n/2 + 1)` on the new operator count. -/
def samplerStepWith (mid : Config → RS → Config × RS) (H : Ham) (bw : Option BW) (β : Rat) (s : Sampler)
    (rs : RS) : Sampler × RS :=
  let d := diagUpdate H bw β s.cutoff s.cfg rs
  let m := mid d.1 d.2
  let r := freeRefresh m.1 m.2
  ({ cutoff := nextCutoff s.cutoff (countOps r.1.slots), cfg := r.1 }, r.2)

/-- `QmcIsingGraph::timestep` without its cluster / RVB part (equivalently `single_diagonal_step`
followed by the refresh): sweep ; refresh ; cutoff rule. -/
def isingStepNoCluster (H : Ham) (bw : Option BW) (β : Rat) (s : Sampler) (rs : RS) : Sampler × RS :=
  samplerStepWith (fun c rs => (c, rs)) H bw β s rs

/-- what the middle part has to be, on configurations with `n` variables that are consistent and
legal: a spin-only update (same skeleton, link-closed flip set) that keeps every changed matrix element
positive — i.e. a `Step.flip` of C06/C07 -/
def MidOK (H : Ham) (n : Nat) (mid : Config → RS → Config × RS) : Prop :=
  ∀ c rs, c.state.length = n → Consistent c → Legal H c →
    SpinFlipStep c (mid c rs).1 ∧ FlipKeepsWeight H c.slots (mid c rs).1.slots

/-- the samplers after each step of a run (one `β` per step, one RNG threaded through) -/
def runTraceWith (mid : Config → RS → Config × RS) (H : Ham) (bw : Option BW) :
    List Rat → Sampler → RS → List Sampler
  | [], _, _ => []
  | β :: t, s, rs =>
    let r := samplerStepWith mid H bw β s rs
    r.1 :: runTraceWith mid H bw t r.1 r.2

/-- the same run as a C06 history: three entries per step (after the sweep, after `mid`, after the
refresh) -/
def runHistoryWith (mid : Config → RS → Config × RS) (H : Ham) (bw : Option BW) :
    List Rat → Sampler → RS → List (Ham × Config)
  | [], _, _ => []
  | β :: t, s, rs =>
    let d := diagUpdate H bw β s.cutoff s.cfg rs
    let m := mid d.1 d.2
    let r := samplerStepWith mid H bw β s rs
    (H, d.1) :: (H, m.1) :: (H, r.1.cfg) :: runHistoryWith mid H bw t r.1 r.2

def runTrace := runTraceWith (fun c rs => (c, rs))
def runHistory := runHistoryWith (fun c rs => (c, rs))

theorem diagUpdate_is_diagSweepStep (H : Ham) (bw : Option BW) (β : Rat) (h : DiagOK H bw β)
    (cutoff : Nat) (c : Config) (rs : RS) : DiagSweepStep H cutoff c (diagUpdate H bw β cutoff c rs).1 := by
  cases bw with
  | none => exact metropolisSweep_is_diagSweepStep H β h cutoff c rs
  | some t => exact heatBathSweep_is_diagSweepStep H t h β cutoff c rs

theorem diagUpdate_length (H : Ham) (bw : Option BW) (β : Rat) (cutoff : Nat) (c : Config) (rs : RS) :
    (diagUpdate H bw β cutoff c rs).1.slots.length = max c.slots.length cutoff := by
  cases bw with
  | none => exact sweep_length _ cutoff c rs
  | some t => exact sweep_length _ cutoff c rs

/-- doing nothing is an admissible middle part -/
theorem midOK_id (H : Ham) (n : Nat) (hH : HamWF H n) : MidOK H n (fun c rs => (c, rs)) := by
  intro c rs hn _ hl
  exact ⟨free_spinFlip H n hH c c hn hl ⟨rfl, rfl, fun _ _ => rfl⟩, flipKeepsWeight_refl H c.slots⟩

/-- what one sampler step is and keeps: three public calls in the sense of C06/C07, and all invariants -/
theorem samplerStep_spec (mid : Config → RS → Config × RS) (H : Ham) (n : Nat) (hH : HamWF H n)
    (hmid : MidOK H n mid) (bw : Option BW) (β : Rat)
    (hd : DiagOK H bw β) (s : Sampler) (rs : RS) (hn : s.cfg.state.length = n)
    (hinv : s.cfg.slots.length ≤ s.cutoff) (hc : Consistent s.cfg) (hl : Legal H s.cfg) :
    let d := diagUpdate H bw β s.cutoff s.cfg rs
    let m := mid d.1 d.2
    let r := samplerStepWith mid H bw β s rs
    Step H s.cfg d.1 ∧ Step H d.1 m.1 ∧ Step H m.1 r.1.cfg ∧
    (d.1.state.length = n ∧ Consistent d.1 ∧ Legal H d.1) ∧
    r.1.cfg.state.length = n ∧ r.1.cfg.slots.length ≤ r.1.cutoff ∧ Consistent r.1.cfg ∧ Legal H r.1.cfg := by
  intro d m r
  have h1 : Step H s.cfg d.1 := Step.diag s.cutoff hinv (diagUpdate_is_diagSweepStep H bw β hd _ _ _)
  obtain ⟨c1, l1, n1⟩ := step_pres H n hH _ _ h1 hn hc hl
  obtain ⟨hm1, hm2⟩ := hmid d.1 d.2 n1 c1 l1
  have h2 : Step H d.1 m.1 := Step.flip hm1 hm2
  obtain ⟨c2, l2, n2⟩ := step_pres H n hH _ _ h2 n1 c1 l1
  have h3 : Step H m.1 r.1.cfg := freeRefresh_is_step H n hH m.1 m.2 n2 l2
  obtain ⟨c3, l3, n3⟩ := step_pres H n hH _ _ h3 n2 c2 l2
  refine ⟨h1, h2, h3, ⟨n1, c1, l1⟩, n3, ?_, c3, l3⟩
  have hlen : r.1.cfg.slots.length = max s.cfg.slots.length s.cutoff := by
    have e1 : r.1.cfg.slots.length = m.1.slots.length := rfl
    rw [e1, sameSkeleton_length hm1.2.1]
    exact diagUpdate_length H bw β s.cutoff s.cfg rs
  rw [hlen]
  have := nextCutoff_ge_left s.cutoff (countOps r.1.cfg.slots)
  show max s.cfg.slots.length s.cutoff ≤ nextCutoff s.cutoff (countOps r.1.cfg.slots)
  omega

/-- any number of full sampler steps with an admissible middle part is a `History` of `Step`s -/
theorem sampler_step_history_with (mid : Config → RS → Config × RS) (H : Ham) (n : Nat) (hH : HamWF H n)
    (hmid : MidOK H n mid) (bw : Option BW) :
    ∀ (βs : List Rat) (s : Sampler) (rs : RS), (∀ β ∈ βs, DiagOK H bw β) →
      s.cfg.state.length = n → s.cfg.slots.length ≤ s.cutoff → Consistent s.cfg → Legal H s.cfg →
      History n H s.cfg (runHistoryWith mid H bw βs s rs)
  | [], _, _, _, _, _, _, _ => trivial
  | β :: t, s, rs, hd, hn, hinv, hc, hl => by
    obtain ⟨h1, h2, h3, _, n2, i2, c2, l2⟩ :=
      samplerStep_spec mid H n hH hmid bw β (hd β (List.mem_cons_self ..)) s rs hn hinv hc hl
    exact ⟨Or.inl ⟨rfl, h1⟩, Or.inl ⟨rfl, h2⟩, Or.inl ⟨rfl, h3⟩,
      sampler_step_history_with mid H n hH hmid bw t _ _
        (fun b hb => hd b (List.mem_cons_of_mem _ hb)) n2 i2 c2 l2⟩

/-- **`sampler_step_history`**: any number of steps `sweep ; refresh ; cutoff rule`, with any
temperatures and any script, from a consistent legal configuration whose container is not longer than
the cutoff, is a `History` of `Step`s of C06/C07. -/
theorem sampler_step_history (H : Ham) (n : Nat) (hH : HamWF H n) (bw : Option BW)
    (βs : List Rat) (s : Sampler) (rs : RS) (hd : ∀ β ∈ βs, DiagOK H bw β)
    (hn : s.cfg.state.length = n) (hinv : s.cfg.slots.length ≤ s.cutoff) (hc : Consistent s.cfg)
    (hl : Legal H s.cfg) : History n H s.cfg (runHistory H bw βs s rs) :=
  sampler_step_history_with _ H n hH (midOK_id H n hH) bw βs s rs hd hn hinv hc hl

/-- every sampler of the trace shows up in the history -/
theorem runTrace_sub_history (mid : Config → RS → Config × RS) (H : Ham) (bw : Option BW) :
    ∀ (βs : List Rat) (s : Sampler) (rs : RS) (t : Sampler), t ∈ runTraceWith mid H bw βs s rs →
      (H, t.cfg) ∈ runHistoryWith mid H bw βs s rs
  | [], _, _, _, h => by simp [runTraceWith] at h
  | β :: r, s, rs, t, h => by
    simp only [runTraceWith, List.mem_cons] at h
    simp only [runHistoryWith, List.mem_cons]
    rcases h with h | h
    · right; right; left; rw [h]
    · right; right; right; exact runTrace_sub_history mid H bw r _ _ t h

/-! ### the occupancy abstraction: C06's sweep relation is C12's sweep shape -/

/-- which slots hold an operator (what C12's `CSampler.occ` records) -/
def occOf (s : Slots) : List Bool := s.map Option.isSome

/-- the C12 view of a sampler -/
def Sampler.abs (s : Sampler) : CSampler := { cutoff := s.cutoff, occ := occOf s.cfg.slots }

theorem countOcc_occ (s : Slots) : countOcc (occOf s) = countOps s := by
  unfold countOcc occOf countOps
  induction s with
  | nil => rfl
  | cons x t ih => cases x <;> simp_all

theorem growOcc_occ (s : Slots) (L : Nat) : growOcc (occOf s) L = occOf (padTo s L) := by
  simp [growOcc, occOf, padTo]

theorem sameSkeleton_occ {b a : Slots} (h : SameSkeleton b a) : occOf a = occOf b := by
  induction h with
  | nil => rfl
  | none _ ih => simpa [occOf] using ih
  | some _ _ _ _ _ ih => simpa [occOf] using ih

/-- **a `DiagSweepStep` has the shape C12 demands of a sweep**: container grown to the cutoff, slots
at or above the cutoff untouched -/
theorem diagSweepStep_isSweepResult (H : Ham) (L : Nat) (b a : Config) (h : DiagSweepStep H L b a) :
    isSweepResult L (occOf b.slots) (occOf a.slots) = true := by
  obtain ⟨h1, h2⟩ := h
  have hl := diagSlots_length h1
  have hlen : a.slots.length = (padTo b.slots L).length := by
    rw [← List.take_append_drop L a.slots, ← List.take_append_drop L (padTo b.slots L),
      List.length_append, List.length_append, hl, h2]
  unfold isSweepResult
  rw [Bool.and_eq_true]
  constructor
  · rw [beq_iff_eq, growLen_eq_max]
    simp only [occOf, List.length_map, hlen, padTo, List.length_append, List.length_replicate]
    omega
  · rw [beq_iff_eq, growOcc_occ]
    simp only [occOf, ← List.map_drop, h2]

/-- one sampler step is one `CSampler.timestep` of C12 for some slot decisions -/
theorem samplerStep_abs (mid : Config → RS → Config × RS) (H : Ham) (n : Nat) (hH : HamWF H n)
    (hmid : MidOK H n mid) (bw : Option BW) (β : Rat) (hd : DiagOK H bw β) (s : Sampler) (rs : RS)
    (hn : s.cfg.state.length = n) (hinv : s.cfg.slots.length ≤ s.cutoff) (hc : Consistent s.cfg)
    (hl : Legal H s.cfg) :
    ∃ d, (samplerStepWith mid H bw β s rs).1.abs = CSampler.timestep d s.abs := by
  have hstep := diagUpdate_is_diagSweepStep H bw β hd s.cutoff s.cfg rs
  obtain ⟨d, hd'⟩ := isSweepResult_complete _ _ _ (diagSweepStep_isSweepResult H _ _ _ hstep)
  refine ⟨d, ?_⟩
  obtain ⟨_, _, _, ⟨n1, c1, l1⟩, _⟩ := samplerStep_spec mid H n hH hmid bw β hd s rs hn hinv hc hl
  have hm := (hmid _ (diagUpdate H bw β s.cutoff s.cfg rs).2 n1 c1 l1).1
  have hslots : occOf (samplerStepWith mid H bw β s rs).1.cfg.slots
      = occOf (diagUpdate H bw β s.cutoff s.cfg rs).1.slots := sameSkeleton_occ hm.2.1
  have hcount : countOps (samplerStepWith mid H bw β s rs).1.cfg.slots
      = countOcc (occOf (diagUpdate H bw β s.cutoff s.cfg rs).1.slots) := by
    rw [← hslots, countOcc_occ]
  unfold Sampler.abs CSampler.timestep CSampler.diagStep CSampler.diagStepWith
  simp only
  rw [hd', hslots]
  show CSampler.mk (nextCutoff s.cutoff (countOps (samplerStepWith mid H bw β s rs).1.cfg.slots)) _ = _
  rw [hcount]

theorem runTrace_abs (mid : Config → RS → Config × RS) (H : Ham) (n : Nat) (hH : HamWF H n)
    (hmid : MidOK H n mid) (bw : Option BW) : ∀ (βs : List Rat) (s : Sampler) (rs : RS),
    (∀ β ∈ βs, DiagOK H bw β) →
    s.cfg.state.length = n → s.cfg.slots.length ≤ s.cutoff → Consistent s.cfg → Legal H s.cfg →
    ∃ ds, (runTraceWith mid H bw βs s rs).map Sampler.abs = CSampler.trace ds s.abs
  | [], _, _, _, _, _, _, _ => ⟨[], rfl⟩
  | β :: t, s, rs, hd, hn, hinv, hc, hl => by
    have hβ := hd β (List.mem_cons_self ..)
    obtain ⟨d, h1⟩ := samplerStep_abs mid H n hH hmid bw β hβ s rs hn hinv hc hl
    obtain ⟨_, _, _, _, n2, i2, c2, l2⟩ := samplerStep_spec mid H n hH hmid bw β hβ s rs hn hinv hc hl
    obtain ⟨ds, h2⟩ := runTrace_abs mid H n hH hmid bw t (samplerStepWith mid H bw β s rs).1
      (samplerStepWith mid H bw β s rs).2 (fun b hb => hd b (List.mem_cons_of_mem _ hb)) n2 i2 c2 l2
    refine ⟨d :: ds, ?_⟩
    simp only [runTraceWith, List.map_cons, CSampler.trace]
    rw [h2, h1]

/-- the combined invariant for full time steps with any admissible spin-only middle part -/
theorem run_consistent_legal_headroom_with (mid : Config → RS → Config × RS) (H : Ham) (n : Nat)
    (hH : HamWF H n) (hmid : MidOK H n mid) (bw : Option BW)
    (βs : List Rat) (s : Sampler) (rs : RS) (hd : ∀ β ∈ βs, DiagOK H bw β)
    (hn : s.cfg.state.length = n) (hinv : s.cfg.slots.length ≤ s.cutoff)
    (hc : Consistent s.cfg) (hl : Legal H s.cfg) :
    ∀ t ∈ runTraceWith mid H bw βs s rs,
      Consistent t.cfg ∧ Legal H t.cfg ∧ t.cfg.slots.length ≤ t.cutoff ∧ s.cutoff ≤ t.cutoff ∧
      countOps t.cfg.slots < t.cutoff ∧ countOps t.cfg.slots + countOps t.cfg.slots / 2 + 1 ≤ t.cutoff := by
  intro t ht
  have hist := sampler_step_history_with mid H n hH hmid bw βs s rs hd hn hinv hc hl
  obtain ⟨c1, l1⟩ := Qmc.C06.reachable_inv n _ H s.cfg hH hn hc hl hist (H, t.cfg)
    (runTrace_sub_history mid H bw βs s rs t ht)
  obtain ⟨ds, hds⟩ := runTrace_abs mid H n hH hmid bw βs s rs hd hn hinv hc hl
  have hmem : t.abs ∈ CSampler.trace ds s.abs := by
    rw [← hds]; exact List.mem_map_of_mem ht
  have hinv' : s.abs.Inv := by
    unfold CSampler.Inv CSampler.len Sampler.abs occOf
    simpa using hinv
  obtain ⟨i1, i2, i3, i4⟩ := Qmc.C12.run_invariant ds s.abs hinv' t.abs hmem
  have hnn : t.abs.n = countOps t.cfg.slots := countOcc_occ _
  rw [hnn] at i3 i4
  refine ⟨c1, l1, ?_, i2, i3, i4⟩
  unfold CSampler.Inv CSampler.len Sampler.abs occOf at i1
  simpa using i1

/-- **`run_consistent_legal_headroom`** — the world-line invariants (C06, C07) and the cutoff invariant
(C12) in one statement about the exact update functions. Start: any sampler whose configuration is
consistent and legal for a well-formed Hamiltonian and whose container is not longer than its cutoff
(every constructor of the library: empty string, `C06.init_consistent_legal`,
`C12.library_samplers_start_valid`). Run: any number of steps `sweep ; refresh ; cutoff rule`
(Metropolis or heat bath), any temperatures satisfying the sign hypothesis, ANY RNG script. Then
after every step: the configuration is consistent and legal, the container fits under the cutoff (so
the next sweep covers the whole string — the hypothesis of `diagSweep_pres`), the cutoff never fell
below the starting one, at least one slot is free and the margin is `n/2 + 1`. -/
theorem run_consistent_legal_headroom (H : Ham) (n : Nat) (hH : HamWF H n) (bw : Option BW)
    (βs : List Rat) (s : Sampler) (rs : RS) (hd : ∀ β ∈ βs, DiagOK H bw β)
    (hn : s.cfg.state.length = n) (hinv : s.cfg.slots.length ≤ s.cutoff)
    (hc : Consistent s.cfg) (hl : Legal H s.cfg) :
    ∀ t ∈ runTrace H bw βs s rs,
      Consistent t.cfg ∧ Legal H t.cfg ∧ t.cfg.slots.length ≤ t.cutoff ∧ s.cutoff ≤ t.cutoff ∧
      countOps t.cfg.slots < t.cutoff ∧ countOps t.cfg.slots + countOps t.cfg.slots / 2 + 1 ≤ t.cutoff :=
  run_consistent_legal_headroom_with _ H n hH (midOK_id H n hH) bw βs s rs hd hn hinv hc hl

end Qmc.Refine
