/-
C11, per-variable chains on the canonical container: the uninstall loop of `mutate_p`.
-/
import QmcProofs.FastOpsVar

namespace Qmc

/-! ### slots facts for the per-variable predicates -/

def hasVar (x : Option Op) (v : Nat) : Bool :=
  match x with
  | some o => o.vars.contains v
  | none => false

theorem occV_set (s : Slots) (p : Nat) (x : Option Op) (v : Nat) (hp : p < s.length) :
    occVAt (s.set p x) v = upd (occVAt s v) p (hasVar x v) := by
  funext q
  unfold occVAt upd
  rw [slotAt_set]
  by_cases h : q = p
  · subst h; simp [hp, hasVar]; cases x <;> rfl
  · have : ¬ p = q := fun e => h e.symm
    simp [h, this]

theorem relAt_set_ne (s : Slots) (p : Nat) (x : Option Op) (v q : Nat) (h : q ≠ p) :
    relAt (s.set p x) v q = relAt s v q := by
  unfold relAt
  rw [slotAt_set]
  have : ¬ p = q := fun e => h e.symm
  simp [this]

theorem occV_of_mem {s : Slots} {q : Nat} {op : Op} {v : Nat} (h : slotAt s q = some op) (hv : v ∈ op.vars) :
    occVAt s v q = true := by
  unfold occVAt; rw [h]; simpa using hv

theorem occV_false_of_not_mem {s : Slots} {q : Nat} {op : Op} {v : Nat} (h : slotAt s q = some op)
    (hv : v ∉ op.vars) : occVAt s v q = false := by
  unfold occVAt; rw [h]; simpa using hv

theorem mem_of_occV {s : Slots} {q : Nat} {op : Op} {v : Nat} (h : slotAt s q = some op)
    (hv : occVAt s v q = true) : v ∈ op.vars := by
  unfold occVAt at hv; rw [h] at hv; simpa using hv

/-! ### reads of the canonical container -/

theorem nfv_canon (nv : Nat) (nb : Option Nat) (s : Slots) (q : Nat) :
    (canon nv nb s).nfv q = (slotAt s q).map (fun oq => oq.vars.map (fun w => nextRel s w q)) := by
  unfold FastOps.nfv
  rw [getNode_canon]
  cases slotAt s q <;> rfl

theorem pfv_canon (nv : Nat) (nb : Option Nat) (s : Slots) (q : Nat) :
    (canon nv nb s).pfv q = (slotAt s q).map (fun oq => oq.vars.map (fun w => prevRel s w q)) := by
  unfold FastOps.pfv
  rw [getNode_canon]
  cases slotAt s q <;> rfl

theorem lastPRel_scan (nv : Nat) (s : Slots) (p u v : Nat) (hv : v < nv) :
    (cursorByScan nv s p u).lastPRel v = prevRel s v p := by
  simp only [Cursor.lastPRel, Cursor.varToSubvar, cursorByScan, Cursor.lastVar, Cursor.lastRel,
    Option.getD_some, List.getElem?_map, List.getElem?_range hv, Option.map_some, Option.join_some]
  cases prevRel s v p <;> rfl

/-! ### the uninstall loop -/

section Uninstall
variable (s : Slots) (p : Nat)

/-- per-variable predicate while the op at `p` is being unlinked: variables in `D` are done -/
def PD (D : List Nat) (w : Nat) : Nat → Bool :=
  if w ∈ D then upd (occVAt s w) p false else occVAt s w

def nextRelD (D : List Nat) (w q : Nat) : Option PRel :=
  (nextOcc (PD s p D w) s.length q).map (relAt s w)
def prevRelD (D : List Nat) (w q : Nat) : Option PRel :=
  (prevOcc (PD s p D w) q).map (relAt s w)
def endsD (D : List Nat) (w : Nat) : Option (PRel × PRel) :=
  zipOpt ((firstOcc (PD s p D w) s.length).map (relAt s w)) ((lastOcc (PD s p D w) s.length).map (relAt s w))

/-- loop invariant of the uninstall loop -/
structure VI (nv : Nat) (D : List Nat) (c : FastOps) : Prop where
  hn : ∀ q, q ≠ p → c.nfv q = (slotAt s q).map (fun oq => oq.vars.map (fun w => nextRelD s p D w q))
  hp : ∀ q, q ≠ p → c.pfv q = (slotAt s q).map (fun oq => oq.vars.map (fun w => prevRelD s p D w q))
  hnp : c.nfv p = none
  hpp : c.pfv p = none
  hv : c.varEnds = (List.range nv).map (endsD s p D)

theorem PD_cons_ne {D : List Nat} {v w : Nat} (h : w ≠ v) : PD s p (v :: D) w = PD s p D w := by
  unfold PD
  simp [h]

theorem PD_cons_self {D : List Nat} {v : Nat} (h : v ∉ D) :
    PD s p (v :: D) v = upd (occVAt s v) p false ∧ PD s p D v = occVAt s v := by
  unfold PD
  simp [h]

end Uninstall

theorem uninstallVar_step (nv : Nat) (nb : Option Nat) (s : Slots) (p : Nat) (op : Op)
    (hsp : slotAt s p = some op) (hwf : WF nv nb s) (a : Cursor)
    (ha : ∀ v, v < nv → a.lastPRel v = prevRel s v p)
    (D : List Nat) (c : FastOps) (h : VI s p nv D c) (v relv : Nat) (hvr : op.vars[relv]? = some v)
    (hvD : v ∉ D) :
    VI s p nv (v :: D) (FastOps.uninstallVar (canonNode s p op) a c (v, relv)) := by
  have hpL := slotAt_lt hsp
  have hvmem : v ∈ op.vars := List.mem_of_getElem? hvr
  obtain ⟨_, hnodup, hlt, _⟩ := hwf p op hsp
  have hvn : v < nv := hlt v hvmem
  have hlast := ha v hvn
  have hnn : FastOps.nodeNext (canonNode s p op) relv = nextRel s v p := by
    simp [FastOps.nodeNext, canonNode, List.getElem?_map, hvr]
  have hnp : FastOps.nodePrev (canonNode s p op) relv = prevRel s v p := by
    simp [FastOps.nodePrev, canonNode, List.getElem?_map, hvr]
  obtain ⟨hPv', hPv⟩ := PD_cons_self s p hvD
  have hocc_p : occVAt s v p = true := occV_of_mem hsp hvmem
  constructor
  · -- next_for_vars
    intro q hq
    rw [FastOps.nfv_uninstallVar, h.hn q hq, hlast, hnn]
    cases hsq : slotAt s q with
    | none => rfl
    | some oq =>
      simp only [Option.map_some, Option.map_map]
      congr 1
      obtain ⟨_, hnd_q, _, _⟩ := hwf q oq hsq
      have key : ∀ w, w ∈ oq.vars →
          (if w = v ∧ prevOcc (occVAt s v) p = some q then nextRel s v p else nextRelD s p D w q)
            = nextRelD s p (v :: D) w q := by
        intro w hw
        by_cases hwv : w = v
        · subst hwv
          have hq_occ : occVAt s w q = true := occV_of_mem hsq hw
          unfold nextRelD
          rw [hPv', hPv, nextOcc_remove hq_occ hq]
          unfold nextRel
          split <;> simp_all
        · simp only [hwv, false_and, if_false]
          unfold nextRelD
          rw [PD_cons_ne s p hwv]
      have goal2 : oq.vars.map (fun w => nextRelD s p (v :: D) w q)
          = oq.vars.map (fun w => if w = v ∧ prevOcc (occVAt s v) p = some q then nextRel s v p
              else nextRelD s p D w q) := by
        apply List.map_congr_left
        intro w hw
        exact (key w hw).symm
      rw [goal2]
      unfold prevRel
      cases hprev : prevOcc (occVAt s v) p with
      | none =>
        simp only [Option.map_none]
        apply List.map_congr_left
        intro w _
        simp
      | some q' =>
        simp only [Option.map_some]
        by_cases hqq : q' = q
        · subst hqq
          have hq_occ := (prevOcc_lt hprev).2
          have hvq : v ∈ oq.vars := mem_of_occV hsq hq_occ
          simp only [relAt, hsq, if_true]
          rw [map_set_nodup oq.vars _ v _ hvq hnd_q]
          apply List.map_congr_left
          intro w _
          by_cases hwv : w = v <;> simp [hwv]
        · have : ¬ (relAt s v q').p = q := hqq
          simp only [this, if_false]
          apply List.map_congr_left
          intro w _
          have : ¬ (some q' = some q) := by simpa using hqq
          simp [this]
  · -- previous_for_vars
    intro q hq
    rw [FastOps.pfv_uninstallVar, h.hp q hq, hlast, hnn]
    cases hsq : slotAt s q with
    | none => rfl
    | some oq =>
      simp only [Option.map_some, Option.map_map]
      congr 1
      obtain ⟨_, hnd_q, _, _⟩ := hwf q oq hsq
      have hqL := slotAt_lt hsq
      have key : ∀ w, w ∈ oq.vars →
          (if w = v ∧ nextOcc (occVAt s v) s.length p = some q then prevRel s v p else prevRelD s p D w q)
            = prevRelD s p (v :: D) w q := by
        intro w hw
        by_cases hwv : w = v
        · subst hwv
          have hq_occ : occVAt s w q = true := occV_of_mem hsq hw
          unfold prevRelD
          rw [hPv', hPv, prevOcc_remove hq_occ hq hqL]
          unfold prevRel
          split <;> simp_all
        · simp only [hwv, false_and, if_false]
          unfold prevRelD
          rw [PD_cons_ne s p hwv]
      have goal2 : oq.vars.map (fun w => prevRelD s p (v :: D) w q)
          = oq.vars.map (fun w => if w = v ∧ nextOcc (occVAt s v) s.length p = some q then prevRel s v p
              else prevRelD s p D w q) := by
        apply List.map_congr_left
        intro w hw
        exact (key w hw).symm
      rw [goal2]
      unfold nextRel
      cases hnext : nextOcc (occVAt s v) s.length p with
      | none =>
        simp only [Option.map_none]
        apply List.map_congr_left
        intro w _
        simp
      | some q' =>
        simp only [Option.map_some]
        by_cases hqq : q' = q
        · subst hqq
          have hq_occ := (nextOcc_gt hnext).2.2
          have hvq : v ∈ oq.vars := mem_of_occV hsq hq_occ
          simp only [relAt, hsq, if_true]
          rw [map_set_nodup oq.vars _ v _ hvq hnd_q]
          apply List.map_congr_left
          intro w _
          by_cases hwv : w = v <;> simp [hwv]
        · have : ¬ (relAt s v q').p = q := hqq
          simp only [this, if_false]
          apply List.map_congr_left
          intro w _
          have : ¬ (some q' = some q) := by simpa using hqq
          simp [this]
  · rw [FastOps.nfv_uninstallVar, h.hnp]; rfl
  · rw [FastOps.pfv_uninstallVar, h.hpp]; rfl
  · -- var_ends
    have hvl : v < c.varEnds.length := by rw [h.hv]; simpa using hvn
    rw [FastOps.varEnds_uninstallVar _ _ _ _ hvl]
    simp only [hlast, hnn, hnp]
    have he0 : c.varEnd v = endsD s p D v := by
      simp [FastOps.varEnd, h.hv, List.getElem?_map, List.getElem?_range hvn]
    rw [he0, h.hv]
    apply List.ext_getElem?
    intro w
    rw [List.getElem?_set]
    simp only [List.length_map, List.length_range, List.getElem?_map]
    by_cases hwv : v = w
    · subst hwv
      simp only [if_true, hvn, List.getElem?_range hvn, Option.map_some]
      congr 1
      have := ends_remove (L := s.length) hocc_p hpL (relAt s v)
      simp only [] at this
      unfold endsD
      rw [hPv', hPv]
      rw [← this]
      unfold prevRel nextRel
      generalize (prevOcc (occVAt s v) p).map (relAt s v) = A
      generalize (nextOcc (occVAt s v) s.length p).map (relAt s v) = B
      generalize zipOpt ((firstOcc (occVAt s v) s.length).map (relAt s v))
        ((lastOcc (occVAt s v) s.length).map (relAt s v)) = E
      rcases A with _ | a0 <;> rcases B with _ | b0 <;> rcases E with _ | ⟨x, y⟩ <;> rfl
    · simp only [hwv, if_false]
      cases hw : (List.range nv)[w]? with
      | none => rfl
      | some w' =>
        have : w' = w := by
          have hwlt : w < nv := by
            by_cases hh : w < nv
            · exact hh
            · rw [List.getElem?_eq_none (by simpa using Nat.le_of_not_lt hh)] at hw; cases hw
          rw [List.getElem?_range hwlt] at hw
          exact (Option.some.inj hw).symm
        subst this
        simp only [Option.map_some]
        unfold endsD
        rw [PD_cons_ne s p (fun e => hwv e.symm)]


theorem uninstallVars_fold (nv : Nat) (nb : Option Nat) (s : Slots) (p : Nat) (op : Op)
    (hsp : slotAt s p = some op) (hwf : WF nv nb s) (a : Cursor)
    (ha : ∀ v, v < nv → a.lastPRel v = prevRel s v p) :
    ∀ (l : List (Nat × Nat)) (D : List Nat) (c : FastOps),
      (∀ x ∈ l, op.vars[x.2]? = some x.1) → (l.map (·.1)).Nodup → (∀ x ∈ l, x.1 ∉ D) →
      VI s p nv D c →
      VI s p nv ((l.map (·.1)).reverse ++ D) (l.foldl (FastOps.uninstallVar (canonNode s p op) a) c) := by
  intro l
  induction l with
  | nil => intro D c _ _ _ h; simpa using h
  | cons x t ih =>
    intro D c h1 h2 h3 h
    simp only [List.map_cons, List.nodup_cons] at h2
    have hx := h1 x (by simp)
    have hxD := h3 x (by simp)
    have hstep := uninstallVar_step nv nb s p op hsp hwf a ha D c h x.1 x.2 hx hxD
    have := ih (x.1 :: D) _ (fun y hy => h1 y (by simp [hy])) h2.2
      (by
        intro y hy
        simp only [List.mem_cons, not_or]
        refine ⟨?_, h3 y (by simp [hy])⟩
        intro e
        apply h2.1
        rw [← e]
        exact List.mem_map_of_mem hy) hstep
    simpa [List.reverse_cons, List.append_assoc] using this

theorem zipIdx_getElem? (l : List Nat) : ∀ x ∈ l.zipIdx, l[x.2]? = some x.1 := by
  intro x hx
  obtain ⟨_, h2, h3⟩ := List.mem_zipIdx hx
  simp only [Nat.sub_zero, Nat.zero_add] at h2 h3
  rw [List.getElem?_eq_getElem h2, h3]

theorem map_relAt_congr (s : Slots) (p : Nat) (x : Option Op) (w : Nat) (o : Option Nat)
    (h : ∀ y, o = some y → y ≠ p) : o.map (relAt s w) = o.map (relAt (s.set p x) w) := by
  cases o with
  | none => rfl
  | some y => simp only [Option.map_some]; rw [relAt_set_ne s p x w y (h y rfl)]

/-- after the loop every per-variable field is canonical for the slots with `p` emptied -/
theorem VI_final (nv : Nat) (s : Slots) (p : Nat) (op : Op) (hsp : slotAt s p = some op)
    (D : List Nat) (hD : ∀ w, w ∈ op.vars → w ∈ D) (c : FastOps) (h : VI s p nv D c) :
    (∀ q, c.nfv q = (slotAt (s.set p none) q).map (fun oq => oq.vars.map (fun w => nextRel (s.set p none) w q))) ∧
    (∀ q, c.pfv q = (slotAt (s.set p none) q).map (fun oq => oq.vars.map (fun w => prevRel (s.set p none) w q))) ∧
    c.varEnds = (List.range nv).map (canonVarEnd (s.set p none)) := by
  have hpL := slotAt_lt hsp
  have hP : ∀ w, PD s p D w = occVAt (s.set p none) w := by
    intro w
    rw [occV_set s p none w hpL]
    unfold PD
    simp only [hasVar]
    by_cases hw : w ∈ D
    · simp [hw]
    · simp only [hw, if_false]
      have : w ∉ op.vars := fun e => hw (hD w e)
      rw [upd_self_eq (occV_false_of_not_mem hsp this)]
  have hfalse : ∀ w, occVAt (s.set p none) w p = false := by
    intro w; rw [occV_set s p none w hpL]; simp [hasVar]
  have hne : ∀ w y, occVAt (s.set p none) w y = true → y ≠ p := by
    intro w y hy e; subst e; rw [hfalse] at hy; cases hy
  refine ⟨?_, ?_, ?_⟩
  · intro q
    by_cases hq : q = p
    · subst hq; rw [h.hnp]; simp [slotAt_set, hpL]
    · rw [h.hn q hq, slotAt_set]
      have : ¬ p = q := fun e => hq e.symm
      simp only [this, false_and, if_false]
      cases slotAt s q with
      | none => rfl
      | some oq =>
        simp only [Option.map_some]
        congr 1
        apply List.map_congr_left
        intro w _
        unfold nextRelD nextRel
        rw [hP, List.length_set]
        apply map_relAt_congr
        intro y hy
        exact hne w y (nextOcc_gt hy).2.2
  · intro q
    by_cases hq : q = p
    · subst hq; rw [h.hpp]; simp [slotAt_set, hpL]
    · rw [h.hp q hq, slotAt_set]
      have : ¬ p = q := fun e => hq e.symm
      simp only [this, false_and, if_false]
      cases slotAt s q with
      | none => rfl
      | some oq =>
        simp only [Option.map_some]
        congr 1
        apply List.map_congr_left
        intro w _
        unfold prevRelD prevRel
        rw [hP]
        apply map_relAt_congr
        intro y hy
        exact hne w y (prevOcc_lt hy).2
  · rw [h.hv]
    apply List.map_congr_left
    intro w _
    unfold endsD canonVarEnd firstRel lastRel
    rw [hP, List.length_set]
    congr 1
    · apply map_relAt_congr
      intro y hy
      exact hne w y (firstOcc_mem hy).2
    · apply map_relAt_congr
      intro y hy
      exact hne w y (lastOcc_mem hy).2

/-- B-remove, per-variable half -/
theorem uninstall_var_canon (nv : Nat) (nb : Option Nat) (s : Slots) (p : Nat) (op : Op)
    (hsp : slotAt s p = some op) (hwf : WF nv nb s) (a : Cursor)
    (ha : ∀ v, v < nv → a.lastPRel v = prevRel s v p) :
    let c' := FastOps.uninstall ((canon nv nb s).setOp p none) (canonNode s p op) a
    (∀ q, c'.nfv q = (canon nv nb (s.set p none)).nfv q) ∧
    (∀ q, c'.pfv q = (canon nv nb (s.set p none)).pfv q) ∧
    c'.varEnds = (canon nv nb (s.set p none)).varEnds := by
  have hpL := slotAt_lt hsp
  obtain ⟨_, hnodup, _, _⟩ := hwf p op hsp
  -- base state
  let c1 := FastOps.uninstallGlobal ((canon nv nb s).setOp p none) (canonNode s p op) a
  have hbase : VI s p nv [] c1 := by
    constructor
    · intro q hq
      have : ¬ p = q := fun e => hq e.symm
      simp only [c1, FastOps.nfv_uninstallGlobal, FastOps.nfv_setOp, this, false_and, if_false, nfv_canon]
      rfl
    · intro q hq
      have : ¬ p = q := fun e => hq e.symm
      simp only [c1, FastOps.pfv_uninstallGlobal, FastOps.pfv_setOp, this, false_and, if_false, pfv_canon]
      rfl
    · simp [c1, FastOps.nfv_uninstallGlobal, hpL]
    · simp [c1, FastOps.pfv_uninstallGlobal, hpL]
    · simp only [c1, FastOps.varEnds_uninstallGlobal, FastOps.varEnds_setOp]
      rfl
  have hfold := uninstallVars_fold nv nb s p op hsp hwf a ha op.vars.zipIdx [] c1
    (zipIdx_getElem? op.vars) (by rw [List.zipIdx_map_fst]; exact hnodup) (by simp) hbase
  have hfin := VI_final nv s p op hsp _ (by
    intro w hw
    simp only [List.append_nil, List.mem_reverse, List.zipIdx_map_fst]
    exact hw) _ hfold
  simp only [FastOps.uninstall, FastOps.nfv_decrBond, FastOps.nfv_setN, FastOps.pfv_decrBond,
    FastOps.pfv_setN, FastOps.varEnds_decrBond, FastOps.varEnds_setN, nfv_canon, pfv_canon]
  exact hfin

end Qmc
