/-
Lemmas about the directed-loop model (QmcModel/Loop.lean): algebra of leg toggles, equal
normalisers of the heat-bath exit choice, the cumulative pick, preservation of skeleton /
well-formedness / positivity of matrix elements by every vertex visit.
-/
import QmcModel.Loop
import QmcProofs.CommonRand
import Mathlib.Tactic.Ring
import Mathlib.Tactic.Linarith
import Mathlib.Tactic.NormNum
import Mathlib.Tactic.FieldSimp
import Mathlib.Algebra.Order.Field.Rat

namespace Qmc

/-! ### toggles -/

theorem not_comp_not : (not ∘ not) = (id : Bool → Bool) := by
  funext b; cases b <;> rfl

theorem modify_not_not (l : List Bool) (i : Nat) : (l.modify i not).modify i not = l := by
  rw [List.modify_modify_eq, not_comp_not, List.modify_id]

theorem modify_not_comm (l : List Bool) (i j : Nat) :
    (l.modify i not).modify j not = (l.modify j not).modify i not := by
  by_cases h : i = j
  · subst h; rfl
  · exact List.modify_modify_ne _ _ _ h

/-- toggling the same leg twice is the identity (a bounce leaves the op unchanged) -/
theorem flipIO_flipIO (io : List Bool × List Bool) (l : Leg) : flipIO (flipIO io l) l = io := by
  unfold flipIO
  cases h : l.out <;> simp [modify_not_not]

/-- toggles commute -/
theorem flipIO_comm (io : List Bool × List Bool) (a b : Leg) :
    flipIO (flipIO io a) b = flipIO (flipIO io b) a := by
  unfold flipIO
  cases ha : a.out <;> cases hb : b.out <;> simp [modify_not_comm]

theorem flipIO_length (io : List Bool × List Bool) (l : Leg) :
    (flipIO io l).1.length = io.1.length ∧ (flipIO io l).2.length = io.2.length := by
  unfold flipIO
  cases h : l.out <;> simp

/-! ### sums -/

theorem foldl_add_init (l : List Rat) (a : Rat) : l.foldl (· + ·) a = a + l.foldl (· + ·) 0 := by
  induction l generalizing a with
  | nil => simp
  | cons x t ih =>
    simp only [List.foldl_cons]
    rw [ih (a + x), ih (0 + x)]; ring

theorem sumR_nil : sumR [] = 0 := rfl

theorem sumR_cons (a : Rat) (t : List Rat) : sumR (a :: t) = a + sumR t := by
  unfold sumR
  simp only [List.foldl_cons]
  rw [foldl_add_init]; ring

theorem sumR_nonneg (l : List Rat) (h : ∀ x ∈ l, 0 ≤ x) : 0 ≤ sumR l := by
  induction l with
  | nil => simp [sumR_nil]
  | cons a t ih =>
    rw [sumR_cons]
    have h1 := h a (by simp)
    have h2 := ih (fun x hx => h x (by simp [hx]))
    linarith

theorem sumR_ge_mem (l : List Rat) (h : ∀ x ∈ l, 0 ≤ x) (a : Rat) (ha : a ∈ l) : a ≤ sumR l := by
  induction l with
  | nil => simp at ha
  | cons b t ih =>
    rw [sumR_cons]
    have hb := h b (by simp)
    have ht : ∀ x ∈ t, 0 ≤ x := fun x hx => h x (by simp [hx])
    rcases List.mem_cons.mp ha with rfl | ha'
    · have := sumR_nonneg t ht; linarith
    · have := ih ht ha'; linarith

/-! ### the heat-bath exit choice -/

/-- the state seen when walking the reverse move: `s' = s` with `i` and `e` toggled, entered at
`e`; every candidate exit `x` of the reverse visit reaches the same state as exit `x` of the
forward visit. -/
theorem exitWeight_reverse (W : List Bool → List Bool → Rat) (io : List Bool × List Bool)
    (i e x : Leg) :
    exitWeight W (flipIO (flipIO io i) e) e x = exitWeight W io i x := by
  unfold exitWeight
  simp only [flipIO_flipIO]

/-- **equal normalisers**: the total exit weight of the reverse visit equals that of the
forward visit. -/
theorem exitWeights_reverse (W : List Bool → List Bool → Rat) (io : List Bool × List Bool)
    (i e : Leg) (k : Nat) :
    exitWeights W (flipIO (flipIO io i) e) e k = exitWeights W io i k := by
  unfold exitWeights
  apply List.map_congr_left
  intro x _
  exact exitWeight_reverse W io i e x

/-- going back through the entrance restores the original matrix element -/
theorem exitWeight_back (W : List Bool → List Bool → Rat) (io : List Bool × List Bool)
    (i e : Leg) :
    exitWeight W (flipIO (flipIO io i) e) e i = W io.1 io.2 := by
  rw [exitWeight_reverse]
  unfold exitWeight
  simp only [flipIO_flipIO]

/-- a bounce has the weight of the unchanged op -/
theorem exitWeight_bounce (W : List Bool → List Bool → Rat) (io : List Bool × List Bool) (i : Leg) :
    exitWeight W io i i = W io.1 io.2 := by
  unfold exitWeight; simp only [flipIO_flipIO]

/-- probability that the visit entered at `i` leaves through `e` -/
def exitProb (W : List Bool → List Bool → Rat) (io : List Bool × List Bool) (i e : Leg) (k : Nat) : Rat :=
  exitWeight W io i e / sumR (exitWeights W io i k)

theorem exitProb_balance (W : List Bool → List Bool → Rat) (io : List Bool × List Bool)
    (i e : Leg) (k : Nat) :
    W io.1 io.2 * exitProb W io i e k
      = W (flipIO (flipIO io i) e).1 (flipIO (flipIO io i) e).2
          * exitProb W (flipIO (flipIO io i) e) e i k := by
  unfold exitProb
  rw [exitWeights_reverse, exitWeight_back]
  unfold exitWeight
  ring

/-! ### legs -/

theorem legsOf_length (k : Nat) : (legsOf k).length = 2 * k := by
  unfold legsOf; simp; omega

theorem mem_legsOf (k : Nat) (l : Leg) : l ∈ legsOf k ↔ l.rel < k := by
  unfold legsOf
  simp only [List.mem_append, List.mem_map, List.mem_range]
  constructor
  · rintro (⟨v, hv, rfl⟩ | ⟨v, hv, rfl⟩) <;> exact hv
  · intro h
    rcases l with ⟨r, o⟩
    cases o
    · exact Or.inl ⟨r, h, rfl⟩
    · exact Or.inr ⟨r, h, rfl⟩

/-! ### the cumulative pick -/

theorem pickIdx_lt {c : Rat} {ws : List Rat} {j : Nat} (h : pickIdx c ws = some j) : j < ws.length := by
  induction ws generalizing c j with
  | nil => simp [pickIdx] at h
  | cons w t ih =>
    unfold pickIdx at h
    split at h
    · injection h with h; subst h; simp
    · cases hp : pickIdx (c - w) t with
      | none => simp [hp] at h
      | some j' =>
        simp [hp] at h; subst h
        have := ih hp; simp; omega

/-- the chosen entry is strictly positive whenever the draw is non-negative: a zero-weight
exit is never taken, not even by the boundary draw `c = 0` (the comparison is `c < w`). -/
theorem pickIdx_pos {c : Rat} {ws : List Rat} {j : Nat} (hc : 0 ≤ c)
    (h : pickIdx c ws = some j) : ∃ w, ws[j]? = some w ∧ 0 < w := by
  induction ws generalizing c j with
  | nil => simp [pickIdx] at h
  | cons w t ih =>
    unfold pickIdx at h
    split at h
    · rename_i hlt
      injection h with h; subst h
      exact ⟨w, rfl, lt_of_le_of_lt hc hlt⟩
    · rename_i hge
      cases hp : pickIdx (c - w) t with
      | none => simp [hp] at h
      | some j' =>
        simp [hp] at h; subst h
        have hc' : 0 ≤ c - w := by linarith [not_lt.mp hge]
        obtain ⟨x, hx, hpos⟩ := ih hc' hp
        exact ⟨x, by simpa using hx, hpos⟩

/-- the pick in closed form: index `j` is chosen exactly on the half-open interval
`[Σ_{i<j} w_i, Σ_{i≤j} w_i)` — its length is `w_j`, i.e. under a uniform draw on `[0, total)`
exit `j` has probability `w_j / total`. -/
theorem pickIdx_iff (ws : List Rat) (hw : ∀ x ∈ ws, 0 ≤ x) (c : Rat) (hc : 0 ≤ c) (j : Nat) :
    pickIdx c ws = some j ↔
      j < ws.length ∧ sumR (ws.take j) ≤ c ∧ c < sumR (ws.take (j + 1)) := by
  induction ws generalizing c j with
  | nil => simp [pickIdx]
  | cons w t ih =>
    have hw0 := hw w (by simp)
    have ht : ∀ x ∈ t, 0 ≤ x := fun x hx => hw x (by simp [hx])
    unfold pickIdx
    cases j with
    | zero =>
      simp only [List.take_zero, sumR_nil, List.take_succ_cons, sumR_cons, List.length_cons]
      split
      · rename_i hlt; simp [hc, hlt]
      · rename_i hge
        constructor
        · intro h
          cases hp : pickIdx (c - w) t <;> simp [hp] at h
        · rintro ⟨_, _, h⟩; exact absurd (by linarith) hge
    | succ j' =>
      simp only [List.take_succ_cons, sumR_cons, List.length_cons]
      split
      · rename_i hlt
        constructor
        · intro h; simp at h
        · rintro ⟨_, h, _⟩
          have := sumR_nonneg (t.take j') (fun x hx => ht x (List.mem_of_mem_take hx))
          exact absurd hlt (not_lt.mpr (by linarith))
      · rename_i hge
        have hc' : 0 ≤ c - w := by linarith [not_lt.mp hge]
        have := ih ht (c - w) hc' j'
        constructor
        · intro h
          cases hp : pickIdx (c - w) t with
          | none => simp [hp] at h
          | some j'' =>
            simp [hp] at h; subst h
            obtain ⟨h1, h2, h3⟩ := this.mp hp
            exact ⟨by omega, by linarith, by linarith⟩
        · rintro ⟨h1, h2, h3⟩
          have := this.mpr ⟨by omega, by linarith, by linarith⟩
          simp [this]

/-- with exact arithmetic a draw below the total always finds an exit (`unwrap_err` cannot fail) -/
theorem pickIdx_total (ws : List Rat) (hw : ∀ x ∈ ws, 0 ≤ x) (c : Rat) (hc : 0 ≤ c)
    (hlt : c < sumR ws) : ∃ j, pickIdx c ws = some j := by
  induction ws generalizing c with
  | nil => simp [sumR_nil] at hlt; exact absurd hlt (not_lt.mpr hc)
  | cons w t ih =>
    unfold pickIdx
    split
    · exact ⟨0, rfl⟩
    · rename_i hge
      rw [sumR_cons] at hlt
      obtain ⟨j, hj⟩ := ih (fun x hx => hw x (by simp [hx])) (c - w)
        (by linarith [not_lt.mp hge]) (by linarith)
      exact ⟨j + 1, by simp [hj]⟩

/-! ### draws -/

/-! `genRangeF_nonneg` is in QmcProofs/CommonRand.lean -/

/-! ### invariants of one vertex visit -/

/-- every stored op is structurally well formed -/
def WFSlots (slots : Slots) : Prop := ∀ o, some o ∈ slots → o.WF

/-- every stored op has a strictly positive matrix element (C07's `Legal`, weight part) -/
def LegalSlots (w : Nat → List Bool → List Bool → Rat) (slots : Slots) : Prop :=
  ∀ o, some o ∈ slots → 0 < w o.bond o.ins o.outs

theorem passThrough_fields (op : Op) (a b : Leg) :
    (passThrough op a b).vars = op.vars ∧ (passThrough op a b).bond = op.bond ∧
    (passThrough op a b).const = op.const := by
  simp [passThrough, Op.withInOut]

theorem passThrough_io (op : Op) (a b : Leg) :
    ((passThrough op a b).ins, (passThrough op a b).outs) = flipIO (flipIO (op.ins, op.outs) a) b := by
  simp [passThrough, Op.withInOut]

theorem passThrough_WF (op : Op) (a b : Leg) (h : op.WF) : (passThrough op a b).WF := by
  obtain ⟨h1, h2, h3, _⟩ := h
  have l1 := flipIO_length (flipIO (op.ins, op.outs) a) b
  have l0 := flipIO_length (op.ins, op.outs) a
  refine ⟨?_, ?_, ?_, ?_⟩
  · simp only [passThrough, Op.withInOut]; rw [l1.1, l0.1]; exact h1
  · simp only [passThrough, Op.withInOut]; rw [l1.2, l0.2]; exact h2
  · simpa [passThrough, Op.withInOut] using h3
  · intro ht
    simp only [passThrough, Op.withInOut, beq_iff_eq] at ht ⊢
    exact ht.symm

theorem mem_set_some {slots : Slots} {pos : Nat} {x o : Op} (h : some o ∈ slots.set pos (some x)) :
    o = x ∨ some o ∈ slots := by
  rcases List.mem_or_eq_of_mem_set h with h | h
  · exact Or.inr h
  · exact Or.inl (Option.some.inj h)

theorem skeletonOf_set (slots : Slots) (pos : Nat) (op op' : Op) (h : slots[pos]? = some (some op))
    (hv : op'.vars = op.vars) (hb : op'.bond = op.bond) (hc : op'.const = op.const) :
    skeletonOf (slots.set pos (some op')) = skeletonOf slots := by
  unfold skeletonOf
  rw [List.map_set]
  apply List.ext_getElem?
  intro i
  by_cases hi : pos = i
  · subst hi
    have hlt : pos < slots.length := by
      rcases Nat.lt_or_ge pos slots.length with h' | h'
      · exact h'
      · rw [List.getElem?_eq_none h'] at h; cases h
    rw [List.getElem?_set_self (by simpa using hlt), List.getElem?_map, h]
    simp [hv, hb, hc]
  · rw [List.getElem?_set_ne hi]

/-- the facts about one vertex visit from which all preservation theorems follow: either the
slot list is untouched, or exactly the visited slot was rewritten with `passThrough op ent ex`
for an exit `ex` of strictly positive weight. -/
theorem loopBody_slots (w : Nat → List Bool → List Bool → Rat) (init : Nat × Leg) (pos : Nat)
    (ent : Leg) (s : LoopSt) :
    (loopBody w init pos ent s).1.slots = s.slots ∨
    ∃ op ex, s.slots[pos]? = some (some op) ∧ ex.rel < op.vars.length ∧
      0 < exitWeight (w op.bond) (op.ins, op.outs) ent ex ∧
      (loopBody w init pos ent s).1.slots = s.slots.set pos (some (passThrough op ent ex)) := by
  unfold loopBody
  split
  · rename_i op hop
    simp only
    split
    · exact Or.inl rfl
    · split
      · exact Or.inl rfl
      · rename_i j hj
        right
        have hc := genRangeF_nonneg s.rs (sumR (exitWeights (w op.bond) (op.ins, op.outs) ent op.vars.length))
        obtain ⟨x, hx, hpos⟩ := pickIdx_pos hc hj
        have hjl := pickIdx_lt hj
        simp only [exitWeights, List.length_map] at hjl
        have hleg : (legsOf op.vars.length).getD j default = (legsOf op.vars.length)[j] := by
          simp [List.getD, List.getElem?_eq_getElem hjl]
        refine ⟨op, (legsOf op.vars.length).getD j default, hop, ?_, ?_, ?_⟩
        · rw [hleg]; exact (mem_legsOf _ _).mp (List.getElem_mem hjl)
        · rw [hleg]
          simp only [exitWeights, List.getElem?_map, List.getElem?_eq_getElem hjl, Option.map_some,
            Option.some.injEq] at hx
          rw [hx]; exact hpos
        · split
          · rfl
          · split
            · split <;> rfl
            · rfl
  · exact Or.inl rfl

theorem loopBody_state_length (w : Nat → List Bool → List Bool → Rat) (init : Nat × Leg) (pos : Nat)
    (ent : Leg) (s : LoopSt) : (loopBody w init pos ent s).1.state.length = s.state.length := by
  unfold loopBody
  split
  · simp only
    split
    · rfl
    · split
      · rfl
      · split
        · rfl
        · rename_i op _ _ _ _ _
          split
          · rename_i st' p' r' hm
            have : st'.length = s.state.length := by
              unfold moveOn at hm
              simp only at hm
              split at hm
              · split at hm <;> (injection hm with h1 _; subst h1; simp)
              · split at hm <;> (injection hm with h1 _; subst h1; simp)
            split <;> exact this
          · rename_i st' hm
            unfold moveOn at hm
            simp only at hm
            split at hm
            · split at hm <;> (injection hm with h1 _; subst h1; simp)
            · split at hm <;> (injection hm with h1 _; subst h1; simp)
  · rfl

/-- the invariant bundle preserved by the loop update -/
structure LoopInv (w : Nat → List Bool → List Bool → Rat) (sk : List (Option (List Nat × Nat × Bool)))
    (n : Nat) (slots : Slots) (state : List Bool) : Prop where
  skel : skeletonOf slots = sk
  wf : WFSlots slots
  legal : LegalSlots w slots
  len : state.length = n

theorem loopBody_inv (w : Nat → List Bool → List Bool → Rat)
    (init : Nat × Leg) (pos : Nat) (ent : Leg) (s : LoopSt) {sk n}
    (h : LoopInv w sk n s.slots s.state) :
    LoopInv w sk n (loopBody w init pos ent s).1.slots (loopBody w init pos ent s).1.state := by
  have hlen := loopBody_state_length w init pos ent s
  rcases loopBody_slots w init pos ent s with heq | ⟨op, ex, hop, _, hpos, heq⟩
  · rw [heq]; exact ⟨h.skel, h.wf, h.legal, by rw [hlen]; exact h.len⟩
  · rw [heq]
    have hmem : some op ∈ s.slots := List.mem_of_getElem? hop
    obtain ⟨fv, fb, fc⟩ := passThrough_fields op ent ex
    refine ⟨?_, ?_, ?_, by rw [hlen]; exact h.len⟩
    · rw [skeletonOf_set s.slots pos op _ hop fv fb fc]; exact h.skel
    · intro o ho
      rcases mem_set_some ho with rfl | ho
      · exact passThrough_WF op ent ex (h.wf op hmem)
      · exact h.wf o ho
    · intro o ho
      rcases mem_set_some ho with rfl | ho
      · rw [fb]
        have := passThrough_io op ent ex
        unfold exitWeight at hpos
        simp only at hpos
        rw [← this] at hpos
        exact hpos
      · exact h.legal o ho

theorem loopIter_inv (w : Nat → List Bool → List Bool → Rat)
    (init : Nat × Leg) (fuel pos : Nat) (ent : Leg) (s : LoopSt) {sk n}
    (h : LoopInv w sk n s.slots s.state) :
    LoopInv w sk n (loopIter w init fuel pos ent s).slots (loopIter w init fuel pos ent s).state := by
  induction fuel generalizing pos ent s with
  | zero => exact h
  | succ f ih =>
    unfold loopIter
    have hb := loopBody_inv w init pos ent s h
    split
    · rename_i s' heq; rw [heq] at hb; exact hb
    · rename_i s' p e heq; rw [heq] at hb; exact ih p e s' hb

theorem loopUpdate_inv (w : Nat → List Bool → List Bool → Rat)
    (cfg : Config) (rs : RS) {sk n} (h : LoopInv w sk n cfg.slots cfg.state) :
    LoopInv w sk n (loopUpdate w cfg rs).1.slots (loopUpdate w cfg rs).1.state := by
  unfold loopUpdate
  split
  · exact h
  · split
    · exact h
    · exact loopIter_inv w _ _ _ _ _ h

/-! ### start selection depends on the skeleton only -/

theorem skeleton_getElem? {s1 s2 : Slots} (h : skeletonOf s1 = skeletonOf s2) (p : Nat) :
    (s1[p]?).map (Option.map (fun o : Op => (o.vars, o.bond, o.const)))
      = (s2[p]?).map (Option.map (fun o : Op => (o.vars, o.bond, o.const))) := by
  have := congrArg (fun l => l[p]?) h
  simpa [skeletonOf, List.getElem?_map] using this

theorem skeleton_length {s1 s2 : Slots} (h : skeletonOf s1 = skeletonOf s2) : s1.length = s2.length := by
  have := congrArg List.length h
  simpa [skeletonOf] using this

theorem skeleton_occupied {s1 s2 : Slots} (h : skeletonOf s1 = skeletonOf s2) (p : Nat) :
    isOcc s1[p]? = isOcc s2[p]? := by
  have := skeleton_getElem? h p
  cases h1 : s1[p]? with
  | none => cases h2 : s2[p]? with
    | none => rfl
    | some y => rw [h1, h2] at this; simp at this
  | some x => cases h2 : s2[p]? with
    | none => rw [h1, h2] at this; simp at this
    | some y =>
      rw [h1, h2] at this
      cases x <;> cases y <;> simp [isOcc] at this ⊢

theorem occ_skeleton {s1 s2 : Slots} (h : skeletonOf s1 = skeletonOf s2) : occ s1 = occ s2 := by
  unfold occ
  rw [skeleton_length h]
  apply List.filter_congr
  intro p _
  exact skeleton_occupied h p

theorem occ_cons (a : Option Op) (t : Slots) :
    occ (a :: t) = (if a.isSome then [0] else []) ++ (occ t).map Nat.succ := by
  unfold occ
  rw [List.length_cons, List.range_succ_eq_map, List.filter_cons, List.filter_map]
  have : ((fun p => isOcc (a :: t)[p]?) ∘ Nat.succ) = (fun p => isOcc t[p]?) := by
    funext p; simp
  rw [this]
  cases a <;> simp [isOcc]

theorem countOps_eq_occ (s : Slots) : countOps s = (occ s).length := by
  induction s with
  | nil => rfl
  | cons a t ih =>
    rw [occ_cons, List.length_append, List.length_map, ← ih]
    unfold countOps
    cases a <;> simp <;> omega

theorem vars_of_skeleton {s1 s2 : Slots} (h : skeletonOf s1 = skeletonOf s2) (p : Nat) (o1 o2 : Op)
    (h1 : s1[p]? = some (some o1)) (h2 : s2[p]? = some (some o2)) : o1.vars = o2.vars := by
  have := skeleton_getElem? h p
  rw [h1, h2] at this
  simp at this
  exact this.1

/-- the number of variable slots and the slot walk read the skeleton only -/
theorem totalVars_pickLeg_skeleton {s1 s2 : Slots} (h : skeletonOf s1 = skeletonOf s2) :
    totalVars s1 = totalVars s2 ∧ ∀ p c, pickLeg s1 p c = pickLeg s2 p c := by
  induction s1 generalizing s2 with
  | nil =>
    cases s2 with
    | nil => exact ⟨rfl, fun _ _ => rfl⟩
    | cons y t => simp [skeletonOf] at h
  | cons x t ih =>
    cases s2 with
    | nil => simp [skeletonOf] at h
    | cons y t2 =>
      simp only [skeletonOf, List.map_cons, List.cons.injEq] at h
      obtain ⟨hxy, ht⟩ := h
      obtain ⟨i1, i2⟩ := ih (s2 := t2) ht
      cases x with
      | none =>
        cases y with
        | none => exact ⟨by simp only [totalVars]; exact i1, fun p c => by simp only [pickLeg]; exact i2 _ _⟩
        | some o2 => simp at hxy
      | some o1 =>
        cases y with
        | none => simp at hxy
        | some o2 =>
          simp only [Option.map_some, Option.some.injEq, Prod.mk.injEq] at hxy
          refine ⟨by simp only [totalVars]; rw [hxy.1, i1], fun p c => ?_⟩
          simp only [pickLeg]; rw [hxy.1, i2]

/-- the start (op position, leg) is a function of the skeleton and the draws only: it does not
look at any spin value. -/
theorem loopStart_skeleton {s1 s2 : Slots} (h : skeletonOf s1 = skeletonOf s2) (rs : RS) :
    loopStart s1 rs = loopStart s2 rs := by
  obtain ⟨h1, h2⟩ := totalVars_pickLeg_skeleton h
  unfold loopStart
  rw [h1]
  simp only [h2]

/-! ### the slot walk: a chain-order bijection onto the legs' variables -/

theorem totalVars_append (a b : Slots) : totalVars (a ++ b) = totalVars a + totalVars b := by
  induction a with
  | nil => simp [totalVars]
  | cons x t ih => cases x <;> simp [totalVars, ih, Nat.add_assoc]

/-- **the slot map in closed form**: draw `a` selects relative variable `r` of the op at `p` iff
`a` = (number of variable slots of the ops before `p`) + `r` -/
theorem pickLeg_iff (slots : Slots) (p0 a p r : Nat) :
    pickLeg slots p0 a = some (p, r) ↔
      ∃ j op, p = p0 + j ∧ slots[j]? = some (some op) ∧ r < op.vars.length ∧
        a = totalVars (slots.take j) + r := by
  induction slots generalizing p0 a with
  | nil => simp [pickLeg]
  | cons x t ih =>
    cases x with
    | none =>
      simp only [pickLeg]
      rw [ih]
      constructor
      · rintro ⟨j, op, hp, hj, hr, ha⟩
        exact ⟨j + 1, op, by omega, by simpa using hj, hr, by simpa [totalVars] using ha⟩
      · rintro ⟨j, op, hp, hj, hr, ha⟩
        cases j with
        | zero => simp at hj
        | succ j => exact ⟨j, op, by omega, by simpa using hj, hr, by simpa [totalVars] using ha⟩
    | some o =>
      simp only [pickLeg]
      split
      · rename_i hlt
        constructor
        · intro h
          injection h with h; injection h with h1 h2
          subst h1; subst h2
          exact ⟨0, o, rfl, rfl, hlt, by simp [totalVars]⟩
        · rintro ⟨j, op, hp, hj, hr, ha⟩
          cases j with
          | zero =>
            simp only [List.take_zero, totalVars, Nat.zero_add] at ha
            subst ha; subst hp; rfl
          | succ j =>
            simp only [List.take_succ_cons, totalVars] at ha
            omega
      · rename_i hge
        rw [ih]
        constructor
        · rintro ⟨j, op, hp, hj, hr, ha⟩
          refine ⟨j + 1, op, by omega, by simpa using hj, hr, ?_⟩
          simp only [List.take_succ_cons, totalVars]
          omega
        · rintro ⟨j, op, hp, hj, hr, ha⟩
          cases j with
          | zero =>
            simp only [List.getElem?_cons_zero, Option.some.injEq] at hj
            subst hj
            simp only [List.take_zero, totalVars, Nat.zero_add] at ha
            omega
          | succ j =>
            refine ⟨j, op, by omega, by simpa using hj, hr, ?_⟩
            simp only [List.take_succ_cons, totalVars] at ha
            omega

/-- every draw below the total selects a leg variable (the `unwrap`s of the walk cannot fail) -/
theorem pickLeg_total (slots : Slots) (p0 a : Nat) (h : a < totalVars slots) :
    ∃ q, pickLeg slots p0 a = some q := by
  induction slots generalizing p0 a with
  | nil => simp [totalVars] at h
  | cons x t ih =>
    cases x with
    | none => simp only [pickLeg]; exact ih _ _ (by simpa [totalVars] using h)
    | some o =>
      simp only [pickLeg]
      split
      · exact ⟨_, rfl⟩
      · rename_i hge
        simp only [totalVars] at h
        exact ih _ _ (by omega)

/-- the slot index of an existing leg variable is below the total -/
theorem slotIndex_lt (slots : Slots) (p r : Nat) (op : Op) (h : slots[p]? = some (some op))
    (hr : r < op.vars.length) : totalVars (slots.take p) + r < totalVars slots := by
  have hs : slots = slots.take p ++ some op :: slots.drop (p + 1) := by
    obtain ⟨hl, he⟩ := List.getElem?_eq_some_iff.mp h
    rw [← he, ← List.drop_eq_getElem_cons hl, List.take_append_drop]
  conv => rhs; rw [hs]
  rw [totalVars_append]
  simp only [totalVars]
  omega

/-- `occ` is strictly increasing, hence the k-th occupied slot is a bijection
`{0..n-1} → occupied positions` -/
theorem occ_nodup (s : Slots) : (occ s).Nodup := by
  unfold occ
  exact List.Pairwise.filter _ List.nodup_range

theorem mem_occ (s : Slots) (p : Nat) : p ∈ occ s ↔ ∃ o, s[p]? = some (some o) := by
  unfold occ
  simp only [List.mem_filter, List.mem_range]
  constructor
  · rintro ⟨_, h⟩
    cases hs : s[p]? with
    | none => rw [hs] at h; simp [isOcc] at h
    | some x =>
      cases x with
      | none => rw [hs] at h; simp [isOcc] at h
      | some o => exact ⟨o, rfl⟩
  · rintro ⟨o, ho⟩
    refine ⟨?_, by simp [ho, isOcc]⟩
    rcases Nat.lt_or_ge p s.length with h | h
    · exact h
    · rw [List.getElem?_eq_none h] at ho; cases ho

/-- every occupied position is the `a`-th op for exactly one `a < n` -/
theorem nthOp_bijective (s : Slots) (p : Nat) (o : Op) (h : s[p]? = some (some o)) :
    ∃ a, a < countOps s ∧ nthOp s a = some p ∧
      ∀ a', a' < countOps s → nthOp s a' = some p → a' = a := by
  rw [countOps_eq_occ]
  have hm : p ∈ occ s := (mem_occ s p).mpr ⟨o, h⟩
  obtain ⟨a, ha, hap⟩ := List.getElem_of_mem hm
  have hn : ∀ a', a' < (occ s).length → nthOp s a' = (occ s)[a']? := by
    intro a' ha'
    unfold nthOp
    simp only
    rw [if_neg (by omega), Nat.mod_eq_of_lt ha']
  refine ⟨a, ha, ?_, ?_⟩
  · rw [hn a ha, List.getElem?_eq_getElem ha, hap]
  · intro a' ha' h'
    rw [hn a' ha', List.getElem?_eq_getElem ha'] at h'
    have h'' : (occ s)[a'] = (occ s)[a] := by rw [hap]; exact Option.some.inj h'
    exact (List.getElem_inj (occ_nodup s)).mp h''

end Qmc
