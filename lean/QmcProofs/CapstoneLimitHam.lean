/-
The limit `L → ∞` of the SSE measure for ANY Hamiltonian `H : Ham` with bonds on distinct in-range variables
(`VarsOK`), non-negative and SYMMETRIC matrix elements (`H.w b i o = H.w b o i`): with `M = Σ_b bondMatrix H N b` and, for
any constant `C`, the rational matrix `C·1 − M` in the role of "the Hamiltonian up to the shift `C`"
(`e^{βM} = e^{βC} e^{−β(C·1−M)}`; the thermal state does not depend on `C`),

  `ham_marginal_tendsto`   π_L(state = α)/π_L(all) → ⟨α|e^{−β(C−M)}|α⟩ / Tr e^{−β(C−M)}
  `ham_partition_tendsto`  π_L(all) → e^{βC} Tr e^{−β(C−M)}
  `ham_energy_tendsto`     C − ⟨n⟩_L/β → Tr((C−M) e^{−β(C−M)}) / Tr e^{−β(C−M)}

(`π_L = sseCutOn H β (cfgSpace H N L)`), from the general theorems of QmcProofs/CapstoneLimit.lean and the (graded)
re-indexing `cutOn_marginal`, `cutOn_total`, `sseCutOn_total_g`.  Instance: `isingClusterHam` (the Hamiltonian
`Rvb.Kernel.isingHam E` of the RVB kernel theorems): `isingClusterHam_w_nonneg`, `isingClusterHam_w_symm`.
-/
import QmcProofs.CapstoneLimit
import QmcProofs.CapstoneCount
import QmcProofs.CapstoneLimitIsing
import QmcProofs.KernelInvariance

open BigOperators Finset Filter Topology
open NormedSpace (exp)

namespace Qmc.CapstoneLimit
open Qmc Qmc.IsingSSE Qmc.Kernel Qmc.SSEConfig Qmc.Marginal

/-! ### symmetric weights ⇒ symmetric `Σ_b M_b` -/

theorem bondMatrix_sum_symm (H : Ham) (N : Nat) (hs : ∀ b i o, H.w b i o = H.w b o i) :
    (∑ b : Fin H.nbonds, bondMatrix H N b.val).IsSymm := by
  ext σ σ'
  rw [Matrix.transpose_apply, Matrix.sum_apply, Matrix.sum_apply]
  refine Finset.sum_congr rfl (fun b _ => ?_)
  unfold bondMatrix opEntry
  rw [agreeOff_comm, hs]

theorem offset_sub_symm (H : Ham) (N : Nat) (hs : ∀ b i o, H.w b i o = H.w b o i) (C : ℚ) :
    (C • (1 : Matrix (St N) (St N) ℚ) - ∑ b : Fin H.nbonds, bondMatrix H N b.val).IsSymm :=
  (Matrix.isSymm_one.smul C).sub (bondMatrix_sum_symm H N hs)

/-! ### marginal and total of `sseCutOn` (as `C01.sseCutOn_marginal`, `C01.sseCutOn_total`, restated here so that this
helper file does not import a `QmcProps` module) -/

theorem cutOn_marginal (H : Ham) [DecidablePred (Good H)] (N : Nat) (β : ℚ) (L : Nat) (α : St N)
    (hV : VarsOK H N) (hw : ∀ b < H.nbonds, ∀ i o, 0 ≤ H.w b i o) :
    ∑ c : (cfgSpace H N L : Finset Config),
        (if c.1.state = α.1 then sseCutOn H β (cfgSpace H N L) c else 0)
      = ∑ n ∈ range (L + 1), β ^ n / n.factorial
          * ((∑ b : Fin H.nbonds, bondMatrix H N b.val) ^ n) α α := by
  rw [← config_marginal H N β L α hV hw]
  show ∑ c : (cfgSpace H N L : Finset Config),
    (fun c : Config => if c.state = α.1 then (if Good H c then configWeight H β c else 0) else 0) c.1 = _
  rw [Finset.sum_coe_sort (cfgSpace H N L)
    (fun c => if c.state = α.1 then (if Good H c then configWeight H β c else 0) else 0)]
  rw [Finset.sum_filter]
  refine Finset.sum_congr rfl (fun c _ => ?_)
  by_cases h1 : c.state = α.1 <;> by_cases h2 : Good H c <;> simp [h1, h2]

theorem cutOn_total (H : Ham) [DecidablePred (Good H)] (N : Nat) (β : ℚ) (L : Nat)
    (hV : VarsOK H N) (hw : ∀ b < H.nbonds, ∀ i o, 0 ≤ H.w b i o) :
    ∑ c : (cfgSpace H N L : Finset Config), sseCutOn H β (cfgSpace H N L) c
      = ∑ n ∈ range (L + 1), β ^ n / n.factorial
          * Matrix.trace ((∑ b : Fin H.nbonds, bondMatrix H N b.val) ^ n) := by
  rw [← config_partition H N β L hV hw]
  show ∑ c : (cfgSpace H N L : Finset Config),
    (fun c : Config => if Good H c then configWeight H β c else 0) c.1 = _
  rw [Finset.sum_coe_sort (cfgSpace H N L) (fun c => if Good H c then configWeight H β c else 0)]
  rw [Finset.sum_filter]

/-! ### the three limits for a general Hamiltonian -/

section General
variable (H : Ham) [DecidablePred (Good H)] (N : Nat) (hV : VarsOK H N)
  (hw : ∀ b < H.nbonds, ∀ i o, 0 ≤ H.w b i o) (hs : ∀ b i o, H.w b i o = H.w b o i) (β C : ℚ)

include hV hw hs

theorem ham_marginal_tendsto (α : St N) :
    Tendsto (fun L : ℕ =>
        ((∑ c : (cfgSpace H N L : Finset Config),
            (if c.1.state = α.1 then sseCutOn H β (cfgSpace H N L) c else 0) : ℚ) : ℝ)
        / ((∑ c : (cfgSpace H N L : Finset Config), sseCutOn H β (cfgSpace H N L) c : ℚ) : ℝ)) atTop
      (𝓝 ((exp (-((β : ℝ) • (C • (1 : Matrix (St N) (St N) ℚ)
              - ∑ b : Fin H.nbonds, bondMatrix H N b.val).map ((↑) : ℚ → ℝ)))) α α
        / Matrix.trace (exp (-((β : ℝ) • (C • (1 : Matrix (St N) (St N) ℚ)
              - ∑ b : Fin H.nbonds, bondMatrix H N b.val).map ((↑) : ℚ → ℝ)))))) := by
  refine (marginal_ratio_tendsto β C _ (offset_sub_symm H N hs C) α).congr (fun L => ?_)
  rw [cutOn_marginal H N β L α hV hw, cutOn_total H N β L hV hw, sub_sub_cancel]

theorem ham_partition_tendsto :
    Tendsto (fun L : ℕ =>
        ((∑ c : (cfgSpace H N L : Finset Config), sseCutOn H β (cfgSpace H N L) c : ℚ) : ℝ)) atTop
      (𝓝 (Real.exp ((β : ℝ) * (C : ℝ))
        * Matrix.trace (exp (-((β : ℝ) • (C • (1 : Matrix (St N) (St N) ℚ)
              - ∑ b : Fin H.nbonds, bondMatrix H N b.val).map ((↑) : ℚ → ℝ)))))) := by
  have _ := hs
  refine (partition_tendsto β C _).congr (fun L => ?_)
  rw [cutOn_total H N β L hV hw, sub_sub_cancel]

theorem ham_energy_tendsto (hβ : β ≠ 0) :
    Tendsto (fun L : ℕ =>
        (C : ℝ)
          - ((∑ c : (cfgSpace H N L : Finset Config),
                (countOps c.1.slots : ℚ) * sseCutOn H β (cfgSpace H N L) c : ℚ) : ℝ)
            / ((∑ c : (cfgSpace H N L : Finset Config), sseCutOn H β (cfgSpace H N L) c : ℚ) : ℝ)
            / (β : ℝ)) atTop
      (𝓝 (Matrix.trace ((C • (1 : Matrix (St N) (St N) ℚ)
              - ∑ b : Fin H.nbonds, bondMatrix H N b.val).map ((↑) : ℚ → ℝ)
            * exp (-((β : ℝ) • (C • (1 : Matrix (St N) (St N) ℚ)
              - ∑ b : Fin H.nbonds, bondMatrix H N b.val).map ((↑) : ℚ → ℝ))))
        / Matrix.trace (exp (-((β : ℝ) • (C • (1 : Matrix (St N) (St N) ℚ)
              - ∑ b : Fin H.nbonds, bondMatrix H N b.val).map ((↑) : ℚ → ℝ)))))) := by
  refine (energy_tendsto β C _ hβ (offset_sub_symm H N hs C)).congr (fun L => ?_)
  rw [sseCutOn_total_g (fun n => (n : ℚ)) H N β L hV hw, cutOn_total H N β L hV hw, sub_sub_cancel]

end General

/-! ### the Ising Hamiltonian of the cluster / RVB kernels -/

theorem isingClusterHam_w_nonneg (edges : List (List Nat × Rat)) (g hz : Rat) (nvars : Nat) (hg : 0 ≤ g) :
    ∀ b i o, 0 ≤ (isingClusterHam edges g hz nvars).w b i o := by
  intro b i o
  simp only [isingClusterHam]
  split
  · generalize (edges[b]?.map (·.2)).getD 0 = J
    have := Kernel.absR_ge J
    unfold twoSiteW
    split
    · split
      · split <;> linarith [this.1, this.2]
      · exact le_refl _
    · exact le_refl _
  · split
    · exact hg
    · have := Kernel.absR_ge hz
      unfold longitudinalW
      split
      · split
        · exact le_refl _
        · split <;> linarith [this.1, this.2]
      · exact le_refl _

theorem isingClusterHam_w_symm (edges : List (List Nat × Rat)) (g hz : Rat) (nvars : Nat) :
    ∀ b i o, (isingClusterHam edges g hz nvars).w b i o = (isingClusterHam edges g hz nvars).w b o i := by
  intro b i o
  simp only [isingClusterHam]
  split
  · generalize (edges[b]?.map (·.2)).getD 0 = J
    rcases i with _ | ⟨a, _ | ⟨a', _ | ⟨a'', i⟩⟩⟩ <;> rcases o with _ | ⟨c, _ | ⟨c', _ | ⟨c'', o⟩⟩⟩ <;>
      simp only [twoSiteW]
    cases a <;> cases a' <;> cases c <;> cases c' <;> simp
  · split
    · rfl
    · rcases i with _ | ⟨a, _ | ⟨a', i⟩⟩ <;> rcases o with _ | ⟨c, _ | ⟨c', o⟩⟩ <;> simp only [longitudinalW]
      cases a <;> cases c <;> simp

end Qmc.CapstoneLimit
