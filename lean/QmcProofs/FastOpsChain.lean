/-
C11, step 1 of Appendix B: generic chain lemmas over a predicate `P : Nat → Bool`
("this slot belongs to the chain"): characterisations of the scans `prevOcc`, `nextOcc`,
`firstOcc`, `lastOcc`, and the effect of changing `P` at one point (removal / insertion).
Instances later: the global chain (`P = occAt s`) and, per variable, `P = occVAt s v`.
-/
import QmcModel.FastOps

namespace Qmc

/-- point update of a predicate -/
def upd (P : Nat → Bool) (p : Nat) (b : Bool) : Nat → Bool := fun k => if k = p then b else P k

@[simp] theorem upd_same (P : Nat → Bool) (p : Nat) (b : Bool) : upd P p b p = b := by simp [upd]
theorem upd_ne (P : Nat → Bool) {p k : Nat} (b : Bool) (h : k ≠ p) : upd P p b k = P k := by
  simp [upd, h]

theorem prevOcc_some_iff {P : Nat → Bool} {q a : Nat} :
    prevOcc P q = some a ↔ a < q ∧ P a = true ∧ ∀ k, a < k → k < q → P k = false := by
  induction q with
  | zero => simp [prevOcc]
  | succ q ih =>
    unfold prevOcc
    by_cases h : P q = true
    · simp only [h, if_true, Option.some.injEq]
      grind
    · have h' : P q = false := by simpa using h
      simp only [h']
      grind

theorem prevOcc_none_iff {P : Nat → Bool} {q : Nat} :
    prevOcc P q = none ↔ ∀ k, k < q → P k = false := by
  induction q with
  | zero => simp [prevOcc]
  | succ q ih =>
    unfold prevOcc
    by_cases h : P q = true
    · simp only [h, if_true]
      grind
    · have h' : P q = false := by simpa using h
      simp only [h']
      grind

theorem nextFrom_some_iff {P : Nat → Bool} {k f a : Nat} :
    nextFrom P k f = some a ↔ k ≤ a ∧ a < k + f ∧ P a = true ∧ ∀ j, k ≤ j → j < a → P j = false := by
  induction f generalizing k with
  | zero => simp [nextFrom]; omega
  | succ f ih =>
    unfold nextFrom
    by_cases h : P k = true
    · simp only [h, if_true, Option.some.injEq]
      grind
    · have h' : P k = false := by simpa using h
      simp only [h']
      grind

theorem nextFrom_none_iff {P : Nat → Bool} {k f : Nat} :
    nextFrom P k f = none ↔ ∀ j, k ≤ j → j < k + f → P j = false := by
  induction f generalizing k with
  | zero => simp [nextFrom]; omega
  | succ f ih =>
    unfold nextFrom
    by_cases h : P k = true
    · simp only [h, if_true]
      grind
    · have h' : P k = false := by simpa using h
      simp only [h']
      grind

theorem nextOcc_some_iff {P : Nat → Bool} {L q a : Nat} :
    nextOcc P L q = some a ↔ q < a ∧ a < L ∧ P a = true ∧ ∀ j, q < j → j < a → P j = false := by
  unfold nextOcc; rw [nextFrom_some_iff]; grind

theorem nextOcc_none_iff {P : Nat → Bool} {L q : Nat} :
    nextOcc P L q = none ↔ ∀ j, q < j → j < L → P j = false := by
  unfold nextOcc; rw [nextFrom_none_iff]; grind

theorem firstOcc_some_iff {P : Nat → Bool} {L a : Nat} :
    firstOcc P L = some a ↔ a < L ∧ P a = true ∧ ∀ j, j < a → P j = false := by
  unfold firstOcc; rw [nextFrom_some_iff]; grind

theorem firstOcc_none_iff {P : Nat → Bool} {L : Nat} :
    firstOcc P L = none ↔ ∀ j, j < L → P j = false := by
  unfold firstOcc; rw [nextFrom_none_iff]; grind

theorem lastOcc_some_iff {P : Nat → Bool} {L a : Nat} :
    lastOcc P L = some a ↔ a < L ∧ P a = true ∧ ∀ k, a < k → k < L → P k = false := prevOcc_some_iff

theorem lastOcc_none_iff {P : Nat → Bool} {L : Nat} :
    lastOcc P L = none ↔ ∀ k, k < L → P k = false := prevOcc_none_iff

/-- scans depend only on the values of `P` (congruence on the relevant range is not needed:
we only ever compare pointwise-equal predicates) -/
theorem prevOcc_congr {P Q : Nat → Bool} (h : ∀ k, P k = Q k) (q : Nat) : prevOcc P q = prevOcc Q q := by
  have : P = Q := funext h
  rw [this]

theorem nextOcc_congr {P Q : Nat → Bool} (h : ∀ k, P k = Q k) (L q : Nat) :
    nextOcc P L q = nextOcc Q L q := by
  have : P = Q := funext h
  rw [this]

/-- all-in-one finishing tactic: case on the scans named in the goal, turn every scan equation
into its first-order characterisation, and let `grind` do the arithmetic. -/
macro "chain_finish" : tactic =>
  `(tactic| (simp only [prevOcc_some_iff, prevOcc_none_iff, nextOcc_some_iff, nextOcc_none_iff,
      firstOcc_some_iff, firstOcc_none_iff, lastOcc_some_iff, lastOcc_none_iff, upd] at * <;> grind))

/-! ### the slot itself: its own neighbours do not depend on `P p` -/

theorem prevOcc_upd_self (P : Nat → Bool) (p : Nat) (b : Bool) :
    prevOcc (upd P p b) p = prevOcc P p := by
  cases h : prevOcc P p <;> chain_finish

theorem nextOcc_upd_self (P : Nat → Bool) (L p : Nat) (b : Bool) :
    nextOcc (upd P p b) L p = nextOcc P L p := by
  cases h : nextOcc P L p <;> chain_finish

/-! ### removal (`P p` becomes false), seen from another chain member `q` -/

theorem nextOcc_remove {P : Nat → Bool} {L p q : Nat} (hq : P q = true) (hqp : q ≠ p) :
    nextOcc (upd P p false) L q =
      if prevOcc P p = some q then nextOcc P L p else nextOcc P L q := by
  split
  next h => cases h2 : nextOcc P L p <;> chain_finish
  next h => cases h2 : nextOcc P L q <;> chain_finish

theorem prevOcc_remove {P : Nat → Bool} {L p q : Nat} (hq : P q = true) (hqp : q ≠ p) (hqL : q < L) :
    prevOcc (upd P p false) q =
      if nextOcc P L p = some q then prevOcc P p else prevOcc P q := by
  split
  next h => cases h2 : prevOcc P p <;> chain_finish
  next h => cases h2 : prevOcc P q <;> chain_finish

/-! ### insertion (`P p` becomes true) -/

theorem nextOcc_insert {P : Nat → Bool} {L p q : Nat} (hq : P q = true) (hqp : q ≠ p) (hpL : p < L) :
    nextOcc (upd P p true) L q =
      if prevOcc P p = some q then some p else nextOcc P L q := by
  split
  next h => chain_finish
  next h => cases h2 : nextOcc P L q <;> chain_finish

theorem prevOcc_insert {P : Nat → Bool} {L p q : Nat} (hq : P q = true) (hqp : q ≠ p) (hqL : q < L) :
    prevOcc (upd P p true) q =
      if nextOcc P L p = some q then some p else prevOcc P q := by
  split
  next h => chain_finish
  next h => cases h2 : prevOcc P q <;> chain_finish

/-! ### ends -/

theorem firstOcc_remove {P : Nat → Bool} {L p : Nat} :
    firstOcc (upd P p false) L =
      if prevOcc P p = none then nextOcc P L p else firstOcc P L := by
  split
  next h => cases h2 : nextOcc P L p <;> chain_finish
  next h => cases h2 : firstOcc P L <;> chain_finish

theorem lastOcc_remove {P : Nat → Bool} {L p : Nat} (hpL : p < L) :
    lastOcc (upd P p false) L =
      if nextOcc P L p = none then prevOcc P p else lastOcc P L := by
  split
  next h => cases h2 : prevOcc P p <;> chain_finish
  next h => cases h2 : lastOcc P L <;> chain_finish

theorem firstOcc_insert {P : Nat → Bool} {L p : Nat} (hpL : p < L) :
    firstOcc (upd P p true) L =
      if prevOcc P p = none then some p else firstOcc P L := by
  split
  next h => chain_finish
  next h => cases h2 : firstOcc P L <;> chain_finish

theorem lastOcc_insert {P : Nat → Bool} {L p : Nat} (hpL : p < L) :
    lastOcc (upd P p true) L =
      if nextOcc P L p = none then some p else lastOcc P L := by
  split
  next h => chain_finish
  next h => cases h2 : lastOcc P L <;> chain_finish

/-! ### adjacency is symmetric; cursor step -/

theorem prev_next_adj {P : Nat → Bool} {L p q : Nat} (hp : P p = true) (hq : P q = true) (hqL : q < L) :
    prevOcc P q = some p ↔ nextOcc P L p = some q := by
  chain_finish

/-- the scan cursor after slot `p` -/
theorem prevOcc_succ (P : Nat → Bool) (p : Nat) :
    prevOcc P (p + 1) = if P p then some p else prevOcc P p := rfl

/-- first member: nothing before it; relation between `firstOcc` and `prevOcc = none` -/
theorem firstOcc_eq_of_prev_none {P : Nat → Bool} {L p : Nat} (hp : P p = true) (hpL : p < L)
    (h : prevOcc P p = none) : firstOcc P L = some p := by
  chain_finish

theorem lastOcc_eq_of_next_none {P : Nat → Bool} {L p : Nat} (hp : P p = true) (hpL : p < L)
    (h : nextOcc P L p = none) : lastOcc P L = some p := by
  chain_finish

theorem prevOcc_lt {P : Nat → Bool} {q a : Nat} (h : prevOcc P q = some a) : a < q ∧ P a = true := by
  rw [prevOcc_some_iff] at h; exact ⟨h.1, h.2.1⟩

theorem nextOcc_gt {P : Nat → Bool} {L q a : Nat} (h : nextOcc P L q = some a) :
    q < a ∧ a < L ∧ P a = true := by
  rw [nextOcc_some_iff] at h; exact ⟨h.1, h.2.1, h.2.2.1⟩

theorem firstOcc_mem {P : Nat → Bool} {L a : Nat} (h : firstOcc P L = some a) : a < L ∧ P a = true := by
  rw [firstOcc_some_iff] at h; exact ⟨h.1, h.2.1⟩

theorem lastOcc_mem {P : Nat → Bool} {L a : Nat} (h : lastOcc P L = some a) : a < L ∧ P a = true := by
  rw [lastOcc_some_iff] at h; exact ⟨h.1, h.2.1⟩

theorem nextOcc_eq_of_prevOcc_some {P : Nat → Bool} {L p lp : Nat} (h : prevOcc P p = some lp)
    (hp : P p = false) : nextOcc P L lp = nextOcc P L p := by
  cases h2 : nextOcc P L p <;> chain_finish

theorem firstOcc_eq_of_prevOcc_none {P : Nat → Bool} {L p : Nat} (h : prevOcc P p = none)
    (hp : P p = false) : firstOcc P L = nextOcc P L p := by
  cases h2 : nextOcc P L p <;> chain_finish

theorem first_some_iff_last_some {P : Nat → Bool} {L : Nat} :
    (firstOcc P L).isSome = (lastOcc P L).isSome := by
  cases h1 : firstOcc P L <;> cases h2 : lastOcc P L <;> simp <;> chain_finish

theorem first_none_of_none_none {P : Nat → Bool} {L p : Nat} (h1 : prevOcc P p = none)
    (h2 : nextOcc P L p = none) (hp : P p = false) : firstOcc P L = none ∧ lastOcc P L = none := by
  constructor <;> chain_finish

theorem first_some_of_prev_some {P : Nat → Bool} {L p lp : Nat} (h1 : prevOcc P p = some lp) (hpL : p < L) :
    ∃ f, firstOcc P L = some f := by
  cases h : firstOcc P L with
  | some f => exact ⟨f, rfl⟩
  | none => exfalso; chain_finish

theorem last_some_of_next_some {P : Nat → Bool} {L p nx : Nat} (h1 : nextOcc P L p = some nx) :
    ∃ l, lastOcc P L = some l := by
  cases h : lastOcc P L with
  | some l => exact ⟨l, rfl⟩
  | none => exfalso; chain_finish

theorem last_some_of_mem {P : Nat → Bool} {L p : Nat} (hp : P p = true) (hpL : p < L) :
    ∃ l, lastOcc P L = some l := by
  cases h : lastOcc P L with
  | some l => exact ⟨l, rfl⟩
  | none => exfalso; chain_finish

theorem first_some_of_mem {P : Nat → Bool} {L p : Nat} (hp : P p = true) (hpL : p < L) :
    ∃ f, firstOcc P L = some f := by
  cases h : firstOcc P L with
  | some f => exact ⟨f, rfl⟩
  | none => exfalso; chain_finish

theorem upd_self_eq {P : Nat → Bool} {p : Nat} {b : Bool} (h : P p = b) : upd P p b = P := by
  funext k; unfold upd; split
  · subst_vars; rfl
  · rfl

/-! ### growing the range by positions outside the chain -/

theorem nextOcc_extend {P : Nat → Bool} {L L' q : Nat} (hL : L ≤ L') (h : ∀ k, L ≤ k → P k = false) :
    nextOcc P L' q = nextOcc P L q := by
  cases h2 : nextOcc P L q <;> chain_finish

theorem firstOcc_extend {P : Nat → Bool} {L L' : Nat} (hL : L ≤ L') (h : ∀ k, L ≤ k → P k = false) :
    firstOcc P L' = firstOcc P L := by
  cases h2 : firstOcc P L <;> chain_finish

theorem lastOcc_extend {P : Nat → Bool} {L L' : Nat} (hL : L ≤ L') (h : ∀ k, L ≤ k → P k = false) :
    lastOcc P L' = lastOcc P L := by
  cases h2 : lastOcc P L <;> chain_finish

/-! ### chain ends in the two-step form the code uses, with a decoration -/

/-- ends of a chain after removing `p` (decorated by `r`), in the two-step form the code uses -/
theorem ends_remove {β : Type} {P : Nat → Bool} {L p : Nat} (hp : P p = true) (hpL : p < L) (r : Nat → β) :
    (let e0 := zipOpt ((firstOcc P L).map r) ((lastOcc P L).map r)
     let e1 := match (prevOcc P p).map r with
       | some _ => e0
       | none => (match e0 with | some (_, tail) => ((nextOcc P L p).map r).map (fun nh => (nh, tail)) | none => none)
     let e2 := match (nextOcc P L p).map r with
       | some _ => e1
       | none => (match e1 with | some (head, _) => ((prevOcc P p).map r).map (fun nt => (head, nt)) | none => none)
     e2) = zipOpt ((firstOcc (upd P p false) L).map r) ((lastOcc (upd P p false) L).map r) := by
  rw [firstOcc_remove, lastOcc_remove hpL]
  obtain ⟨f, hf⟩ := first_some_of_mem hp hpL
  obtain ⟨l, hl⟩ := last_some_of_mem hp hpL
  cases hprev : prevOcc P p with
  | none =>
    have hf' := firstOcc_eq_of_prev_none hp hpL hprev
    cases hnext : nextOcc P L p with
    | none =>
      have hl' := lastOcc_eq_of_next_none hp hpL hnext
      simp [hf', hl', zipOpt]
    | some nx => simp [hf', hl, zipOpt]
  | some lp =>
    cases hnext : nextOcc P L p with
    | none =>
      have hl' := lastOcc_eq_of_next_none hp hpL hnext
      simp [hf, hl', zipOpt]
    | some nx => simp [hf, hl, zipOpt]

/-- ends of a chain after inserting `p`; the decoration may change at `p` only -/
theorem ends_insert {β : Type} {P : Nat → Bool} {L p : Nat} (hp : P p = false) (hpL : p < L)
    (r r' : Nat → β) (hr : ∀ q, q ≠ p → r' q = r q) :
    (let e0 := zipOpt ((firstOcc P L).map r) ((lastOcc P L).map r)
     let e1 := match prevOcc P p with
       | some _ => e0
       | none => (match e0 with | some (_, tail) => some (r' p, tail) | none => some (r' p, r' p))
     let e2 := match nextOcc P L p with
       | some _ => e1
       | none => (match e1 with | some (head, _) => some (head, r' p) | none => some (r' p, r' p))
     e2) = zipOpt ((firstOcc (upd P p true) L).map r') ((lastOcc (upd P p true) L).map r') := by
  rw [firstOcc_insert hpL, lastOcc_insert hpL]
  have hne_f : ∀ f, firstOcc P L = some f → r' f = r f := by
    intro f hf; apply hr; intro e; subst e; have := (firstOcc_mem hf).2; rw [hp] at this; cases this
  have hne_l : ∀ l, lastOcc P L = some l → r' l = r l := by
    intro l hl; apply hr; intro e; subst e; have := (lastOcc_mem hl).2; rw [hp] at this; cases this
  cases hprev : prevOcc P p with
  | none =>
    cases hnext : nextOcc P L p with
    | none =>
      obtain ⟨h1, h2⟩ := first_none_of_none_none hprev hnext hp
      simp [h1, h2, zipOpt]
    | some nx =>
      obtain ⟨l, hl⟩ := last_some_of_next_some hnext
      have hf := firstOcc_eq_of_prevOcc_none (L := L) hprev hp
      simp [hf, hnext, hl, zipOpt, hne_l l hl]
  | some lp =>
    obtain ⟨f, hf⟩ := first_some_of_prev_some hprev hpL
    cases hnext : nextOcc P L p with
    | none =>
      obtain ⟨h1, h2⟩ := prevOcc_lt hprev
      obtain ⟨l, hl⟩ := last_some_of_mem h2 (by omega : lp < L)
      simp [hf, hl, zipOpt, hne_f f hf]
    | some nx =>
      obtain ⟨l, hl⟩ := last_some_of_next_some hnext
      simp [hf, hl, zipOpt, hne_f f hf, hne_l l hl]

end Qmc
