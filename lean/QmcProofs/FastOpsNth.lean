/-
C11: `get_nth_p(k)` = the `k % n`-th occupied slot.
-/
import QmcProofs.FastOpsInstallList

namespace Qmc

/-- occupied positions in `[k, k + f)`, increasing -/
def occList (P : Nat → Bool) : Nat → Nat → List Nat
  | _, 0 => []
  | k, f + 1 => if P k then k :: occList P (k + 1) f else occList P (k + 1) f

theorem occList_eq_filter (P : Nat → Bool) (k f : Nat) : occList P k f = (List.range' k f).filter P := by
  induction f generalizing k with
  | zero => rfl
  | succ f ih =>
    simp only [occList, List.range'_succ, List.filter_cons, ih]

theorem occList_congr {P Q : Nat → Bool} (k f : Nat) (h : ∀ i, k ≤ i → i < k + f → P i = Q i) :
    occList P k f = occList Q k f := by
  induction f generalizing k with
  | zero => rfl
  | succ f ih =>
    simp only [occList]
    rw [h k (Nat.le_refl k) (by omega), ih (k + 1) (fun i h1 h2 => h i (by omega) (by omega))]

theorem occList_head (P : Nat → Bool) (k f : Nat) : (occList P k f)[0]? = nextFrom P k f := by
  induction f generalizing k with
  | zero => rfl
  | succ f ih =>
    simp only [occList, nextFrom]
    split
    · rfl
    · exact ih (k + 1)

theorem occList_next (P : Nat → Bool) :
    ∀ (f k j x : Nat), (occList P k f)[j]? = some x →
      (occList P k f)[j + 1]? = nextFrom P (x + 1) (k + f - (x + 1)) ∧ P x = true ∧ k ≤ x ∧ x < k + f := by
  intro f
  induction f with
  | zero => intro k j x h; simp [occList] at h
  | succ f ih =>
    intro k j x h
    simp only [occList] at h ⊢
    by_cases hP : P k = true
    · simp only [hP, if_true] at h ⊢
      cases j with
      | zero =>
        simp only [List.getElem?_cons_zero, Option.some.injEq] at h
        subst h
        refine ⟨?_, hP, Nat.le_refl _, by omega⟩
        simp only [List.getElem?_cons_succ]
        rw [occList_head]
        congr 1
        omega
      | succ j =>
        simp only [List.getElem?_cons_succ] at h ⊢
        obtain ⟨h1, h2, h3, h4⟩ := ih (k + 1) j x h
        refine ⟨?_, h2, by omega, by omega⟩
        rw [h1]; congr 1; omega
    · have hP' : P k = false := by simpa using hP
      simp only [hP', Bool.false_eq_true, if_false] at h ⊢
      obtain ⟨h1, h2, h3, h4⟩ := ih (k + 1) j x h
      refine ⟨?_, h2, by omega, by omega⟩
      rw [h1]; congr 1; omega

theorem occPositions_eq (s : Slots) : occPositions s = occList (occAt s) 0 s.length := by
  unfold occPositions
  rw [occList_eq_filter, List.range_eq_range']

theorem countOps_eq_occList (s : Slots) (k : Nat) :
    countOps s = (occList (fun i => occAt s (i - k)) k s.length).length := by
  induction s generalizing k with
  | nil => rfl
  | cons a t ih =>
    simp only [List.length_cons, occList, Nat.sub_self]
    rw [countOps_cons_isSome]
    have hcongr : occList (fun i => occAt (a :: t) (i - k)) (k + 1) t.length
        = occList (fun i => occAt t (i - (k + 1))) (k + 1) t.length := by
      apply occList_congr
      intro i h1 _
      have : i - k = (i - (k + 1)) + 1 := by omega
      simp only [this, occ_cons_succ]
    rw [hcongr]
    have h0 : occAt (a :: t) 0 = a.isSome := by simp [occAt, slotAt]
    rw [h0]
    have := ih (k + 1)
    cases a <;> simp <;> omega

theorem countOps_eq_length_occPositions (s : Slots) : countOps s = (occPositions s).length := by
  rw [occPositions_eq, countOps_eq_occList s 0]
  simp

namespace FastOps

/-- the iteration inside `get_nth_p` -/
def nthIter (c : FastOps) (j : Nat) : Nat :=
  Nat.rec (c.getFirstP.getD 0) (fun _ p => ((c.getNode p).bind (·.nextP)).getD 0) j

theorem nthIter_canon (nv : Nat) (nb : Option Nat) (s : Slots) :
    ∀ j, j < (occPositions s).length → (occPositions s)[j]? = some ((canon nv nb s).nthIter j) := by
  intro j
  induction j with
  | zero =>
    intro hj
    rw [occPositions_eq] at hj ⊢
    rw [occList_head]
    have hf : (canon nv nb s).getFirstP = nextFrom (occAt s) 0 s.length := getFirstP_canon nv nb s
    simp only [nthIter, hf]
    cases h : nextFrom (occAt s) 0 s.length with
    | none =>
      rw [← occList_head, List.getElem?_eq_getElem hj] at h
      cases h
    | some x => rfl
  | succ j ih =>
    intro hj
    have hprev := ih (by omega)
    rw [occPositions_eq] at hj hprev ⊢
    obtain ⟨h1, h2, _, h4⟩ := occList_next (occAt s) s.length 0 j _ hprev
    rw [h1]
    obtain ⟨op, hop⟩ := occ_iff.mp h2
    have hstep : (canon nv nb s).nthIter (j + 1)
        = (((canon nv nb s).getNode ((canon nv nb s).nthIter j)).bind (·.nextP)).getD 0 := rfl
    rw [hstep, getNode_canon, hop]
    simp only [Option.map_some, Option.bind_some, canonNode, nextOcc, Nat.zero_add]
    cases h : nextFrom (occAt s) ((canon nv nb s).nthIter j + 1) (s.length - ((canon nv nb s).nthIter j + 1)) with
    | none =>
      rw [Nat.zero_add] at h1
      rw [h, List.getElem?_eq_getElem hj] at h1
      cases h1
    | some y => rfl

/-- `get_nth_p(k)` on the canonical container is the `k % n`-th occupied slot -/
theorem getNthP_canon (nv : Nat) (nb : Option Nat) (s : Slots) (hn : 0 < countOps s) (k : Nat) :
    (occPositions s)[k % countOps s]? = some ((canon nv nb s).getNthP k) := by
  have hlen := countOps_eq_length_occPositions s
  have : k % countOps s < (occPositions s).length := by rw [← hlen]; exact Nat.mod_lt _ hn
  exact nthIter_canon nv nb s (k % countOps s) this

end FastOps
end Qmc
