/-
Matrix-element facts of the transverse-field Ising Hamiltonian (`QmcModel/IsingHam.lean`) that make
`Legal` concrete for C07, and the loop update's exit-leg selection.
-/
import QmcProofs.Worldline
import Mathlib.Tactic.Linarith
import Mathlib.Tactic.Ring
import Mathlib.Algebra.Order.Field.Rat

namespace Qmc

theorem ratAbs_nonneg (r : Rat) : 0 ≤ ratAbs r := by
  unfold ratAbs; split <;> linarith

theorem ratAbs_neg_of_neg {r : Rat} (h : r < 0) : ratAbs r = -r := by simp [ratAbs, h]
theorem ratAbs_of_nonneg {r : Rat} (h : 0 ≤ r) : ratAbs r = r := by
  have : ¬ r < 0 := not_lt.mpr h
  simp [ratAbs, this]

/-- an aligned pair is satisfied by `J < 0`, an anti-aligned pair by `J > 0` -/
def sat (J : Rat) (a b : Bool) : Prop := (a = b ∧ J < 0) ∨ (a ≠ b ∧ 0 < J)

theorem twoSite_diag (a b : Bool) (J : Rat) :
    twoSite [a, b] [a, b] J = ratAbs J + (if a = b then -J else J) := by
  simp [twoSite]

/-- two-site weight `|J| - J σσ'` is `0` or `2|J|` -/
theorem twoSite_values (i o : List Bool) (J : Rat) :
    twoSite i o J = 0 ∨ twoSite i o J = 2 * ratAbs J := by
  unfold twoSite
  split
  · split
    · split
      · rcases lt_or_ge J 0 with h | h
        · right; rw [ratAbs_neg_of_neg h]; ring
        · left; rw [ratAbs_of_nonneg h]; ring
      · rcases lt_or_ge J 0 with h | h
        · left; rw [ratAbs_neg_of_neg h]; ring
        · right; rw [ratAbs_of_nonneg h]; ring
    · left; rfl
  · left; rfl

theorem twoSite_pos_iff (a b c d : Bool) (J : Rat) :
    0 < twoSite [a, b] [c, d] J ↔ (a = c ∧ b = d ∧ sat J a b) := by
  unfold twoSite sat
  simp only
  split
  · rename_i h
    obtain ⟨rfl, rfl⟩ := h
    split
    · rename_i hab
      rcases lt_or_ge J 0 with h | h
      · rw [ratAbs_neg_of_neg h]
        constructor
        · intro _; exact ⟨rfl, rfl, Or.inl ⟨hab, h⟩⟩
        · intro _; linarith
      · rw [ratAbs_of_nonneg h]
        constructor
        · intro h0; linarith
        · rintro ⟨_, _, (⟨_, h1⟩ | ⟨h1, _⟩)⟩
          · linarith
          · exact absurd hab h1
    · rename_i hab
      rcases lt_or_ge J 0 with h | h
      · rw [ratAbs_neg_of_neg h]
        constructor
        · intro h0; linarith
        · rintro ⟨_, _, (⟨h1, _⟩ | ⟨_, h1⟩)⟩
          · exact absurd h1 hab
          · linarith
      · rw [ratAbs_of_nonneg h]
        constructor
        · intro h0; exact ⟨rfl, rfl, Or.inr ⟨hab, by linarith⟩⟩
        · rintro ⟨_, _, (⟨h1, _⟩ | ⟨_, h1⟩)⟩
          · exact absurd h1 hab
          · linarith
  · rename_i h
    constructor
    · intro h0; exact absurd h0 (lt_irrefl _)
    · rintro ⟨h1, h2, _⟩; exact absurd ⟨h1, h2⟩ h

/-- a positive two-site weight needs two-element value lists -/
theorem twoSite_pos_shape {i o : List Bool} {J : Rat} (h : 0 < twoSite i o J) :
    ∃ a b, i = [a, b] ∧ o = [a, b] ∧ sat J a b := by
  unfold twoSite at h
  split at h
  · rename_i a b c d
    have := (twoSite_pos_iff a b c d J).mp (by simpa [twoSite] using h)
    obtain ⟨rfl, rfl, hs⟩ := this
    exact ⟨a, b, rfl, rfl, hs⟩
  · exact absurd h (lt_irrefl _)

/-- **a flipped two-site diagonal op keeps a positive weight iff it stays diagonal and both spins
flip or none does** -/
theorem twoSite_flip_iff (a b a' b' c' d' : Bool) (J : Rat) (h : 0 < twoSite [a, b] [a, b] J) :
    0 < twoSite [a', b'] [c', d'] J ↔ (a' = c' ∧ b' = d' ∧ xor a a' = xor b b') := by
  rw [twoSite_pos_iff] at h ⊢
  obtain ⟨_, _, hs⟩ := h
  unfold sat at hs ⊢
  constructor
  · rintro ⟨rfl, rfl, hs'⟩
    refine ⟨rfl, rfl, ?_⟩
    rcases hs with ⟨h1, h2⟩ | ⟨h1, h2⟩ <;> rcases hs' with ⟨h3, h4⟩ | ⟨h3, h4⟩
    · subst h1 h3; rfl
    · linarith
    · linarith
    · revert h1 h3; cases a <;> cases b <;> cases a' <;> cases b' <;> decide
  · rintro ⟨rfl, rfl, hx⟩
    refine ⟨rfl, rfl, ?_⟩
    rcases hs with ⟨h1, h2⟩ | ⟨h1, h2⟩
    · left; refine ⟨?_, h2⟩
      revert h1 hx; cases a <;> cases b <;> cases a' <;> cases b' <;> decide
    · right; refine ⟨?_, h2⟩
      revert h1 hx; cases a <;> cases b <;> cases a' <;> cases b' <;> decide

/-- longitudinal term: `|h| + hσ` on the diagonal (`0` or `2|h|`), `0` off it -/
theorem longitudinal_pos_iff (i o : List Bool) (h : Rat) :
    0 < longitudinal i o h ↔ (i = [true] ∧ o = [true] ∧ 0 < h) ∨ (i = [false] ∧ o = [false] ∧ h < 0) := by
  unfold longitudinal
  split
  · rcases lt_or_ge h 0 with hh | hh
    · rw [ratAbs_neg_of_neg hh]
      constructor
      · intro h0; linarith
      · rintro (⟨_, _, h1⟩ | ⟨h1, _, _⟩)
        · linarith
        · cases h1
    · rw [ratAbs_of_nonneg hh]
      constructor
      · intro h0; left; exact ⟨rfl, rfl, by linarith⟩
      · rintro (⟨_, _, h1⟩ | ⟨h1, _, _⟩)
        · linarith
        · cases h1
  · rcases lt_or_ge h 0 with hh | hh
    · rw [ratAbs_neg_of_neg hh]
      constructor
      · intro h0; right; exact ⟨rfl, rfl, hh⟩
      · rintro (⟨h1, _, _⟩ | ⟨_, _, h1⟩)
        · cases h1
        · linarith
    · rw [ratAbs_of_nonneg hh]
      constructor
      · intro h0; linarith
      · rintro (⟨h1, _, _⟩ | ⟨_, _, h1⟩)
        · cases h1
        · linarith
  · rename_i h1 h2
    constructor
    · intro h0; exact absurd h0 (lt_irrefl _)
    · rintro (⟨rfl, rfl, _⟩ | ⟨rfl, rfl, _⟩)
      · exact (h1 rfl rfl).elim
      · exact (h2 rfl rfl).elim

theorem longitudinal_values (i o : List Bool) (h : Rat) :
    longitudinal i o h = 0 ∨ longitudinal i o h = 2 * ratAbs h := by
  unfold longitudinal
  split
  · rcases lt_or_ge h 0 with hh | hh
    · left; rw [ratAbs_neg_of_neg hh]; ring
    · right; rw [ratAbs_of_nonneg hh]; ring
  · rcases lt_or_ge h 0 with hh | hh
    · right; rw [ratAbs_neg_of_neg hh]; ring
    · left; rw [ratAbs_of_nonneg hh]; ring
  · left; rfl

/-- **a longitudinal op with positive weight has weight zero after any flip** (so it must never
be flipped) -/
theorem longitudinal_flip_zero (i o i' o' : List Bool) (h : Rat) (hpos : 0 < longitudinal i o h)
    (hi : i'.length = 1) (ho : o'.length = 1) (hne : i' ≠ i ∨ o' ≠ o) :
    longitudinal i' o' h = 0 := by
  rcases longitudinal_values i' o' h with h0 | h2
  · exact h0
  · exfalso
    have hpos' : 0 < longitudinal i' o' h := by
      rw [h2]
      rcases (longitudinal_pos_iff i o h).mp hpos with ⟨_, _, hh⟩ | ⟨_, _, hh⟩
      · rw [ratAbs_of_nonneg (le_of_lt hh)]; linarith
      · rw [ratAbs_neg_of_neg hh]; linarith
    rcases (longitudinal_pos_iff i o h).mp hpos with ⟨rfl, rfl, hh⟩ | ⟨rfl, rfl, hh⟩ <;>
      rcases (longitudinal_pos_iff i' o' h).mp hpos' with ⟨rfl, rfl, hh'⟩ | ⟨rfl, rfl, hh'⟩
    · rcases hne with h | h <;> exact h rfl
    · linarith
    · linarith
    · rcases hne with h | h <;> exact h rfl

/-- loop update: the chosen exit leg has positive weight (draw `≥ 0`) -/
theorem pickExit_pos (c : Rat) (legs : List (Nat × Rat)) (leg : Nat) (w : Rat) (hc : 0 ≤ c)
    (h : pickExit c legs = some (leg, w)) : 0 < w := by
  induction legs generalizing c with
  | nil => simp [pickExit] at h
  | cons x t ih =>
    obtain ⟨l, w'⟩ := x
    simp only [pickExit] at h
    split at h
    · rename_i hlt
      simp only [Option.some.injEq, Prod.mk.injEq] at h
      rw [← h.2]
      linarith
    · rename_i hge
      exact ih (c - w') (by linarith [not_lt.mp hge]) h

theorem pickExit_mem (c : Rat) (legs : List (Nat × Rat)) (x : Nat × Rat)
    (h : pickExit c legs = some x) : x ∈ legs := by
  induction legs generalizing c with
  | nil => simp [pickExit] at h
  | cons y t ih =>
    obtain ⟨l, w'⟩ := y
    simp only [pickExit] at h
    split at h
    · simp only [Option.some.injEq] at h; rw [← h]; exact List.mem_cons_self ..
    · exact List.mem_cons_of_mem _ (ih _ h)

end Qmc
