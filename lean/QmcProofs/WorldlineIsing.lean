/-
Matrix-element facts of the transverse-field Ising Hamiltonian (`QmcModel/IsingHam.lean`) that make
`Legal` concrete for C07, and the loop update's exit-leg selection.
-/
import QmcProofs.Worldline
import Mathlib.Tactic.Linarith
import Mathlib.Tactic.Ring
import Mathlib.Algebra.Order.Field.Rat

namespace Qmc

theorem ratAbs_nonneg (r : Rat) : 0 ≤ ratAbs r := by
  unfold ratAbs; split <;> linarith

theorem ratAbs_neg_of_neg {r : Rat} (h : r < 0) : ratAbs r = -r := by simp [ratAbs, h]
theorem ratAbs_of_nonneg {r : Rat} (h : 0 ≤ r) : ratAbs r = r := by
  have : ¬ r < 0 := not_lt.mpr h
  simp [ratAbs, this]

/-- an aligned pair is satisfied by `J < 0`, an anti-aligned pair by `J > 0` -/
def sat (J : Rat) (a b : Bool) : Prop := (a = b ∧ J < 0) ∨ (a ≠ b ∧ 0 < J)

theorem twoSite_diag (a b : Bool) (J : Rat) :
    twoSite [a, b] [a, b] J = ratAbs J + (if a = b then -J else J) := by
  simp [twoSite]

/-- two-site weight `|J| - J σσ'` is `0` or `2|J|` -/
theorem twoSite_values (i o : List Bool) (J : Rat) :
    twoSite i o J = 0 ∨ twoSite i o J = 2 * ratAbs J := by
  unfold twoSite
  split
  · split
    · split
      · rcases lt_or_ge J 0 with h | h
        · right; rw [ratAbs_neg_of_neg h]; ring
        · left; rw [ratAbs_of_nonneg h]; ring
      · rcases lt_or_ge J 0 with h | h
        · left; rw [ratAbs_neg_of_neg h]; ring
        · right; rw [ratAbs_of_nonneg h]; ring
    · left; rfl
  · left; rfl

theorem twoSite_pos_iff (a b c d : Bool) (J : Rat) :
    0 < twoSite [a, b] [c, d] J ↔ (a = c ∧ b = d ∧ sat J a b) := by
  unfold twoSite sat
  simp only
  split
  · rename_i h
    obtain ⟨rfl, rfl⟩ := h
    split
    · rename_i hab
      rcases lt_or_ge J 0 with h | h
      · rw [ratAbs_neg_of_neg h]
        constructor
        · intro _; exact ⟨rfl, rfl, Or.inl ⟨hab, h⟩⟩
        · intro _; linarith
      · rw [ratAbs_of_nonneg h]
        constructor
        · intro h0; linarith
        · rintro ⟨_, _, (⟨_, h1⟩ | ⟨h1, _⟩)⟩
          · linarith
          · exact absurd hab h1
    · rename_i hab
      rcases lt_or_ge J 0 with h | h
      · rw [ratAbs_neg_of_neg h]
        constructor
        · intro h0; linarith
        · rintro ⟨_, _, (⟨h1, _⟩ | ⟨_, h1⟩)⟩
          · exact absurd h1 hab
          · linarith
      · rw [ratAbs_of_nonneg h]
        constructor
        · intro h0; exact ⟨rfl, rfl, Or.inr ⟨hab, by linarith⟩⟩
        · rintro ⟨_, _, (⟨h1, _⟩ | ⟨_, h1⟩)⟩
          · exact absurd h1 hab
          · linarith
  · rename_i h
    constructor
    · intro h0; exact absurd h0 (lt_irrefl _)
    · rintro ⟨h1, h2, _⟩; exact absurd ⟨h1, h2⟩ h

/-- a positive two-site weight needs two-element value lists -/
theorem twoSite_pos_shape {i o : List Bool} {J : Rat} (h : 0 < twoSite i o J) :
    ∃ a b, i = [a, b] ∧ o = [a, b] ∧ sat J a b := by
  unfold twoSite at h
  split at h
  · rename_i a b c d
    have := (twoSite_pos_iff a b c d J).mp (by simpa [twoSite] using h)
    obtain ⟨rfl, rfl, hs⟩ := this
    exact ⟨a, b, rfl, rfl, hs⟩
  · exact absurd h (lt_irrefl _)

/-- **a flipped two-site diagonal op keeps a positive weight iff it stays diagonal and both spins
flip or none does** -/
theorem twoSite_flip_iff (a b a' b' c' d' : Bool) (J : Rat) (h : 0 < twoSite [a, b] [a, b] J) :
    0 < twoSite [a', b'] [c', d'] J ↔ (a' = c' ∧ b' = d' ∧ xor a a' = xor b b') := by
  rw [twoSite_pos_iff] at h ⊢
  obtain ⟨_, _, hs⟩ := h
  unfold sat at hs ⊢
  constructor
  · rintro ⟨rfl, rfl, hs'⟩
    refine ⟨rfl, rfl, ?_⟩
    rcases hs with ⟨h1, h2⟩ | ⟨h1, h2⟩ <;> rcases hs' with ⟨h3, h4⟩ | ⟨h3, h4⟩
    · subst h1 h3; rfl
    · linarith
    · linarith
    · revert h1 h3; cases a <;> cases b <;> cases a' <;> cases b' <;> decide
  · rintro ⟨rfl, rfl, hx⟩
    refine ⟨rfl, rfl, ?_⟩
    rcases hs with ⟨h1, h2⟩ | ⟨h1, h2⟩
    · left; refine ⟨?_, h2⟩
      revert h1 hx; cases a <;> cases b <;> cases a' <;> cases b' <;> decide
    · right; refine ⟨?_, h2⟩
      revert h1 hx; cases a <;> cases b <;> cases a' <;> cases b' <;> decide

/-- longitudinal term: `|h| + hσ` on the diagonal (`0` or `2|h|`), `0` off it -/
theorem longitudinal_pos_iff (i o : List Bool) (h : Rat) :
    0 < longitudinal i o h ↔ (i = [true] ∧ o = [true] ∧ 0 < h) ∨ (i = [false] ∧ o = [false] ∧ h < 0) := by
  unfold longitudinal
  split
  · rcases lt_or_ge h 0 with hh | hh
    · rw [ratAbs_neg_of_neg hh]
      constructor
      · intro h0; linarith
      · rintro (⟨_, _, h1⟩ | ⟨h1, _, _⟩)
        · linarith
        · cases h1
    · rw [ratAbs_of_nonneg hh]
      constructor
      · intro h0; left; exact ⟨rfl, rfl, by linarith⟩
      · rintro (⟨_, _, h1⟩ | ⟨h1, _, _⟩)
        · linarith
        · cases h1
  · rcases lt_or_ge h 0 with hh | hh
    · rw [ratAbs_neg_of_neg hh]
      constructor
      · intro h0; right; exact ⟨rfl, rfl, hh⟩
      · rintro (⟨h1, _, _⟩ | ⟨_, _, h1⟩)
        · cases h1
        · linarith
    · rw [ratAbs_of_nonneg hh]
      constructor
      · intro h0; linarith
      · rintro (⟨h1, _, _⟩ | ⟨_, _, h1⟩)
        · cases h1
        · linarith
  · rename_i h1 h2
    constructor
    · intro h0; exact absurd h0 (lt_irrefl _)
    · rintro (⟨rfl, rfl, _⟩ | ⟨rfl, rfl, _⟩)
      · exact (h1 rfl rfl).elim
      · exact (h2 rfl rfl).elim

theorem longitudinal_values (i o : List Bool) (h : Rat) :
    longitudinal i o h = 0 ∨ longitudinal i o h = 2 * ratAbs h := by
  unfold longitudinal
  split
  · rcases lt_or_ge h 0 with hh | hh
    · left; rw [ratAbs_neg_of_neg hh]; ring
    · right; rw [ratAbs_of_nonneg hh]; ring
  · rcases lt_or_ge h 0 with hh | hh
    · right; rw [ratAbs_neg_of_neg hh]; ring
    · left; rw [ratAbs_of_nonneg hh]; ring
  · left; rfl

/-- **a longitudinal op with positive weight has weight zero after any flip** (so it must never
be flipped) -/
theorem longitudinal_flip_zero (i o i' o' : List Bool) (h : Rat) (hpos : 0 < longitudinal i o h)
    (hi : i'.length = 1) (ho : o'.length = 1) (hne : i' ≠ i ∨ o' ≠ o) :
    longitudinal i' o' h = 0 := by
  rcases longitudinal_values i' o' h with h0 | h2
  · exact h0
  · exfalso
    have hpos' : 0 < longitudinal i' o' h := by
      rw [h2]
      rcases (longitudinal_pos_iff i o h).mp hpos with ⟨_, _, hh⟩ | ⟨_, _, hh⟩
      · rw [ratAbs_of_nonneg (le_of_lt hh)]; linarith
      · rw [ratAbs_neg_of_neg hh]; linarith
    rcases (longitudinal_pos_iff i o h).mp hpos with ⟨rfl, rfl, hh⟩ | ⟨rfl, rfl, hh⟩ <;>
      rcases (longitudinal_pos_iff i' o' h).mp hpos' with ⟨rfl, rfl, hh'⟩ | ⟨rfl, rfl, hh'⟩
    · rcases hne with h | h <;> exact h rfl
    · linarith
    · linarith
    · rcases hne with h | h <;> exact h rfl

/-- loop update: the chosen exit leg has positive weight (draw `≥ 0`) -/
theorem pickExit_pos (c : Rat) (legs : List (Nat × Rat)) (leg : Nat) (w : Rat) (hc : 0 ≤ c)
    (h : pickExit c legs = some (leg, w)) : 0 < w := by
  induction legs generalizing c with
  | nil => simp [pickExit] at h
  | cons x t ih =>
    obtain ⟨l, w'⟩ := x
    simp only [pickExit] at h
    split at h
    · rename_i hlt
      simp only [Option.some.injEq, Prod.mk.injEq] at h
      rw [← h.2]
      linarith
    · rename_i hge
      exact ih (c - w') (by linarith [not_lt.mp hge]) h

theorem pickExit_mem (c : Rat) (legs : List (Nat × Rat)) (x : Nat × Rat)
    (h : pickExit c legs = some x) : x ∈ legs := by
  induction legs generalizing c with
  | nil => simp [pickExit] at h
  | cons y t ih =>
    obtain ⟨l, w'⟩ := y
    simp only [pickExit] at h
    split at h
    · simp only [Option.some.injEq] at h; rw [← h]; exact List.mem_cons_self ..
    · exact List.mem_cons_of_mem _ (ih _ h)

/-! ### the Ising Hamiltonian as a `Ham` -/

theorem length_two {α} {l : List α} (h : l.length = 2) : ∃ a b, l = [a, b] := by
  match l, h with
  | [a, b], _ => exact ⟨a, b, rfl⟩

theorem length_one {α} {l : List α} (h : l.length = 1) : ∃ a, l = [a] := by
  match l, h with
  | [a], _ => exact ⟨a, rfl⟩

/-- edges join two different variables below `nvars` (the generators' domain: no self loops) -/
def IsingSpec.Valid (s : IsingSpec) : Prop :=
  ∀ e, e ∈ s.edges → e.1 ≠ e.2.1 ∧ e.1 < s.nvars ∧ e.2.1 < s.nvars

theorem IsingSpec.w_edge (s : IsingSpec) (b : Nat) (i o : List Bool) (hb : b < s.nedges) :
    s.ham.w b i o = twoSite i o (s.J b) := by simp [IsingSpec.ham, hb]

/-- transverse term: `Γ` on all four entries (any inputs, any outputs) -/
theorem IsingSpec.w_transverse (s : IsingSpec) (b : Nat) (i o : List Bool) (h1 : s.nedges ≤ b)
    (h2 : b < s.nedges + s.nvars) : s.ham.w b i o = s.gamma := by
  have : ¬ b < s.nedges := by omega
  simp [IsingSpec.ham, this, h2]

theorem IsingSpec.w_longitudinal (s : IsingSpec) (b : Nat) (i o : List Bool)
    (h2 : s.nedges + s.nvars ≤ b) : s.ham.w b i o = longitudinal i o s.h := by
  have h1 : ¬ b < s.nedges := by omega
  have h3 : ¬ b < s.nedges + s.nvars := by omega
  simp [IsingSpec.ham, h1, h3]

theorem IsingSpec.hamWF (s : IsingSpec) (hv : s.Valid) : HamWF s.ham s.nvars := by
  intro b hb
  by_cases h1 : b < s.nedges
  · have hvars : s.ham.vars b = s.edgeVars b := by simp [IsingSpec.ham, h1]
    rw [hvars]
    unfold IsingSpec.edgeVars
    have hlt : b < s.edges.length := h1
    rw [List.getElem?_eq_getElem hlt]
    obtain ⟨hne, hx, hy⟩ := hv _ (List.getElem_mem hlt)
    generalize s.edges[b] = e at *
    obtain ⟨x, y, j⟩ := e
    simp only at hne hx hy ⊢
    refine ⟨by simp [hne], ?_⟩
    intro v hvm
    simp only [List.mem_cons, List.not_mem_nil, or_false] at hvm
    rcases hvm with rfl | rfl <;> assumption
  · by_cases h2 : b < s.nedges + s.nvars
    · have hvars : s.ham.vars b = [b - s.nedges] := by simp [IsingSpec.ham, h1, h2]
      rw [hvars]
      refine ⟨by simp, ?_⟩
      intro v hvm
      simp only [List.mem_cons, List.not_mem_nil, or_false] at hvm
      omega
    · have hvars : s.ham.vars b = [b - s.nedges - s.nvars] := by simp [IsingSpec.ham, h1, h2]
      rw [hvars]
      refine ⟨by simp, ?_⟩
      intro v hvm
      simp only [List.mem_cons, List.not_mem_nil, or_false] at hvm
      have hnb : s.ham.nbonds = s.nedges + s.nvars + (if s.h = 0 then 0 else s.nvars) := rfl
      rw [hnb] at hb
      split at hb <;> omega

theorem twoSite_mask_bool (a b a' b' c' d' : Bool) :
    (a' = c' ∧ b' = d' ∧ xor a a' = xor b b') ↔
    ((xorBits [a, b] [a', b'] == xorBits [a, b] [c', d']) &&
      (xorBits [a, b] [a', b'] == [false, false] || xorBits [a, b] [a', b'] == [true, true])) = true := by
  cases a <;> cases b <;> cases a' <;> cases b' <;> cases c' <;> cases d' <;> decide

theorem long_mask_bool (x a' c' : Bool) :
    (a' = x ∧ c' = x) ↔ ((xorBits [x] [a'] == [false]) && (xorBits [x] [c'] == [false])) = true := by
  cases x <;> cases a' <;> cases c' <;> decide

/-- **C07, concrete for the Ising Hamiltonian**: an edit of a legal stored operator (same bond,
same variables) has a positive matrix element exactly when its flip mask is one of the allowed
ones: two-site op — stays diagonal and both spins flip or none; transverse op — anything;
longitudinal op — nothing may flip. -/
theorem ising_flip_weight_iff (s : IsingSpec) (o o' : Op) (hl : o.LegalFor s.ham)
    (hs : o.sameSkel o') :
    0 < s.ham.w o'.bond o'.ins o'.outs ↔ isingMaskOpB s o o' = true := by
  obtain ⟨hv, hb, _, hi, ho⟩ := hs
  obtain ⟨l1, l2, l3, l4, l5, l6⟩ := hl
  unfold isingMaskOpB
  simp only [hb, ne_eq, not_true_eq_false, ite_false]
  by_cases h1 : o.bond < s.nedges
  · simp only [h1, ite_true]
    rw [IsingSpec.w_edge s _ _ _ h1] at l6 ⊢
    obtain ⟨a, b, ha, hbb, _⟩ := twoSite_pos_shape l6
    rw [ha] at hi; rw [hbb] at ho
    obtain ⟨a', b', hi'⟩ := length_two hi
    obtain ⟨c', d', ho'⟩ := length_two ho
    rw [ha, hbb] at l6
    rw [hi', ho', ha, hbb, twoSite_flip_iff a b a' b' c' d' _ l6]
    exact twoSite_mask_bool a b a' b' c' d'
  · simp only [h1, ite_false]
    by_cases h2 : o.bond < s.nedges + s.nvars
    · simp only [h2, ite_true]
      rw [IsingSpec.w_transverse s _ _ _ (by omega) h2] at l6 ⊢
      simp [l6]
    · simp only [h2, ite_false]
      rw [IsingSpec.w_longitudinal s _ _ _ (by omega)] at l6 ⊢
      have hshape : ∃ x, o.ins = [x] ∧ o.outs = [x] := by
        rcases (longitudinal_pos_iff _ _ _).mp l6 with ⟨h3, h4, _⟩ | ⟨h3, h4, _⟩
        · exact ⟨true, h3, h4⟩
        · exact ⟨false, h3, h4⟩
      obtain ⟨x, hx1, hx2⟩ := hshape
      rw [hx1] at hi; rw [hx2] at ho
      obtain ⟨a', hi'⟩ := length_one hi
      obtain ⟨c', ho'⟩ := length_one ho
      rw [hx1, hx2, hi', ho', ← long_mask_bool x a' c']
      rw [hx1, hx2] at l6
      constructor
      · intro hpos
        by_cases hne : [a'] ≠ [x] ∨ [c'] ≠ [x]
        · have := longitudinal_flip_zero [x] [x] [a'] [c'] s.h l6 rfl rfl hne
          rw [this] at hpos; exact absurd hpos (lt_irrefl _)
        · have h5 : [a'] = [x] := by
            by_cases h : [a'] = [x]
            · exact h
            · exact absurd (Or.inl h) hne
          have h6 : [c'] = [x] := by
            by_cases h : [c'] = [x]
            · exact h
            · exact absurd (Or.inr h) hne
          simp only [List.cons.injEq, and_true] at h5 h6
          exact ⟨h5, h6⟩
      · rintro ⟨rfl, rfl⟩; exact l6

/-- Ising: allowed masks keep every changed operator's weight positive -/
theorem isingMask_flipKeepsWeight (s : IsingSpec) {b a : Slots} (hs : SameSkeleton b a)
    (hm : isingMaskB s b a = true) (hl : ∀ o, some o ∈ b → o.LegalFor s.ham) :
    FlipKeepsWeight s.ham b a := by
  induction hs with
  | nil => simp [FlipKeepsWeight]
  | none _ ih =>
    simp only [FlipKeepsWeight]
    exact ih (by simpa [isingMaskB] using hm) (fun o ho => hl o (List.mem_cons_of_mem _ ho))
  | some o o' hsk _ _ ih =>
    simp only [isingMaskB, Bool.and_eq_true] at hm
    simp only [FlipKeepsWeight]
    refine ⟨Or.inr ?_, ih hm.2 (fun o ho => hl o (List.mem_cons_of_mem _ ho))⟩
    exact (ising_flip_weight_iff s o o' (hl o (List.mem_cons_self ..)) hsk).mpr hm.1

/-- the converse for one position: a forbidden mask (e.g. a flipped longitudinal op, a two-site
op with one spin flipped) makes the configuration illegal -/
theorem ising_forbidden_mask_illegal (s : IsingSpec) (o o' : Op) (hl : o.LegalFor s.ham)
    (hs : o.sameSkel o') (hm : isingMaskOpB s o o' = false) : ¬ o'.LegalFor s.ham := by
  intro h
  have := (ising_flip_weight_iff s o o' hl hs).mp h.2.2.2.2.2
  rw [hm] at this; cases this

/-! ### replicas of one lattice: same support (what `can_swap_managers` checks) -/

/-- same lattice, couplings and field of the same sign, positive transverse field -/
def IsingSpec.SameSigns (s s' : IsingSpec) : Prop :=
  s'.nvars = s.nvars ∧ s'.nedges = s.nedges ∧
  (∀ b, b < s.nedges → s'.edgeVars b = s.edgeVars b ∧ (s.J b < 0 → s'.J b < 0) ∧ (0 < s.J b → 0 < s'.J b)) ∧
  0 < s'.gamma ∧ (s.h < 0 → s'.h < 0) ∧ (0 < s.h → 0 < s'.h) ∧ (s.h = 0 ↔ s'.h = 0)

theorem ising_supportLe (s s' : IsingSpec) (h : s.SameSigns s') : SupportLe s.ham s'.ham := by
  obtain ⟨hn, he, hedge, hg, hneg, hpos, hz⟩ := h
  intro b hb
  have hnb : s.ham.nbonds = s.nedges + s.nvars + (if s.h = 0 then 0 else s.nvars) := rfl
  have hnb' : s'.ham.nbonds = s'.nedges + s'.nvars + (if s'.h = 0 then 0 else s'.nvars) := rfl
  have hb' : b < s'.ham.nbonds := by
    rw [hnb'] ; rw [hnb] at hb
    by_cases h0 : s.h = 0
    · have h0' := hz.mp h0; simp only [h0, h0', ite_true] at hb ⊢; omega
    · have h0' : ¬ s'.h = 0 := fun x => h0 (hz.mpr x)
      simp only [h0, h0', ite_false] at hb ⊢; omega
  refine ⟨hb', ?_, ?_, ?_⟩
  · by_cases h1 : b < s.nedges
    · have h1' : b < s'.nedges := by omega
      simp only [IsingSpec.ham, h1, h1', ite_true]
      exact (hedge b h1).1
    · have h1' : ¬ b < s'.nedges := by omega
      by_cases h2 : b < s.nedges + s.nvars
      · simp only [IsingSpec.ham, he, hn, h1, h2, ite_true, ite_false]
      · simp only [IsingSpec.ham, he, hn, h1, h2, ite_false]
  · simp only [IsingSpec.ham, he, hn]
  · intro i o hw
    by_cases h1 : b < s.nedges
    · rw [IsingSpec.w_edge s b i o h1] at hw
      rw [IsingSpec.w_edge s' b i o (by omega)]
      obtain ⟨x, y, rfl, rfl, hs⟩ := twoSite_pos_shape hw
      rw [twoSite_pos_iff]
      refine ⟨rfl, rfl, ?_⟩
      rcases hs with ⟨h3, h4⟩ | ⟨h3, h4⟩
      · exact Or.inl ⟨h3, (hedge b h1).2.1 h4⟩
      · exact Or.inr ⟨h3, (hedge b h1).2.2 h4⟩
    · by_cases h2 : b < s.nedges + s.nvars
      · rw [IsingSpec.w_transverse s' b i o (by omega) (by omega)]
        exact hg
      · rw [IsingSpec.w_longitudinal s b i o (by omega)] at hw
        rw [IsingSpec.w_longitudinal s' b i o (by omega)]
        rw [longitudinal_pos_iff] at hw ⊢
        rcases hw with ⟨h3, h4, h5⟩ | ⟨h3, h4, h5⟩
        · exact Or.inl ⟨h3, h4, hpos h5⟩
        · exact Or.inr ⟨h3, h4, hneg h5⟩

/-! ### ladders that mix a zero-field replica with field replicas -/

/-- same lattice, couplings of the same sign, positive transverse field of the receiver; nothing is
assumed about the longitudinal fields (`can_swap_managers` accepts `h = 0` next to `h > 0`,
because `signum(0.0) = signum(+h)`) -/
def IsingSpec.SameLattice (s s' : IsingSpec) : Prop :=
  s'.nvars = s.nvars ∧ s'.nedges = s.nedges ∧
  (∀ b, b < s.nedges → s'.edgeVars b = s.edgeVars b ∧ (s.J b < 0 → s'.J b < 0) ∧ (0 < s.J b → 0 < s'.J b)) ∧
  0 < s'.gamma

/-- a string WITHOUT longitudinal-field operators is legal for any replica of the lattice,
whatever the two fields are -/
theorem ising_transfer_no_field_ops (s s' : IsingSpec) (h : s.SameLattice s') (c : Config)
    (hl : Legal s.ham c) (hnf : ∀ o, some o ∈ c.slots → o.bond < s.nedges + s.nvars) :
    Legal s'.ham c := by
  obtain ⟨hn, he, hedge, hg⟩ := h
  intro o ho
  obtain ⟨l1, l2, l3, l4, l5, l6⟩ := hl o ho
  have hb := hnf o ho
  have hnb' : s'.ham.nbonds = s'.nedges + s'.nvars + (if s'.h = 0 then 0 else s'.nvars) := rfl
  refine ⟨by rw [hnb']; omega, ?_, ?_, l4, l5, ?_⟩
  · rw [l2]
    by_cases h1 : o.bond < s.nedges
    · have h1' : o.bond < s'.nedges := by omega
      simp only [IsingSpec.ham, h1, h1', ite_true]
      exact ((hedge _ h1).1).symm
    · simp only [IsingSpec.ham, he, hn, h1, hb, ite_true, ite_false]
  · rw [l3]; simp only [IsingSpec.ham, he, hn]
  · by_cases h1 : o.bond < s.nedges
    · rw [IsingSpec.w_edge s _ _ _ h1] at l6
      rw [IsingSpec.w_edge s' _ _ _ (by omega)]
      obtain ⟨x, y, hx, hy, hs⟩ := twoSite_pos_shape l6
      rw [hx, hy, twoSite_pos_iff]
      refine ⟨rfl, rfl, ?_⟩
      rcases hs with ⟨h3, h4⟩ | ⟨h3, h4⟩
      · exact Or.inl ⟨h3, (hedge _ h1).2.1 h4⟩
      · exact Or.inr ⟨h3, (hedge _ h1).2.2 h4⟩
    · rw [IsingSpec.w_transverse s' _ _ _ (by omega) (by omega)]
      exact hg

/-- a longitudinal-field operator is not a term of a zero-field replica at all: a swap that
would move one there must be refused -/
theorem ising_field_op_illegal_without_field (s' : IsingSpec) (o : Op) (h0 : s'.h = 0)
    (hb : s'.nedges + s'.nvars ≤ o.bond) : ¬ o.LegalFor s'.ham := by
  intro hl
  have h1 := hl.1
  have hnb' : s'.ham.nbonds = s'.nedges + s'.nvars + (if s'.h = 0 then 0 else s'.nvars) := rfl
  rw [hnb'] at h1
  simp only [h0, ite_true] at h1
  omega

end Qmc
