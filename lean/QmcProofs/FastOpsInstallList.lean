/-
C11: `new_from_ops` / `clear_and_install_ops`: building from a strictly increasing op list gives
the canonical container.
-/
import QmcProofs.FastOpsCount

namespace Qmc

theorem prevOcc_eq_last {P : Nat → Bool} {L p : Nat} (h : ∀ k, p ≤ k → k < L → P k = false) (hpL : p ≤ L) :
    prevOcc P p = lastOcc P L := by
  cases h2 : lastOcc P L <;> chain_finish

theorem nextOcc_none_of_tail {P : Nat → Bool} {L p : Nat} (h : ∀ k, p ≤ k → k < L → P k = false) :
    nextOcc P L p = none := by
  chain_finish

/-- ends with stale tails (`(head, head)`), as `clear_and_install_ops` keeps them until its end -/
def staleP (e : Option (Nat × Nat)) : Option (Nat × Nat) := e.map (fun he => (he.1, he.1))
def staleV (e : Option (PRel × PRel)) : Option (PRel × PRel) := e.map (fun he => (he.1, he.1))

/-- the container between two steps of `clear_and_install_ops` -/
def precanon (nv : Nat) (s : Slots) : FastOps :=
  ((canon nv none s).setPEnds (staleP (canonEnds s)))
    |> fun c => { c with varEnds := (List.range nv).map (fun v => staleV (canonVarEnd s v)) }

namespace FastOps
theorem nfv_installVarWrite (p : Nat) (c : FastOps) (lt : Option PRel) (v relv r : Nat) :
    (installVarWrite p c lt v relv).nfv r = (c.nfv r).map (fun l =>
      match lt with
      | some pr => if pr.p = r then l.set pr.relv (some ⟨p, relv⟩) else l
      | none => l) := by
  unfold installVarWrite
  cases lt <;> simp <;> cases c.nfv r <;> rfl

theorem pfv_installVarWrite (p : Nat) (c : FastOps) (lt : Option PRel) (v relv r : Nat) :
    (installVarWrite p c lt v relv).pfv r = c.pfv r := by
  unfold installVarWrite
  cases lt <;> simp

theorem varEnds_installVarWrite (p : Nat) (c : FastOps) (lt : Option PRel) (v relv : Nat) :
    (installVarWrite p c lt v relv).varEnds =
      match lt with
      | some _ => c.varEnds
      | none => c.varEnds.set v (some (⟨p, relv⟩, ⟨p, relv⟩)) := by
  unfold installVarWrite
  cases lt <;> simp

theorem installVarWrite_g (p : Nat) (c : FastOps) (lt : Option PRel) (v relv : Nat) :
    (installVarWrite p c lt v relv).g = c.g := by
  unfold installVarWrite
  cases lt <;> simp
end FastOps

section Step
variable (nv : Nat) (s : Slots) (p : Nat) (op : Op)

/-- state of the inner loop -/
structure IL (D : List Nat)
    (st : FastOps × List (Option Nat) × List (Option Nat) × List (Option PRel)) : Prop where
  hn : ∀ q, q ≠ p → st.1.nfv q = (slotAt s q).map (fun oq => oq.vars.map (fun w => nextRelI s p op D w q))
  hp : ∀ q, q ≠ p → st.1.pfv q = (slotAt s q).map (fun oq => oq.vars.map (fun w => prevRel s w q))
  hnp : st.1.nfv p = none
  hpp : st.1.pfv p = none
  hv : st.1.varEnds = (List.range nv).map (fun w =>
    if w ∈ D then (match firstRel s w with
      | some h => some (h, h)
      | none => some (relAt (s1 s p op) w p, relAt (s1 s p op) w p))
    else staleV (canonVarEnd s w))
  hlv : st.2.1 = (List.range nv).map (fun w => if w ∈ D then some p else (lastRel s w).map (·.p))
  hlr : st.2.2.1 = (List.range nv).map (fun w => if w ∈ D then some (op.vars.idxOf w)
    else (lastRel s w).map (·.relv))
  hpr : st.2.2.2 = D.reverse.map (fun w => lastRel s w)
  hg : st.1.g = ((canon nv none s).setOp p none).g ∨ True

end Step

theorem installVar_step (nv : Nat) (s : Slots) (p : Nat) (op : Op)
    (hsp : slotAt s p = none) (hpL : p < s.length) (htail : ∀ k, p ≤ k → slotAt s k = none)
    (hwf : WF nv none s) (hok : OpOK nv none op)
    (D : List Nat) (st : FastOps × List (Option Nat) × List (Option Nat) × List (Option PRel))
    (x : Nat × Nat) (hx : op.vars[x.2]? = some x.1) (hvD : x.1 ∉ D) (h : IL nv s p op D st) :
    IL nv s p op (x.1 :: D) (FastOps.installVarStep p st x) := by
  obtain ⟨v, relv⟩ := x
  simp only at hx hvD ⊢
  obtain ⟨_, hnodup, hlt, _⟩ := hok
  have hvmem : v ∈ op.vars := List.mem_of_getElem? hx
  have hvn : v < nv := hlt v hvmem
  obtain ⟨hPv', hPv⟩ := PI_cons_self s p hvD
  have hrel := relAt_s1_self s p op hpL v relv hx hnodup
  have hidx := idxOf_of_getElem? hnodup hx
  have htailV : ∀ k, p ≤ k → k < s.length → occV s v k = false := by
    intro k hk _; unfold occV; rw [htail k hk]
  have hlast : lastRel s v = prevRel s v p := by
    unfold lastRel prevRel; rw [prevOcc_eq_last htailV (by omega)]
  -- the tuple read from the tables
  have hlvv : (st.2.1[v]?).join = (lastRel s v).map (·.p) := by
    simp [h.hlv, List.getElem?_map, List.getElem?_range hvn, hvD]
  have hlrv : (st.2.2.1[v]?).join = (lastRel s v).map (·.relv) := by
    simp [h.hlr, List.getElem?_map, List.getElem?_range hvn, hvD]
  have htup : (zipOpt ((st.2.1[v]?).join) ((st.2.2.1[v]?).join)).map (fun x => (⟨x.1, x.2⟩ : PRel))
      = prevRel s v p := by
    rw [hlvv, hlrv, hlast]; cases prevRel s v p <;> rfl
  unfold FastOps.installVarStep
  simp only [htup]
  constructor
  · -- next_for_vars
    intro q hq
    rw [FastOps.nfv_installVarWrite, h.hn q hq]
    cases hsq : slotAt s q with
    | none => rfl
    | some oq =>
      simp only [Option.map_some]
      congr 1
      obtain ⟨_, hnd_q, _, _⟩ := hwf q oq hsq
      have key : ∀ w, w ∈ oq.vars →
          (if w = v ∧ prevOcc (occV s v) p = some q then some (⟨p, relv⟩ : PRel) else nextRelI s p op D w q)
            = nextRelI s p op (v :: D) w q := by
        intro w hw
        by_cases hwv : w = v
        · subst hwv
          have hq_occ : occV s w q = true := occV_of_mem hsq hw
          unfold nextRelI
          rw [hPv', hPv, nextOcc_insert hq_occ hq hpL]
          split <;> simp_all
        · simp only [hwv, false_and, if_false]
          unfold nextRelI
          rw [PI_cons_ne s p hwv]
      have goal2 : oq.vars.map (fun w => nextRelI s p op (v :: D) w q)
          = oq.vars.map (fun w => if w = v ∧ prevOcc (occV s v) p = some q then some (⟨p, relv⟩ : PRel)
              else nextRelI s p op D w q) := by
        apply List.map_congr_left
        intro w hw
        exact (key w hw).symm
      rw [goal2]
      unfold prevRel
      cases hpo : prevOcc (occV s v) p with
      | none =>
        simp only [Option.map_none]
        apply List.map_congr_left
        intro w _
        simp
      | some q' =>
        simp only [Option.map_some]
        by_cases hqq : q' = q
        · subst hqq
          have hq_occ := (prevOcc_lt hpo).2
          have hvq : v ∈ oq.vars := mem_of_occV hsq hq_occ
          simp only [relAt, hsq, if_true]
          rw [map_set_nodup oq.vars _ v _ hvq hnd_q]
          apply List.map_congr_left
          intro w _
          by_cases hwv : w = v <;> simp [hwv]
        · have : ¬ (relAt s v q').p = q := hqq
          simp only [this, if_false]
          apply List.map_congr_left
          intro w _
          have : ¬ (some q' = some q) := by simpa using hqq
          simp [this]
  · intro q hq
    rw [FastOps.pfv_installVarWrite, h.hp q hq]
  · rw [FastOps.nfv_installVarWrite, h.hnp]; rfl
  · rw [FastOps.pfv_installVarWrite, h.hpp]
  · -- var_ends
    rw [FastOps.varEnds_installVarWrite, h.hv]
    apply List.ext_getElem?
    intro w
    unfold prevRel
    cases hpo : prevOcc (occV s v) p with
    | some q' =>
      -- the variable already has ops: its (stale) end is unchanged
      simp only [Option.map_some, List.getElem?_map]
      cases hw : (List.range nv)[w]? with
      | none => rfl
      | some w' =>
        simp only [Option.map_some]
        by_cases hwv : w' = v
        · subst hwv
          have hq'occ := (prevOcc_lt hpo).2
          obtain ⟨f, hf⟩ := first_some_of_mem hq'occ (occV_lt hq'occ)
          obtain ⟨l, hl⟩ := last_some_of_mem hq'occ (occV_lt hq'occ)
          simp [hvD, staleV, canonVarEnd, firstRel, lastRel, hf, hl, zipOpt]
        · simp [hwv]
    | none =>
      simp only [Option.map_none]
      rw [List.getElem?_set]
      simp only [List.length_map, List.length_range, List.getElem?_map]
      by_cases hwv : v = w
      · subst hwv
        simp only [if_true, hvn, List.getElem?_range hvn, Option.map_some, List.mem_cons, true_or]
        congr 1
        have hf : firstOcc (occV s v) s.length = none := by
          rw [firstOcc_none_iff]
          intro j hj
          by_cases hjp : j < p
          · exact (prevOcc_none_iff.mp hpo) j hjp
          · exact htailV j (by omega) hj
        simp [firstRel, hf, hrel]
      · simp only [hwv, if_false]
        cases hw : (List.range nv)[w]? with
        | none => rfl
        | some w' =>
          have : w' = w := by
            have hwlt : w < nv := by
              by_cases hh : w < nv
              · exact hh
              · rw [List.getElem?_eq_none (by simpa using Nat.le_of_not_lt hh)] at hw; cases hw
            rw [List.getElem?_range hwlt] at hw
            exact (Option.some.inj hw).symm
          subst this
          have : ¬ w' = v := fun e => hwv e.symm
          simp [this]
  · simp only [h.hlv, range_map_set]
    apply List.map_congr_left
    intro w _
    by_cases hw : w = v <;> simp [hw]
  · simp only [h.hlr, range_map_set]
    apply List.map_congr_left
    intro w _
    by_cases hw : w = v
    · subst hw; simp [hidx]
    · simp [hw]
  · simp only [h.hpr, List.reverse_cons, List.map_append, List.map_cons, List.map_nil, hlast]
  · exact Or.inr trivial

end Qmc
