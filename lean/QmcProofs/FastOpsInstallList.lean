/-
C11: `new_from_ops` / `clear_and_install_ops`: building from a strictly increasing op list gives
the canonical container.
-/
import QmcProofs.FastOpsCount

namespace Qmc

theorem prevOcc_eq_last {P : Nat → Bool} {L p : Nat} (h : ∀ k, p ≤ k → k < L → P k = false) (hpL : p ≤ L) :
    prevOcc P p = lastOcc P L := by
  cases h2 : lastOcc P L <;> chain_finish

theorem nextOcc_none_of_tail {P : Nat → Bool} {L p : Nat} (h : ∀ k, p ≤ k → k < L → P k = false) :
    nextOcc P L p = none := by
  chain_finish

/-- ends with stale tails (`(head, head)`), as `clear_and_install_ops` keeps them until its end -/
def staleP (e : Option (Nat × Nat)) : Option (Nat × Nat) := e.map (fun he => (he.1, he.1))
def staleV (e : Option (PRel × PRel)) : Option (PRel × PRel) := e.map (fun he => (he.1, he.1))

/-- the container between two steps of `clear_and_install_ops` -/
def precanon (nv : Nat) (s : Slots) : FastOps :=
  ((canon nv none s).setPEnds (staleP (canonEnds s)))
    |> fun c => { c with varEnds := (List.range nv).map (fun v => staleV (canonVarEnd s v)) }

namespace FastOps
theorem nfv_installVarWrite (p : Nat) (c : FastOps) (lt : Option PRel) (v relv r : Nat) :
    (installVarWrite p c lt v relv).nfv r = (c.nfv r).map (fun l =>
      match lt with
      | some pr => if pr.p = r then l.set pr.relv (some ⟨p, relv⟩) else l
      | none => l) := by
  unfold installVarWrite
  cases lt <;> simp <;> cases c.nfv r <;> rfl

theorem pfv_installVarWrite (p : Nat) (c : FastOps) (lt : Option PRel) (v relv r : Nat) :
    (installVarWrite p c lt v relv).pfv r = c.pfv r := by
  unfold installVarWrite
  cases lt <;> simp

theorem varEnds_installVarWrite (p : Nat) (c : FastOps) (lt : Option PRel) (v relv : Nat) :
    (installVarWrite p c lt v relv).varEnds =
      match lt with
      | some _ => c.varEnds
      | none => c.varEnds.set v (some (⟨p, relv⟩, ⟨p, relv⟩)) := by
  unfold installVarWrite
  cases lt <;> simp

theorem installVarWrite_g (p : Nat) (c : FastOps) (lt : Option PRel) (v relv : Nat) :
    (installVarWrite p c lt v relv).g = c.g := by
  unfold installVarWrite
  cases lt <;> simp
end FastOps

section Step
variable (nv : Nat) (s : Slots) (p : Nat) (op : Op)

/-- state of the inner loop -/
structure IL (D : List Nat)
    (st : FastOps × List (Option Nat) × List (Option Nat) × List (Option PRel)) : Prop where
  hn : ∀ q, q ≠ p → st.1.nfv q = (slotAt s q).map (fun oq => oq.vars.map (fun w => nextRelI s p op D w q))
  hp : ∀ q, q ≠ p → st.1.pfv q = (slotAt s q).map (fun oq => oq.vars.map (fun w => prevRel s w q))
  hnp : st.1.nfv p = none
  hpp : st.1.pfv p = none
  hv : st.1.varEnds = (List.range nv).map (fun w =>
    if w ∈ D then (match firstRel s w with
      | some h => some (h, h)
      | none => some (relAt (s1 s p op) w p, relAt (s1 s p op) w p))
    else staleV (canonVarEnd s w))
  hlv : st.2.1 = (List.range nv).map (fun w => if w ∈ D then some p else (lastRel s w).map (·.p))
  hlr : st.2.2.1 = (List.range nv).map (fun w => if w ∈ D then some (op.vars.idxOf w)
    else (lastRel s w).map (·.relv))
  hpr : st.2.2.2 = D.reverse.map (fun w => lastRel s w)
  hg : st.1.g = ((canon nv none s).setOp p none).g ∨ True

end Step

theorem installVar_step (nv : Nat) (s : Slots) (p : Nat) (op : Op)
    (hsp : slotAt s p = none) (hpL : p < s.length) (htail : ∀ k, p ≤ k → slotAt s k = none)
    (hwf : WF nv none s) (hok : OpOK nv none op)
    (D : List Nat) (st : FastOps × List (Option Nat) × List (Option Nat) × List (Option PRel))
    (x : Nat × Nat) (hx : op.vars[x.2]? = some x.1) (hvD : x.1 ∉ D) (h : IL nv s p op D st) :
    IL nv s p op (x.1 :: D) (FastOps.installVarStep p st x) := by
  obtain ⟨v, relv⟩ := x
  simp only at hx hvD ⊢
  obtain ⟨_, hnodup, hlt, _⟩ := hok
  have hvmem : v ∈ op.vars := List.mem_of_getElem? hx
  have hvn : v < nv := hlt v hvmem
  obtain ⟨hPv', hPv⟩ := PI_cons_self s p hvD
  have hrel := relAt_s1_self s p op hpL v relv hx hnodup
  have hidx := idxOf_of_getElem? hnodup hx
  have htailV : ∀ k, p ≤ k → k < s.length → occVAt s v k = false := by
    intro k hk _; unfold occVAt; rw [htail k hk]
  have hlast : lastRel s v = prevRel s v p := by
    unfold lastRel prevRel; rw [prevOcc_eq_last htailV (by omega)]
  -- the tuple read from the tables
  have hlvv : (st.2.1[v]?).join = (lastRel s v).map (·.p) := by
    simp [h.hlv, List.getElem?_map, List.getElem?_range hvn, hvD]
  have hlrv : (st.2.2.1[v]?).join = (lastRel s v).map (·.relv) := by
    simp [h.hlr, List.getElem?_map, List.getElem?_range hvn, hvD]
  have htup : (zipOpt ((st.2.1[v]?).join) ((st.2.2.1[v]?).join)).map (fun x => (⟨x.1, x.2⟩ : PRel))
      = prevRel s v p := by
    rw [hlvv, hlrv, hlast]; cases prevRel s v p <;> rfl
  unfold FastOps.installVarStep
  simp only [htup]
  constructor
  · -- next_for_vars
    intro q hq
    rw [FastOps.nfv_installVarWrite, h.hn q hq]
    cases hsq : slotAt s q with
    | none => rfl
    | some oq =>
      simp only [Option.map_some]
      congr 1
      obtain ⟨_, hnd_q, _, _⟩ := hwf q oq hsq
      have key : ∀ w, w ∈ oq.vars →
          (if w = v ∧ prevOcc (occVAt s v) p = some q then some (⟨p, relv⟩ : PRel) else nextRelI s p op D w q)
            = nextRelI s p op (v :: D) w q := by
        intro w hw
        by_cases hwv : w = v
        · subst hwv
          have hq_occ : occVAt s w q = true := occV_of_mem hsq hw
          unfold nextRelI
          rw [hPv', hPv, nextOcc_insert hq_occ hq hpL]
          split <;> simp_all
        · simp only [hwv, false_and, if_false]
          unfold nextRelI
          rw [PI_cons_ne s p hwv]
      have goal2 : oq.vars.map (fun w => nextRelI s p op (v :: D) w q)
          = oq.vars.map (fun w => if w = v ∧ prevOcc (occVAt s v) p = some q then some (⟨p, relv⟩ : PRel)
              else nextRelI s p op D w q) := by
        apply List.map_congr_left
        intro w hw
        exact (key w hw).symm
      rw [goal2]
      unfold prevRel
      cases hpo : prevOcc (occVAt s v) p with
      | none =>
        simp only [Option.map_none]
        apply List.map_congr_left
        intro w _
        simp
      | some q' =>
        simp only [Option.map_some]
        by_cases hqq : q' = q
        · subst hqq
          have hq_occ := (prevOcc_lt hpo).2
          have hvq : v ∈ oq.vars := mem_of_occV hsq hq_occ
          simp only [relAt, hsq, if_true]
          rw [map_set_nodup oq.vars _ v _ hvq hnd_q]
          apply List.map_congr_left
          intro w _
          by_cases hwv : w = v <;> simp [hwv]
        · have : ¬ (relAt s v q').p = q := hqq
          simp only [this, if_false]
          apply List.map_congr_left
          intro w _
          have : ¬ (some q' = some q) := by simpa using hqq
          simp [this]
  · intro q hq
    rw [FastOps.pfv_installVarWrite, h.hp q hq]
  · rw [FastOps.nfv_installVarWrite, h.hnp]; rfl
  · rw [FastOps.pfv_installVarWrite, h.hpp]
  · -- var_ends
    rw [FastOps.varEnds_installVarWrite, h.hv]
    apply List.ext_getElem?
    intro w
    unfold prevRel
    cases hpo : prevOcc (occVAt s v) p with
    | some q' =>
      -- the variable already has ops: its (stale) end is unchanged
      simp only [Option.map_some, List.getElem?_map]
      cases hw : (List.range nv)[w]? with
      | none => rfl
      | some w' =>
        simp only [Option.map_some]
        by_cases hwv : w' = v
        · subst hwv
          have hq'occ := (prevOcc_lt hpo).2
          obtain ⟨f, hf⟩ := first_some_of_mem hq'occ (occV_lt hq'occ)
          obtain ⟨l, hl⟩ := last_some_of_mem hq'occ (occV_lt hq'occ)
          simp [hvD, staleV, canonVarEnd, firstRel, lastRel, hf, hl, zipOpt]
        · simp [hwv]
    | none =>
      simp only [Option.map_none]
      rw [List.getElem?_set]
      simp only [List.length_map, List.length_range, List.getElem?_map]
      by_cases hwv : v = w
      · subst hwv
        simp only [if_true, hvn, List.getElem?_range hvn, Option.map_some, List.mem_cons, true_or]
        congr 1
        have hf : firstOcc (occVAt s v) s.length = none := by
          rw [firstOcc_none_iff]
          intro j hj
          by_cases hjp : j < p
          · exact (prevOcc_none_iff.mp hpo) j hjp
          · exact htailV j (by omega) hj
        simp [firstRel, hf, hrel]
      · simp only [hwv, if_false]
        cases hw : (List.range nv)[w]? with
        | none => rfl
        | some w' =>
          have : w' = w := by
            have hwlt : w < nv := by
              by_cases hh : w < nv
              · exact hh
              · rw [List.getElem?_eq_none (by simpa using Nat.le_of_not_lt hh)] at hw; cases hw
            rw [List.getElem?_range hwlt] at hw
            exact (Option.some.inj hw).symm
          subst this
          have : ¬ w' = v := fun e => hwv e.symm
          simp [this]
  · simp only [h.hlv, range_map_set]
    apply List.map_congr_left
    intro w _
    by_cases hw : w = v <;> simp [hw]
  · simp only [h.hlr, range_map_set]
    apply List.map_congr_left
    intro w _
    by_cases hw : w = v
    · subst hw; simp [hidx]
    · simp [hw]
  · simp only [h.hpr, List.reverse_cons, List.map_append, List.map_cons, List.map_nil, hlast]
  · exact Or.inr trivial


theorem prevOcc_upd_of_le {P : Nat → Bool} {p q : Nat} (b : Bool) (h : q ≤ p) :
    prevOcc (upd P p b) q = prevOcc P q := by
  cases h2 : prevOcc P q <;> chain_finish

theorem installVarFold_g (p : Nat) (l : List (Nat × Nat))
    (acc : FastOps × List (Option Nat) × List (Option Nat) × List (Option PRel)) :
    (l.foldl (FastOps.installVarStep p) acc).1.g = acc.1.g := by
  induction l generalizing acc with
  | nil => rfl
  | cons x t ih =>
    rw [List.foldl_cons, ih]
    simp only [FastOps.installVarStep, FastOps.installVarWrite_g]

theorem staleP_zip (a b : Option Nat) (h : a.isSome = b.isSome) :
    staleP (zipOpt a b) = a.map (fun x => (x, x)) := by
  cases a <;> cases b <;> simp_all [staleP, zipOpt]

theorem staleV_zip (a b : Option PRel) (h : a.isSome = b.isSome) :
    staleV (zipOpt a b) = a.map (fun x => (x, x)) := by
  cases a <;> cases b <;> simp_all [staleV, zipOpt]

theorem precanon_g (nv : Nat) (s : Slots) :
    (precanon nv s).g = (canonG none s).setPEnds ((firstOcc (occAt s) s.length).map (fun x => (x, x))) := by
  unfold precanon canonEnds
  rw [staleP_zip _ _ first_some_iff_last_some]
  simp only [FastOps.g, FastOps.setPEnds, canonG, canon]

/-- lists the step keeps: `last_vars`, `last_rels` -/
def LV (nv : Nat) (s : Slots) : List (Option Nat) := (List.range nv).map (fun w => (lastRel s w).map (·.p))
def LR (nv : Nat) (s : Slots) : List (Option Nat) := (List.range nv).map (fun w => (lastRel s w).map (·.relv))

/-- one step of `clear_and_install_ops`: appending an op beyond every occupied slot -/
theorem installStep_precanon (nv : Nat) (s : Slots) (p : Nat) (op : Op)
    (hpL : p < s.length) (htail : ∀ k, p ≤ k → slotAt s k = none)
    (hwf : WF nv none s) (hok : OpOK nv none op) :
    FastOps.installStep (precanon nv s, lastOcc (occAt s) s.length, LV nv s, LR nv s) (p, op)
      = (precanon nv (s.set p (some op)), lastOcc (occAt (s.set p (some op))) (s.set p (some op)).length,
          LV nv (s.set p (some op)), LR nv (s.set p (some op))) := by
  have hsp : slotAt s p = none := htail p (Nat.le_refl p)
  obtain ⟨hne, hnodup, hlt, hbond⟩ := hok
  have hok' : OpOK nv none op := ⟨hne, hnodup, hlt, hbond⟩
  have hP' := occ_set s p (some op) hpL
  simp only [Option.isSome_some] at hP'
  have hocc : occAt s p = false := occ_false_of_slotAt hsp
  have htailO : ∀ k, p ≤ k → k < s.length → occAt s k = false := by
    intro k hk _; exact occ_false_of_slotAt (htail k hk)
  have htailV : ∀ w k, p ≤ k → k < s.length → occVAt s w k = false := by
    intro w k hk _; unfold occVAt; rw [htail k hk]
  have hprevlast : prevOcc (occAt s) p = lastOcc (occAt s) s.length := prevOcc_eq_last htailO (by omega)
  have hnextnone : nextOcc (occAt s) s.length p = none := nextOcc_none_of_tail htailO
  have hlastV : ∀ w, lastRel s w = prevRel s w p := by
    intro w; unfold lastRel prevRel; rw [prevOcc_eq_last (htailV w) (by omega)]
  have hnextV : ∀ w, nextOcc (occVAt s w) s.length p = none := fun w => nextOcc_none_of_tail (htailV w)
  have hlt_p : ∀ q oq, slotAt s q = some oq → q < p := by
    intro q oq hq
    by_cases h : q < p
    · exact h
    · rw [htail q (by omega)] at hq; cases hq
  -- the inner loop
  unfold FastOps.installStep
  simp only []
  generalize hc1 : FastOps.installLinkLast (precanon nv s) (lastOcc (occAt s) s.length) p = c1
  have hc1n : ∀ q, c1.nfv q = (precanon nv s).nfv q := by
    intro q; rw [← hc1]; unfold FastOps.installLinkLast; cases lastOcc (occAt s) s.length <;> simp
  have hc1p : ∀ q, c1.pfv q = (precanon nv s).pfv q := by
    intro q; rw [← hc1]; unfold FastOps.installLinkLast; cases lastOcc (occAt s) s.length <;> simp
  have hc1v : c1.varEnds = (precanon nv s).varEnds := by
    rw [← hc1]; unfold FastOps.installLinkLast; cases lastOcc (occAt s) s.length <;> simp
  have hpn : ∀ q, (precanon nv s).nfv q = (canon nv none s).nfv q := fun q => rfl
  have hpp : ∀ q, (precanon nv s).pfv q = (canon nv none s).pfv q := fun q => rfl
  have hbase : IL nv s p op [] (c1, LV nv s, LR nv s, []) := by
    constructor
    · intro q _
      simp only [hc1n, hpn, nfv_canon]
      cases slotAt s q with
      | none => rfl
      | some oq =>
        simp only [Option.map_some]
        congr 1
        apply List.map_congr_left
        intro w _
        unfold nextRel nextRelI PI
        simp only [List.not_mem_nil, if_false]
        exact relcongr s p op hsp w _ (fun y hy => (nextOcc_gt hy).2.2)
    · intro q _
      simp only [hc1p, hpp, pfv_canon]
    · simp only [hc1n, hpn, nfv_canon, hsp]; rfl
    · simp only [hc1p, hpp, pfv_canon, hsp]; rfl
    · simp only [hc1v]; simp [precanon]
    · simp [LV]
    · simp [LR]
    · rfl
    · exact Or.inr trivial
  have hfold := fold_inv' (IL nv s p op) (FastOps.installVarStep p) (fun x => x.1)
    (fun x => op.vars[x.2]? = some x.1)
    (fun D st x hx hD h => installVar_step nv s p op hsp hpL htail hwf hok' D st x hx hD h)
    op.vars.zipIdx [] (c1, LV nv s, LR nv s, []) (zipIdx_getElem? op.vars)
    (by rw [List.zipIdx_map_fst]; exact hnodup) (by simp) hbase
  rw [List.zipIdx_map_fst, List.append_nil] at hfold
  have hfg := installVarFold_g p op.vars.zipIdx (c1, LV nv s, LR nv s, [])
  generalize List.foldl (FastOps.installVarStep p) (c1, LV nv s, LR nv s, []) op.vars.zipIdx = r at hfold hfg ⊢
  obtain ⟨c2, lv2, lr2, pr2⟩ := r
  simp only at hfg
  have hL2 : c2.ops.length = s.length := by
    have := congrArg (fun x => x.ops.length) hfg
    simp only [FastOps.g_length] at this
    rw [this, ← hc1]
    unfold FastOps.installLinkLast
    cases lastOcc (occAt s) s.length <;> simp [precanon]
  have hlastp : lastOcc (occAt (s.set p (some op))) (s.set p (some op)).length = some p := by
    rw [List.length_set, hP', lastOcc_insert hpL, hnextnone]; rfl
  have hoccV' : ∀ w, occVAt (s.set p (some op)) w = PI s p op.vars w := occV_s1 s p op hsp hpL
  -- tables
  have hlv : lv2 = LV nv (s.set p (some op)) := by
    have := hfold.hlv
    simp only at this
    rw [this]
    unfold LV
    apply List.map_congr_left
    intro w _
    unfold lastRel
    rw [List.length_set, occV_set s p (some op) w hpL]
    by_cases hw : w ∈ op.vars
    · have hh : hasVar (some op) w = true := by simpa [hasVar] using hw
      simp only [List.mem_reverse, hw, if_true, hh]
      rw [lastOcc_insert hpL, hnextV w]
      rfl
    · have hh : hasVar (some op) w = false := by simpa [hasVar] using hw
      simp only [List.mem_reverse, hw, if_false, hh]
      rw [upd_self_eq (htailV w p (Nat.le_refl p) hpL)]
      have := relcongr s p op hsp w (lastOcc (occVAt s w) s.length) (fun y hy => (lastOcc_mem hy).2)
      unfold s1 at this
      rw [← this]
  have hlr : lr2 = LR nv (s.set p (some op)) := by
    have := hfold.hlr
    simp only at this
    rw [this]
    unfold LR
    apply List.map_congr_left
    intro w _
    unfold lastRel
    rw [List.length_set, occV_set s p (some op) w hpL]
    by_cases hw : w ∈ op.vars
    · have hh : hasVar (some op) w = true := by simpa [hasVar] using hw
      simp only [List.mem_reverse, hw, if_true, hh]
      rw [lastOcc_insert hpL, hnextV w]
      simp [relAt, slotAt_set, hpL]
    · have hh : hasVar (some op) w = false := by simpa [hasVar] using hw
      simp only [List.mem_reverse, hw, if_false, hh]
      rw [upd_self_eq (htailV w p (Nat.le_refl p) hpL)]
      have := relcongr s p op hsp w (lastOcc (occVAt s w) s.length) (fun y hy => (lastOcc_mem hy).2)
      unfold s1 at this
      rw [← this]
  rw [hlastp, hlv, hlr]
  congr 1
  -- the container
  generalize hnode : ({ op := op, previousP := lastOcc (occAt s) s.length, nextP := none, previousForVars := pr2, nextForVars := List.replicate op.vars.length none } : Node) = nodeNew
  have hng : nodeNew.g = canonNodeG (s.set p (some op)) p op := by
    rw [← hnode]
    simp only [Node.g, canonNodeG, List.length_set, hP', prevOcc_upd_self, nextOcc_upd_self, hprevlast,
      hnextnone]
  have hnn : nodeNew.nextForVars = List.replicate op.vars.length none := by rw [← hnode]
  have hnp : nodeNew.previousForVars = pr2 := by rw [← hnode]
  apply FastOps.eq_of_g_v
  · -- global view
    simp only [FastOps.setN_g, FastOps.setOp_g, hfg]
    rw [← hc1]
    have hlink : (FastOps.installLinkLast (precanon nv s) (lastOcc (occAt s) s.length) p).g
        = FastOps.installLinkLast (precanon nv s).g (lastOcc (occAt s) s.length) p := by
      unfold FastOps.installLinkLast
      cases lastOcc (occAt s) s.length <;> simp
    rw [hlink, precanon_g, precanon_g]
    generalize hX : FastOps.installLinkLast
      ((canonG none s).setPEnds ((firstOcc (occAt s) s.length).map (fun x => (x, x))))
      (lastOcc (occAt s) s.length) p = X
    have hXlen : X.ops.length = s.length := by
      rw [← hX]; unfold FastOps.installLinkLast; cases lastOcc (occAt s) s.length <;> simp
    have hXget : ∀ q, X.getNode q = ((canonG none s).getNode q).map (fun nd =>
        if lastOcc (occAt s) s.length = some q then { nd with nextP := some p } else nd) := by
      intro q
      rw [← hX]; unfold FastOps.installLinkLast
      cases hlo : lastOcc (occAt s) s.length with
      | none => simp
      | some lp =>
        simp only [FastOps.getNode_setNextP, FastOps.getNode_setPEnds]
        cases (canonG none s).getNode q with
        | none => rfl
        | some nd => by_cases e : lp = q <;> simp [e]
    have hXn : X.n = countOps s := by
      rw [← hX]; unfold FastOps.installLinkLast; cases lastOcc (occAt s) s.length <;> simp
    have hXpe : X.pEnds = match lastOcc (occAt s) s.length with
        | some _ => (firstOcc (occAt s) s.length).map (fun x => (x, x))
        | none => some (p, p) := by
      rw [← hX]; unfold FastOps.installLinkLast; cases lastOcc (occAt s) s.length <;> simp
    have hXbc : X.bondCounters = none := by
      rw [← hX]; unfold FastOps.installLinkLast; cases lastOcc (occAt s) s.length <;> simp [canonG, canon, FastOps.g]
    have hXve : X.varEnds = [] := by
      rw [← hX]; unfold FastOps.installLinkLast; cases lastOcc (occAt s) s.length <;> simp
    have hc2n : c2.n = countOps s := by
      have := congrArg FastOps.n hfg
      simp only [FastOps.g_n] at this
      rw [this, ← hc1]
      unfold FastOps.installLinkLast
      cases lastOcc (occAt s) s.length <;> simp [precanon, canon]
    apply FastOps.ext'
    · simp [hXlen]
    · intro q _
      simp only [FastOps.getNode_setN, FastOps.getNode_setOp, FastOps.getNode_setPEnds, hXlen, hXget,
        getNode_canonG, slotAt_set, Option.map_some]
      by_cases hqp : p = q
      · subst hqp
        simp only [hpL, and_self, if_true, Option.map_some, hng]
      · simp only [hqp, false_and, if_false]
        cases hsq : slotAt s q with
        | none => rfl
        | some oq =>
          have hq := occ_of_slotAt hsq
          have hqL := slotAt_lt hsq
          have hqp' : q ≠ p := fun e => hqp e.symm
          simp only [Option.map_some, canonNodeG, List.length_set, hP']
          rw [prevOcc_insert hq hqp' hqL, nextOcc_insert hq hqp' hpL, hnextnone, hprevlast]
          by_cases e : lastOcc (occAt s) s.length = some q <;> simp [e]
    · have := countOps_set s p (some op) hpL
      simp [hocc] at this
      simp [hc2n]; omega
    · simp only [FastOps.pEnds_setN, FastOps.pEnds_setOp, hXpe, FastOps.pEnds_setPEnds']
      rw [List.length_set, hP', firstOcc_insert hpL, hprevlast]
      cases hlo : lastOcc (occAt s) s.length with
      | none => simp
      | some lp =>
        obtain ⟨f, hf⟩ : ∃ f, firstOcc (occAt s) s.length = some f := by
          have := @first_some_iff_last_some (occAt s) s.length
          rw [hlo] at this
          cases h : firstOcc (occAt s) s.length with
          | none => rw [h] at this; cases this
          | some f => exact ⟨f, rfl⟩
        simp [hf]
    · simp [hXve]
    · simp [hXbc, canonG, canon, FastOps.g]
  · -- next_for_vars
    intro q
    have hR : (precanon nv (s.set p (some op))).nfv q = (canon nv none (s.set p (some op))).nfv q := rfl
    rw [hR, nfv_canon]
    simp only [FastOps.nfv_setN, FastOps.nfv_setOp, hL2, slotAt_set]
    by_cases hq : p = q
    · subst hq
      simp only [hpL, and_self, if_true, Option.map_some]
      rw [hnn]
      congr 1
      apply List.ext_getElem?
      intro i
      simp only [List.getElem?_replicate, List.getElem?_map]
      by_cases hi : i < op.vars.length
      · simp only [hi, if_true, List.getElem?_eq_getElem hi, Option.map_some]
        congr 1
        unfold nextRel
        rw [List.length_set, occV_set s p (some op) _ hpL, nextOcc_upd_self, hnextV]
        rfl
      · simp [hi, List.getElem?_eq_none (Nat.le_of_not_lt hi)]
    · simp only [hq, false_and, if_false]
      have := hfold.hn q (fun e => hq e.symm)
      simp only at this
      rw [this]
      cases slotAt s q with
      | none => rfl
      | some oq =>
        simp only [Option.map_some]
        congr 1
        apply List.map_congr_left
        intro w _
        unfold nextRelI nextRel
        rw [List.length_set, hoccV']
        unfold PI
        simp
  · -- previous_for_vars
    intro q
    have hR : (precanon nv (s.set p (some op))).pfv q = (canon nv none (s.set p (some op))).pfv q := rfl
    rw [hR, pfv_canon]
    simp only [FastOps.pfv_setN, FastOps.pfv_setOp, hL2, slotAt_set]
    by_cases hq : p = q
    · subst hq
      simp only [hpL, and_self, if_true, Option.map_some]
      rw [hnp]
      congr 1
      have := hfold.hpr
      simp only at this
      rw [this, List.reverse_reverse]
      apply List.map_congr_left
      intro w _
      rw [hlastV w, prevRel_set_self s p (some op) w hpL]
    · simp only [hq, false_and, if_false]
      have := hfold.hp q (fun e => hq e.symm)
      simp only at this
      rw [this]
      cases hsq : slotAt s q with
      | none => rfl
      | some oq =>
        simp only [Option.map_some]
        congr 1
        apply List.map_congr_left
        intro w _
        have hqp := hlt_p q oq hsq
        unfold prevRel
        rw [occV_set s p (some op) w hpL, prevOcc_upd_of_le _ (by omega)]
        apply map_relAt_congr
        intro y hy e
        subst e
        have := (prevOcc_lt hy).1
        omega
  · -- var_ends
    have := hfold.hv
    simp only at this
    simp only [FastOps.varEnds_setN, FastOps.varEnds_setOp, this, precanon]
    apply List.map_congr_left
    intro w _
    unfold canonVarEnd
    rw [staleV_zip _ _ (firstRel_isSome (s.set p (some op)) w)]
    unfold firstRel
    rw [List.length_set, occV_set s p (some op) w hpL]
    by_cases hw : w ∈ op.vars
    · have hh : hasVar (some op) w = true := by simpa [hasVar] using hw
      simp only [List.mem_reverse, hw, if_true, hh]
      rw [firstOcc_insert hpL]
      cases hpo : prevOcc (occVAt s w) p with
      | none =>
        have hf : firstOcc (occVAt s w) s.length = none := by
          rw [firstOcc_none_iff]
          intro j hj
          by_cases hjp : j < p
          · exact (prevOcc_none_iff.mp hpo) j hjp
          · exact htailV w j (by omega) hj
        simp [hf]
      | some y =>
        obtain ⟨f, hf⟩ := first_some_of_prev_some (L := s.length) hpo hpL
        have hfne : f ≠ p := by
          intro e; subst e
          have := (firstOcc_mem hf).2
          rw [htailV w f (Nat.le_refl f) hpL] at this; cases this
        simp [hf, relAt_set_ne s p (some op) w f hfne]
    · have hh : hasVar (some op) w = false := by simpa [hasVar] using hw
      simp only [List.mem_reverse, hw, if_false, hh]
      rw [upd_self_eq (htailV w p (Nat.le_refl p) hpL)]
      have e := staleV_zip (firstRel s w) (lastRel s w) (firstRel_isSome s w)
      unfold firstRel at e
      rw [e]
      have := relcongr s p op hsp w (firstOcc (occVAt s w) s.length) (fun y hy => (firstOcc_mem hy).2)
      unfold s1 at this
      rw [← this]


/-- the naive slot array after writing an op list -/
def installA (s : Slots) (l : List (Nat × Op)) : Slots :=
  l.foldl (fun s po => s.set po.1 (some po.2)) s

theorem installA_length (s : Slots) (l : List (Nat × Op)) : (installA s l).length = s.length := by
  induction l generalizing s with
  | nil => rfl
  | cons x t ih => simp only [installA, List.foldl_cons] at ih ⊢; rw [ih]; simp

/-- the fold of `clear_and_install_ops` -/
theorem installFold_precanon (nv : Nat) :
    ∀ (l : List (Nat × Op)) (s : Slots), WF nv none s →
      (l.map (·.1)).Pairwise (· < ·) → (∀ x ∈ l, x.1 < s.length ∧ OpOK nv none x.2) →
      (∀ x ∈ l, ∀ k, x.1 ≤ k → slotAt s k = none) →
      l.foldl FastOps.installStep (precanon nv s, lastOcc (occAt s) s.length, LV nv s, LR nv s)
        = (precanon nv (installA s l), lastOcc (occAt (installA s l)) (installA s l).length,
            LV nv (installA s l), LR nv (installA s l)) ∧ WF nv none (installA s l) := by
  intro l
  induction l with
  | nil => intro s hwf _ _ _; exact ⟨rfl, hwf⟩
  | cons x t ih =>
    intro s hwf hsorted hall htail
    obtain ⟨p, op⟩ := x
    simp only [List.map_cons, List.pairwise_cons] at hsorted
    obtain ⟨hpL, hok⟩ := hall (p, op) (by simp)
    have hstep := installStep_precanon nv s p op hpL (htail (p, op) (by simp)) hwf hok
    simp only [List.foldl_cons, installA]
    rw [hstep]
    have hwf' : WF nv none (s.set p (some op)) :=
      WF_set nv none s p (some op) hwf (fun o ho => by cases ho; exact hok)
    have := ih (s.set p (some op)) hwf' hsorted.2
      (by intro y hy; rw [List.length_set]; exact hall y (by simp [hy]))
      (by
        intro y hy k hk
        have hlt : p < y.1 := hsorted.1 y.1 (List.mem_map_of_mem hy)
        rw [slotAt_set]
        have : ¬ p = k := by omega
        simp only [this, false_and, if_false]
        exact htail (p, op) (by simp) k (by omega))
    simp only [installA] at this
    exact this

theorem slotAt_replicate_none (L q : Nat) : slotAt (List.replicate L none) q = none := by
  unfold slotAt
  rw [List.getElem?_replicate]
  split <;> rfl

theorem precanon_empty (nv L : Nat) :
    precanon nv (List.replicate L none)
      = { ops := List.replicate L none, n := 0, pEnds := none, varEnds := List.replicate nv none,
          bondCounters := none } := by
  have hocc : occAt (List.replicate L none) = fun _ => false := by
    funext q; unfold occAt; rw [slotAt_replicate_none]; rfl
  have hoccV : ∀ v, occVAt (List.replicate L none) v = fun _ => false := by
    intro v; funext q; unfold occVAt; rw [slotAt_replicate_none]
  have hf : ∀ (P : Nat → Bool) (n : Nat), P = (fun _ => false) → firstOcc P n = none := by
    intro P n hP; subst hP; rw [firstOcc_none_iff]; intros; rfl
  have hl : ∀ (P : Nat → Bool) (n : Nat), P = (fun _ => false) → lastOcc P n = none := by
    intro P n hP; subst hP; rw [lastOcc_none_iff]; intros; rfl
  unfold precanon
  simp only [FastOps.setPEnds, canon, canonEnds, canonVarEnd, firstRel, lastRel, hf _ _ hocc, hl _ _ hocc,
    hf _ _ (hoccV _), hl _ _ (hoccV _), zipOpt, staleP, staleV, Option.map_none, List.length_replicate]
  congr 1
  · apply List.ext_getElem?
    intro i
    simp only [List.getElem?_map, List.getElem?_replicate]
    by_cases hi : i < L
    · simp [hi, slotAt_replicate_none]
    · simp [hi]
  · simp [countOps]
  · exact (FastOps.replicate_eq_range_map nv none).symm

theorem max_le_foldl_max (l : List Nat) (a x : Nat) (h : x ∈ l ∨ x ≤ a) : x ≤ l.foldl max a := by
  induction l generalizing a with
  | nil =>
    cases h with
    | inl h => cases h
    | inr h => exact h
  | cons y t ih =>
    simp only [List.foldl_cons]
    apply ih
    cases h with
    | inl h =>
      cases h with
      | head => right; omega
      | tail _ h => left; exact h
    | inr h => right; omega

namespace FastOps

theorem clearForInstall_new (nv L : Nat) :
    (FastOps.new nv none).clearForInstall L = precanon nv (List.replicate L none) := by
  rw [precanon_empty]; simp [clearForInstall, FastOps.new]

/-- the two final fix-ups turn the stale ends into the canonical ones -/
theorem fixEndTails_precanon (nv : Nat) (s : Slots) :
    fixEndTails (precanon nv s) (lastOcc (occAt s) s.length) (LV nv s) (LR nv s) = canon nv none s := by
  apply eq_of_g_v
  · apply ext'
    · simp [fixEndTails, precanon]
    · intro q _; rfl
    · rfl
    · simp only [fixEndTails, g_pEnds, precanon, pEnds_setPEnds', canon, canonEnds]
      have := @first_some_iff_last_some (occAt s) s.length
      cases h1 : firstOcc (occAt s) s.length <;> cases h2 : lastOcc (occAt s) s.length <;>
        simp [h1, h2, zipOpt, staleP] at this ⊢
    · rfl
    · rfl
  · intro q; rfl
  · intro q; rfl
  · simp only [fixEndTails, precanon, LV, LR, canon, varEnds_setPEnds]
    apply List.ext_getElem?
    intro i
    simp only [List.getElem?_map]
    by_cases hi : i < nv
    · have hz : (((List.range nv).map (fun v => staleV (canonVarEnd s v))).zip
          (((List.range nv).map (fun w => (lastRel s w).map (·.p))).zip
            ((List.range nv).map (fun w => (lastRel s w).map (·.relv)))))[i]?
          = some (staleV (canonVarEnd s i), (lastRel s i).map (·.p), (lastRel s i).map (·.relv)) := by
        rw [List.getElem?_zip_eq_some]
        refine ⟨by simp [List.getElem?_map, List.getElem?_range hi], ?_⟩
        rw [List.getElem?_zip_eq_some]
        exact ⟨by simp [List.getElem?_map, List.getElem?_range hi],
          by simp [List.getElem?_map, List.getElem?_range hi]⟩
      rw [hz, List.getElem?_range hi]
      simp only [Option.map_some]
      congr 1
      unfold canonVarEnd
      have := firstRel_isSome s i
      cases h1 : firstRel s i <;> cases h2 : lastRel s i <;> simp [h1, h2, zipOpt, staleV] at this ⊢
    · have hn : (((List.range nv).map (fun v => staleV (canonVarEnd s v))).zip
          (((List.range nv).map (fun w => (lastRel s w).map (·.p))).zip
            ((List.range nv).map (fun w => (lastRel s w).map (·.relv)))))[i]? = none := by
        apply List.getElem?_eq_none
        simp; omega
      rw [hn, List.getElem?_eq_none (by simpa using Nat.le_of_not_lt hi)]
      rfl

/-- `FastOps::new_from_ops` on a strictly increasing list of well-formed ops builds the canonical
container of the naive slot array -/
theorem newFromOps_canon (nv : Nat) (l : List (Nat × Op)) (hne : l ≠ [])
    (hsorted : (l.map (·.1)).Pairwise (· < ·)) (hok : ∀ x ∈ l, OpOK nv none x.2) :
    newFromOps nv l
      = canon nv none (installA (List.replicate ((l.map (·.1)).foldl max 0 + 1) none) l) := by
  unfold newFromOps clearAndInstallOps
  have hemp : l.isEmpty = false := by cases l <;> simp_all
  simp only [hemp, Bool.false_eq_true, if_false]
  generalize hL : (l.map (·.1)).foldl max 0 + 1 = L
  have hnv : (FastOps.new nv none).varEnds.length = nv := by simp [FastOps.new]
  have hwf0 : WF nv none (List.replicate L none) := by
    intro q op hq; rw [slotAt_replicate_none] at hq; cases hq
  have hlast0 : lastOcc (occAt (List.replicate L none)) (List.replicate L (none : Option Op)).length = none := by
    rw [lastOcc_none_iff]; intro k _; unfold occAt; rw [slotAt_replicate_none]; rfl
  have hlastV0 : ∀ w, lastRel (List.replicate L none) w = none := by
    intro w
    unfold lastRel
    have : lastOcc (occVAt (List.replicate L none) w) (List.replicate L (none : Option Op)).length = none := by
      rw [lastOcc_none_iff]; intro k _; unfold occVAt; rw [slotAt_replicate_none]
    rw [this]; rfl
  have hLV0 : LV nv (List.replicate L none) = List.replicate nv none := by
    unfold LV; simp only [hlastV0, Option.map_none]; exact (replicate_eq_range_map nv none).symm
  have hLR0 : LR nv (List.replicate L none) = List.replicate nv none := by
    unfold LR; simp only [hlastV0, Option.map_none]; exact (replicate_eq_range_map nv none).symm
  rw [hnv, clearForInstall_new]
  obtain ⟨hfold, _⟩ := installFold_precanon nv l (List.replicate L none) hwf0 hsorted
    (by
      intro x hx
      refine ⟨?_, hok x hx⟩
      rw [List.length_replicate, ← hL]
      have := max_le_foldl_max (l.map (·.1)) 0 x.1 (Or.inl (List.mem_map_of_mem hx))
      omega)
    (by intro x _ k _; exact slotAt_replicate_none L k)
  rw [hlast0, hLV0, hLR0] at hfold
  rw [hfold]
  exact fixEndTails_precanon nv _

end FastOps
end Qmc
