/-
C20, FFT route: the pipeline `fft_autocorrelation` (src/sse/autocorrelations.rs) actually runs
  mean removal → division by the Euclidean norm → forward FFT → `norm_sqr` → inverse FFT (unnormalised)
  → `.re`, sum over observables, division by `n·tmax`
equals, in exact real/complex arithmetic, the direct circular sum the hand model `Qmc.autocorr`
(QmcModel/Autocorr.lean) evaluates.  This is the discrete Wiener–Khinchin identity; it is proved here for
every length `N ≥ 1` and every complex input from the orthogonality of the characters
`k ↦ e^{2πi k m / N}`.

Trusted (not proved here): rustfft's `plan_fft_forward(N)` / `plan_fft_inverse(N)` compute the transforms they
document (`X_k = Σ_j x_j e^{-2πi jk/N}`, `y_t = Σ_k X_k e^{+2πi kt/N}`, no normalisation), and f64 rounding.
-/
import QmcProofs.Autocorr
import Mathlib.Analysis.SpecialFunctions.Complex.Log
import Mathlib.Analysis.Real.Sqrt
import Mathlib.Algebra.Field.GeomSum

namespace Qmc.AutocorrFFT

open Complex Finset
open scoped Real ComplexConjugate

noncomputable section

/-! ### the two transforms, as rustfft documents them -/

/-- rustfft forward transform of length `N` (`FftDirection::Forward`): `X_k = Σ_j x_j e^{-2πi jk/N}` -/
def dft (N : ℕ) (x : ℕ → ℂ) (k : ℕ) : ℂ :=
  ∑ j ∈ range N, x j * Complex.exp (-(2 * π * I * j * k / N))

/-- rustfft inverse transform of length `N` (`FftDirection::Inverse`), unnormalised:
`y_t = Σ_k X_k e^{+2πi kt/N}` -/
def idft (N : ℕ) (X : ℕ → ℂ) (t : ℕ) : ℂ :=
  ∑ k ∈ range N, X k * Complex.exp (2 * π * I * k * t / N)

/-! ### characters of ℤ/N and their orthogonality -/

/-- `χ_N(m) = e^{2πi m/N}` -/
def chi (N : ℕ) (m : ℤ) : ℂ := Complex.exp (2 * π * I * m / N)

theorem chi_add (N : ℕ) (a b : ℤ) : chi N (a + b) = chi N a * chi N b := by
  unfold chi
  rw [← Complex.exp_add]
  congr 1
  push_cast
  ring

theorem chi_conj (N : ℕ) (m : ℤ) : conj (chi N m) = chi N (-m) := by
  unfold chi
  rw [← Complex.exp_conj]
  congr 1
  simp only [map_div₀, map_mul, map_ofNat, conj_ofReal, conj_I, map_intCast, map_natCast]
  push_cast
  ring

theorem chi_nat_mul (N : ℕ) (k : ℕ) (m : ℤ) : chi N ((k : ℤ) * m) = chi N m ^ k := by
  unfold chi
  rw [← Complex.exp_nat_mul]
  congr 1
  push_cast
  ring

theorem chi_eq_one_iff {N : ℕ} (hN : 0 < N) (m : ℤ) : chi N m = 1 ↔ (N : ℤ) ∣ m := by
  have hN' : (N : ℂ) ≠ 0 := Nat.cast_ne_zero.mpr (Nat.pos_iff_ne_zero.mp hN)
  unfold chi
  rw [Complex.exp_eq_one_iff]
  constructor
  · rintro ⟨n, hn⟩
    refine ⟨n, ?_⟩
    have h2 : (2 * π * I : ℂ) ≠ 0 := Complex.two_pi_I_ne_zero
    have h3 : (m : ℂ) = (N : ℂ) * n := by
      have : 2 * π * I * (m : ℂ) = 2 * π * I * ((N : ℂ) * n) := by
        have h4 : 2 * π * I * (m : ℂ) / N * N = n * (2 * π * I) * N := by rw [hn]
        rw [div_mul_cancel₀ _ hN'] at h4
        rw [h4]; ring
      exact mul_left_cancel₀ h2 this
    exact_mod_cast h3
  · rintro ⟨c, rfl⟩
    refine ⟨c, ?_⟩
    push_cast
    field_simp

theorem chi_pow_self (N : ℕ) (hN : 0 < N) (m : ℤ) : chi N m ^ N = 1 := by
  rw [← chi_nat_mul, chi_eq_one_iff hN]
  exact Dvd.intro _ rfl

/-- orthogonality of the characters: `Σ_{k<N} e^{2πi k m/N}` is `N` when `N ∣ m` and `0` otherwise -/
theorem chi_sum {N : ℕ} (hN : 0 < N) (m : ℤ) :
    ∑ k ∈ range N, chi N ((k : ℤ) * m) = if (N : ℤ) ∣ m then (N : ℂ) else 0 := by
  simp only [chi_nat_mul]
  split
  · next h =>
    rw [(chi_eq_one_iff hN m).mpr h]
    simp
  · next h =>
    have hne : chi N m ≠ 1 := fun e => h ((chi_eq_one_iff hN m).mp e)
    rw [geom_sum_eq hne, chi_pow_self N hN, sub_self, zero_div]

/-- the same, written with `Complex.exp` -/
theorem exp_sum_orthogonality {N : ℕ} (hN : 0 < N) (m : ℤ) :
    ∑ k ∈ range N, Complex.exp (2 * π * I * k * m / N) = if (N : ℤ) ∣ m then (N : ℂ) else 0 := by
  rw [← chi_sum hN m]
  refine sum_congr rfl fun k _ => ?_
  unfold chi
  congr 1
  push_cast
  ring

theorem dft_eq (N : ℕ) (x : ℕ → ℂ) (k : ℕ) : dft N x k = ∑ j ∈ range N, x j * chi N (-((j : ℤ) * k)) := by
  unfold dft chi
  refine sum_congr rfl fun j _ => ?_
  congr 2
  push_cast
  ring

theorem idft_eq (N : ℕ) (X : ℕ → ℂ) (t : ℕ) : idft N X t = ∑ k ∈ range N, X k * chi N ((k : ℤ) * t) := by
  unfold idft chi
  refine sum_congr rfl fun k _ => ?_
  congr 2
  push_cast
  ring

theorem dvd_shift_iff {N a b t : ℕ} (ha : a < N) :
    (N : ℤ) ∣ ((b : ℤ) + t - a) ↔ a = (b + t) % N := by
  have h := @Nat.modEq_iff_dvd N a (b + t)
  push_cast at h
  rw [← h]
  unfold Nat.ModEq
  rw [Nat.mod_eq_of_lt ha]

/-! ### Wiener–Khinchin -/

/-- **Discrete Wiener–Khinchin.** For every length `N ≥ 1` and every complex series `x`, the unnormalised inverse
transform of the power spectrum `|X_k|²` is `N` times the circular autocorrelation:
`Σ_k |X_k|² e^{2πi kt/N} = N · Σ_j conj(x_j) · x_{(j+t) mod N}`. -/
theorem wiener_khinchin {N : ℕ} (hN : 0 < N) (x : ℕ → ℂ) (t : ℕ) :
    idft N (fun k => ((Complex.normSq (dft N x k) : ℝ) : ℂ)) t =
      (N : ℂ) * ∑ j ∈ range N, conj (x j) * x ((j + t) % N) := by
  have h1 : ∀ k : ℕ, ((Complex.normSq (dft N x k) : ℝ) : ℂ) * chi N ((k : ℤ) * t) =
      ∑ b ∈ range N, ∑ a ∈ range N, (conj (x b) * x a) * chi N ((k : ℤ) * ((b : ℤ) + t - a)) := by
    intro k
    rw [← Complex.mul_conj, dft_eq, map_sum, Finset.sum_mul_sum, Finset.sum_mul, Finset.sum_comm]
    refine sum_congr rfl fun a _ => ?_
    rw [Finset.sum_mul]
    refine sum_congr rfl fun b _ => ?_
    rw [map_mul, chi_conj, neg_neg]
    have e : (k : ℤ) * ((b : ℤ) + t - a) = -((a : ℤ) * k) + (b : ℤ) * k + (k : ℤ) * t := by ring
    rw [e, chi_add, chi_add]
    ring
  rw [idft_eq]
  simp only [h1]
  rw [Finset.sum_comm, Finset.mul_sum]
  refine sum_congr rfl fun b _ => ?_
  rw [Finset.sum_comm]
  simp only [← Finset.mul_sum, chi_sum hN]
  rw [Finset.sum_eq_single ((b + t) % N)]
  · rw [if_pos ((dvd_shift_iff (Nat.mod_lt _ hN)).mpr rfl)]
    ring
  · intro a ha hne
    rw [if_neg (fun h => hne ((dvd_shift_iff (mem_range.mp ha)).mp h)), mul_zero]
  · intro h
    exact absurd (mem_range.mpr (Nat.mod_lt _ hN)) h


/-- real input (what the Rust feeds: imaginary part `0.0`): no conjugate is left -/
theorem wiener_khinchin_real {N : ℕ} (hN : 0 < N) (r : ℕ → ℝ) (t : ℕ) :
    idft N (fun k => ((Complex.normSq (dft N (fun j => (r j : ℂ)) k) : ℝ) : ℂ)) t =
      (((N : ℝ) * ∑ j ∈ range N, r j * r ((j + t) % N) : ℝ) : ℂ) := by
  rw [wiener_khinchin hN]
  push_cast
  simp only [conj_ofReal]

/-! ### the pipeline of `fft_autocorrelation`, step by step (src/sse/autocorrelations.rs l.99–133) -/

/-- `samples[t][i]` (an `f64`; here the exact rational the harness feeds, as a real) -/
def entry (S : List (List ℚ)) (t i : ℕ) : ℝ := (((S.getD t []).getD i 0 : ℚ) : ℝ)

/-- l.103–105: `means[i] = (0..tmax).map(|t| samples[t][i]).sum() / tmax as f64` -/
def meanF (S : List (List ℚ)) (i : ℕ) : ℝ := (∑ t ∈ range S.length, entry S t i) / (S.length : ℝ)

/-- l.109–111: `v[t] = Complex::new(samples[t][i] - means[i], 0.0)` -/
def centred (S : List (List ℚ)) (i t : ℕ) : ℂ := ((entry S t i - meanF S i : ℝ) : ℂ)

/-- l.112: `norm = v.iter().map(|v| (v.conj() * v).re).sum::<f64>().sqrt()` -/
def normF (S : List (List ℚ)) (i : ℕ) : ℝ :=
  Real.sqrt (∑ t ∈ range S.length, (conj (centred S i t) * centred S i t).re)

/-- l.113: `v.iter_mut().for_each(|c| c.div_assign(norm))` (complex divided by the real `norm`) -/
def inputF (S : List (List ℚ)) (i t : ℕ) : ℂ := centred S i t / ((normF S i : ℝ) : ℂ)

/-- l.118, l.123: `fft.process(input)` with `fft = plan_fft_forward(tmax)` -/
def spectrum (S : List (List ℚ)) (i k : ℕ) : ℂ := dft S.length (inputF S i) k

/-- l.124–126: `*c = Complex::new(c.norm_sqr(), 0.0)` -/
def power (S : List (List ℚ)) (i k : ℕ) : ℂ := ((Complex.normSq (spectrum S i k) : ℝ) : ℂ)

/-- l.120, l.127: `ifft.process(input)` with `ifft = plan_fft_inverse(tmax)` (rustfft does not normalise) -/
def back (S : List (List ℚ)) (i t : ℕ) : ℂ := idft S.length (power S i) t

/-- l.130–132: `(0..tmax).map(|t| (0..n).map(|i| input[i][t].re).sum::<f64>() / ((n * tmax) as f64))`,
`tmax = samples.len()`, `n = samples[0].len()` (l.100–101; `samples[0]` panics on no sample: `autocorrPanics`) -/
def fftPipeline (S : List (List ℚ)) : List ℝ :=
  (List.range S.length).map fun t =>
    (∑ i ∈ range (nObs S), (back S i t).re) / ((nObs S * S.length : ℕ) : ℝ)

/-! ### list sums as `Finset.range` sums, casts -/

theorem cast_list_sum (l : List ℚ) : ((l.sum : ℚ) : ℝ) = ∑ t ∈ range l.length, ((l.getD t 0 : ℚ) : ℝ) := by
  induction l with
  | nil => simp
  | cons a l ih =>
    rw [List.sum_cons, List.length_cons, Finset.sum_range_succ', Rat.cast_add, ih]
    simp [add_comm]

theorem cast_range_map_sum (f : ℕ → ℚ) (n : ℕ) :
    ((((List.range n).map f).sum : ℚ) : ℝ) = ∑ i ∈ range n, ((f i : ℚ) : ℝ) := by
  induction n with
  | zero => simp
  | succ n ih =>
    rw [List.range_succ, List.map_append, List.sum_append, Finset.sum_range_succ, Rat.cast_add, ih]
    simp

theorem dot_cast (a b : List ℚ) (h : a.length = b.length) :
    ((dot a b : ℚ) : ℝ) = ∑ s ∈ range a.length, ((a.getD s 0 : ℚ) : ℝ) * ((b.getD s 0 : ℚ) : ℝ) := by
  induction a generalizing b with
  | nil => simp [dot]
  | cons x a ih =>
    cases b with
    | nil => simp at h
    | cons y b =>
      have h' : a.length = b.length := by simpa using h
      rw [dot_cons, List.length_cons, Finset.sum_range_succ', Rat.cast_add, Rat.cast_mul, ih b h']
      simp [add_comm]

theorem length_column (S : List (List ℚ)) (i : ℕ) : (column S i).length = S.length := by
  simp [column]

theorem entry_eq (S : List (List ℚ)) (t i : ℕ) : entry S t i = (((column S i).getD t 0 : ℚ) : ℝ) := by
  unfold entry column
  congr 1
  simp only [List.getD_eq_getElem?_getD, List.getElem?_map]
  cases S[t]? <;> simp

theorem meanF_eq (S : List (List ℚ)) (i : ℕ) : meanF S i = ((mean (column S i) : ℚ) : ℝ) := by
  unfold meanF mean
  rw [Rat.cast_div, cast_list_sum, length_column, Rat.cast_natCast]
  simp only [entry_eq]

theorem centred_eq (S : List (List ℚ)) (i t : ℕ) (ht : t < S.length) :
    centred S i t = ((((center (column S i)).getD t 0 : ℚ) : ℝ) : ℂ) := by
  unfold centred center
  rw [entry_eq, meanF_eq]
  have ht' : t < (column S i).length := by rw [length_column]; exact ht
  simp only [List.getD_eq_getElem?_getD, List.getElem?_map, List.getElem?_eq_getElem ht', Option.map_some,
    Option.getD_some]
  push_cast
  rfl

/-- the radicand of l.112 is the hand model's `dot y y` -/
theorem norm_radicand (S : List (List ℚ)) (i : ℕ) :
    ∑ t ∈ range S.length, (conj (centred S i t) * centred S i t).re =
      ((dot (center (column S i)) (center (column S i)) : ℚ) : ℝ) := by
  rw [dot_cast _ _ rfl, length_center, length_column]
  refine sum_congr rfl fun t ht => ?_
  rw [centred_eq S i t (mem_range.mp ht), conj_ofReal, ← ofReal_mul, ofReal_re]

theorem normF_mul_self (S : List (List ℚ)) (i : ℕ) :
    normF S i * normF S i = ((dot (center (column S i)) (center (column S i)) : ℚ) : ℝ) := by
  unfold normF
  rw [norm_radicand, Real.mul_self_sqrt]
  exact_mod_cast dot_self_nonneg _

/-- the divisor of l.113 vanishes exactly when the hand model's guard fails for that column -/
theorem normF_eq_zero_iff (S : List (List ℚ)) (i : ℕ) :
    normF S i = 0 ↔ dot (center (column S i)) (center (column S i)) = 0 := by
  rw [← mul_self_eq_zero, normF_mul_self]
  exact_mod_cast Iff.rfl

/-- per observable: the output of l.127 at lag `t` is the real number `tmax · colAutocorr` -/
theorem back_eq (S : List (List ℚ)) (i t : ℕ) (ht : t < S.length) :
    back S i t = ((((S.length : ℚ) * colAutocorr (column S i) t : ℚ) : ℝ) : ℂ) := by
  have hT : 0 < S.length := by omega
  set y := center (column S i) with hy
  have hly : y.length = S.length := by rw [hy, length_center, length_column]
  have hin : ∀ s, s < S.length → inputF S i s = (((((y.getD s 0 : ℚ) : ℝ) / normF S i : ℝ)) : ℂ) := by
    intro s hs
    unfold inputF
    rw [centred_eq S i s hs]
    push_cast
    rfl
  have hsp : ∀ k, spectrum S i k =
      dft S.length (fun s => (((((y.getD s 0 : ℚ) : ℝ) / normF S i : ℝ)) : ℂ)) k := by
    intro k
    unfold spectrum dft
    exact sum_congr rfl fun s hs => by rw [hin s (mem_range.mp hs)]
  unfold back power
  simp only [hsp]
  rw [wiener_khinchin_real hT]
  congr 1
  unfold colAutocorr
  rw [← hy]
  push_cast
  rw [dot_cast y (rot y t) (length_rot y t).symm, ← normF_mul_self, hly]
  rw [div_eq_mul_inv, Finset.sum_mul]
  congr 1
  refine sum_congr rfl fun s hs => ?_
  have hs' : s < y.length := by rw [hly]; exact mem_range.mp hs
  rw [rot_getD y t s (by omega) hs', hly, div_mul_div_comm, div_eq_mul_inv]

theorem back_re (S : List (List ℚ)) (i t : ℕ) (ht : t < S.length) :
    (back S i t).re = (S.length : ℝ) * ((colAutocorr (column S i) t : ℚ) : ℝ) := by
  rw [back_eq S i t ht, ofReal_re]
  push_cast
  rfl

/-- entry `t` of the pipeline's output -/
theorem fftPipeline_entry (S : List (List ℚ)) (t : ℕ) (ht : t < S.length) :
    (∑ i ∈ range (nObs S), (back S i t).re) / ((nObs S * S.length : ℕ) : ℝ) =
      (((((List.range (nObs S)).map fun i => colAutocorr (column S i) t).sum / (nObs S : ℚ) : ℚ)) : ℝ) := by
  have hT : (S.length : ℝ) ≠ 0 := by
    have : S.length ≠ 0 := by omega
    exact_mod_cast this
  simp only [back_re S _ t ht]
  rw [← Finset.mul_sum]
  rw [Rat.cast_div, cast_range_map_sum, Rat.cast_natCast, Nat.cast_mul,
    mul_comm ((nObs S : ℕ) : ℝ) (S.length : ℝ), mul_div_mul_left _ _ hT]

/-- **The FFT route equals the direct circular sum.** For every sample table on which the hand model is defined
(at least one observable, no mean-removed column of norm zero — exactly the inputs on which the f64 code divides
by non-zero numbers, `normF_eq_zero_iff`), the pipeline of `fft_autocorrelation` in exact arithmetic returns the
hand model's `autocorr`.  (Outside the guard the Rust returns NaN = 0/0 in every entry; Lean's total division
`x/0 = 0` would make both sides `0` there, which says nothing about the code — hence the guard.) -/
theorem fft_route_eq_direct (S : List (List ℚ)) (_hdef : autocorrDefined S = true) :
    fftPipeline S = (autocorr S).map fun q => ((q : ℚ) : ℝ) := by
  unfold fftPipeline autocorr
  rw [List.map_map]
  apply List.map_congr_left
  intro t ht
  exact fftPipeline_entry S t (List.mem_range.mp ht)

theorem fftPipeline_length (S : List (List ℚ)) : (fftPipeline S).length = S.length := by
  simp [fftPipeline]

/-- what the guard gives: the pipeline never divides by zero -/
theorem fft_divisors_ne_zero (S : List (List ℚ)) (hdef : autocorrDefined S = true) :
    (∀ i, i < nObs S → normF S i ≠ 0) ∧ ((nObs S * S.length : ℕ) : ℝ) ≠ 0 := by
  unfold autocorrDefined at hdef
  simp only [Bool.and_eq_true, decide_eq_true_eq, List.all_eq_true, List.mem_range] at hdef
  obtain ⟨hn, hd⟩ := hdef
  refine ⟨fun i hi h0 => hd i hi ((normF_eq_zero_iff S i).mp h0), ?_⟩
  have hT : 0 < S.length := by
    cases S with
    | nil => simp [nObs] at hn
    | cons _ _ => simp
  have : nObs S * S.length ≠ 0 := Nat.mul_ne_zero (by omega) (by omega)
  exact_mod_cast this

/-- lag 0 of the hand model under its guard -/
theorem autocorr_lag0_of_defined (S : List (List ℚ)) (hdef : autocorrDefined S = true) :
    (autocorr S)[0]? = some 1 := by
  unfold autocorrDefined at hdef
  simp only [Bool.and_eq_true, decide_eq_true_eq, List.all_eq_true, List.mem_range] at hdef
  obtain ⟨hn, hd⟩ := hdef
  have hT : 0 < S.length := by
    cases S with
    | nil => simp [nObs] at hn
    | cons _ _ => simp
  unfold autocorr
  rw [List.getElem?_map, List.getElem?_range hT]
  have e : ((List.range (nObs S)).map fun i => colAutocorr (column S i) 0) =
      (List.range (nObs S)).map fun _ => (1 : ℚ) := by
    apply List.map_congr_left
    intro i hi
    exact colAutocorr_zero (hd i (List.mem_range.mp hi))
  have hn' : ((nObs S : ℕ) : ℚ) ≠ 0 := by exact_mod_cast (Nat.pos_iff_ne_zero.mp hn)
  simp only [Option.map_some, e, sum_map_const_one, List.length_range, div_self hn']

/-- the FFT route returns exactly 1 at lag 0 -/
theorem fft_route_lag0_eq_one (S : List (List ℚ)) (hdef : autocorrDefined S = true) :
    (fftPipeline S)[0]? = some 1 := by
  rw [fft_route_eq_direct S hdef, List.getElem?_map, autocorr_lag0_of_defined S hdef]
  simp

end

end Qmc.AutocorrFFT
