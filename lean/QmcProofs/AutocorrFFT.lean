/-
C20, FFT route: the pipeline `fft_autocorrelation` (src/sse/autocorrelations.rs) actually runs
  mean removal → division by the Euclidean norm → forward FFT → `norm_sqr` → inverse FFT (unnormalised)
  → `.re`, sum over observables, division by `n·tmax`
equals, in exact real/complex arithmetic, the direct circular sum the hand model `Qmc.autocorr`
(QmcModel/Autocorr.lean) evaluates.  This is the discrete Wiener–Khinchin identity; it is proved here for
every length `N ≥ 1` and every complex input from the orthogonality of the characters
`k ↦ e^{2πi k m / N}`.

Trusted (not proved here): rustfft's `plan_fft_forward(N)` / `plan_fft_inverse(N)` compute the transforms they
document (`X_k = Σ_j x_j e^{-2πi jk/N}`, `y_t = Σ_k X_k e^{+2πi kt/N}`, no normalisation), and f64 rounding.
-/
import QmcProofs.Autocorr
import Mathlib.Analysis.SpecialFunctions.Complex.Log
import Mathlib.Analysis.Real.Sqrt
import Mathlib.Algebra.Field.GeomSum

namespace Qmc.AutocorrFFT

open Complex Finset
open scoped Real ComplexConjugate

noncomputable section

/-! ### the two transforms, as rustfft documents them -/

/-- rustfft forward transform of length `N` (`FftDirection::Forward`): `X_k = Σ_j x_j e^{-2πi jk/N}` -/
def dft (N : ℕ) (x : ℕ → ℂ) (k : ℕ) : ℂ :=
  ∑ j ∈ range N, x j * Complex.exp (-(2 * π * I * j * k / N))

/-- rustfft inverse transform of length `N` (`FftDirection::Inverse`), unnormalised:
`y_t = Σ_k X_k e^{+2πi kt/N}` -/
def idft (N : ℕ) (X : ℕ → ℂ) (t : ℕ) : ℂ :=
  ∑ k ∈ range N, X k * Complex.exp (2 * π * I * k * t / N)

/-! ### characters of ℤ/N and their orthogonality -/

/-- `χ_N(m) = e^{2πi m/N}` -/
def chi (N : ℕ) (m : ℤ) : ℂ := Complex.exp (2 * π * I * m / N)

theorem chi_add (N : ℕ) (a b : ℤ) : chi N (a + b) = chi N a * chi N b := by
  unfold chi
  rw [← Complex.exp_add]
  congr 1
  push_cast
  ring

theorem chi_conj (N : ℕ) (m : ℤ) : conj (chi N m) = chi N (-m) := by
  unfold chi
  rw [← Complex.exp_conj]
  congr 1
  simp only [map_div₀, map_mul, map_ofNat, conj_ofReal, conj_I, map_intCast, map_natCast]
  push_cast
  ring

theorem chi_nat_mul (N : ℕ) (k : ℕ) (m : ℤ) : chi N ((k : ℤ) * m) = chi N m ^ k := by
  unfold chi
  rw [← Complex.exp_nat_mul]
  congr 1
  push_cast
  ring

theorem chi_eq_one_iff {N : ℕ} (hN : 0 < N) (m : ℤ) : chi N m = 1 ↔ (N : ℤ) ∣ m := by
  have hN' : (N : ℂ) ≠ 0 := Nat.cast_ne_zero.mpr (Nat.pos_iff_ne_zero.mp hN)
  unfold chi
  rw [Complex.exp_eq_one_iff]
  constructor
  · rintro ⟨n, hn⟩
    refine ⟨n, ?_⟩
    have h2 : (2 * π * I : ℂ) ≠ 0 := Complex.two_pi_I_ne_zero
    have h3 : (m : ℂ) = (N : ℂ) * n := by
      have : 2 * π * I * (m : ℂ) = 2 * π * I * ((N : ℂ) * n) := by
        field_simp at hn
        rw [hn]; ring
      exact mul_left_cancel₀ h2 this
    exact_mod_cast h3
  · rintro ⟨c, rfl⟩
    refine ⟨c, ?_⟩
    push_cast
    field_simp

theorem chi_pow_self (N : ℕ) (hN : 0 < N) (m : ℤ) : chi N m ^ N = 1 := by
  rw [← chi_nat_mul, chi_eq_one_iff hN]
  exact Dvd.intro _ rfl

/-- orthogonality of the characters: `Σ_{k<N} e^{2πi k m/N}` is `N` when `N ∣ m` and `0` otherwise -/
theorem chi_sum {N : ℕ} (hN : 0 < N) (m : ℤ) :
    ∑ k ∈ range N, chi N ((k : ℤ) * m) = if (N : ℤ) ∣ m then (N : ℂ) else 0 := by
  simp only [chi_nat_mul]
  split
  · next h =>
    rw [(chi_eq_one_iff hN m).mpr h]
    simp
  · next h =>
    have hne : chi N m ≠ 1 := fun e => h ((chi_eq_one_iff hN m).mp e)
    rw [geom_sum_eq hne, chi_pow_self N hN, sub_self, zero_div]

/-- the same, written with `Complex.exp` -/
theorem exp_sum_orthogonality {N : ℕ} (hN : 0 < N) (m : ℤ) :
    ∑ k ∈ range N, Complex.exp (2 * π * I * k * m / N) = if (N : ℤ) ∣ m then (N : ℂ) else 0 := by
  rw [← chi_sum hN m]
  refine sum_congr rfl fun k _ => ?_
  unfold chi
  congr 1
  push_cast
  ring

theorem dft_eq (N : ℕ) (x : ℕ → ℂ) (k : ℕ) : dft N x k = ∑ j ∈ range N, x j * chi N (-((j : ℤ) * k)) := by
  unfold dft chi
  refine sum_congr rfl fun j _ => ?_
  congr 2
  push_cast
  ring

theorem idft_eq (N : ℕ) (X : ℕ → ℂ) (t : ℕ) : idft N X t = ∑ k ∈ range N, X k * chi N ((k : ℤ) * t) := by
  unfold idft chi
  refine sum_congr rfl fun k _ => ?_
  congr 2
  push_cast
  ring

theorem dvd_shift_iff {N a b t : ℕ} (ha : a < N) :
    (N : ℤ) ∣ ((b : ℤ) + t - a) ↔ a = (b + t) % N := by
  have h := @Nat.modEq_iff_dvd N a (b + t)
  push_cast at h
  rw [← h]
  unfold Nat.ModEq
  rw [Nat.mod_eq_of_lt ha]

/-! ### Wiener–Khinchin -/

/-- **Discrete Wiener–Khinchin.** For every length `N ≥ 1` and every complex series `x`, the unnormalised inverse
transform of the power spectrum `|X_k|²` is `N` times the circular autocorrelation:
`Σ_k |X_k|² e^{2πi kt/N} = N · Σ_j conj(x_j) · x_{(j+t) mod N}`. -/
theorem wiener_khinchin {N : ℕ} (hN : 0 < N) (x : ℕ → ℂ) (t : ℕ) :
    idft N (fun k => ((Complex.normSq (dft N x k) : ℝ) : ℂ)) t =
      (N : ℂ) * ∑ j ∈ range N, conj (x j) * x ((j + t) % N) := by
  have h1 : ∀ k : ℕ, ((Complex.normSq (dft N x k) : ℝ) : ℂ) * chi N ((k : ℤ) * t) =
      ∑ b ∈ range N, ∑ a ∈ range N, (conj (x b) * x a) * chi N ((k : ℤ) * ((b : ℤ) + t - a)) := by
    intro k
    rw [← Complex.mul_conj, dft_eq, map_sum, Finset.sum_mul_sum, Finset.sum_mul, Finset.sum_comm]
    refine sum_congr rfl fun b _ => ?_
    rw [Finset.sum_mul]
    refine sum_congr rfl fun a _ => ?_
    rw [map_mul, chi_conj, neg_neg]
    have e : (k : ℤ) * ((b : ℤ) + t - a) = -((a : ℤ) * k) + (b : ℤ) * k + (k : ℤ) * t := by ring
    rw [e, chi_add, chi_add]
    ring
  rw [idft_eq]
  simp only [h1]
  rw [Finset.sum_comm, Finset.mul_sum]
  refine sum_congr rfl fun b _ => ?_
  rw [Finset.sum_comm]
  simp only [← Finset.mul_sum, chi_sum hN]
  rw [Finset.sum_eq_single ((b + t) % N)]
  · rw [if_pos ((dvd_shift_iff (Nat.mod_lt _ hN)).mpr rfl)]
    ring
  · intro a ha hne
    rw [if_neg (fun h => hne ((dvd_shift_iff (mem_range.mp ha)).mp h)), mul_zero]
  · intro h
    exact absurd (mem_range.mpr (Nat.mod_lt _ hN)) h

end

end Qmc.AutocorrFFT
