import Mathlib.Algebra.BigOperators.Field
import Mathlib.Algebra.BigOperators.Ring.Finset
import Mathlib.Algebra.Order.BigOperators.Ring.Finset
import Mathlib.Algebra.Order.Field.Basic
import Mathlib.Data.Fintype.BigOperators
import Mathlib.Data.Real.Basic
import Mathlib.Tactic.Ring
import Mathlib.Tactic.Linarith
import Mathlib.Tactic.FieldSimp

/-!
# Finite Markov kernels

A small, general library about Markov kernels on a finite state space `α` with weights in a
commutative (semi)ring / ordered field `R` (instantiable with `ℚ` and `ℝ`).

## Conventions

* A kernel is a plain function `K : α → α → R`; `K a b` is the probability to go **from `a` to
  `b`**.  Kernels are therefore *row*-stochastic: `∑ b, K a b = 1` (`RowSum`), and
  `Stochastic K` additionally asks for `0 ≤ K a b`.
* A (not necessarily normalised, not necessarily positive) weight is a function `π : α → R`.
  Nothing below requires `∑ a, π a = 1`; positivity of `π` is assumed only where a division by
  `π a` occurs (Metropolis `min 1 (π' / π)` and heat-bath acceptance).
* `Reversible π K` is detailed balance `π a * K a b = π b * K b a`;
  `Invariant π K` is stationarity `∑ a, π a * K a b = π b` (`π K = π` with `π` a row vector).
* `comp K L` is "first `K`, then `L`" (the matrix product `K ⬝ L`), `iter K m` is `m` steps of
  `K`, `mix p K L` is "with probability `p` do `K`, otherwise `L`", and `wsum w K` is "pick
  `i` with probability `w i`, then do `K i`".
* `metropolis f A` is the single-proposal Metropolis kernel: from `a` propose `f a`, accept with
  probability `A a`, otherwise stay at `a`.  When `f a = a` both branches land on `a` and the
  row still sums to `1`.

The algebraic facts (invariance, reversibility, row sums) hold over any commutative
(semi)ring; the `Stochastic` facts need an ordered (semi)ring; only the `min`/division
acceptance rules need a linearly ordered field.
-/

open Finset

namespace Qmc.Dist

/-! ## Definitions -/

section Defs

variable {α : Type*} {R : Type*}

/-- `K` is a row-stochastic matrix: all transition probabilities are non-negative and the
probabilities of leaving any state `a` sum to one. -/
def Stochastic [Fintype α] [CommSemiring R] [LE R] (K : α → α → R) : Prop :=
  (∀ a b, 0 ≤ K a b) ∧ ∀ a, ∑ b, K a b = 1

/-- The probabilities of leaving any state `a` sum to one (conservation of probability; the
second half of `Stochastic`). -/
def RowSum [Fintype α] [CommSemiring R] (K : α → α → R) : Prop :=
  ∀ a, ∑ b, K a b = 1

/-- Detailed balance: the `π`-weighted probability flow `a → b` equals the flow `b → a`. -/
def Reversible [CommSemiring R] (π : α → R) (K : α → α → R) : Prop :=
  ∀ a b, π a * K a b = π b * K b a

/-- Stationarity: one step of `K` started from the (unnormalised) distribution `π` yields `π`
again. -/
def Invariant [Fintype α] [CommSemiring R] (π : α → R) (K : α → α → R) : Prop :=
  ∀ b, ∑ a, π a * K a b = π b

/-- The identity kernel: stay where you are with probability one. -/
def idK [DecidableEq α] [CommSemiring R] : α → α → R :=
  fun a b => if a = b then 1 else 0

/-- Composition of kernels: one step of `K` followed by one step of `L`
(Chapman–Kolmogorov / matrix product). -/
def comp [Fintype α] [CommSemiring R] (K L : α → α → R) : α → α → R :=
  fun a c => ∑ b, K a b * L b c

/-- Binary mixture: with probability `p` make a `K`-step, with probability `1 - p` an
`L`-step. -/
def mix [CommRing R] (p : R) (K L : α → α → R) : α → α → R :=
  fun a b => p * K a b + (1 - p) * L a b

/-- Finite mixture: choose the index `i` with probability `w i`, then make a `K i`-step. -/
def wsum [CommSemiring R] {ι : Type*} [Fintype ι] (w : ι → R) (K : ι → α → α → R) :
    α → α → R :=
  fun a b => ∑ i, w i * K i a b

/-- The `m`-step kernel of the chain with one-step kernel `K`. -/
def iter [Fintype α] [DecidableEq α] [CommSemiring R] (K : α → α → R) : ℕ → α → α → R
  | 0 => idK
  | m + 1 => comp (iter K m) K

/-- Single-proposal Metropolis kernel: from `a` propose the state `f a`, accept it with
probability `A a`, otherwise stay at `a`. -/
def metropolis [DecidableEq α] [CommRing R] (f : α → α) (A : α → R) : α → α → R :=
  fun a b => (if b = f a then A a else 0) + (if b = a then 1 - A a else 0)

/-- A stochastic kernel conserves probability. -/
theorem Stochastic.rowSum [Fintype α] [CommSemiring R] [LE R] {K : α → α → R}
    (h : Stochastic K) : RowSum K := h.2

/-- Zero steps of any chain is the identity kernel. -/
@[simp] theorem iter_zero [Fintype α] [DecidableEq α] [CommSemiring R] (K : α → α → R) :
    iter K 0 = idK := rfl

/-- `m + 1` steps is `m` steps followed by one more step. -/
@[simp] theorem iter_succ [Fintype α] [DecidableEq α] [CommSemiring R] (K : α → α → R)
    (m : ℕ) : iter K (m + 1) = comp (iter K m) K := rfl

end Defs

/-! ## Algebraic facts over a commutative semiring -/

section Semiring

variable {α : Type*} [Fintype α]
variable {R : Type*} [CommSemiring R]
variable {π : α → R} {K L : α → α → R}

/-- Detailed balance plus conservation of probability implies stationarity. -/
theorem reversible_invariant (hrev : Reversible π K) (hrow : RowSum K) : Invariant π K := by
  intro b
  calc ∑ a, π a * K a b = ∑ a, π b * K b a := Finset.sum_congr rfl (fun a _ => hrev a b)
    _ = π b * ∑ a, K b a := (Finset.mul_sum _ _ _).symm
    _ = π b := by rw [hrow b, mul_one]

/-- Every distribution is stationary for the do-nothing kernel. -/
theorem invariant_idK [DecidableEq α] : Invariant π (idK : α → α → R) := by
  intro b
  simp [idK]

/-- If `π` is stationary for `K` and for `L`, it is stationary for "`K` then `L`". -/
theorem invariant_comp (hK : Invariant π K) (hL : Invariant π L) :
    Invariant π (comp K L) := by
  intro c
  calc ∑ a, π a * comp K L a c = ∑ a, ∑ b, π a * K a b * L b c := by
        simp only [comp, Finset.mul_sum, mul_assoc]
    _ = ∑ b, ∑ a, π a * K a b * L b c := Finset.sum_comm
    _ = ∑ b, π b * L b c :=
        Finset.sum_congr rfl (fun b _ => by rw [← Finset.sum_mul, hK b])
    _ = π c := hL c

/-- A stationary distribution of the one-step kernel is stationary for every `m`-step
kernel. -/
theorem invariant_iter [DecidableEq α] (hK : Invariant π K) :
    ∀ m, Invariant π (iter K m)
  | 0 => invariant_idK
  | m + 1 => invariant_comp (invariant_iter hK m) hK

/-- A mixture (with weights summing to one) of kernels that all leave `π` stationary leaves
`π` stationary. -/
theorem invariant_wsum {ι : Type*} [Fintype ι] {w : ι → R} {K : ι → α → α → R}
    (hK : ∀ i, Invariant π (K i)) (hw : ∑ i, w i = 1) : Invariant π (wsum w K) := by
  intro b
  calc ∑ a, π a * wsum w K a b = ∑ a, ∑ i, w i * (π a * K i a b) := by
        simp only [wsum, Finset.mul_sum, mul_left_comm]
    _ = ∑ i, ∑ a, w i * (π a * K i a b) := Finset.sum_comm
    _ = ∑ i, w i * π b :=
        Finset.sum_congr rfl (fun i _ => by rw [← Finset.mul_sum, hK i b])
    _ = π b := by rw [← Finset.sum_mul, hw, one_mul]

omit [Fintype α] in
/-- A mixture (with arbitrary weights) of kernels in detailed balance with `π` is in detailed
balance with `π`. -/
theorem reversible_wsum {ι : Type*} [Fintype ι] {w : ι → R} {K : ι → α → α → R}
    (hK : ∀ i, Reversible π (K i)) : Reversible π (wsum w K) := by
  intro a b
  simp only [wsum, Finset.mul_sum]
  refine Finset.sum_congr rfl (fun i _ => ?_)
  rw [mul_left_comm, hK i a b, mul_left_comm]

/-- The do-nothing kernel conserves probability. -/
theorem rowSum_idK [DecidableEq α] : RowSum (idK : α → α → R) := by
  intro a
  simp [idK]

/-- Composition of probability-conserving kernels conserves probability. -/
theorem rowSum_comp (hK : RowSum K) (hL : RowSum L) : RowSum (comp K L) := by
  intro a
  calc ∑ c, comp K L a c = ∑ b, ∑ c, K a b * L b c := Finset.sum_comm
    _ = ∑ b, K a b :=
        Finset.sum_congr rfl (fun b _ => by rw [← Finset.mul_sum, hL b, mul_one])
    _ = 1 := hK a

/-- Every `m`-step kernel of a probability-conserving chain conserves probability. -/
theorem rowSum_iter [DecidableEq α] (hK : RowSum K) : ∀ m, RowSum (iter K m)
  | 0 => rowSum_idK
  | m + 1 => rowSum_comp (rowSum_iter hK m) hK

/-- A mixture, with weights summing to one, of probability-conserving kernels conserves
probability. -/
theorem rowSum_wsum {ι : Type*} [Fintype ι] {w : ι → R} {K : ι → α → α → R}
    (hK : ∀ i, RowSum (K i)) (hw : ∑ i, w i = 1) : RowSum (wsum w K) := by
  intro a
  calc ∑ b, wsum w K a b = ∑ i, ∑ b, w i * K i a b := Finset.sum_comm
    _ = ∑ i, w i :=
        Finset.sum_congr rfl (fun i _ => by rw [← Finset.mul_sum, hK i a, mul_one])
    _ = 1 := hw

/-- Convenience corollary for sweep design: a random choice (weights summing to one) among
probability-conserving moves, each in detailed balance with `π`, leaves `π` stationary. -/
theorem invariant_of_stochastic_reversible_step {ι : Type*} [Fintype ι] {w : ι → R}
    {K : ι → α → α → R} (hrev : ∀ i, Reversible π (K i)) (hrow : ∀ i, RowSum (K i))
    (hw : ∑ i, w i = 1) : Invariant π (wsum w K) :=
  invariant_wsum (fun i => reversible_invariant (hrev i) (hrow i)) hw

end Semiring

/-! ## Algebraic facts over a commutative ring (`mix`, `metropolis`) -/

section Ring

variable {α : Type*} [Fintype α]
variable {R : Type*} [CommRing R]
variable {π : α → R} {K L : α → α → R}

/-- A binary mixture (any `p`, even outside `[0,1]`) of kernels leaving `π` stationary leaves
`π` stationary. -/
theorem invariant_mix {p : R} (hK : Invariant π K) (hL : Invariant π L) :
    Invariant π (mix p K L) := by
  intro b
  calc ∑ a, π a * mix p K L a b
      = ∑ a, (p * (π a * K a b) + (1 - p) * (π a * L a b)) :=
        Finset.sum_congr rfl (fun a _ => by simp only [mix]; ring)
    _ = p * π b + (1 - p) * π b := by
        rw [Finset.sum_add_distrib, ← Finset.mul_sum, ← Finset.mul_sum, hK b, hL b]
    _ = π b := by ring

omit [Fintype α] in
/-- A binary mixture (any `p`) of kernels in detailed balance with `π` is in detailed balance
with `π`. -/
theorem reversible_mix {p : R} (hK : Reversible π K) (hL : Reversible π L) :
    Reversible π (mix p K L) := by
  intro a b
  calc π a * mix p K L a b = p * (π a * K a b) + (1 - p) * (π a * L a b) := by
        simp only [mix]; ring
    _ = p * (π b * K b a) + (1 - p) * (π b * L b a) := by rw [hK a b, hL a b]
    _ = π b * mix p K L b a := by simp only [mix]; ring

/-- A binary mixture (any `p`) of probability-conserving kernels conserves probability. -/
theorem rowSum_mix {p : R} (hK : RowSum K) (hL : RowSum L) : RowSum (mix p K L) := by
  intro a
  calc ∑ b, mix p K L a b = p * ∑ b, K a b + (1 - p) * ∑ b, L a b := by
        simp only [mix, Finset.sum_add_distrib, Finset.mul_sum]
    _ = 1 := by rw [hK a, hL a]; ring

variable [DecidableEq α] {f : α → α} {A : α → R}

/-- The Metropolis kernel conserves probability for any proposal map and any acceptance
function (also when `f a = a`). -/
theorem rowSum_metropolis : RowSum (metropolis f A) := by
  intro a
  simp [metropolis, Finset.sum_add_distrib]

omit [Fintype α] in
/-- Metropolis with an involutive proposal (`f (f a) = a`) whose acceptance probabilities
satisfy pairwise balance `π a * A a = π (f a) * A (f a)` is in detailed balance with `π`. -/
theorem involution_metropolis_reversible (hinv : ∀ a, f (f a) = a)
    (hbal : ∀ a, π a * A a = π (f a) * A (f a)) : Reversible π (metropolis f A) := by
  intro a b
  unfold metropolis
  by_cases hab : b = a
  · subst hab; rfl
  · have hba : ¬ a = b := fun h => hab h.symm
    by_cases hf : b = f a
    · have hf' : a = f b := by rw [hf, hinv]
      rw [if_pos hf, if_pos hf', if_neg hab, if_neg hba, add_zero, add_zero, hf]
      exact hbal a
    · have hf' : ¬ a = f b := fun h => hf (by rw [h, hinv])
      rw [if_neg hf, if_neg hf', if_neg hab, if_neg hba, add_zero, mul_zero, mul_zero]

end Ring

/-! ## Stochastic kernels over an ordered semiring / ring -/

section OrderedSemiring

variable {α : Type*} [Fintype α]
variable {R : Type*} [CommSemiring R] [PartialOrder R] [IsOrderedRing R]
variable {K L : α → α → R}

/-- The do-nothing kernel is a stochastic matrix. -/
theorem stochastic_idK [DecidableEq α] : Stochastic (idK : α → α → R) := by
  refine ⟨fun a b => ?_, rowSum_idK⟩
  unfold idK
  split_ifs
  · exact zero_le_one
  · exact le_rfl

/-- The composition of stochastic matrices is a stochastic matrix. -/
theorem stochastic_comp (hK : Stochastic K) (hL : Stochastic L) : Stochastic (comp K L) :=
  ⟨fun a c => Finset.sum_nonneg (fun b _ => mul_nonneg (hK.1 a b) (hL.1 b c)),
    rowSum_comp hK.2 hL.2⟩

/-- Every `m`-step kernel of a chain with stochastic one-step kernel is stochastic. -/
theorem stochastic_iter [DecidableEq α] (hK : Stochastic K) : ∀ m, Stochastic (iter K m)
  | 0 => stochastic_idK
  | m + 1 => stochastic_comp (stochastic_iter hK m) hK

/-- A mixture of stochastic kernels with a probability vector `w` of weights is stochastic. -/
theorem stochastic_wsum {ι : Type*} [Fintype ι] {w : ι → R} {K : ι → α → α → R}
    (hK : ∀ i, Stochastic (K i)) (hw0 : ∀ i, 0 ≤ w i) (hw : ∑ i, w i = 1) :
    Stochastic (wsum w K) :=
  ⟨fun a b => Finset.sum_nonneg (fun i _ => mul_nonneg (hw0 i) ((hK i).1 a b)),
    rowSum_wsum (fun i => (hK i).2) hw⟩

end OrderedSemiring

section OrderedRing

variable {α : Type*} [Fintype α]
variable {R : Type*} [CommRing R] [PartialOrder R] [IsOrderedRing R]
variable {K L : α → α → R}

/-- A binary mixture with `p ∈ [0,1]` of stochastic kernels is stochastic. -/
theorem stochastic_mix {p : R} (hK : Stochastic K) (hL : Stochastic L) (hp0 : 0 ≤ p)
    (hp1 : p ≤ 1) : Stochastic (mix p K L) :=
  ⟨fun a b => add_nonneg (mul_nonneg hp0 (hK.1 a b))
      (mul_nonneg (sub_nonneg.mpr hp1) (hL.1 a b)),
    rowSum_mix hK.2 hL.2⟩

/-- The Metropolis kernel with acceptance probabilities in `[0,1]` is a stochastic matrix. -/
theorem stochastic_metropolis [DecidableEq α] {f : α → α} {A : α → R}
    (hA0 : ∀ a, 0 ≤ A a) (hA1 : ∀ a, A a ≤ 1) : Stochastic (metropolis f A) := by
  refine ⟨fun a b => ?_, rowSum_metropolis⟩
  unfold metropolis
  refine add_nonneg ?_ ?_
  · split_ifs
    · exact hA0 a
    · exact le_rfl
  · split_ifs
    · exact sub_nonneg.mpr (hA1 a)
    · exact le_rfl

end OrderedRing

/-! ## Concrete acceptance rules over a linearly ordered field -/

section Field

variable {α : Type*} [DecidableEq α]
variable {R : Type*} [Field R] [LinearOrder R] [IsStrictOrderedRing R]
variable {π : α → R} {f : α → α}

/-- Auxiliary identity behind the Metropolis rule: `x * min 1 (y / x) = min x y` for `x > 0`. -/
theorem mul_min_one_div {x y : R} (hx : 0 < x) : x * min 1 (y / x) = min x y := by
  rw [mul_min_of_nonneg _ _ hx.le, mul_one, mul_div_cancel₀ _ hx.ne']

omit [DecidableEq α] in
/-- The Metropolis acceptance `min 1 (π (f a) / π a)` satisfies pairwise balance when the
proposal is an involution: both sides equal `min (π a) (π (f a))`. -/
theorem metropolis_min_balance (hpos : ∀ a, 0 < π a) (hinv : ∀ a, f (f a) = a) :
    ∀ a, π a * min 1 (π (f a) / π a) = π (f a) * min 1 (π (f (f a)) / π (f a)) := by
  intro a
  rw [mul_min_one_div (hpos a), mul_min_one_div (hpos (f a)), hinv a, min_comm]

/-- Metropolis with an involutive proposal and the standard acceptance `min 1 (π' / π)` is in
detailed balance with the positive weight `π`. -/
theorem involution_metropolis_min_reversible (hpos : ∀ a, 0 < π a)
    (hinv : ∀ a, f (f a) = a) :
    Reversible π (metropolis f (fun a => min 1 (π (f a) / π a))) :=
  involution_metropolis_reversible hinv (metropolis_min_balance hpos hinv)

/-- Two-state heat bath (Glauber/Barker rule): with an involutive proposal, accepting with
probability `π (f a) / (π a + π (f a))` is in detailed balance with the positive weight `π`. -/
theorem heatbath_reversible (hpos : ∀ a, 0 < π a) (hinv : ∀ a, f (f a) = a) :
    Reversible π (metropolis f (fun a => π (f a) / (π a + π (f a)))) := by
  refine involution_metropolis_reversible hinv (fun a => ?_)
  have h : π a + π (f a) ≠ 0 := (add_pos (hpos a) (hpos (f a))).ne'
  simp only [hinv a]
  rw [add_comm (π (f a)) (π a)]
  field_simp

end Field

/-! ## Instantiation checks (`ℚ` and `ℝ`) -/

/-- `reversible_invariant` instantiates with rational weights. -/
example {α : Type*} [Fintype α] [DecidableEq α] (π : α → ℚ) (K : α → α → ℚ)
    (hrev : Reversible π K) (hrow : RowSum K) : Invariant π K :=
  reversible_invariant hrev hrow

/-- `reversible_invariant` instantiates with real weights. -/
example {α : Type*} [Fintype α] [DecidableEq α] (π : α → ℝ) (K : α → α → ℝ)
    (hrev : Reversible π K) (hrow : RowSum K) : Invariant π K :=
  reversible_invariant hrev hrow

end Qmc.Dist
