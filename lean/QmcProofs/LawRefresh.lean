import QmcProofs.LawTree
import QmcProofs.KernelInvarianceCluster
import QmcModel.SamplerCore
import Mathlib.Tactic.NormNum

/-!
# Law of the free-spin refresh = `refreshK`

* `refreshAuxT`, `freeRefreshT` — tree twins of `Sampler.refreshAux`, `Sampler.freeRefresh`
  (`QmcModel/SamplerCore.lean`): one `flip (1/2)` per variable without operators, increasing index; the
  variable is *set* to the outcome of the coin (`*s = rng.gen_bool(0.5)`).
* `freeRefresh_refines` — **refinement**: `freeRefresh c rs = (freeRefreshT c).run rs` for every script.
* `law_freeRefresh` — **law = kernel**: `law (freeRefreshT c) c' = refreshK c.state.length c c'` for every
  configuration, no legality needed (resetting to a fair coin is flipping with probability ½,
  `Kernel.lazy_toggle_eq_reset`).
-/

open Finset

namespace Qmc.Law
open Qmc Qmc.Kernel Qmc.Dist

/-- tree twin of `Sampler.refreshAux` -/
def refreshAuxT (s : Slots) : Nat → List Bool → PT (List Bool)
  | _, [] => PT.ret []
  | v, x :: t =>
    if Sampler.hasOps s v then PT.map (fun r => x :: r) (refreshAuxT s (v + 1) t)
    else PT.flip (1 / 2) (PT.map (fun r => true :: r) (refreshAuxT s (v + 1) t))
      (PT.map (fun r => false :: r) (refreshAuxT s (v + 1) t))

/-- tree twin of `Sampler.freeRefresh` -/
def freeRefreshT (c : Config) : PT Config :=
  PT.map (fun st => ({ state := st, slots := c.slots } : Config)) (refreshAuxT c.slots 0 c.state)

theorem refreshAux_refines (s : Slots) : ∀ (l : List Bool) (v : Nat) (rs : RS),
    Sampler.refreshAux s v l rs = (refreshAuxT s v l).run rs
  | [], _, _ => rfl
  | x :: t, v, rs => by
    unfold Sampler.refreshAux refreshAuxT
    split
    · simp only [PT.run_map]
      rw [refreshAux_refines s t]
    · simp only [PT.run_flip, PT.run_map]
      rw [refreshAux_refines s t]
      cases (rs.genBool (1 / 2)).1 <;> rfl

/-- **refinement of the free-spin refresh** -/
theorem freeRefresh_refines (c : Config) (rs : RS) :
    Sampler.freeRefresh c rs = (freeRefreshT c).run rs := by
  unfold Sampler.freeRefresh freeRefreshT
  rw [PT.run_map, refreshAux_refines]

/-! ### the two tests for "variable without operators" agree -/

theorem hasOps_eq_varHasOp : ∀ (s : Slots) (v : Nat), Sampler.hasOps s v = varHasOp (skeleton s) v
  | [], _ => rfl
  | none :: t, v => by
    have ih := hasOps_eq_varHasOp t v
    simp only [Sampler.hasOps, Sampler.slotVars, varHasOp, skeleton, List.flatMap_cons, List.nil_append, List.map_cons,
      Option.map_none, List.any_cons, Bool.false_or] at ih ⊢
    exact ih
  | some o :: t, v => by
    have ih := hasOps_eq_varHasOp t v
    simp only [Sampler.hasOps, Sampler.slotVars, varHasOp, skeleton, List.flatMap_cons, List.map_cons,
      Option.map_some, List.any_cons, Op.sk] at ih ⊢
    rw [← ih]
    simp [List.contains_eq_mem, List.mem_append]

/-! ### the law -/

theorem toggleIdle_of_hasOps {c : Config} {v : Nat} (h : Sampler.hasOps c.slots v = true) : toggleIdle v c = c := by
  unfold toggleIdle
  rw [if_neg]
  rw [← hasOps_eq_varHasOp, h]
  simp

theorem toggleIdle_mk_append (pre t : List Bool) (x : Bool) (sl : Slots)
    (h : Sampler.hasOps sl pre.length = false) :
    toggleIdle pre.length { state := pre ++ x :: t, slots := sl } =
      { state := pre ++ (!x) :: t, slots := sl } := by
  unfold toggleIdle
  rw [if_pos ⟨by rw [← hasOps_eq_varHasOp]; exact h, by simp⟩]
  simp [List.getD_eq_getElem?_getD]

/-- the refresh of the variables `|pre|, |pre|+1, …` is the product of the lazy toggles of these
variables -/
theorem law_refreshAuxT (sl : Slots) (c' : Config) : ∀ (t pre : List Bool),
    PT.law (PT.map (fun r => ({ state := pre ++ r, slots := sl } : Config)) (refreshAuxT sl pre.length t)) c' =
      flipsK ((List.range' pre.length t.length).map (fun v => ((1 / 2 : Rat), toggleIdle v)))
        { state := pre ++ t, slots := sl } c'
  | [], pre => by
    simp [refreshAuxT, flipsK]
  | x :: t, pre => by
    have ih := fun y => law_refreshAuxT sl c' t (pre ++ [y])
    simp only [List.length_append, List.length_cons, List.length_nil, List.append_assoc,
      List.cons_append, List.nil_append, Nat.zero_add] at ih
    simp only [refreshAuxT, List.length_cons, List.range'_succ, List.map_cons, flipsK]
    by_cases h : Sampler.hasOps sl pre.length = true
    · rw [if_pos h, PT.map_map, toggleIdle_of_hasOps (c := ⟨pre ++ x :: t, sl⟩) h]
      rw [ih x]
      ring
    · have h' : Sampler.hasOps sl pre.length = false := by simpa using h
      rw [if_neg h, PT.map_flip, PT.law_flip (by norm_num) (by norm_num), PT.map_map, PT.map_map,
        toggleIdle_mk_append pre t x sl h']
      rw [ih true, ih false]
      cases x <;> simp <;> ring

/-- **law of the free-spin refresh = `refreshK`**, for every configuration -/
theorem law_freeRefresh (c c' : Config) :
    PT.law (freeRefreshT c) c' = refreshK c.state.length c c' := by
  have := law_refreshAuxT c.slots c' c.state []
  simp only [List.nil_append, List.length_nil] at this
  unfold freeRefreshT refreshK refreshList
  rw [this, List.range_eq_range']

/-- as kernels on a finite set of configurations with `N` variables -/
theorem lawK_freeRefresh (S : Finset Config) (N : Nat) (hN : ∀ c ∈ S, c.state.length = N) :
    lawK S freeRefreshT = restr S (refreshK N) := by
  funext a b
  unfold lawK restr
  rw [law_freeRefresh, hN a.1 a.2]

end Qmc.Law
