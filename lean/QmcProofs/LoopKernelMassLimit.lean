/-
The limit of the fuel-truncated directed-loop kernels: `Kinf w c c' = sup_n loopKn w n c c'` (in ℝ).

The entries `loopKn w n c c'` are monotone in `n` and bounded by 1 (QmcProofs/LoopKernelMass.lean),
so they converge to their supremum. The limit kernel is in detailed balance with every `π` that
is in detailed balance with all truncated kernels (the product of the stored matrix elements on
`GoodL` configurations; the cut SSE measure on all configurations), sub-stochastic, and its total
row mass `rowInf` (supremum over finite sets of configurations) is `1 − lim_n openMass n`:
it is stochastic exactly when the probability that the walk is still open after `n` visits tends
to 0. A geometric bound on `openMass` along a subsequence (`openMass_geometric`) suffices.
-/
import QmcProofs.LoopKernelMass
import Mathlib.Topology.Order.MonotoneConvergence
import Mathlib.Analysis.SpecificLimits.Basic

namespace Qmc.LoopC.Mass
open Qmc Qmc.LoopC Filter Topology

/-- the limit kernel: supremum (= limit) of the truncated kernels -/
noncomputable def Kinf (w : WFun) (c c' : Config) : ℝ := ⨆ n : ℕ, ((loopKn w n c c' : ℚ) : ℝ)

/-- limit of the open-walk mass: probability that the walk never closes -/
noncomputable def openInf (w : WFun) (c : Config) : ℝ := ⨅ n : ℕ, ((openMass w n c : ℚ) : ℝ)

/-- total row mass of the limit kernel -/
noncomputable def rowInf (w : WFun) (c : Config) : ℝ := ⨆ S : Finset Config, ∑ c' ∈ S, Kinf w c c'

section
variable (w : WFun) (hW : ∀ b i o, 0 ≤ w b i o)
include hW

theorem loopKn_real_mono (c c' : Config) : Monotone (fun n : ℕ => ((loopKn w n c c' : ℚ) : ℝ)) :=
  monotone_nat_of_le_succ (fun n => by exact_mod_cast loopKn_mono w hW n c c')

theorem loopKn_real_bdd (c c' : Config) :
    BddAbove (Set.range fun n : ℕ => ((loopKn w n c c' : ℚ) : ℝ)) :=
  ⟨1, by rintro _ ⟨n, rfl⟩; beta_reduce; exact_mod_cast loopKn_le_one w hW n c c'⟩

/-- the truncated entries converge to the limit kernel -/
theorem tendsto_loopKn (c c' : Config) :
    Tendsto (fun n : ℕ => ((loopKn w n c c' : ℚ) : ℝ)) atTop (𝓝 (Kinf w c c')) :=
  tendsto_atTop_ciSup (loopKn_real_mono w hW c c') (loopKn_real_bdd w hW c c')

theorem loopKn_le_Kinf (n : ℕ) (c c' : Config) : ((loopKn w n c c' : ℚ) : ℝ) ≤ Kinf w c c' :=
  le_ciSup (loopKn_real_bdd w hW c c') n

theorem Kinf_nonneg (c c' : Config) : 0 ≤ Kinf w c c' :=
  le_trans (by exact_mod_cast loopKn_nonneg w hW 0 c c') (loopKn_le_Kinf w hW 0 c c')

/-- **the limit kernel inherits detailed balance** from the truncated kernels, for any `π` -/
theorem Kinf_reversible_of (π : Config → ℚ)
    (hrev : ∀ n a b, π a * loopKn w n a b = π b * loopKn w n b a) (a b : Config) :
    (π a : ℝ) * Kinf w a b = (π b : ℝ) * Kinf w b a := by
  have h1 := (tendsto_loopKn w hW a b).const_mul (π a : ℝ)
  have h2 := (tendsto_loopKn w hW b a).const_mul (π b : ℝ)
  have : (fun n : ℕ => (π a : ℝ) * ((loopKn w n a b : ℚ) : ℝ)) =
      fun n : ℕ => (π b : ℝ) * ((loopKn w n b a : ℚ) : ℝ) := by
    funext n
    exact_mod_cast hrev n a b
  rw [this] at h1
  exact tendsto_nhds_unique h1 h2

/-- partial row sums converge -/
theorem tendsto_sum_loopKn (c : Config) (S : Finset Config) :
    Tendsto (fun n : ℕ => ∑ c' ∈ S, ((loopKn w n c c' : ℚ) : ℝ)) atTop (𝓝 (∑ c' ∈ S, Kinf w c c')) :=
  tendsto_finsetSum S (fun c' _ => tendsto_loopKn w hW c c')

/-- **the limit kernel is sub-stochastic** -/
theorem Kinf_row_le_one (c : Config) (S : Finset Config) : ∑ c' ∈ S, Kinf w c c' ≤ 1 := by
  refine le_of_tendsto' (tendsto_sum_loopKn w hW c S) (fun n => ?_)
  have := sum_loopKn_le_one w hW n c S
  exact_mod_cast this

theorem rowInf_bdd (c : Config) :
    BddAbove (Set.range fun S : Finset Config => ∑ c' ∈ S, Kinf w c c') :=
  ⟨1, by rintro _ ⟨S, rfl⟩; exact Kinf_row_le_one w hW c S⟩

theorem rowInf_le_one (c : Config) : rowInf w c ≤ 1 :=
  ciSup_le (fun S => Kinf_row_le_one w hW c S)

theorem openMass_real_anti (c : Config) : Antitone (fun n : ℕ => ((openMass w n c : ℚ) : ℝ)) :=
  antitone_nat_of_succ_le (fun n => by exact_mod_cast openMass_anti w hW n c)

theorem openMass_real_bdd (c : Config) :
    BddBelow (Set.range fun n : ℕ => ((openMass w n c : ℚ) : ℝ)) :=
  ⟨0, by rintro _ ⟨n, rfl⟩; beta_reduce; exact_mod_cast openMass_nonneg w hW n c⟩

/-- the open-walk mass converges (antitone, bounded below) -/
theorem tendsto_openMass (c : Config) :
    Tendsto (fun n : ℕ => ((openMass w n c : ℚ) : ℝ)) atTop (𝓝 (openInf w c)) :=
  tendsto_atTop_ciInf (openMass_real_anti w hW c) (openMass_real_bdd w hW c)

theorem openInf_nonneg (c : Config) : 0 ≤ openInf w c :=
  le_ciInf (fun n => by exact_mod_cast openMass_nonneg w hW n c)

theorem openInf_le (n : ℕ) (c : Config) : openInf w c ≤ ((openMass w n c : ℚ) : ℝ) :=
  ciInf_le (openMass_real_bdd w hW c) n

/-- **row mass of the limit kernel** on a configuration with positive stored matrix elements:
`1 − P(the walk never closes)` -/
theorem rowInf_eq (c : Config) (hl : LegalSlots w c.slots)
    (hT : countOps c.slots ≠ 0 → totalVars c.slots ≠ 0) : rowInf w c = 1 - openInf w c := by
  have hrow : ∀ n : ℕ, ((rowMass w n c : ℚ) : ℝ) = 1 - ((openMass w n c : ℚ) : ℝ) := by
    intro n
    have := rowMass_add_open w hW n c hl hT
    have h2 : ((rowMass w n c : ℚ) : ℝ) + ((openMass w n c : ℚ) : ℝ) = 1 := by exact_mod_cast this
    linarith
  have hlim : Tendsto (fun n : ℕ => 1 - ((openMass w n c : ℚ) : ℝ)) atTop (𝓝 (1 - openInf w c)) :=
    (tendsto_openMass w hW c).const_sub 1
  apply le_antisymm
  · apply ciSup_le
    intro S
    refine le_of_tendsto_of_tendsto' (tendsto_sum_loopKn w hW c S) hlim (fun n => ?_)
    rw [← hrow]
    have := sum_loopKn_le_rowMass w hW n c S
    exact_mod_cast this
  · refine le_of_tendsto' hlim (fun n => ?_)
    rw [← hrow, ← sum_loopKn_reach w n c (reach n c) (le_refl _)]
    push_cast
    refine le_trans (Finset.sum_le_sum (fun c' _ => loopKn_le_Kinf w hW n c c')) ?_
    exact le_ciSup (rowInf_bdd w hW c) (reach n c)

/-- **the limit kernel is stochastic iff the open-walk mass tends to 0** -/
theorem rowInf_eq_one_iff (c : Config) (hl : LegalSlots w c.slots)
    (hT : countOps c.slots ≠ 0 → totalVars c.slots ≠ 0) :
    rowInf w c = 1 ↔ Tendsto (fun n : ℕ => ((openMass w n c : ℚ) : ℝ)) atTop (𝓝 0) := by
  rw [rowInf_eq w hW c hl hT]
  constructor
  · intro h
    have h0 : openInf w c = 0 := by linarith
    rw [← h0]
    exact tendsto_openMass w hW c
  · intro h
    have := tendsto_nhds_unique h (tendsto_openMass w hW c)
    rw [← this]; ring

/-- a geometric bound along a subsequence forces the open-walk mass to 0 -/
theorem tendsto_openMass_zero_of_geometric (c : Config) (M : ℕ) (δ : ℚ) (hδ0 : 0 < δ) (hδ1 : δ ≤ 1)
    (hgeo : ∀ k : ℕ, openMass w (k * M) c ≤ (1 - δ) ^ k) :
    Tendsto (fun n : ℕ => ((openMass w n c : ℚ) : ℝ)) atTop (𝓝 0) := by
  have hpow : Tendsto (fun k : ℕ => ((1 : ℝ) - (δ : ℝ)) ^ k) atTop (𝓝 0) := by
    apply tendsto_pow_atTop_nhds_zero_of_lt_one
    · have : ((δ : ℚ) : ℝ) ≤ 1 := by exact_mod_cast hδ1
      linarith
    · have : (0 : ℝ) < ((δ : ℚ) : ℝ) := by exact_mod_cast hδ0
      linarith
  have hle : openInf w c ≤ 0 := by
    refine ge_of_tendsto' hpow (fun k => ?_)
    refine le_trans (openInf_le w hW (k * M) c) ?_
    have := hgeo k
    exact_mod_cast this
  have h0 : openInf w c = 0 := le_antisymm hle (openInf_nonneg w hW c)
  rw [← h0]
  exact tendsto_openMass w hW c

end

/-- **detailed balance of the limit kernel** with the product of the stored matrix elements, on
well-formed, canonically tagged, periodic configurations -/
theorem Kinf_reversible (w : WFun) (hW : ∀ b i o, 0 ≤ w b i o) (c c' : Config)
    (hg : GoodL c) (hg' : GoodL c') :
    ((slotsWeight w c.slots : ℚ) : ℝ) * Kinf w c c' = ((slotsWeight w c'.slots : ℚ) : ℝ) * Kinf w c' c := by
  have h1 := (tendsto_loopKn w hW c c').const_mul ((slotsWeight w c.slots : ℚ) : ℝ)
  have h2 := (tendsto_loopKn w hW c' c).const_mul ((slotsWeight w c'.slots : ℚ) : ℝ)
  have : (fun n : ℕ => ((slotsWeight w c.slots : ℚ) : ℝ) * ((loopKn w n c c' : ℚ) : ℝ)) =
      fun n : ℕ => ((slotsWeight w c'.slots : ℚ) : ℝ) * ((loopKn w n c' c : ℚ) : ℝ) := by
    funext n
    exact_mod_cast loopKn_reversible w n c c' hg hg'
  rw [this] at h1
  exact tendsto_nhds_unique h1 h2

/-- **detailed balance of the limit kernel with the true SSE measure** `configWeight·1_Good`, on
all configurations -/
theorem Kinf_reversible_cut (H : Ham) [DecidablePred (Good H)] (β : ℚ)
    (hw : ∀ b i o, 0 ≤ H.w b i o) (a b : Config) :
    ((Qmc.Kernel.cutTo (Good H) (configWeight H β) a : ℚ) : ℝ) * Kinf H.w a b =
      ((Qmc.Kernel.cutTo (Good H) (configWeight H β) b : ℚ) : ℝ) * Kinf H.w b a :=
  Kinf_reversible_of H.w hw _ (fun n => loopKn_reversible_cut H β hw n) a b

/-- **under the Doeblin condition the limit kernel is stochastic** -/
theorem rowInf_eq_one_of_doeblin (w : WFun) (hW : ∀ b i o, 0 ≤ w b i o) (c : Config)
    (hl : LegalSlots w c.slots) (hT : countOps c.slots ≠ 0 → totalVars c.slots ≠ 0)
    (I : Nat × Leg → Nat → Leg → Config → Prop) (M : Nat) (δ : ℚ) (hδ0 : 0 < δ) (hδ1 : δ ≤ 1)
    (hstart : ∀ init ∈ startLegs c.slots, I init init.1 init.2 c)
    (hlive : ∀ init pos ent c', I init pos ent c' → Live w pos ent c')
    (hstep : ∀ init pos ent c' op ex c1 p e, I init pos ent c' → c'.slots[pos]? = some (some op) →
      0 < exitWeight (w op.bond) (op.ins, op.outs) ent ex →
      stepEx init pos ent c' ex = some (c1, some (p, e)) → I init p e c1)
    (hD : ∀ init pos ent c', I init pos ent c' → δ ≤ walkVal w (fun _ => 1) init M pos ent c') :
    rowInf w c = 1 :=
  (rowInf_eq_one_iff w hW c hl hT).mpr
    (tendsto_openMass_zero_of_geometric w hW c M δ hδ0 hδ1
      (openMass_geometric w hW c I M δ hδ1 hstart hlive hstep hD))

end Qmc.LoopC.Mass
