/-
C11, global chain, assembly: on the canonical global view of slots `s`, uninstalling /
installing / fast-installing at `p` with `last_p = prevOcc (occAt s) p` yields the canonical
global view of the updated slots.
-/
import QmcProofs.FastOpsGlobal

namespace Qmc

/-- canonical node, global part -/
def canonNodeG (s : Slots) (q : Nat) (op : Op) : Node :=
  { op := op, previousP := prevOcc (occAt s) q, nextP := nextOcc (occAt s) s.length q,
    previousForVars := [], nextForVars := [] }

/-- canonical global view -/
def canonG (nb : Option Nat) (s : Slots) : FastOps := (canon 0 nb s).g

theorem canon_g (nv : Nat) (nb : Option Nat) (s : Slots) : (canon nv nb s).g = canonG nb s := by
  simp [canonG, canon, FastOps.g]

theorem getNode_canonG (nb : Option Nat) (s : Slots) (q : Nat) :
    (canonG nb s).getNode q = (slotAt s q).map (canonNodeG s q) := by
  unfold canonG
  rw [FastOps.getNode_g, getNode_canon, Option.map_map]
  rfl

@[simp] theorem length_canonG (nb : Option Nat) (s : Slots) : (canonG nb s).ops.length = s.length := by
  simp [canonG]

@[simp] theorem n_canonG (nb : Option Nat) (s : Slots) : (canonG nb s).n = countOps s := rfl
@[simp] theorem pEnds_canonG (nb : Option Nat) (s : Slots) : (canonG nb s).pEnds = canonEnds s := rfl
@[simp] theorem varEnds_canonG (nb : Option Nat) (s : Slots) : (canonG nb s).varEnds = [] := rfl
@[simp] theorem bc_canonG (nb : Option Nat) (s : Slots) :
    (canonG nb s).bondCounters = nb.map (fun k => (List.range k).map (countBond s)) := rfl

theorem canonG_setOp_none (nb : Option Nat) (s : Slots) (p : Nat) (h : slotAt s p = none) :
    (canonG nb s).setOp p none = canonG nb s := by
  apply FastOps.ext' <;> try simp
  intro q hq
  rw [getNode_canonG]
  intro e _
  subst e
  rw [h]; rfl

theorem set_none_of_slotAt_none (s : Slots) (p : Nat) (h : slotAt s p = none) : s.set p none = s := by
  apply List.ext_getElem?
  intro q
  rw [List.getElem?_set]
  by_cases e : p = q
  · subst e
    by_cases hp : p < s.length
    · simp only [hp, if_true]
      unfold slotAt at h
      rw [List.getElem?_eq_getElem hp] at h ⊢
      simp only [Option.join_some] at h
      rw [h]
    · simp [hp]
  · simp [e]

/-- counters after removing an op with bond `b0` -/
theorem counters_remove (nb : Option Nat) (s : Slots) (p : Nat) (op : Op) (hp : slotAt s p = some op) :
    (nb.map (fun k => (List.range k).map (countBond s))).map (fun l => l.modify op.bond (· - 1))
      = nb.map (fun k => (List.range k).map (countBond (s.set p none))) := by
  cases nb with
  | none => rfl
  | some k =>
    simp only [Option.map_some, modify_range_map]
    congr 1
    apply List.map_congr_left
    intro b _
    have h := countBond_set s p none b (slotAt_lt hp)
    rw [hp] at h
    by_cases hb : b = op.bond
    · subst hb
      simp [bondIs] at h ⊢
      omega
    · have : (op.bond == b) = false := by simpa using fun e => hb e.symm
      simp [bondIs, this, hb] at h ⊢
      omega

theorem counters_insert (nb : Option Nat) (s : Slots) (p : Nat) (op : Op) (hp : slotAt s p = none)
    (hpL : p < s.length) :
    (nb.map (fun k => (List.range k).map (countBond s))).map (fun l => l.modify op.bond (· + 1))
      = nb.map (fun k => (List.range k).map (countBond (s.set p (some op)))) := by
  cases nb with
  | none => rfl
  | some k =>
    simp only [Option.map_some, modify_range_map]
    congr 1
    apply List.map_congr_left
    intro b _
    have h := countBond_set s p (some op) b hpL
    rw [hp] at h
    by_cases hb : b = op.bond
    · subst hb
      simp [bondIs] at h ⊢
      omega
    · have : (op.bond == b) = false := by simpa using fun e => hb e.symm
      simp [bondIs, this, hb] at h ⊢
      omega

theorem countBond_pos (s : Slots) (p : Nat) (op : Op) (hp : slotAt s p = some op) :
    1 ≤ countBond s op.bond := by
  have h := countBond_set s p none op.bond (slotAt_lt hp)
  rw [hp] at h
  simp [bondIs] at h
  omega

theorem counters_replace (nb : Option Nat) (s : Slots) (p : Nat) (old o : Op) (hp : slotAt s p = some old) :
    ((nb.map (fun k => (List.range k).map (countBond s))).map (fun l => l.modify old.bond (· - 1))).map
        (fun l => l.modify o.bond (· + 1))
      = nb.map (fun k => (List.range k).map (countBond (s.set p (some o)))) := by
  cases nb with
  | none => rfl
  | some k =>
    simp only [Option.map_some, modify_range_map]
    congr 1
    apply List.map_congr_left
    intro b _
    have h := countBond_set s p (some o) b (slotAt_lt hp)
    have hpos := countBond_pos s p old hp
    rw [hp] at h
    by_cases hb : b = old.bond <;> by_cases hb2 : b = o.bond
    · subst hb; simp [bondIs, ← hb2] at h ⊢; omega
    · subst hb
      have : (o.bond == old.bond) = false := by simpa using fun e => hb2 e.symm
      simp [bondIs, this, hb2] at h ⊢; omega
    · subst hb2
      have : (old.bond == o.bond) = false := by simpa using fun e => hb e.symm
      simp [bondIs, this, hb] at h ⊢; omega
    · have h1 : (old.bond == b) = false := by simpa using fun e => hb e.symm
      have h2 : (o.bond == b) = false := by simpa using fun e => hb2 e.symm
      simp [bondIs, h1, h2, hb, hb2] at h ⊢; omega

namespace FastOps

/-- B-remove -/
theorem uninstallG_canon (nb : Option Nat) (s : Slots) (p : Nat) (op : Op)
    (hp : slotAt s p = some op) (a : Cursor) (ha : a.lastP = prevOcc (occAt s) p) :
    uninstallG ((canonG nb s).setOp p none) (canonNodeG s p op) a = canonG nb (s.set p none) := by
  have hpL := slotAt_lt hp
  have hocc := occ_of_slotAt hp
  have hP' := occ_set s p none hpL
  simp only [Option.isSome_none] at hP'
  apply ext'
  · simp [uninstallG, length_uninstallGlobal]
  · intro q _
    simp only [uninstallG, getNode_decrBond, getNode_setN, getNode_uninstallGlobal, getNode_setOp,
      getNode_canonG, slotAt_set, ha, length_canonG]
    by_cases hqp : p = q
    · subst hqp; simp [hpL]
    · simp only [hqp, false_and, if_false]
      cases hsq : slotAt s q with
      | none => rfl
      | some oq =>
        have hq := occ_of_slotAt hsq
        have hqL := slotAt_lt hsq
        have hqp' : q ≠ p := fun e => hqp e.symm
        simp only [Option.map_some, canonNodeG, List.length_set, hP']
        rw [prevOcc_remove hq hqp' hqL, nextOcc_remove hq hqp']
        rfl
  · simp only [uninstallG, n_decrBond, n_setN', n_uninstallGlobal, n_setOp, n_canonG]
    have := countOps_set s p none hpL
    simp [hocc] at this
    omega
  · simp only [uninstallG, pEnds_decrBond, pEnds_setN, pEnds_uninstallGlobal, pEnds_setOp, pEnds_canonG,
      getNode_setOp, getNode_canonG, length_canonG, ha, canonNodeG, canonEnds, List.length_set, hP']
    rw [firstOcc_remove, lastOcc_remove hpL]
    cases hprev : prevOcc (occAt s) p with
    | none =>
      have hf := firstOcc_eq_of_prev_none hocc hpL hprev
      cases hnext : nextOcc (occAt s) s.length p with
      | none =>
        have hl := lastOcc_eq_of_next_none hocc hpL hnext
        simp [hf, hl, zipOpt]
      | some nx =>
        obtain ⟨h1, h2, h3⟩ := nextOcc_gt hnext
        obtain ⟨onx, honx⟩ := occ_iff.mp h3
        have : ¬ p = nx := by omega
        cases hl : lastOcc (occAt s) s.length with
        | none => rw [lastOcc_none_iff] at hl; have := hl p hpL; simp [hocc] at this
        | some l => simp [hf, zipOpt, this, honx]
    | some lp =>
      cases hf : firstOcc (occAt s) s.length with
      | none => rw [firstOcc_none_iff] at hf; have := hf p hpL; simp [hocc] at this
      | some f =>
        cases hnext : nextOcc (occAt s) s.length p with
        | none =>
          have hl := lastOcc_eq_of_next_none hocc hpL hnext
          simp [hl, zipOpt]
        | some nx =>
          obtain ⟨h1, h2, h3⟩ := nextOcc_gt hnext
          obtain ⟨onx, honx⟩ := occ_iff.mp h3
          have : ¬ p = nx := by omega
          cases hl : lastOcc (occAt s) s.length with
          | none => rw [lastOcc_none_iff] at hl; have := hl p hpL; simp [hocc] at this
          | some l => simp [zipOpt, this, honx]
  · simp [uninstallG, varEnds_uninstallGlobal]
  · simp only [uninstallG, bc_decrBond', bondCounters_setN, bc_uninstallGlobal, bondCounters_setOp, bc_canonG,
      canonNodeG]
    exact counters_remove nb s p op hp


theorem installNextP_canonG (nb : Option Nat) (s : Slots) (p : Nat) (hp : slotAt s p = none)
    (a : Cursor) (ha : a.lastP = prevOcc (occAt s) p) :
    installNextP (canonG nb s) a = nextOcc (occAt s) s.length p := by
  have hocc := occ_false_of_slotAt hp
  unfold installNextP
  rw [ha]
  cases hprev : prevOcc (occAt s) p with
  | none =>
    simp only [pEnds_canonG, canonEnds]
    rw [← firstOcc_eq_of_prevOcc_none hprev hocc]
    have := @first_some_iff_last_some (occAt s) s.length
    cases h1 : firstOcc (occAt s) s.length <;> cases h2 : lastOcc (occAt s) s.length <;>
      simp [h1, h2, zipOpt] at this ⊢
  | some lp =>
    obtain ⟨_, h2⟩ := prevOcc_lt hprev
    obtain ⟨olp, holp⟩ := occ_iff.mp h2
    simp only [getNode_canonG, holp, Option.map_some, Option.bind_some, canonNodeG]
    exact nextOcc_eq_of_prevOcc_some hprev hocc

/-- B-insert -/
theorem installG_canon (nb : Option Nat) (s : Slots) (p : Nat) (op : Op)
    (hp : slotAt s p = none) (hpL : p < s.length) (a : Cursor) (ha : a.lastP = prevOcc (occAt s) p) :
    installG (canonG nb s) p op a = canonG nb (s.set p (some op)) := by
  have hocc := occ_false_of_slotAt hp
  have hP' := occ_set s p (some op) hpL
  simp only [Option.isSome_some] at hP'
  have hnx := installNextP_canonG nb s p hp a ha
  unfold installG installGlobal
  rw [hnx, ha]
  apply ext'
  · simp [length_installGlobalCore]
  · intro q _
    simp only [getNode_installGlobalCore, getNode_canonG, slotAt_set, length_canonG]
    by_cases hqp : p = q
    · subst hqp
      simp only [hpL, and_self, if_true, Option.map_some, canonNodeG, List.length_set, hP',
        prevOcc_upd_self, nextOcc_upd_self]
    · simp only [hqp, false_and, if_false]
      cases hsq : slotAt s q with
      | none => rfl
      | some oq =>
        have hq := occ_of_slotAt hsq
        have hqL := slotAt_lt hsq
        have hqp' : q ≠ p := fun e => hqp e.symm
        simp only [Option.map_some, canonNodeG, List.length_set, hP']
        rw [prevOcc_insert hq hqp' hqL, nextOcc_insert hq hqp' hpL]
  · simp only [n_installGlobalCore, n_canonG]
    have := countOps_set s p (some op) hpL
    simp [hocc] at this
    omega
  · simp only [pEnds_installGlobalCore, pEnds_canonG, canonEnds, List.length_set, hP']
    rw [firstOcc_insert hpL, lastOcc_insert hpL]
    cases hprev : prevOcc (occAt s) p with
    | none =>
      cases hnext : nextOcc (occAt s) s.length p with
      | none =>
        obtain ⟨h1, h2⟩ := first_none_of_none_none hprev hnext hocc
        simp [h1, h2, zipOpt]
      | some nx =>
        obtain ⟨l, hl⟩ := last_some_of_next_some hnext
        have hf := firstOcc_eq_of_prevOcc_none (L := s.length) hprev hocc
        simp [hf, hnext, hl, zipOpt]
    | some lp =>
      obtain ⟨f, hf⟩ := first_some_of_prev_some hprev hpL
      cases hnext : nextOcc (occAt s) s.length p with
      | none =>
        obtain ⟨h1, h2⟩ := prevOcc_lt hprev
        obtain ⟨l, hl⟩ := last_some_of_mem h2 (by omega : lp < s.length)
        simp [hf, hl, zipOpt]
      | some nx =>
        obtain ⟨l, hl⟩ := last_some_of_next_some hnext
        simp [hf, hl, zipOpt]
  · simp [varEnds_installGlobalCore]
  · simp only [bc_installGlobalCore, bc_canonG]
    exact counters_insert nb s p op hp hpL


/-- B-fast -/
theorem fastInstall_canon (nb : Option Nat) (s : Slots) (p : Nat) (old o : Op)
    (hp : slotAt s p = some old) :
    fastInstall ((canonG nb s).setOp p none) p (canonNodeG s p old) o = canonG nb (s.set p (some o)) := by
  have hpL := slotAt_lt hp
  have hocc := occ_of_slotAt hp
  have hP' := occ_set s p (some o) hpL
  simp only [Option.isSome_some] at hP'
  rw [upd_self_eq hocc] at hP'
  unfold fastInstall
  apply ext'
  · simp
  · intro q _
    simp only [getNode_setOp, getNode_incrBond, getNode_decrBond, getNode_canonG, slotAt_set, length_setOp,
      length_incrBond, length_decrBond, length_canonG]
    by_cases hqp : p = q
    · subst hqp
      simp only [hpL, and_self, if_true, Option.map_some, canonNodeG, List.length_set, hP']
    · simp only [hqp, false_and, if_false]
      cases hsq : slotAt s q with
      | none => rfl
      | some oq => simp only [Option.map_some, canonNodeG, List.length_set, hP']
  · have := countOps_set s p (some o) hpL
    simp [hocc] at this
    simp [this]
  · simp [canonEnds, hP']
  · simp
  · simp only [bondCounters_setOp, bc_incrBond', bc_decrBond', bc_canonG, canonNodeG]
    exact counters_replace nb s p old o hp

/-- the global view of `change` on a canonical global view is the canonical global view of the
updated slots (all four paths of `mutate_p`) -/
theorem changeG_canon (nb : Option Nat) (s : Slots) (p : Nat) (new : Option Op) (a : Cursor)
    (hpL : p < s.length) (ha : a.lastP = prevOcc (occAt s) p) :
    changeG (canonG nb s) p new a = canonG nb (s.set p new) := by
  unfold changeG
  rw [getNode_canonG]
  cases hold : slotAt s p with
  | none =>
    rw [canonG_setOp_none nb s p hold]
    cases new with
    | none => simp [set_none_of_slotAt_none s p hold]
    | some o => simpa using installG_canon nb s p o hold hpL a ha
  | some old =>
    cases new with
    | none => simpa using uninstallG_canon nb s p old hold a ha
    | some o =>
      simp only [Option.map_some]
      by_cases hv : (canonNodeG s p old).op.vars = o.vars
      · simp only [hv, beq_self_eq_true, if_true]
        exact fastInstall_canon nb s p old o hold
      · have : ((canonNodeG s p old).op.vars == o.vars) = false := by simpa using hv
        simp only [this, Bool.false_eq_true, if_false]
        rw [uninstallG_canon nb s p old hold a ha]
        have h0 : slotAt (s.set p none) p = none := by simp [slotAt_set, hpL]
        have hl0 : p < (s.set p none).length := by simpa using hpL
        have ha0 : a.lastP = prevOcc (occAt (s.set p none)) p := by
          rw [occ_set s p none hpL, prevOcc_upd_self]; exact ha
        rw [installG_canon nb (s.set p none) p o h0 hl0 a ha0, List.set_set]

end FastOps
end Qmc
