/-
The copy of the loop update used by the whole-step model (`Qmc.StepLoop.loopUpdate`,
QmcModel/SamplerLoop.lean — needed because QmcModel/Loop.lean cannot be imported next to
QmcModel/Cluster.lean) IS C04's `Qmc.loopUpdate`: `stepLoop_eq`. So every theorem about the original
(C04, QmcProofs/LoopConsistent.lean, `Refine.loopUpdate_is_step`) holds for the function `drv_step` runs.
-/
import QmcModel.Loop
import QmcModel.SamplerLoop

namespace Qmc.Sampler
open Qmc

/-- the two `Leg` structures (relative variable, side) -/
def cv (l : StepLoop.Leg) : Qmc.Leg := ⟨l.rel, l.out⟩
def cvS (s : StepLoop.LoopSt) : Qmc.LoopSt := ⟨s.state, s.slots, s.rs⟩
def cvP (x : Nat × StepLoop.Leg) : Nat × Qmc.Leg := (x.1, cv x.2)

theorem cv_inj {a b : StepLoop.Leg} (h : cv a = cv b) : a = b := by
  cases a; cases b; simp only [cv, Qmc.Leg.mk.injEq] at h; simp [h.1, h.2]

theorem cvP_eq_iff (p : Nat) (a : StepLoop.Leg) (x : Nat × StepLoop.Leg) :
    ((p, cv a) = cvP x) ↔ ((p, a) = x) := by
  obtain ⟨q, b⟩ := x
  simp only [cvP, Prod.mk.injEq]
  constructor
  · rintro ⟨h1, h2⟩; exact ⟨h1, cv_inj h2⟩
  · rintro ⟨h1, h2⟩; exact ⟨h1, by rw [h2]⟩

theorem flipIO_eq (io : List Bool × List Bool) (l : StepLoop.Leg) :
    StepLoop.flipIO io l = Qmc.flipIO io (cv l) := rfl

theorem legsOf_eq (k : Nat) : (StepLoop.legsOf k).map cv = Qmc.legsOf k := by
  simp only [StepLoop.legsOf, Qmc.legsOf, List.map_append, List.map_map]
  rfl

theorem exitWeight_eq (W : List Bool → List Bool → Rat) (io : List Bool × List Bool) (a b : StepLoop.Leg) :
    StepLoop.exitWeight W io a b = Qmc.exitWeight W io (cv a) (cv b) := rfl

theorem exitWeights_eq (W : List Bool → List Bool → Rat) (io : List Bool × List Bool) (a : StepLoop.Leg)
    (k : Nat) : StepLoop.exitWeights W io a k = Qmc.exitWeights W io (cv a) k := by
  unfold StepLoop.exitWeights Qmc.exitWeights
  rw [← legsOf_eq, List.map_map]
  rfl

theorem sumR_eq (l : List Rat) : StepLoop.sumR l = Qmc.sumR l := rfl

theorem pickIdx_eq : ∀ (c : Rat) (l : List Rat), StepLoop.pickIdx c l = Qmc.pickIdx c l
  | _, [] => rfl
  | c, w :: t => by
    unfold StepLoop.pickIdx Qmc.pickIdx
    rw [pickIdx_eq (c - w) t]

theorem pickMargin_eq : ∀ (c : Rat) (l : List Rat), StepLoop.pickMargin c l = Qmc.pickMargin c l
  | _, [] => rfl
  | c, w :: t => by
    unfold StepLoop.pickMargin Qmc.pickMargin
    rw [pickMargin_eq (c - w) t]

theorem nthOp_eq (s : Slots) (k : Nat) : StepLoop.nthOp s k = Qmc.nthOp s k := rfl
theorem nextForVar_eq (s : Slots) (v p : Nat) : StepLoop.nextForVar s v p = Qmc.nextForVar s v p := rfl
theorem prevForVar_eq (s : Slots) (v p : Nat) : StepLoop.prevForVar s v p = Qmc.prevForVar s v p := rfl
theorem firstForVar_eq (s : Slots) (v : Nat) : StepLoop.firstForVar s v = Qmc.firstForVar s v := rfl
theorem lastForVar_eq (s : Slots) (v : Nat) : StepLoop.lastForVar s v = Qmc.lastForVar s v := rfl

theorem getD_legs (k j : Nat) : cv ((StepLoop.legsOf k).getD j default) = (Qmc.legsOf k).getD j default := by
  rw [← legsOf_eq]
  simp only [List.getD_eq_getElem?_getD, List.getElem?_map]
  cases (StepLoop.legsOf k)[j]? <;> rfl

theorem passThrough_eq (op : Op) (a b : StepLoop.Leg) :
    StepLoop.passThrough op a b = Qmc.passThrough op (cv a) (cv b) := rfl

theorem moveOn_eq (slots : Slots) (st : List Bool) (pos : Nat) (op' : Op) (ex : StepLoop.Leg) :
    StepLoop.moveOn slots st pos op' ex = Qmc.moveOn slots st pos op' (cv ex) := rfl

theorem totalVars_eq : ∀ (s : Slots), StepLoop.totalVars s = Qmc.totalVars s
  | [] => rfl
  | none :: t => by unfold StepLoop.totalVars Qmc.totalVars; exact totalVars_eq t
  | some op :: t => by unfold StepLoop.totalVars Qmc.totalVars; rw [totalVars_eq t]

theorem pickLeg_eq : ∀ (s : Slots) (p c : Nat), StepLoop.pickLeg s p c = Qmc.pickLeg s p c
  | [], _, _ => rfl
  | none :: t, p, c => by unfold StepLoop.pickLeg Qmc.pickLeg; exact pickLeg_eq t (p + 1) c
  | some op :: t, p, c => by
    unfold StepLoop.pickLeg Qmc.pickLeg
    rw [pickLeg_eq t (p + 1) (c - op.vars.length)]

theorem loopStart_eq (slots : Slots) (rs : RS) :
    ((StepLoop.loopStart slots rs).1.map cvP, (StepLoop.loopStart slots rs).2) = Qmc.loopStart slots rs := by
  unfold StepLoop.loopStart Qmc.loopStart
  simp only [totalVars_eq, pickLeg_eq]
  rcases Qmc.pickLeg slots 0 (rs.genRange (Qmc.totalVars slots)).1 with _ | ⟨p, b⟩
  · rfl
  · simp only []
    split <;> rfl

theorem loopBody_eq (w : Nat → List Bool → List Bool → Rat) (init : Nat × StepLoop.Leg) (pos : Nat)
    (ent : StepLoop.Leg) (s : StepLoop.LoopSt) :
    (cvS (StepLoop.loopBody w init pos ent s).1, (StepLoop.loopBody w init pos ent s).2.map cvP)
      = Qmc.loopBody w (cvP init) pos (cv ent) (cvS s) := by
  unfold StepLoop.loopBody Qmc.loopBody
  have e1 : (cvS s).slots = s.slots := rfl
  have e2 : (cvS s).rs = s.rs := rfl
  have e3 : (cvS s).state = s.state := rfl
  rw [e1]
  rcases hs : s.slots[pos]? with _ | _ | op
  · rfl
  · rfl
  · simp only [exitWeights_eq, sumR_eq, pickIdx_eq, pickMargin_eq, e2, e3]
    generalize Qmc.exitWeights (w op.bond) (op.ins, op.outs) (cv ent) op.vars.length = ws
    generalize s.rs.genRangeF (Qmc.sumR ws) = g
    by_cases hp : (g.2.panicked || g.2.short) = true
    · simp only [hp, if_true]; rfl
    · simp only [hp]
      rcases hj : Qmc.pickIdx g.1 ws with _ | j
      · rfl
      · simp only []
        generalize (if g.1 = 0 then g.2 else g.2.noteMargin (Qmc.pickMargin g.1 ws / Qmc.sumR ws)) = rs'
        have hex := getD_legs op.vars.length j
        rw [← hex]
        generalize (StepLoop.legsOf op.vars.length).getD j default = ex
        rw [passThrough_eq, moveOn_eq]
        by_cases hi : (pos, ex) = init
        · have hi' : (pos, cv ex) = cvP init := (cvP_eq_iff pos ex init).2 hi
          simp only [hi, hi', if_true]; rfl
        · have hi' : ¬ (pos, cv ex) = cvP init := fun h => hi ((cvP_eq_iff pos ex init).1 h)
          simp only [hi, hi', if_false, Bool.false_eq_true]
          rcases Qmc.moveOn s.slots s.state pos (Qmc.passThrough op (cv ent) (cv ex)) (cv ex) with ⟨state', _ | ⟨p', r'⟩⟩
          · rfl
          · simp only []
            have hc : ((p', (⟨r', !(cv ex).out⟩ : Qmc.Leg)) = cvP init) ↔ ((p', (⟨r', !ex.out⟩ : StepLoop.Leg)) = init) :=
              cvP_eq_iff p' ⟨r', !ex.out⟩ init
            by_cases h2 : (p', (⟨r', !ex.out⟩ : StepLoop.Leg)) = init
            · simp only [h2, hc.2 h2, if_true]; rfl
            · have h2' : ¬ (p', (⟨r', !(cv ex).out⟩ : Qmc.Leg)) = cvP init := fun h => h2 (hc.1 h)
              simp only [h2, h2', if_false]; rfl

theorem loopIter_eq (w : Nat → List Bool → List Bool → Rat) (init : Nat × StepLoop.Leg) :
    ∀ (fuel pos : Nat) (ent : StepLoop.Leg) (s : StepLoop.LoopSt),
      cvS (StepLoop.loopIter w init fuel pos ent s) = Qmc.loopIter w (cvP init) fuel pos (cv ent) (cvS s)
  | 0, _, _, _ => rfl
  | fuel + 1, pos, ent, s => by
    unfold StepLoop.loopIter Qmc.loopIter
    rw [← loopBody_eq w init pos ent s]
    rcases StepLoop.loopBody w init pos ent s with ⟨s', _ | ⟨p, e⟩⟩
    · rfl
    · exact loopIter_eq w init fuel p e s'

/-- **`stepLoop_eq`** — the copy is the original, as functions -/
theorem stepLoop_eq (w : Nat → List Bool → List Bool → Rat) (cfg : Config) (rs : RS) :
    StepLoop.loopUpdate w cfg rs = Qmc.loopUpdate w cfg rs := by
  unfold StepLoop.loopUpdate Qmc.loopUpdate
  split
  · rfl
  · rw [← loopStart_eq]
    rcases StepLoop.loopStart cfg.slots rs with ⟨_ | ⟨p, leg⟩, rs'⟩
    · rfl
    · have h := loopIter_eq w (p, leg) (rs'.script.length + 1) p leg ⟨cfg.state, cfg.slots, rs'⟩
      simp only [Option.map_some, cvP]
      have h' : Qmc.loopIter w (p, cv leg) (rs'.script.length + 1) p (cv leg) ⟨cfg.state, cfg.slots, rs'⟩
          = cvS (StepLoop.loopIter w (p, leg) (rs'.script.length + 1) p leg ⟨cfg.state, cfg.slots, rs'⟩) := h.symm
      simp only [h']
      rfl

theorem stepLoop_funext : StepLoop.loopUpdate = Qmc.loopUpdate := by
  funext w cfg rs; exact stepLoop_eq w cfg rs

end Qmc.Sampler
