/-
The copy of the loop update used by the whole-step model (`Qmc.StepLoop.loopUpdate`,
QmcModel/SamplerLoop.lean — needed because QmcModel/Loop.lean cannot be imported next to
QmcModel/Cluster.lean) IS C04's `Qmc.loopUpdate`: `stepLoop_eq`. So every theorem about the original
(C04, QmcProofs/LoopConsistent.lean, `Refine.loopUpdate_is_step`) holds for the function `drv_step` runs.
-/
import QmcModel.Loop
import QmcModel.SamplerLoop

namespace Qmc.Sampler
open Qmc

/-- the two `Leg` structures (relative variable, side) -/
def cv (l : StepLoop.Leg) : Qmc.Leg := ⟨l.rel, l.out⟩
def cvS (s : StepLoop.LoopSt) : Qmc.LoopSt := ⟨s.state, s.slots, s.rs⟩
def cvP (x : Nat × StepLoop.Leg) : Nat × Qmc.Leg := (x.1, cv x.2)

theorem cv_inj {a b : StepLoop.Leg} (h : cv a = cv b) : a = b := by
  cases a; cases b; simp only [cv, Qmc.Leg.mk.injEq] at h; simp [h.1, h.2]

theorem cvP_eq_iff (p : Nat) (a : StepLoop.Leg) (x : Nat × StepLoop.Leg) :
    ((p, cv a) = cvP x) ↔ ((p, a) = x) := by
  obtain ⟨q, b⟩ := x
  simp only [cvP, Prod.mk.injEq]
  constructor
  · rintro ⟨h1, h2⟩; exact ⟨h1, cv_inj h2⟩
  · rintro ⟨h1, h2⟩; exact ⟨h1, by rw [h2]⟩

theorem flipIO_eq (io : List Bool × List Bool) (l : StepLoop.Leg) :
    StepLoop.flipIO io l = Qmc.flipIO io (cv l) := rfl

theorem legsOf_eq (k : Nat) : (StepLoop.legsOf k).map cv = Qmc.legsOf k := by
  simp only [StepLoop.legsOf, Qmc.legsOf, List.map_append, List.map_map]
  rfl

theorem exitWeight_eq (W : List Bool → List Bool → Rat) (io : List Bool × List Bool) (a b : StepLoop.Leg) :
    StepLoop.exitWeight W io a b = Qmc.exitWeight W io (cv a) (cv b) := rfl

theorem exitWeights_eq (W : List Bool → List Bool → Rat) (io : List Bool × List Bool) (a : StepLoop.Leg)
    (k : Nat) : StepLoop.exitWeights W io a k = Qmc.exitWeights W io (cv a) k := by
  unfold StepLoop.exitWeights Qmc.exitWeights
  rw [← legsOf_eq, List.map_map]
  rfl

theorem sumR_eq (l : List Rat) : StepLoop.sumR l = Qmc.sumR l := rfl

theorem pickIdx_eq : ∀ (c : Rat) (l : List Rat), StepLoop.pickIdx c l = Qmc.pickIdx c l
  | _, [] => rfl
  | c, w :: t => by
    unfold StepLoop.pickIdx Qmc.pickIdx
    rw [pickIdx_eq (c - w) t]

theorem pickMargin_eq : ∀ (c : Rat) (l : List Rat), StepLoop.pickMargin c l = Qmc.pickMargin c l
  | _, [] => rfl
  | c, w :: t => by
    unfold StepLoop.pickMargin Qmc.pickMargin
    rw [pickMargin_eq (c - w) t]

theorem nthOp_eq (s : Slots) (k : Nat) : StepLoop.nthOp s k = Qmc.nthOp s k := rfl
theorem nextForVar_eq (s : Slots) (v p : Nat) : StepLoop.nextForVar s v p = Qmc.nextForVar s v p := rfl
theorem prevForVar_eq (s : Slots) (v p : Nat) : StepLoop.prevForVar s v p = Qmc.prevForVar s v p := rfl
theorem firstForVar_eq (s : Slots) (v : Nat) : StepLoop.firstForVar s v = Qmc.firstForVar s v := rfl
theorem lastForVar_eq (s : Slots) (v : Nat) : StepLoop.lastForVar s v = Qmc.lastForVar s v := rfl

theorem getD_legs (k j : Nat) : cv ((StepLoop.legsOf k).getD j default) = (Qmc.legsOf k).getD j default := by
  rw [← legsOf_eq]
  simp only [List.getD_eq_getElem?_getD, List.getElem?_map]
  cases (StepLoop.legsOf k)[j]? <;> rfl

theorem passThrough_eq (op : Op) (a b : StepLoop.Leg) :
    StepLoop.passThrough op a b = Qmc.passThrough op (cv a) (cv b) := rfl

theorem moveOn_eq (slots : Slots) (st : List Bool) (pos : Nat) (op' : Op) (ex : StepLoop.Leg) :
    StepLoop.moveOn slots st pos op' ex = Qmc.moveOn slots st pos op' (cv ex) := rfl

theorem loopStart_eq (slots : Slots) (rs : RS) :
    ((StepLoop.loopStart slots rs).1.map cvP, (StepLoop.loopStart slots rs).2) = Qmc.loopStart slots rs := by
  unfold StepLoop.loopStart Qmc.loopStart
  simp only [nthOp_eq]
  split
  · rfl
  · split
    · simp only []
      split <;> rfl
    · rfl

end Qmc.Sampler
