/-
C11, read-only helpers, second part:
* `try_iterate_ps` / `iterate_ps` = fold over the slots `min(pstart, L) .. min(pend, L)` of the naive array
  (any container), panic exactly for a reversed slice;
* `try_iterate_ops` / `iterate_ops` = fold over the occupied slots `pstart ≤ q ≤ pend` (pend INCLUSIVE) in
  increasing order (under the representation invariant: the walk along `next_p`), panic exactly when
  `pstart` lies beyond the array while an op lies before it;
* `get_propagated_substate_with_hint` against the propagation `pushOps` of the `p = 0` state, and the
  side conditions (E)/(W) derived from `OpContainer::verify` (`Consistent`).
-/
import QmcProofs.FastOpsHint

namespace Qmc

/-! ### `tryFold` -/

theorem tryFold_map {α β γ ε : Type} (g : α → β) (f : β → γ → Except ε γ) (l : List α) (t : γ) :
    FastOps.tryFold (fun x t => f (g x) t) l t = FastOps.tryFold f (l.map g) t := by
  induction l generalizing t with
  | nil => rfl
  | cons x xs ih =>
    simp only [FastOps.tryFold, List.map_cons]
    cases f (g x) t with
    | ok t' => exact ih t'
    | error e => rfl

theorem tryFold_ok {α γ ε : Type} (f : α → γ → γ) (l : List α) (t : γ) :
    FastOps.tryFold (ε := ε) (fun x t => .ok (f x t)) l t = .ok (l.foldl (fun t x => f x t) t) := by
  induction l generalizing t with
  | nil => rfl
  | cons x xs ih => simp only [FastOps.tryFold, List.foldl_cons]; exact ih _

/-! ### the naive scans -/

theorem mem_opsFrom (s : Slots) : ∀ (n k q : Nat) (op : Op),
    (q, op) ∈ opsFrom s k n ↔ k ≤ q ∧ q < k + n ∧ slotAt s q = some op := by
  intro n
  induction n with
  | zero => intro k q op; simp only [opsFrom, List.not_mem_nil, false_iff]; omega
  | succ n ih =>
    intro k q op
    unfold opsFrom
    cases hs : slotAt s k with
    | none =>
      simp only [ih]
      constructor
      · rintro ⟨h1, h2, h3⟩; exact ⟨by omega, by omega, h3⟩
      · rintro ⟨h1, h2, h3⟩
        have : q ≠ k := by intro e; subst e; rw [hs] at h3; cases h3
        exact ⟨by omega, by omega, h3⟩
    | some o =>
      simp only [List.mem_cons, Prod.mk.injEq, ih]
      constructor
      · rintro (⟨h1, h2⟩ | ⟨h1, h2, h3⟩)
        · subst h1 h2; exact ⟨Nat.le_refl _, by omega, hs⟩
        · exact ⟨by omega, by omega, h3⟩
      · rintro ⟨h1, h2, h3⟩
        by_cases e : q = k
        · subst e; rw [hs] at h3; left; exact ⟨rfl, (Option.some.inj h3).symm⟩
        · right; exact ⟨by omega, by omega, h3⟩

theorem opsFrom_sorted (s : Slots) : ∀ (n k : Nat),
    (opsFrom s k n).Pairwise (fun a b => a.1 < b.1) ∧ ∀ x ∈ opsFrom s k n, k ≤ x.1 := by
  intro n
  induction n with
  | zero => intro k; simp [opsFrom]
  | succ n ih =>
    intro k
    unfold opsFrom
    obtain ⟨h1, h2⟩ := ih (k + 1)
    cases slotAt s k with
    | none => exact ⟨h1, fun x hx => by have := h2 x hx; omega⟩
    | some o =>
      refine ⟨List.pairwise_cons.mpr ⟨fun x hx => by have := h2 x hx; show k < x.1; omega, h1⟩, ?_⟩
      intro x hx
      rcases List.mem_cons.mp hx with e | hx
      · subst e; exact Nat.le_refl _
      · have := h2 x hx; omega

/-- `scanOps`: exactly the occupied slots `pstart ≤ q ≤ pend`, … -/
theorem mem_scanOps (s : Slots) (ps pe q : Nat) (op : Op) :
    (q, op) ∈ scanOps s ps pe ↔ ps ≤ q ∧ q ≤ pe ∧ slotAt s q = some op := by
  unfold scanOps
  rw [mem_opsFrom]
  constructor
  · rintro ⟨h1, h2, h3⟩; exact ⟨h1, by omega, h3⟩
  · rintro ⟨h1, h2, h3⟩
    have := slotAt_lt h3
    exact ⟨h1, by omega, h3⟩

/-- … in increasing order of position -/
theorem scanOps_sorted (s : Slots) (ps pe : Nat) : (scanOps s ps pe).Pairwise (fun a b => a.1 < b.1) :=
  (opsFrom_sorted s _ ps).1

namespace FastOps

/-! ### `try_iterate_ps`, `iterate_ps`: any container -/

theorem scanPs_abs (c : FastOps) (ps pe : Nat) :
    ((c.ops.drop (min ps c.ops.length)).take (min pe c.ops.length - min ps c.ops.length)).map (fun o => o.map (·.op))
      = scanPs c.abs ps pe := by
  unfold scanPs abs
  simp only [List.length_map, List.map_take, List.map_drop]

/-- `try_iterate_ps` = `try_fold` over the slots `min(pstart, L) .. min(pend, L)` of the naive array; the
slice panics exactly when the range is reversed after clamping.  No invariant is needed. -/
theorem tryIteratePs_eq_scan {τ ε : Type} (c : FastOps) (ps pe : Nat) (t : τ)
    (f : FastOps → Option Op → τ → Except ε τ) :
    c.tryIteratePs ps pe t f =
      if min ps c.abs.length > min pe c.abs.length then none
      else some (tryFold (f c) (scanPs c.abs ps pe) t) := by
  have hl : c.abs.length = c.ops.length := by simp [abs]
  unfold tryIteratePs
  simp only [hl]
  split
  · rfl
  · rw [tryFold_map (fun (o : Option Node) => o.map (·.op)) (f c), scanPs_abs]

theorem iteratePs_eq_scan {τ : Type} (c : FastOps) (ps pe : Nat) (t : τ) (f : FastOps → Option Op → τ → τ) :
    c.iteratePs ps pe t f =
      if min ps c.abs.length > min pe c.abs.length then none
      else some ((scanPs c.abs ps pe).foldl (fun t o => f c o t) t) := by
  unfold iteratePs
  rw [tryIteratePs_eq_scan]
  split
  · rfl
  · simp only [Option.bind_some]
    rw [tryFold_ok (ε := Unit) (f c)]
    rfl

/-! ### `try_iterate_ops`, `iterate_ops`: the walk along `next_p` -/

theorem iterOpsStart_canon (nv : Nat) (nb : Option Nat) (s : Slots) (ps : Nat) :
    (canon nv nb s).iterOpsStart ps =
      if s.length < ps ∧ (firstOcc (occAt s) s.length).isSome = true then none
      else some (nextFrom (occAt s) ps (s.length - ps)) := by
  have hstart := opsStart_canon nv nb s ps
  unfold iterOpsStart
  cases hpe : (canon nv nb s).pEnds with
  | none =>
    have hf : firstOcc (occAt s) s.length = none := by
      have : (canon nv nb s).getFirstP = none := by simp [getFirstP, hpe]
      rw [getFirstP_canon] at this; exact this
    rw [hpe] at hstart
    simp only [Option.bind_none] at hstart
    simp [hf, ← hstart]
  | some se =>
    obtain ⟨st, tl⟩ := se
    have hf : firstOcc (occAt s) s.length = some st := by
      have : (canon nv nb s).getFirstP = some st := by simp [getFirstP, hpe]
      rw [getFirstP_canon] at this; exact this
    have hstL : st < s.length := (firstOcc_mem hf).1
    rw [hpe] at hstart
    simp only [Option.bind_some] at hstart
    simp only [hf, Option.isSome_some, and_true, length_canon]
    by_cases h1 : ps ≤ st
    · have : ¬ s.length < ps := by omega
      simp only [h1, if_true, this, if_false]
      simp only [h1, if_true] at hstart
      rw [hstart]
    · simp only [h1, if_false] at hstart ⊢
      by_cases h2 : st > tl
      · -- cannot happen on a canonical container; the code answers `None`, and so does the scan
        simp only [h2, if_true] at hstart ⊢
        have hnone : nextFrom (occAt s) ps (s.length - ps) = none := hstart.symm
        by_cases h3 : s.length < ps
        · exfalso
          -- `st ≤ tl` always: tl is the last occupied slot
          have hl : (canon nv nb s).getLastP = some tl := by simp [getLastP, hpe]
          rw [getLastP_canon, lastOcc_some_iff] at hl
          rw [firstOcc_some_iff] at hf
          have := hl.2.2 st h2 hf.1
          rw [hf.2.1] at this; cases this
        · simp [h3, hnone]
      · simp only [h2, if_false] at hstart ⊢
        by_cases h3 : s.length < ps
        · simp [h3]
        · have : ¬ ps > s.length := by omega
          simp only [this, if_false]
          rw [hstart]

/-- the walk: from the first occupied slot `≥ k`, follow `next_p` while `≤ pend` -/
theorem iterOpsWalk_canon {τ ε : Type} (nv : Nat) (nb : Option Nat) (s : Slots)
    (f : FastOps → Op → Nat → τ → Except ε τ) (pe : Nat) :
    ∀ (d k fuel : Nat) (t : τ), k + d = s.length → d < fuel →
      iterOpsWalk (canon nv nb s) f pe fuel (nextFrom (occAt s) k (s.length - k)) t
        = some (tryFold (fun (x : Nat × Op) t => f (canon nv nb s) x.2 x.1 t)
            (opsFrom s k (min (pe + 1) s.length - k)) t) := by
  intro d
  induction d with
  | zero =>
    intro k fuel t hk hfuel
    have : s.length - k = 0 := by omega
    have h2 : min (pe + 1) s.length - k = 0 := by omega
    rw [this, h2]
    cases fuel with
    | zero => omega
    | succ fuel => simp [nextFrom, iterOpsWalk, opsFrom, tryFold]
  | succ d ih =>
    intro k fuel t hk hfuel
    have hkL : k < s.length := by omega
    have hsub : s.length - k = (s.length - (k + 1)) + 1 := by omega
    cases fuel with
    | zero => omega
    | succ fuel =>
    cases hsp : slotAt s k with
    | none =>
      have hnf : nextFrom (occAt s) k (s.length - k) = nextFrom (occAt s) (k + 1) (s.length - (k + 1)) := by
        rw [hsub, nextFrom, occ_false_of_slotAt hsp]; simp
      rw [hnf, ih (k + 1) (fuel + 1) t (by omega) (by omega)]
      by_cases hkpe : k ≤ pe
      · have : min (pe + 1) s.length - k = (min (pe + 1) s.length - (k + 1)) + 1 := by omega
        rw [this, opsFrom, hsp]
      · have h1 : min (pe + 1) s.length - k = 0 := by omega
        have h2 : min (pe + 1) s.length - (k + 1) = 0 := by omega
        rw [h1, h2]; rfl
    | some op =>
      have hnf : nextFrom (occAt s) k (s.length - k) = some k := by
        rw [hsub, nextFrom, occ_of_slotAt hsp]; simp
      rw [hnf]
      by_cases hkpe : k ≤ pe
      · have hnot : ¬ k > pe := by omega
        have hn : min (pe + 1) s.length - k = (min (pe + 1) s.length - (k + 1)) + 1 := by omega
        have hop : (canonNode s k op).op = op := rfl
        have hnext : (canonNode s k op).nextP = nextFrom (occAt s) (k + 1) (s.length - (k + 1)) := rfl
        rw [hn]
        simp only [iterOpsWalk, hnot, if_false, nodeExpect_canon, hsp, Option.map_some, hop, opsFrom, tryFold]
        cases f (canon nv nb s) op k t with
        | error e => rfl
        | ok t' =>
          simp only [hnext]
          exact ih (k + 1) fuel t' (by omega) (by omega)
      · have hgt : k > pe := by omega
        have h1 : min (pe + 1) s.length - k = 0 := by omega
        rw [h1]
        simp [iterOpsWalk, hgt, opsFrom, tryFold]

/-- `try_iterate_ops` on the canonical container = `try_fold` over the occupied slots `pstart ≤ q ≤ pend`
in increasing order; panics exactly when `pstart` is beyond the array and some op exists -/
theorem tryIterateOps_canon {τ ε : Type} (nv : Nat) (nb : Option Nat) (s : Slots) (ps pe : Nat) (t : τ)
    (f : FastOps → Op → Nat → τ → Except ε τ) :
    (canon nv nb s).tryIterateOps ps pe t f =
      if s.length < ps ∧ (firstOcc (occAt s) s.length).isSome = true then none
      else some (tryFold (fun (x : Nat × Op) t => f (canon nv nb s) x.2 x.1 t) (scanOps s ps pe) t) := by
  unfold tryIterateOps
  rw [iterOpsStart_canon]
  split
  · rfl
  · next hno =>
    simp only [Option.bind_some, length_canon]
    by_cases hps : ps ≤ s.length
    · exact iterOpsWalk_canon nv nb s f pe (s.length - ps) ps (s.length + 1) t (by omega) (by omega)
    · -- beyond the array and no op at all: nothing is visited
      have h0 : s.length - ps = 0 := by omega
      have h1 : min (pe + 1) s.length - ps = 0 := by omega
      simp [h0, scanOps, h1, nextFrom, iterOpsWalk, opsFrom, tryFold]

theorem iterateOps_canon {τ : Type} (nv : Nat) (nb : Option Nat) (s : Slots) (ps pe : Nat) (t : τ)
    (f : FastOps → Op → Nat → τ → τ) :
    (canon nv nb s).iterateOps ps pe t f =
      if s.length < ps ∧ (firstOcc (occAt s) s.length).isSome = true then none
      else some ((scanOps s ps pe).foldl (fun t (x : Nat × Op) => f (canon nv nb s) x.2 x.1 t) t) := by
  unfold iterateOps
  rw [tryIterateOps_canon]
  split
  · rfl
  · simp only [Option.bind_some]
    rw [tryFold_ok (ε := Unit) (fun (x : Nat × Op) t => f (canon nv nb s) x.2 x.1 t)]
    rfl

end FastOps

/-! ### the propagated state: `subAt` is the `p = 0` state pushed through the slots before `p` -/

theorem hintWV_length (st : List Bool) (vars : List Nat) (vals : List Bool) :
    (writeVars st vars vals).length = st.length := by
  unfold writeVars
  generalize vars.zip vals = l
  induction l generalizing st with
  | nil => rfl
  | cons x t ih => simp only [List.foldl_cons]; rw [ih]; simp

theorem hintWV_cons (st : List Bool) (a : Nat) (t : List Nat) (b : Bool) (u : List Bool) :
    writeVars st (a :: t) (b :: u) = writeVars (st.set a b) t u := rfl

/-- reading after `writeVars`: the value written for `v` (at its relative index) or the old one -/
theorem hintWV_get (vars : List Nat) : ∀ (st vals : List Bool) (v : Nat), vars.Nodup →
    vals.length = vars.length → v < st.length →
    (writeVars st vars vals)[v]? = if v ∈ vars then vals[vars.idxOf v]? else st[v]? := by
  induction vars with
  | nil => intro st vals v _ _ _; simp [writeVars]
  | cons a t ih =>
    intro st vals v hn hl hv
    cases vals with
    | nil => simp at hl
    | cons b u =>
      rw [hintWV_cons]
      have hn' := List.nodup_cons.mp hn
      rw [ih (st.set a b) u v hn'.2 (by simpa using hl) (by simpa using hv)]
      by_cases hva : v = a
      · subst hva
        have hnt : v ∉ t := hn'.1
        simp [hnt, hv]
      · have hav : ¬ a = v := fun e => hva e.symm
        by_cases hvt : v ∈ t
        · simp only [hvt, if_true, List.mem_cons, or_true]
          have hb : (a == v) = false := by simpa using hav
          rw [List.idxOf_cons, hb]
          simp
        · simp only [hvt, if_false, List.mem_cons, hva, false_or]
          rw [List.getElem?_set_ne hav]

theorem pushOps_append (st : List Bool) (l1 l2 : Slots) : pushOps st (l1 ++ l2) = pushOps (pushOps st l1) l2 := by
  induction l1 generalizing st with
  | nil => rfl
  | cons x t ih =>
    cases x with
    | none => exact ih st
    | some o => exact ih _

theorem pushOps_length (st : List Bool) (l : Slots) : (pushOps st l).length = st.length := by
  induction l generalizing st with
  | nil => rfl
  | cons x t ih =>
    cases x with
    | none => exact ih st
    | some o => simp only [pushOps]; rw [ih, hintWV_length]

/-- **`subAt` is a propagation**: the value at `v` after pushing the `p = 0` state through every op
strictly before `p` (outputs written in slot order) -/
theorem subAt_eq_pushOps (nv : Nat) (nb : Option Nat) (s : Slots) (hwf : WF nv nb s) (hio : IOLen s)
    (state : List Bool) (v : Nat) (hv : v < state.length) :
    ∀ p, (pushOps state (s.take p))[v]? = subAt s state v p := by
  intro p
  induction p with
  | zero => simp [pushOps, subAt, prevRel, prevOcc]
  | succ p ih =>
    have hsucc : prevRel s v (p + 1) = if occVAt s v p then some (relAt s v p) else prevRel s v p := by
      unfold prevRel
      rw [prevOcc_succ]
      split <;> rfl
    by_cases hpL : p < s.length
    · have htake : s.take (p + 1) = s.take p ++ [s[p]] := by
        rw [List.take_add_one, List.getElem?_eq_getElem hpL]; rfl
      rw [htake, pushOps_append]
      cases hsp : s[p] with
      | none =>
        have hsl : slotAt s p = none := by simp [slotAt, List.getElem?_eq_getElem hpL, hsp]
        have hocc : occVAt s v p = false := by simp [occVAt, hsl]
        simp only [pushOps]
        rw [ih]
        unfold subAt
        rw [hsucc, hocc]
        rfl
      | some op =>
        have hsl : slotAt s p = some op := by simp [slotAt, List.getElem?_eq_getElem hpL, hsp]
        obtain ⟨_, hnd, _, _⟩ := hwf p op hsl
        simp only [pushOps]
        rw [hintWV_get op.vars _ _ v hnd (hio p op hsl).2 (by rw [pushOps_length]; exact hv)]
        by_cases hm : v ∈ op.vars
        · have hocc : occVAt s v p = true := occV_of_mem hsl hm
          simp only [hm, if_true]
          unfold subAt
          rw [hsucc, hocc]
          simp [outAt, relAt_relv hsl, hsl]
        · have hocc : occVAt s v p = false := occV_false_of_not_mem hsl hm
          simp only [hm, if_false]
          rw [ih]
          unfold subAt
          rw [hsucc, hocc]
          rfl
    · have htake : s.take (p + 1) = s.take p := by
        rw [List.take_of_length_le (by omega), List.take_of_length_le (by omega)]
      have hocc : occVAt s v p = false := occV_false_of_ge (by omega)
      rw [htake, ih]
      unfold subAt
      rw [hsucc, hocc]
      rfl

/-! ### `OpContainer::verify(state)` gives the side conditions (E) and (W) -/

theorem propagate_eq_pushOps : ∀ (l : Slots) (st st' : List Bool), propagate st l = some st' → st' = pushOps st l := by
  intro l
  induction l with
  | nil => intro st st' h; simp [propagate] at h; exact h.symm
  | cons x t ih =>
    intro st st' h
    cases x with
    | none => exact ih st st' h
    | some o =>
      simp only [propagate, applyOp] at h
      by_cases hm : inputsMatch st o = true
      · simp only [hm, if_true] at h
        exact ih _ st' h
      · simp [hm] at h

theorem propagate_append_some : ∀ (l1 l2 : Slots) (st st' : List Bool), propagate st (l1 ++ l2) = some st' →
    propagate (pushOps st l1) l2 = some st' := by
  intro l1
  induction l1 with
  | nil => intro l2 st st' h; exact h
  | cons x t ih =>
    intro l2 st st' h
    cases x with
    | none => exact ih l2 st st' h
    | some o =>
      simp only [List.cons_append, propagate, applyOp] at h
      by_cases hm : inputsMatch st o = true
      · simp only [hm, if_true] at h
        exact ih l2 _ st' h
      · simp [hm] at h

/-- every op met its recorded inputs on the rolling state -/
theorem propagate_inputs (s : Slots) (state st' : List Bool) (h : propagate state s = some st')
    (p : Nat) (op : Op) (hsp : slotAt s p = some op) :
    inputsMatch (pushOps state (s.take p)) op = true := by
  have hpL := slotAt_lt hsp
  have hsplit : s = s.take p ++ (some op :: s.drop (p + 1)) := by
    have h1 : s[p] = some op := by
      unfold slotAt at hsp
      rw [List.getElem?_eq_getElem hpL] at hsp
      simpa using hsp
    rw [← h1, ← List.drop_eq_getElem_cons hpL, List.take_append_drop]
  rw [hsplit] at h
  have h2 := propagate_append_some _ _ _ _ h
  simp only [propagate, applyOp] at h2
  by_cases hm : inputsMatch (pushOps state (s.take p)) op = true
  · exact hm
  · simp [hm] at h2

theorem inputsMatch_at {st : List Bool} {op : Op} (h : inputsMatch st op = true) (v : Nat) (hv : v ∈ op.vars)
    (hl : op.ins.length = op.vars.length) : st[v]? = op.ins[op.vars.idxOf v]? := by
  unfold inputsMatch at h
  rw [List.all_eq_true] at h
  have hi := List.idxOf_lt_length_of_mem hv
  have hi' : op.vars.idxOf v < op.ins.length := by omega
  have hmem : (v, op.ins[op.vars.idxOf v]) ∈ op.vars.zip op.ins := by
    rw [List.mem_iff_getElem?]
    refine ⟨op.vars.idxOf v, ?_⟩
    rw [List.getElem?_zip_eq_some]
    exact ⟨by rw [List.getElem?_eq_getElem hi, List.getElem_idxOf hi], List.getElem?_eq_getElem hi'⟩
  have := h _ hmem
  simp only [beq_iff_eq] at this
  rw [this, List.getElem?_eq_getElem hi']

/-- a container that passes `verify(state)` satisfies (E) and (W) at every `p`, for every variable -/
theorem substateOK_of_consistent (nv : Nat) (nb : Option Nat) (s : Slots) (hwf : WF nv nb s) (hio : IOLen s)
    (state : List Bool) (hc : Consistent ⟨state, s⟩) (vars : List Nat) (hst : ∀ v ∈ vars, v < state.length)
    (p : Nat) : SubstateOK s state vars p := by
  unfold Consistent at hc
  simp only at hc
  intro v hv
  have hvl := hst v hv
  constructor
  · -- (E)
    intro hf
    have hocc : occVAt s v p = true := (firstOcc_mem hf).2
    obtain ⟨op, hsp, hmem⟩ := occV_slot hocc
    have hin := propagate_inputs s state state hc p op hsp
    have h1 := inputsMatch_at hin v hmem (hio p op hsp).1
    rw [subAt_eq_pushOps nv nb s hwf hio state v hvl p] at h1
    have hp0 : prevOcc (occVAt s v) p = none := by
      rw [prevOcc_none_iff]; rw [firstOcc_some_iff] at hf; exact hf.2.2
    simp only [subAt, prevRel, hp0, Option.map_none] at h1
    simp [inAt, relAt_relv hsp, hsp, h1]
  · -- (W)
    intro q hq hn
    have hfin : state = pushOps state s := propagate_eq_pushOps s state state hc
    have h1 := subAt_eq_pushOps nv nb s hwf hio state v hvl s.length
    rw [List.take_length, ← hfin] at h1
    obtain ⟨hqp, hqocc⟩ := prevOcc_lt hq
    have hlast : prevOcc (occVAt s v) s.length = some q := by
      have := lastOcc_eq_of_next_none hqocc (occV_lt hqocc) hn
      exact this
    simp only [subAt, prevRel, hlast, Option.map_some] at h1
    exact h1.symm

/-! ### decidable forms of the hypotheses (for the non-vacuity examples) -/

def hintOKb (s : Slots) (vars : List Nat) (hint : List (Option Nat)) : Bool :=
  decide (hint.length = vars.length) &&
  (hint.zip vars).all (fun x => match x.1 with | none => true | some q => occVAt s x.2 q)

theorem hintOK_of_b {s : Slots} {vars : List Nat} {hint : List (Option Nat)} (h : hintOKb s vars hint = true) :
    HintOK s vars hint := by
  unfold hintOKb at h
  simp only [Bool.and_eq_true, decide_eq_true_eq, List.all_eq_true] at h
  refine ⟨h.1, ?_⟩
  intro i v q hv hh
  have hmem : (some q, v) ∈ hint.zip vars := by
    rw [List.mem_iff_getElem?]
    exact ⟨i, by rw [List.getElem?_zip_eq_some]; exact ⟨hh, hv⟩⟩
  exact h.2 _ hmem

def opOKb (nv : Nat) (op : Op) : Bool :=
  !op.vars.isEmpty && decide op.vars.Nodup && op.vars.all (fun v => decide (v < nv)) &&
  decide (op.ins.length = op.vars.length) && decide (op.outs.length = op.vars.length)

def slotsOKb (nv : Nat) (s : Slots) : Bool :=
  s.all fun o => match o with
    | none => true
    | some op => opOKb nv op

theorem wf_of_slotsOKb {nv : Nat} {s : Slots} (h : slotsOKb nv s = true) : WF nv none s ∧ IOLen s := by
  unfold slotsOKb at h
  rw [List.all_eq_true] at h
  have key : ∀ q op, slotAt s q = some op → opOKb nv op = true := by
    intro q op hq
    have hmem : some op ∈ s := by
      unfold slotAt at hq
      cases hg : s[q]? with
      | none => rw [hg] at hq; cases hq
      | some o =>
        rw [hg] at hq
        have : o = some op := by simpa using hq
        subst this
        exact List.mem_of_getElem? hg
    exact h _ hmem
  constructor
  · intro q op hq
    have := key q op hq
    simp only [opOKb, Bool.and_eq_true, Bool.not_eq_true', decide_eq_true_eq, List.all_eq_true,
      List.isEmpty_eq_false_iff] at this
    obtain ⟨⟨⟨⟨h1, h2⟩, h3⟩, _⟩, _⟩ := this
    exact ⟨h1, h2, h3, by intro k hk; cases hk⟩
  · intro q op hq
    have := key q op hq
    simp only [opOKb, Bool.and_eq_true, decide_eq_true_eq] at this
    exact ⟨this.1.2, this.2⟩

end Qmc
