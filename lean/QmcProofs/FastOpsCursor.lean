/-
C11, Appendix B step 5: the cursor. After `mutate_p` at `p` the cursor is the scan cursor at
`p + 1`; sweeps by induction.
-/
import QmcProofs.FastOpsVarAssembly

namespace Qmc

/-- generic loop rule over any state type -/
theorem fold_inv' {σ α : Type} (I : List Nat → σ → Prop) (step : σ → α → σ)
    (key : α → Nat) (good : α → Prop)
    (hstep : ∀ D c x, good x → key x ∉ D → I D c → I (key x :: D) (step c x)) :
    ∀ (l : List α) (D : List Nat) (c : σ),
      (∀ x ∈ l, good x) → (l.map key).Nodup → (∀ x ∈ l, key x ∉ D) → I D c →
      I ((l.map key).reverse ++ D) (l.foldl step c) := by
  intro l
  induction l with
  | nil => intro D c _ _ _ h; simpa using h
  | cons x t ih =>
    intro D c h1 h2 h3 h
    simp only [List.map_cons, List.nodup_cons] at h2
    have hs := hstep D c x (h1 x (by simp)) (h3 x (by simp)) h
    have := ih (key x :: D) _ (fun y hy => h1 y (by simp [hy])) h2.2
      (by
        intro y hy
        simp only [List.mem_cons, not_or]
        refine ⟨?_, h3 y (by simp [hy])⟩
        intro e
        apply h2.1
        rw [← e]
        exact List.mem_map_of_mem hy) hs
    simpa [List.reverse_cons, List.append_assoc] using this

theorem range_map_set {β : Type} (nv v : Nat) (F : Nat → β) (y : β) :
    ((List.range nv).map F).set v y = (List.range nv).map (fun w => if w = v then y else F w) := by
  apply List.ext_getElem?
  intro i
  rw [List.getElem?_set]
  simp only [List.length_map, List.length_range, List.getElem?_map]
  by_cases hi : i < nv
  · rw [List.getElem?_range hi]
    by_cases hv : v = i
    · subst hv; simp [hi]
    · have : ¬ i = v := fun e => hv e.symm
      simp [hv, this]
  · rw [List.getElem?_eq_none (by simpa using Nat.le_of_not_lt hi)]
    by_cases hv : v = i
    · subst hv; simp [hi]
    · simp [hv]

theorem idxOf_of_getElem? {l : List Nat} {k v : Nat} (hn : l.Nodup) (h : l[k]? = some v) : l.idxOf v = k := by
  have hlt : k < l.length := by
    by_cases hh : k < l.length
    · exact hh
    · rw [List.getElem?_eq_none (Nat.le_of_not_lt hh)] at h; cases h
  have : l[k] = v := by rw [List.getElem?_eq_getElem hlt] at h; exact Option.some.inj h
  rw [← this]; exact hn.idxOf_getElem k hlt

/-- the scan cursor one slot further -/
theorem prevRel_succ (s : Slots) (v p : Nat) :
    prevRel s v (p + 1) = if occVAt s v p then some (relAt s v p) else prevRel s v p := by
  unfold prevRel
  rw [prevOcc_succ]
  split <;> rfl

namespace FastOps

/-- the `advance` loop on a scan cursor -/
theorem advance_scan (nv : Nat) (nb : Option Nat) (s : Slots) (p u : Nat) (hwf : WF nv nb s) :
    advance (canon nv nb s) p (cursorByScan nv s p u) = cursorByScan nv s (p + 1) u := by
  unfold advance
  rw [← slotAt_abs, abs_canon]
  cases hsp : slotAt s p with
  | none =>
    simp only []
    unfold cursorByScan
    have hoccf : occAt s p = false := occ_false_of_slotAt hsp
    have hvf : ∀ v, occVAt s v p = false := by intro v; unfold occVAt; rw [hsp]
    simp only [prevOcc_succ, hoccf, prevRel_succ, hvf]
    rfl
  | some op =>
    simp only []
    obtain ⟨_, hnodup, hlt, _⟩ := hwf p op hsp
    -- invariant of the loop
    let I : List Nat → Cursor → Prop := fun D a =>
      a.lastP = prevOcc (occAt s) p ∧ a.subvarMapping = none ∧ a.unfilled = u ∧
      a.lastVars = (List.range nv).map (fun v => if v ∈ D then some p else (prevRel s v p).map (·.p)) ∧
      a.lastRels = (List.range nv).map (fun v => if v ∈ D then some (op.vars.idxOf v)
        else (prevRel s v p).map (·.relv))
    have hbase : I [] (cursorByScan nv s p u) := by
      refine ⟨rfl, rfl, rfl, ?_, ?_⟩ <;> simp [cursorByScan]
    have hfold := fold_inv' I
      (fun (a : Cursor) (vr : Nat × Nat) =>
        match a.varToSubvar vr.1 with
        | some sub => { a with lastVars := a.lastVars.set sub (some p), lastRels := a.lastRels.set sub (some vr.2) }
        | none => a)
      (fun vr => vr.1) (fun vr => op.vars[vr.2]? = some vr.1)
      (by
        intro D a x hx hD ⟨h1, h2, h3, h4, h5⟩
        have hidx := idxOf_of_getElem? hnodup hx
        simp only [Cursor.varToSubvar, h2]
        refine ⟨h1, rfl, h3, ?_, ?_⟩
        · simp only [h4, range_map_set]
          apply List.map_congr_left
          intro w _
          by_cases hw : w = x.1 <;> simp [hw]
        · simp only [h5, range_map_set]
          apply List.map_congr_left
          intro w _
          by_cases hw : w = x.1
          · subst hw; simp [hidx]
          · simp [hw])
      op.vars.zipIdx [] (cursorByScan nv s p u) (zipIdx_getElem? op.vars)
      (by rw [List.zipIdx_map_fst]; exact hnodup) (by simp) hbase
    rw [List.zipIdx_map_fst, List.append_nil] at hfold
    obtain ⟨h1, h2, h3, h4, h5⟩ := hfold
    generalize List.foldl _ (cursorByScan nv s p u) op.vars.zipIdx = a' at h1 h2 h3 h4 h5
    cases a' with
    | mk lp lv lr sm uf =>
      simp only at h1 h2 h3 h4 h5
      subst h2 h3 h4 h5
      unfold cursorByScan
      simp only [prevOcc_succ, occ_of_slotAt hsp, if_true, prevRel_succ, Cursor.mk.injEq, true_and, and_true]
      constructor
      · apply List.map_congr_left
        intro v _
        by_cases hv : v ∈ op.vars
        · simp [hv, occV_of_mem hsp hv, relAt]
        · simp [hv, occV_false_of_not_mem hsp hv]
      · apply List.map_congr_left
        intro v _
        by_cases hv : v ∈ op.vars
        · simp [hv, occV_of_mem hsp hv, relAt, hsp]
        · simp [hv, occV_false_of_not_mem hsp hv]

theorem cursorByScan_set (nv : Nat) (s : Slots) (p u : Nat) (x : Option Op) (hpL : p < s.length) :
    cursorByScan nv (s.set p x) p u = cursorByScan nv s p u := by
  unfold cursorByScan
  rw [occ_set s p x hpL, prevOcc_upd_self]
  simp only [prevRel_set_self s p x _ hpL]

/-- one `mutate_p` on the canonical container with the scan cursor -/
theorem mutatePWith_canon (nv : Nat) (nb : Option Nat) (s : Slots) (p u : Nat)
    (new : Option (Option Op)) (hpL : p < s.length) (hwf : WF nv nb s) (hnew : ActOK nv nb new) :
    mutatePWith (canon nv nb s) p new (cursorByScan nv s p u)
      = (canon nv nb (writeA s p new), cursorByScan nv (writeA s p new) (p + 1) u) := by
  unfold mutatePWith
  cases new with
  | none =>
    simp only [writeA]
    rw [advance_scan nv nb s p u hwf]
  | some x =>
    simp only [writeA]
    have hok : ∀ o, x = some o → OpOK nv nb o := by
      intro o ho; exact hnew o (by rw [ho])
    rw [change_canon nv nb s p x _ hpL hwf hok (curOK_scan nv s p u)]
    have hwf' := WF_set nv nb s p x hwf hok
    rw [← cursorByScan_set nv s p u x hpL, advance_scan nv nb (s.set p x) p u hwf']


theorem WF_writeA (nv : Nat) (nb : Option Nat) (s : Slots) (p : Nat) (new : Option (Option Op))
    (h : WF nv nb s) (hnew : ActOK nv nb new) : WF nv nb (writeA s p new) := by
  cases new with
  | none => exact h
  | some x => exact WF_set nv nb s p x h (fun o ho => hnew o (by rw [ho]))

/-- `(pstart..pend).fold(mutate_p)` on the canonical container with the scan cursor -/
theorem sweepLoop_canon {τ : Type} (nv : Nat) (nb : Option Nat)
    (f : FastOps → Option Op → τ → Option (Option Op) × τ)
    (hf : ∀ c o t, ActOK nv nb (f c o t).1) (u : Nat) :
    ∀ (k p : Nat) (s : Slots) (t : τ), WF nv nb s → p + k ≤ s.length →
      sweepLoop f p k (canon nv nb s) (cursorByScan nv s p u) t
        = (canon nv nb (sweepLoopA nv nb f p k s t).1,
           cursorByScan nv (sweepLoopA nv nb f p k s t).1 (p + k) u,
           (sweepLoopA nv nb f p k s t).2) ∧
      WF nv nb (sweepLoopA nv nb f p k s t).1 := by
  intro k
  induction k with
  | zero => intro p s t h _; exact ⟨rfl, h⟩
  | succ k ih =>
    intro p s t h hk
    simp only [sweepLoop, sweepLoopA, mutateP]
    rw [← slotAt_abs, abs_canon]
    rw [mutatePWith_canon nv nb s p u _ (by omega) h (hf _ _ _)]
    have hwf' := WF_writeA nv nb s p (f (canon nv nb s) (slotAt s p) t).1 h (hf _ _ _)
    have := ih (p + 1) (writeA s p (f (canon nv nb s) (slotAt s p) t).1)
      (f (canon nv nb s) (slotAt s p) t).2 hwf' (by rw [writeA_length]; omega)
    simp only [] 
    rw [this.1]
    refine ⟨?_, this.2⟩
    rw [show p + 1 + k = p + (k + 1) by omega]

end FastOps
end Qmc
