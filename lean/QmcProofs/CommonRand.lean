/-
Shared lemma about the replayed RNG (`QmcModel/Rand.lean`) that needs Mathlib's ordered-field lemmas on `Rat`
(hence not in the core-only `QmcProofs/Common.lean`). It used to be declared under the same name in
QmcProofs/HeatBath.lean (C08) and QmcProofs/Loop.lean (C04) — see design_notes/Cleanup.md.
-/
import QmcModel.Rand
import Mathlib.Algebra.Order.Field.Rat
import Mathlib.Tactic.Positivity

namespace Qmc

/-- `gen_range(0.0..t)` never returns a negative number -/
theorem genRangeF_nonneg (rs : RS) (t : Rat) : 0 ≤ (rs.genRangeF t).1 := by
  unfold RS.genRangeF
  by_cases h : t ≤ 0
  · rw [if_pos h]
  · rw [if_neg h]
    simp only
    have ht : 0 ≤ t := le_of_lt (not_le.mp h)
    positivity

end Qmc
