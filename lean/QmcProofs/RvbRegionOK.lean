import QmcModel.RvbRegionOK
import QmcProofs.RvbKernel

/-! Soundness of the executable deciders `regionOKb` for `RegionOK` and `moveOKb` for `MoveOK`. -/

namespace Qmc.Rvb.Kernel
open Qmc Qmc.Rvb Qmc.Rvb.ExtractFlip

theorem mem_everInList {c : Config} {R : Region} {v : Nat} (h : EverIn c R v) : v ∈ everInList c R := by
  unfold everInList
  rw [List.mem_append]
  rcases h with h | ⟨p, hp, o, ho, hv⟩
  · left
    rw [List.mem_filter]
    refine ⟨List.mem_range.2 ?_, h⟩
    by_contra hc
    unfold getB at h
    rw [List.getD_eq_getElem?_getD, List.getElem?_eq_none (by omega)] at h
    cases h
  · right
    rw [List.mem_flatMap]
    refine ⟨p, hp, ?_⟩
    unfold varsAt
    rw [ho]; exact hv

/-- **the decider is sound** -/
theorem regionOKb_sound {E : Ising} {c : Config} {R : Region} (h : regionOKb E c R = true) :
    RegionOK E c R := by
  unfold regionOKb at h
  simp only [Bool.and_eq_true] at h
  obtain ⟨⟨h1, h2⟩, h3⟩ := h
  rw [List.all_eq_true] at h1 h2 h3
  refine ⟨?_, ?_, ?_⟩
  · intro p hp o ho
    have := h1 p hp
    rw [ho] at this
    exact this
  · intro v hv
    have := h2 v (mem_everInList hv)
    simpa using this
  · intro e he hj hin
    have := h3 e he
    simp only [Bool.or_eq_true, beq_iff_eq, Bool.not_eq_true', Bool.or_eq_false_iff, Bool.and_eq_true,
      List.contains_iff_mem] at this
    rcases this with (h0 | hno) | hyes
    · exact absurd h0 hj
    · exfalso
      rcases hin with hi | hi
      · have := mem_everInList hi
        rw [← List.contains_iff_mem] at this
        rw [this] at hno; cases hno.1
      · have := mem_everInList hi
        rw [← List.contains_iff_mem] at this
        rw [this] at hno; cases hno.2
    · exact hyes

theorem isingHamM_eq (E : Ising) : isingHamM E = isingHam E := rfl

/-- **the decider for the kernel's transition condition is sound** -/
theorem moveOKb_sound {E : Ising} {N : Nat} {R : Region} {c c' : Config} (h : moveOKb E N R c c' = true) :
    MoveOK E N R c c' := by
  unfold moveOKb at h
  simp only [Bool.and_eq_true, beq_iff_eq, decide_eq_true_eq, Bool.not_eq_true'] at h
  obtain ⟨⟨⟨⟨⟨⟨h1, h2⟩, h3⟩, h4⟩, h5⟩, h6⟩, h7⟩ := h
  exact ⟨isRvbMove_sound h1, ⟨h2, h3, (legalB_iff _ _).1 h4⟩, regionOKb_sound h5, h6, h7⟩

end Qmc.Rvb.Kernel
