/-
C11, step 2 of Appendix B: structural read-after-write lemmas for the model container,
facts about the naive slot array under `List.set`, and extensionality.
-/
import QmcProofs.FastOpsChain

namespace Qmc

/-! ### naive slot arrays -/

theorem slotAt_set (s : Slots) (p q : Nat) (x : Option Op) :
    slotAt (s.set p x) q = if p = q ∧ p < s.length then x else slotAt s q := by
  unfold slotAt
  rw [List.getElem?_set]
  by_cases h : p = q
  · subst h
    by_cases h2 : p < s.length
    · simp [h2]
    · simp [h2]
  · simp [h]

theorem slotAt_eq_none_of_le {s : Slots} {q : Nat} (h : s.length ≤ q) : slotAt s q = none := by
  unfold slotAt; rw [List.getElem?_eq_none h]; rfl

theorem slotAt_lt {s : Slots} {q : Nat} {op : Op} (h : slotAt s q = some op) : q < s.length := by
  by_cases hq : q < s.length
  · exact hq
  · rw [slotAt_eq_none_of_le (Nat.le_of_not_lt hq)] at h; cases h

theorem occ_lt {s : Slots} {q : Nat} (h : occAt s q = true) : q < s.length := by
  unfold occAt at h
  cases h2 : slotAt s q with
  | none => rw [h2] at h; cases h
  | some op => exact slotAt_lt h2

theorem occ_iff {s : Slots} {q : Nat} : occAt s q = true ↔ ∃ op, slotAt s q = some op := by
  unfold occAt; cases slotAt s q <;> simp

theorem occ_of_slotAt {s : Slots} {q : Nat} {op : Op} (h : slotAt s q = some op) : occAt s q = true := by
  unfold occAt; rw [h]; rfl

theorem occ_false_of_slotAt {s : Slots} {q : Nat} (h : slotAt s q = none) : occAt s q = false := by
  unfold occAt; rw [h]; rfl

theorem occ_set (s : Slots) (p : Nat) (x : Option Op) (hp : p < s.length) :
    occAt (s.set p x) = upd (occAt s) p x.isSome := by
  funext q
  unfold occAt upd
  rw [slotAt_set]
  by_cases h : q = p
  · subst h; simp [hp]
  · have : ¬ p = q := fun e => h e.symm
    simp [h, this]

theorem occV_lt {s : Slots} {v q : Nat} (h : occVAt s v q = true) : q < s.length := by
  unfold occVAt at h
  cases h2 : slotAt s q with
  | none => rw [h2] at h; cases h
  | some op => exact slotAt_lt h2

theorem length_set_slots (s : Slots) (p : Nat) (x : Option Op) : (s.set p x).length = s.length :=
  List.length_set

theorem occ_cons_succ (a : Option Op) (t : Slots) (p : Nat) : occAt (a :: t) (p + 1) = occAt t p := rfl
theorem slotAt_cons_succ (a : Option Op) (t : Slots) (p : Nat) : slotAt (a :: t) (p + 1) = slotAt t p := rfl
theorem countOps_cons_isSome (a : Option Op) (t : Slots) : countOps (a :: t) = (if a.isSome then 1 else 0) + countOps t := by
  simp only [countOps, List.filter_cons]; split <;> simp <;> omega
theorem countOps_set (s : Slots) (p : Nat) (x : Option Op) (hp : p < s.length) :
    countOps (s.set p x) + (if occAt s p then 1 else 0) = countOps s + (if x.isSome then 1 else 0) := by
  induction s generalizing p with
  | nil => simp at hp
  | cons a t ih =>
    cases p with
    | zero =>
      cases a <;> cases x <;> simp [countOps_cons_isSome, occAt, slotAt] <;> omega
    | succ p =>
      have hp' : p < t.length := by simpa using hp
      have := ih p hp'
      rw [List.set_cons_succ, countOps_cons_isSome, countOps_cons_isSome, occ_cons_succ]
      omega
def bondIs (b : Nat) (o : Option Op) : Bool :=
  match o with
  | some op => op.bond == b
  | none => false

theorem countBond_eq (s : Slots) (b : Nat) : countBond s b = (s.filter (bondIs b)).length := rfl
theorem countBond_cons (a : Option Op) (t : Slots) (b : Nat) :
    countBond (a :: t) b = (if bondIs b a then 1 else 0) + countBond t b := by
  simp only [countBond_eq, List.filter_cons]; split <;> simp <;> omega

theorem countBond_set (s : Slots) (p : Nat) (x : Option Op) (b : Nat) (hp : p < s.length) :
    countBond (s.set p x) b + (if bondIs b (slotAt s p) then 1 else 0)
      = countBond s b + (if bondIs b x then 1 else 0) := by
  induction s generalizing p with
  | nil => simp at hp
  | cons a t ih =>
    cases p with
    | zero =>
      by_cases h1 : bondIs b a = true <;> by_cases h2 : bondIs b x = true <;>
        simp [countBond_cons, slotAt, h1, h2] <;> omega
    | succ p =>
      have hp' : p < t.length := by simpa using hp
      have := ih p hp'
      rw [List.set_cons_succ, countBond_cons, countBond_cons, slotAt_cons_succ]
      omega

theorem countOps_append_none (s : Slots) (k : Nat) : countOps (s ++ List.replicate k none) = countOps s := by
  simp [countOps, List.filter_append]

theorem countBond_append_none (s : Slots) (k b : Nat) :
    countBond (s ++ List.replicate k none) b = countBond s b := by
  simp [countBond_eq, List.filter_append, bondIs]

/-! ### reads of the container after small writes -/
namespace FastOps

theorem join_modifyNode (ops : List (Option Node)) (q r : Nat) (f : Node → Node) :
    ((modifyNode ops q f)[r]?).join = ((ops[r]?).join).map (fun x => if q = r then f x else x) := by
  unfold modifyNode
  rw [List.getElem?_modify]
  cases h : ops[r]? with
  | none => simp
  | some o =>
    cases o with
    | none => by_cases hq : q = r <;> simp [hq]
    | some x => by_cases hq : q = r <;> simp [hq]

theorem join_set (ops : List (Option Node)) (p r : Nat) (x : Option Node) :
    ((ops.set p x)[r]?).join = if p = r ∧ p < ops.length then x else (ops[r]?).join := by
  rw [List.getElem?_set]
  by_cases h : p = r
  · subst h
    by_cases h2 : p < ops.length
    · simp [h2]
    · simp [h2]
  · simp [h]

theorem length_modifyNode (ops : List (Option Node)) (q : Nat) (f : Node → Node) :
    (modifyNode ops q f).length = ops.length := by
  unfold modifyNode; exact List.length_modify _ _ _

theorem getNode_eq_none_of_le {c : FastOps} {q : Nat} (h : c.ops.length ≤ q) : c.getNode q = none := by
  unfold getNode; rw [List.getElem?_eq_none h]; rfl

theorem getNode_lt {c : FastOps} {q : Nat} {nd : Node} (h : c.getNode q = some nd) : q < c.ops.length := by
  by_cases hq : q < c.ops.length
  · exact hq
  · rw [getNode_eq_none_of_le (Nat.le_of_not_lt hq)] at h; cases h

@[simp] theorem getNode_setNextP (c : FastOps) (q r : Nat) (x : Option Nat) :
    (c.setNextP q x).getNode r =
      (c.getNode r).map (fun nd => if q = r then { nd with nextP := x } else nd) := by
  simp only [setNextP, getNode, join_modifyNode]

@[simp] theorem getNode_setPrevP (c : FastOps) (q r : Nat) (x : Option Nat) :
    (c.setPrevP q x).getNode r =
      (c.getNode r).map (fun nd => if q = r then { nd with previousP := x } else nd) := by
  simp only [setPrevP, getNode, join_modifyNode]

@[simp] theorem getNode_setNextFor (c : FastOps) (q k r : Nat) (x : Option PRel) :
    (c.setNextFor q k x).getNode r =
      (c.getNode r).map (fun nd => if q = r then { nd with nextForVars := nd.nextForVars.set k x } else nd) := by
  simp only [setNextFor, getNode, join_modifyNode]

@[simp] theorem getNode_setPrevFor (c : FastOps) (q k r : Nat) (x : Option PRel) :
    (c.setPrevFor q k x).getNode r =
      (c.getNode r).map (fun nd => if q = r then { nd with previousForVars := nd.previousForVars.set k x } else nd) := by
  simp only [setPrevFor, getNode, join_modifyNode]

@[simp] theorem getNode_setVarEnd (c : FastOps) (v r : Nat) (x) : (c.setVarEnd v x).getNode r = c.getNode r := rfl
@[simp] theorem getNode_decrBond (c : FastOps) (b r : Nat) : (c.decrBond b).getNode r = c.getNode r := rfl
@[simp] theorem getNode_incrBond (c : FastOps) (b r : Nat) : (c.incrBond b).getNode r = c.getNode r := rfl

@[simp] theorem length_setNextP (c : FastOps) (q : Nat) (x) : (c.setNextP q x).ops.length = c.ops.length := by
  simp [setNextP, length_modifyNode]
@[simp] theorem length_setPrevP (c : FastOps) (q : Nat) (x) : (c.setPrevP q x).ops.length = c.ops.length := by
  simp [setPrevP, length_modifyNode]
@[simp] theorem length_setNextFor (c : FastOps) (q k : Nat) (x) : (c.setNextFor q k x).ops.length = c.ops.length := by
  simp [setNextFor, length_modifyNode]
@[simp] theorem length_setPrevFor (c : FastOps) (q k : Nat) (x) : (c.setPrevFor q k x).ops.length = c.ops.length := by
  simp [setPrevFor, length_modifyNode]

@[simp] theorem getNode_setOp (c : FastOps) (p r : Nat) (x : Option Node) :
    (c.setOp p x).getNode r = if p = r ∧ p < c.ops.length then x else c.getNode r := by
  simp only [setOp, getNode, join_set]

@[simp] theorem getNode_setPEnds (c : FastOps) (e) (r : Nat) : (c.setPEnds e).getNode r = c.getNode r := rfl
@[simp] theorem getNode_setN (c : FastOps) (k r : Nat) : (c.setN k).getNode r = c.getNode r := rfl
@[simp] theorem length_setOp (c : FastOps) (p : Nat) (x) : (c.setOp p x).ops.length = c.ops.length := by
  simp [setOp]
@[simp] theorem length_setPEnds (c : FastOps) (e) : (c.setPEnds e).ops.length = c.ops.length := rfl
@[simp] theorem length_setN (c : FastOps) (k : Nat) : (c.setN k).ops.length = c.ops.length := rfl
@[simp] theorem length_setVarEnd (c : FastOps) (v : Nat) (x) : (c.setVarEnd v x).ops.length = c.ops.length := rfl
@[simp] theorem length_decrBond (c : FastOps) (b : Nat) : (c.decrBond b).ops.length = c.ops.length := rfl
@[simp] theorem length_incrBond (c : FastOps) (b : Nat) : (c.incrBond b).ops.length = c.ops.length := rfl

@[simp] theorem n_setNextP (c : FastOps) (q) (x) : (c.setNextP q x).n = c.n := rfl
@[simp] theorem pEnds_setNextP (c : FastOps) (q) (x) : (c.setNextP q x).pEnds = c.pEnds := rfl
@[simp] theorem varEnds_setNextP (c : FastOps) (q) (x) : (c.setNextP q x).varEnds = c.varEnds := rfl
@[simp] theorem bondCounters_setNextP (c : FastOps) (q) (x) : (c.setNextP q x).bondCounters = c.bondCounters := rfl
@[simp] theorem n_setPrevP (c : FastOps) (q) (x) : (c.setPrevP q x).n = c.n := rfl
@[simp] theorem pEnds_setPrevP (c : FastOps) (q) (x) : (c.setPrevP q x).pEnds = c.pEnds := rfl
@[simp] theorem varEnds_setPrevP (c : FastOps) (q) (x) : (c.setPrevP q x).varEnds = c.varEnds := rfl
@[simp] theorem bondCounters_setPrevP (c : FastOps) (q) (x) : (c.setPrevP q x).bondCounters = c.bondCounters := rfl
@[simp] theorem n_setNextFor (c : FastOps) (q) (k) (x) : (c.setNextFor q k x).n = c.n := rfl
@[simp] theorem pEnds_setNextFor (c : FastOps) (q) (k) (x) : (c.setNextFor q k x).pEnds = c.pEnds := rfl
@[simp] theorem varEnds_setNextFor (c : FastOps) (q) (k) (x) : (c.setNextFor q k x).varEnds = c.varEnds := rfl
@[simp] theorem bondCounters_setNextFor (c : FastOps) (q) (k) (x) : (c.setNextFor q k x).bondCounters = c.bondCounters := rfl
@[simp] theorem n_setPrevFor (c : FastOps) (q) (k) (x) : (c.setPrevFor q k x).n = c.n := rfl
@[simp] theorem pEnds_setPrevFor (c : FastOps) (q) (k) (x) : (c.setPrevFor q k x).pEnds = c.pEnds := rfl
@[simp] theorem varEnds_setPrevFor (c : FastOps) (q) (k) (x) : (c.setPrevFor q k x).varEnds = c.varEnds := rfl
@[simp] theorem bondCounters_setPrevFor (c : FastOps) (q) (k) (x) : (c.setPrevFor q k x).bondCounters = c.bondCounters := rfl
@[simp] theorem n_setVarEnd (c : FastOps) (v) (x) : (c.setVarEnd v x).n = c.n := rfl
@[simp] theorem pEnds_setVarEnd (c : FastOps) (v) (x) : (c.setVarEnd v x).pEnds = c.pEnds := rfl
@[simp] theorem bondCounters_setVarEnd (c : FastOps) (v) (x) : (c.setVarEnd v x).bondCounters = c.bondCounters := rfl
@[simp] theorem n_decrBond (c : FastOps) (b) : (c.decrBond b).n = c.n := rfl
@[simp] theorem pEnds_decrBond (c : FastOps) (b) : (c.decrBond b).pEnds = c.pEnds := rfl
@[simp] theorem varEnds_decrBond (c : FastOps) (b) : (c.decrBond b).varEnds = c.varEnds := rfl
@[simp] theorem n_incrBond (c : FastOps) (b) : (c.incrBond b).n = c.n := rfl
@[simp] theorem pEnds_incrBond (c : FastOps) (b) : (c.incrBond b).pEnds = c.pEnds := rfl
@[simp] theorem varEnds_incrBond (c : FastOps) (b) : (c.incrBond b).varEnds = c.varEnds := rfl
@[simp] theorem n_setPEnds (c : FastOps) (e) : (c.setPEnds e).n = c.n := rfl
@[simp] theorem varEnds_setPEnds (c : FastOps) (e) : (c.setPEnds e).varEnds = c.varEnds := rfl
@[simp] theorem bondCounters_setPEnds (c : FastOps) (e) : (c.setPEnds e).bondCounters = c.bondCounters := rfl
@[simp] theorem pEnds_setN (c : FastOps) (k) : (c.setN k).pEnds = c.pEnds := rfl
@[simp] theorem varEnds_setN (c : FastOps) (k) : (c.setN k).varEnds = c.varEnds := rfl
@[simp] theorem bondCounters_setN (c : FastOps) (k) : (c.setN k).bondCounters = c.bondCounters := rfl
@[simp] theorem n_setOp (c : FastOps) (p) (x) : (c.setOp p x).n = c.n := rfl
@[simp] theorem pEnds_setOp (c : FastOps) (p) (x) : (c.setOp p x).pEnds = c.pEnds := rfl
@[simp] theorem varEnds_setOp (c : FastOps) (p) (x) : (c.setOp p x).varEnds = c.varEnds := rfl
@[simp] theorem bondCounters_setOp (c : FastOps) (p) (x) : (c.setOp p x).bondCounters = c.bondCounters := rfl
@[simp] theorem pEnds_setPEnds' (c : FastOps) (e) : (c.setPEnds e).pEnds = e := rfl
@[simp] theorem n_setN' (c : FastOps) (k : Nat) : (c.setN k).n = k := rfl
@[simp] theorem varEnds_setVarEnd' (c : FastOps) (v : Nat) (x) : (c.setVarEnd v x).varEnds = c.varEnds.set v x := rfl
@[simp] theorem bc_decrBond' (c : FastOps) (b : Nat) :
    (c.decrBond b).bondCounters = c.bondCounters.map (fun l => l.modify b (· - 1)) := rfl
@[simp] theorem bc_incrBond' (c : FastOps) (b : Nat) :
    (c.incrBond b).bondCounters = c.bondCounters.map (fun l => l.modify b (· + 1)) := rfl

/-- two containers are equal when all fields are, the slot arrays compared through `getNode` -/
theorem ext' {c d : FastOps} (hl : c.ops.length = d.ops.length)
    (hn : ∀ q, q < c.ops.length → c.getNode q = d.getNode q)
    (h1 : c.n = d.n) (h2 : c.pEnds = d.pEnds) (h3 : c.varEnds = d.varEnds)
    (h4 : c.bondCounters = d.bondCounters) : c = d := by
  cases c with | mk ops n pe ve bc =>
  cases d with | mk ops' n' pe' ve' bc' =>
  simp only at hl h1 h2 h3 h4
  subst h1 h2 h3 h4
  have : ops = ops' := by
    apply List.ext_getElem?
    intro q
    by_cases hq : q < ops.length
    · have := hn q hq
      simp only [getNode] at this
      have e1 : ops[q]? = some ops[q] := List.getElem?_eq_getElem hq
      have e2 : ops'[q]? = some (ops'[q]'(hl ▸ hq)) := List.getElem?_eq_getElem (hl ▸ hq)
      rw [e1, e2] at this ⊢
      simpa using this
    · rw [List.getElem?_eq_none (Nat.le_of_not_lt hq), List.getElem?_eq_none (hl ▸ Nat.le_of_not_lt hq)]
  subst this
  rfl

end FastOps

/-! ### reads of the canonical container -/

theorem getNode_canon (nv : Nat) (nb : Option Nat) (s : Slots) (q : Nat) :
    (canon nv nb s).getNode q = (slotAt s q).map (canonNode s q) := by
  unfold canon FastOps.getNode
  simp only [List.getElem?_map]
  by_cases hq : q < s.length
  · rw [List.getElem?_range hq]; rfl
  · rw [List.getElem?_eq_none (by simpa using Nat.le_of_not_lt hq)]
    rw [slotAt_eq_none_of_le (Nat.le_of_not_lt hq)]; rfl

@[simp] theorem length_canon (nv : Nat) (nb : Option Nat) (s : Slots) : (canon nv nb s).ops.length = s.length := by
  simp [canon]

theorem abs_canon (nv : Nat) (nb : Option Nat) (s : Slots) : (canon nv nb s).abs = s := by
  apply List.ext_getElem?
  intro q
  simp only [FastOps.abs, canon, List.getElem?_map]
  by_cases hq : q < s.length
  · rw [List.getElem?_range hq]
    simp only [Option.map_some, slotAt, List.getElem?_eq_getElem hq, Option.join_some]
    cases s[q] <;> rfl
  · rw [List.getElem?_eq_none (by simpa using Nat.le_of_not_lt hq),
      List.getElem?_eq_none (Nat.le_of_not_lt hq)]; rfl

theorem slotAt_abs (c : FastOps) (q : Nat) : slotAt c.abs q = c.getPth q := by
  simp only [slotAt, FastOps.abs, FastOps.getPth, FastOps.getNode, List.getElem?_map]
  cases c.ops[q]? with
  | none => rfl
  | some o => cases o <;> rfl

theorem modify_range_map {α : Type} (k b : Nat) (f : Nat → α) (g : α → α) :
    ((List.range k).map f).modify b g = (List.range k).map (fun i => if i = b then g (f i) else f i) := by
  apply List.ext_getElem?
  intro i
  rw [List.getElem?_modify]
  simp only [List.getElem?_map]
  by_cases hi : i < k
  · rw [List.getElem?_range hi]
    by_cases hb : b = i
    · subst hb; simp
    · have : ¬ i = b := fun e => hb e.symm
      simp [hb, this]
  · rw [List.getElem?_eq_none (by simpa using Nat.le_of_not_lt hi)]; rfl

end Qmc
