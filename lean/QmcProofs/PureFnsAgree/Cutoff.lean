/-
Agreement of the hand-written models with the definitions TRANSLATED FROM THE RUST SOURCE (`QmcModel/Generated/PureFns.lean`,
tools/translate_pure.py) — group `Cutoff`: the cutoff growth rule at its three sites.
One module per group, so that a translated function that stops agreeing takes down only its own group; `checks/pure_fns.py`
builds and audits, for each check, only the groups relevant to that check's property. See design_notes/Translator.md.
-/
import QmcModel.Generated.PureFns
import QmcProofs.PureFnsAgree.Prelude
import QmcModel.Cutoff

namespace Qmc.PureFnsAgree

open Qmc

theorem cutoff_rule_single_diagonal_step_agree : nextCutoff = Gen.cutoff_rule_single_diagonal_step := rfl

theorem cutoff_rule_timestep_agree : nextCutoff = Gen.cutoff_rule_timestep := rfl

theorem cutoff_rule_diagonal_update_agree : nextCutoff = Gen.cutoff_rule_diagonal_update := rfl

end Qmc.PureFnsAgree
