/-
Agreement of the hand-written models with the definitions TRANSLATED FROM THE RUST SOURCE (`QmcModel/Generated/PureFns.lean`,
tools/translate_pure.py) — group `Size`: `get_mat_var_size`.
One module per group, so that a translated function that stops agreeing takes down only its own group; `checks/pure_fns.py`
builds and audits, for each check, only the groups relevant to that check's property. See design_notes/Translator.md.
-/
import QmcModel.Generated.PureFns
import QmcProofs.PureFnsAgree.Prelude
import QmcModel.Interaction
import Mathlib.Tactic.NormNum

namespace Qmc.PureFnsAgree

open Qmc

theorem mat_var_size_rule_agree (len : Nat) :
    getMatVarSize len = (getPowerOfTwo len).bind Gen.mat_var_size_rule := by
  unfold getMatVarSize Gen.mat_var_size_rule
  cases getPowerOfTwo len with
  | none => rfl
  | some i => simp [Nat.shiftRight_eq_div_pow]

end Qmc.PureFnsAgree
