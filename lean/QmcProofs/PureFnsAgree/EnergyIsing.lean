/-
Agreement of the hand-written models with the definitions TRANSLATED FROM THE RUST SOURCE (`QmcModel/Generated/PureFns.lean`,
tools/translate_pure.py) — group `EnergyIsing`: `QmcIsingGraph::get_energy_for_average_n`.
One module per group, so that a translated function that stops agreeing takes down only its own group; `checks/pure_fns.py`
builds and audits, for each check, only the groups relevant to that check's property. See design_notes/Translator.md.
-/
import QmcModel.Generated.PureFns
import QmcProofs.PureFnsAgree.Prelude
import QmcModel.Convert
import QmcModel.Stepper

namespace Qmc.PureFnsAgree

open Qmc

/-- Convert.lean `IsingSampler.energy` -/
theorem get_energy_for_average_n_ising_agree (g : IsingSampler) (avgN beta : Rat) :
    g.energy avgN beta = Gen.get_energy_for_average_n_ising g.model.offset avgN beta := rfl

/-- Stepper.lean `energyForAvgN` (one definition for both samplers): the Ising sampler's function -/
theorem get_energy_for_average_n_agree_stepper (β off avg : Rat) :
    energyForAvgN β off avg = Gen.get_energy_for_average_n_ising off avg β := rfl

end Qmc.PureFnsAgree
