/-
Agreement of the hand-written models with the definitions TRANSLATED FROM THE RUST SOURCE (`QmcModel/Generated/PureFns.lean`,
tools/translate_pure.py) — group `ClusterIsing`: the Ising sampler's cluster closures and call sites: cluster weight (frozen predicate), flip probabilities; QmcModel/Cluster.lean's Ising Hamiltonian.
One module per group, so that a translated function that stops agreeing takes down only its own group; `checks/pure_fns.py`
builds and audits, for each check, only the groups relevant to that check's property. See design_notes/Translator.md.
-/
import QmcModel.Generated.PureFns
import QmcProofs.PureFnsAgree.Prelude
import QmcModel.Cluster
import QmcModel.SamplerCore
import Mathlib.Tactic.NormNum

namespace Qmc.PureFnsAgree

open Qmc

/-- the cluster-weight / ising-ratio closure: 0 on the longitudinal-field bonds, 1 elsewhere -/
theorem cluster_weight_timestep_agree (bond nedges nvars : Nat) :
    Gen.cluster_weight_timestep bond nedges nvars = if nedges + nvars ≤ bond then 0 else 1 := by
  unfold Gen.cluster_weight_timestep
  by_cases h : nedges + nvars ≤ bond <;> simp [h]

/-- the copy in `single_cluster_step` -/
theorem cluster_weight_single_cluster_step_agree (bond nedges nvars : Nat) :
    Gen.cluster_weight_single_cluster_step bond nedges nvars = if nedges + nvars ≤ bond then 0 else 1 := by
  unfold Gen.cluster_weight_single_cluster_step
  by_cases h : nedges + nvars ≤ bond <;> simp [h]

/-- SamplerCore.lean `IsingSampler.frozenBond` ("the closure returns 0.0 on bond b"), field on -/
theorem cluster_weight_agree_samplerCore (s : Sampler.IsingSampler) (hh : s.spec.h ≠ 0) (b : Nat) :
    s.frozenBond b = decide (Gen.cluster_weight_timestep b s.spec.nedges s.spec.nvars = 0) := by
  rw [cluster_weight_timestep_agree]
  unfold Sampler.IsingSampler.frozenBond
  by_cases h : s.spec.nedges + s.spec.nvars ≤ b <;> simp [hh, h]

/-- every cluster update of the Ising sampler flips with probability 1/2 -/
theorem cluster_flip_prob_agree :
    Gen.cluster_flip_prob_single_cluster_step_field = 1 / 2 ∧ Gen.cluster_flip_prob_single_cluster_step_sym = 1 / 2 ∧
    Gen.cluster_flip_prob_timestep_field = 1 / 2 ∧ Gen.cluster_flip_prob_timestep_sym = 1 / 2 := ⟨rfl, rfl, rfl, rfl⟩

/-- SamplerCore.lean `isingTimestepWith` with the translated flip probability in place (both `timestep` call sites are 1/2: `cluster_flip_prob_agree`) -/
theorem cluster_flip_prob_agree_isingTimestep (CK : Sampler.ClusterK) (s : Sampler.IsingSampler) (β : Rat) (rs : RS) :
    Sampler.isingTimestepWith CK s β rs =
      (let H := s.spec.ham
       let d := Sampler.diagUpdate H s.table β s.cutoff s.cfg rs
       let m := CK Gen.cluster_flip_prob_timestep_field s.frozenBond d.1 d.2
       let r := Sampler.freeRefresh m.1 m.2
       ({ s with state := r.1.state, slots := r.1.slots,
                 cutoff := nextCutoff s.cutoff (countOps r.1.slots) }, r.2)) := rfl

end Qmc.PureFnsAgree

namespace Qmc.PureFnsAgreeCluster

open Qmc

/-- Cluster.lean `isingFrozen` (the frozen predicate of C09 / the kernel-invariance proofs) = "the translated
cluster-weight closure returns 0.0 on this operator's bond" -/
theorem isingFrozen_agree (nedges nvars : Nat) (o : SkOp) :
    isingFrozen nedges nvars o = decide (Gen.cluster_weight_timestep o.bond nedges nvars = 0) := by
  unfold isingFrozen Gen.cluster_weight_timestep
  by_cases h : nedges + nvars ≤ o.bond <;> simp [h]

/-- … and for the copy in `single_cluster_step` -/
theorem isingFrozen_agree_single_cluster_step (nedges nvars : Nat) (o : SkOp) :
    isingFrozen nedges nvars o = decide (Gen.cluster_weight_single_cluster_step o.bond nedges nvars = 0) :=
  isingFrozen_agree nedges nvars o

/-- Cluster.lean `twoSiteW` -/
theorem twoSiteW_agree (J : Rat) (a b c d : Bool) :
    twoSiteW J [a, b] [c, d] = Gen.two_site_hamiltonian (a, b) (c, d) J := by
  cases a <;> cases b <;> cases c <;> cases d <;> simp [twoSiteW, Gen.two_site_hamiltonian, fabs_agree]

/-- Cluster.lean `transverseW` -/
theorem transverseW_agree (g : Rat) (i o : Bool) :
    transverseW g [i] [o] = Gen.transverse_hamiltonian i o g := rfl

/-- Cluster.lean `longitudinalW`: agrees with the source on EVERY entry (`0` off the diagonal since 9464564) -/
theorem longitudinalW_agree (h : Rat) (i o : Bool) :
    longitudinalW h [i] [o] = Gen.longitudinal_hamiltonian i o h := by
  cases i <;> cases o <;> simp [longitudinalW, Gen.longitudinal_hamiltonian, fabs_agree, Rat.sub_eq_add_neg]

/-- Cluster.lean `isingClusterHam`: variables and constant flag of a bond are the translated `bonds_fn` -/
theorem bonds_fn_agree_isingClusterHam (edges : List (List Nat × Rat)) (g h : Rat) (nvars b : Nat)
    :
    (isingClusterHam edges g h nvars).vars b =
        (if (Gen.bonds_fn_timestep b edges.length nvars).1.1
         then [(Gen.bonds_fn_timestep b edges.length nvars).2]
         else (edges[(Gen.bonds_fn_timestep b edges.length nvars).2]?.map (·.1)).getD []) ∧
      (isingClusterHam edges g h nvars).const b = (Gen.bonds_fn_timestep b edges.length nvars).1.2 := by
  unfold isingClusterHam Gen.bonds_fn_timestep
  by_cases h1 : b < edges.length
  · simp [h1]
    try omega
  · by_cases h2 : b < edges.length + nvars
    · simp [h1, h2]
      try omega
    · simp [h1, h2]
      try omega

end Qmc.PureFnsAgreeCluster
