/-
Agreement of the hand-written models with the definitions TRANSLATED FROM THE RUST SOURCE (`QmcModel/Generated/PureFns.lean`,
tools/translate_pure.py) — group `RefreshGeneric`: free-spin refresh probability of `Qmc::flip_free_bits`.
One module per group, so that a translated function that stops agreeing takes down only its own group; `checks/pure_fns.py`
builds and audits, for each check, only the groups relevant to that check's property. See design_notes/Translator.md.
-/
import QmcModel.Generated.PureFns
import QmcProofs.PureFnsAgree.Prelude
import QmcModel.Generic

namespace Qmc.PureFnsAgree

open Qmc

/-- `Qmc::flip_free_bits` draws with probability 1/2 -/
theorem free_refresh_prob_flip_free_bits_agree : Gen.free_refresh_prob_flip_free_bits = 1 / 2 := rfl

/-- Generic.lean `flipFreeBitsFrom` -/
theorem free_refresh_prob_agree_generic (slots : Slots) (fuel v : Nat) (st : List Bool) (rs : RS) :
    flipFreeBitsFrom slots (fuel + 1) v st rs =
      (if varHasOps slots v then flipFreeBitsFrom slots fuel (v + 1) st rs
       else
        (let (b, rs) := rs.genBool Gen.free_refresh_prob_flip_free_bits
         flipFreeBitsFrom slots fuel (v + 1) (st.set v b) rs)) := by
  rw [flipFreeBitsFrom]
  rfl

end Qmc.PureFnsAgree
