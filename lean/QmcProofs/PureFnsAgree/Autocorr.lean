/-
Agreement of the hand-written models with the definitions TRANSLATED FROM THE RUST SOURCE (`QmcModel/Generated/PureFns.lean`,
tools/translate_pure.py) — group `Autocorr`: the arithmetic of `fft_autocorrelation` around the FFT calls (column mean,
centring, division by the Euclidean norm, the final division by `n · tmax`) and the two spin-value closures
(src/sse/autocorrelations.rs) against `QmcModel/Autocorr.lean`.
One module per group, so that a translated function that stops agreeing takes down only its own group; `checks/pure_fns.py`
builds and audits, for each check, only the groups relevant to that check's property. See design_notes/Translator.md.
-/
import QmcModel.Generated.PureFns
import QmcProofs.PureFnsAgree.Prelude
import QmcModel.Autocorr
import Mathlib.Algebra.Order.Field.Rat
import Mathlib.Tactic.NormNum

namespace Qmc.PureFnsAgree

open Qmc

/-- Autocorr.lean `mean` (the number of observables does not enter) -/
theorem autocorr_mean_agree (xs : List Rat) (n : Nat) : mean xs = Gen.autocorr_mean xs.sum xs.length n := rfl

/-- Autocorr.lean `center` -/
theorem autocorr_center_agree (xs : List Rat) : center xs = xs.map fun x => Gen.autocorr_center x (mean xs) := rfl

/-- the model divides products of centred entries by `Σ y²` where the code divides every entry by
`norm = sqrt(Σ y²)` first: the same number whenever `sqrt` squares back to `Σ y²` AT THAT ARGUMENT (real `sqrt` does;
over `Rat` no function does so at every argument, hence the pointwise hypothesis; f64 rounding of `sqrt` is not modelled) -/
theorem autocorr_norm_agree (sqrt : Rat → Rat) (a b ss : Rat) (hs : sqrt ss * sqrt ss = ss) :
    (a / Gen.autocorr_norm sqrt ss) * (b / Gen.autocorr_norm sqrt ss) = a * b / ss := by
  unfold Gen.autocorr_norm
  rw [div_mul_div_comm, hs]

/-- the hypothesis is satisfiable: `Σ y² = 4`, `sqrt 4 = 2` -/
example : (3 / Gen.autocorr_norm (fun _ => 2) 4) * (5 / Gen.autocorr_norm (fun _ => 2) 4) = 3 * 5 / (4 : Rat) :=
  autocorr_norm_agree (fun _ => 2) 3 5 4 (by norm_num)

theorem dot_div (c : Rat) : ∀ a b : List Rat, dot (a.map (· / c)) (b.map (· / c)) = dot a b / (c * c)
  | [], _ => by simp [dot]
  | _ :: _, [] => by simp [dot]
  | x :: a, y :: b => by
    have ih := dot_div c a b
    simp only [dot, List.map_cons, List.zipWith_cons_cons, List.sum_cons] at ih ⊢
    rw [ih, div_mul_div_comm, add_div]

theorem rot_map (f : Rat → Rat) (y : List Rat) (t : Nat) : rot (y.map f) t = (rot y t).map f := by
  simp [rot, List.map_drop, List.map_take]

/-- Autocorr.lean `colAutocorr` (products of centred entries over `Σ y²`, no square root) is the circular product sum of
the column the code builds: centred, every entry divided by the translated `norm` — for any `sqrt` that squares back to
`Σ y²` at that argument -/
theorem autocorr_norm_agree_colAutocorr (sqrt : Rat → Rat) (xs : List Rat) (t : Nat)
    (hs : sqrt (dot (center xs) (center xs)) * sqrt (dot (center xs) (center xs)) = dot (center xs) (center xs)) :
    colAutocorr xs t =
      dot ((center xs).map (· / Gen.autocorr_norm sqrt (dot (center xs) (center xs))))
          (rot ((center xs).map (· / Gen.autocorr_norm sqrt (dot (center xs) (center xs)))) t) := by
  rw [rot_map, dot_div]
  unfold Gen.autocorr_norm colAutocorr
  rw [hs]

/-- satisfiable on a non-constant column: `[3, -3, 3, -3]` has mean 0 and `Σ y² = 36 = 6²` -/
example : colAutocorr [3, -3, 3, -3] 1 =
    dot ((center [3, -3, 3, -3]).map (· / Gen.autocorr_norm (fun _ => 6) (dot (center [3, -3, 3, -3]) (center [3, -3, 3, -3]))))
        (rot ((center [3, -3, 3, -3]).map (· / Gen.autocorr_norm (fun _ => 6) (dot (center [3, -3, 3, -3]) (center [3, -3, 3, -3])))) 1) :=
  autocorr_norm_agree_colAutocorr (fun _ => 6) [3, -3, 3, -3] 1 (by norm_num [dot, center, mean])

/-- the final division: the unnormalised inverse FFT returns `tmax ·` (circular product sum) per column, so the code's
`lag_sum / (n · tmax)` is the model's average over the `n` observables (Autocorr.lean `autocorr`: `(Σ_i colAutocorr) / n`) -/
theorem autocorr_final_agree (s : Rat) (n T : Nat) (hT : T ≠ 0) :
    Gen.autocorr_final ((T : Rat) * s) n T = s / (n : Rat) := by
  unfold Gen.autocorr_final
  have hT' : (T : Rat) ≠ 0 := by exact_mod_cast hT
  rw [Nat.cast_mul, mul_comm (n : Rat) (T : Rat), mul_div_mul_left _ _ hT']

/-- … as an equation about `autocorr` itself -/
theorem autocorr_final_agree_autocorr (samples : List (List Rat)) (hT : samples.length ≠ 0) :
    autocorr samples =
      (List.range samples.length).map fun t =>
        Gen.autocorr_final
          ((samples.length : Rat) * ((List.range (nObs samples)).map fun i => colAutocorr (column samples i) t).sum)
          (nObs samples) samples.length := by
  unfold autocorr
  apply List.map_congr_left
  intro t _
  rw [autocorr_final_agree _ _ _ hT]

/-- Autocorr.lean `spinVal` is the closure of `calculate_variable_autocorrelation` … -/
theorem autocorr_spin_value_agree : spinVal = Gen.autocorr_spin_value_calculate_variable_autocorrelation := rfl

/-- … and of `calculate_spin_product_autocorrelation` -/
theorem autocorr_spin_value_product_agree :
    spinVal = Gen.autocorr_spin_value_calculate_spin_product_autocorrelation := rfl

/-- Autocorr.lean `varMapper` / `prodMapper` over the translated closures -/
theorem autocorr_mappers_agree (prods : List (List Nat)) (state : List Bool) :
    varMapper state = state.map Gen.autocorr_spin_value_calculate_variable_autocorrelation ∧
    prodMapper prods state =
      prods.map fun vs =>
        (vs.map fun v => Gen.autocorr_spin_value_calculate_spin_product_autocorrelation (state.getD v false)).foldl (· * ·) 1 :=
  ⟨rfl, rfl⟩

end Qmc.PureFnsAgree
