/-
Agreement of the hand-written models with the definitions TRANSLATED FROM THE RUST SOURCE (`QmcModel/Generated/PureFns.lean`,
tools/translate_pure.py) — group `HeatBath`: the heat-bath gates of `heat_bath_single_diagonal_update`.
One module per group, so that a translated function that stops agreeing takes down only its own group; `checks/pure_fns.py`
builds and audits, for each check, only the groups relevant to that check's property. See design_notes/Translator.md.
-/
import QmcModel.Generated.PureFns
import QmcProofs.PureFnsAgree.Prelude
import QmcModel.HeatBath
import Mathlib.Tactic.NormNum

namespace Qmc.PureFnsAgree

open Qmc

theorem hb_remove_prob_agree (β W : Rat) (L n : Nat) :
    pRemoveHB β W L n =
      Gen.hb_remove_gate (Gen.hb_remove_numerator L n)
        (Gen.hb_remove_denominator (Gen.hb_remove_numerator L n) β W) := rfl

theorem hb_insert_prob_agree (β W mw w : Rat) (L n : Nat) :
    pInsertHB β W mw w L n =
      Gen.hb_insert_gate (Gen.hb_insert_numerator β W)
        (Gen.hb_insert_denominator L n (Gen.hb_insert_numerator β W)) * (mw / W) * (w / mw) := rfl

/-- the model's heat-bath slot visit on an empty slot with the translated gate and rejection test -/
theorem heatBathSlot_none_agree (H : Ham) (bw : BW) (β : Rat) (cutoff : Nat) (st : List Bool) (n : Nat) (rs : RS) :
    heatBathSlot H bw β cutoff none st n rs =
      (match bwTotal bw with
       | none => SlotRes.panic none st n rs
       | some W =>
         if cutoff < n then SlotRes.panic none st n rs else
         let num : Rat := Gen.hb_insert_numerator β W
         let den : Rat := Gen.hb_insert_denominator cutoff n num
         if den = 0 then SlotRes.panic none st n rs else
         let (go, rs1) := rs.genBool (Gen.hb_insert_gate num den)
         if !go then ⟨none, st, n, rs1⟩ else
         let (u, rs2) := rs1.genRangeF 1
         let (x, rs3) := rs2.genRangeF W
         let b := indexForCumulative (cumul bw) x
         let rs3 := rs3.noteMargin (cumMargin (cumul bw) x)
         let maxw := bw.getD b 0
         let vars := H.vars b
         if bw.length ≤ b ∨ varsInRange st vars = false then SlotRes.panic none st n rs3 else
         let sub := readVars st vars
         let w := H.w b sub sub
         let rs4 := rs3.noteMargin (u * maxw - w)
         if Gen.hb_insert_test u maxw w then ⟨some (Op.diagonal vars b sub (H.const b)), st, n + 1, rs4⟩
         else ⟨none, st, n, rs4⟩) := by
  simp only [heatBathSlot, Gen.hb_insert_test, decide_eq_true_eq]
  rfl

/-- … and on a diagonal operator with the translated removal gate -/
theorem heatBathSlot_diag_agree (H : Ham) (bw : BW) (β : Rat) (cutoff : Nat) (op : Op) (st : List Bool) (n : Nat)
    (rs : RS) (hd : op.tagDiag = true) :
    heatBathSlot H bw β cutoff (some op) st n rs =
      (match bwTotal bw with
       | none => SlotRes.panic (some op) st n rs
       | some W =>
         if cutoff < n then SlotRes.panic (some op) st n rs else
         let num : Rat := Gen.hb_remove_numerator cutoff n
         let den : Rat := Gen.hb_remove_denominator num β W
         if den = 0 then SlotRes.panic (some op) st n rs else
         let (rm, rs') := rs.genBool (Gen.hb_remove_gate num den)
         if rm then ⟨none, st, n - 1, rs'⟩ else ⟨some op, st, n, rs'⟩) := by
  simp only [heatBathSlot, hd, if_true]
  rfl

end Qmc.PureFnsAgree
