/-
Agreement of the hand-written models with the definitions TRANSLATED FROM THE RUST SOURCE (`QmcModel/Generated/PureFns.lean`,
tools/translate_pure.py) — group `Convert`: the matrices `into_qmc` hands to the generic sampler.
One module per group, so that a translated function that stops agreeing takes down only its own group; `checks/pure_fns.py`
builds and audits, for each check, only the groups relevant to that check's property. See design_notes/Translator.md.
-/
import QmcModel.Generated.PureFns
import QmcProofs.PureFnsAgree.Prelude
import QmcModel.Convert

namespace Qmc.PureFnsAgree

open Qmc

theorem into_qmc_edge_matrix_agree : edgeMat = Gen.into_qmc_edge_matrix := rfl

theorem into_qmc_transverse_matrix_agree : transverseMat = Gen.into_qmc_transverse_matrix := rfl

theorem into_qmc_field_matrix_agree : fieldMat = Gen.into_qmc_field_matrix := rfl

end Qmc.PureFnsAgree
