/-
Agreement of the hand-written models with the definitions TRANSLATED FROM THE RUST SOURCE (`QmcModel/Generated/PureFns.lean`,
tools/translate_pure.py) — group `Rvb`: Rvb.lean's copies of the matrix elements, the ising-ratio and edge-weight closures, `steps_to_run`, and the copies of `num_bonds` / `bonds_fn` / `h` inside `single_rvb_sweep`.
One module per group, so that a translated function that stops agreeing takes down only its own group; `checks/pure_fns.py`
builds and audits, for each check, only the groups relevant to that check's property. See design_notes/Translator.md.
-/
import QmcModel.Generated.PureFns
import QmcProofs.PureFnsAgree.Prelude
import QmcModel.Rvb
import QmcModel.RvbRegion
import QmcModel.Ham
import Mathlib.Tactic.NormNum
import Mathlib.Tactic.Linarith

namespace Qmc.PureFnsAgree

open Qmc

/-- Rvb.lean `twoSite` (diagonal element only: `ins = outs = (a, b)`) -/
theorem two_site_hamiltonian_agree_rvb (a b : Bool) (j : Rat) :
    Rvb.twoSite j a b = Gen.two_site_hamiltonian (a, b) (a, b) j := by
  cases a <;> cases b <;> simp [Rvb.twoSite, Gen.two_site_hamiltonian, fabs_agree_rvb]

/-- Rvb.lean `longitudinal` -/
theorem longitudinal_hamiltonian_agree_rvb (h : Rat) (i o : Bool) :
    Rvb.longitudinal h i o = Gen.longitudinal_hamiltonian i o h := by
  cases i <;> cases o <;> simp [Rvb.longitudinal, Gen.longitudinal_hamiltonian, fabs_agree_rvb, Rat.sub_eq_add_neg]

theorem num_bonds_single_rvb_sweep_agree (m : IsingModel) :
    m.numBonds = Gen.num_bonds_single_rvb_sweep m.edges.length m.nvars m.longitudinal := rfl

/-- the `bonds_fn` copy inside `single_rvb_sweep` (model tie: `bondsFnRef_agree`) -/
theorem bonds_fn_single_rvb_sweep_agree : Gen.bonds_fn_single_rvb_sweep = bondsFnRef := by
  funext b e n
  simp [Gen.bonds_fn_single_rvb_sweep, bondsFnRef]

/-- the `h` closure copy inside `single_rvb_sweep` just forwards to `Self::hamiltonian(&hinfo, …)` -/
theorem h_closure_single_rvb_sweep_agree : @Gen.h_closure_single_rvb_sweep = fun f => f := rfl

/-- the ising-ratio closure of `timestep`: 0 on the longitudinal-field bonds, 1 elsewhere -/
theorem ising_ratio_timestep_agree (bond nedges nvars : Nat) :
    Gen.ising_ratio_timestep bond nedges nvars = if nedges + nvars ≤ bond then 0 else 1 := by
  unfold Gen.ising_ratio_timestep
  by_cases h : nedges + nvars ≤ bond <;> simp [h]

/-- the ising-ratio closure of `single_rvb_sweep`: 0 on the longitudinal-field bonds, 1 elsewhere -/
theorem ising_ratio_single_rvb_sweep_agree (bond nedges nvars : Nat) :
    Gen.ising_ratio_single_rvb_sweep bond nedges nvars = if nedges + nvars ≤ bond then 0 else 1 := by
  unfold Gen.ising_ratio_single_rvb_sweep
  by_cases h : nedges + nvars ≤ bond <;> simp [h]

/-- Rvb.lean derives the ratio of an operator inside the flipped region from the matrix elements; on a legal
operator (positive weight) it is the translated `ising_ratio` closure — two-site bond -/
theorem ising_ratio_agree_rvb_edge (E : Rvb.Ising) (bond : Nat) (a b : Bool) (hb : bond < E.edges.length)
    (hpos : 0 < E.w bond [a, b] [a, b]) :
    E.w bond [!a, !b] [!a, !b] / E.w bond [a, b] [a, b] =
      Gen.ising_ratio_timestep bond E.edges.length E.nvars := by
  have hne : ¬ (E.edges.length + E.nvars ≤ bond) := by omega
  have hflip : E.w bond [!a, !b] [!a, !b] = E.w bond [a, b] [a, b] := by
    cases a <;> cases b <;> simp [Rvb.Ising.w, hb, Rvb.twoSite]
  rw [ising_ratio_timestep_agree, hflip, if_neg hne]
  exact div_self (ne_of_gt hpos)

/-- … transverse bond -/
theorem ising_ratio_agree_rvb_transverse (E : Rvb.Ising) (bond : Nat) (i : Bool) (h1 : E.edges.length ≤ bond)
    (h2 : bond < E.edges.length + E.nvars) (hpos : 0 < E.w bond [i] [i]) :
    E.w bond [!i] [!i] / E.w bond [i] [i] = Gen.ising_ratio_timestep bond E.edges.length E.nvars := by
  have hne : ¬ (E.edges.length + E.nvars ≤ bond) := by omega
  have hlt : ¬ (bond < E.edges.length) := by omega
  have hflip : E.w bond [!i] [!i] = E.w bond [i] [i] := by simp [Rvb.Ising.w, hlt, h2]
  rw [ising_ratio_timestep_agree, hflip, if_neg hne]
  exact div_self (ne_of_gt hpos)

/-- … longitudinal bond: the flipped operator has weight 0 -/
theorem ising_ratio_agree_rvb_field (E : Rvb.Ising) (bond : Nat) (i : Bool)
    (h2 : E.edges.length + E.nvars ≤ bond) (hpos : 0 < E.w bond [i] [i]) :
    E.w bond [!i] [!i] / E.w bond [i] [i] = Gen.ising_ratio_timestep bond E.edges.length E.nvars := by
  have h1 : ¬ (bond < E.edges.length) := by omega
  have h3 : ¬ (bond < E.edges.length + E.nvars) := by omega
  have hflip : E.w bond [!i] [!i] = 0 := by
    cases i <;> simp [Rvb.Ising.w, h1, h3, Rvb.longitudinal, Rvb.absR] at hpos ⊢ <;> split_ifs at hpos ⊢ <;> linarith
  rw [ising_ratio_timestep_agree, hflip, if_pos h2]
  simp

/-- the RVB diagonal edge weight closure, instantiated with the model's Hamiltonian and edge list, is Rvb.lean's
`twoSite` of that edge -/
theorem rvb_edge_weight_agree_rvb (E : Rvb.Ising) (b u v : Nat) (j : Rat) (sa sb : Bool)
    (he : E.edges[b]? = some (u, v, j)) :
    Gen.rvb_edge_weight_timestep_field
        (fun b => ((E.edges.getD b (0, 0, 0)).1, (E.edges.getD b (0, 0, 0)).2.1))
        (fun _ b i o => E.w b i o) b sa sb = Rvb.twoSite j sa sb := by
  have hb : b < E.edges.length := by
    rcases Nat.lt_or_ge b E.edges.length with h | h
    · exact h
    · rw [List.getElem?_eq_none h] at he
      cases he
  have hg : E.edges[b] = (u, v, j) := by
    have := List.getElem?_eq_getElem hb
    rw [this] at he
    exact Option.some.inj he
  simp [Gen.rvb_edge_weight_timestep_field, Rvb.Ising.w, hb, hg]

theorem rvb_edge_weight_timestep_nofield_agree :
    @Gen.rvb_edge_weight_timestep_nofield = @Gen.rvb_edge_weight_timestep_field := rfl

theorem rvb_edge_weight_single_rvb_sweep_field_agree :
    @Gen.rvb_edge_weight_single_rvb_sweep_field = @Gen.rvb_edge_weight_timestep_field := rfl

theorem rvb_edge_weight_single_rvb_sweep_nofield_agree :
    @Gen.rvb_edge_weight_single_rvb_sweep_nofield = @Gen.rvb_edge_weight_timestep_field := rfl

/-- `steps_to_run` (no hand model computes it: the RVB models take the number of proposals as an input) -/
theorem steps_to_run_timestep_agree (n : Nat) : Gen.steps_to_run_timestep n = (n + 1) / 2 := rfl

theorem steps_to_run_single_rvb_sweep_agree : Gen.steps_to_run_single_rvb_sweep = Gen.steps_to_run_timestep := rfl

/-! ### rvb.rs arithmetic: `calculate_mult`, the accept decision, the early exits, the boundary manager -/

/-- Rvb.lean `calculateMult` (the two running totals, the number of rotatable operators) is the translated
`calculate_mult` -/
theorem rvb_calculate_mult_agree (wb wa : Rat) (n : Nat) :
    Rvb.calculateMult wb wa n = Gen.rvb_calculate_mult wb wa n := by
  unfold Rvb.calculateMult Gen.rvb_calculate_mult
  by_cases h0 : n = 0
  · simp [h0]
  · by_cases hc : Rvb.absR (wb - wa) < Rvb.f64eps
    · have hc' : Gen.fabs (wb - wa) < Gen.EPSILON := hc
      simp [h0, hc, hc']
    · have hc' : ¬ Gen.fabs (wb - wa) < Gen.EPSILON := hc
      simp [h0, hc, hc', Gen.powi]

/-- the accept decision draws nothing for `p ≥ 1`, otherwise exactly `gen_bool(p)` -/
theorem rvb_should_mutate_draws_agree (p : Rat) :
    Gen.rvb_should_mutate_draws p = if 1 ≤ p then [] else [p] := by
  unfold Gen.rvb_should_mutate_draws
  by_cases h : 1 ≤ p <;> simp [h]

/-- value of the accept decision: `true` without a draw for `p ≥ 1`, else the outcome of the draw -/
theorem rvb_should_mutate_agree (gb : Rat → Bool) (p : Rat) :
    Gen.rvb_should_mutate gb p = if 1 ≤ p then true else gb p := by
  unfold Gen.rvb_should_mutate
  by_cases h : 1 ≤ p <;> simp [h]

/-- Rvb.lean `acceptProb` = `min 1 rawMult` is the probability the translated decision realises: 1 when nothing
is drawn (and the answer is `true`), else the argument of the single `gen_bool` -/
theorem rvb_accept_prob_agree (P : Rvb.Problem) (ks : List Nat) :
    Rvb.acceptProb P ks =
      (match Gen.rvb_should_mutate_draws (Rvb.rawMult P ks) with
       | [] => if Gen.rvb_should_mutate (fun _ => false) (Rvb.rawMult P ks) then 1 else 0
       | q :: _ => q) := by
  rw [rvb_should_mutate_draws_agree, rvb_should_mutate_agree]
  unfold Rvb.acceptProb Rvb.minR
  by_cases h : 1 ≤ Rvb.rawMult P ks <;> simp [h]

/-- both early exits of `calculate_flip_prob` test `mult < f64::EPSILON` and leave `mult = 0` -/
theorem rvb_mult_early_exit_1_agree (m : Rat) :
    Gen.rvb_mult_early_exit_1 m = if m < Rvb.f64eps then some 0 else none := by
  unfold Gen.rvb_mult_early_exit_1
  have : Gen.EPSILON = Rvb.f64eps := rfl
  by_cases h : m < Rvb.f64eps <;> simp [h, this]

theorem rvb_mult_early_exit_2_agree : Gen.rvb_mult_early_exit_2 = Gen.rvb_mult_early_exit_1 := rfl

/-- the condition Rvb.lean's `Sweep.stepOp` tests on the running product (`s.mult < f64eps`) is the translated early-exit condition -/
theorem rvb_mult_early_exit_agree_sweep (m : Rat) :
    (Gen.rvb_mult_early_exit_1 m).isSome = decide (m < Rvb.f64eps) := by
  rw [rvb_mult_early_exit_1_agree]
  by_cases h : m < Rvb.f64eps <;> simp [h]

/-- RvbRegion.lean `WBM.popIndex`: a zero translated total is the modelled panic (`0/0 = NaN` handed to `gen_bool`) -/
theorem rvb_pop_index_agree_zero (w : Rvb.WBM) (s : RS)
    (h : Gen.rvb_pop_total_weight w.flips.total w.noflips.total = 0) :
    w.popIndex s = (none, { s with panicked := true }) := by
  have h' : w.flips.total + w.noflips.total = 0 := h
  unfold Rvb.WBM.popIndex
  simp [h']

/-- … otherwise its first draw is `gen_bool` of the translated `f_ratio` of the translated total: when that draw
panics or exhausts the script, `popIndex` stops right there with that RNG state -/
theorem rvb_pop_index_agree_gate (w : Rvb.WBM) (s : RS)
    (h : Gen.rvb_pop_total_weight w.flips.total w.noflips.total ≠ 0)
    (hp : ((s.genBool (Gen.rvb_pop_f_ratio w.flips.total w.noflips.total
            (Gen.rvb_pop_total_weight w.flips.total w.noflips.total))).2.panicked ||
           (s.genBool (Gen.rvb_pop_f_ratio w.flips.total w.noflips.total
            (Gen.rvb_pop_total_weight w.flips.total w.noflips.total))).2.short) = true) :
    w.popIndex s = (none, (s.genBool (Gen.rvb_pop_f_ratio w.flips.total w.noflips.total
            (Gen.rvb_pop_total_weight w.flips.total w.noflips.total))).2) := by
  have h' : ¬ (w.flips.total + w.noflips.total = 0) := h
  unfold Gen.rvb_pop_f_ratio Gen.rvb_pop_total_weight at hp ⊢
  unfold Rvb.WBM.popIndex
  simp only [h', if_false]
  simp [hp]

/-- … and when it answers `true` (state fine) the key comes from `boundary_flips`, else from `boundary_noflips` -/
theorem rvb_pop_index_agree_pick (w : Rvb.WBM) (s : RS)
    (h : Gen.rvb_pop_total_weight w.flips.total w.noflips.total ≠ 0)
    (hp : ((s.genBool (Gen.rvb_pop_f_ratio w.flips.total w.noflips.total
            (Gen.rvb_pop_total_weight w.flips.total w.noflips.total))).2.panicked ||
           (s.genBool (Gen.rvb_pop_f_ratio w.flips.total w.noflips.total
            (Gen.rvb_pop_total_weight w.flips.total w.noflips.total))).2.short) = false)
    (hn : w.noflips.keys = []) (hpick : (s.genBool (Gen.rvb_pop_f_ratio w.flips.total w.noflips.total
            (Gen.rvb_pop_total_weight w.flips.total w.noflips.total))).1 = false) :
    (w.popIndex s).1 = none := by
  have h' : ¬ (w.flips.total + w.noflips.total = 0) := h
  unfold Gen.rvb_pop_f_ratio Gen.rvb_pop_total_weight at hp hpick
  unfold Rvb.WBM.popIndex
  simp only [h', if_false]
  simp [hp, hpick, BC.getRandom, hn]

/-- RvbRegion.lean `WBM.pushAdjacent` stores the translated weight for a flip cell that was not popped yet -/
theorem rvb_push_adjacent_agree (w : Rvb.WBM) (var p : Nat) (weight : Rat)
    (h : (Rvb.growB w.posPopped p).getD p false = false) :
    (w.pushAdjacent var (some p) weight).flips =
      (w.flips.insert p (Gen.rvb_push_new_weight (w.flips.getWeight p) weight)).1 := by
  unfold Rvb.WBM.pushAdjacent Gen.rvb_push_new_weight
  simp only [List.getD_eq_getElem?_getD] at h
  simp [h]

/-- the hypothesis holds e.g. for the empty manager (nothing popped yet) -/
example : (({} : Rvb.WBM).pushAdjacent 3 (some 0) 1).flips =
    (BC.empty.insert 0 (Gen.rvb_push_new_weight (BC.empty.getWeight 0) 1)).1 :=
  rvb_push_adjacent_agree {} 3 0 1 (by decide)

/-- … and for a no-flip cell -/
theorem rvb_push_adjacent_agree_noflip (w : Rvb.WBM) (var : Nat) (weight : Rat)
    (h : (Rvb.growB w.noposPopped var).getD var false = false) :
    (w.pushAdjacent var none weight).noflips =
      (w.noflips.insert var (Gen.rvb_push_new_weight (w.noflips.getWeight var) weight)).1 := by
  unfold Rvb.WBM.pushAdjacent Gen.rvb_push_new_weight
  simp only [List.getD_eq_getElem?_getD] at h
  simp [h]

/-- the two weight expressions of `push_adjacent` -/
theorem rvb_push_weight_default_agree (w : Option Rat) : Gen.rvb_push_weight_default w = w.getD 1 := rfl

theorem rvb_push_new_weight_agree (old : Option Rat) (w : Rat) : Gen.rvb_push_new_weight old w = old.getD 0 + w := rfl


end Qmc.PureFnsAgree
