/-
Agreement of the hand-written models with the definitions TRANSLATED FROM THE RUST SOURCE (`QmcModel/Generated/PureFns.lean`,
tools/translate_pure.py) — group `Tempering`: Tempering.lean's copies of the matrix elements / bond count / guard, and `swap_on_chunks`.
One module per group, so that a translated function that stops agreeing takes down only its own group; `checks/pure_fns.py`
builds and audits, for each check, only the groups relevant to that check's property. See design_notes/Translator.md.
-/
import QmcModel.Generated.PureFns
import QmcProofs.PureFnsAgree.Prelude
import QmcModel.Tempering
import Mathlib.Tactic.NormNum

namespace Qmc.PureFnsAgree

open Qmc

/-- Tempering.lean `twoSite` -/
theorem two_site_hamiltonian_agree_tempering (i0 i1 o0 o1 : Bool) (j : Rat) :
    Tempering.twoSite i0 i1 o0 o1 j = Gen.two_site_hamiltonian (i0, i1) (o0, o1) j := by
  cases i0 <;> cases i1 <;> cases o0 <;> cases o1 <;>
    simp [Tempering.twoSite, Gen.two_site_hamiltonian, fabs_agree]

/-- Tempering.lean `longitudinalW`: agrees with the source on every one of the four entries, off-diagonal ones included (0 since fix
9464564; this replaces the former diagonal-only `longitudinal_hamiltonian_agree_tempering_diag`) -/
theorem longitudinal_hamiltonian_agree_tempering (i o : Bool) (h : Rat) :
    Tempering.longitudinalW i o h = Gen.longitudinal_hamiltonian i o h := by
  cases i <;> cases o <;> simp [Tempering.longitudinalW, Gen.longitudinal_hamiltonian, fabs_agree, Rat.sub_eq_add_neg]

/-- the guard as it is spelled in Tempering.lean (`if absR h > eps then …`) -/
theorem field_guard_agree_tempering (h : Rat) : (absR h > eps) ↔ Gen.field_guard h = true := by
  simp [Gen.field_guard, fabs_agree, EPSILON_agree]

/-- Tempering.lean `IsingH.numBonds` -/
theorem num_bonds_agree_tempering (H : Tempering.IsingH) :
    H.numBonds = Gen.num_bonds_timestep H.nedges H.nvars H.h := by
  simp [Tempering.IsingH.numBonds, Gen.num_bonds_timestep, fabs_agree, EPSILON_agree]

/-- Tempering.lean `swapOnChunks`: its decision is the translated function of the two relative weights, the two
operator counts, the two temperatures and the uniform draw -/
theorem swap_on_chunks_agree {H : Type} (I : Tempering.Iface H) (a b : Tempering.Replica H) (u : Rat) (evalH : Bool) :
    (Tempering.swapOnChunks I a b u evalH).2.2 =
      Gen.swap_on_chunks (I.relW a.ham b.ham a.cfg.slots) (I.relW b.ham a.ham b.cfg.slots)
        (countOps a.cfg.slots) (countOps b.cfg.slots) a.beta b.beta u evalH := by
  unfold Tempering.swapOnChunks Gen.swap_on_chunks Tempering.pSwap Tempering.relH
  rw [powi_agree]
  cases evalH <;> simp <;> split <;> simp_all

/-- the model's decision record uses the same test -/
theorem swap_on_chunks_agree_dec {H : Type} (I : Tempering.Iface H) (pos : Nat) (a b : Tempering.Replica H) (u : Rat)
    (eq : Bool) :
    (Tempering.mkDec I pos a b u eq).accepted =
      Gen.swap_on_chunks (I.relW a.ham b.ham a.cfg.slots) (I.relW b.ham a.ham b.cfg.slots)
        (countOps a.cfg.slots) (countOps b.cfg.slots) a.beta b.beta u (!eq) := by
  rw [← swap_on_chunks_agree]
  unfold Tempering.mkDec Tempering.swapOnChunks
  simp only
  split <;> simp_all

end Qmc.PureFnsAgree
