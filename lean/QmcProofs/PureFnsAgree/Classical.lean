/-
Agreement of the hand-written models with the definitions TRANSLATED FROM THE RUST SOURCE (`QmcModel/Generated/PureFns.lean`,
tools/translate_pure.py) — group `Classical`: the classical sampler `src/classical/graph.rs` (`should_flip`, the energy
differences of the spin / edge / worm moves, `get_energy`, the update counts and move choice of `do_time_step`, the cumulative
table of `enable_edge_importance_sampling`) against `QmcModel/Classical.lean`.
One module per group, so that a translated function that stops agreeing takes down only its own group; `checks/pure_fns.py`
builds and audits, for each check, only the groups relevant to that check's property. See design_notes/Translator.md.
-/
import QmcModel.Generated.PureFns
import QmcProofs.PureFnsAgree.Prelude
import QmcModel.Classical

namespace Qmc.PureFnsAgree

open Qmc Qmc.Classical

/-! ### `should_flip` -/

/-- value of Classical.lean `shouldFlip` with the threshold function `ΔE ↦ exp(−β·ΔE)`: the translated `should_flip`
fed with the model's `gen::<f64>()` draw -/
theorem classical_should_flip_agree (exp : Rat → Rat) (beta : Rat) (rs : RS) (de : Rat) :
    (shouldFlip (fun d => exp (-beta * d)) rs de).1 = Gen.classical_should_flip exp rs.genF64.1 beta de := by
  unfold shouldFlip Gen.classical_should_flip
  by_cases h : de > 0 <;> simp [h]

/-- number of draws: the model consumes one `gen::<f64>()` exactly when the translated function evaluates the drawn value -/
theorem classical_should_flip_draws_agree (exp : Rat → Rat) (beta : Rat) (rs : RS) (de : Rat) :
    (shouldFlip (fun d => exp (-beta * d)) rs de).2 =
      (if Gen.classical_should_flip_draws exp beta de = 1
       then rs.genF64.2.noteMargin (rs.genF64.1 - exp (-beta * de)) else rs) ∧
    Gen.classical_should_flip_draws exp beta de ≤ 1 := by
  unfold shouldFlip Gen.classical_should_flip_draws
  by_cases h : de > 0 <;> simp [h]

/-- `accProb` (the acceptance probability the exact kernels use) is 1 exactly when the translated function draws nothing -/
theorem classical_should_flip_agree_accProb (exp : Rat → Rat) (beta de : Rat)
    (h : Gen.classical_should_flip_draws exp beta de = 0) : accProb (fun d => exp (-beta * d)) de = 1 := by
  unfold Gen.classical_should_flip_draws at h
  unfold accProb
  by_cases hd : de > 0
  · simp [hd] at h
  · simp [hd]

/-- the hypothesis is satisfiable: `ΔE = 0` draws nothing -/
example : accProb (fun d => (fun _ => (1 : Rat) / 2) (-(1 : Rat) * d)) 0 = 1 :=
  classical_should_flip_agree_accProb (fun _ => 1 / 2) 1 0 (by decide)

/-! ### energy differences of the moves -/

/-- the per-neighbour summand: Classical.lean writes `-2 * J * cpl(s_v, s_k)` -/
theorem classical_flip_summand_delta_e_agree (a b : Bool) (j : Rat) :
    -2 * j * cpl a b = Gen.classical_flip_summand_delta_e a b j := by
  cases a <;> cases b <;> simp [cpl, Gen.classical_flip_summand_delta_e]

/-- `do_spin_flip` spells the same summand out a second time -/
theorem classical_flip_summand_do_spin_flip_agree :
    Gen.classical_flip_summand_do_spin_flip = Gen.classical_flip_summand_delta_e := rfl

/-- Classical.lean `deltaE` (`GraphState::delta_e`) sums the translated summand over the filtered row -/
theorem classical_deltaE_agree (bm : List (List (Nat × Rat))) (s : List Bool) (v : Nat) (om : Option Nat) :
    deltaE bm s v om =
      (((row bm v).filter fun e => some e.1 != om).map
        fun e => Gen.classical_flip_summand_delta_e (st s v) (st s e.1) e.2).sum := by
  unfold deltaE
  congr 1
  apply List.map_congr_left
  intro e _
  exact classical_flip_summand_delta_e_agree _ _ _

/-- Classical.lean `biasDelta` is the bias part of the translated `delta_e` of `do_spin_flip` -/
theorem classical_spin_delta_total_agree (bm : List (List (Nat × Rat))) (biases : List Rat) (s : List Bool) (i : Nat) :
    spinDelta bm biases s i = Gen.classical_spin_delta_total (deltaE bm s i none) (biases.getD i 0) (st s i) := by
  unfold spinDelta biasDelta sgn Gen.classical_spin_delta_total
  rfl

/-- Classical.lean `edgeDelta` is the translated sum of the translated closure at `(a, b)` and `(b, a)` -/
theorem classical_edge_delta_agree (bm : List (List (Nat × Rat))) (biases : List Rat) (s : List Bool) (a b : Nat) :
    edgeDelta bm biases s a b =
      Gen.classical_edge_delta_total
        (fun va vb => Gen.classical_edge_delta_half (deltaE bm s va (some vb)) (biases.getD va 0) (st s va)) a b := by
  unfold edgeDelta biasDelta sgn Gen.classical_edge_delta_total Gen.classical_edge_delta_half
  rfl

/-- Classical.lean `wormHe` (`total_he`) sums the translated summand (on the state after the worm's flips) -/
theorem classical_worm_bias_term_agree (biases : List Rat) (s2 : List Bool) (vars : List Nat) :
    wormHe biases s2 vars = (vars.map fun v => Gen.classical_worm_bias_term (biases.getD v 0) (st s2 v)).sum := by
  unfold wormHe biasDelta sgn Gen.classical_worm_bias_term
  rfl

/-! ### `get_energy` -/

theorem classical_energy_coupling_term_agree (a b : Bool) (j : Rat) :
    j * cpl a b / 2 = Gen.classical_energy_coupling_term a b j := by
  cases a <;> cases b <;> simp [cpl, Gen.classical_energy_coupling_term]

/-- Classical.lean `rowEnergy` -/
theorem classical_rowEnergy_agree (r : List (Nat × Rat)) (s : List Bool) (i : Nat) :
    rowEnergy r s i = (r.map fun e => Gen.classical_energy_coupling_term (st s i) (st s e.1) e.2).sum := by
  unfold rowEnergy
  congr 1
  apply List.map_congr_left
  intro e _
  exact classical_energy_coupling_term_agree _ _ _

/-- Classical.lean `biasE` -/
theorem classical_energy_bias_term_agree (biases : List Rat) (s : List Bool) (i : Nat) :
    biasE biases s i = Gen.classical_energy_bias_term (st s i) (biases.getD i 0) := rfl

/-- Classical.lean `getEnergy` folds the translated step over the translated terms, from `0.0` -/
theorem classical_getEnergy_agree (bm : List (List (Nat × Rat))) (biases : List Rat) (s : List Bool) :
    getEnergy bm biases s =
      (List.range s.length).foldl
        (fun acc i => Gen.classical_energy_fold_step acc (rowEnergy (row bm i) s i)
          (Gen.classical_energy_bias_term (st s i) (biases.getD i 0))) 0 := rfl

/-! ### `do_time_step` -/

/-- Classical.lean `doTimeStep` restated with the translated update counts and number of move kinds -/
theorem classical_doTimeStep_agree (ch : Rat → Rat) (g : Sampler) (ns ne nw : Option Nat) (basic : Bool)
    (x : List Bool × RS) :
    doTimeStep ch g ns ne nw basic x =
      (match (x.2.genRangeU8 (Gen.classical_move_kinds basic)).1 with
       | 0 => iter (Gen.classical_nspinupdates ns x.1.length) (doSpinFlip ch g.bm g.biases)
                (x.1, (x.2.genRangeU8 (Gen.classical_move_kinds basic)).2)
       | 1 => iter (Gen.classical_nedgeupdates ne g.edges.length) (doEdgeFlip ch g.edges g.bm g.biases g.cum)
                (x.1, (x.2.genRangeU8 (Gen.classical_move_kinds basic)).2)
       | _ => iter (Gen.classical_nwormupdates nw) (doWormFlip ch g.bm g.biases true)
                (x.1, (x.2.genRangeU8 (Gen.classical_move_kinds basic)).2)) := by
  cases basic <;> rfl

/-- `only_basic_moves: None` means all three move kinds (the model takes the resolved flag) -/
theorem classical_only_basic_default_agree :
    Gen.classical_only_basic_default none = false ∧ ∀ b, Gen.classical_only_basic_default (some b) = b :=
  ⟨rfl, fun _ => rfl⟩

/-! ### importance sampling -/

/-- Classical.lean `cumTable`: fold of the translated step over the translated weights, from `([], 0.)` -/
theorem classical_cumTable_agree (edges : List Edge) :
    cumTable edges =
      edges.foldl (fun (acc : List Rat × Rat) e =>
        (acc.1 ++ [Gen.classical_cum_push acc.2 (Gen.classical_importance_weight e.2)],
         Gen.classical_cum_next acc.2 (Gen.classical_importance_weight e.2))) ([], 0) := rfl

/-- Classical.lean `importanceTable`: the table is kept exactly under the translated guard -/
theorem classical_importance_guard_agree (edges : List Edge) (enable : Bool) :
    importanceTable edges enable =
      if enable then (if Gen.classical_importance_guard (cumTable edges).2 then some (cumTable edges) else none)
      else none := by
  unfold importanceTable Gen.classical_importance_guard
  cases enable <;> simp

end Qmc.PureFnsAgree
