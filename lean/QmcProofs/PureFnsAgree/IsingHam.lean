/-
Agreement of the hand-written models with the definitions TRANSLATED FROM THE RUST SOURCE (`QmcModel/Generated/PureFns.lean`,
tools/translate_pure.py) — group `IsingHam`: Ising matrix elements, bond numbering (`hamiltonian` dispatch, `bonds_fn`), `num_bonds`, the field guard, `total_energy_offset`, the `h` closure — copies of `single_diagonal_step` / `timestep`; models Ham.lean, IsingHam.lean.
One module per group, so that a translated function that stops agreeing takes down only its own group; `checks/pure_fns.py`
builds and audits, for each check, only the groups relevant to that check's property. See design_notes/Translator.md.
-/
import QmcModel.Generated.PureFns
import QmcProofs.PureFnsAgree.Prelude
import QmcModel.Ham
import QmcModel.IsingHam
import Mathlib.Tactic.NormNum

namespace Qmc.PureFnsAgree

open Qmc

/-- Ham.lean `twoSiteHamiltonian` (C01, C15, C08 …) -/
theorem two_site_hamiltonian_agree (i0 i1 o0 o1 : Bool) (j : Rat) :
    twoSiteHamiltonian i0 i1 o0 o1 j = Gen.two_site_hamiltonian (i0, i1) (o0, o1) j := by
  cases i0 <;> cases i1 <;> cases o0 <;> cases o1 <;>
    simp [twoSiteHamiltonian, Gen.two_site_hamiltonian, fabs_agree]

/-- the same, for pairs -/
theorem two_site_hamiltonian_agree_pairs (ins outs : Bool × Bool) (j : Rat) :
    Gen.two_site_hamiltonian ins outs j = twoSiteHamiltonian ins.1 ins.2 outs.1 outs.2 j := by
  obtain ⟨a, b⟩ := ins
  obtain ⟨c, d⟩ := outs
  exact (two_site_hamiltonian_agree a b c d j).symm

theorem transverse_hamiltonian_agree : transverseHamiltonian = Gen.transverse_hamiltonian := rfl

/-- Ham.lean `longitudinalHamiltonian` -/
theorem longitudinal_hamiltonian_agree : longitudinalHamiltonian = Gen.longitudinal_hamiltonian := by
  funext i o h
  cases i <;> cases o <;> rfl

/-- IsingHam.lean `twoSite` (value lists of length 2) -/
theorem two_site_hamiltonian_agree_isingHam (a b c d : Bool) (j : Rat) :
    Qmc.twoSite [a, b] [c, d] j = Gen.two_site_hamiltonian (a, b) (c, d) j := by
  cases a <;> cases b <;> cases c <;> cases d <;>
    simp [Qmc.twoSite, Gen.two_site_hamiltonian, fabs_agree_isingHam]

/-- IsingHam.lean `longitudinal` (value lists of length 1) -/
theorem longitudinal_hamiltonian_agree_isingHam (i o : Bool) (h : Rat) :
    Qmc.longitudinal [i] [o] h = Gen.longitudinal_hamiltonian i o h := by
  cases i <;> cases o <;> rfl

/-- Ham.lean `IsingModel.offset` = `edge_offset + field_offset` with the translated pieces -/
theorem total_energy_offset_agree (m : IsingModel) :
    m.offset = Gen.total_energy_offset ((m.edges.map (fun e => Gen.edge_offset_term e.2)).sum)
      (Gen.field_offset m.nvars m.transverse m.longitudinal) := rfl

/-- Ham.lean `IsingModel.hasField` -/
theorem field_guard_agree (m : IsingModel) : m.hasField = Gen.field_guard m.longitudinal := rfl

theorem num_bonds_single_diagonal_step_agree (m : IsingModel) :
    m.numBonds = Gen.num_bonds_single_diagonal_step m.edges.length m.nvars m.longitudinal := rfl

theorem num_bonds_timestep_agree (m : IsingModel) :
    m.numBonds = Gen.num_bonds_timestep m.edges.length m.nvars m.longitudinal := rfl

/-- IsingHam.lean `IsingSpec.ham`: its bond count uses `h = 0` instead of the guard; equal whenever the field is
zero or visible to the guard (true of the dyadic inputs of the correspondence runs) -/
theorem num_bonds_agree_isingHam (s : IsingSpec) (hh : s.h = 0 ∨ absR s.h > eps) :
    s.ham.nbonds = Gen.num_bonds_timestep s.nedges s.nvars s.h := by
  have e : (0 : Rat) < eps := by norm_num [eps]
  rcases hh with h0 | hb
  · have : ¬ (eps < absR 0) := by
      simp only [absR]
      norm_num [eps]
    simp [IsingSpec.ham, Gen.num_bonds_timestep, fabs_agree, EPSILON_agree, h0, this]
  · have hne : s.h ≠ 0 := by
      intro h0
      rw [h0] at hb
      simp only [absR] at hb
      norm_num [eps] at hb
    simp [IsingSpec.ham, Gen.num_bonds_timestep, fabs_agree, EPSILON_agree, hne, hb]

/-- Ham.lean `IsingModel.hamiltonian`: the arm taken is the translated dispatch, the arms call the translated
matrix-element functions -/
theorem hamiltonian_dispatch_agree (m : IsingModel) (bond : Nat) (ins outs : List Bool) :
    m.hamiltonian bond ins outs =
      (match Gen.hamiltonian_dispatch bond m.edges.length m.nvars with
       | 0 => (match ins, outs with
          | [i0, i1], [o0, o1] =>
            Gen.two_site_hamiltonian (i0, i1) (o0, o1) ((m.edges[bond]?.map (·.2)).getD 0)
          | _, _ => 0)
       | 1 => (match ins, outs with
          | [i], [o] => Gen.transverse_hamiltonian i o m.transverse
          | _, _ => 0)
       | 2 => (match ins, outs with
          | [i], [o] => Gen.longitudinal_hamiltonian i o m.longitudinal
          | _, _ => 0)
       | _ => 0) := by
  unfold IsingModel.hamiltonian Gen.hamiltonian_dispatch
  by_cases h1 : bond < m.edges.length
  · simp only [h1, decide_true, if_true]
    split <;> simp_all [two_site_hamiltonian_agree]
  · by_cases h2 : bond < m.edges.length + m.nvars
    · simp only [h1, h2, decide_true, decide_false, if_true, if_false, Bool.false_eq_true]
      rfl
    · by_cases h3 : bond < m.edges.length + 2 * m.nvars
      · simp only [h1, h2, h3, decide_true, decide_false, if_true, if_false, Bool.false_eq_true]
        rw [longitudinal_hamiltonian_agree]
        rfl
      · simp only [h1, h2, h3, decide_false, if_false, Bool.false_eq_true]

theorem bonds_fn_timestep_eq_ref : Gen.bonds_fn_timestep = bondsFnRef := by
  funext b e n
  simp [Gen.bonds_fn_timestep, bondsFnRef]

/-- Ham.lean `IsingModel.bondVars` / `bondConst` against the translated `bonds_fn` (`vars[k] = k`) -/
theorem bonds_fn_timestep_agree (m : IsingModel) (b : Nat) :
    m.bondVars b =
        (if (Gen.bonds_fn_timestep b m.edges.length m.nvars).1.1
         then [(Gen.bonds_fn_timestep b m.edges.length m.nvars).2]
         else (m.edges[(Gen.bonds_fn_timestep b m.edges.length m.nvars).2]?.map (·.1)).getD []) ∧
      m.bondConst b = (Gen.bonds_fn_timestep b m.edges.length m.nvars).1.2 := by
  rw [bonds_fn_timestep_eq_ref]
  exact bondsFnRef_agree m b

theorem bonds_fn_single_diagonal_step_agree : Gen.bonds_fn_single_diagonal_step = bondsFnRef := by
  funext b e n
  simp [Gen.bonds_fn_single_diagonal_step, bondsFnRef]

/-- the `h` closures just forward to `Self::hamiltonian(&hinfo, …)` -/
theorem h_closure_timestep_agree : @Gen.h_closure_timestep = fun f => f := rfl

theorem h_closure_single_diagonal_step_agree : @Gen.h_closure_single_diagonal_step = fun f => f := rfl

/-- Ham.lean `isingHam`: its weight function is the translated `h` closure over `IsingModel.hamiltonian` -/
theorem h_closure_agree_isingHam (m : IsingModel) (vars : List Nat) (b : Nat) (i o : List Bool) (hb : b < m.numBonds) :
    (isingHam m).w b i o = Gen.h_closure_timestep (fun _ b i o => m.hamiltonian b i o) vars b i o := by
  simp [isingHam, hb, Gen.h_closure_timestep]

end Qmc.PureFnsAgree
