/-
Agreement of the hand-written models with the definitions TRANSLATED FROM THE RUST SOURCE (`QmcModel/Generated/PureFns.lean`,
tools/translate_pure.py) — group `Prelude`: the fixed prelude of the translation (`fabs`, `EPSILON`, `powi`) against every spelling in the hand models, and the reference term `bondsFnRef`.
One module per group, so that a translated function that stops agreeing takes down only its own group; `checks/pure_fns.py`
builds and audits, for each check, only the groups relevant to that check's property. See design_notes/Translator.md.
-/
import QmcModel.Generated.PureFns
import QmcModel.Common
import QmcModel.Interaction
import QmcModel.Rvb
import QmcModel.IsingHam
import QmcModel.Tempering
import QmcModel.Ham

namespace Qmc.PureFnsAgree

open Qmc

theorem fabs_agree : Gen.fabs = absR := rfl

theorem fabs_agree_rvb : Gen.fabs = Rvb.absR := rfl

theorem fabs_agree_isingHam : Gen.fabs = ratAbs := rfl

theorem EPSILON_agree : Gen.EPSILON = eps := rfl

theorem EPSILON_agree_rvb : Gen.EPSILON = Rvb.f64eps := rfl

theorem powi_agree : Gen.powi = Tempering.powi := rfl

/-- reference term for the four `bonds_fn` closures: `((single, constant), k)` -/
def bondsFnRef (b e n : Nat) : (Bool × Bool) × Nat :=
  if b < e then ((false, false), b) else if b < e + n then ((true, true), b - e) else ((true, false), b - n - e)

/-- Ham.lean `IsingModel.bondVars` / `bondConst` are the reference `bonds_fn` (`vars[k] = k`) -/
theorem bondsFnRef_agree (m : IsingModel) (b : Nat) :
    m.bondVars b =
        (if (bondsFnRef b m.edges.length m.nvars).1.1
         then [(bondsFnRef b m.edges.length m.nvars).2]
         else (m.edges[(bondsFnRef b m.edges.length m.nvars).2]?.map (·.1)).getD []) ∧
      m.bondConst b = (bondsFnRef b m.edges.length m.nvars).1.2 := by
  unfold IsingModel.bondVars IsingModel.bondConst bondsFnRef
  by_cases h1 : b < m.edges.length
  · simp [h1]
    try omega
  · by_cases h2 : b < m.edges.length + m.nvars
    · simp [h1, h2]
      try omega
    · simp [h1, h2]
      try omega

end Qmc.PureFnsAgree

namespace Qmc.PureFnsAgreeCluster

open Qmc

theorem fabs_agree : Gen.fabs = absR := rfl

end Qmc.PureFnsAgreeCluster
