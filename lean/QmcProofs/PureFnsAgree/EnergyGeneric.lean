/-
Agreement of the hand-written models with the definitions TRANSLATED FROM THE RUST SOURCE (`QmcModel/Generated/PureFns.lean`,
tools/translate_pure.py) — group `EnergyGeneric`: `Qmc::get_energy_for_average_n`.
One module per group, so that a translated function that stops agreeing takes down only its own group; `checks/pure_fns.py`
builds and audits, for each check, only the groups relevant to that check's property. See design_notes/Translator.md.
-/
import QmcModel.Generated.PureFns
import QmcProofs.PureFnsAgree.Prelude
import QmcModel.Convert
import QmcModel.Generic
import QmcModel.Stepper

namespace Qmc.PureFnsAgree

open Qmc

/-- Convert.lean `GenericSampler.energy` -/
theorem get_energy_for_average_n_generic_agree (q : GenericSampler) (avgN beta : Rat) :
    q.energy avgN beta = Gen.get_energy_for_average_n_generic q.offset avgN beta := rfl

/-- Generic.lean `energyForAverageN` -/
theorem get_energy_for_average_n_generic_agree_gqmc (q : GQmc) (avgN beta : Rat) :
    energyForAverageN q avgN beta = Gen.get_energy_for_average_n_generic q.offset avgN beta := rfl

/-- Stepper.lean `energyForAvgN` (one definition for both samplers): the generic sampler's function -/
theorem get_energy_for_average_n_generic_agree_stepper (β off avg : Rat) :
    energyForAvgN β off avg = Gen.get_energy_for_average_n_generic off avg β := rfl

end Qmc.PureFnsAgree
