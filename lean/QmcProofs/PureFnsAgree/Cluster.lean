/-
Agreement of the hand-written models with the definitions TRANSLATED FROM THE RUST SOURCE (`QmcModel/Generated/PureFns.lean`,
tools/translate_pure.py) — group `Cluster`: generic cluster pieces: `is_valid_cluster_edge`, the flip probability of `Qmc::cluster_update`.
One module per group, so that a translated function that stops agreeing takes down only its own group; `checks/pure_fns.py`
builds and audits, for each check, only the groups relevant to that check's property. See design_notes/Translator.md.
-/
import QmcModel.Generated.PureFns
import QmcProofs.PureFnsAgree.Prelude
import QmcModel.Interaction
import QmcModel.SamplerCore
import Mathlib.Tactic.NormNum

namespace Qmc.PureFnsAgree

open Qmc

theorem is_valid_cluster_edge_agree : isValidClusterEdge = Gen.is_valid_cluster_edge := by
  funext c n
  cases c <;> simp [isValidClusterEdge, Gen.is_valid_cluster_edge, beq_eq_decide]

/-- `Qmc::cluster_update` flips with probability 1/2 -/
theorem cluster_flip_prob_cluster_update_sym_agree : Gen.cluster_flip_prob_cluster_update_sym = 1 / 2 := rfl

/-- SamplerCore.lean `genericTimestepWith` with the translated flip probability in place -/
theorem cluster_flip_prob_agree_genericTimestep (LK : Sampler.LoopK) (CK : Sampler.ClusterK) (s : Sampler.GenericSampler)
    (β : Rat) (rs : RS) :
    Sampler.genericTimestepWith LK CK s β rs =
      (let d := Sampler.genericDiagonalUpdate s β rs
       let l := if d.1.doLoop then LK d.1.ham.w d.1.cfg d.2 else (d.1.cfg, d.2)
       let m := if d.1.shouldCluster then CK Gen.cluster_flip_prob_cluster_update_sym (fun _ => false) l.1 l.2 else l
       let r := Sampler.freeRefresh m.1 m.2
       (d.1.withCfg r.1, r.2)) := rfl

end Qmc.PureFnsAgree
