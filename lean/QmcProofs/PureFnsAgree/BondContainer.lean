/-
Agreement of the hand-written models with the definitions TRANSLATED FROM THE RUST SOURCE (`QmcModel/Generated/PureFns.lean`,
tools/translate_pure.py) — group `BondContainer`: the weight bookkeeping of `src/util/bondcontainer.rs` (`insert`,
`remove_index`, `correct_total_weight`, the selection loop of `get_random`) against `QmcModel/BondContainer.lean`.
One module per group, so that a translated function that stops agreeing takes down only its own group; `checks/pure_fns.py`
builds and audits, for each check, only the groups relevant to that check's property. See design_notes/Translator.md.
-/
import QmcModel.Generated.PureFns
import QmcProofs.PureFnsAgree.Prelude
import QmcModel.BondContainer

namespace Qmc.PureFnsAgree

open Qmc

/-- BondContainer.lean `BC.correct` is the translated `correct_total_weight` -/
theorem bc_correct_total_agree : BC.correct = Gen.bc_correct_total := by
  funext t
  unfold BC.correct Gen.bc_correct_total
  by_cases h : t < 0 <;> simp [h]

/-- BondContainer.lean `BC.growMap`: resized exactly under the translated condition, to the translated length -/
theorem bc_grow_agree (m : List (Option Nat)) (k : Nat) :
    BC.growMap m k =
      if Gen.bc_grow_cond k m.length then m ++ List.replicate (Gen.bc_grow_len k m.length - m.length) none else m := by
  unfold BC.growMap Gen.bc_grow_cond Gen.bc_grow_len
  by_cases h : k < m.length
  · have : ¬ k ≥ m.length := by omega
    simp [h, this]
  · have : k ≥ m.length := by omega
    simp [h, this]

/-- BondContainer.lean `BC.insert` restated with the translated totals and address (existing key: update, then clamp;
new key: plain sum, no clamp) -/
theorem bc_insert_agree (c : BC) (k : Nat) (w : Rat) :
    c.insert k w =
      (match (BC.growMap c.map k).getD k none with
       | some i =>
         ({ map := BC.growMap c.map k, keys := c.keys.set i ((c.keys.getD i (k, 0)).1, w),
            total := Gen.bc_correct_total (Gen.bc_insert_update_total c.total w (c.keys.getD i (k, 0)).2) }, false)
       | none =>
         ({ map := (BC.growMap c.map k).set k (some (Gen.bc_insert_new_address c.keys.length)),
            keys := c.keys ++ [(k, w)], total := Gen.bc_insert_new_total c.total w }, true)) := by
  rw [← bc_correct_total_agree]
  rfl

/-- BondContainer.lean `BC.removeIndex` restated with the translated last index and total (subtract, then clamp) -/
theorem bc_remove_index_agree (c : BC) (i : Nat) :
    c.removeIndex i =
      { map := (c.map.set (c.keys.getD (Gen.bc_last_index c.keys.length) (0, 0)).1 (some i)).set (c.keys.getD i (0, 0)).1 none
        keys := (c.keys.set i (c.keys.getD (Gen.bc_last_index c.keys.length) (0, 0))).take (Gen.bc_last_index c.keys.length)
        total := Gen.bc_correct_total (Gen.bc_remove_total c.total (c.keys.getD i (0, 0)).2) } := by
  rw [← bc_correct_total_agree]
  rfl

/-- BondContainer.lean `BC.pickLoop` (the `while` of `get_random`): decrement by the translated amount, stop on the
translated test -/
theorem bc_pick_loop_agree (kw : Nat × Rat) (t : List (Nat × Rat)) (p : Rat) (i : Nat) :
    BC.pickLoop (kw :: t) p i =
      if Gen.bc_pick_stop (Gen.bc_pick_sub p kw.2) kw.2 then i else BC.pickLoop t (Gen.bc_pick_sub p kw.2) (i + 1) := by
  unfold Gen.bc_pick_stop Gen.bc_pick_sub
  rw [BC.pickLoop]
  by_cases h : p - kw.2 ≤ 0 ∧ 0 < kw.2
  · simp [h.1, h.2]
  · by_cases h1 : p - kw.2 ≤ 0
    · have h2 : ¬ 0 < kw.2 := fun h2 => h ⟨h1, h2⟩
      simp [h1, h2]
    · simp [h1]

end Qmc.PureFnsAgree
