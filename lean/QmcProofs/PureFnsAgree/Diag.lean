/-
Agreement of the hand-written models with the definitions TRANSLATED FROM THE RUST SOURCE (`QmcModel/Generated/PureFns.lean`,
tools/translate_pure.py) — group `Diag`: `metropolis_single_diagonal_update`.
One module per group, so that a translated function that stops agreeing takes down only its own group; `checks/pure_fns.py`
builds and audits, for each check, only the groups relevant to that check's property. See design_notes/Translator.md.
-/
import QmcModel.Generated.PureFns
import QmcProofs.PureFnsAgree.Prelude
import QmcModel.Diagonal
import Mathlib.Tactic.NormNum

namespace Qmc.PureFnsAgree

open Qmc

/-- idealised insertion acceptance = clip of translated numerator / denominator -/
theorem diag_insert_prob_agree (β : Rat) (Nb : Nat) (w : Rat) (L n : Nat) :
    accInsM β Nb w L n = clipProb (Gen.diag_numerator β Nb w) (Gen.diag_denominator L n) := rfl

/-- idealised removal acceptance: the translated `denominator + 1.0` over the numerator -/
theorem diag_remove_prob_agree (β : Rat) (Nb : Nat) (w : Rat) (L n : Nat) :
    accRemM β Nb w L n =
      clipProb (Gen.diag_remove_denominator (Gen.diag_denominator L n)) (Gen.diag_numerator β Nb w) := rfl

/-- the decision of `genClipped` is the translated test `numerator > denominator || rng.gen_bool(numerator /
denominator)` with `gen_bool` read off the RNG state (whenever `genClipped` does not model a panic) -/
theorem diag_insert_accept_agree (rs : RS) (num den : Rat) (h : num > den ∨ den ≠ 0) :
    (genClipped rs num den).1 = Gen.diag_insert_accept (fun p => (rs.genBool p).1) num den := by
  unfold genClipped Gen.diag_insert_accept
  by_cases h1 : num > den
  · simp [h1]
  · have h2 : den ≠ 0 := by
      rcases h with h | h
      · exact absurd h h1
      · exact h
    simp [h1, h2]

/-- … and the draws it makes are exactly the translated short-circuit draw list -/
theorem diag_insert_accept_draws_agree (rs : RS) (num den : Rat) (h : num > den ∨ den ≠ 0) :
    (genClipped rs num den).2 =
      (Gen.diag_insert_accept_draws num den).foldl (fun r p => (r.genBool p).2) rs := by
  unfold genClipped Gen.diag_insert_accept_draws
  by_cases h1 : num > den
  · simp [h1]
  · have h2 : den ≠ 0 := by
      rcases h with h | h
      · exact absurd h h1
      · exact h
    simp [h1, h2]

/-- removal: `genClipped rs denominator numerator` is the translated `denominator > numerator ||
rng.gen_bool(denominator / numerator)` -/
theorem diag_remove_accept_agree (rs : RS) (num den : Rat) (h : den > num ∨ num ≠ 0) :
    (genClipped rs den num).1 = Gen.diag_remove_accept (fun p => (rs.genBool p).1) num den := by
  unfold genClipped Gen.diag_remove_accept
  by_cases h1 : den > num
  · simp [h1]
  · have h2 : num ≠ 0 := by
      rcases h with h | h
      · exact absurd h h1
      · exact h
    simp [h1, h2]

theorem diag_remove_accept_draws_agree (rs : RS) (num den : Rat) (h : den > num ∨ num ≠ 0) :
    (genClipped rs den num).2 =
      (Gen.diag_remove_accept_draws num den).foldl (fun r p => (r.genBool p).2) rs := by
  unfold genClipped Gen.diag_remove_accept_draws
  by_cases h1 : den > num
  · simp [h1]
  · have h2 : num ≠ 0 := by
      rcases h with h | h
      · exact absurd h h1
      · exact h
    simp [h1, h2]

/-- the model's slot visit, empty slot: it uses exactly the translated numerator and denominator -/
theorem metropolisSlot_none_agree (H : Ham) (β : Rat) (cutoff : Nat) (st : List Bool) (n : Nat) (rs : RS) :
    metropolisSlot H β cutoff none st n rs =
      (let (b, rs1) := rs.genRange H.nbonds
       let vars := H.vars b
       if cutoff < n ∨ varsInRange st vars = false then SlotRes.panic none st n rs1 else
       let sub := readVars st vars
       let (ins, rs2) := genClipped rs1 (Gen.diag_numerator β H.nbonds (H.w b sub sub)) (Gen.diag_denominator cutoff n)
       if ins then ⟨some (Op.diagonal vars b sub (H.const b)), st, n + 1, rs2⟩ else ⟨none, st, n, rs2⟩) := rfl

/-- the model's slot visit, diagonal operator: translated numerator and `denominator + 1.0`, arguments swapped -/
theorem metropolisSlot_diag_agree (H : Ham) (β : Rat) (cutoff : Nat) (op : Op) (st : List Bool) (n : Nat) (rs : RS)
    (hd : op.tagDiag = true) :
    metropolisSlot H β cutoff (some op) st n rs =
      (let b := op.bond
       let vars := H.vars b
       if cutoff < n ∨ varsInRange st vars = false then SlotRes.panic (some op) st n rs else
       let sub := readVars st vars
       let (rm, rs') := genClipped rs (Gen.diag_remove_denominator (Gen.diag_denominator cutoff n))
         (Gen.diag_numerator β H.nbonds (H.w b sub sub))
       if rm then ⟨none, st, n - 1, rs'⟩ else ⟨some op, st, n, rs'⟩) := by
  simp only [metropolisSlot, hd, if_true]
  rfl

end Qmc.PureFnsAgree
