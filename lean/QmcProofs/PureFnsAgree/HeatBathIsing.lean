/-
Agreement of the hand-written models with the definitions TRANSLATED FROM THE RUST SOURCE (`QmcModel/Generated/PureFns.lean`,
tools/translate_pure.py) — group `HeatBathIsing`: the copies of `num_bonds` / `bonds_fn` / `h` inside `set_enable_heatbath`.
One module per group, so that a translated function that stops agreeing takes down only its own group; `checks/pure_fns.py`
builds and audits, for each check, only the groups relevant to that check's property. See design_notes/Translator.md.
-/
import QmcModel.Generated.PureFns
import QmcProofs.PureFnsAgree.Prelude
import QmcModel.Ham

namespace Qmc.PureFnsAgree

open Qmc

theorem num_bonds_set_enable_heatbath_agree (m : IsingModel) :
    m.numBonds = Gen.num_bonds_set_enable_heatbath m.edges.length m.nvars m.longitudinal := rfl

/-- the `bonds_fn` copy inside `set_enable_heatbath` (model tie: `bondsFnRef_agree`) -/
theorem bonds_fn_set_enable_heatbath_agree : Gen.bonds_fn_set_enable_heatbath = bondsFnRef := by
  funext b e n
  simp [Gen.bonds_fn_set_enable_heatbath, bondsFnRef]

/-- the `h` closure copy inside `set_enable_heatbath` just forwards to `Self::hamiltonian(&hinfo, …)` -/
theorem h_closure_set_enable_heatbath_agree : @Gen.h_closure_set_enable_heatbath = fun f => f := rfl

end Qmc.PureFnsAgree
