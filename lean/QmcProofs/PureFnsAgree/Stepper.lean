/-
Agreement of the hand-written models with the definitions TRANSLATED FROM THE RUST SOURCE (`QmcModel/Generated/PureFns.lean`,
tools/translate_pure.py) — group `Stepper`: the measuring loop `QmcStepper::timesteps_measure_with_self`
(src/sse/qmc_traits/qmc_stepper.rs) and the chunk loop of both tempering drivers (`TemperingContainer::timesteps_sample`,
`parallel_timesteps_sample`, src/sse/parallel_tempering/tempering_container.rs) against `QmcModel/Stepper.lean`.
One module per group, so that a translated function that stops agreeing takes down only its own group; `checks/pure_fns.py`
builds and audits, for each check, only the groups relevant to that check's property. See design_notes/Translator.md.
-/
import QmcModel.Generated.PureFns
import QmcProofs.PureFnsAgree.Prelude
import QmcModel.Stepper

namespace Qmc.PureFnsAgree

open Qmc

universe u v

/-! ### `timesteps_measure_with_self` -/

/-- `sampling_freq: None` is period 1 (Stepper.lean takes the resolved period `f`) -/
theorem stepper_sampling_freq_agree :
    Gen.stepper_sampling_freq none = 1 ∧ ∀ f, Gen.stepper_sampling_freq (some f) = f := ⟨rfl, fun _ => rfl⟩

/-- Stepper.lean `measureBody` restated with the translated sampling condition and the two translated counters -/
theorem stepper_measureBody_agree {σ : Type u} {α : Type v} (step : σ → σ) (n : σ → Nat) (fold : α → σ → α) (f : Nat)
    (r : MState σ α) (t : Nat) :
    measureBody step n fold f r t =
      (if Gen.stepper_sample_cond t f then
         { st := step r.st, acc := fold r.acc (step r.st), measured := Gen.stepper_steps_measured_next r.measured,
           totalN := Gen.stepper_total_n_next r.totalN (n (step r.st)) }
       else { st := step r.st, acc := r.acc, measured := r.measured, totalN := r.totalN }) := by
  unfold measureBody Gen.stepper_sample_cond Gen.stepper_steps_measured_next Gen.stepper_total_n_next
  by_cases h : (t + 1) % f = 0 <;> simp [h]

/-- Stepper.lean `measureEnergy`: the average handed to `get_energy_for_average_n` is the translated `average_n` -/
theorem stepper_average_n_agree {σ : Type u} {α : Type v} (β off : Rat) (r : MState σ α) :
    measureEnergy β off r =
      if r.measured = 0 then none else some (energyForAvgN β off (Gen.stepper_average_n r.totalN r.measured)) := rfl

/-- Stepper.lean `avgN` (the chunk average of a replica) -/
theorem stepper_average_n_agree_avgN {ρ : Type u} (m : MState ρ Unit) :
    avgN m = Gen.stepper_average_n m.totalN m.measured := rfl

/-! ### the chunk loop of `timesteps_sample` (serial driver) -/

/-- Stepper.lean `chunkInit` -/
theorem chunk_init_agree {κ : Type u} (T s f : Nat) (c0 : κ) :
    chunkInit T s f c0 =
      { c := c0, remaining := Gen.chunk_init_remaining_timesteps_sample T s f,
        toSwap := Gen.chunk_init_to_swap_timesteps_sample T s f,
        toSample := Gen.chunk_init_to_sample_timesteps_sample T s f,
        energyAcc := fun _ => 0, samples := [], log := [] } := rfl

/-- Stepper.lean `chunkLoop` runs while the translated loop condition holds -/
theorem chunk_continue_agree {κ : Type u} (C : Container κ) (s f fuel : Nat) (x : CState κ) :
    chunkLoop C s f (fuel + 1) x =
      if Gen.chunk_continue_timesteps_sample x.toSample x.toSwap x.remaining
      then chunkLoop C s f fuel (chunkIter C s f x) else x := by
  unfold Gen.chunk_continue_timesteps_sample
  rw [chunkLoop]
  by_cases h : x.remaining = 0
  · simp [h]
  · have : x.remaining > 0 := Nat.pos_of_ne_zero h
    simp [h, this]

/-- Stepper.lean `chunkIter` restated with every translated piece of the loop body in place: chunk length, energy
accumulation, the three decrements, the two "due" tests and the two resets (the resets do not depend on `T`) -/
theorem chunk_iter_agree {κ : Type u} (C : Container κ) (s f T : Nat) (x : CState κ) :
    chunkIter C s f x =
      (let t := Gen.chunk_t_timesteps_sample x.toSample x.toSwap x.remaining
       let r := C.advance t x.c
       let toSample := Gen.chunk_to_sample_dec_timesteps_sample x.toSample x.toSwap x.remaining t
       let toSwap := Gen.chunk_to_swap_dec_timesteps_sample x.toSample x.toSwap x.remaining t
       let remaining := Gen.chunk_remaining_dec_timesteps_sample x.toSample x.toSwap x.remaining t
       let swapDue := Gen.chunk_swap_due_timesteps_sample toSample toSwap remaining
       let c1 := if swapDue then C.swapStep r.1 else r.1
       let log1 := if swapDue then x.log ++ [Ev.adv t] ++ [Ev.swap] else x.log ++ [Ev.adv t]
       let toSwap1 := if swapDue then Gen.chunk_to_swap_reset_timesteps_sample T s f else toSwap
       let sampleDue := Gen.chunk_sample_due_timesteps_sample toSample toSwap1 remaining
       { c := c1, remaining := remaining, toSwap := toSwap1,
         toSample := if sampleDue then Gen.chunk_to_sample_reset_timesteps_sample T s f else toSample,
         energyAcc := fun i => Gen.chunk_energy_acc_timesteps_sample (x.energyAcc i) (r.2 i) t,
         samples := if sampleDue then x.samples ++ [C.states c1] else x.samples,
         log := if sampleDue then log1 ++ [Ev.sample] else log1 }) := by
  simp only [chunkIter, Gen.chunk_t_timesteps_sample, Gen.chunk_to_sample_dec_timesteps_sample,
    Gen.chunk_to_swap_dec_timesteps_sample, Gen.chunk_remaining_dec_timesteps_sample, Gen.chunk_swap_due_timesteps_sample,
    Gen.chunk_to_swap_reset_timesteps_sample, Gen.chunk_sample_due_timesteps_sample,
    Gen.chunk_to_sample_reset_timesteps_sample, Gen.chunk_energy_acc_timesteps_sample]
  simp

/-- Stepper.lean `chunkEnergy` (the final division by the number of steps) -/
theorem chunk_final_energy_agree {κ : Type u} (T s f : Nat) (x : CState κ) (i : Nat) :
    chunkEnergy T x i = Gen.chunk_final_energy_timesteps_sample (x.energyAcc i) T s f := rfl

/-! ### the parallel driver's loop is the serial one, piece by piece -/

theorem chunk_init_remaining_parallel_agree :
    @Gen.chunk_init_remaining_parallel_timesteps_sample = @Gen.chunk_init_remaining_timesteps_sample := rfl

theorem chunk_init_to_swap_parallel_agree :
    @Gen.chunk_init_to_swap_parallel_timesteps_sample = @Gen.chunk_init_to_swap_timesteps_sample := rfl

theorem chunk_init_to_sample_parallel_agree :
    @Gen.chunk_init_to_sample_parallel_timesteps_sample = @Gen.chunk_init_to_sample_timesteps_sample := rfl

theorem chunk_continue_parallel_agree :
    @Gen.chunk_continue_parallel_timesteps_sample = @Gen.chunk_continue_timesteps_sample := rfl

theorem chunk_t_parallel_agree :
    @Gen.chunk_t_parallel_timesteps_sample = @Gen.chunk_t_timesteps_sample := rfl

theorem chunk_energy_acc_parallel_agree :
    @Gen.chunk_energy_acc_parallel_timesteps_sample = @Gen.chunk_energy_acc_timesteps_sample := rfl

theorem chunk_to_sample_dec_parallel_agree :
    @Gen.chunk_to_sample_dec_parallel_timesteps_sample = @Gen.chunk_to_sample_dec_timesteps_sample := rfl

theorem chunk_to_swap_dec_parallel_agree :
    @Gen.chunk_to_swap_dec_parallel_timesteps_sample = @Gen.chunk_to_swap_dec_timesteps_sample := rfl

theorem chunk_remaining_dec_parallel_agree :
    @Gen.chunk_remaining_dec_parallel_timesteps_sample = @Gen.chunk_remaining_dec_timesteps_sample := rfl

theorem chunk_swap_due_parallel_agree :
    @Gen.chunk_swap_due_parallel_timesteps_sample = @Gen.chunk_swap_due_timesteps_sample := rfl

theorem chunk_to_swap_reset_parallel_agree :
    @Gen.chunk_to_swap_reset_parallel_timesteps_sample = @Gen.chunk_to_swap_reset_timesteps_sample := rfl

theorem chunk_sample_due_parallel_agree :
    @Gen.chunk_sample_due_parallel_timesteps_sample = @Gen.chunk_sample_due_timesteps_sample := rfl

theorem chunk_to_sample_reset_parallel_agree :
    @Gen.chunk_to_sample_reset_parallel_timesteps_sample = @Gen.chunk_to_sample_reset_timesteps_sample := rfl

theorem chunk_final_energy_parallel_agree :
    @Gen.chunk_final_energy_parallel_timesteps_sample = @Gen.chunk_final_energy_timesteps_sample := rfl

end Qmc.PureFnsAgree
