/-
Agreement of the hand-written models with the definitions TRANSLATED FROM THE RUST SOURCE (`QmcModel/Generated/PureFns.lean`,
tools/translate_pure.py) — group `RefreshIsing`: free-spin refresh probability of `single_cluster_step` / `timestep`.
One module per group, so that a translated function that stops agreeing takes down only its own group; `checks/pure_fns.py`
builds and audits, for each check, only the groups relevant to that check's property. See design_notes/Translator.md.
-/
import QmcModel.Generated.PureFns
import QmcProofs.PureFnsAgree.Prelude
import QmcModel.Cluster
import QmcModel.SamplerCore

namespace Qmc.PureFnsAgree

open Qmc

/-- the free-spin refresh of the Ising sampler draws with probability 1/2 -/
theorem free_refresh_prob_agree :
    Gen.free_refresh_prob_single_cluster_step = 1 / 2 ∧ Gen.free_refresh_prob_timestep = 1 / 2 := ⟨rfl, rfl⟩

/-- SamplerCore.lean `refreshAux`: the draw of a variable without operators uses the translated probability -/
theorem free_refresh_prob_agree_samplerCore (s : Slots) (v : Nat) (x : Bool) (t : List Bool) (rs : RS) :
    Sampler.refreshAux s v (x :: t) rs =
      (if Sampler.hasOps s v then
        (let r := Sampler.refreshAux s (v + 1) t rs
         (x :: r.1, r.2))
      else
        (let d := rs.genBool Gen.free_refresh_prob_timestep
         let r := Sampler.refreshAux s (v + 1) t d.2
         (d.1 :: r.1, r.2))) := by
  rw [Sampler.refreshAux]
  rfl

end Qmc.PureFnsAgree

namespace Qmc.PureFnsAgreeCluster

open Qmc

/-- Cluster.lean `freeRefresh`: the draw of a variable without operators uses the translated probability -/
theorem freeRefresh_agree (sk : Skel) (v : Nat) (x : Bool) (xs : List Bool) (s : RS) :
    freeRefresh sk v (x :: xs) s =
      (if varHasOp sk v then
        (let rest := freeRefresh sk (v + 1) xs s
         (x :: rest.1, rest.2))
      else
        (let r := s.genBool Gen.free_refresh_prob_single_cluster_step
         let rest := freeRefresh sk (v + 1) xs r.2
         (r.1 :: rest.1, rest.2))) := by
  rw [freeRefresh]
  rfl

end Qmc.PureFnsAgreeCluster
