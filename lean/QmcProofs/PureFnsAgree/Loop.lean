/-
Agreement of the hand-written models with the definitions TRANSLATED FROM THE RUST SOURCE (`QmcModel/Generated/PureFns.lean`,
tools/translate_pure.py) — group `Loop`: the start-leg walk of `make_loop_update_with_rng` and the exit-leg fold of
`loop_body` (src/sse/qmc_traits/directed_loop.rs) against `QmcModel/Loop.lean`.
One module per group, so that a translated function that stops agreeing takes down only its own group; `checks/pure_fns.py`
builds and audits, for each check, only the groups relevant to that check's property. See design_notes/Translator.md.
-/
import QmcModel.Generated.PureFns
import QmcProofs.PureFnsAgree.Prelude
import QmcModel.Loop

namespace Qmc.PureFnsAgree

open Qmc

/-- Loop.lean `pickIdx` (the `try_fold` over the exit weights): stop on the translated test, carry the translated value -/
theorem loop_exit_agree (c w : Rat) (t : List Rat) :
    pickIdx c (w :: t) =
      if Gen.loop_exit_stop c w then some 0 else (pickIdx (Gen.loop_exit_next c w) t).map (· + 1) := by
  unfold Gen.loop_exit_stop Gen.loop_exit_next
  rw [pickIdx]
  by_cases h : c < w <;> simp [h]

/-- Loop.lean `pickLeg` (the start-leg walk over the operators in chain order) -/
theorem loop_start_agree (op : Op) (t : Slots) (p c : Nat) :
    pickLeg (some op :: t) p c =
      if Gen.loop_start_stop c op.vars.length then some (p, c)
      else pickLeg t (p + 1) (Gen.loop_start_next c op.vars.length) := by
  unfold Gen.loop_start_stop Gen.loop_start_next
  rw [pickLeg]
  by_cases h : c < op.vars.length <;> simp [h]

/-- Loop.lean `totalVars` is what the translated accumulation computes from 0 over the stored operators -/
theorem loop_total_vars_agree (slots : Slots) (acc : Nat) :
    (slots.filterMap id).foldl (fun a (op : Op) => Gen.loop_total_vars_next a op.vars.length) acc =
      acc + totalVars slots := by
  induction slots generalizing acc with
  | nil => simp [totalVars]
  | cons h t ih =>
    cases h with
    | none => simpa [totalVars] using ih acc
    | some op =>
      simp only [List.filterMap_cons, id, List.foldl_cons, totalVars]
      rw [ih]
      unfold Gen.loop_total_vars_next
      omega

end Qmc.PureFnsAgree
