/-
C01, the missing link between kernel invariance and the SSE representation: **the state marginal of the SSE weight
over the sampler's own finite configuration space** `Kernel.cfgSpace H N L`.

  `config_marginal` (T1):  Σ_{c ∈ cfgSpace H N L, Good H c, c.state = α} configWeight H β c
                              = ⟨α| Σ_{n≤L} (βM)ⁿ/n! |α⟩,     M = Σ_b bondMatrix H N b
  `config_partition` (T2): Σ_{c ∈ cfgSpace H N L, Good H c} configWeight H β c = Σ_{n≤L} βⁿ/n! · Tr(Mⁿ)

for every Hamiltonian whose bonds act on distinct in-range variables (`Kernel.VarsOK H N`) and whose matrix elements
are non-negative (needed only because `Good` = `Consistent ∧ Legal` demands POSITIVE matrix elements: the
configurations it drops then have weight 0).  `config_marginal_struct` / `config_partition_struct` are the same
statements for the purely structural cut `Consistent c ∧ TagCanon c.slots` and need NO sign hypothesis.

How it is proved (no explicit placement bijection is needed): with
  `F L n s t` = Σ over operator strings with `L` slots over the canonical operators of `H` that hold `n` operators and
                propagate `s` to `t`, of the product of matrix elements, and
  `W n s t`   = Σ over bond words of length `n` of `configSum` (QmcProofs/PathSum.lean) = `⟨t|Mⁿ|s⟩`,
splitting off the first slot (empty / an operator whose inputs are the current sub-state, any outputs) gives
  `F (L+1) (n+1) s t = F L (n+1) s t + Σ_b Σ_outs w · F L n s' t`,   `W (n+1) s t = Σ_b Σ_outs w · W n s' t`,
so `F L n s t = C(L,n) · W n s t` by Pascal's rule (`F_eq`): the `C(L,n)` placements of QmcProofs/SSEConfig.lean's
`config_weight_marginal` (`Σ _pos ∈ powersetCard n (range L)`) are counted, not enumerated.  The configurations
`c ∈ cfgSpace` with `c.state = α` and canonical tags are in bijection with those operator strings (`c ↦ c.slots`,
`sum_cfgSpace_eq_sum_slotsF`); tag and constant flag are functions of (bond, inputs, outputs) there, so no
configuration is counted twice.
-/
import QmcProofs.ConfigMarginalSlots

open BigOperators Finset

namespace Qmc.Marginal
open Qmc Qmc.IsingSSE Qmc.PathSum Qmc.Kernel Qmc.SSE Qmc.SSEConfig

/-! ### the two sums and their recurrences -/

/-- product of matrix elements of `sl` if it propagates `s` to `t` and holds `n` operators, else 0 -/
def term (H : Ham) (n : Nat) (s t : List Bool) (sl : Slots) : ℚ :=
  if propagate s sl = some t ∧ countOps sl = n then opsWeight H sl else 0

/-- total matrix-element weight of the canonical operator strings with `L` slots, `n` operators, from `s` to `t` -/
def F (H : Ham) (L n : Nat) (s t : List Bool) : ℚ := ∑ sl ∈ slotsF H L, term H n s t sl

/-- `⟨t|Mⁿ|s⟩` written with the sampler's objects: bond, outputs, recursion on the written state -/
def W (H : Ham) : Nat → List Bool → List Bool → ℚ
  | 0, s, t => if s = t then 1 else 0
  | n + 1, s, t => ∑ b ∈ range H.nbonds, ∑ o ∈ pats (H.vars b).length,
      H.w b (readVars s (H.vars b)) o * W H n (writeVars s (H.vars b) o) t

theorem term_nil (H : Ham) (n : Nat) (s t : List Bool) :
    term H n s t [] = if s = t ∧ 0 = n then 1 else 0 := by
  simp [term, propagate, countOps, opsWeight]

theorem term_none (H : Ham) (n : Nat) (s t : List Bool) (tl : Slots) :
    term H n s t (none :: tl) = term H n s t tl := by
  simp only [term, propagate, countOps_none_cons, opsWeight]

theorem term_some_zero (H : Ham) (s t : List Bool) (o : Op) (tl : Slots) :
    term H 0 s t (some o :: tl) = 0 := by
  simp [term, countOps_some_cons]

theorem term_some_succ (H : Ham) (n : Nat) (s t : List Bool) (b : Nat) (i o : List Bool) (tl : Slots)
    (hi : i.length = (H.vars b).length) (hr : ∀ v ∈ H.vars b, v < s.length) :
    term H (n + 1) s t (some (mkOp H b i o) :: tl)
      = if i = readVars s (H.vars b) then H.w b i o * term H n (writeVars s (H.vars b) o) t tl else 0 := by
  unfold term
  rw [propagate_some_mkOp H s b i o tl hi hr, countOps_some_cons]
  by_cases h : i = readVars s (H.vars b)
  · simp only [if_pos h, Nat.add_right_cancel_iff, opsWeight, mkOp]
    split <;> simp
  · simp [if_neg h]

theorem F_zero (H : Ham) (n : Nat) (s t : List Bool) :
    F H 0 n s t = if s = t ∧ 0 = n then 1 else 0 := by
  unfold F; rw [sum_slotsF_zero, term_nil]

theorem F_succ_zero (H : Ham) (L : Nat) (s t : List Bool) : F H (L + 1) 0 s t = F H L 0 s t := by
  unfold F
  rw [sum_slotsF_succ]
  rw [Finset.sum_congr rfl (fun tl _ => term_none H 0 s t tl)]
  rw [Finset.sum_eq_zero (s := opsF H) (fun o _ => Finset.sum_eq_zero (fun tl _ => term_some_zero H s t o tl))]
  rw [add_zero]

theorem F_succ_succ (H : Ham) (N L n : Nat) (s t : List Bool) (hV : VarsOK H N) (hs : s.length = N) :
    F H (L + 1) (n + 1) s t
      = F H L (n + 1) s t + ∑ b ∈ range H.nbonds, ∑ o ∈ pats (H.vars b).length,
          H.w b (readVars s (H.vars b)) o * F H L n (writeVars s (H.vars b) o) t := by
  unfold F
  rw [sum_slotsF_succ, Finset.sum_congr rfl (fun tl _ => term_none H (n + 1) s t tl)]
  refine congrArg _ ?_
  rw [sum_opsF]
  refine Finset.sum_congr rfl (fun b hb => ?_)
  have hb' : b < H.nbonds := Finset.mem_range.mp hb
  have hr : ∀ v ∈ H.vars b, v < s.length := fun v hv => by rw [hs]; exact (hV b hb').2 v hv
  rw [Finset.sum_eq_single (readVars s (H.vars b))]
  · refine Finset.sum_congr rfl (fun o _ => ?_)
    rw [Finset.mul_sum]
    refine Finset.sum_congr rfl (fun tl _ => ?_)
    rw [term_some_succ H n s t b _ o tl (readVars_length _ _) hr, if_pos rfl]
  · intro i hi hne
    refine Finset.sum_eq_zero (fun o _ => Finset.sum_eq_zero (fun tl _ => ?_))
    rw [term_some_succ H n s t b i o tl (mem_pats.mp hi) hr, if_neg hne]
  · intro hnot
    exact absurd (mem_pats.mpr (readVars_length _ _)) hnot

/-- **Pascal**: the strings with `L` slots and `n` operators carry `C(L,n)` times the weight of the bare words -/
theorem F_eq (H : Ham) (N : Nat) (hV : VarsOK H N) (t : List Bool) :
    ∀ (L n : Nat) (s : List Bool), s.length = N → F H L n s t = (L.choose n : ℚ) * W H n s t := by
  intro L
  induction L with
  | zero =>
    intro n s _
    rw [F_zero]
    cases n with
    | zero => simp [W]
    | succ n => simp
  | succ L ih =>
    intro n s hs
    cases n with
    | zero => rw [F_succ_zero, ih 0 s hs]; simp
    | succ n =>
      rw [F_succ_succ H N L n s t hV hs, ih (n + 1) s hs, Nat.choose_succ_succ]
      have inner : ∑ b ∈ range H.nbonds, ∑ o ∈ pats (H.vars b).length,
            H.w b (readVars s (H.vars b)) o * F H L n (writeVars s (H.vars b) o) t
          = (L.choose n : ℚ) * W H (n + 1) s t := by
        simp only [W]
        rw [Finset.mul_sum]
        refine Finset.sum_congr rfl (fun b _ => ?_)
        rw [Finset.mul_sum]
        refine Finset.sum_congr rfl (fun o _ => ?_)
        rw [ih n _ (by rw [length_writeVars]; exact hs)]
        ring
      rw [inner]
      push_cast
      ring

/-- `W` is the sum over bond words of QmcProofs/PathSum.lean's `configSum` -/
theorem W_eq_words (H : Ham) (t : List Bool) : ∀ (n : Nat) (s : List Bool),
    W H n s t = ∑ p : Fin n → Fin H.nbonds, configSum H (List.ofFn fun i => (p i).val) s t := by
  intro n
  induction n with
  | zero => intro s; simp [W, configSum]
  | succ n ih =>
    intro s
    rw [← Fintype.sum_equiv (Fin.consEquiv (fun _ => Fin H.nbonds))
      (fun x => configSum H (List.ofFn fun i => ((Fin.cons x.1 x.2 : Fin (n + 1) → Fin H.nbonds) i).val) s t)
      (fun p => configSum H (List.ofFn fun i => (p i).val) s t) (fun x => rfl)]
    rw [Fintype.sum_prod_type]
    simp only [W]
    rw [← Fin.sum_univ_eq_sum_range (fun b => ∑ o ∈ pats (H.vars b).length,
      H.w b (readVars s (H.vars b)) o * W H n (writeVars s (H.vars b) o) t) H.nbonds]
    refine Finset.sum_congr rfl (fun b _ => ?_)
    have hcons : ∀ q : Fin n → Fin H.nbonds,
        configSum H (List.ofFn fun i => ((Fin.cons b q : Fin (n + 1) → Fin H.nbonds) i).val) s t
          = ∑ o ∈ pats (H.vars b.val).length, H.w b.val (readVars s (H.vars b.val)) o
              * configSum H (List.ofFn fun i => (q i).val) (writeVars s (H.vars b.val) o) t := by
      intro q
      rw [List.ofFn_succ]
      simp only [Fin.cons_zero, Fin.cons_succ, configSum]
      rw [sum_patterns_eq]
    rw [Finset.sum_congr rfl (fun q _ => hcons q), Finset.sum_comm]
    refine Finset.sum_congr rfl (fun o _ => ?_)
    rw [ih, Finset.mul_sum]

/-! ### `configWeight` of a string in terms of `term` -/

theorem fact_eq_factorial : ∀ n, fact n = n.factorial
  | 0 => rfl
  | n + 1 => by rw [fact, Nat.factorial_succ, fact_eq_factorial n]

/-- the combinatorial factor of a configuration with `n` operators among `L` slots -/
def coef (β : ℚ) (L n : Nat) : ℚ := β ^ n * ((L - n).factorial / L.factorial)

theorem configWeight_eq (H : Ham) (β : ℚ) (α : List Bool) (sl : Slots) :
    configWeight H β ⟨α, sl⟩ = coef β sl.length (countOps sl) * opsWeight H sl := by
  simp only [configWeight, coef, fact_eq_factorial]
  rw [mul_div_assoc]

theorem cut_configWeight_eq_sum_term (H : Ham) (β : ℚ) (L : Nat) (α : List Bool) (sl : Slots)
    (hl : sl.length = L) :
    (if propagate α sl = some α then configWeight H β ⟨α, sl⟩ else 0)
      = ∑ n ∈ range (L + 1), coef β L n * term H n α α sl := by
  have hc : countOps sl ∈ range (L + 1) := by
    rw [Finset.mem_range, ← hl]; exact Nat.lt_succ_of_le (countOps_le_length sl)
  rw [Finset.sum_eq_single (countOps sl)]
  · unfold term
    rw [configWeight_eq, hl]
    by_cases h : propagate α sl = some α <;> simp [h]
  · intro n _ hne
    unfold term
    rw [if_neg (fun h => hne h.2.symm), mul_zero]
  · intro h; exact absurd hc h

/-- summed over all strings: the cut-down weight is `Σ_n βⁿ (L−n)!/L! · F L n α α` -/
theorem sum_slotsF_configWeight (H : Ham) (β : ℚ) (L : Nat) (α : List Bool) :
    ∑ sl ∈ (slotsF H L).filter (fun sl => propagate α sl = some α), configWeight H β ⟨α, sl⟩
      = ∑ n ∈ range (L + 1), coef β L n * F H L n α α := by
  rw [Finset.sum_filter]
  rw [Finset.sum_congr rfl (fun sl hsl =>
    cut_configWeight_eq_sum_term H β L α sl (mem_slotsF.mp hsl).1)]
  rw [Finset.sum_comm]
  refine Finset.sum_congr rfl (fun n _ => ?_)
  unfold F
  rw [Finset.mul_sum]

/-- … which is the left-hand side of `SSEConfig.config_weight_marginal` -/
theorem sum_slotsF_eq_taylor (H : Ham) (N : Nat) (β : ℚ) (L : Nat) (α : St N) (hV : VarsOK H N) :
    ∑ sl ∈ (slotsF H L).filter (fun sl => propagate α.1 sl = some α.1), configWeight H β ⟨α.1, sl⟩
      = ∑ n ∈ range (L + 1), β ^ n / n.factorial
          * ((∑ b : Fin H.nbonds, bondMatrix H N b.val) ^ n) α α := by
  have hα : α.1.length = N := by
    have h := α.2
    rw [List.mem_toFinset] at h
    exact mem_patterns.mp h
  rw [sum_slotsF_configWeight]
  rw [← config_weight_marginal H N H.nbonds β L α (fun b hb => (hV b hb).1) (fun b hb => (hV b hb).2)]
  refine Finset.sum_congr rfl (fun n _ => ?_)
  rw [Finset.sum_const, card_powersetCard, card_range, nsmul_eq_mul, ← Finset.mul_sum,
    F_eq H N hV α.1 L n α.1 hα, W_eq_words]
  unfold coef
  ring

/-! ### configurations of `cfgSpace` with canonical tags ↔ canonical operator strings -/

theorem mem_opsOf_iff : ∀ {s : Slots} {o : Op}, o ∈ opsOf s ↔ some o ∈ s
  | [], o => by simp [opsOf]
  | none :: t, o => by simp [opsOf, mem_opsOf_iff (s := t)]
  | some o' :: t, o => by
    simp only [opsOf, List.mem_cons, Option.some.injEq, mem_opsOf_iff (s := t)]

/-- the two spellings of "canonical tags" (C09's `TagCanon`, Refinement's `TagCanonS`) -/
theorem tagCanon_iff (s : Slots) :
    TagCanon s ↔ ∀ o, some o ∈ s → o.tagDiag = decide (o.ins = o.outs) := by
  unfold TagCanon
  constructor
  · intro h o ho
    rw [h o (mem_opsOf_iff.mpr ho)]
    by_cases e : o.ins = o.outs <;> simp [e]
  · intro h o ho
    rw [h o (mem_opsOf_iff.mp ho)]
    by_cases e : o.ins = o.outs <;> simp [e]

/-- for a configuration of the space: its string is a canonical string iff its tags are canonical -/
theorem slots_mem_slotsF_iff {H : Ham} {N L : Nat} {c : Config} (hc : c ∈ cfgSpace H N L) :
    c.slots ∈ slotsF H L ↔ TagCanon c.slots := by
  rw [mem_cfgSpace] at hc
  rw [mem_slotsF, tagCanon_iff]
  constructor
  · intro h o ho; exact (h.2 o ho).2
  · intro h; exact ⟨hc.2.1, fun o ho => ⟨hc.2.2 o ho, h o ho⟩⟩

/-- **re-indexing**: a sum over the configurations of the space with state `α`, canonical tags and a further property
`Q` of the operator string is a sum over canonical operator strings -/
theorem sum_cfgSpace_eq_sum_slotsF {M : Type*} [AddCommMonoid M] (H : Ham) (N L : Nat) (α : List Bool)
    (hα : α.length = N) (P : Config → Prop) (Q : Slots → Prop)
    [DecidablePred fun c : Config => P c ∧ c.state = α] [DecidablePred Q]
    (hPQ : ∀ c ∈ cfgSpace H N L, c.state = α → (P c ↔ TagCanon c.slots ∧ Q c.slots)) (f : Config → M) :
    ∑ c ∈ (cfgSpace H N L).filter (fun c => P c ∧ c.state = α), f c
      = ∑ sl ∈ (slotsF H L).filter Q, f ⟨α, sl⟩ := by
  refine Finset.sum_nbij' (fun c => c.slots) (fun sl => ⟨α, sl⟩) ?_ ?_ ?_ ?_ ?_
  · intro c hc
    simp only [Finset.mem_filter] at hc ⊢
    obtain ⟨hc, hP, hst⟩ := hc
    have := (hPQ c hc hst).mp hP
    exact ⟨(slots_mem_slotsF_iff hc).mpr this.1, this.2⟩
  · intro sl hsl
    simp only [Finset.mem_filter] at hsl ⊢
    obtain ⟨hsl, hQ⟩ := hsl
    have hmem : (⟨α, sl⟩ : Config) ∈ cfgSpace H N L := by
      rw [mem_cfgSpace]
      obtain ⟨hl, ho⟩ := mem_slotsF.mp hsl
      exact ⟨hα, hl, fun o h => (ho o h).1⟩
    exact ⟨hmem, (hPQ _ hmem rfl).mpr ⟨(slots_mem_slotsF_iff hmem).mp hsl, hQ⟩, trivial⟩
  · intro c hc
    simp only [Finset.mem_filter] at hc
    obtain ⟨-, -, hst⟩ := hc
    cases c; simp only at hst; subst hst; rfl
  · intro sl _; rfl
  · intro c hc
    simp only [Finset.mem_filter] at hc
    obtain ⟨-, -, hst⟩ := hc
    cases c; simp only at hst; subst hst; rfl

/-! ### `Good` on the configuration space -/

/-- every stored matrix element is positive -/
def PosW (H : Ham) (sl : Slots) : Prop := ∀ o, some o ∈ sl → 0 < H.w o.bond o.ins o.outs

/-- on the configuration space of a Hamiltonian with distinct in-range variables, `Good` (`Consistent ∧ Legal`) is
consistent ∧ canonical tags ∧ positive matrix elements — everything else `Legal` asks for is part of the shape -/
theorem good_iff_struct {H : Ham} {N L : Nat} (hV : VarsOK H N) {c : Config} (hc : c ∈ cfgSpace H N L) :
    Good H c ↔ Consistent c ∧ TagCanon c.slots ∧ PosW H c.slots := by
  rw [tagCanon_iff]
  constructor
  · intro h
    exact ⟨h.consistent, h.tag, fun o ho => (h.legal o ho).2.2.2.2.2⟩
  · rintro ⟨h1, h2, h3⟩
    refine ⟨h1, fun o ho => ?_⟩
    obtain ⟨hb, hv, hcst, hi, hu⟩ := (mem_cfgSpace.mp hc).2.2 o ho
    have ht := h2 o ho
    refine ⟨hb, hv, hcst, ?_, ⟨hi, hu, by rw [hv]; exact (hV o.bond hb).1, ?_⟩, h3 o ho⟩
    · rw [ht]; simp
    · intro htd; rw [ht] at htd; exact (of_decide_eq_true htd).symm

theorem opsWeight_eq_zero (H : Ham) : ∀ (sl : Slots) (o : Op), some o ∈ sl →
    H.w o.bond o.ins o.outs = 0 → opsWeight H sl = 0
  | [], o, h, _ => by simp at h
  | none :: t, o, h, h0 => by
    simp only [opsWeight]
    exact opsWeight_eq_zero H t o (by simpa using h) h0
  | some o' :: t, o, h, h0 => by
    simp only [opsWeight]
    rcases List.mem_cons.mp h with e | h
    · simp only [Option.some.injEq] at e; subst e; rw [h0, zero_mul]
    · rw [opsWeight_eq_zero H t o h h0, mul_zero]

/-- a canonical string with a non-positive stored matrix element has weight 0 when `H.w ≥ 0` -/
theorem configWeight_eq_zero_of_not_posW (H : Ham) (β : ℚ) (L : Nat) (α : List Bool) (sl : Slots)
    (hw : ∀ b < H.nbonds, ∀ i o, 0 ≤ H.w b i o) (hsl : sl ∈ slotsF H L) (h : ¬ PosW H sl) :
    configWeight H β ⟨α, sl⟩ = 0 := by
  unfold PosW at h
  simp only [not_forall, not_lt] at h
  obtain ⟨o, ho, hle⟩ := h
  have hb := ((mem_slotsF.mp hsl).2 o ho).1.1
  have h0 : H.w o.bond o.ins o.outs = 0 := le_antisymm hle (hw o.bond hb o.ins o.outs)
  rw [configWeight_eq, opsWeight_eq_zero H sl o ho h0, mul_zero]

/-! ### T1: the state marginal

The finset filters take their decidability instances as arguments, so the theorems apply whatever instance the
caller's filter was built with (`Classical.decPred _` in particular). -/

theorem length_of_st {N : Nat} (α : St N) : α.1.length = N := by
  have h := α.2
  rw [List.mem_toFinset] at h
  exact mem_patterns.mp h

/-- **T1, structural cut** (no sign hypothesis): the total SSE weight of the consistent, canonically tagged
configurations of `cfgSpace H N L` whose state is `α` is `⟨α| Σ_{n≤L} (βM)ⁿ/n! |α⟩`. -/
theorem config_marginal_struct (H : Ham) (N : Nat) (β : ℚ) (L : Nat) (α : St N) (hV : VarsOK H N)
    [DecidablePred fun c : Config => (Consistent c ∧ TagCanon c.slots) ∧ c.state = α.1] :
    ∑ c ∈ (cfgSpace H N L).filter (fun c => (Consistent c ∧ TagCanon c.slots) ∧ c.state = α.1),
        configWeight H β c
      = ∑ n ∈ range (L + 1), β ^ n / n.factorial
          * ((∑ b : Fin H.nbonds, bondMatrix H N b.val) ^ n) α α := by
  classical
  rw [sum_cfgSpace_eq_sum_slotsF H N L α.1 (length_of_st α) (fun c => Consistent c ∧ TagCanon c.slots)
    (fun sl => propagate α.1 sl = some α.1)
    (fun c _ hst => by
      unfold Consistent; rw [hst]
      exact ⟨fun h => ⟨h.2, h.1⟩, fun h => ⟨h.2, h.1⟩⟩)]
  exact sum_slotsF_eq_taylor H N β L α hV

/-- **T1 (state marginal of the SSE measure on the sampler's configuration space).** For a Hamiltonian whose bonds
act on distinct variables `< N` and whose matrix elements are non-negative, any `β`, any number of slots `L` and any
basis state `α`: the total weight `βⁿ (L−n)!/L! · Π⟨outs|M_b|ins⟩` of the configurations `c ∈ cfgSpace H N L` with
`Good H c` (`Consistent c ∧ Legal H c`, QmcProofs/Good.lean) and `c.state = α` is the diagonal entry
`⟨α| Σ_{n≤L} (βM)ⁿ/n! |α⟩` of the degree-`L` Taylor polynomial of `e^{βM}`, `M = Σ_b M_b`. -/
theorem config_marginal (H : Ham) (N : Nat) (β : ℚ) (L : Nat) (α : St N) (hV : VarsOK H N)
    (hw : ∀ b < H.nbonds, ∀ i o, 0 ≤ H.w b i o)
    [DecidablePred fun c : Config => Good H c ∧ c.state = α.1] :
    ∑ c ∈ (cfgSpace H N L).filter (fun c => Good H c ∧ c.state = α.1), configWeight H β c
      = ∑ n ∈ range (L + 1), β ^ n / n.factorial
          * ((∑ b : Fin H.nbonds, bondMatrix H N b.val) ^ n) α α := by
  classical
  rw [sum_cfgSpace_eq_sum_slotsF H N L α.1 (length_of_st α) (Good H)
    (fun sl => propagate α.1 sl = some α.1 ∧ PosW H sl)
    (fun c hc hst => by
      rw [good_iff_struct hV hc]
      unfold Consistent; rw [hst]
      exact ⟨fun h => ⟨h.2.1, h.1, h.2.2⟩, fun h => ⟨h.2.1, h.1, h.2.2⟩⟩)]
  rw [← sum_slotsF_eq_taylor H N β L α hV]
  refine Finset.sum_subset ?_ ?_
  · intro sl hsl
    simp only [Finset.mem_filter] at hsl ⊢
    exact ⟨hsl.1, hsl.2.1⟩
  · intro sl hsl hnot
    simp only [Finset.mem_filter] at hsl hnot
    exact configWeight_eq_zero_of_not_posW H β L α.1 sl hw hsl.1 (fun hp => hnot ⟨hsl.1, hsl.2, hp⟩)

/-- **the re-indexing itself**: the sum over the Good configurations of the space with state `α` IS the sum of
`SSEConfig.config_weight_marginal` over (number of operators, placement, bond word) of the sums `configSum` over
consistent outputs — the two index sets carry the same total weight. -/
theorem config_marginal_reindex (H : Ham) (N : Nat) (β : ℚ) (L : Nat) (α : St N) (hV : VarsOK H N)
    (hw : ∀ b < H.nbonds, ∀ i o, 0 ≤ H.w b i o)
    [DecidablePred fun c : Config => Good H c ∧ c.state = α.1] :
    ∑ c ∈ (cfgSpace H N L).filter (fun c => Good H c ∧ c.state = α.1), configWeight H β c
      = ∑ n ∈ range (L + 1), ∑ _pos ∈ powersetCard n (range L), ∑ p : Fin n → Fin H.nbonds,
          β ^ n * ((L - n).factorial / L.factorial)
            * configSum H (List.ofFn fun i => (p i).val) α.1 α.1 := by
  rw [config_marginal H N β L α hV hw,
    config_weight_marginal H N H.nbonds β L α (fun b hb => (hV b hb).1) (fun b hb => (hV b hb).2)]

/-! ### T2: the partition function -/

/-- summing a state marginal over the `2^N` basis states -/
theorem sum_over_states (H : Ham) (N L : Nat) (P : Config → Prop) (f : Config → ℚ) [DecidablePred P]
    [∀ a : List Bool, DecidablePred fun c : Config => P c ∧ c.state = a] :
    ∑ c ∈ (cfgSpace H N L).filter P, f c
      = ∑ α : St N, ∑ c ∈ (cfgSpace H N L).filter (fun c => P c ∧ c.state = α.1), f c := by
  rw [Finset.sum_coe_sort (patterns N).toFinset
    (fun a => ∑ c ∈ (cfgSpace H N L).filter (fun c => P c ∧ c.state = a), f c)]
  rw [← Finset.sum_fiberwise_of_maps_to (s := (cfgSpace H N L).filter P) (t := (patterns N).toFinset)
    (g := fun c => c.state)]
  · refine Finset.sum_congr rfl (fun a _ => ?_)
    refine Finset.sum_congr ?_ (fun _ _ => rfl)
    ext c; simp only [Finset.mem_filter, and_assoc]
  · intro c hc
    rw [Finset.mem_filter, mem_cfgSpace] at hc
    rw [List.mem_toFinset]
    exact mem_patterns.mpr hc.1.1

/-- **T2, structural cut**: `Σ_{c consistent, canonical tags} configWeight = Σ_{n≤L} βⁿ/n! · Tr(Mⁿ)` -/
theorem config_partition_struct (H : Ham) (N : Nat) (β : ℚ) (L : Nat) (hV : VarsOK H N)
    [DecidablePred fun c : Config => Consistent c ∧ TagCanon c.slots] :
    ∑ c ∈ (cfgSpace H N L).filter (fun c => Consistent c ∧ TagCanon c.slots), configWeight H β c
      = ∑ n ∈ range (L + 1), β ^ n / n.factorial
          * Matrix.trace ((∑ b : Fin H.nbonds, bondMatrix H N b.val) ^ n) := by
  classical
  rw [sum_over_states]
  rw [Finset.sum_congr rfl (fun α _ => config_marginal_struct H N β L α hV)]
  rw [Finset.sum_comm]
  refine Finset.sum_congr rfl (fun n _ => ?_)
  rw [← Finset.mul_sum]
  rfl

/-- **T2 (truncated partition function on the sampler's configuration space).** The total SSE weight of the `Good`
configurations of `cfgSpace H N L` is `Σ_α ⟨α|T_L(βM)|α⟩ = Σ_{n≤L} βⁿ/n! · Tr(Mⁿ)`, the degree-`L` Taylor polynomial of
`Tr e^{βM}`. -/
theorem config_partition (H : Ham) (N : Nat) (β : ℚ) (L : Nat) (hV : VarsOK H N)
    (hw : ∀ b < H.nbonds, ∀ i o, 0 ≤ H.w b i o) [DecidablePred fun c : Config => Good H c] :
    ∑ c ∈ (cfgSpace H N L).filter (fun c => Good H c), configWeight H β c
      = ∑ n ∈ range (L + 1), β ^ n / n.factorial
          * Matrix.trace ((∑ b : Fin H.nbonds, bondMatrix H N b.val) ^ n) := by
  classical
  rw [sum_over_states]
  rw [Finset.sum_congr rfl (fun α _ => config_marginal H N β L α hV hw)]
  rw [Finset.sum_comm]
  refine Finset.sum_congr rfl (fun n _ => ?_)
  rw [← Finset.mul_sum]
  rfl

/-! ### the value, computably (for concrete instances) -/

theorem list_range_sum (f : Nat → ℚ) (n : Nat) :
    ((List.range n).map f).sum = ∑ i ∈ range n, f i := by
  induction n with
  | zero => simp
  | succ n ih => rw [List.range_succ, List.map_append, List.sum_append, ih, Finset.sum_range_succ]; simp

/-- `W` with list sums only (`⟨t|Mⁿ|s⟩` as the kernel can evaluate it) -/
def Wl (H : Ham) : Nat → List Bool → List Bool → ℚ
  | 0, s, t => if s = t then 1 else 0
  | n + 1, s, t => ((List.range H.nbonds).map fun b => ((patterns (H.vars b).length).map fun o =>
      H.w b (readVars s (H.vars b)) o * Wl H n (writeVars s (H.vars b) o) t).sum).sum

theorem W_eq_Wl (H : Ham) (t : List Bool) : ∀ (n : Nat) (s : List Bool), W H n s t = Wl H n s t
  | 0, s => rfl
  | n + 1, s => by
    simp only [W, Wl]
    rw [list_range_sum]
    refine Finset.sum_congr rfl (fun b _ => ?_)
    rw [sum_patterns_eq]
    refine Finset.sum_congr rfl (fun o _ => ?_)
    rw [W_eq_Wl H t n]

/-- `⟨α| Σ_{n≤L} (βM)ⁿ/n! |α⟩` computed with lists and rationals only -/
def marginalValue (H : Ham) (β : ℚ) (L : Nat) (α : List Bool) : ℚ :=
  ((List.range (L + 1)).map fun n => β ^ n / n.factorial * Wl H n α α).sum

/-- **T1, evaluated**: the state marginal equals the list expression `marginalValue` (used by the non-vacuity
examples to exhibit the number) -/
theorem config_marginal_value (H : Ham) (N : Nat) (β : ℚ) (L : Nat) (α : St N) (hV : VarsOK H N)
    (hw : ∀ b < H.nbonds, ∀ i o, 0 ≤ H.w b i o)
    [DecidablePred fun c : Config => Good H c ∧ c.state = α.1] :
    ∑ c ∈ (cfgSpace H N L).filter (fun c => Good H c ∧ c.state = α.1), configWeight H β c
      = marginalValue H β L α.1 := by
  classical
  rw [config_marginal H N β L α hV hw, ← sum_slotsF_eq_taylor H N β L α hV, sum_slotsF_configWeight]
  unfold marginalValue
  rw [list_range_sum]
  refine Finset.sum_congr rfl (fun n hn => ?_)
  have hnL : n ≤ L := Nat.lt_succ_iff.mp (Finset.mem_range.mp hn)
  rw [F_eq H N hV α.1 L n α.1 (length_of_st α), W_eq_Wl]
  have := placement_weight L n hnL
  unfold coef
  calc β ^ n * ((L - n).factorial / L.factorial : ℚ) * ((L.choose n : ℚ) * Wl H n α.1 α.1)
      = β ^ n * ((L.choose n : ℚ) * ((L - n).factorial / L.factorial)) * Wl H n α.1 α.1 := by ring
    _ = β ^ n / n.factorial * Wl H n α.1 α.1 := by rw [this]; ring

end Qmc.Marginal
