import QmcProofs.Classical
import QmcProofs.MarkovUnique

/-!
# Irreducibility of the classical sampler's kernels (`/repo/src/classical/graph.rs`)

Kernels: `Qmc.Classical.spinKernel` (one `do_spin_flip`), `edgeKernel` (one `do_edge_flip`),
`stepKernel … ns ne = mix (1/2) (iter spinKernel ns) (iter edgeKernel ne)` (one
`do_time_step(.., only_basic_moves = true)`), exactly as used by `Qmc.C19.step_invariant`.

Facts proved here (all `n ≥ 1` spins, all graphs, all `β`):

* one spin update reaches every single-flip neighbour with positive probability
  (`spinKernel_flip_pos`: the acceptance `min 1 (exp(−βΔE))` is never `0`), so `spinKernel` is
  irreducible (`spinKernel_irreducible`) and has symmetric support;
* a state with a possible rejection (`acc < 1`, i.e. `β > 0` and `ΔE > 0`) has positive holding
  probability (`spinKernel_self_pos`), hence **every** `ns ≥ 1`-fold iterate is irreducible
  (`spinIter_irreducible_of_reject`); an **odd** number of updates is irreducible without any
  condition (`spinIter_irreducible_of_odd`); the time-step kernel inherits this
  (`stepKernel_irreducible`), the edge half only has to be non-negative;
* **parity obstruction**: when no proposal is ever rejected (`β = 0`, or `β < 0`, or an energy
  that no single flip can raise, i.e. a constant energy) every accepted spin update toggles the
  parity of the number of up spins and every edge update conserves it, so a time step with an
  **even** `ns` conserves the parity (`stepKernel_conserves_parity`): the step kernel is reducible
  (`stepKernel_not_irreducible`).  Together: `stepKernel_irreducible_iff`.
-/

open Finset

namespace Qmc.ClassicalErgodic

open Qmc Qmc.Classical Qmc.Dist Qmc.Markov

variable {n : Nat}

/-! ### single flips connect all configurations -/

/-- Induction along single flips: a property that holds at `x` and is inherited by every
single-site flip holds at every configuration (fix the sites `0, 1, …, n-1` one after the other). -/
theorem flip_induction (P : Cfg n → Prop) (x y : Cfg n) (hx : P x)
    (hstep : ∀ z (i : Fin n), P z → P (flipN i.val z)) : P y := by
  have key : ∀ k, k ≤ n → P (fun j : Fin n => if j.val < k then y j else x j) := by
    intro k
    induction k with
    | zero =>
      intro _
      simpa using hx
    | succ k ih =>
      intro hk
      have hk' : k < n := hk
      have hz := ih (Nat.le_of_lt hk')
      by_cases hxy : x ⟨k, hk'⟩ = y ⟨k, hk'⟩
      · have e : (fun j : Fin n => if j.val < k + 1 then y j else x j)
            = (fun j : Fin n => if j.val < k then y j else x j) := by
          funext j
          by_cases h1 : j.val < k
          · simp [h1, Nat.lt_succ_of_lt h1]
          · by_cases h2 : j.val = k
            · have : j = ⟨k, hk'⟩ := Fin.ext h2
              subst this
              simp [hxy]
            · have h3 : ¬ j.val < k + 1 := by omega
              simp [h1, h3]
        rw [e]
        exact hz
      · have e : (fun j : Fin n => if j.val < k + 1 then y j else x j)
            = flipN (⟨k, hk'⟩ : Fin n).val (fun j : Fin n => if j.val < k then y j else x j) := by
          funext j
          by_cases h1 : j.val < k
          · have h2 : ¬ j.val = k := by omega
            simp [flipN, h1, h2, Nat.lt_succ_of_lt h1]
          · by_cases h2 : j.val = k
            · have : j = ⟨k, hk'⟩ := Fin.ext h2
              subst this
              have hb : y ⟨k, hk'⟩ = !x ⟨k, hk'⟩ := by
                cases hx' : x ⟨k, hk'⟩ <;> cases hy' : y ⟨k, hk'⟩ <;> simp_all
              simp [flipN, hb]
            · have h3 : ¬ j.val < k + 1 := by omega
              simp [flipN, h1, h2, h3]
        rw [e]
        exact hstep _ _ hz
  have e : (fun j : Fin n => if j.val < n then y j else x j) = y := by
    funext j
    simp [j.isLt]
  rw [← e]
  exact key n le_rfl

/-! ### the acceptance probability -/

theorem acc_pos (β : ℝ) (de : ℚ) : 0 < acc β de := by
  unfold acc
  split
  · exact lt_min zero_lt_one (Real.exp_pos _)
  · exact zero_lt_one

/-- at `β = 0` every proposal is accepted -/
theorem acc_beta_zero (de : ℚ) : acc 0 de = 1 := by
  unfold acc
  split
  · simp
  · rfl

/-- a proposal can be rejected iff `β > 0` and it raises the energy -/
theorem acc_lt_one_iff (β : ℝ) (de : ℚ) : acc β de < 1 ↔ 0 < β ∧ 0 < de := by
  unfold acc
  constructor
  · intro h
    by_cases hde : 0 < de
    · rw [if_pos hde] at h
      refine ⟨?_, hde⟩
      have hde' : (0 : ℝ) < (de : ℝ) := by exact_mod_cast hde
      by_contra hβ
      have : (1 : ℝ) ≤ Real.exp (-β * (de : ℝ)) := by
        rw [Real.one_le_exp_iff]
        nlinarith [not_lt.mp hβ]
      rw [min_eq_left this] at h
      exact lt_irrefl _ h
    · rw [if_neg hde] at h
      exact absurd h (lt_irrefl _)
  · rintro ⟨hβ, hde⟩
    have hde' : (0 : ℝ) < (de : ℝ) := by exact_mod_cast hde
    rw [if_pos hde]
    refine lt_of_le_of_lt (min_le_right _ _) ?_
    rw [Real.exp_lt_one_iff]
    nlinarith

/-! ### entries of the spin kernel -/

/-- acceptance probability of the spin move at site `i` in configuration `x` -/
noncomputable def accAt (edges : List Edge) (biases : List Rat) (β : ℝ) (x : Cfg n) (i : Fin n) : ℝ :=
  acc β (spinDelta (bindingMat edges n) biases (toL x) i.val)

/-- "no proposal of the spin move is ever rejected" -/
def NoReject (edges : List Edge) (biases : List Rat) (β : ℝ) (n : Nat) : Prop :=
  ∀ (x : Cfg n) (i : Fin n), accAt edges biases β x i = 1

theorem spinKernel_apply (edges : List Edge) (biases : List Rat) (β : ℝ) (x y : Cfg n) :
    spinKernel edges biases β x y =
      ∑ i : Fin n, (1 / (n : ℝ)) * ((if y = flipN i.val x then accAt edges biases β x i else 0)
        + (if y = x then 1 - accAt edges biases β x i else 0)) := rfl

theorem spin_term_nonneg (edges : List Edge) (biases : List Rat) (β : ℝ) (x y : Cfg n) (i : Fin n) :
    0 ≤ (1 / (n : ℝ)) * ((if y = flipN i.val x then accAt edges biases β x i else 0)
        + (if y = x then 1 - accAt edges biases β x i else 0)) := by
  refine mul_nonneg (by positivity) (add_nonneg ?_ ?_)
  · split_ifs
    · exact acc_nonneg _ _
    · exact le_rfl
  · split_ifs
    · exact sub_nonneg.mpr (acc_le_one _ _)
    · exact le_rfl

theorem spinKernel_nonneg (edges : List Edge) (biases : List Rat) (β : ℝ) :
    Nonneg (spinKernel edges biases β (n := n)) := fun x y => by
  rw [spinKernel_apply]
  exact Finset.sum_nonneg (fun i _ => spin_term_nonneg edges biases β x y i)

/-- every single-flip neighbour is reached with positive probability, for every `β` and every
energy function (the Metropolis acceptance is never zero) -/
theorem spinKernel_flip_pos (edges : List Edge) (biases : List Rat) (β : ℝ) (hn : 0 < n)
    (x : Cfg n) (i : Fin n) : 0 < spinKernel edges biases β x (flipN i.val x) := by
  rw [spinKernel_apply]
  have hn' : (0 : ℝ) < (n : ℝ) := by exact_mod_cast hn
  refine lt_of_lt_of_le ?_ (Finset.single_le_sum
    (f := fun j : Fin n => (1 / (n : ℝ)) * ((if flipN i.val x = flipN j.val x
        then accAt edges biases β x j else 0)
      + (if flipN i.val x = x then 1 - accAt edges biases β x j else 0)))
    (fun j _ => spin_term_nonneg edges biases β x (flipN i.val x) j) (Finset.mem_univ i))
  simp only [if_true]
  refine mul_pos (by positivity) (add_pos_of_pos_of_nonneg (acc_pos _ _) ?_)
  split_ifs
  · exact sub_nonneg.mpr (acc_le_one _ _)
  · exact le_rfl

/-- a configuration with a proposal that can be rejected is held with positive probability -/
theorem spinKernel_self_pos (edges : List Edge) (biases : List Rat) (β : ℝ) (hn : 0 < n)
    (x : Cfg n) (i : Fin n) (hrej : accAt edges biases β x i < 1) :
    0 < spinKernel edges biases β x x := by
  rw [spinKernel_apply]
  have hn' : (0 : ℝ) < (n : ℝ) := by exact_mod_cast hn
  refine lt_of_lt_of_le ?_ (Finset.single_le_sum
    (f := fun j : Fin n => (1 / (n : ℝ)) * ((if x = flipN j.val x
        then accAt edges biases β x j else 0)
      + (if x = x then 1 - accAt edges biases β x j else 0)))
    (fun j _ => spin_term_nonneg edges biases β x x j) (Finset.mem_univ i))
  simp only [if_true]
  refine mul_pos (by positivity) (add_pos_of_nonneg_of_pos ?_ (sub_pos.mpr hrej))
  split_ifs
  · exact acc_nonneg _ _
  · exact le_rfl

/-- support of one spin update: stay, or flip one site -/
theorem spinKernel_support (edges : List Edge) (biases : List Rat) (β : ℝ) (x y : Cfg n)
    (h : spinKernel edges biases β x y ≠ 0) : y = x ∨ ∃ i : Fin n, y = flipN i.val x := by
  by_contra hne
  push Not at hne
  apply h
  rw [spinKernel_apply]
  refine Finset.sum_eq_zero (fun i _ => ?_)
  rw [if_neg (hne.2 i), if_neg hne.1, add_zero, mul_zero]

/-- without rejections the spin update always flips exactly one site -/
theorem spinKernel_support_noReject (edges : List Edge) (biases : List Rat) (β : ℝ)
    (hacc : NoReject edges biases β n) (x y : Cfg n) (h : spinKernel edges biases β x y ≠ 0) :
    ∃ i : Fin n, y = flipN i.val x := by
  by_contra hne
  push Not at hne
  apply h
  rw [spinKernel_apply]
  refine Finset.sum_eq_zero (fun i _ => ?_)
  rw [if_neg (hne i), hacc x i, sub_self, ite_self, add_zero, mul_zero]

/-- the support of the spin kernel is symmetric -/
theorem spinKernel_support_symm (edges : List Edge) (biases : List Rat) (β : ℝ) (hn : 0 < n)
    (x y : Cfg n) (h : 0 < spinKernel edges biases β x y) : 0 < spinKernel edges biases β y x := by
  rcases spinKernel_support edges biases β x y h.ne' with e | ⟨i, e⟩
  · rw [e] at h ⊢
    exact h
  · have : x = flipN i.val y := by rw [e, flipN_flipN]
    rw [this]
    exact spinKernel_flip_pos edges biases β hn y i

/-- **One spin update is an irreducible kernel** (every `β`, every graph, `n ≥ 1`). -/
theorem spinKernel_irreducible (edges : List Edge) (biases : List Rat) (β : ℝ) (hn : 0 < n) :
    Markov.Irreducible (spinKernel edges biases β (n := n)) := by
  rw [irreducible_iff_reach (spinKernel_nonneg edges biases β)]
  intro x y
  refine flip_induction (fun z => Relation.ReflTransGen (Step (spinKernel edges biases β)) x z)
    x y Relation.ReflTransGen.refl (fun z i hz => hz.tail ?_)
  exact spinKernel_flip_pos edges biases β hn z i

/-! ### iterates of the spin update and the time-step kernel -/

/-- **`ns ≥ 1` spin updates are irreducible as soon as one proposal can be rejected.** -/
theorem spinIter_irreducible_of_reject (edges : List Edge) (biases : List Rat) (β : ℝ) (hn : 0 < n)
    {ns : Nat} (hns : 1 ≤ ns) (hrej : ∃ (x : Cfg n) (i : Fin n), accAt edges biases β x i < 1) :
    Markov.Irreducible (Dist.iter (spinKernel edges biases β (n := n)) ns) := by
  obtain ⟨x, i, h⟩ := hrej
  exact irreducible_iter_of_loop (spinKernel_nonneg edges biases β)
    (spinKernel_irreducible edges biases β hn) (spinKernel_self_pos edges biases β hn x i h) hns

/-- **An odd number of spin updates is irreducible**, whatever `β` and the energy. -/
theorem spinIter_irreducible_of_odd (edges : List Edge) (biases : List Rat) (β : ℝ) (hn : 0 < n)
    (k : Nat) : Markov.Irreducible (Dist.iter (spinKernel edges biases β (n := n)) (2 * k + 1)) :=
  irreducible_iter_of_odd (spinKernel_nonneg edges biases β)
    (spinKernel_irreducible edges biases β hn) (spinKernel_support_symm edges biases β hn) k

/-- the condition under which the chain is irreducible: an odd number of spin updates, or at
least one spin update and a proposal that can be rejected -/
def Mixing (edges : List Edge) (biases : List Rat) (β : ℝ) (n ns : Nat) : Prop :=
  ns % 2 = 1 ∨ (1 ≤ ns ∧ ∃ (x : Cfg n) (i : Fin n), accAt edges biases β x i < 1)

theorem spinIter_irreducible (edges : List Edge) (biases : List Rat) (β : ℝ) (hn : 0 < n)
    {ns : Nat} (h : Mixing edges biases β n ns) :
    Markov.Irreducible (Dist.iter (spinKernel edges biases β (n := n)) ns) := by
  rcases h with h | ⟨h1, h2⟩
  · have : ns = 2 * (ns / 2) + 1 := by omega
    rw [this]
    exact spinIter_irreducible_of_odd edges biases β hn _
  · exact spinIter_irreducible_of_reject edges biases β hn h1 h2

theorem edgeKernel_nonneg (edges : List Edge) (biases : List Rat) (β : ℝ)
    (q : Fin edges.length → ℝ) (hq0 : ∀ k, 0 ≤ q k) :
    Nonneg (edgeKernel edges biases β q (n := n)) := fun x y =>
  show 0 ≤ wsum q _ x y from Finset.sum_nonneg (fun k _ => mul_nonneg (hq0 k)
    ((stochastic_metropolis (fun _ => acc_nonneg _ _) (fun _ => acc_le_one _ _)).1 x y))

/-- **The `{spin + edge}` time step is irreducible** under `Mixing`; the edge half only has to
be a non-negative kernel (`q ≥ 0`, no normalisation needed). -/
theorem stepKernel_irreducible (edges : List Edge) (biases : List Rat) (β : ℝ) (hn : 0 < n)
    (q : Fin edges.length → ℝ) (hq0 : ∀ k, 0 ≤ q k) {ns : Nat} (ne : Nat)
    (h : Mixing edges biases β n ns) :
    Markov.Irreducible (stepKernel edges biases β q ns ne (n := n)) :=
  irreducible_mix_left (p := 1 / 2) (nonneg_iter (spinKernel_nonneg edges biases β) ns)
    (nonneg_iter (edgeKernel_nonneg edges biases β q hq0) ne)
    (spinIter_irreducible edges biases β hn h) (by norm_num) (by norm_num)

theorem stepKernel_nonneg (edges : List Edge) (biases : List Rat) (β : ℝ)
    (q : Fin edges.length → ℝ) (hq0 : ∀ k, 0 ≤ q k) (ns ne : Nat) :
    Nonneg (stepKernel edges biases β q ns ne (n := n)) :=
  nonneg_mix (p := 1 / 2) (nonneg_iter (spinKernel_nonneg edges biases β) ns)
    (nonneg_iter (edgeKernel_nonneg edges biases β q hq0) ne) (by norm_num) (by norm_num)

/-! ### primitivity (irreducible and aperiodic) when a proposal can be rejected -/

/-- with a rejectable proposal one spin update is a primitive kernel: all `m`-step probabilities
are positive from some `m` on -/
theorem spinKernel_primitive (edges : List Edge) (biases : List Rat) (β : ℝ) (hn : 0 < n)
    (hrej : ∃ (x : Cfg n) (i : Fin n), accAt edges biases β x i < 1) :
    Primitive (spinKernel edges biases β (n := n)) := by
  obtain ⟨x, i, h⟩ := hrej
  exact primitive_of_loop (spinKernel_nonneg edges biases β)
    (spinKernel_irreducible edges biases β hn) (spinKernel_self_pos edges biases β hn x i h)

/-- … and so is the `{spin + edge}` time step with `ns ≥ 1` -/
theorem stepKernel_primitive (edges : List Edge) (biases : List Rat) (β : ℝ) (hn : 0 < n)
    (q : Fin edges.length → ℝ) (hq0 : ∀ k, 0 ≤ q k) {ns : Nat} (hns : 1 ≤ ns) (ne : Nat)
    (hrej : ∃ (x : Cfg n) (i : Fin n), accAt edges biases β x i < 1) :
    Primitive (stepKernel edges biases β q ns ne (n := n)) :=
  primitive_mix_left (p := 1 / 2) (nonneg_iter (spinKernel_nonneg edges biases β) ns)
    (nonneg_iter (edgeKernel_nonneg edges biases β q hq0) ne)
    (primitive_iter (spinKernel_primitive edges biases β hn hrej) hns) (by norm_num) (by norm_num)

/-! ### the hypothesis in terms of `β` and the reported energy -/

/-- `Mixing`'s rejection clause, spelled out: `β > 0` and some single flip raises `ΔE`. -/
theorem exists_reject_iff (edges : List Edge) (biases : List Rat) (β : ℝ) :
    (∃ (x : Cfg n) (i : Fin n), accAt edges biases β x i < 1) ↔
      0 < β ∧ ∃ (x : Cfg n) (i : Fin n), 0 < spinDelta (bindingMat edges n) biases (toL x) i.val := by
  constructor
  · rintro ⟨x, i, h⟩
    have := (acc_lt_one_iff _ _).mp h
    exact ⟨this.1, x, i, this.2⟩
  · rintro ⟨hβ, x, i, h⟩
    exact ⟨x, i, (acc_lt_one_iff _ _).mpr ⟨hβ, h⟩⟩

/-- `NoReject` is the negation of the rejection clause -/
theorem noReject_iff_not_exists (edges : List Edge) (biases : List Rat) (β : ℝ) :
    NoReject edges biases β n ↔ ¬ ∃ (x : Cfg n) (i : Fin n), accAt edges biases β x i < 1 := by
  unfold NoReject
  constructor
  · rintro h ⟨x, i, hx⟩
    rw [h x i] at hx
    exact lt_irrefl _ hx
  · intro h x i
    by_contra hne
    exact h ⟨x, i, lt_of_le_of_ne (acc_le_one _ _) hne⟩

theorem noReject_beta_zero (edges : List Edge) (biases : List Rat) : NoReject edges biases 0 n :=
  fun _ _ => acc_beta_zero _

/-- For a well-formed graph without self-loops: some single flip raises the energy iff the
reported energy is not constant. -/
theorem exists_uphill_iff_energy_not_const (edges : List Edge) (biases : List Rat)
    (hwf : WF edges n) (hns : NoSelfLoops edges) :
    (∃ (x : Cfg n) (i : Fin n), 0 < spinDelta (bindingMat edges n) biases (toL x) i.val) ↔
      ∃ x y : Cfg n, reportedE edges biases x ≠ reportedE edges biases y := by
  constructor
  · rintro ⟨x, i, h⟩
    refine ⟨flipN i.val x, x, fun e => ?_⟩
    rw [reportedE_flipN edges biases hwf hns i.val i.isLt x, e, sub_self] at h
    exact lt_irrefl _ h
  · rintro ⟨x, y, hxy⟩
    by_contra hno
    push Not at hno
    apply hxy
    have hflip : ∀ (z : Cfg n) (i : Fin n),
        reportedE edges biases (flipN i.val z) = reportedE edges biases z := by
      intro z i
      have h1 := hno z i
      have h2 := hno (flipN i.val z) i
      rw [reportedE_flipN edges biases hwf hns i.val i.isLt] at h1 h2
      rw [flipN_flipN] at h2
      linarith
    symm
    exact flip_induction (fun z => reportedE edges biases z = reportedE edges biases x) x y rfl
      (fun z i hz => (hflip z i).trans hz)

/-- `Mixing` in terms of the inputs of the sampler: an odd number of spin updates, or at least one
spin update, `β > 0` and a reported energy that is not constant. -/
theorem mixing_iff (edges : List Edge) (biases : List Rat) (β : ℝ) (hwf : WF edges n)
    (hns : NoSelfLoops edges) (ns : Nat) :
    Mixing edges biases β n ns ↔
      (ns % 2 = 1 ∨ (1 ≤ ns ∧ 0 < β ∧
        ∃ x y : Cfg n, reportedE edges biases x ≠ reportedE edges biases y)) := by
  unfold Mixing
  rw [exists_reject_iff, exists_uphill_iff_energy_not_const edges biases hwf hns]

/-! ### parity of the number of up spins -/

/-- number of up spins -/
def ups (x : Cfg n) : Nat := ∑ j : Fin n, if x j then 1 else 0

/-- parity of the number of up spins -/
def oddUps (x : Cfg n) : Bool := decide (ups x % 2 = 1)

theorem ups_flipN (i : Fin n) (x : Cfg n) :
    ups (flipN i.val x) + (if x i then 1 else 0) = ups x + (if x i then 0 else 1) := by
  unfold ups
  rw [← Finset.add_sum_erase Finset.univ (fun j : Fin n => if flipN i.val x j then 1 else 0)
      (Finset.mem_univ i),
    ← Finset.add_sum_erase Finset.univ (fun j : Fin n => if x j then 1 else 0) (Finset.mem_univ i)]
  have hrest : ∑ j ∈ Finset.univ.erase i, (if flipN i.val x j then 1 else 0)
      = ∑ j ∈ Finset.univ.erase i, (if x j then 1 else 0) := by
    refine Finset.sum_congr rfl (fun j hj => ?_)
    have hji : j.val ≠ i.val := fun e => (Finset.ne_of_mem_erase hj) (Fin.ext e)
    simp [flipN, hji]
  rw [hrest]
  have hi : flipN i.val x i = !x i := by simp [flipN]
  rw [hi]
  cases x i <;> simp <;> omega

/-- a single flip toggles the parity -/
theorem oddUps_flipN (i : Fin n) (x : Cfg n) : oddUps (flipN i.val x) = !oddUps x := by
  have h := ups_flipN i x
  unfold oddUps
  cases hx : x i <;> simp only [hx, if_true, Bool.false_eq_true, if_false] at h
  · by_cases hp : ups x % 2 = 1
    · have : ¬ ups (flipN i.val x) % 2 = 1 := by omega
      simp [hp, this]
    · have : ups (flipN i.val x) % 2 = 1 := by omega
      simp [hp, this]
  · by_cases hp : ups x % 2 = 1
    · have : ¬ ups (flipN i.val x) % 2 = 1 := by omega
      simp [hp, this]
    · have : ups (flipN i.val x) % 2 = 1 := by omega
      simp [hp, this]

/-- flipping two sites in range conserves the parity (also when they coincide) -/
theorem oddUps_flip2 (a b : Nat) (ha : a < n) (hb : b < n) (x : Cfg n) :
    oddUps (flipN b (flipN a x)) = oddUps x := by
  have h1 := oddUps_flipN (⟨b, hb⟩ : Fin n) (flipN a x)
  have h2 := oddUps_flipN (⟨a, ha⟩ : Fin n) x
  simp only at h1 h2
  rw [h1, h2, Bool.not_not]

/-- without rejections every spin update toggles the parity -/
theorem spinKernel_toggles (edges : List Edge) (biases : List Rat) (β : ℝ)
    (hacc : NoReject edges biases β n) (x y : Cfg n) (h : spinKernel edges biases β x y ≠ 0) :
    oddUps y = !oddUps x := by
  obtain ⟨i, rfl⟩ := spinKernel_support_noReject edges biases β hacc x y h
  exact oddUps_flipN i x

/-- without rejections the spin-only chain has period 2: after an odd number of updates the
start configuration (indeed every configuration of the same parity) has probability `0` -/
theorem spinIter_odd_return_zero (edges : List Edge) (biases : List Rat) (β : ℝ)
    (hacc : NoReject edges biases β n) (k : Nat) (x : Cfg n) :
    Dist.iter (spinKernel edges biases β) (2 * k + 1) x x = 0 := by
  by_contra h
  have := toggled_iter_odd oddUps (spinKernel_toggles edges biases β hacc) k x x h
  cases hx : oddUps x <;> simp [hx] at this

/-- every edge update conserves the parity (it flips two sites or nothing) -/
theorem edgeKernel_conserves (edges : List Edge) (biases : List Rat) (β : ℝ) (hwf : WF edges n)
    (q : Fin edges.length → ℝ) (x y : Cfg n) (h : edgeKernel edges biases β q x y ≠ 0) :
    oddUps y = oddUps x := by
  unfold edgeKernel wsum at h
  obtain ⟨k, _, hk⟩ := Finset.exists_ne_zero_of_sum_ne_zero h
  have hm := right_ne_zero_of_mul hk
  have hmem : edges[k] ∈ edges := List.getElem_mem _
  have hr := hwf _ hmem
  by_cases e1 : y = x
  · rw [e1]
  · by_cases e2 : y = flipN (edges[k]).1.2 (flipN (edges[k]).1.1 x)
    · rw [e2]
      exact oddUps_flip2 _ _ hr.1 hr.2 x
    · exact absurd (by simp only [metropolis, if_neg e1, if_neg e2, add_zero]) hm

/-- the spin half of a time step conserves the parity when `ns = 0`, or `ns` is even and no
proposal is rejected -/
theorem spinIter_conserves (edges : List Edge) (biases : List Rat) (β : ℝ) {ns : Nat}
    (h : ns = 0 ∨ (ns % 2 = 0 ∧ NoReject edges biases β n)) (x y : Cfg n)
    (hxy : Dist.iter (spinKernel edges biases β) ns x y ≠ 0) : oddUps y = oddUps x := by
  rcases h with h | ⟨h1, h2⟩
  · subst h
    by_cases e : x = y
    · rw [e]
    · exact absurd (by simp [idK, e]) hxy
  · have : ns = 2 * (ns / 2) := by omega
    rw [this] at hxy
    exact toggled_iter_even oddUps (spinKernel_toggles edges biases β h2) _ x y hxy

/-- **Parity obstruction.**  A `{spin + edge}` time step with an even number of spin updates
none of which can be rejected conserves the parity of the number of up spins. -/
theorem stepKernel_conserves_parity (edges : List Edge) (biases : List Rat) (β : ℝ)
    (hwf : WF edges n) (q : Fin edges.length → ℝ) {ns : Nat} (ne : Nat)
    (h : ns = 0 ∨ (ns % 2 = 0 ∧ NoReject edges biases β n)) (x y : Cfg n)
    (hxy : stepKernel edges biases β q ns ne x y ≠ 0) : oddUps y = oddUps x := by
  by_cases hs : Dist.iter (spinKernel edges biases β) ns x y = 0
  · by_cases he : Dist.iter (edgeKernel edges biases β q) ne x y = 0
    · exact absurd (by simp [stepKernel, mix, hs, he]) hxy
    · exact conserved_iter oddUps (edgeKernel_conserves edges biases β hwf q) ne x y he
  · exact spinIter_conserves edges biases β h x y hs

/-- the all-down configuration and the one with only site `0` up have different parities -/
theorem parity_not_constant (hn : 0 < n) :
    oddUps (flipN (⟨0, hn⟩ : Fin n).val (fun _ : Fin n => false)) ≠ oddUps (fun _ : Fin n => false) := by
  rw [oddUps_flipN]
  cases oddUps (fun _ : Fin n => false) <;> simp

/-- … therefore that step kernel is reducible. -/
theorem stepKernel_not_irreducible (edges : List Edge) (biases : List Rat) (β : ℝ) (hn : 0 < n)
    (hwf : WF edges n) (q : Fin edges.length → ℝ) {ns : Nat} (ne : Nat)
    (h : ns = 0 ∨ (ns % 2 = 0 ∧ NoReject edges biases β n)) :
    ¬ Markov.Irreducible (stepKernel edges biases β q ns ne (n := n)) :=
  not_irreducible_of_conserved oddUps (stepKernel_conserves_parity edges biases β hwf q ne h)
    (parity_not_constant hn)

/-- `¬ Mixing` is exactly the hypothesis of the parity obstruction -/
theorem not_mixing_iff (edges : List Edge) (biases : List Rat) (β : ℝ) (ns : Nat) :
    ¬ Mixing edges biases β n ns ↔ (ns = 0 ∨ (ns % 2 = 0 ∧ NoReject edges biases β n)) := by
  unfold Mixing
  rw [noReject_iff_not_exists]
  constructor
  · intro h
    push Not at h
    by_cases h0 : ns = 0
    · exact Or.inl h0
    · refine Or.inr ⟨by omega, ?_⟩
      rintro ⟨x, i, hx⟩
      exact absurd hx (not_lt.mpr (h.2 (by omega) x i))
  · rintro (h | ⟨h1, h2⟩) (h3 | ⟨h3, h4⟩)
    · omega
    · omega
    · omega
    · exact h2 h4

/-- **Characterisation.**  For `n ≥ 1` spins, a well-formed graph and non-negative edge
selection weights, the `{spin + edge}` time-step kernel is irreducible **iff** the number of spin
updates is odd, or it is `≥ 1` and some proposal can be rejected. -/
theorem stepKernel_irreducible_iff (edges : List Edge) (biases : List Rat) (β : ℝ) (hn : 0 < n)
    (hwf : WF edges n) (q : Fin edges.length → ℝ) (hq0 : ∀ k, 0 ≤ q k) (ns ne : Nat) :
    Markov.Irreducible (stepKernel edges biases β q ns ne (n := n)) ↔ Mixing edges biases β n ns := by
  constructor
  · intro hirr
    by_contra hm
    exact stepKernel_not_irreducible edges biases β hn hwf q ne
      ((not_mixing_iff edges biases β ns).mp hm) hirr
  · exact stepKernel_irreducible edges biases β hn q hq0 ne

end Qmc.ClassicalErgodic
