/-
Path balance of the directed loop along the model's own trace.

`loopTrace` records the vertex visits of a run (position, entrance, chosen exit, the op as it was
before the visit). Each visit contributes `exitProb_balance` (local detailed balance of the
heat-bath exit choice), the links between visits contribute nothing, the product of the stored
matrix elements changes by exactly the visited ops, and the start leg is chosen with the
skeleton invariant probability `1/(2Σk)`. Telescoping gives
`W(c) · P_start · Π P(visit) = W(c') · P_start' · Π P(reverse visit)`.
-/
import QmcProofs.LoopSingleSite

namespace Qmc.LoopC
open Qmc

/-! ### skeleton preservation, unconditionally -/

theorem loopBody_skeleton (w : Nat → List Bool → List Bool → Rat) (init : Nat × Leg) (pos : Nat)
    (ent : Leg) (s : LoopSt) : skeletonOf (loopBody w init pos ent s).1.slots = skeletonOf s.slots := by
  rcases loopBody_slots w init pos ent s with heq | ⟨op, ex, hop, _, _, heq⟩
  · rw [heq]
  · rw [heq]
    obtain ⟨fv, fb, fc⟩ := passThrough_fields op ent ex
    exact skeletonOf_set s.slots pos op _ hop fv fb fc

theorem loopIter_skeleton (w : Nat → List Bool → List Bool → Rat) (init : Nat × Leg) (fuel pos : Nat)
    (ent : Leg) (s : LoopSt) : skeletonOf (loopIter w init fuel pos ent s).slots = skeletonOf s.slots := by
  induction fuel generalizing pos ent s with
  | zero => rfl
  | succ f ih =>
    have h := loopBody_skeleton w init pos ent s
    unfold loopIter
    split
    · rename_i s' heq; rw [heq] at h; exact h
    · rename_i s' p e heq; rw [heq] at h; rw [ih, h]

/-- the loop update never changes positions, bonds, variables, constant flags — for every input -/
theorem loopUpdate_skeleton (w : Nat → List Bool → List Bool → Rat) (cfg : Config) (rs : RS) :
    skeletonOf (loopUpdate w cfg rs).1.slots = skeletonOf cfg.slots := by
  unfold loopUpdate
  split
  · rfl
  · split
    · rfl
    · exact loopIter_skeleton w _ _ _ _ _

/-! ### the chosen exit of a visit, and the trace of a run -/

/-- the op found at `pos` and the exit leg the visit `(pos, ent)` chooses (`none`: an error exit
before the op is rewritten) — the same computation as in `loopBody` -/
def exitOf (w : Nat → List Bool → List Bool → Rat) (pos : Nat) (ent : Leg) (s : LoopSt) :
    Option (Op × Leg) :=
  match s.slots[pos]? with
  | some (some op) =>
    let k := op.vars.length
    let ws := exitWeights (w op.bond) (op.ins, op.outs) ent k
    let total := sumR ws
    let (c, rs) := s.rs.genRangeF total
    if rs.panicked || rs.short then none else
    match pickIdx c ws with
    | none => none
    | some j => some (op, (legsOf k).getD j default)
  | _ => none

/-- what `loopBody` writes, in terms of `exitOf` -/
theorem loopBody_slots_exitOf (w : Nat → List Bool → List Bool → Rat) (init : Nat × Leg) (pos : Nat)
    (ent : Leg) (s : LoopSt) :
    (loopBody w init pos ent s).1.slots =
      match exitOf w pos ent s with
      | some (op, ex) => s.slots.set pos (some (passThrough op ent ex))
      | none => s.slots := by
  unfold loopBody exitOf
  cases hs : s.slots[pos]? with
  | none => rfl
  | some y =>
    cases y with
    | none => rfl
    | some op =>
      simp only
      by_cases hfl : ((s.rs.genRangeF (sumR (exitWeights (w op.bond) (op.ins, op.outs) ent op.vars.length))).2.panicked ||
          (s.rs.genRangeF (sumR (exitWeights (w op.bond) (op.ins, op.outs) ent op.vars.length))).2.short) = true
      · rw [if_pos hfl, if_pos hfl]
      · rw [if_neg hfl, if_neg hfl]
        cases hp : pickIdx (s.rs.genRangeF (sumR (exitWeights (w op.bond) (op.ins, op.outs) ent op.vars.length))).1
            (exitWeights (w op.bond) (op.ins, op.outs) ent op.vars.length) with
        | none => rfl
        | some j =>
          simp only
          split
          · rfl
          · split
            · split <;> rfl
            · rfl

theorem exitOf_some {w : Nat → List Bool → List Bool → Rat} {pos : Nat} {ent : Leg} {s : LoopSt}
    {op : Op} {ex : Leg} (h : exitOf w pos ent s = some (op, ex)) :
    s.slots[pos]? = some (some op) ∧ ex.rel < op.vars.length ∧
      0 < exitWeight (w op.bond) (op.ins, op.outs) ent ex := by
  unfold exitOf at h
  split at h
  · rename_i op0 hop
    simp only at h
    split at h
    · cases h
    · split at h
      · cases h
      · rename_i j hj
        injection h with h; injection h with h1 h2
        subst h1
        have hc := genRangeF_nonneg s.rs (sumR (exitWeights (w op0.bond) (op0.ins, op0.outs) ent op0.vars.length))
        obtain ⟨x, hx, hpos⟩ := pickIdx_pos hc hj
        have hjl := pickIdx_lt hj
        simp only [exitWeights, List.length_map] at hjl
        have hleg : (legsOf op0.vars.length).getD j default = (legsOf op0.vars.length)[j] := by
          simp [List.getD, List.getElem?_eq_getElem hjl]
        rw [← h2, hleg]
        refine ⟨hop, (mem_legsOf _ _).mp (List.getElem_mem hjl), ?_⟩
        simp only [exitWeights, List.getElem?_map, List.getElem?_eq_getElem hjl, Option.map_some,
          Option.some.injEq] at hx
        rw [hx]; exact hpos
  · cases h


/-- `loopBody_cases` with the exit named by `exitOf` -/
theorem loopBody_cases' (w : Nat → List Bool → List Bool → Rat) (init : Nat × Leg) (pos : Nat)
    (ent : Leg) (s : LoopSt) :
    ((loopBody w init pos ent s).2 = none ∧
      ((loopBody w init pos ent s).1.rs.panicked = true ∨ (loopBody w init pos ent s).1.rs.short = true)) ∨
    ∃ op ex, exitOf w pos ent s = some (op, ex) ∧
      (((pos, ex) = init ∧ (loopBody w init pos ent s).2 = none) ∨
      ((pos, ex) ≠ init ∧ ∃ st' p' r',
          moveOn s.slots s.state pos (passThrough op ent ex) ex = (st', some (p', r')) ∧
          (((p', (⟨r', !ex.out⟩ : Leg)) = init ∧ (loopBody w init pos ent s).2 = none) ∨
           ((p', (⟨r', !ex.out⟩ : Leg)) ≠ init ∧
              (loopBody w init pos ent s).2 = some (p', ⟨r', !ex.out⟩))))) := by
  unfold loopBody exitOf
  cases hs : s.slots[pos]? with
  | none => left; exact ⟨rfl, Or.inl rfl⟩
  | some y =>
    cases y with
    | none => left; exact ⟨rfl, Or.inl rfl⟩
    | some op =>
      simp only
      by_cases hfl : ((s.rs.genRangeF (sumR (exitWeights (w op.bond) (op.ins, op.outs) ent op.vars.length))).2.panicked ||
          (s.rs.genRangeF (sumR (exitWeights (w op.bond) (op.ins, op.outs) ent op.vars.length))).2.short) = true
      · rw [if_pos hfl, if_pos hfl]
        left
        refine ⟨rfl, ?_⟩
        simpa using hfl
      · rw [if_neg hfl, if_neg hfl]
        cases hp : pickIdx (s.rs.genRangeF (sumR (exitWeights (w op.bond) (op.ins, op.outs) ent op.vars.length))).1
            (exitWeights (w op.bond) (op.ins, op.outs) ent op.vars.length) with
        | none => left; exact ⟨rfl, Or.inl rfl⟩
        | some j =>
          simp only
          split
          · rename_i hinit
            right
            exact ⟨op, _, rfl, Or.inl ⟨hinit, rfl⟩⟩
          · rename_i hinit
            split
            · rename_i st' p' r' hmv
              right
              split
              · rename_i h2
                exact ⟨op, _, rfl, Or.inr ⟨hinit, st', p', r', hmv, Or.inl ⟨h2, rfl⟩⟩⟩
              · rename_i h2
                exact ⟨op, _, rfl, Or.inr ⟨hinit, st', p', r', hmv, Or.inr ⟨h2, rfl⟩⟩⟩
            · left; exact ⟨rfl, Or.inl rfl⟩


/-- one vertex visit of a run: where, entered through which leg, left through which leg, and the
op as it was before the visit -/
structure Visit where
  pos : Nat
  ent : Leg
  ex : Leg
  op : Op

def visitHere (w : Nat → List Bool → List Bool → Rat) (pos : Nat) (ent : Leg) (s : LoopSt) :
    List Visit :=
  match exitOf w pos ent s with
  | some (op, ex) => [⟨pos, ent, ex, op⟩]
  | none => []

/-- the visits of `loopIter`, in order -/
def loopTrace (w : Nat → List Bool → List Bool → Rat) (init : Nat × Leg) :
    Nat → Nat → Leg → LoopSt → List Visit
  | 0, _, _, _ => []
  | fuel + 1, pos, ent, s =>
    match loopBody w init pos ent s with
    | (_, none) => visitHere w pos ent s
    | (s', some (p, e)) => visitHere w pos ent s ++ loopTrace w init fuel p e s'

/-- the visits of `loopUpdate` -/
def loopUpdateTrace (w : Nat → List Bool → List Bool → Rat) (cfg : Config) (rs : RS) : List Visit :=
  if countOps cfg.slots = 0 then [] else
  match loopStart cfg.slots rs with
  | (none, _) => []
  | (some (p, leg), rs) =>
    loopTrace w (p, leg) (rs.script.length + 1) p leg { state := cfg.state, slots := cfg.slots, rs := rs }

/-! ### weights and probabilities along a trace -/

/-- product of the stored matrix elements: the SSE weight of the configuration up to the factor
`β^n (L-n)!/L!`, which a loop update (same `n`, same `L`) does not change -/
def slotsWeight (w : Nat → List Bool → List Bool → Rat) : Slots → Rat
  | [] => 1
  | none :: t => slotsWeight w t
  | some op :: t => w op.bond op.ins op.outs * slotsWeight w t

def opW (w : Nat → List Bool → List Bool → Rat) (op : Op) : Rat := w op.bond op.ins op.outs

def Visit.after (v : Visit) : Op := passThrough v.op v.ent v.ex

/-- probability of the exits taken: `Π_i P(op_i; ent_i → ex_i)` -/
def pathProb (w : Nat → List Bool → List Bool → Rat) : List Visit → Rat
  | [] => 1
  | v :: t => exitProb (w v.op.bond) (v.op.ins, v.op.outs) v.ent v.ex v.op.vars.length * pathProb w t

/-- probability of the reverse exits on the rewritten ops: `Π_i P(op_i'; ex_i → ent_i)` — what the
walk that retraces the loop backwards (entering each rewritten vertex through the old exit and
leaving through the old entrance) has to choose -/
def pathProbRev (w : Nat → List Bool → List Bool → Rat) : List Visit → Rat
  | [] => 1
  | v :: t =>
    exitProb (w v.op.bond) (flipIO (flipIO (v.op.ins, v.op.outs) v.ent) v.ex) v.ex v.ent v.op.vars.length
      * pathProbRev w t

def prodBefore (w : Nat → List Bool → List Bool → Rat) : List Visit → Rat
  | [] => 1
  | v :: t => opW w v.op * prodBefore w t

def prodAfter (w : Nat → List Bool → List Bool → Rat) : List Visit → Rat
  | [] => 1
  | v :: t => opW w v.after * prodAfter w t

theorem opW_after (w : Nat → List Bool → List Bool → Rat) (v : Visit) :
    opW w v.after = exitWeight (w v.op.bond) (v.op.ins, v.op.outs) v.ent v.ex := by
  unfold opW Visit.after exitWeight
  have h1 := passThrough_io v.op v.ent v.ex
  have h2 := (passThrough_fields v.op v.ent v.ex).2.1
  rw [h2]
  simp only
  rw [← h1]

/-- **telescoping the local balance**: `Π W(op_i) · Π P_i = Π W(op_i') · Π P_i^rev` -/
theorem path_local_balance (w : Nat → List Bool → List Bool → Rat) (tr : List Visit) :
    prodBefore w tr * pathProb w tr = prodAfter w tr * pathProbRev w tr := by
  induction tr with
  | nil => rfl
  | cons v t ih =>
    simp only [prodBefore, pathProb, prodAfter, pathProbRev]
    have hb := exitProb_balance (w v.op.bond) (v.op.ins, v.op.outs) v.ent v.ex v.op.vars.length
    have ha : opW w v.after = w v.op.bond (flipIO (flipIO (v.op.ins, v.op.outs) v.ent) v.ex).1
        (flipIO (flipIO (v.op.ins, v.op.outs) v.ent) v.ex).2 := by
      rw [opW_after]; rfl
    have hbefore : opW w v.op = w v.op.bond v.op.ins v.op.outs := rfl
    rw [ha, hbefore]
    simp only at hb
    calc w v.op.bond v.op.ins v.op.outs * prodBefore w t *
          (exitProb (w v.op.bond) (v.op.ins, v.op.outs) v.ent v.ex v.op.vars.length * pathProb w t)
        = (w v.op.bond v.op.ins v.op.outs *
            exitProb (w v.op.bond) (v.op.ins, v.op.outs) v.ent v.ex v.op.vars.length) *
            (prodBefore w t * pathProb w t) := by ring
      _ = _ := by rw [hb, ih]; ring

theorem slotsWeight_set (w : Nat → List Bool → List Bool → Rat) (slots : Slots) (pos : Nat)
    (op op' : Op) (h : slots[pos]? = some (some op)) :
    slotsWeight w (slots.set pos (some op')) * opW w op = slotsWeight w slots * opW w op' := by
  induction slots generalizing pos with
  | nil => simp at h
  | cons x t ih =>
    cases pos with
    | zero =>
      simp only [List.getElem?_cons_zero, Option.some.injEq] at h
      subst h
      simp only [List.set_cons_zero, slotsWeight, opW]
      ring
    | succ p =>
      simp only [List.getElem?_cons_succ] at h
      have := ih p h
      cases x with
      | none => simpa [slotsWeight] using this
      | some o =>
        simp only [List.set_cons_succ, slotsWeight]
        calc w o.bond o.ins o.outs * slotsWeight w (t.set p (some op')) * opW w op
            = w o.bond o.ins o.outs * (slotsWeight w (t.set p (some op')) * opW w op) := by ring
          _ = _ := by rw [this]; ring

/-- the visit(s) recorded at one `loopBody` call account for its change of the weight -/
theorem loopBody_weight (w : Nat → List Bool → List Bool → Rat) (init : Nat × Leg) (pos : Nat)
    (ent : Leg) (s : LoopSt) :
    slotsWeight w (loopBody w init pos ent s).1.slots * prodBefore w (visitHere w pos ent s) =
      slotsWeight w s.slots * prodAfter w (visitHere w pos ent s) := by
  rw [loopBody_slots_exitOf]
  unfold visitHere
  cases h : exitOf w pos ent s with
  | none => simp [prodBefore, prodAfter]
  | some q =>
    obtain ⟨op, ex⟩ := q
    simp only [prodBefore, prodAfter, mul_one, Visit.after]
    exact slotsWeight_set w s.slots pos op _ (exitOf_some h).1

theorem prodBefore_append (w : Nat → List Bool → List Bool → Rat) (a b : List Visit) :
    prodBefore w (a ++ b) = prodBefore w a * prodBefore w b := by
  induction a with
  | nil => simp [prodBefore]
  | cons v t ih => simp only [List.cons_append, prodBefore, ih]; ring

theorem prodAfter_append (w : Nat → List Bool → List Bool → Rat) (a b : List Visit) :
    prodAfter w (a ++ b) = prodAfter w a * prodAfter w b := by
  induction a with
  | nil => simp [prodAfter]
  | cons v t ih => simp only [List.cons_append, prodAfter, ih]; ring

/-- the weight of the final string against the weight of the initial one -/
theorem loopIter_weight (w : Nat → List Bool → List Bool → Rat) (init : Nat × Leg) (fuel pos : Nat)
    (ent : Leg) (s : LoopSt) :
    slotsWeight w (loopIter w init fuel pos ent s).slots * prodBefore w (loopTrace w init fuel pos ent s) =
      slotsWeight w s.slots * prodAfter w (loopTrace w init fuel pos ent s) := by
  induction fuel generalizing pos ent s with
  | zero => simp [loopIter, loopTrace, prodBefore, prodAfter]
  | succ f ih =>
    have hb := loopBody_weight w init pos ent s
    unfold loopIter loopTrace
    rcases heq : loopBody w init pos ent s with ⟨s', _ | ⟨p, e⟩⟩
    · rw [heq] at hb
      exact hb
    · rw [heq] at hb
      simp only at hb ⊢
      rw [prodBefore_append, prodAfter_append]
      have := ih p e s'
      calc slotsWeight w (loopIter w init f p e s').slots *
            (prodBefore w (visitHere w pos ent s) * prodBefore w (loopTrace w init f p e s'))
          = (slotsWeight w (loopIter w init f p e s').slots * prodBefore w (loopTrace w init f p e s')) *
              prodBefore w (visitHere w pos ent s) := by ring
        _ = slotsWeight w s'.slots * prodBefore w (visitHere w pos ent s) *
              prodAfter w (loopTrace w init f p e s') := by rw [this]; ring
        _ = _ := by rw [hb]; ring

/-- every rewritten op along the trace has a strictly positive matrix element -/
theorem visitHere_after_pos (w : Nat → List Bool → List Bool → Rat) (pos : Nat) (ent : Leg)
    (s : LoopSt) : 0 < prodAfter w (visitHere w pos ent s) := by
  unfold visitHere
  cases h : exitOf w pos ent s with
  | none => simp [prodAfter]
  | some q =>
    obtain ⟨op, ex⟩ := q
    simp only [prodAfter, mul_one]
    rw [opW_after]
    exact (exitOf_some h).2.2

theorem loopTrace_after_pos (w : Nat → List Bool → List Bool → Rat) (init : Nat × Leg) (fuel pos : Nat)
    (ent : Leg) (s : LoopSt) : 0 < prodAfter w (loopTrace w init fuel pos ent s) := by
  induction fuel generalizing pos ent s with
  | zero => simp [loopTrace, prodAfter]
  | succ f ih =>
    unfold loopTrace
    rcases loopBody w init pos ent s with ⟨s', _ | ⟨p, e⟩⟩
    · exact visitHere_after_pos w pos ent s
    · simp only
      rw [prodAfter_append]
      exact mul_pos (visitHere_after_pos w pos ent s) (ih _ _ _)

/-- **path balance of `loopIter`** (without the start factor) -/
theorem loopIter_path_balance (w : Nat → List Bool → List Bool → Rat) (init : Nat × Leg)
    (fuel pos : Nat) (ent : Leg) (s : LoopSt) :
    slotsWeight w s.slots * pathProb w (loopTrace w init fuel pos ent s) =
      slotsWeight w (loopIter w init fuel pos ent s).slots *
        pathProbRev w (loopTrace w init fuel pos ent s) := by
  have h1 := loopIter_weight w init fuel pos ent s
  have h2 := path_local_balance w (loopTrace w init fuel pos ent s)
  have h3 := loopTrace_after_pos w init fuel pos ent s
  have h4 : (slotsWeight w s.slots * pathProb w (loopTrace w init fuel pos ent s)) *
        prodAfter w (loopTrace w init fuel pos ent s) =
      (slotsWeight w (loopIter w init fuel pos ent s).slots *
        pathProbRev w (loopTrace w init fuel pos ent s)) *
        prodAfter w (loopTrace w init fuel pos ent s) := by
    calc _ = (slotsWeight w s.slots * prodAfter w (loopTrace w init fuel pos ent s)) *
              pathProb w (loopTrace w init fuel pos ent s) := by ring
      _ = slotsWeight w (loopIter w init fuel pos ent s).slots *
            (prodBefore w (loopTrace w init fuel pos ent s) *
              pathProb w (loopTrace w init fuel pos ent s)) := by rw [← h1]; ring
      _ = _ := by rw [h2]; ring
  exact mul_right_cancel₀ (ne_of_gt h3) h4

/-- **path balance of `loopUpdate`**, matrix-element part -/
theorem loopUpdate_path_balance (w : Nat → List Bool → List Bool → Rat) (cfg : Config) (rs : RS) :
    slotsWeight w cfg.slots * pathProb w (loopUpdateTrace w cfg rs) =
      slotsWeight w (loopUpdate w cfg rs).1.slots * pathProbRev w (loopUpdateTrace w cfg rs) := by
  unfold loopUpdate loopUpdateTrace
  split
  · simp [pathProb, pathProbRev]
  · rcases loopStart cfg.slots rs with ⟨_ | ⟨p, leg⟩, rs'⟩
    · simp [pathProb, pathProbRev]
    · simp only
      exact loopIter_path_balance w (p, leg) _ p leg
        { state := cfg.state, slots := cfg.slots, rs := rs' }

/-- `Σk` is a skeleton invariant, hence unchanged by the loop update -/
theorem loopUpdate_totalVars (w : Nat → List Bool → List Bool → Rat) (cfg : Config) (rs : RS) :
    totalVars (loopUpdate w cfg rs).1.slots = totalVars cfg.slots :=
  (totalVars_pickLeg_skeleton (loopUpdate_skeleton w cfg rs)).1

/-! ### the trace is a linked path from the start leg to a closing exit -/

theorem occV_skeleton {s1 s2 : Slots} (h : skeletonOf s1 = skeletonOf s2) (v : Nat) :
    occV s1 v = occV s2 v := by
  unfold occV
  rw [skeleton_length h]
  apply List.filterMap_congr
  intro p _
  have := skeleton_getElem? h p
  cases h1 : s1[p]? with
  | none =>
    cases h2 : s2[p]? with
    | none => rfl
    | some y => rw [h1, h2] at this; simp at this
  | some x =>
    cases h2 : s2[p]? with
    | none => rw [h1, h2] at this; simp at this
    | some y =>
      rw [h1, h2] at this
      cases x with
      | none => cases y with
        | none => rfl
        | some o2 => simp at this
      | some o1 => cases y with
        | none => simp at this
        | some o2 =>
          simp only [Option.map_some, Option.some.injEq, Prod.mk.injEq] at this
          simp only [Op.indexOfVar, this.1]

/-- the leg the exit leg `ex` of the op at `pos` is linked to (`op'` supplies the variables) -/
def partnerOf (slots : Slots) (pos : Nat) (op' : Op) (ex : Leg) : Option (Nat × Leg) :=
  (moveOn slots [] pos op' ex).2.map (fun q => (q.1, ⟨q.2, !ex.out⟩))

theorem moveOn_snd (slots : Slots) (st1 st2 : List Bool) (pos : Nat) (op' : Op) (ex : Leg) :
    (moveOn slots st1 pos op' ex).2 = (moveOn slots st2 pos op' ex).2 := by
  unfold moveOn
  simp only
  split <;> split <;> rfl

theorem partnerOf_of_moveOn {s0 slots : Slots} (hsk : skeletonOf s0 = skeletonOf slots)
    {st st' : List Bool} {pos : Nat} {op' : Op} {ex : Leg} {p' r' : Nat}
    (h : moveOn s0 st pos op' ex = (st', some (p', r'))) :
    partnerOf slots pos op' ex = some (p', ⟨r', !ex.out⟩) := by
  unfold partnerOf
  rw [← moveOn_congr s0 slots (fun v => occV_skeleton hsk v), moveOn_snd s0 [] st, h]
  rfl

/-- a visit closes the loop started at `init`: its exit leg is `init` or is linked to `init` -/
def Closes (slots : Slots) (init : Nat × Leg) (v : Visit) : Prop :=
  (v.pos, v.ex) = init ∨ partnerOf slots v.pos v.after v.ex = some init

/-- consecutive visits: the next one enters through the link partner of the previous exit -/
def Linked (slots : Slots) (a b : Visit) : Prop :=
  partnerOf slots a.pos a.after a.ex = some (b.pos, b.ent)

/-- `tr` is a path of linked visits that starts by entering `(pos, ent)`; if `closed`, its last
visit closes the loop -/
inductive IsPath (slots : Slots) (init : Nat × Leg) : Nat → Leg → Bool → List Visit → Prop
  | stop (pos : Nat) (ent : Leg) : IsPath slots init pos ent false []
  | last (v : Visit) (c : Bool) : (c = true → Closes slots init v) → IsPath slots init v.pos v.ent c [v]
  | step (v : Visit) (p : Nat) (e : Leg) (c : Bool) (t : List Visit) :
      partnerOf slots v.pos v.after v.ex = some (p, e) → IsPath slots init p e c t →
      IsPath slots init v.pos v.ent c (v :: t)

theorem IsPath.mono {slots : Slots} {init : Nat × Leg} {pos : Nat} {ent : Leg} {tr : List Visit}
    (h : IsPath slots init pos ent true tr) : IsPath slots init pos ent false tr := by
  generalize hc : true = c at h
  induction h with
  | stop pos ent => exact IsPath.stop pos ent
  | last v c _ => exact IsPath.last v false (fun h => by cases h)
  | step v p e c t hp _ ih => exact IsPath.step v p e false t hp (ih hc)

/-- **the trace of a run is a linked path**; when the run closed, it ends in a closing visit -/
theorem loopTrace_isPath (w : Nat → List Bool → List Bool → Rat) (init : Nat × Leg) (sk : Slots)
    (fuel pos : Nat) (ent : Leg) (s : LoopSt) (hsk : skeletonOf s.slots = skeletonOf sk) :
    IsPath sk init pos ent
      (!(loopIter w init fuel pos ent s).rs.panicked && !(loopIter w init fuel pos ent s).rs.short)
      (loopTrace w init fuel pos ent s) := by
  induction fuel generalizing pos ent s with
  | zero => simp only [loopIter, loopTrace, Bool.not_true, Bool.and_false]; exact IsPath.stop pos ent
  | succ f ih =>
    have hsk' : skeletonOf (loopBody w init pos ent s).1.slots = skeletonOf sk := by
      rw [loopBody_skeleton]; exact hsk
    unfold loopIter loopTrace
    rcases loopBody_cases' w init pos ent s with ⟨hn, hfl⟩ | ⟨op, ex, hex, hcase⟩
    · -- error exit: flagged, whatever was recorded is a path that does not claim to close
      rcases heq : loopBody w init pos ent s with ⟨s', _ | ⟨p, e⟩⟩
      · rw [heq] at hfl
        simp only at hfl ⊢
        have hc : (!s'.rs.panicked && !s'.rs.short) = false := by
          rcases hfl with h | h <;> simp [h]
        rw [hc]
        unfold visitHere
        cases exitOf w pos ent s with
        | none => exact IsPath.stop pos ent
        | some q => exact IsPath.last ⟨pos, ent, q.2, q.1⟩ false (fun h => by cases h)
      · rw [heq] at hn; cases hn
    · have hv : visitHere w pos ent s = [⟨pos, ent, ex, op⟩] := by unfold visitHere; rw [hex]
      rw [hv]
      rcases hcase with ⟨hinit, hnone⟩ | ⟨hinit, st', p', r', hmv, hfin⟩
      · rcases heq : loopBody w init pos ent s with ⟨s', _ | ⟨p, e⟩⟩
        · simp only
          exact IsPath.last ⟨pos, ent, ex, op⟩ _ (fun _ => Or.inl hinit)
        · rw [heq] at hnone; cases hnone
      · have hpart := partnerOf_of_moveOn (slots := sk) hsk hmv
        rcases hfin with ⟨hhead, hnone⟩ | ⟨hhead, hsome⟩
        · rcases heq : loopBody w init pos ent s with ⟨s', _ | ⟨p, e⟩⟩
          · simp only
            exact IsPath.last ⟨pos, ent, ex, op⟩ _ (fun _ => Or.inr (by rw [← hhead]; exact hpart))
          · rw [heq] at hnone; cases hnone
        · rcases heq : loopBody w init pos ent s with ⟨s', _ | ⟨p, e⟩⟩
          · rw [heq] at hsome; cases hsome
          · rw [heq] at hsome hsk'
            simp only at hsome hsk' ⊢
            injection hsome with hsome; injection hsome with e1 e2
            subst e1; subst e2
            exact IsPath.step ⟨pos, ent, ex, op⟩ _ _ _ _ hpart (ih _ _ s' hsk')

/-- the exit leg of every visit exists in any string on the same skeleton — in particular the
exit leg of the last visit, where the reverse loop starts, exists in the result -/
theorem headOK_skeleton {s1 s2 : Slots} (h : skeletonOf s1 = skeletonOf s2) {p : Nat} {l : Leg}
    (hh : HeadOK s1 p l) : HeadOK s2 p l := by
  obtain ⟨op, hop, hr⟩ := hh
  have := skeleton_getElem? h p
  rw [hop] at this
  cases h2 : s2[p]? with
  | none => rw [h2] at this; simp at this
  | some y =>
    rw [h2] at this
    cases y with
    | none => simp at this
    | some o2 =>
      simp only [Option.map_some, Option.some.injEq, Prod.mk.injEq] at this
      exact ⟨o2, h2, by rw [← this.1]; exact hr⟩

theorem loopTrace_exit_exists (w : Nat → List Bool → List Bool → Rat) (init : Nat × Leg) (sk : Slots)
    (fuel pos : Nat) (ent : Leg) (s : LoopSt) (hsk : skeletonOf s.slots = skeletonOf sk) :
    ∀ v ∈ loopTrace w init fuel pos ent s, HeadOK sk v.pos v.ex := by
  induction fuel generalizing pos ent s with
  | zero => intro v hv; simp [loopTrace] at hv
  | succ f ih =>
    have hhere : ∀ v ∈ visitHere w pos ent s, HeadOK sk v.pos v.ex := by
      intro v hv
      unfold visitHere at hv
      cases hex : exitOf w pos ent s with
      | none => rw [hex] at hv; simp at hv
      | some q =>
        rw [hex] at hv
        simp only [List.mem_singleton] at hv
        subst hv
        obtain ⟨hop, hr, _⟩ := exitOf_some (op := q.1) (ex := q.2) (by rw [hex])
        exact headOK_skeleton hsk ⟨q.1, hop, hr⟩
    have hsk' : skeletonOf (loopBody w init pos ent s).1.slots = skeletonOf sk := by
      rw [loopBody_skeleton]; exact hsk
    unfold loopTrace
    rcases heq : loopBody w init pos ent s with ⟨s', _ | ⟨p, e⟩⟩
    · exact hhere
    · rw [heq] at hsk'
      simp only at hsk' ⊢
      intro v hv
      rcases List.mem_append.mp hv with h | h
      · exact hhere v h
      · exact ih p e s' hsk' v h

/-! ### the link relation is symmetric -/

theorem indexOfVar_unique {o : Op} {v r1 r2 : Nat} (h1 : o.indexOfVar v = some r1)
    (h2 : o.indexOfVar v = some r2) : r1 = r2 := by
  rw [h1] at h2; injection h2

/-- **Links are symmetric.** If the leg `ex` (relative variable in range, distinct variables) of
the op at `pos` is linked to `(p', e')`, then `e'` of the op at `p'` is linked back to
`(pos, ex)`. `op`, `o2` only supply the variables of the ops at the two positions. -/
theorem partnerOf_symm {slots : Slots} {pos : Nat} {op op' : Op} {ex : Leg} {p' : Nat} {e' : Leg}
    (hop : slots[pos]? = some (some op)) (hv : op'.vars = op.vars) (hn : op.vars.Nodup)
    (hr : ex.rel < op.vars.length)
    (h : partnerOf slots pos op' ex = some (p', e')) :
    ∃ o2, slots[p']? = some (some o2) ∧ e'.rel < o2.vars.length ∧ e'.out = !ex.out ∧
      ∀ o2' : Op, o2'.vars = o2.vars → partnerOf slots p' o2' e' = some (pos, ex) := by
  obtain ⟨r, b⟩ := ex
  simp only at hr
  have hvv : op'.vars.getD r 0 = op.vars[r] := by
    rw [hv]; simp [List.getD, List.getElem?_eq_getElem hr]
  have htouch : op.vars[r] ∈ op.vars := List.getElem_mem hr
  have hidx := indexOfVar_getElem hn r hr
  have hl : pos < slots.length := (List.getElem?_eq_some_iff.mp hop).1
  unfold partnerOf at h
  cases b with
  | true =>
    simp only [moveOn, if_true, hvv] at h
    split at h
    · -- forward inner link
      rename_i q hq
      simp only [Option.map_some, Option.some.injEq, Prod.mk.injEq] at h
      obtain ⟨e1, e2⟩ := h
      obtain ⟨hlt, ⟨o2, ho2, hi2⟩, hfree⟩ := nextForVar_some hq
      obtain ⟨hr2, hv2⟩ := indexOfVar_some hi2
      subst e1; subst e2
      refine ⟨o2, ho2, hr2, rfl, fun o2' hv2' => ?_⟩
      have hvv2 : o2'.vars.getD q.2 0 = op.vars[r] := by
        rw [hv2', ← hv2]; simp [List.getD, List.getElem?_eq_getElem hr2]
      unfold partnerOf
      simp only [moveOn, Bool.not_true, Bool.false_eq_true, if_false, hvv2]
      cases hprev : prevForVar slots op.vars[r] q.1 with
      | none =>
        exact absurd htouch (prevForVar_none hprev pos op (Nat.zero_le _) hlt hop)
      | some x =>
        obtain ⟨x1, x2⟩ := x
        obtain ⟨hx1, ⟨o3, ho3, hi3⟩, hfree3⟩ := prevForVar_some hprev
        have hle1 : x1 ≤ pos := by
          by_contra hc
          exact hfree x1 o3 (by omega) hx1 ho3 ((indexOfVar_some hi3).2 ▸ List.getElem_mem _)
        have hle2 : pos ≤ x1 := by
          by_contra hc
          exact hfree3 pos op (by omega) hlt hop htouch
        have : x1 = pos := by omega
        subst this
        rw [hop] at ho3
        injection ho3 with ho3; injection ho3 with ho3; subst ho3
        have := indexOfVar_unique hi3 hidx
        subst this
        rfl
    · -- forward through the boundary
      rename_i hq
      have hfb := nextForVar_none hq
      cases hf : firstForVar slots op.vars[r] with
      | none => rw [hf] at h; simp at h
      | some q =>
        rw [hf] at h
        simp only [Option.map_some, Option.some.injEq, Prod.mk.injEq] at h
        obtain ⟨e1, e2⟩ := h
        obtain ⟨⟨o2, ho2, hi2⟩, hfa⟩ := firstForVar_some hf
        obtain ⟨hr2, hv2⟩ := indexOfVar_some hi2
        subst e1; subst e2
        refine ⟨o2, ho2, hr2, rfl, fun o2' hv2' => ?_⟩
        have hvv2 : o2'.vars.getD q.2 0 = op.vars[r] := by
          rw [hv2', ← hv2]; simp [List.getD, List.getElem?_eq_getElem hr2]
        unfold partnerOf
        simp only [moveOn, Bool.not_true, Bool.false_eq_true, if_false, hvv2]
        cases hprev : prevForVar slots op.vars[r] q.1 with
        | some x =>
          obtain ⟨x1, x2⟩ := x
          obtain ⟨hx1, ⟨o3, ho3, hi3⟩, _⟩ := prevForVar_some hprev
          exact absurd ((indexOfVar_some hi3).2 ▸ List.getElem_mem _)
            (hfa x1 o3 (Nat.zero_le _) hx1 ho3)
        | none =>
          simp only
          cases hlast : lastForVar slots op.vars[r] with
          | none =>
            obtain ⟨r0, hr0⟩ := occV_of_touch slots op.vars[r] pos op hop htouch
            unfold lastForVar at hlast
            rw [List.getLast?_eq_none_iff] at hlast
            rw [hlast] at hr0; simp at hr0
          | some x =>
            obtain ⟨x1, x2⟩ := x
            obtain ⟨⟨o3, ho3, hi3⟩, hfree3⟩ := lastForVar_some hlast
            have hl3 : x1 < slots.length := (List.getElem?_eq_some_iff.mp ho3).1
            have hle1 : x1 ≤ pos := by
              by_contra hc
              exact hfb x1 o3 (by omega) hl3 ho3 ((indexOfVar_some hi3).2 ▸ List.getElem_mem _)
            have hle2 : pos ≤ x1 := by
              by_contra hc
              exact hfree3 pos op (by omega) hl hop htouch
            have : x1 = pos := by omega
            subst this
            rw [hop] at ho3
            injection ho3 with ho3; injection ho3 with ho3; subst ho3
            have := indexOfVar_unique hi3 hidx
            subst this
            rfl
  | false =>
    simp only [moveOn, Bool.false_eq_true, if_false, hvv] at h
    split at h
    · -- backward inner link
      rename_i q hq
      simp only [Option.map_some, Option.some.injEq, Prod.mk.injEq] at h
      obtain ⟨e1, e2⟩ := h
      obtain ⟨hlt, ⟨o2, ho2, hi2⟩, hfree⟩ := prevForVar_some hq
      obtain ⟨hr2, hv2⟩ := indexOfVar_some hi2
      subst e1; subst e2
      refine ⟨o2, ho2, hr2, rfl, fun o2' hv2' => ?_⟩
      have hvv2 : o2'.vars.getD q.2 0 = op.vars[r] := by
        rw [hv2', ← hv2]; simp [List.getD, List.getElem?_eq_getElem hr2]
      have hl2 : q.1 < slots.length := (List.getElem?_eq_some_iff.mp ho2).1
      unfold partnerOf
      simp only [moveOn, Bool.not_false, if_true, hvv2]
      cases hnext : nextForVar slots op.vars[r] q.1 with
      | none =>
        exact absurd htouch (nextForVar_none hnext pos op (by omega) hl hop)
      | some x =>
        obtain ⟨x1, x2⟩ := x
        obtain ⟨hx1, ⟨o3, ho3, hi3⟩, hfree3⟩ := nextForVar_some hnext
        have hle1 : pos ≤ x1 := by
          by_contra hc
          exact hfree x1 o3 (by omega) (by omega) ho3 ((indexOfVar_some hi3).2 ▸ List.getElem_mem _)
        have hle2 : x1 ≤ pos := by
          by_contra hc
          exact hfree3 pos op (by omega) (by omega) hop htouch
        have : x1 = pos := by omega
        subst this
        rw [hop] at ho3
        injection ho3 with ho3; injection ho3 with ho3; subst ho3
        have := indexOfVar_unique hi3 hidx
        subst this
        rfl
    · -- backward through the boundary
      rename_i hq
      have hfa := prevForVar_none hq
      cases hf : lastForVar slots op.vars[r] with
      | none => rw [hf] at h; simp at h
      | some q =>
        rw [hf] at h
        simp only [Option.map_some, Option.some.injEq, Prod.mk.injEq] at h
        obtain ⟨e1, e2⟩ := h
        obtain ⟨⟨o2, ho2, hi2⟩, hfb⟩ := lastForVar_some hf
        obtain ⟨hr2, hv2⟩ := indexOfVar_some hi2
        subst e1; subst e2
        refine ⟨o2, ho2, hr2, rfl, fun o2' hv2' => ?_⟩
        have hvv2 : o2'.vars.getD q.2 0 = op.vars[r] := by
          rw [hv2', ← hv2]; simp [List.getD, List.getElem?_eq_getElem hr2]
        unfold partnerOf
        simp only [moveOn, Bool.not_false, if_true, hvv2]
        cases hnext : nextForVar slots op.vars[r] q.1 with
        | some x =>
          obtain ⟨x1, x2⟩ := x
          obtain ⟨hx1, ⟨o3, ho3, hi3⟩, _⟩ := nextForVar_some hnext
          have hl3 : x1 < slots.length := (List.getElem?_eq_some_iff.mp ho3).1
          exact absurd ((indexOfVar_some hi3).2 ▸ List.getElem_mem _)
            (hfb x1 o3 (by omega) hl3 ho3)
        | none =>
          simp only
          cases hfirst : firstForVar slots op.vars[r] with
          | none =>
            obtain ⟨r0, hr0⟩ := occV_of_touch slots op.vars[r] pos op hop htouch
            unfold firstForVar at hfirst
            rw [List.head?_eq_none_iff] at hfirst
            rw [hfirst] at hr0; simp at hr0
          | some x =>
            obtain ⟨x1, x2⟩ := x
            obtain ⟨⟨o3, ho3, hi3⟩, hfree3⟩ := firstForVar_some hfirst
            have hle1 : pos ≤ x1 := by
              by_contra hc
              exact hfa x1 o3 (Nat.zero_le _) (by omega) ho3 ((indexOfVar_some hi3).2 ▸ List.getElem_mem _)
            have hle2 : x1 ≤ pos := by
              by_contra hc
              exact hfree3 pos op (Nat.zero_le _) (by omega) hop htouch
            have : x1 = pos := by omega
            subst this
            rw [hop] at ho3
            injection ho3 with ho3; injection ho3 with ho3; subst ho3
            have := indexOfVar_unique hi3 hidx
            subst this
            rfl

/-! ### retracing a closed loop backwards is a closed loop -/

/-- consecutive elements are related -/
def linkedList {α} (R : α → α → Prop) : List α → Prop
  | [] => True
  | [_] => True
  | a :: b :: t => R a b ∧ linkedList R (b :: t)

theorem linkedList_snoc {α} (R : α → α → Prop) (l : List α) (x : α) :
    linkedList R (l ++ [x]) ↔ linkedList R l ∧ ∀ y, l.getLast? = some y → R y x := by
  induction l with
  | nil => simp [linkedList]
  | cons a t ih =>
    cases t with
    | nil => simp [linkedList]
    | cons b t' =>
      simp only [List.cons_append, linkedList] at ih ⊢
      rw [ih]
      simp only [List.getLast?_cons_cons]
      constructor
      · rintro ⟨h1, h2, h3⟩; exact ⟨⟨h1, h2⟩, h3⟩
      · rintro ⟨⟨h1, h2⟩, h3⟩; exact ⟨h1, h2, h3⟩

theorem linkedList_reverse {α} (R R' : α → α → Prop) (f : α → α) (l : List α)
    (h : ∀ a b, a ∈ l → b ∈ l → R a b → R' (f b) (f a)) (hl : linkedList R l) :
    linkedList R' (l.map f).reverse := by
  induction l with
  | nil => simp [linkedList]
  | cons a t ih =>
    simp only [List.map_cons, List.reverse_cons]
    rw [linkedList_snoc]
    cases t with
    | nil => simp [linkedList]
    | cons b t' =>
      simp only [linkedList] at hl
      refine ⟨ih (fun x y hx hy => h x y (List.mem_cons_of_mem _ hx) (List.mem_cons_of_mem _ hy)) hl.2, ?_⟩
      intro y hy
      simp only [List.map_cons, List.reverse_cons, List.getLast?_append, List.getLast?_singleton,
        Option.some_or, Option.some.injEq] at hy
      subst hy
      exact h a b (List.mem_cons_self ..) (List.mem_cons_of_mem _ (List.mem_cons_self ..)) hl.1

/-- every element but the first has a predecessor, which is not the last element -/
theorem linkedList_pred {α} (R : α → α → Prop) (l : List α) (hl : linkedList R l) :
    ∀ b ∈ l.tail, ∃ a ∈ l.dropLast, R a b := by
  induction l with
  | nil => intro b hb; simp at hb
  | cons a t ih =>
    cases t with
    | nil => intro b hb; simp at hb
    | cons c t' =>
      simp only [linkedList] at hl
      intro b hb
      simp only [List.tail_cons, List.mem_cons] at hb
      rcases hb with rfl | hb
      · exact ⟨a, by simp [List.dropLast], hl.1⟩
      · obtain ⟨x, hx, hr⟩ := ih hl.2 b (by simpa using hb)
        exact ⟨x, by simp only [List.dropLast_cons_cons]; exact List.mem_cons_of_mem _ hx, hr⟩

/-- the visit as the walk that retraces the loop sees it: the rewritten op, entered through the
old exit, left through the old entrance -/
def Visit.rev (v : Visit) : Visit := ⟨v.pos, v.ex, v.ent, v.after⟩

theorem Visit.rev_after_vars (v : Visit) : v.rev.after.vars = v.op.vars := by
  simp [Visit.rev, Visit.after, passThrough, Op.withInOut]

theorem Visit.after_vars (v : Visit) : v.after.vars = v.op.vars := by
  simp [Visit.after, passThrough, Op.withInOut]

/-- the visit fits the skeleton: an op with these (distinct) variables sits at `pos`, both legs exist -/
def WV (slots : Slots) (v : Visit) : Prop :=
  ∃ op0, slots[v.pos]? = some (some op0) ∧ v.op.vars = op0.vars ∧ op0.vars.Nodup ∧
    v.ent.rel < op0.vars.length ∧ v.ex.rel < op0.vars.length

theorem partnerOf_vars_congr (slots : Slots) (pos : Nat) (o1 o2 : Op) (ex : Leg)
    (h : o1.vars = o2.vars) : partnerOf slots pos o1 ex = partnerOf slots pos o2 ex := by
  unfold partnerOf moveOn
  simp only [h]
  split <;> split <;> rfl

/-- a closed loop on a skeleton: visits that fit, consecutive ones linked, the first enters
`init`, the last closes, none before the last closes -/
structure IsLoop (slots : Slots) (init : Nat × Leg) (tr : List Visit) : Prop where
  wv : ∀ v ∈ tr, WV slots v
  linked : linkedList (Linked slots) tr
  first : ∃ v, tr.head? = some v ∧ (v.pos, v.ent) = init
  closes : ∃ v, tr.getLast? = some v ∧ Closes slots init v
  open_ : ∀ v ∈ tr.dropLast, ¬ Closes slots init v

/-- symmetry of one link between two fitting visits -/
theorem linked_symm {slots : Slots} {a b : Visit} (ha : WV slots a) (hb : WV slots b)
    (h : Linked slots a b) : partnerOf slots b.pos b.rev.after b.ent = some (a.pos, a.ex) := by
  obtain ⟨oa, hoa, hva, hna, _, hxa⟩ := ha
  obtain ⟨ob, hob, hvb, _, _, _⟩ := hb
  unfold Linked at h
  obtain ⟨o2, ho2, _, _, hback⟩ :=
    partnerOf_symm hoa (by rw [Visit.after_vars, hva]) hna hxa h
  rw [hob] at ho2
  injection ho2 with ho2; injection ho2 with ho2; subst ho2
  exact hback _ (by rw [Visit.rev_after_vars, hvb])

/-- **Retracing a closed loop backwards is a closed loop**, started at the exit leg of the last
visit. -/
theorem IsLoop.reverse {slots : Slots} {init : Nat × Leg} {tr : List Visit}
    (h : IsLoop slots init tr) :
    ∃ vm, tr.getLast? = some vm ∧ IsLoop slots (vm.pos, vm.ex) (tr.map Visit.rev).reverse := by
  obtain ⟨vm, hlast, hclose⟩ := h.closes
  obtain ⟨v1, hfirst, hinit⟩ := h.first
  have hvm_mem : vm ∈ tr := List.mem_of_getLast? hlast
  have hv1_mem : v1 ∈ tr := List.mem_of_head? hfirst
  have hwvm := h.wv vm hvm_mem
  have hwv1 := h.wv v1 hv1_mem
  -- the link from the last exit back to the start, when the loop closed by arriving
  have hB : partnerOf slots vm.pos vm.after vm.ex = some init →
      partnerOf slots v1.pos v1.rev.after v1.ent = some (vm.pos, vm.ex) := by
    intro hp
    obtain ⟨om, hom, hvm, hnm, _, hxm⟩ := hwvm
    obtain ⟨o1, ho1, hv1, _, _, _⟩ := hwv1
    rw [← hinit] at hp
    obtain ⟨o2, ho2, _, _, hback⟩ :=
      partnerOf_symm hom (by rw [Visit.after_vars, hvm]) hnm hxm hp
    rw [ho1] at ho2
    injection ho2 with ho2; injection ho2 with ho2; subst ho2
    exact hback _ (by rw [Visit.rev_after_vars, hv1])
  refine ⟨vm, hlast, ?_, ?_, ?_, ?_, ?_⟩
  · -- fits
    intro v hv
    simp only [List.mem_reverse, List.mem_map] at hv
    obtain ⟨u, hu, rfl⟩ := hv
    obtain ⟨o, ho, hvo, hn, he, hx⟩ := h.wv u hu
    exact ⟨o, ho, by rw [← hvo]; exact Visit.after_vars u, hn, hx, he⟩
  · -- linked
    apply linkedList_reverse (Linked slots) (Linked slots) Visit.rev tr _ h.linked
    intro a b ha hb hab
    exact linked_symm (h.wv a ha) (h.wv b hb) hab
  · -- starts at the exit leg of the last visit
    refine ⟨vm.rev, ?_, rfl⟩
    rw [List.head?_reverse, List.getLast?_map, hlast]; rfl
  · -- the last visit of the retraced loop is the first visit, leaving through the start leg
    refine ⟨v1.rev, ?_, ?_⟩
    · rw [List.getLast?_reverse, List.head?_map, hfirst]; rfl
    · rcases hclose with hA | hB'
      · left
        show (v1.pos, v1.ent) = (vm.pos, vm.ex)
        rw [hinit, hA]
      · right
        exact hB hB'
  · -- no earlier visit of the retraced loop closes
    intro v hv
    have hv' : ∃ b ∈ tr.tail, v = b.rev := by
      cases tr with
      | nil => simp at hv
      | cons a t =>
        simp only [List.map_cons, List.reverse_cons, List.dropLast_concat, List.mem_reverse,
          List.mem_map] at hv
        obtain ⟨b, hb, rfl⟩ := hv
        exact ⟨b, by simpa using hb, rfl⟩
    obtain ⟨b, hbt, rfl⟩ := hv'
    obtain ⟨a, had, hab⟩ := linkedList_pred (Linked slots) tr h.linked b hbt
    have hb_mem : b ∈ tr := List.mem_of_mem_tail hbt
    have ha_mem : a ∈ tr := (List.dropLast_sublist tr).subset had
    have hnc := h.open_ a had
    have hback := linked_symm (h.wv a ha_mem) (h.wv b hb_mem) hab
    have hab' : partnerOf slots a.pos a.after a.ex = some (b.pos, b.ent) := hab
    intro hc
    rcases hc with hc | hc
    · -- the retraced visit would leave through the new start leg
      have hc' : (b.pos, b.ent) = (vm.pos, vm.ex) := hc
      rcases hclose with hA | hB'
      · exact hnc (Or.inr (by rw [hab', hc', hA]))
      · -- the link of the last exit leads to `init`, but also back to `a`'s exit
        obtain ⟨om, hom, hvm, hnm, _, hxm⟩ := hwvm
        obtain ⟨oa, hoa, hva, hna, _, hxa⟩ := h.wv a ha_mem
        obtain ⟨o2, ho2, _, _, hback2⟩ :=
          partnerOf_symm hoa (by rw [Visit.after_vars, hva]) hna hxa hab'
        have hpe : b.pos = vm.pos ∧ b.ent = vm.ex := by
          injection hc' with h1 h2; exact ⟨h1, h2⟩
        rw [hpe.1] at ho2 hback2
        rw [hpe.2] at hback2
        rw [hom] at ho2
        injection ho2 with ho2; injection ho2 with ho2; subst ho2
        have := hback2 vm.after (by rw [Visit.after_vars, hvm])
        rw [hB'] at this
        injection this with this
        exact hnc (Or.inl this.symm)
    · -- the retraced visit would arrive at the new start leg
      have hc' : partnerOf slots b.pos b.rev.after b.ent = some (vm.pos, vm.ex) := hc
      rw [hback] at hc'
      injection hc' with hc'
      rcases hclose with hA | hB'
      · exact hnc (Or.inl (by rw [hc', hA]))
      · have hpe : a.pos = vm.pos ∧ a.ex = vm.ex := by
          injection hc' with h1 h2; exact ⟨h1, h2⟩
        obtain ⟨om, hom, hvm, _, _, _⟩ := hwvm
        obtain ⟨oa, hoa, hva, _, _, _⟩ := h.wv a ha_mem
        rw [hpe.1, hom] at hoa
        injection hoa with hoa; injection hoa with hoa; subst hoa
        have hcong := partnerOf_vars_congr slots vm.pos a.after vm.after vm.ex
          (by rw [Visit.after_vars, Visit.after_vars, hva, hvm])
        refine hnc (Or.inr ?_)
        rw [hpe.1, hpe.2, hcong, hB']

theorem skeleton_op {s1 s2 : Slots} (h : skeletonOf s1 = skeletonOf s2) {p : Nat} {o1 : Op}
    (h1 : s1[p]? = some (some o1)) : ∃ o2, s2[p]? = some (some o2) ∧ o2.vars = o1.vars := by
  have := skeleton_getElem? h p
  rw [h1] at this
  cases h2 : s2[p]? with
  | none => rw [h2] at this; simp at this
  | some y =>
    rw [h2] at this
    cases y with
    | none => simp at this
    | some o2 =>
      simp only [Option.map_some, Option.some.injEq, Prod.mk.injEq] at this
      exact ⟨o2, rfl, this.1.symm⟩

/-- **the trace of a closed run is a closed loop** on the skeleton -/
theorem loopTrace_isLoop (w : Nat → List Bool → List Bool → Rat) (init : Nat × Leg) (sk : Slots)
    (hnd : ∀ o, some o ∈ sk → o.vars.Nodup) (fuel pos : Nat) (ent : Leg) (s : LoopSt)
    (hsk : skeletonOf s.slots = skeletonOf sk) (hh : HeadOK sk pos ent)
    (h1 : (loopIter w init fuel pos ent s).rs.panicked = false)
    (h2 : (loopIter w init fuel pos ent s).rs.short = false) :
    (∀ v ∈ loopTrace w init fuel pos ent s, WV sk v) ∧
    linkedList (Linked sk) (loopTrace w init fuel pos ent s) ∧
    (∃ v, (loopTrace w init fuel pos ent s).head? = some v ∧ (v.pos, v.ent) = (pos, ent)) ∧
    (∃ v, (loopTrace w init fuel pos ent s).getLast? = some v ∧ Closes sk init v) ∧
    (∀ v ∈ (loopTrace w init fuel pos ent s).dropLast, ¬ Closes sk init v) := by
  induction fuel generalizing pos ent s with
  | zero => simp [loopIter] at h2
  | succ f ih =>
    have hsk' : skeletonOf (loopBody w init pos ent s).1.slots = skeletonOf sk := by
      rw [loopBody_skeleton]; exact hsk
    have hhead := loopBody_head w init pos ent s
    unfold loopIter at h1 h2
    unfold loopTrace
    rcases loopBody_cases' w init pos ent s with ⟨hn, hfl⟩ | ⟨op, ex, hex, hcase⟩
    · exfalso
      rcases heq : loopBody w init pos ent s with ⟨s', _ | ⟨p, e⟩⟩
      · rw [heq] at hfl h1 h2
        simp only at hfl h1 h2
        rcases hfl with h | h
        · rw [h1] at h; cases h
        · rw [h2] at h; cases h
      · rw [heq] at hn; cases hn
    · have hv : visitHere w pos ent s = [⟨pos, ent, ex, op⟩] := by unfold visitHere; rw [hex]
      obtain ⟨hop, hxr, _⟩ := exitOf_some hex
      have hwv : WV sk ⟨pos, ent, ex, op⟩ := by
        obtain ⟨o0, ho0, hv0⟩ := skeleton_op hsk hop
        obtain ⟨o0', ho0', her⟩ := hh
        rw [ho0] at ho0'
        injection ho0' with e; injection e with e; subst e
        exact ⟨o0, ho0, hv0.symm, hnd o0 (List.mem_of_getElem? ho0), her, by rw [hv0]; exact hxr⟩
      rcases hcase with ⟨hinit, hnone⟩ | ⟨hinit, st', p', r', hmv, hfin⟩
      · rcases heq : loopBody w init pos ent s with ⟨s', _ | ⟨p, e⟩⟩
        · simp only [hv]
          refine ⟨?_, trivial, ⟨_, rfl, rfl⟩, ⟨_, rfl, Or.inl hinit⟩, ?_⟩
          · intro v hv'; simp only [List.mem_singleton] at hv'; subst hv'; exact hwv
          · intro v hv'; simp at hv'
        · rw [heq] at hnone; cases hnone
      · have hpart := partnerOf_of_moveOn (slots := sk) hsk hmv
        rcases hfin with ⟨hhd, hnone⟩ | ⟨hhd, hsome⟩
        · rcases heq : loopBody w init pos ent s with ⟨s', _ | ⟨p, e⟩⟩
          · simp only [hv]
            refine ⟨?_, trivial, ⟨_, rfl, rfl⟩, ⟨_, rfl, Or.inr (by rw [← hhd]; exact hpart)⟩, ?_⟩
            · intro v hv'; simp only [List.mem_singleton] at hv'; subst hv'; exact hwv
            · intro v hv'; simp at hv'
          · rw [heq] at hnone; cases hnone
        · rcases heq : loopBody w init pos ent s with ⟨s', _ | ⟨p, e⟩⟩
          · rw [heq] at hsome; cases hsome
          · rw [heq] at hsome hsk' hhead h1 h2
            simp only at hsome hsk' hhead h1 h2 ⊢
            injection hsome with hsome; injection hsome with e1 e2
            subst e1; subst e2
            have hh' : HeadOK sk p ⟨r', !ex.out⟩ := headOK_skeleton hsk' (hhead _ _ rfl)
            obtain ⟨i1, i2, ⟨u, hu, hue⟩, ⟨z, hz, hzc⟩, i5⟩ := ih p ⟨r', !ex.out⟩ s' hsk' hh' h1 h2
            rw [hv]
            -- the rest of the trace is non-empty, starting with `u`
            obtain ⟨rest, hrest⟩ : ∃ rest, loopTrace w init f p ⟨r', !ex.out⟩ s' = u :: rest := by
              cases hl : loopTrace w init f p ⟨r', !ex.out⟩ s' with
              | nil => rw [hl] at hu; simp at hu
              | cons a t => rw [hl] at hu; simp at hu; exact ⟨t, by rw [hu]⟩
            rw [hrest] at i1 i2 hz i5 ⊢
            have hnc : ¬ Closes sk init ⟨pos, ent, ex, op⟩ := by
              rintro (hc | hc)
              · exact hinit hc
              · have hc' : partnerOf sk pos (passThrough op ent ex) ex = some init := hc
                rw [hpart] at hc'
                injection hc' with hc'
                exact hhd hc'
            refine ⟨?_, ?_, ⟨_, rfl, rfl⟩, ⟨z, ?_, hzc⟩, ?_⟩
            · intro v hv'
              simp only [List.singleton_append, List.mem_cons] at hv'
              rcases hv' with rfl | hv'
              · exact hwv
              · exact i1 v (by simpa using hv')
            · simp only [List.singleton_append, linkedList]
              refine ⟨?_, i2⟩
              show partnerOf sk pos (passThrough op ent ex) ex = some (u.pos, u.ent)
              rw [hpart, hue]
            · simpa using hz
            · intro v hv'
              simp only [List.singleton_append, List.dropLast_cons_cons, List.mem_cons] at hv'
              rcases hv' with rfl | hv'
              · exact hnc
              · exact i5 v hv'


theorem pathProb_append (w : Nat → List Bool → List Bool → Rat) (a b : List Visit) :
    pathProb w (a ++ b) = pathProb w a * pathProb w b := by
  induction a with
  | nil => simp [pathProb]
  | cons v t ih => simp only [List.cons_append, pathProb, ih]; ring

/-- the forward probability of the retraced loop is the reverse probability of the loop -/
theorem pathProb_rev (w : Nat → List Bool → List Bool → Rat) (tr : List Visit) :
    pathProb w (tr.map Visit.rev).reverse = pathProbRev w tr := by
  induction tr with
  | nil => rfl
  | cons v t ih =>
    simp only [List.map_cons, List.reverse_cons, pathProb_append, pathProb, pathProbRev, ih, mul_one]
    have h1 := passThrough_io v.op v.ent v.ex
    have h2 := passThrough_fields v.op v.ent v.ex
    have : exitProb (w v.rev.op.bond) (v.rev.op.ins, v.rev.op.outs) v.rev.ent v.rev.ex v.rev.op.vars.length
        = exitProb (w v.op.bond) (flipIO (flipIO (v.op.ins, v.op.outs) v.ent) v.ex) v.ex v.ent
            v.op.vars.length := by
      show exitProb (w (passThrough v.op v.ent v.ex).bond)
        ((passThrough v.op v.ent v.ex).ins, (passThrough v.op v.ent v.ex).outs) v.ex v.ent
        (passThrough v.op v.ent v.ex).vars.length = _
      rw [h1, h2.1, h2.2.1]
    rw [this]; ring

end Qmc.LoopC
