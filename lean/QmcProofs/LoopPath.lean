/-
Path balance of the directed loop along the model's own trace.

`loopTrace` records the vertex visits of a run (position, entrance, chosen exit, the op as it was
before the visit). Each visit contributes `exitProb_balance` (local detailed balance of the
heat-bath exit choice), the links between visits contribute nothing, the product of the stored
matrix elements changes by exactly the visited ops, and the start leg is chosen with the
skeleton invariant probability `1/(2Σk)`. Telescoping gives
`W(c) · P_start · Π P(visit) = W(c') · P_start' · Π P(reverse visit)`.
-/
import QmcProofs.LoopSingleSite

namespace Qmc.LoopC
open Qmc

/-! ### skeleton preservation, unconditionally -/

theorem loopBody_skeleton (w : Nat → List Bool → List Bool → Rat) (init : Nat × Leg) (pos : Nat)
    (ent : Leg) (s : LoopSt) : skeletonOf (loopBody w init pos ent s).1.slots = skeletonOf s.slots := by
  rcases loopBody_slots w init pos ent s with heq | ⟨op, ex, hop, _, _, heq⟩
  · rw [heq]
  · rw [heq]
    obtain ⟨fv, fb, fc⟩ := passThrough_fields op ent ex
    exact skeletonOf_set s.slots pos op _ hop fv fb fc

theorem loopIter_skeleton (w : Nat → List Bool → List Bool → Rat) (init : Nat × Leg) (fuel pos : Nat)
    (ent : Leg) (s : LoopSt) : skeletonOf (loopIter w init fuel pos ent s).slots = skeletonOf s.slots := by
  induction fuel generalizing pos ent s with
  | zero => rfl
  | succ f ih =>
    have h := loopBody_skeleton w init pos ent s
    unfold loopIter
    split
    · rename_i s' heq; rw [heq] at h; exact h
    · rename_i s' p e heq; rw [heq] at h; rw [ih, h]

/-- the loop update never changes positions, bonds, variables, constant flags — for every input -/
theorem loopUpdate_skeleton (w : Nat → List Bool → List Bool → Rat) (cfg : Config) (rs : RS) :
    skeletonOf (loopUpdate w cfg rs).1.slots = skeletonOf cfg.slots := by
  unfold loopUpdate
  split
  · rfl
  · split
    · rfl
    · exact loopIter_skeleton w _ _ _ _ _

/-! ### the chosen exit of a visit, and the trace of a run -/

/-- the op found at `pos` and the exit leg the visit `(pos, ent)` chooses (`none`: an error exit
before the op is rewritten) — the same computation as in `loopBody` -/
def exitOf (w : Nat → List Bool → List Bool → Rat) (pos : Nat) (ent : Leg) (s : LoopSt) :
    Option (Op × Leg) :=
  match s.slots[pos]? with
  | some (some op) =>
    let k := op.vars.length
    let ws := exitWeights (w op.bond) (op.ins, op.outs) ent k
    let total := sumR ws
    let (c, rs) := s.rs.genRangeF total
    if rs.panicked || rs.short then none else
    match pickIdx c ws with
    | none => none
    | some j => some (op, (legsOf k).getD j default)
  | _ => none

/-- what `loopBody` writes, in terms of `exitOf` -/
theorem loopBody_slots_exitOf (w : Nat → List Bool → List Bool → Rat) (init : Nat × Leg) (pos : Nat)
    (ent : Leg) (s : LoopSt) :
    (loopBody w init pos ent s).1.slots =
      match exitOf w pos ent s with
      | some (op, ex) => s.slots.set pos (some (passThrough op ent ex))
      | none => s.slots := by
  unfold loopBody exitOf
  cases hs : s.slots[pos]? with
  | none => rfl
  | some y =>
    cases y with
    | none => rfl
    | some op =>
      simp only
      by_cases hfl : ((s.rs.genRangeF (sumR (exitWeights (w op.bond) (op.ins, op.outs) ent op.vars.length))).2.panicked ||
          (s.rs.genRangeF (sumR (exitWeights (w op.bond) (op.ins, op.outs) ent op.vars.length))).2.short) = true
      · rw [if_pos hfl, if_pos hfl]
      · rw [if_neg hfl, if_neg hfl]
        cases hp : pickIdx (s.rs.genRangeF (sumR (exitWeights (w op.bond) (op.ins, op.outs) ent op.vars.length))).1
            (exitWeights (w op.bond) (op.ins, op.outs) ent op.vars.length) with
        | none => rfl
        | some j =>
          simp only
          split
          · rfl
          · split
            · split <;> rfl
            · rfl

theorem exitOf_some {w : Nat → List Bool → List Bool → Rat} {pos : Nat} {ent : Leg} {s : LoopSt}
    {op : Op} {ex : Leg} (h : exitOf w pos ent s = some (op, ex)) :
    s.slots[pos]? = some (some op) ∧ ex.rel < op.vars.length ∧
      0 < exitWeight (w op.bond) (op.ins, op.outs) ent ex := by
  unfold exitOf at h
  split at h
  · rename_i op0 hop
    simp only at h
    split at h
    · cases h
    · split at h
      · cases h
      · rename_i j hj
        injection h with h; injection h with h1 h2
        subst h1
        have hc := genRangeF_nonneg s.rs (sumR (exitWeights (w op0.bond) (op0.ins, op0.outs) ent op0.vars.length))
        obtain ⟨x, hx, hpos⟩ := pickIdx_pos hc hj
        have hjl := pickIdx_lt hj
        simp only [exitWeights, List.length_map] at hjl
        have hleg : (legsOf op0.vars.length).getD j default = (legsOf op0.vars.length)[j] := by
          simp [List.getD, List.getElem?_eq_getElem hjl]
        rw [← h2, hleg]
        refine ⟨hop, (mem_legsOf _ _).mp (List.getElem_mem hjl), ?_⟩
        simp only [exitWeights, List.getElem?_map, List.getElem?_eq_getElem hjl, Option.map_some,
          Option.some.injEq] at hx
        rw [hx]; exact hpos
  · cases h


/-- `loopBody_cases` with the exit named by `exitOf` -/
theorem loopBody_cases' (w : Nat → List Bool → List Bool → Rat) (init : Nat × Leg) (pos : Nat)
    (ent : Leg) (s : LoopSt) :
    ((loopBody w init pos ent s).2 = none ∧
      ((loopBody w init pos ent s).1.rs.panicked = true ∨ (loopBody w init pos ent s).1.rs.short = true)) ∨
    ∃ op ex, exitOf w pos ent s = some (op, ex) ∧
      (((pos, ex) = init ∧ (loopBody w init pos ent s).2 = none) ∨
      ((pos, ex) ≠ init ∧ ∃ st' p' r',
          moveOn s.slots s.state pos (passThrough op ent ex) ex = (st', some (p', r')) ∧
          (((p', (⟨r', !ex.out⟩ : Leg)) = init ∧ (loopBody w init pos ent s).2 = none) ∨
           ((p', (⟨r', !ex.out⟩ : Leg)) ≠ init ∧
              (loopBody w init pos ent s).2 = some (p', ⟨r', !ex.out⟩))))) := by
  unfold loopBody exitOf
  cases hs : s.slots[pos]? with
  | none => left; exact ⟨rfl, Or.inl rfl⟩
  | some y =>
    cases y with
    | none => left; exact ⟨rfl, Or.inl rfl⟩
    | some op =>
      simp only
      by_cases hfl : ((s.rs.genRangeF (sumR (exitWeights (w op.bond) (op.ins, op.outs) ent op.vars.length))).2.panicked ||
          (s.rs.genRangeF (sumR (exitWeights (w op.bond) (op.ins, op.outs) ent op.vars.length))).2.short) = true
      · rw [if_pos hfl, if_pos hfl]
        left
        refine ⟨rfl, ?_⟩
        simpa using hfl
      · rw [if_neg hfl, if_neg hfl]
        cases hp : pickIdx (s.rs.genRangeF (sumR (exitWeights (w op.bond) (op.ins, op.outs) ent op.vars.length))).1
            (exitWeights (w op.bond) (op.ins, op.outs) ent op.vars.length) with
        | none => left; exact ⟨rfl, Or.inl rfl⟩
        | some j =>
          simp only
          split
          · rename_i hinit
            right
            exact ⟨op, _, rfl, Or.inl ⟨hinit, rfl⟩⟩
          · rename_i hinit
            split
            · rename_i st' p' r' hmv
              right
              split
              · rename_i h2
                exact ⟨op, _, rfl, Or.inr ⟨hinit, st', p', r', hmv, Or.inl ⟨h2, rfl⟩⟩⟩
              · rename_i h2
                exact ⟨op, _, rfl, Or.inr ⟨hinit, st', p', r', hmv, Or.inr ⟨h2, rfl⟩⟩⟩
            · left; exact ⟨rfl, Or.inl rfl⟩


/-- one vertex visit of a run: where, entered through which leg, left through which leg, and the
op as it was before the visit -/
structure Visit where
  pos : Nat
  ent : Leg
  ex : Leg
  op : Op

def visitHere (w : Nat → List Bool → List Bool → Rat) (pos : Nat) (ent : Leg) (s : LoopSt) :
    List Visit :=
  match exitOf w pos ent s with
  | some (op, ex) => [⟨pos, ent, ex, op⟩]
  | none => []

/-- the visits of `loopIter`, in order -/
def loopTrace (w : Nat → List Bool → List Bool → Rat) (init : Nat × Leg) :
    Nat → Nat → Leg → LoopSt → List Visit
  | 0, _, _, _ => []
  | fuel + 1, pos, ent, s =>
    match loopBody w init pos ent s with
    | (_, none) => visitHere w pos ent s
    | (s', some (p, e)) => visitHere w pos ent s ++ loopTrace w init fuel p e s'

/-- the visits of `loopUpdate` -/
def loopUpdateTrace (w : Nat → List Bool → List Bool → Rat) (cfg : Config) (rs : RS) : List Visit :=
  if countOps cfg.slots = 0 then [] else
  match loopStart cfg.slots rs with
  | (none, _) => []
  | (some (p, leg), rs) =>
    loopTrace w (p, leg) (rs.script.length + 1) p leg { state := cfg.state, slots := cfg.slots, rs := rs }

/-! ### weights and probabilities along a trace -/

/-- product of the stored matrix elements: the SSE weight of the configuration up to the factor
`β^n (L-n)!/L!`, which a loop update (same `n`, same `L`) does not change -/
def slotsWeight (w : Nat → List Bool → List Bool → Rat) : Slots → Rat
  | [] => 1
  | none :: t => slotsWeight w t
  | some op :: t => w op.bond op.ins op.outs * slotsWeight w t

def opW (w : Nat → List Bool → List Bool → Rat) (op : Op) : Rat := w op.bond op.ins op.outs

def Visit.after (v : Visit) : Op := passThrough v.op v.ent v.ex

/-- probability of the exits taken: `Π_i P(op_i; ent_i → ex_i)` -/
def pathProb (w : Nat → List Bool → List Bool → Rat) : List Visit → Rat
  | [] => 1
  | v :: t => exitProb (w v.op.bond) (v.op.ins, v.op.outs) v.ent v.ex v.op.vars.length * pathProb w t

/-- probability of the reverse exits on the rewritten ops: `Π_i P(op_i'; ex_i → ent_i)` — what the
walk that retraces the loop backwards (entering each rewritten vertex through the old exit and
leaving through the old entrance) has to choose -/
def pathProbRev (w : Nat → List Bool → List Bool → Rat) : List Visit → Rat
  | [] => 1
  | v :: t =>
    exitProb (w v.op.bond) (flipIO (flipIO (v.op.ins, v.op.outs) v.ent) v.ex) v.ex v.ent v.op.vars.length
      * pathProbRev w t

def prodBefore (w : Nat → List Bool → List Bool → Rat) : List Visit → Rat
  | [] => 1
  | v :: t => opW w v.op * prodBefore w t

def prodAfter (w : Nat → List Bool → List Bool → Rat) : List Visit → Rat
  | [] => 1
  | v :: t => opW w v.after * prodAfter w t

theorem opW_after (w : Nat → List Bool → List Bool → Rat) (v : Visit) :
    opW w v.after = exitWeight (w v.op.bond) (v.op.ins, v.op.outs) v.ent v.ex := by
  unfold opW Visit.after exitWeight
  have h1 := passThrough_io v.op v.ent v.ex
  have h2 := (passThrough_fields v.op v.ent v.ex).2.1
  rw [h2]
  simp only
  rw [← h1]

/-- **telescoping the local balance**: `Π W(op_i) · Π P_i = Π W(op_i') · Π P_i^rev` -/
theorem path_local_balance (w : Nat → List Bool → List Bool → Rat) (tr : List Visit) :
    prodBefore w tr * pathProb w tr = prodAfter w tr * pathProbRev w tr := by
  induction tr with
  | nil => rfl
  | cons v t ih =>
    simp only [prodBefore, pathProb, prodAfter, pathProbRev]
    have hb := exitProb_balance (w v.op.bond) (v.op.ins, v.op.outs) v.ent v.ex v.op.vars.length
    have ha : opW w v.after = w v.op.bond (flipIO (flipIO (v.op.ins, v.op.outs) v.ent) v.ex).1
        (flipIO (flipIO (v.op.ins, v.op.outs) v.ent) v.ex).2 := by
      rw [opW_after]; rfl
    have hbefore : opW w v.op = w v.op.bond v.op.ins v.op.outs := rfl
    rw [ha, hbefore]
    simp only at hb
    calc w v.op.bond v.op.ins v.op.outs * prodBefore w t *
          (exitProb (w v.op.bond) (v.op.ins, v.op.outs) v.ent v.ex v.op.vars.length * pathProb w t)
        = (w v.op.bond v.op.ins v.op.outs *
            exitProb (w v.op.bond) (v.op.ins, v.op.outs) v.ent v.ex v.op.vars.length) *
            (prodBefore w t * pathProb w t) := by ring
      _ = _ := by rw [hb, ih]; ring

theorem slotsWeight_set (w : Nat → List Bool → List Bool → Rat) (slots : Slots) (pos : Nat)
    (op op' : Op) (h : slots[pos]? = some (some op)) :
    slotsWeight w (slots.set pos (some op')) * opW w op = slotsWeight w slots * opW w op' := by
  induction slots generalizing pos with
  | nil => simp at h
  | cons x t ih =>
    cases pos with
    | zero =>
      simp only [List.getElem?_cons_zero, Option.some.injEq] at h
      subst h
      simp only [List.set_cons_zero, slotsWeight, opW]
      ring
    | succ p =>
      simp only [List.getElem?_cons_succ] at h
      have := ih p h
      cases x with
      | none => simpa [slotsWeight] using this
      | some o =>
        simp only [List.set_cons_succ, slotsWeight]
        calc w o.bond o.ins o.outs * slotsWeight w (t.set p (some op')) * opW w op
            = w o.bond o.ins o.outs * (slotsWeight w (t.set p (some op')) * opW w op) := by ring
          _ = _ := by rw [this]; ring

/-- the visit(s) recorded at one `loopBody` call account for its change of the weight -/
theorem loopBody_weight (w : Nat → List Bool → List Bool → Rat) (init : Nat × Leg) (pos : Nat)
    (ent : Leg) (s : LoopSt) :
    slotsWeight w (loopBody w init pos ent s).1.slots * prodBefore w (visitHere w pos ent s) =
      slotsWeight w s.slots * prodAfter w (visitHere w pos ent s) := by
  rw [loopBody_slots_exitOf]
  unfold visitHere
  cases h : exitOf w pos ent s with
  | none => simp [prodBefore, prodAfter]
  | some q =>
    obtain ⟨op, ex⟩ := q
    simp only [prodBefore, prodAfter, mul_one, Visit.after]
    exact slotsWeight_set w s.slots pos op _ (exitOf_some h).1

theorem prodBefore_append (w : Nat → List Bool → List Bool → Rat) (a b : List Visit) :
    prodBefore w (a ++ b) = prodBefore w a * prodBefore w b := by
  induction a with
  | nil => simp [prodBefore]
  | cons v t ih => simp only [List.cons_append, prodBefore, ih]; ring

theorem prodAfter_append (w : Nat → List Bool → List Bool → Rat) (a b : List Visit) :
    prodAfter w (a ++ b) = prodAfter w a * prodAfter w b := by
  induction a with
  | nil => simp [prodAfter]
  | cons v t ih => simp only [List.cons_append, prodAfter, ih]; ring

/-- the weight of the final string against the weight of the initial one -/
theorem loopIter_weight (w : Nat → List Bool → List Bool → Rat) (init : Nat × Leg) (fuel pos : Nat)
    (ent : Leg) (s : LoopSt) :
    slotsWeight w (loopIter w init fuel pos ent s).slots * prodBefore w (loopTrace w init fuel pos ent s) =
      slotsWeight w s.slots * prodAfter w (loopTrace w init fuel pos ent s) := by
  induction fuel generalizing pos ent s with
  | zero => simp [loopIter, loopTrace, prodBefore, prodAfter]
  | succ f ih =>
    have hb := loopBody_weight w init pos ent s
    unfold loopIter loopTrace
    rcases heq : loopBody w init pos ent s with ⟨s', _ | ⟨p, e⟩⟩
    · rw [heq] at hb
      exact hb
    · rw [heq] at hb
      simp only at hb ⊢
      rw [prodBefore_append, prodAfter_append]
      have := ih p e s'
      calc slotsWeight w (loopIter w init f p e s').slots *
            (prodBefore w (visitHere w pos ent s) * prodBefore w (loopTrace w init f p e s'))
          = (slotsWeight w (loopIter w init f p e s').slots * prodBefore w (loopTrace w init f p e s')) *
              prodBefore w (visitHere w pos ent s) := by ring
        _ = slotsWeight w s'.slots * prodBefore w (visitHere w pos ent s) *
              prodAfter w (loopTrace w init f p e s') := by rw [this]; ring
        _ = _ := by rw [hb]; ring

/-- every rewritten op along the trace has a strictly positive matrix element -/
theorem visitHere_after_pos (w : Nat → List Bool → List Bool → Rat) (pos : Nat) (ent : Leg)
    (s : LoopSt) : 0 < prodAfter w (visitHere w pos ent s) := by
  unfold visitHere
  cases h : exitOf w pos ent s with
  | none => simp [prodAfter]
  | some q =>
    obtain ⟨op, ex⟩ := q
    simp only [prodAfter, mul_one]
    rw [opW_after]
    exact (exitOf_some h).2.2

theorem loopTrace_after_pos (w : Nat → List Bool → List Bool → Rat) (init : Nat × Leg) (fuel pos : Nat)
    (ent : Leg) (s : LoopSt) : 0 < prodAfter w (loopTrace w init fuel pos ent s) := by
  induction fuel generalizing pos ent s with
  | zero => simp [loopTrace, prodAfter]
  | succ f ih =>
    unfold loopTrace
    rcases loopBody w init pos ent s with ⟨s', _ | ⟨p, e⟩⟩
    · exact visitHere_after_pos w pos ent s
    · simp only
      rw [prodAfter_append]
      exact mul_pos (visitHere_after_pos w pos ent s) (ih _ _ _)

/-- **path balance of `loopIter`** (without the start factor) -/
theorem loopIter_path_balance (w : Nat → List Bool → List Bool → Rat) (init : Nat × Leg)
    (fuel pos : Nat) (ent : Leg) (s : LoopSt) :
    slotsWeight w s.slots * pathProb w (loopTrace w init fuel pos ent s) =
      slotsWeight w (loopIter w init fuel pos ent s).slots *
        pathProbRev w (loopTrace w init fuel pos ent s) := by
  have h1 := loopIter_weight w init fuel pos ent s
  have h2 := path_local_balance w (loopTrace w init fuel pos ent s)
  have h3 := loopTrace_after_pos w init fuel pos ent s
  have h4 : (slotsWeight w s.slots * pathProb w (loopTrace w init fuel pos ent s)) *
        prodAfter w (loopTrace w init fuel pos ent s) =
      (slotsWeight w (loopIter w init fuel pos ent s).slots *
        pathProbRev w (loopTrace w init fuel pos ent s)) *
        prodAfter w (loopTrace w init fuel pos ent s) := by
    calc _ = (slotsWeight w s.slots * prodAfter w (loopTrace w init fuel pos ent s)) *
              pathProb w (loopTrace w init fuel pos ent s) := by ring
      _ = slotsWeight w (loopIter w init fuel pos ent s).slots *
            (prodBefore w (loopTrace w init fuel pos ent s) *
              pathProb w (loopTrace w init fuel pos ent s)) := by rw [← h1]; ring
      _ = _ := by rw [h2]; ring
  exact mul_right_cancel₀ (ne_of_gt h3) h4

/-- **path balance of `loopUpdate`**, matrix-element part -/
theorem loopUpdate_path_balance (w : Nat → List Bool → List Bool → Rat) (cfg : Config) (rs : RS) :
    slotsWeight w cfg.slots * pathProb w (loopUpdateTrace w cfg rs) =
      slotsWeight w (loopUpdate w cfg rs).1.slots * pathProbRev w (loopUpdateTrace w cfg rs) := by
  unfold loopUpdate loopUpdateTrace
  split
  · simp [pathProb, pathProbRev]
  · rcases loopStart cfg.slots rs with ⟨_ | ⟨p, leg⟩, rs'⟩
    · simp [pathProb, pathProbRev]
    · simp only
      exact loopIter_path_balance w (p, leg) _ p leg
        { state := cfg.state, slots := cfg.slots, rs := rs' }

/-- `Σk` is a skeleton invariant, hence unchanged by the loop update -/
theorem loopUpdate_totalVars (w : Nat → List Bool → List Bool → Rat) (cfg : Config) (rs : RS) :
    totalVars (loopUpdate w cfg rs).1.slots = totalVars cfg.slots :=
  (totalVars_pickLeg_skeleton (loopUpdate_skeleton w cfg rs)).1

/-! ### the trace is a linked path from the start leg to a closing exit -/

theorem occV_skeleton {s1 s2 : Slots} (h : skeletonOf s1 = skeletonOf s2) (v : Nat) :
    occV s1 v = occV s2 v := by
  unfold occV
  rw [skeleton_length h]
  apply List.filterMap_congr
  intro p _
  have := skeleton_getElem? h p
  cases h1 : s1[p]? with
  | none =>
    cases h2 : s2[p]? with
    | none => rfl
    | some y => rw [h1, h2] at this; simp at this
  | some x =>
    cases h2 : s2[p]? with
    | none => rw [h1, h2] at this; simp at this
    | some y =>
      rw [h1, h2] at this
      cases x with
      | none => cases y with
        | none => rfl
        | some o2 => simp at this
      | some o1 => cases y with
        | none => simp at this
        | some o2 =>
          simp only [Option.map_some, Option.some.injEq, Prod.mk.injEq] at this
          simp only [Op.indexOfVar, this.1]

/-- the leg the exit leg `ex` of the op at `pos` is linked to (`op'` supplies the variables) -/
def partnerOf (slots : Slots) (pos : Nat) (op' : Op) (ex : Leg) : Option (Nat × Leg) :=
  (moveOn slots [] pos op' ex).2.map (fun q => (q.1, ⟨q.2, !ex.out⟩))

theorem moveOn_snd (slots : Slots) (st1 st2 : List Bool) (pos : Nat) (op' : Op) (ex : Leg) :
    (moveOn slots st1 pos op' ex).2 = (moveOn slots st2 pos op' ex).2 := by
  unfold moveOn
  simp only
  split <;> split <;> rfl

theorem partnerOf_of_moveOn {s0 slots : Slots} (hsk : skeletonOf s0 = skeletonOf slots)
    {st st' : List Bool} {pos : Nat} {op' : Op} {ex : Leg} {p' r' : Nat}
    (h : moveOn s0 st pos op' ex = (st', some (p', r'))) :
    partnerOf slots pos op' ex = some (p', ⟨r', !ex.out⟩) := by
  unfold partnerOf
  rw [← moveOn_congr s0 slots (fun v => occV_skeleton hsk v), moveOn_snd s0 [] st, h]
  rfl

/-- a visit closes the loop started at `init`: its exit leg is `init` or is linked to `init` -/
def Closes (slots : Slots) (init : Nat × Leg) (v : Visit) : Prop :=
  (v.pos, v.ex) = init ∨ partnerOf slots v.pos v.after v.ex = some init

/-- consecutive visits: the next one enters through the link partner of the previous exit -/
def Linked (slots : Slots) (a b : Visit) : Prop :=
  partnerOf slots a.pos a.after a.ex = some (b.pos, b.ent)

/-- `tr` is a path of linked visits that starts by entering `(pos, ent)`; if `closed`, its last
visit closes the loop -/
inductive IsPath (slots : Slots) (init : Nat × Leg) : Nat → Leg → Bool → List Visit → Prop
  | stop (pos : Nat) (ent : Leg) : IsPath slots init pos ent false []
  | last (v : Visit) (c : Bool) : (c = true → Closes slots init v) → IsPath slots init v.pos v.ent c [v]
  | step (v : Visit) (p : Nat) (e : Leg) (c : Bool) (t : List Visit) :
      partnerOf slots v.pos v.after v.ex = some (p, e) → IsPath slots init p e c t →
      IsPath slots init v.pos v.ent c (v :: t)

theorem IsPath.mono {slots : Slots} {init : Nat × Leg} {pos : Nat} {ent : Leg} {tr : List Visit}
    (h : IsPath slots init pos ent true tr) : IsPath slots init pos ent false tr := by
  generalize hc : true = c at h
  induction h with
  | stop pos ent => exact IsPath.stop pos ent
  | last v c _ => exact IsPath.last v false (fun h => by cases h)
  | step v p e c t hp _ ih => exact IsPath.step v p e false t hp (ih hc)

/-- **the trace of a run is a linked path**; when the run closed, it ends in a closing visit -/
theorem loopTrace_isPath (w : Nat → List Bool → List Bool → Rat) (init : Nat × Leg) (sk : Slots)
    (fuel pos : Nat) (ent : Leg) (s : LoopSt) (hsk : skeletonOf s.slots = skeletonOf sk) :
    IsPath sk init pos ent
      (!(loopIter w init fuel pos ent s).rs.panicked && !(loopIter w init fuel pos ent s).rs.short)
      (loopTrace w init fuel pos ent s) := by
  induction fuel generalizing pos ent s with
  | zero => simp only [loopIter, loopTrace, Bool.not_true, Bool.and_false]; exact IsPath.stop pos ent
  | succ f ih =>
    have hsk' : skeletonOf (loopBody w init pos ent s).1.slots = skeletonOf sk := by
      rw [loopBody_skeleton]; exact hsk
    unfold loopIter loopTrace
    rcases loopBody_cases' w init pos ent s with ⟨hn, hfl⟩ | ⟨op, ex, hex, hcase⟩
    · -- error exit: flagged, whatever was recorded is a path that does not claim to close
      rcases heq : loopBody w init pos ent s with ⟨s', _ | ⟨p, e⟩⟩
      · rw [heq] at hfl
        simp only at hfl ⊢
        have hc : (!s'.rs.panicked && !s'.rs.short) = false := by
          rcases hfl with h | h <;> simp [h]
        rw [hc]
        unfold visitHere
        cases exitOf w pos ent s with
        | none => exact IsPath.stop pos ent
        | some q => exact IsPath.last ⟨pos, ent, q.2, q.1⟩ false (fun h => by cases h)
      · rw [heq] at hn; cases hn
    · have hv : visitHere w pos ent s = [⟨pos, ent, ex, op⟩] := by unfold visitHere; rw [hex]
      rw [hv]
      rcases hcase with ⟨hinit, hnone⟩ | ⟨hinit, st', p', r', hmv, hfin⟩
      · rcases heq : loopBody w init pos ent s with ⟨s', _ | ⟨p, e⟩⟩
        · simp only
          exact IsPath.last ⟨pos, ent, ex, op⟩ _ (fun _ => Or.inl hinit)
        · rw [heq] at hnone; cases hnone
      · have hpart := partnerOf_of_moveOn (slots := sk) hsk hmv
        rcases hfin with ⟨hhead, hnone⟩ | ⟨hhead, hsome⟩
        · rcases heq : loopBody w init pos ent s with ⟨s', _ | ⟨p, e⟩⟩
          · simp only
            exact IsPath.last ⟨pos, ent, ex, op⟩ _ (fun _ => Or.inr (by rw [← hhead]; exact hpart))
          · rw [heq] at hnone; cases hnone
        · rcases heq : loopBody w init pos ent s with ⟨s', _ | ⟨p, e⟩⟩
          · rw [heq] at hsome; cases hsome
          · rw [heq] at hsome hsk'
            simp only at hsome hsk' ⊢
            injection hsome with hsome; injection hsome with e1 e2
            subst e1; subst e2
            exact IsPath.step ⟨pos, ent, ex, op⟩ _ _ _ _ hpart (ih _ _ s' hsk')

/-- the exit leg of every visit exists in any string on the same skeleton — in particular the
exit leg of the last visit, where the reverse loop starts, exists in the result -/
theorem headOK_skeleton {s1 s2 : Slots} (h : skeletonOf s1 = skeletonOf s2) {p : Nat} {l : Leg}
    (hh : HeadOK s1 p l) : HeadOK s2 p l := by
  obtain ⟨op, hop, hr⟩ := hh
  have := skeleton_getElem? h p
  rw [hop] at this
  cases h2 : s2[p]? with
  | none => rw [h2] at this; simp at this
  | some y =>
    rw [h2] at this
    cases y with
    | none => simp at this
    | some o2 =>
      simp only [Option.map_some, Option.some.injEq, Prod.mk.injEq] at this
      exact ⟨o2, h2, by rw [← this.1]; exact hr⟩

theorem loopTrace_exit_exists (w : Nat → List Bool → List Bool → Rat) (init : Nat × Leg) (sk : Slots)
    (fuel pos : Nat) (ent : Leg) (s : LoopSt) (hsk : skeletonOf s.slots = skeletonOf sk) :
    ∀ v ∈ loopTrace w init fuel pos ent s, HeadOK sk v.pos v.ex := by
  induction fuel generalizing pos ent s with
  | zero => intro v hv; simp [loopTrace] at hv
  | succ f ih =>
    have hhere : ∀ v ∈ visitHere w pos ent s, HeadOK sk v.pos v.ex := by
      intro v hv
      unfold visitHere at hv
      cases hex : exitOf w pos ent s with
      | none => rw [hex] at hv; simp at hv
      | some q =>
        rw [hex] at hv
        simp only [List.mem_singleton] at hv
        subst hv
        obtain ⟨hop, hr, _⟩ := exitOf_some (op := q.1) (ex := q.2) (by rw [hex])
        exact headOK_skeleton hsk ⟨q.1, hop, hr⟩
    have hsk' : skeletonOf (loopBody w init pos ent s).1.slots = skeletonOf sk := by
      rw [loopBody_skeleton]; exact hsk
    unfold loopTrace
    rcases heq : loopBody w init pos ent s with ⟨s', _ | ⟨p, e⟩⟩
    · exact hhere
    · rw [heq] at hsk'
      simp only at hsk' ⊢
      intro v hv
      rcases List.mem_append.mp hv with h | h
      · exact hhere v h
      · exact ih p e s' hsk' v h

end Qmc.LoopC
