/-
Refinement, bridge: neutral certificates in the vocabulary of `QmcModel/Basic.lean` only.

Why this file exists: `QmcModel/Cluster.lean` (C09) and `QmcModel/Worldline.lean` (C06/C07) both declare
`Qmc.maskOp` / `Qmc.maskSlots` (and their proof files both declare `Qmc.propagate_xor`,
`Qmc.writeVars_xor`, …), so no Lean file can import both. The statements that connect the two are
therefore split at a certificate that mentions neither:

  C09 side  (QmcProofs/RefinementClusterSide.lean):  `ClusterMove fr b a` + tag rule  →  `FlipCert b a`
                                                     (+ symmetric Hamiltonian        →  `KeepsWeight H …`)
  C06 side  (QmcProofs/Refinement.lean):             `FlipCert b a`  →  `SpinFlipStep b a`
                                                     `KeepsWeight H b a`  ↔  `FlipKeepsWeight H b a`

Both sides import this file, so `FlipCert` / `KeepsWeight` are the same propositions on both sides.
-/
import QmcModel.Basic

namespace Qmc.Refine
open Qmc

/-- same skeleton, position by position, with the tag rule of `edit_in_out`: an op is untouched, or its
tag is `Diagonal` iff inputs = outputs -/
def SkelCert : Slots → Slots → Prop
  | [], [] => True
  | none :: b, none :: a => SkelCert b a
  | some o :: b, some o' :: a =>
    (o'.vars = o.vars ∧ o'.bond = o.bond ∧ o'.const = o.const ∧
      o'.ins.length = o.ins.length ∧ o'.outs.length = o.outs.length ∧
      (o' = o ∨ o'.tagDiag = decide (o'.ins = o'.outs))) ∧ SkelCert b a
  | _, _ => False

/-- every changed op keeps a strictly positive matrix element -/
def KeepsWeight (H : Ham) : Slots → Slots → Prop
  | some o :: b, some o' :: a => (o' = o ∨ 0 < H.w o'.bond o'.ins o'.outs) ∧ KeepsWeight H b a
  | _ :: b, _ :: a => KeepsWeight H b a
  | _, _ => True

/-- `a` results from `b` by a spin-only update that keeps world lines periodic -/
structure FlipCert (b a : Config) : Prop where
  len : a.state.length = b.state.length
  skel : SkelCert b.slots a.slots
  cons : Consistent b → Consistent a

end Qmc.Refine
