/-
C11, hint fills: `fill_args_at_p_with_hint` (QmcModel/FastOpsHint.lean) on the canonical container
equals the scan of the naive slot array, for every hint inside the callers' contract.

Contract on the hint (what rvb.rs guarantees: `boundary_tops` are positions of constant ops ON the
variable, or `None`):  `HintOK s vars hint` — as many hints as variables, and every `Some(ph)` is a slot
holding an op that contains the corresponding variable.  Nothing is assumed about the position of the
hint relative to `p` (before, at, after).

What the code does with it (and what is proved): the hint never changes the answer.  Non-exact case:
the walk runs FORWARD along `next_for_vars` from `min(hint, first op of the variable)` — under the
invariant that is always the first op — until `p_crosses` fires; exact case (`hint == p` or the first op
sits at `p`): `previous_for_vars` of the node at `p` is copied.  Either way the entry is the last op
strictly before `p` on that variable.
-/
import QmcModel.FastOpsHint
import QmcProofs.FastOpsSubFull

namespace Qmc

/-- the callers' contract on `vars`/`hint` -/
def HintOK (s : Slots) (vars : List Nat) (hint : List (Option Nat)) : Prop :=
  hint.length = vars.length ∧
  ∀ (i v q : Nat), vars[i]? = some v → hint[i]? = some (some q) → occVAt s v q = true

/-- what one entry of `last_vars` / `last_rels` becomes (scan-level description of the overwrite
rule): rewritten when the variable has an op at `p` or before `p`, kept otherwise -/
def hintEntry (s : Slots) (p v : Nat) (proj : PRel → Nat) (old : Option Nat) : Option Nat :=
  if occVAt s v p || (prevRel s v p).isSome then (prevRel s v p).map proj else old

namespace FastOps

/-! ### `p_crosses` -/

theorem pCrosses_lt {a b p : Nat} (h : a < b) : pCrosses a b p = (decide (a < p) && decide (p ≤ b)) := by
  simp [pCrosses, h]

theorem pCrosses_wrap {a b p : Nat} (hba : b ≤ a) (hap : a < p) : pCrosses a b p = true := by
  unfold pCrosses
  by_cases h1 : a < b
  · omega
  · by_cases h2 : a > b
    · simp only [h1, h2, if_false, if_true]
      have : ¬ p ≤ a := by omega
      simp [this]
    · simp [h1, h2]

/-! ### the forward walk terminates for ANY container: `p + 1` units of fuel are never used up -/

theorem hintWalk_fuel (c : FastOps) (p var : Nat) :
    ∀ (fuel fuel' pc rv : Nat), p - pc < fuel → p - pc < fuel' →
      hintWalk c p var fuel pc rv = hintWalk c p var fuel' pc rv := by
  intro fuel
  induction fuel with
  | zero => intro fuel' pc rv h; omega
  | succ fuel ih =>
    intro fuel' pc rv h1 h2
    cases fuel' with
    | zero => omega
    | succ fuel' =>
      unfold hintWalk
      by_cases hlt : pc < p
      · simp only [hlt, if_true]
        cases c.nodeExpect pc with
        | none => rfl
        | some node =>
          simp only []
          cases node.nextForVars[rv]? with
          | none => rfl
          | some nx =>
            simp only []
            cases c.nextOrStart var nx with
            | none => rfl
            | some next =>
              simp only []
              by_cases hc : pCrosses pc next.p p = true
              · simp [hc]
              · simp only [hc, Bool.false_eq_true, if_false]
                -- not crossing from `pc < p` means `pc < next.p < p`
                have hnp : pc < next.p ∧ next.p < p := by
                  unfold pCrosses at hc
                  by_cases h3 : pc < next.p
                  · simp only [h3, if_true, Bool.and_eq_true, decide_eq_true_eq] at hc
                    omega
                  · by_cases h4 : pc > next.p
                    · simp only [h3, h4, if_false, if_true] at hc
                      have : ¬ p ≤ pc := by omega
                      simp [this] at hc
                    · simp [h3, h4] at hc
                exact ih fuel' next.p next.relv (by omega) (by omega)
      · simp [hlt]

/-! ### reads of the canonical container through the panicking accessors -/

theorem nodeExpect_eq_getNode (c : FastOps) (q : Nat) : c.nodeExpect q = c.getNode q := by
  unfold nodeExpect getNode
  cases c.ops[q]? with
  | none => rfl
  | some o => cases o <;> rfl

theorem nodeExpect_canon (nv : Nat) (nb : Option Nat) (s : Slots) (q : Nat) :
    (canon nv nb s).nodeExpect q = (slotAt s q).map (canonNode s q) := by
  rw [nodeExpect_eq_getNode, getNode_canon]

theorem varStartIdx_canon (nv : Nat) (nb : Option Nat) (s : Slots) (v : Nat) (hv : v < nv) :
    (canon nv nb s).varStartIdx v = some (firstRel s v) := by
  unfold varStartIdx
  have h1 : (canon nv nb s).varEnds[v]? = some (canonVarEnd s v) := by
    simp only [canon, List.getElem?_map, List.getElem?_range hv]; rfl
  rw [h1]
  simp only [Option.map_some, canonVarEnd]
  congr 1
  exact zipOpt_fst _ _ (firstRel_isSome s v)

theorem scanDown_canon (nv : Nat) (nb : Option Nat) (s : Slots) (p : Nat) :
    scanDown (canon nv nb s) p = prevOcc (occAt s) p := by
  unfold scanDown
  apply prevOcc_congr
  intro k; rw [← occ_abs, abs_canon]

end FastOps

/-! ### facts about one variable's chain in the naive slot array -/

theorem occV_slot {s : Slots} {v q : Nat} (h : occVAt s v q = true) :
    ∃ op, slotAt s q = some op ∧ v ∈ op.vars := by
  unfold occVAt at h
  cases hs : slotAt s q with
  | none => rw [hs] at h; cases h
  | some op => rw [hs] at h; exact ⟨op, rfl, by simpa using h⟩

theorem relAt_relv {s : Slots} {v q : Nat} {op : Op} (h : slotAt s q = some op) :
    relAt s v q = ⟨q, op.vars.idxOf v⟩ := by
  simp [relAt, h]

theorem indexOfVar_mem {op : Op} {v : Nat} (h : v ∈ op.vars) : op.indexOfVar v = some (op.vars.idxOf v) := by
  unfold Op.indexOfVar
  simp [List.idxOf_lt_length_of_mem h]

theorem map_idxOf' {β : Type} (vars : List Nat) (F : Nat → β) (v : Nat) (hv : v ∈ vars) :
    (vars.map F)[vars.idxOf v]? = some (F v) := by
  have hl := List.idxOf_lt_length_of_mem hv
  rw [List.getElem?_map, List.getElem?_eq_getElem hl, List.getElem_idxOf hl]
  rfl

theorem occV_false_of_ge {s : Slots} {v k : Nat} (h : s.length ≤ k) : occVAt s v k = false := by
  unfold occVAt; rw [slotAt_eq_none_of_le h]

/-- first op of the variable: exists as soon as some op touches it, and lies at or before it -/
theorem firstRel_of_occV {s : Slots} {v q : Nat} (h : occVAt s v q = true) :
    ∃ f, firstOcc (occVAt s v) s.length = some f ∧ f ≤ q ∧ occVAt s v f = true ∧
      firstRel s v = some (relAt s v f) := by
  obtain ⟨f, hf⟩ := first_some_of_mem h (occV_lt h)
  refine ⟨f, hf, ?_, (firstOcc_mem hf).2, by simp [firstRel, hf]⟩
  rw [firstOcc_some_iff] at hf
  by_cases hle : f ≤ q
  · exact hle
  · have := hf.2.2 q (by omega); rw [h] at this; cases this

namespace FastOps

/-! ### the forward walk on the canonical container -/

/-- from any op `pc < p` on the variable, `iter_and_set`'s loop stops at the LAST op on the variable
strictly before `p`; `pcheck < next.p` there iff that op is not the last one of the variable -/
theorem hintWalk_canon (nv : Nat) (nb : Option Nat) (s : Slots) (p v : Nat) (hv : v < nv) :
    ∀ (fuel pc : Nat), occVAt s v pc = true → pc < p → p - pc < fuel →
      ∃ x op, hintWalk (canon nv nb s) p v fuel pc (relAt s v pc).relv = some x ∧
        prevOcc (occVAt s v) p = some x.pcheck ∧ x.relv = (relAt s v x.pcheck).relv ∧
        slotAt s x.pcheck = some op ∧ x.node = canonNode s x.pcheck op ∧
        (x.pcheck < x.nextP ↔ (nextOcc (occVAt s v) s.length x.pcheck).isSome = true) := by
  intro fuel
  induction fuel with
  | zero => intro pc _ _ h; omega
  | succ fuel ih =>
    intro pc hocc hlt hfuel
    obtain ⟨op, hsp, hmem⟩ := occV_slot hocc
    have hrel : (relAt s v pc).relv = op.vars.idxOf v := by rw [relAt_relv hsp]
    unfold hintWalk
    simp only [hlt, if_true, nodeExpect_canon, hsp, Option.map_some]
    have hnext : (canonNode s pc op).nextForVars[(relAt s v pc).relv]? = some (nextRel s v pc) := by
      rw [hrel]; exact map_idxOf' op.vars _ v hmem
    simp only [hnext]
    cases hnx : nextOcc (occVAt s v) s.length pc with
    | some q =>
      have hnr : nextRel s v pc = some (relAt s v q) := by simp [nextRel, hnx]
      simp only [hnr, nextOrStart]
      obtain ⟨hpq, hqL, hqocc⟩ := nextOcc_gt hnx
      have hq : (relAt s v q).p = q := rfl
      rw [hq, pCrosses_lt hpq]
      by_cases hpq' : p ≤ q
      · simp only [hlt, hpq', decide_true, Bool.and_self, if_true]
        refine ⟨⟨pc, (relAt s v pc).relv, q, canonNode s pc op⟩, op, rfl, ?_, rfl, hsp, rfl, ?_⟩
        · rw [prevOcc_some_iff]
          refine ⟨hlt, hocc, ?_⟩
          intro k hk1 hk2
          rw [nextOcc_some_iff] at hnx
          exact hnx.2.2.2 k hk1 (by omega)
        · simp [hnx, hpq]
      · have hqp : q < p := by omega
        simp only [hlt, hpq', decide_true, decide_false, Bool.and_false, Bool.false_eq_true, if_false]
        exact ih q hqocc hqp (by omega)
    | none =>
      have hnr : nextRel s v pc = none := by simp [nextRel, hnx]
      obtain ⟨f, hf, hfle, hfocc, hfr⟩ := firstRel_of_occV hocc
      simp only [hnr, nextOrStart, varStartIdx_canon nv nb s v hv, Option.join_some, hfr]
      have hq : (relAt s v f).p = f := rfl
      rw [hq, pCrosses_wrap hfle hlt]
      simp only [if_true]
      refine ⟨⟨pc, (relAt s v pc).relv, f, canonNode s pc op⟩, op, rfl, ?_, rfl, hsp, rfl, ?_⟩
      · rw [prevOcc_some_iff]
        refine ⟨hlt, hocc, ?_⟩
        intro k hk1 _
        by_cases hkL : k < s.length
        · rw [nextOcc_none_iff] at hnx
          exact hnx k hk1 hkL
        · exact occV_false_of_ge (Nat.le_of_not_lt hkL)
      · simp only [hnx, Option.isSome_none, Bool.false_eq_true, iff_false]
        show ¬ pc < f
        omega

/-! ### one variable of `fill_args_at_p_with_hint` on the canonical container -/

end FastOps

/-- the hint of ONE variable is inside the contract: `None`, or a slot holding an op on the variable -/
def HintVarOK (s : Slots) (v : Nat) (ph : Option Nat) : Prop := ∀ q, ph = some q → occVAt s v q = true

theorem occV_none_of_first_none {s : Slots} {v : Nat} (h : firstOcc (occVAt s v) s.length = none) (k : Nat) :
    occVAt s v k = false := by
  by_cases hk : k < s.length
  · rw [firstOcc_none_iff] at h; exact h k hk
  · exact occV_false_of_ge (Nat.le_of_not_lt hk)

theorem set_join_self {α : Type} (l : List (Option α)) (i : Nat) : l.set i ((l[i]?).join) = l := by
  apply List.ext_getElem?
  intro j
  rw [List.getElem?_set]
  by_cases hij : i = j
  · subst hij
    by_cases hi : i < l.length
    · simp [hi]
    · simp [hi]
  · simp [hij]

namespace FastOps

theorem hintIsOp_canon (nv : Nat) (nb : Option Nat) (s : Slots) (v : Nat) (ph : Option Nat)
    (hh : HintVarOK s v ph) : (canon nv nb s).hintIsOp ph = some () := by
  unfold hintIsOp
  cases ph with
  | none => rfl
  | some q =>
    obtain ⟨op, hsp, _⟩ := occV_slot (hh q rfl)
    simp [nodeExpect_canon, hsp]

theorem hintUseExact_canon (nv : Nat) (nb : Option Nat) (s : Slots) (p v : Nat) (ph : Option Nat)
    (hh : HintVarOK s v ph) :
    (canon nv nb s).hintUseExact p v ph (firstRel s v) =
      some (if ph = some p ∨ firstOcc (occVAt s v) s.length = some p then some (relAt s v p) else none) := by
  unfold hintUseExact
  by_cases h1 : ph = some p
  · obtain ⟨op, hsp, hmem⟩ := occV_slot (hh p h1)
    have hop : (canonNode s p op).op = op := rfl
    simp only [h1, if_true, nodeExpect_canon, hsp, Option.map_some, hop, indexOfVar_mem hmem, true_or,
      relAt_relv hsp]
  · simp only [h1, if_false, false_or]
    cases hf : firstOcc (occVAt s v) s.length with
    | none => simp [firstRel, hf]
    | some f =>
      have hfr : firstRel s v = some (relAt s v f) := by simp [firstRel, hf]
      have hq : (relAt s v f).p = f := rfl
      simp only [hfr, hq]
      by_cases hfp : f = p
      · subst hfp; simp
      · simp [hfp]

/-- where `iter_and_set` is started once `use_exact` failed: nowhere iff no op on the variable lies at or
before `p`; otherwise at an op on the variable strictly before `p` (the first one, or the hint) -/
theorem hintIterStart_canon (nv : Nat) (nb : Option Nat) (s : Slots) (p v : Nat) (ph : Option Nat)
    (hh : HintVarOK s v ph)
    (hne : ¬ (ph = some p ∨ firstOcc (occVAt s v) s.length = some p)) :
    ∃ r, (canon nv nb s).hintIterStart p v ph (firstRel s v) = some r ∧
      (r = none → prevOcc (occVAt s v) p = none ∧ occVAt s v p = false) ∧
      (∀ st, r = some st → occVAt s v st.p = true ∧ st.p < p ∧ st.relv = (relAt s v st.p).relv) := by
  have hnone_of_gt : ∀ f, firstOcc (occVAt s v) s.length = some f → p < f →
      prevOcc (occVAt s v) p = none ∧ occVAt s v p = false := by
    intro f hf hpf
    rw [firstOcc_some_iff] at hf
    refine ⟨?_, hf.2.2 p hpf⟩
    rw [prevOcc_none_iff]
    intro k hk
    exact hf.2.2 k (by omega)
  unfold hintIterStart
  cases ph with
  | none =>
    cases hf : firstOcc (occVAt s v) s.length with
    | none =>
      have hfr : firstRel s v = none := by simp [firstRel, hf]
      refine ⟨none, by simp [hfr], ?_, (by intro st h; cases h)⟩
      intro _
      refine ⟨?_, occV_none_of_first_none hf p⟩
      rw [prevOcc_none_iff]
      intro k _
      exact occV_none_of_first_none hf k
    | some f =>
      have hfr : firstRel s v = some (relAt s v f) := by simp [firstRel, hf]
      have hq : (relAt s v f).p = f := rfl
      simp only [hfr, hq]
      by_cases hfp : f < p
      · refine ⟨some (relAt s v f), by simp [hfp], (by intro h; cases h), ?_⟩
        intro st hst
        have : st = relAt s v f := (Option.some.inj hst).symm
        subst this
        exact ⟨(firstOcc_mem hf).2, hfp, rfl⟩
      · have hpf : p < f := by
          have : f ≠ p := fun e => hne (Or.inr (by rw [hf, e]))
          omega
        exact ⟨none, by simp [hfp], fun _ => hnone_of_gt f hf hpf, (by intro st h; cases h)⟩
  | some q =>
    have hqocc := hh q rfl
    obtain ⟨op, hsp, hmem⟩ := occV_slot hqocc
    obtain ⟨f, hf, hfq, hfocc, hfr⟩ := firstRel_of_occV hqocc
    have hq : (relAt s v f).p = f := rfl
    have hop : (canonNode s q op).op = op := rfl
    simp only [hfr, nodeExpect_canon, hsp, Option.map_some, hop, indexOfVar_mem hmem, hq]
    have hqrel : (⟨q, op.vars.idxOf v⟩ : PRel) = relAt s v q := (relAt_relv hsp).symm
    by_cases hqp : q < p
    · by_cases hfp : f < p
      · simp only [hqp, hfp, decide_true]
        by_cases hqf : q < f
        · refine ⟨some ⟨q, op.vars.idxOf v⟩, by simp [hqf], (by intro h; cases h), ?_⟩
          intro st hst
          have : st = ⟨q, op.vars.idxOf v⟩ := (Option.some.inj hst).symm
          subst this
          exact ⟨hqocc, hqp, by rw [hqrel]; rfl⟩
        · refine ⟨some (relAt s v f), by simp [hqf], (by intro h; cases h), ?_⟩
          intro st hst
          have : st = relAt s v f := (Option.some.inj hst).symm
          subst this
          exact ⟨hfocc, hfp, rfl⟩
      · simp only [hqp, hfp, decide_true, decide_false]
        refine ⟨some ⟨q, op.vars.idxOf v⟩, rfl, (by intro h; cases h), ?_⟩
        intro st hst
        have : st = ⟨q, op.vars.idxOf v⟩ := (Option.some.inj hst).symm
        subst this
        exact ⟨hqocc, hqp, by rw [hqrel]; rfl⟩
    · by_cases hfp : f < p
      · simp only [hqp, hfp, decide_true, decide_false]
        refine ⟨some (relAt s v f), rfl, (by intro h; cases h), ?_⟩
        intro st hst
        have : st = relAt s v f := (Option.some.inj hst).symm
        subst this
        exact ⟨hfocc, hfp, rfl⟩
      · simp only [hqp, hfp, decide_false]
        have hpf : p < f := by
          have : f ≠ p := fun e => hne (Or.inr (by rw [hf, e]))
          omega
        exact ⟨none, rfl, fun _ => hnone_of_gt f hf hpf, (by intro st h; cases h)⟩

/-- one `(subvar, (phint, var))` step: the entry `subvar` of both tables becomes `hintEntry` -/
theorem hintFillVar_canon (nv : Nat) (nb : Option Nat) (s : Slots) (p : Nat) (a : Cursor) (i : Nat)
    (hi1 : i < a.lastVars.length) (hi2 : i < a.lastRels.length) (ph : Option Nat) (v : Nat) (hv : v < nv)
    (hh : HintVarOK s v ph) :
    (canon nv nb s).hintFillVar p a i ph v = some
      { a with lastVars := a.lastVars.set i (hintEntry s p v (·.p) ((a.lastVars[i]?).join)),
               lastRels := a.lastRels.set i (hintEntry s p v (·.relv) ((a.lastRels[i]?).join)) } := by
  have hwrite : ∀ x y, cursorWrite a i x y =
      some { a with lastVars := a.lastVars.set i x, lastRels := a.lastRels.set i y } := by
    intro x y; simp [cursorWrite, hi1, hi2]
  have hkeep : ∀ (e1 e2 : Option Nat), e1 = (a.lastVars[i]?).join → e2 = (a.lastRels[i]?).join →
      some a = some { a with lastVars := a.lastVars.set i e1, lastRels := a.lastRels.set i e2 } := by
    intro e1 e2 h1 h2
    rw [h1, h2, set_join_self, set_join_self]
  unfold hintFillVar
  simp only [hintIsOp_canon nv nb s v ph hh, varStartIdx_canon nv nb s v hv,
    hintUseExact_canon nv nb s p v ph hh, Option.bind_some]
  by_cases hex : ph = some p ∨ firstOcc (occVAt s v) s.length = some p
  · -- exact: the node at `p` holds the variable; its `previous_for_vars` entry is copied
    have hocc : occVAt s v p = true := by
      cases hex with
      | inl h => exact hh p h
      | inr h => exact (firstOcc_mem h).2
    obtain ⟨op, hsp, hmem⟩ := occV_slot hocc
    have hprev : (canonNode s p op).previousForVars[op.vars.idxOf v]? = some (prevRel s v p) :=
      map_idxOf' op.vars _ v hmem
    have hq : (relAt s v p).p = p := rfl
    simp only [hex, if_true, nodeExpect_canon, hsp, Option.map_some, Option.bind_some,
      relAt_relv hsp, hprev, hwrite, hintEntry, hocc, Bool.true_or]
  · simp only [hex, if_false]
    obtain ⟨r, hr, hnone, hsome⟩ := hintIterStart_canon nv nb s p v ph hh hex
    simp only [hr, Option.bind_some]
    cases r with
    | none =>
      obtain ⟨hp0, hocc0⟩ := hnone rfl
      have hpr : prevRel s v p = none := by simp [prevRel, hp0]
      simp only []
      apply hkeep <;> simp [hintEntry, hocc0, hpr]
    | some st =>
      obtain ⟨hso, hsp', hsr⟩ := hsome st rfl
      obtain ⟨x, op, hx, hprev, hxr, _, _, _⟩ :=
        hintWalk_canon nv nb s p v hv (p + 1) st.p hso hsp' (by omega)
      rw [← hsr] at hx
      have hxp : x.pcheck < p := (prevOcc_lt hprev).1
      have hpr : prevRel s v p = some (relAt s v x.pcheck) := by simp [prevRel, hprev]
      simp only [hx, Option.bind_some, hxp, if_true, hwrite, hintEntry, hpr, Option.isSome_some,
        Bool.or_true, Option.map_some, hxr]
      rfl

/-! ### the loop over `hint.zip(vars).enumerate()` -/

/-- the step function of the loop, as it appears in `fillArgsWithHint` -/
def hintFillStep (c : FastOps) (p : Nat) (acc : Option Cursor) (x : (Option Nat × Nat) × Nat) : Option Cursor :=
  acc.bind fun a => c.hintFillVar p a x.2 x.1.1 x.1.2

theorem hintFill_fold (nv : Nat) (nb : Option Nat) (s : Slots) (p : Nat) :
    ∀ (l : List (Option Nat × Nat)), (∀ x ∈ l, x.2 < nv ∧ HintVarOK s x.2 x.1) →
    ∀ (k : Nat) (a : Cursor) (preV preR midV midR postV postR : List (Option Nat)),
      a.lastVars = preV ++ (midV ++ postV) → a.lastRels = preR ++ (midR ++ postR) →
      preV.length = k → preR.length = k → midV.length = l.length → midR.length = l.length →
      (l.zipIdx k).foldl (hintFillStep (canon nv nb s) p) (some a) = some
        { a with lastVars := preV ++ (List.zipWith (fun v old => hintEntry s p v (·.p) old) (l.map (·.2)) midV ++ postV),
                 lastRels := preR ++ (List.zipWith (fun v old => hintEntry s p v (·.relv) old) (l.map (·.2)) midR ++ postR) } := by
  intro l
  induction l with
  | nil =>
    intro _ k a preV preR midV midR postV postR hV hR _ _ hmV hmR
    have h1 : midV = [] := List.length_eq_zero_iff.mp hmV
    have h2 : midR = [] := List.length_eq_zero_iff.mp hmR
    subst h1 h2
    simp only [List.zipIdx_nil, List.foldl_nil, List.map_nil, List.zipWith_nil_left, ← hV, ← hR]
  | cons x l ih =>
    intro hl k a preV preR midV midR postV postR hV hR hpV hpR hmV hmR
    obtain ⟨hxv, hxh⟩ := hl x (List.mem_cons_self)
    cases midV with
    | nil => simp at hmV
    | cons mV midV =>
    cases midR with
    | nil => simp at hmR
    | cons mR midR =>
    have hk1 : k < a.lastVars.length := by rw [hV]; simp; omega
    have hk2 : k < a.lastRels.length := by rw [hR]; simp; omega
    have hgetV : (a.lastVars[k]?).join = mV := by
      rw [hV, ← hpV]; simp
    have hgetR : (a.lastRels[k]?).join = mR := by
      rw [hR, ← hpR]; simp
    have hsetV : ∀ e, a.lastVars.set k e = (preV ++ [e]) ++ (midV ++ postV) := by
      intro e; rw [hV, ← hpV]; simp
    have hsetR : ∀ e, a.lastRels.set k e = (preR ++ [e]) ++ (midR ++ postR) := by
      intro e; rw [hR, ← hpR]; simp
    simp only [List.zipIdx_cons, List.foldl_cons]
    have hstep : hintFillStep (canon nv nb s) p (some a) (x, k) = some
        { a with lastVars := (preV ++ [hintEntry s p x.2 (·.p) mV]) ++ (midV ++ postV),
                 lastRels := (preR ++ [hintEntry s p x.2 (·.relv) mR]) ++ (midR ++ postR) } := by
      simp only [hintFillStep, Option.bind_some]
      rw [hintFillVar_canon nv nb s p a k hk1 hk2 x.1 x.2 hxv hxh, hgetV, hgetR, hsetV, hsetR]
    rw [hstep]
    rw [ih (fun y hy => hl y (List.mem_cons_of_mem _ hy)) (k + 1) _ (preV ++ [hintEntry s p x.2 (·.p) mV])
      (preR ++ [hintEntry s p x.2 (·.relv) mR]) midV midR postV postR rfl rfl (by simp [hpV]) (by simp [hpR])
      (by simpa using hmV) (by simpa using hmR)]
    simp only [List.map_cons, List.zipWith_cons_cons, List.append_assoc, List.cons_append, List.nil_append]

/-- the spec of `fill_args_at_p_with_hint` on an arbitrary incoming cursor (scan-level description):
`last_p` by an array scan, every table entry through `hintEntry` -/
def hintCursor (s : Slots) (p : Nat) (vars : List Nat) (a : Cursor) : Cursor :=
  { a with lastP := prevOcc (occAt s) p
           lastVars := List.zipWith (fun v old => hintEntry s p v (·.p) old) vars a.lastVars
           lastRels := List.zipWith (fun v old => hintEntry s p v (·.relv) old) vars a.lastRels }

theorem zip_map_snd_of_length {α β : Type} (l1 : List α) (l2 : List β) (h : l1.length = l2.length) :
    (l1.zip l2).map (·.2) = l2 := by
  induction l1 generalizing l2 with
  | nil => cases l2 with
    | nil => rfl
    | cons _ _ => simp at h
  | cons a t ih =>
    cases l2 with
    | nil => simp at h
    | cons b t2 => simp [ih t2 (by simpa using h)]

theorem mem_zip_hint {s : Slots} {vars : List Nat} {hint : List (Option Nat)} (hok : HintOK s vars hint)
    (x : Option Nat × Nat) (hx : x ∈ hint.zip vars) : x.2 ∈ vars ∧ HintVarOK s x.2 x.1 := by
  obtain ⟨i, hi⟩ := List.mem_iff_getElem?.mp hx
  rw [List.getElem?_zip_eq_some] at hi
  obtain ⟨h1, h2⟩ := hi
  refine ⟨List.mem_of_getElem? h2, ?_⟩
  intro q hq
  exact hok.2 i x.2 q h2 (by rw [h1, hq])

/-- `fill_args_at_p_with_hint` on the canonical container, ANY incoming cursor of the right shape -/
theorem fillArgsWithHint_canon (nv : Nat) (nb : Option Nat) (s : Slots) (p : Nat) (a : Cursor)
    (vars : List Nat) (hint : List (Option Nat)) (hp : p ≤ s.length) (hlt : ∀ v ∈ vars, v < nv)
    (hok : HintOK s vars hint) (hlV : a.lastVars.length = vars.length) (hlR : a.lastRels.length = vars.length) :
    (canon nv nb s).fillArgsWithHint p a vars hint = some (hintCursor s p vars a) := by
  unfold fillArgsWithHint
  have hzl : (hint.zip vars).length = vars.length := by simp [hok.1]
  have hfold := hintFill_fold nv nb s p (hint.zip vars)
    (fun x hx => ⟨hlt _ (mem_zip_hint hok x hx).1, (mem_zip_hint hok x hx).2⟩)
    0 a [] [] a.lastVars a.lastRels [] [] (by simp) (by simp) rfl rfl (by rw [hzl, hlV]) (by rw [hzl, hlR])
  have hstep : (fun (acc : Option Cursor) (x : (Option Nat × Nat) × Nat) =>
      acc.bind fun a => (canon nv nb s).hintFillVar p a x.2 x.1.1 x.1.2) = hintFillStep (canon nv nb s) p := rfl
  simp only [hstep]
  have hz : (hint.zip vars).zipIdx = (hint.zip vars).zipIdx 0 := rfl
  rw [hz, hfold, zip_map_snd_of_length hint vars hok.1]
  have hnot : ¬ p > (canon nv nb s).ops.length := by rw [length_canon]; omega
  simp only [Option.bind_some, hnot, if_false, scanDown_canon, List.nil_append, List.append_nil, hintCursor]

end FastOps

/-! ### a fresh cursor (`get_empty_args(Varlist(vars))`): the scan cursor of the listed variables -/

theorem hintEntry_none (s : Slots) (p v : Nat) (proj : PRel → Nat) :
    hintEntry s p v proj none = (prevRel s v p).map proj := by
  unfold hintEntry
  split
  · rfl
  · next h =>
    cases hp : prevRel s v p with
    | none => rfl
    | some x => simp [hp] at h

theorem zipWith_replicate_none {α β γ : Type} (f : α → Option β → γ) (l : List α) :
    List.zipWith f l (List.replicate l.length none) = l.map (fun x => f x none) := by
  induction l with
  | nil => rfl
  | cons a t ih => simp [List.replicate_succ, ih]

/-- the scan cursor of the listed variables, on top of `a` (only `last_p` and the two tables change) -/
def scanCursor (s : Slots) (p : Nat) (vars : List Nat) (a : Cursor) : Cursor :=
  { a with lastP := prevOcc (occAt s) p
           lastVars := vars.map (fun v => (prevRel s v p).map (·.p))
           lastRels := vars.map (fun v => (prevRel s v p).map (·.relv)) }

theorem hintCursor_fresh (s : Slots) (p : Nat) (vars : List Nat) (a : Cursor)
    (hV : a.lastVars = List.replicate vars.length none) (hR : a.lastRels = List.replicate vars.length none) :
    FastOps.hintCursor s p vars a = scanCursor s p vars a := by
  unfold FastOps.hintCursor scanCursor
  rw [hV, hR, zipWith_replicate_none, zipWith_replicate_none]
  simp only [hintEntry_none]

namespace FastOps

/-- the existing scan specification `fillArgsWithHintSpec` of QmcModel/FastOps.lean (used by `drv_c11`
for the sub-sweeps whose cursor comes from the hint fill), on a fresh cursor -/
theorem specFold (prels : List (Option PRel)) (proj : PRel → Nat) :
    ∀ (k : Nat) (pre : List (Option Nat)), pre.length = k →
      (prels.zipIdx k).foldl (fun (l : List (Option Nat)) xi =>
          match xi.1 with | some pr => l.set xi.2 (some (proj pr)) | none => l)
        (pre ++ List.replicate prels.length none) = pre ++ prels.map (fun x => x.map proj) := by
  induction prels with
  | nil => intro k pre _; simp
  | cons x t ih =>
    intro k pre hk
    simp only [List.zipIdx_cons, List.foldl_cons, List.length_cons, List.replicate_succ, List.map_cons]
    have hset : ∀ e : Option Nat, (pre ++ none :: List.replicate t.length none).set k e
        = (pre ++ [e]) ++ List.replicate t.length none := by
      intro e; rw [← hk]; simp
    cases x with
    | none =>
      have : pre ++ none :: List.replicate t.length none = (pre ++ [none]) ++ List.replicate t.length none := by simp
      simp only [this]
      rw [ih (k + 1) (pre ++ [none]) (by simp [hk])]
      simp
    | some pr =>
      simp only [hset]
      rw [ih (k + 1) (pre ++ [some (proj pr)]) (by simp [hk])]
      simp

theorem fillArgsWithHintSpec_canon (nv : Nat) (nb : Option Nat) (s : Slots) (p : Nat) (a : Cursor)
    (vars : List Nat) (hV : a.lastVars = List.replicate vars.length none)
    (hR : a.lastRels = List.replicate vars.length none) :
    (canon nv nb s).fillArgsWithHintSpec p a vars = scanCursor s p vars a := by
  unfold fillArgsWithHintSpec scanCursor
  simp only [abs_canon]
  have h1 := specFold (vars.map (fun v => prevRel s v p)) (·.p) 0 [] rfl
  have h2 := specFold (vars.map (fun v => prevRel s v p)) (·.relv) 0 [] rfl
  simp only [List.nil_append, List.length_map, List.map_map] at h1 h2
  simp only [Function.comp_def] at h1 h2
  rw [hV, hR]
  congr 1

/-- **the hint fill on a fresh Varlist cursor is the scan cursor**, whatever hint inside the contract -/
theorem fillArgsWithHint_fresh (nv : Nat) (nb : Option Nat) (s : Slots) (p : Nat) (a : Cursor)
    (vars : List Nat) (hint : List (Option Nat)) (hp : p ≤ s.length) (hlt : ∀ v ∈ vars, v < nv)
    (hok : HintOK s vars hint) (hV : a.lastVars = List.replicate vars.length none)
    (hR : a.lastRels = List.replicate vars.length none) :
    (canon nv nb s).fillArgsWithHint p a vars hint = some (scanCursor s p vars a) := by
  rw [fillArgsWithHint_canon nv nb s p a vars hint hp hlt hok (by simp [hV]) (by simp [hR]),
    hintCursor_fresh s p vars a hV hR]

theorem getEmptyArgsVarlist_tables (c : FastOps) (vars : List Nat) :
    (c.getEmptyArgsVarlist vars).lastVars = List.replicate vars.length none ∧
    (c.getEmptyArgsVarlist vars).lastRels = List.replicate vars.length none := ⟨rfl, rfl⟩

/-- in the vocabulary of the non-hint fill (`SubCur`, QmcProofs/FastOpsSubFill.lean): the hint fill of
`get_empty_args(Varlist(vars))` is a correct Varlist cursor at `p` — WITHOUT the boundary condition
`hdom` the non-hint fill needs (`last_p` comes from an array scan here) -/
theorem fillArgsWithHint_subCur (nv : Nat) (nb : Option Nat) (s : Slots) (p : Nat)
    (vars : List Nat) (hint : List (Option Nat)) (hp : p ≤ s.length) (hn : vars.Nodup)
    (hlt : ∀ v ∈ vars, v < nv) (hok : HintOK s vars hint) :
    ∃ a', (canon nv nb s).fillArgsWithHint p ((canon nv nb s).getEmptyArgsVarlist vars) vars hint = some a' ∧
      SubCur a' vars s p ∧ a'.unfilled = (vars.filter (hasOpsV s)).length := by
  obtain ⟨h0, _, hu0⟩ := emptyArgsVarlist_WGS nv nb vars hn hlt s p
  refine ⟨_, fillArgsWithHint_fresh nv nb s p _ vars hint hp hlt hok rfl rfl, ?_, hu0⟩
  exact ⟨rfl, h0.hm, rfl, rfl⟩

theorem foldl_keeps {α σ : Type} (P : σ → Prop) (f : σ → α → σ) (hf : ∀ c x, P c → P (f c x)) :
    ∀ (l : List α) (c : σ), P c → P (l.foldl f c) := by
  intro l
  induction l with
  | nil => intro c h; exact h
  | cons x t ih => intro c h; exact ih _ (hf c x h)

theorem fillF_subvarMapping (q : Nat) (node : Node) (a : Cursor) :
    (fillF q node a).1.subvarMapping = a.subvarMapping := by
  unfold fillF
  simp only []
  apply foldl_keeps (fun (c : Cursor) => c.subvarMapping = a.subvarMapping)
  · intro c x hc
    cases c.varToSubvar x.1 with
    | none => exact hc
    | some sub =>
      simp only []
      split <;> exact hc
  · split <;> rfl

theorem fillAtP_subvarMapping (node : Node) (a : Cursor) :
    (fillAtP node a).1.subvarMapping = a.subvarMapping := by
  unfold fillAtP
  simp only []
  apply foldl_keeps (fun (c : Cursor) => c.subvarMapping = a.subvarMapping)
  · intro c x hc
    cases x.2 with
    | none => exact hc
    | some prel =>
      simp only []
      cases c.varToSubvar x.1 with
      | none => exact hc
      | some sub =>
        simp only []
        split <;> exact hc
  · rfl

theorem fillWalk_subvarMapping (c : FastOps) :
    ∀ (fuel : Nat) (q : Option Nat) (a : Cursor), (fillWalk c fuel q a).subvarMapping = a.subvarMapping := by
  intro fuel
  induction fuel with
  | zero => intro q a; rfl
  | succ fuel ih =>
    intro q a
    cases q with
    | none => rfl
    | some q =>
      unfold fillWalk
      cases c.getNode q with
      | none => rfl
      | some node =>
        simp only []
        split
        · rw [ih]; exact fillF_subvarMapping q node a
        · exact fillF_subvarMapping q node a

theorem fillArgsAtP_subvarMapping (c : FastOps) (p : Nat) (a : Cursor) :
    (c.fillArgsAtP p a).subvarMapping = a.subvarMapping := by
  unfold fillArgsAtP
  split
  · cases c.getNode p with
    | none => exact fillWalk_subvarMapping c _ _ a
    | some node =>
      simp only []
      split
      · rw [fillWalk_subvarMapping]; exact fillAtP_subvarMapping node a
      · exact fillAtP_subvarMapping node a
  · rfl

/-- where the non-hint fill is specified (`hdom`), both fills build the same cursor up to the walk's
bookkeeping counter `unfilled` -/
theorem fillArgsWithHint_eq_nohint (nv : Nat) (nb : Option Nat) (s : Slots) (p : Nat) (hwf : WF nv nb s)
    (vars : List Nat) (hint : List (Option Nat)) (hp : p ≤ s.length) (hn : vars.Nodup)
    (hlt : ∀ v ∈ vars, v < nv) (hok : HintOK s vars hint)
    (hdom : (∃ v, v ∈ vars ∧ hasOpsV s v = true) ∨ prevOcc (occAt s) p = none) :
    (canon nv nb s).fillArgsWithHint p ((canon nv nb s).getEmptyArgsVarlist vars) vars hint = some
      { (canon nv nb s).fillArgsAtP p ((canon nv nb s).getEmptyArgsVarlist vars) with
        unfilled := ((canon nv nb s).getEmptyArgsVarlist vars).unfilled } := by
  obtain ⟨h0, hlp0, hu0⟩ := emptyArgsVarlist_WGS nv nb vars hn hlt s p
  have hsub : SubCur ((canon nv nb s).fillArgsAtP p ((canon nv nb s).getEmptyArgsVarlist vars)) vars s p := by
    apply fillArgsAtP_sub nv nb vars hn s p hwf _ h0 hlp0
    intro hu
    cases hdom with
    | inr h => exact h
    | inl h =>
      exfalso
      obtain ⟨v, hv, hops⟩ := h
      rw [hu0] at hu
      have : v ∈ vars.filter (hasOpsV s) := by rw [List.mem_filter]; exact ⟨hv, hops⟩
      rw [List.length_eq_zero_iff] at hu
      rw [hu] at this; cases this
  rw [fillArgsWithHint_fresh nv nb s p _ vars hint hp hlt hok rfl rfl]
  have hmap : ((canon nv nb s).fillArgsAtP p ((canon nv nb s).getEmptyArgsVarlist vars)).subvarMapping
      = ((canon nv nb s).getEmptyArgsVarlist vars).subvarMapping := fillArgsAtP_subvarMapping _ _ _
  congr 1
  unfold scanCursor
  rw [← hsub.hP, ← hsub.hv, ← hsub.hr, ← hmap]

end FastOps

/-! ## `get_propagated_substate_with_hint` -/

/-- every stored op records one input and one output bit per variable (`get_inputs()[relv]`,
`get_outputs()[relv]` are indexed by the relative variable) -/
def IOLen (s : Slots) : Prop :=
  ∀ q op, slotAt s q = some op → op.ins.length = op.vars.length ∧ op.outs.length = op.vars.length

/-- the recorded input of the op at `pr.p` on its `pr.relv`-th variable -/
def inAt (s : Slots) (pr : PRel) : Option Bool := (slotAt s pr.p).bind (fun op => op.ins[pr.relv]?)

/-- scan-level description of what the CODE computes for one variable (valid for every worldline,
consistent or not): the input of the op at `p` when that op is the first on the variable; otherwise the
`p = 0` value when no op precedes `p` OR the last op before `p` is the last op of the variable ("Leave as
None if wraps around", test `pcheck < next.p`); otherwise the output of the last op before `p` -/
def subCode (s : Slots) (state : List Bool) (v p : Nat) : Option Bool :=
  if firstOcc (occVAt s v) s.length = some p then inAt s (relAt s v p)
  else match prevOcc (occVAt s v) p with
    | none => state[v]?
    | some q => if (nextOcc (occVAt s v) s.length q).isSome then outAt s (relAt s v q) else state[v]?

/-- what the worldlines must satisfy at `p` for the code's answer to be the propagated state:
(E) an op sitting at `p` that is the first on its variable records the `p = 0` value as input;
(W) an op before `p` that is the last one on its variable hands back the `p = 0` value.
Both follow from `OpContainer::verify(state)` (periodic, consistent worldlines). -/
def SubstateOK (s : Slots) (state : List Bool) (vars : List Nat) (p : Nat) : Prop :=
  ∀ v ∈ vars,
    (firstOcc (occVAt s v) s.length = some p → inAt s (relAt s v p) = state[v]?) ∧
    (∀ q, prevOcc (occVAt s v) p = some q → nextOcc (occVAt s v) s.length q = none →
      outAt s (relAt s v q) = state[v]?)

theorem subCode_eq_subAt (s : Slots) (state : List Bool) (v p : Nat)
    (hE : firstOcc (occVAt s v) s.length = some p → inAt s (relAt s v p) = state[v]?)
    (hW : ∀ q, prevOcc (occVAt s v) p = some q → nextOcc (occVAt s v) s.length q = none →
      outAt s (relAt s v q) = state[v]?) :
    subCode s state v p = subAt s state v p := by
  unfold subCode subAt prevRel
  by_cases hf : firstOcc (occVAt s v) s.length = some p
  · simp only [hf, if_true]
    have hp0 : prevOcc (occVAt s v) p = none := by
      rw [prevOcc_none_iff]
      rw [firstOcc_some_iff] at hf
      exact hf.2.2
    simp only [hp0, Option.map_none]
    exact hE hf
  · simp only [hf, if_false]
    cases hp : prevOcc (occVAt s v) p with
    | none => rfl
    | some q =>
      simp only [Option.map_some]
      cases hn : nextOcc (occVAt s v) s.length q with
      | none => simp only [Option.isSome_none, Bool.false_eq_true, if_false]; exact (hW q hp hn).symm
      | some _ => simp

namespace FastOps

/-- the backward walk of the hint (`while phint >= p`) ends at an op of the variable strictly before
`p`, or gives up (`?`) — in both cases a hint inside the contract again -/
theorem hintBack_canon (nv : Nat) (nb : Option Nat) (s : Slots) (p v : Nat) :
    ∀ (fuel q : Nat), occVAt s v q = true → q < fuel →
      ∃ r, hintBack (canon nv nb s) p fuel q (relAt s v q).relv = some r ∧ HintVarOK s v r ∧
        ∀ q', r = some q' → q' < p := by
  intro fuel
  induction fuel with
  | zero => intro q _ h; omega
  | succ fuel ih =>
    intro q hocc hq
    unfold hintBack
    by_cases hqp : q < p
    · refine ⟨some q, by simp [hqp], ?_, ?_⟩
      · intro q' h; cases h; exact hocc
      · intro q' h; cases h; exact hqp
    · obtain ⟨op, hsp, hmem⟩ := occV_slot hocc
      have hprev : (canonNode s q op).previousForVars[(relAt s v q).relv]? = some (prevRel s v q) := by
        rw [relAt_relv hsp]; exact map_idxOf' op.vars _ v hmem
      simp only [hqp, if_false, nodeExpect_canon, hsp, Option.map_some, hprev]
      cases hpo : prevOcc (occVAt s v) q with
      | none =>
        have : prevRel s v q = none := by simp [prevRel, hpo]
        simp only [this]
        exact ⟨none, rfl, (by intro q' h; cases h), (by intro q' h; cases h)⟩
      | some q' =>
        have hpr : prevRel s v q = some (relAt s v q') := by simp [prevRel, hpo]
        obtain ⟨hq'q, hq'occ⟩ := prevOcc_lt hpo
        obtain ⟨op', hsp', _⟩ := occV_slot hq'occ
        have hq' : (relAt s v q').p = q' := rfl
        simp only [hpr, hq', hsp', Option.map_some]
        exact ih q' hq'occ (by omega)

theorem ins_idx {s : Slots} (hio : IOLen s) {q v : Nat} {op : Op} (hsp : slotAt s q = some op) (hmem : v ∈ op.vars) :
    ∃ b, op.ins[op.vars.idxOf v]? = some b := by
  have hl := List.idxOf_lt_length_of_mem hmem
  have := (hio q op hsp).1
  exact ⟨op.ins[op.vars.idxOf v]'(by omega), List.getElem?_eq_getElem (by omega)⟩

theorem outs_idx {s : Slots} (hio : IOLen s) {q v : Nat} {op : Op} (hsp : slotAt s q = some op) (hmem : v ∈ op.vars) :
    ∃ b, op.outs[op.vars.idxOf v]? = some b := by
  have hl := List.idxOf_lt_length_of_mem hmem
  have := (hio q op hsp).2
  exact ⟨op.outs[op.vars.idxOf v]'(by omega), List.getElem?_eq_getElem (by omega)⟩

/-- one `(subvar, (phint, var))` step of `get_propagated_substate_with_hint`: entry `subvar` becomes
`subCode` — whatever hint inside the contract -/
theorem hintSubVar_canon (nv : Nat) (nb : Option Nat) (s : Slots) (p : Nat) (hio : IOLen s)
    (state sub : List Bool) (i : Nat) (hi : i < sub.length) (ph : Option Nat) (v : Nat) (hv : v < nv)
    (hvs : v < state.length) (hh : HintVarOK s v ph) :
    ∃ b, subCode s state v p = some b ∧
      (canon nv nb s).hintSubVar p state sub i ph v = some (sub.set i b) := by
  have hsv : state[v]? = some state[v] := List.getElem?_eq_getElem hvs
  have hw : ∀ (l : List Bool) (b : Bool), l.length = sub.length → subWrite l i b = some (l.set i b) := by
    intro l b hl; simp [subWrite, hl, hi]
  have hss : ∀ b b', (sub.set i b).set i b' = sub.set i b' := by
    intro b b'; simp
  -- the second debug_assert and the backward walk of the hint
  have hassert : (canon nv nb s).hintHasVar v ph = some () := by
    unfold hintHasVar
    cases ph with
    | none => rfl
    | some q =>
      obtain ⟨op, hsp, hmem⟩ := occV_slot (hh q rfl)
      have hop : (canonNode s q op).op = op := rfl
      simp [nodeExpect_canon, hsp, hop, indexOfVar_mem hmem]
  obtain ⟨r, hr, hrok, hrlt⟩ : ∃ r, (canon nv nb s).hintBackStart p v ph = some r ∧ HintVarOK s v r ∧
      ∀ q', r = some q' → q' < p := by
    unfold hintBackStart
    cases ph with
    | none => exact ⟨none, rfl, (by intro q h; cases h), (by intro q h; cases h)⟩
    | some q =>
      have hocc := hh q rfl
      obtain ⟨op, hsp, hmem⟩ := occV_slot hocc
      have hop : (canonNode s q op).op = op := rfl
      obtain ⟨r, h1, h2, h3⟩ := hintBack_canon nv nb s p v (s.length + 1) q hocc (by have := occV_lt hocc; omega)
      refine ⟨r, ?_, h2, h3⟩
      simp only [nodeExpect_canon, hsp, Option.map_some, Option.bind_some, hop, indexOfVar_mem hmem, length_canon]
      rw [← h1, relAt_relv hsp]
  unfold hintSubVar
  simp only [hintIsOp_canon nv nb s v ph hh, hassert, hsv, hw sub _ rfl, varStartIdx_canon nv nb s v hv, hr,
    hintUseExact_canon nv nb s p v r hrok, Option.bind_some]
  have hrp : r ≠ some p := by
    intro e; have := hrlt p e; omega
  by_cases hf : firstOcc (occVAt s v) s.length = some p
  · -- the op at `p` is the first on the variable: its recorded input
    have hocc : occVAt s v p = true := (firstOcc_mem hf).2
    obtain ⟨op, hsp, hmem⟩ := occV_slot hocc
    obtain ⟨b, hb⟩ := ins_idx hio hsp hmem
    have hop : (canonNode s p op).op = op := rfl
    refine ⟨b, ?_, ?_⟩
    · simp [subCode, hf, inAt, relAt_relv hsp, hsp, hb]
    · simp only [hf, or_true, if_true, relAt_relv hsp, nodeExpect_canon, hsp, Option.map_some,
        Option.bind_some, hop, hb, hw (sub.set i state[v]) b (by simp), hss]
  · have hex : ¬ (r = some p ∨ firstOcc (occVAt s v) s.length = some p) := by
      intro h; cases h with
      | inl h => exact hrp h
      | inr h => exact hf h
    obtain ⟨r', hr', hnone, hsome⟩ := hintIterStart_canon nv nb s p v r hrok hex
    simp only [hex, if_false, hr', Option.bind_some]
    cases r' with
    | none =>
      obtain ⟨hp0, _⟩ := hnone rfl
      exact ⟨state[v], by simp [subCode, hf, hp0, hsv], rfl⟩
    | some st =>
      obtain ⟨hso, hsp', hsr⟩ := hsome st rfl
      obtain ⟨x, op, hx, hprev, hxr, hxs, hxn, hxlt⟩ :=
        hintWalk_canon nv nb s p v hv (p + 1) st.p hso hsp' (by omega)
      rw [← hsr] at hx
      have hmem : v ∈ op.vars := by
        have := (prevOcc_lt hprev).2
        exact mem_of_occV hxs this
      simp only [hx, Option.bind_some]
      by_cases hlt : x.pcheck < x.nextP
      · have hnx := hxlt.mp hlt
        obtain ⟨b, hb⟩ := outs_idx hio hxs hmem
        have hop : (canonNode s x.pcheck op).op = op := rfl
        refine ⟨b, ?_, ?_⟩
        · simp [subCode, hf, hprev, hnx, outAt, relAt_relv hxs, hxs, hb]
        · simp only [hlt, if_true, hxn, hop, hxr, relAt_relv hxs, hb, Option.bind_some,
            hw (sub.set i state[v]) b (by simp), hss]
      · have hnx : (nextOcc (occVAt s v) s.length x.pcheck).isSome = false := by
          cases h : (nextOcc (occVAt s v) s.length x.pcheck).isSome with
          | false => rfl
          | true => exact absurd (hxlt.mpr h) hlt
        refine ⟨state[v], ?_, ?_⟩
        · simp [subCode, hf, hprev, hnx, hsv]
        · simp only [hlt, if_false]

/-- the step function of the loop, as it appears in `propagatedSubstate` -/
def hintSubStep (c : FastOps) (p : Nat) (state : List Bool) (acc : Option (List Bool))
    (x : (Option Nat × Nat) × Nat) : Option (List Bool) :=
  acc.bind fun sub => c.hintSubVar p state sub x.2 x.1.1 x.1.2

theorem hintSub_fold (nv : Nat) (nb : Option Nat) (s : Slots) (p : Nat) (hio : IOLen s) (state : List Bool) :
    ∀ (l : List (Option Nat × Nat)),
      (∀ x ∈ l, x.2 < nv ∧ x.2 < state.length ∧ HintVarOK s x.2 x.1) →
    ∀ (k : Nat) (pre mid post : List Bool), pre.length = k → mid.length = l.length →
      ∃ bs, (l.zipIdx k).foldl (hintSubStep (canon nv nb s) p state) (some (pre ++ (mid ++ post)))
          = some (pre ++ (bs ++ post)) ∧
        bs.map some = l.map (fun x => subCode s state x.2 p) := by
  intro l
  induction l with
  | nil =>
    intro _ k pre mid post _ hm
    have : mid = [] := List.length_eq_zero_iff.mp hm
    subst this
    exact ⟨[], rfl, rfl⟩
  | cons x l ih =>
    intro hl k pre mid post hp hm
    obtain ⟨hxv, hxs, hxh⟩ := hl x List.mem_cons_self
    cases mid with
    | nil => simp at hm
    | cons m mid =>
    have hk : k < (pre ++ (m :: mid ++ post)).length := by simp; omega
    obtain ⟨b, hb, hstep⟩ := hintSubVar_canon nv nb s p hio state (pre ++ (m :: mid ++ post)) k hk x.1 x.2 hxv hxs hxh
    have hset : (pre ++ (m :: mid ++ post)).set k b = (pre ++ [b]) ++ (mid ++ post) := by
      rw [← hp]; simp
    obtain ⟨bs, hbs, hmap⟩ := ih (fun y hy => hl y (List.mem_cons_of_mem _ hy)) (k + 1) (pre ++ [b]) mid post
      (by simp [hp]) (by simpa using hm)
    refine ⟨b :: bs, ?_, by simp [hb, hmap]⟩
    simp only [List.zipIdx_cons, List.foldl_cons]
    have : hintSubStep (canon nv nb s) p state (some (pre ++ (m :: mid ++ post))) (x, k)
        = some ((pre ++ [b]) ++ (mid ++ post)) := by
      simp only [hintSubStep, Option.bind_some, hstep, hset]
    rw [this, hbs]
    simp

/-- `get_propagated_substate_with_hint` on the canonical container: every entry is `subCode`,
whatever hint inside the contract -/
theorem propagatedSubstate_canon (nv : Nat) (nb : Option Nat) (s : Slots) (p : Nat) (hio : IOLen s)
    (sub state : List Bool) (vars : List Nat) (hint : List (Option Nat))
    (hlt : ∀ v ∈ vars, v < nv) (hst : ∀ v ∈ vars, v < state.length) (hok : HintOK s vars hint)
    (hsl : sub.length = vars.length) :
    ∃ bs, (canon nv nb s).propagatedSubstate p sub state vars hint = some bs ∧
      bs.map some = vars.map (fun v => subCode s state v p) := by
  have hzl : (hint.zip vars).length = vars.length := by simp [hok.1]
  obtain ⟨bs, hbs, hmap⟩ := hintSub_fold nv nb s p hio state (hint.zip vars)
    (fun x hx => ⟨hlt _ (mem_zip_hint hok x hx).1, hst _ (mem_zip_hint hok x hx).1, (mem_zip_hint hok x hx).2⟩)
    0 [] sub [] rfl (by rw [hzl, hsl])
  refine ⟨bs, ?_, ?_⟩
  · unfold propagatedSubstate
    have hstep : (fun (acc : Option (List Bool)) (x : (Option Nat × Nat) × Nat) =>
        acc.bind fun sub => (canon nv nb s).hintSubVar p state sub x.2 x.1.1 x.1.2)
        = hintSubStep (canon nv nb s) p state := rfl
    have hz : (hint.zip vars).zipIdx = (hint.zip vars).zipIdx 0 := rfl
    simp only [hstep]
    rw [hz]
    simpa using hbs
  · rw [hmap]
    have : (hint.zip vars).map (fun x => subCode s state x.2 p)
        = ((hint.zip vars).map (·.2)).map (fun v => subCode s state v p) := by
      rw [List.map_map]; rfl
    rw [this, zip_map_snd_of_length hint vars hok.1]

end FastOps
end Qmc
