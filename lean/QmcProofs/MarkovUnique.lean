import QmcProofs.Dist
import Mathlib.Logic.Relation
import Mathlib.Algebra.Order.BigOperators.Group.Finset
import Mathlib.Order.Fin.Basic
import Mathlib.Data.Fintype.Lattice
import Mathlib.Tactic.Ring
import Mathlib.Tactic.Linarith

/-!
# Irreducible finite Markov kernels: positivity and uniqueness of the stationary weight

Everything in `QmcProofs/Dist.lean` (and all stationary-law properties built on it) is about
*invariance* of a target weight `π` under a kernel `K`.  Invariance alone does not say that `π`
is the law the chain samples: a reducible chain has many invariant laws.  This file supplies the
first half of the missing link, for kernels `K : α → α → R` on a `Fintype` with entries in a
linearly ordered field `R` (`ℚ`, `ℝ`):

* `Irreducible K` : every state reaches every state in some number `n ≥ 0` of steps with
  positive probability (`0 < iter K n x y`; `n = 0` serves the pair `x = x`).
  `irreducible_iff_reach` is the equivalent path formulation: the reflexive-transitive closure
  of the one-step relation `0 < K a b` is total.
* `invariant_pos` : an invariant non-negative non-zero weight of an irreducible non-negative
  kernel is strictly positive everywhere.
* `invariant_proportional`, `invariant_unique`, `invariant_unique_prob` : an invariant weight
  `μ` of **any sign** is a multiple of a positive invariant weight `π`; equal total mass gives
  `μ = π`; two invariant probability vectors coincide.  (Perron–Frobenius for the eigenvalue
  `1`, by the maximum-ratio argument; row sums of `K` are never used.)
* helpers to obtain irreducibility of composite kernels: `irreducible_of_dominates`,
  `irreducible_mix_left`, `irreducible_iter_of_loop` (a positive diagonal entry makes every
  `ns`-fold iterate irreducible), `irreducible_iter_of_odd` (symmetric support: odd iterates).
* the converse tools: `not_irreducible_of_conserved` (a non-constant conserved quantity makes
  the kernel reducible) and `invariant_restrict` (then every invariant weight restricted to a
  level set is again invariant, so the invariant law is not unique).

* `exists_other_invariant_prob` : with a non-constant conserved quantity and a positive
  invariant weight there is a second invariant probability vector.
* `Primitive K` (all `m`-step probabilities positive from some `m` on), `primitive_of_loop`,
  `primitive_iter`, `primitive_mix_left`, and the quantitative convergence theorem
  `geometric_convergence`: for a stochastic primitive kernel `‖μ Kᵗ − π‖₁ ≤ ρ^⌊t/N⌋ ‖μ − π‖₁` with
  `ρ < 1` (Doeblin minorisation; `ℓ¹` = 2 × total variation), stated without limits so that it
  holds over any linearly ordered field.

What is **not** here: convergence for irreducible but *periodic* kernels (only Cesàro averages
converge there); see `design_notes/C19.md`.
-/

open Finset

set_option linter.unusedSectionVars false

namespace Qmc.Markov

open Qmc.Dist

/-! ## Semigroup facts about `comp` and `iter` -/

section Algebra

variable {α : Type*} [Fintype α] [DecidableEq α]
variable {R : Type*} [CommSemiring R]

/-- Chapman–Kolmogorov composition is associative. -/
theorem comp_assoc (K L M : α → α → R) : comp (comp K L) M = comp K (comp L M) := by
  funext a d
  simp only [comp, Finset.sum_mul, Finset.mul_sum, mul_assoc]
  exact Finset.sum_comm

theorem comp_idK (K : α → α → R) : comp K idK = K := by
  funext a b
  simp [comp, idK]

theorem idK_comp (K : α → α → R) : comp idK K = K := by
  funext a b
  simp [comp, idK]

theorem iter_one (K : α → α → R) : iter K 1 = K := by
  rw [iter_succ, iter_zero, idK_comp]

/-- `m + n` steps = `m` steps followed by `n` steps. -/
theorem iter_add (K : α → α → R) (m n : ℕ) : iter K (m + n) = comp (iter K m) (iter K n) := by
  induction n with
  | zero => rw [Nat.add_zero, iter_zero, comp_idK]
  | succ n ih => rw [← Nat.add_assoc, iter_succ, ih, comp_assoc, iter_succ]

/-- `b` steps of the `a`-step kernel are `a * b` steps. -/
theorem iter_mul (K : α → α → R) (a b : ℕ) : iter (iter K a) b = iter K (a * b) := by
  induction b with
  | zero => rfl
  | succ b ih => rw [iter_succ, ih, Nat.mul_succ, iter_add]

/-- If every transition of non-zero weight conserves the quantity `p`, so does every iterate
(no sign condition on `K`). -/
theorem conserved_iter {β : Type*} {K : α → α → R} (p : α → β)
    (h : ∀ x y, K x y ≠ 0 → p y = p x) : ∀ m x y, iter K m x y ≠ 0 → p y = p x := by
  intro m
  induction m with
  | zero =>
    intro x y hxy
    by_cases e : x = y
    · rw [e]
    · exact absurd (by simp [idK, e]) hxy
  | succ m ih =>
    intro x y hxy
    rw [iter_succ] at hxy
    obtain ⟨b, _, hb⟩ := Finset.exists_ne_zero_of_sum_ne_zero hxy
    have h1 : iter K m x b ≠ 0 := left_ne_zero_of_mul hb
    have h2 : K b y ≠ 0 := right_ne_zero_of_mul hb
    rw [h b y h2, ih x b h1]

/-- A conserved quantity of two kernels is conserved by their composition. -/
theorem conserved_comp {β : Type*} {K L : α → α → R} (p : α → β)
    (hK : ∀ x y, K x y ≠ 0 → p y = p x) (hL : ∀ x y, L x y ≠ 0 → p y = p x) :
    ∀ x y, comp K L x y ≠ 0 → p y = p x := by
  intro x y hxy
  obtain ⟨b, _, hb⟩ := Finset.exists_ne_zero_of_sum_ne_zero hxy
  rw [hL b y (right_ne_zero_of_mul hb), hK x b (left_ne_zero_of_mul hb)]

/-- If every transition of non-zero weight *toggles* the Boolean quantity `p`, two steps
conserve it. -/
theorem toggled_iter_two {K : α → α → R} (p : α → Bool)
    (h : ∀ x y, K x y ≠ 0 → p y = !p x) : ∀ x y, iter K 2 x y ≠ 0 → p y = p x := by
  intro x y hxy
  rw [iter_succ, iter_one] at hxy
  obtain ⟨b, _, hb⟩ := Finset.exists_ne_zero_of_sum_ne_zero hxy
  rw [h b y (right_ne_zero_of_mul hb), h x b (left_ne_zero_of_mul hb), Bool.not_not]

/-- … hence every even number of steps conserves it. -/
theorem toggled_iter_even {K : α → α → R} (p : α → Bool)
    (h : ∀ x y, K x y ≠ 0 → p y = !p x) (k : ℕ) :
    ∀ x y, iter K (2 * k) x y ≠ 0 → p y = p x := by
  rw [← iter_mul]
  exact conserved_iter p (toggled_iter_two p h) k

/-- … and every odd number of steps toggles it (period 2). -/
theorem toggled_iter_odd {K : α → α → R} (p : α → Bool)
    (h : ∀ x y, K x y ≠ 0 → p y = !p x) (k : ℕ) :
    ∀ x y, iter K (2 * k + 1) x y ≠ 0 → p y = !p x := by
  intro x y hxy
  rw [iter_succ] at hxy
  obtain ⟨b, _, hb⟩ := Finset.exists_ne_zero_of_sum_ne_zero hxy
  rw [h b y (right_ne_zero_of_mul hb), toggled_iter_even p h k x b (left_ne_zero_of_mul hb)]

/-- **Restriction to a level set.**  If `K` conserves `p` then an invariant weight cut down to
one level set `{p = c}` is again invariant: with a non-constant conserved quantity the invariant
weight is not unique. -/
theorem invariant_restrict {β : Type*} [DecidableEq β] {K : α → α → R} {π : α → R} (p : α → β)
    (h : ∀ x y, K x y ≠ 0 → p y = p x) (hπ : Invariant π K) (c : β) :
    Invariant (fun x => if p x = c then π x else 0) K := by
  intro b
  show ∑ a, (if p a = c then π a else 0) * K a b = if p b = c then π b else 0
  by_cases hb : p b = c
  · rw [if_pos hb, ← hπ b]
    refine Finset.sum_congr rfl (fun a _ => ?_)
    by_cases ha : p a = c
    · rw [if_pos ha]
    · rw [if_neg ha, zero_mul]
      have : K a b = 0 := by
        by_contra hk
        exact ha ((h a b hk).symm.trans hb)
      rw [this, mul_zero]
  · rw [if_neg hb]
    refine Finset.sum_eq_zero (fun a _ => ?_)
    by_cases ha : p a = c
    · have : K a b = 0 := by
        by_contra hk
        exact hb ((h a b hk).trans ha)
      rw [this, mul_zero]
    · rw [if_neg ha, zero_mul]

end Algebra

/-! ## Positivity, reachability, irreducibility -/

section Order

variable {α : Type*} [Fintype α] [DecidableEq α]
variable {R : Type*} [Field R] [LinearOrder R] [IsStrictOrderedRing R]
variable {K L : α → α → R}

/-- entrywise non-negative kernel (no condition on the row sums) -/
def Nonneg (K : α → α → R) : Prop := ∀ a b, 0 ≤ K a b

/-- one-step relation of the chain: `b` is reached from `a` with positive probability -/
def Step (K : α → α → R) : α → α → Prop := fun a b => 0 < K a b

/-- **Irreducibility**: every state reaches every state in some number `n ≥ 0` of steps with
positive probability. -/
def Irreducible (K : α → α → R) : Prop := ∀ x y, ∃ n, 0 < iter K n x y

theorem Nonneg.of_stochastic (h : Stochastic K) : Nonneg K := h.1

theorem nonneg_idK : Nonneg (idK : α → α → R) := (stochastic_idK (R := R)).1

theorem nonneg_comp (hK : Nonneg K) (hL : Nonneg L) : Nonneg (comp K L) :=
  fun a c => Finset.sum_nonneg (fun b _ => mul_nonneg (hK a b) (hL b c))

theorem nonneg_iter (hK : Nonneg K) : ∀ m, Nonneg (iter K m)
  | 0 => nonneg_idK
  | m + 1 => nonneg_comp (nonneg_iter hK m) hK

theorem nonneg_mix {p : R} (hK : Nonneg K) (hL : Nonneg L) (hp0 : 0 ≤ p) (hp1 : p ≤ 1) :
    Nonneg (mix p K L) :=
  fun a b => add_nonneg (mul_nonneg hp0 (hK a b)) (mul_nonneg (sub_nonneg.mpr hp1) (hL a b))

/-- a positive two-leg route gives a positive entry of the composition -/
theorem comp_pos (hK : Nonneg K) (hL : Nonneg L) {x y z : α} (h1 : 0 < K x y) (h2 : 0 < L y z) :
    0 < comp K L x z :=
  lt_of_lt_of_le (mul_pos h1 h2)
    (Finset.single_le_sum (f := fun b => K x b * L b z)
      (fun b _ => mul_nonneg (hK x b) (hL b z)) (Finset.mem_univ y))

/-- a positive entry of a composition goes through some intermediate state -/
theorem exists_of_comp_pos (hK : Nonneg K) (hL : Nonneg L) {x z : α} (h : 0 < comp K L x z) :
    ∃ y, 0 < K x y ∧ 0 < L y z := by
  by_contra hne
  push Not at hne
  have hle : comp K L x z ≤ 0 := by
    refine Finset.sum_nonpos (fun b _ => ?_)
    by_cases hb : 0 < K x b
    · have : L b z = 0 := le_antisymm (hne b hb) (hL b z)
      rw [this, mul_zero]
    · have : K x b = 0 := le_antisymm (not_lt.mp hb) (hK x b)
      rw [this, zero_mul]
  exact absurd h (not_lt.mpr hle)

theorem iter_pos_trans (hK : Nonneg K) {m n : ℕ} {x y z : α} (h1 : 0 < iter K m x y)
    (h2 : 0 < iter K n y z) : 0 < iter K (m + n) x z := by
  rw [iter_add]
  exact comp_pos (nonneg_iter hK m) (nonneg_iter hK n) h1 h2

theorem iter_zero_self_pos (K : α → α → R) (x : α) : 0 < iter K 0 x x := by
  simp [idK]

/-- a positive diagonal entry can be repeated any number of times -/
theorem iter_loop_pos (hK : Nonneg K) {s : α} (hs : 0 < K s s) : ∀ l, 0 < iter K l s s
  | 0 => iter_zero_self_pos K s
  | l + 1 => by
    rw [iter_succ]
    exact comp_pos (nonneg_iter hK l) hK (iter_loop_pos hK hs l) hs

/-- **Paths and iterates.**  For a non-negative kernel, `y` is reachable from `x` along a path
of positive one-step probabilities iff some `n`-step probability is positive. -/
theorem reach_iff (hK : Nonneg K) (x y : α) :
    Relation.ReflTransGen (Step K) x y ↔ ∃ n, 0 < iter K n x y := by
  constructor
  · intro h
    induction h with
    | refl => exact ⟨0, iter_zero_self_pos K x⟩
    | tail _ hbc ih =>
      obtain ⟨n, hn⟩ := ih
      exact ⟨n + 1, comp_pos (nonneg_iter hK n) hK hn hbc⟩
  · rintro ⟨n, hn⟩
    induction n generalizing y with
    | zero =>
      by_cases e : x = y
      · rw [e]
      · simp [idK, e] at hn
    | succ n ih =>
      obtain ⟨b, h1, h2⟩ := exists_of_comp_pos (nonneg_iter hK n) hK hn
      exact (ih b h1).tail h2

/-- irreducibility = the path relation is total -/
theorem irreducible_iff_reach (hK : Nonneg K) :
    Irreducible K ↔ ∀ x y, Relation.ReflTransGen (Step K) x y :=
  ⟨fun h x y => (reach_iff hK x y).mpr (h x y), fun h x y => (reach_iff hK x y).mp (h x y)⟩

/-! ## Positivity and uniqueness of the invariant weight -/

/-- **(a) Positivity.**  A non-negative, non-zero invariant weight of an irreducible
non-negative kernel charges every state.  (Row sums of `K` are not needed.) -/
theorem invariant_pos (hK : Nonneg K) (hirr : Irreducible K) {π : α → R} (hπ : Invariant π K)
    (h0 : ∀ x, 0 ≤ π x) (hne : π ≠ 0) : ∀ x, 0 < π x := by
  obtain ⟨x0, hx0⟩ := Function.ne_iff.mp hne
  have hx0' : 0 < π x0 := lt_of_le_of_ne (h0 x0) (Ne.symm hx0)
  intro x
  obtain ⟨n, hn⟩ := hirr x0 x
  rw [← invariant_iter hπ n x]
  exact lt_of_lt_of_le (mul_pos hx0' hn)
    (Finset.single_le_sum (f := fun a => π a * iter K n a x)
      (fun a _ => mul_nonneg (h0 a) (nonneg_iter hK n a x)) (Finset.mem_univ x0))

/-- A non-negative invariant weight of an irreducible kernel that vanishes somewhere vanishes
everywhere. -/
theorem invariant_eq_zero_of_zero (hK : Nonneg K) (hirr : Irreducible K) {ν : α → R}
    (hν : Invariant ν K) (h0 : ∀ x, 0 ≤ ν x) {x0 : α} (hx0 : ν x0 = 0) : ν = 0 := by
  by_contra hne
  exact absurd hx0 (invariant_pos hK hirr hν h0 hne x0).ne'

/-- invariant weights form a linear space: `r • π − μ` -/
theorem invariant_smul_sub {π μ : α → R} (hπ : Invariant π K) (hμ : Invariant μ K) (r : R) :
    Invariant (fun x => r * π x - μ x) K := by
  intro b
  calc ∑ a, (r * π a - μ a) * K a b = r * ∑ a, π a * K a b - ∑ a, μ a * K a b := by
        rw [Finset.mul_sum, ← Finset.sum_sub_distrib]
        exact Finset.sum_congr rfl (fun a _ => by ring)
    _ = r * π b - μ b := by rw [hπ b, hμ b]

/-- rescaling an invariant weight keeps it invariant -/
theorem invariant_div_const {π : α → R} (hπ : Invariant π K) (c : R) :
    Invariant (fun x => π x / c) K := by
  intro b
  show ∑ a, π a / c * K a b = π b / c
  rw [← hπ b, Finset.sum_div]
  exact Finset.sum_congr rfl (fun a _ => by ring)

/-- **(b) Uniqueness up to scale**, without any sign condition on `μ`: every invariant weight
of an irreducible non-negative kernel is a multiple of a positive invariant weight
(maximum-ratio argument: with `r = max μ/π`, `r π − μ` is a non-negative invariant weight that
vanishes at the maximiser, hence everywhere). -/
theorem invariant_proportional (hK : Nonneg K) (hirr : Irreducible K) {π μ : α → R}
    (hπ : Invariant π K) (hμ : Invariant μ K) (hpos : ∀ x, 0 < π x) :
    ∃ r : R, ∀ x, μ x = r * π x := by
  rcases isEmpty_or_nonempty α with he | hne
  · exact ⟨0, fun x => (he.false x).elim⟩
  · obtain ⟨x0, _, hmax⟩ := Finset.exists_max_image (Finset.univ : Finset α)
      (fun x => μ x / π x) Finset.univ_nonempty
    refine ⟨μ x0 / π x0, fun x => ?_⟩
    have hν : Invariant (fun x => μ x0 / π x0 * π x - μ x) K := invariant_smul_sub hπ hμ _
    have hν0 : ∀ x, 0 ≤ μ x0 / π x0 * π x - μ x := by
      intro x
      have := hmax x (Finset.mem_univ x)
      rw [div_le_iff₀ (hpos x)] at this
      linarith
    have hz : (fun x => μ x0 / π x0 * π x - μ x) x0 = 0 := by
      simp only
      rw [div_mul_cancel₀ _ (hpos x0).ne', sub_self]
    have := congrFun (invariant_eq_zero_of_zero hK hirr hν hν0 hz) x
    simp only [Pi.zero_apply] at this
    linarith

/-- **(b) Uniqueness.**  `K ≥ 0` irreducible, `π > 0` invariant, `μ` invariant (any sign) with
the same total mass: `μ = π`. -/
theorem invariant_unique (hK : Nonneg K) (hirr : Irreducible K) {π μ : α → R}
    (hπ : Invariant π K) (hμ : Invariant μ K) (hpos : ∀ x, 0 < π x)
    (hsum : ∑ x, μ x = ∑ x, π x) : μ = π := by
  obtain ⟨r, hr⟩ := invariant_proportional hK hirr hπ hμ hpos
  rcases isEmpty_or_nonempty α with he | hne
  · funext x; exact (he.false x).elim
  · have hZ : 0 < ∑ x, π x :=
      Finset.sum_pos (fun x _ => hpos x) Finset.univ_nonempty
    have h1 : r * ∑ x, π x = ∑ x, π x := by
      rw [Finset.mul_sum, ← hsum]
      exact Finset.sum_congr rfl (fun x _ => (hr x).symm)
    have hr1 : r = 1 := by
      have : (r - 1) * ∑ x, π x = 0 := by rw [sub_mul, h1, one_mul, sub_self]
      rcases mul_eq_zero.mp this with h | h
      · linarith
      · exact absurd h hZ.ne'
    funext x
    rw [hr x, hr1, one_mul]

/-- Two invariant probability vectors of an irreducible non-negative kernel coincide (the second
one need not be assumed non-negative). -/
theorem invariant_unique_prob (hK : Nonneg K) (hirr : Irreducible K) {π μ : α → R}
    (hπ : Invariant π K) (hμ : Invariant μ K) (hπ0 : ∀ x, 0 ≤ π x) (hπ1 : ∑ x, π x = 1)
    (hμ1 : ∑ x, μ x = 1) : μ = π := by
  have hne : π ≠ 0 := by
    intro h
    rw [h] at hπ1
    simp at hπ1
  exact invariant_unique hK hirr hπ hμ (invariant_pos hK hirr hπ hπ0 hne) (hμ1.trans hπ1.symm)

/-- The normalised form: every invariant probability vector equals `π / Σπ`. -/
theorem invariant_unique_normalised (hK : Nonneg K) (hirr : Irreducible K) {π μ : α → R}
    (hπ : Invariant π K) (hμ : Invariant μ K) (hpos : ∀ x, 0 < π x) (hμ1 : ∑ x, μ x = 1) :
    ∀ x, μ x = π x / ∑ y, π y := by
  obtain ⟨r, hr⟩ := invariant_proportional hK hirr hπ hμ hpos
  have h1 : r * ∑ x, π x = 1 := by
    rw [← hμ1, Finset.mul_sum]
    exact Finset.sum_congr rfl (fun x _ => (hr x).symm)
  have hZ : ∑ x, π x ≠ 0 := by
    intro h
    rw [h, mul_zero] at h1
    exact zero_ne_one h1
  intro x
  rw [hr x, eq_div_iff hZ, mul_right_comm, h1, one_mul]

/-! ## Irreducibility of composite kernels -/

/-- a kernel that dominates a positive multiple of an irreducible non-negative kernel is
irreducible -/
theorem irreducible_of_dominates (hL : Nonneg L) (hirr : Irreducible L) {c : R} (hc : 0 < c)
    (hdom : ∀ x y, c * L x y ≤ K x y) : Irreducible K := by
  have hK : Nonneg K := fun x y => le_trans (mul_nonneg hc.le (hL x y)) (hdom x y)
  rw [irreducible_iff_reach hK]
  intro x y
  refine Relation.ReflTransGen.mono (fun a b hab => ?_) x y ((irreducible_iff_reach hL).mp hirr x y)
  exact lt_of_lt_of_le (mul_pos hc hab) (hdom a b)

/-- "with probability `p > 0` do `K`": irreducible as soon as `K` is -/
theorem irreducible_mix_left {p : R} (hK : Nonneg K) (hL : Nonneg L) (hirr : Irreducible K)
    (hp0 : 0 < p) (hp1 : p ≤ 1) : Irreducible (mix p K L) :=
  irreducible_of_dominates hK hirr hp0 (fun x y => by
    have := mul_nonneg (sub_nonneg.mpr hp1) (hL x y)
    simp only [mix]
    linarith)

/-- **Lazy state ⇒ all iterates irreducible.**  If `K ≥ 0` is irreducible and some state has a
positive holding probability, the `ns`-fold iterate is irreducible for every `ns ≥ 1`
(go `x → s`, wait at `s` until the length is a multiple of `ns`, go `s → y`). -/
theorem irreducible_iter_of_loop (hK : Nonneg K) (hirr : Irreducible K) {s : α}
    (hs : 0 < K s s) {ns : ℕ} (hns : 1 ≤ ns) : Irreducible (iter K ns) := by
  intro x y
  obtain ⟨a, ha⟩ := hirr x s
  obtain ⟨b, hb⟩ := hirr s y
  refine ⟨a + b, ?_⟩
  rw [iter_mul]
  have hlen : ns * (a + b) = a + (ns - 1) * (a + b) + b := by
    obtain ⟨k, rfl⟩ : ∃ k, ns = k + 1 := ⟨ns - 1, by omega⟩
    simp only [Nat.add_sub_cancel]
    ring
  rw [hlen]
  exact iter_pos_trans hK (iter_pos_trans hK ha (iter_loop_pos hK hs _)) hb

/-- with symmetric support a positive step can be walked back and forth: every odd iterate
contains the one-step relation -/
theorem iter_odd_pos_of_step (hK : Nonneg K) (hsym : ∀ x y, 0 < K x y → 0 < K y x) {x y : α}
    (h : 0 < K x y) : ∀ k, 0 < iter K (2 * k + 1) x y
  | 0 => by rw [iter_one]; exact h
  | k + 1 => by
    have h2 : 0 < iter K 2 y y := by
      rw [iter_succ, iter_one]
      exact comp_pos hK hK (hsym x y h) h
    have := iter_pos_trans hK (iter_odd_pos_of_step hK hsym h k) h2
    rwa [show 2 * k + 1 + 2 = 2 * (k + 1) + 1 by ring] at this

/-- **Symmetric support ⇒ odd iterates irreducible.** -/
theorem irreducible_iter_of_odd (hK : Nonneg K) (hirr : Irreducible K)
    (hsym : ∀ x y, 0 < K x y → 0 < K y x) (k : ℕ) : Irreducible (iter K (2 * k + 1)) := by
  rw [irreducible_iff_reach (nonneg_iter hK _)]
  intro x y
  exact Relation.ReflTransGen.mono (fun a b hab => iter_odd_pos_of_step hK hsym hab k) x y
    ((irreducible_iff_reach hK).mp hirr x y)

/-- **A non-constant conserved quantity makes the kernel reducible.** -/
theorem not_irreducible_of_conserved {β : Type*} (p : α → β)
    (h : ∀ x y, K x y ≠ 0 → p y = p x) {x y : α} (hxy : p y ≠ p x) : ¬ Irreducible K := by
  intro hirr
  obtain ⟨n, hn⟩ := hirr x y
  exact hxy (conserved_iter p h n x y hn.ne')

/-- **Conserved quantity ⇒ the invariant law is not unique.**  If `K` conserves a quantity `p`
taking two different values and `π > 0` is invariant, then `π` restricted to one level set and
normalised is an invariant probability vector different from `π / Σπ`. -/
theorem exists_other_invariant_prob {β : Type*} [DecidableEq β] (p : α → β)
    (h : ∀ x y, K x y ≠ 0 → p y = p x) {π : α → R} (hπ : Invariant π K) (hpos : ∀ x, 0 < π x)
    {x0 x1 : α} (hne : p x1 ≠ p x0) :
    ∃ μ : α → R, (∀ x, 0 ≤ μ x) ∧ ∑ x, μ x = 1 ∧ Invariant μ K ∧
      μ ≠ fun x => π x / ∑ y, π y := by
  have hμ0 : ∀ x, 0 ≤ (if p x = p x0 then π x else 0) := fun x => by
    split_ifs
    · exact (hpos x).le
    · exact le_rfl
  have hZ : 0 < ∑ x, (if p x = p x0 then π x else 0) :=
    lt_of_lt_of_le (by rw [if_pos rfl]; exact hpos x0)
      (Finset.single_le_sum (f := fun x => if p x = p x0 then π x else 0)
        (fun x _ => hμ0 x) (Finset.mem_univ x0))
  have hinv := invariant_restrict p h hπ (p x0)
  refine ⟨fun x => (if p x = p x0 then π x else 0) / ∑ y, (if p y = p x0 then π y else 0),
    fun x => div_nonneg (hμ0 x) hZ.le, ?_, ?_, ?_⟩
  · rw [← Finset.sum_div, div_self hZ.ne']
  · intro b
    have := hinv b
    simp only at this ⊢
    rw [← this, Finset.sum_div]
    exact Finset.sum_congr rfl (fun a _ => by ring)
  · intro heq
    have h1 := congrFun heq x1
    simp only [if_neg hne, zero_div] at h1
    have hS : 0 < ∑ y, π y :=
      lt_of_lt_of_le (hpos x0)
        (Finset.single_le_sum (f := π) (fun x _ => (hpos x).le) (Finset.mem_univ x0))
    exact absurd h1.symm (div_pos (hpos x1) hS).ne'

end Order

/-! ## Primitive kernels and geometric convergence in `ℓ¹` (= 2 × total variation) -/

section Converge

variable {α : Type*} [Fintype α] [DecidableEq α]
variable {R : Type*} [Field R] [LinearOrder R] [IsStrictOrderedRing R]
variable {K L : α → α → R}

/-- **Primitivity** (irreducible + aperiodic): from some length on, all `m`-step transition
probabilities are positive. -/
def Primitive (K : α → α → R) : Prop := ∃ N, ∀ m, N ≤ m → ∀ x y, 0 < iter K m x y

theorem Primitive.irreducible (h : Primitive K) : Irreducible K := by
  obtain ⟨N, hN⟩ := h
  exact fun x y => ⟨N, hN N le_rfl x y⟩

/-- an irreducible non-negative kernel with one positive holding probability is primitive -/
theorem primitive_of_loop (hK : Nonneg K) (hirr : Irreducible K) {s : α} (hs : 0 < K s s) :
    Primitive K := by
  choose a ha using fun x => hirr x s
  choose b hb using fun y => hirr s y
  refine ⟨Finset.univ.sup a + Finset.univ.sup b, fun m hm x y => ?_⟩
  have h1 : a x ≤ Finset.univ.sup a := Finset.le_sup (f := a) (Finset.mem_univ x)
  have h2 : b y ≤ Finset.univ.sup b := Finset.le_sup (f := b) (Finset.mem_univ y)
  have hlen : m = a x + (m - a x - b y) + b y := by omega
  rw [hlen]
  exact iter_pos_trans hK (iter_pos_trans hK (ha x) (iter_loop_pos hK hs _)) (hb y)

/-- iterates of a primitive kernel are primitive -/
theorem primitive_iter (h : Primitive K) {ns : ℕ} (hns : 1 ≤ ns) : Primitive (iter K ns) := by
  obtain ⟨N, hN⟩ := h
  refine ⟨N, fun m hm x y => ?_⟩
  rw [iter_mul]
  exact hN _ (le_trans hm (Nat.le_mul_of_pos_left m hns)) x y

/-- entrywise domination passes to the iterates -/
theorem iter_dominates (hL : Nonneg L) {c : R} (hc : 0 ≤ c) (hdom : ∀ x y, c * L x y ≤ K x y) :
    ∀ m x y, c ^ m * iter L m x y ≤ iter K m x y := by
  have hK : Nonneg K := fun x y => le_trans (mul_nonneg hc (hL x y)) (hdom x y)
  intro m
  induction m with
  | zero => intro x y; simp
  | succ m ih =>
    intro x y
    simp only [iter_succ, comp]
    rw [Finset.mul_sum]
    refine Finset.sum_le_sum (fun b _ => ?_)
    calc c ^ (m + 1) * (iter L m x b * L b y) = (c ^ m * iter L m x b) * (c * L b y) := by ring
      _ ≤ iter K m x b * K b y :=
        mul_le_mul (ih x b) (hdom b y) (mul_nonneg hc (hL b y)) (nonneg_iter hK m x b)

/-- a kernel dominating a positive multiple of a primitive non-negative kernel is primitive -/
theorem primitive_of_dominates (hL : Nonneg L) (h : Primitive L) {c : R} (hc : 0 < c)
    (hdom : ∀ x y, c * L x y ≤ K x y) : Primitive K := by
  obtain ⟨N, hN⟩ := h
  refine ⟨N, fun m hm x y => ?_⟩
  exact lt_of_lt_of_le (mul_pos (pow_pos hc m) (hN m hm x y)) (iter_dominates hL hc.le hdom m x y)

theorem primitive_mix_left {p : R} (hK : Nonneg K) (hL : Nonneg L) (h : Primitive K)
    (hp0 : 0 < p) (hp1 : p ≤ 1) : Primitive (mix p K L) :=
  primitive_of_dominates hK h hp0 (fun x y => by
    have := mul_nonneg (sub_nonneg.mpr hp1) (hL x y)
    simp only [mix]
    linarith)

/-- the law after one step: `(ν K)(y) = Σ_x ν x · K x y` (for signed `ν` as well) -/
def push (ν : α → R) (K : α → α → R) : α → R := fun y => ∑ x, ν x * K x y

/-- `ℓ¹` norm; for the difference of two probability vectors it is twice their total-variation
distance -/
def l1 (ν : α → R) : R := ∑ x, |ν x|

theorem invariant_iff_push {π : α → R} : Invariant π K ↔ push π K = π :=
  ⟨fun h => funext h, fun h b => congrFun h b⟩

theorem push_comp (ν : α → R) (K L : α → α → R) : push (push ν K) L = push ν (comp K L) := by
  funext z
  simp only [push, comp, Finset.sum_mul, Finset.mul_sum, mul_assoc]
  exact Finset.sum_comm

theorem push_iter_add (ν : α → R) (K : α → α → R) (a b : ℕ) :
    push ν (iter K (a + b)) = push (push ν (iter K a)) (iter K b) := by
  rw [iter_add, push_comp]

theorem push_sub (μ π : α → R) (K : α → α → R) :
    push (fun x => μ x - π x) K = fun y => push μ K y - push π K y := by
  funext y
  simp only [push, sub_mul, Finset.sum_sub_distrib]

/-- a probability-conserving kernel conserves the total mass -/
theorem sum_push (hK : RowSum K) (ν : α → R) : ∑ y, push ν K y = ∑ x, ν x := by
  unfold push
  rw [Finset.sum_comm]
  exact Finset.sum_congr rfl (fun x _ => by rw [← Finset.mul_sum, hK x, mul_one])

/-- `ℓ¹` bound for a non-negative matrix with constant row sums `c` -/
theorem l1_push_le_rowsum {M : α → α → R} (hM : ∀ x y, 0 ≤ M x y) {c : R}
    (hc : ∀ x, ∑ y, M x y = c) (ν : α → R) : l1 (push ν M) ≤ c * l1 ν := by
  unfold l1 push
  calc ∑ y, |∑ x, ν x * M x y| ≤ ∑ y, ∑ x, |ν x| * M x y :=
        Finset.sum_le_sum (fun y _ => (Finset.abs_sum_le_sum_abs _ _).trans
          (le_of_eq (Finset.sum_congr rfl (fun x _ => by rw [abs_mul, abs_of_nonneg (hM x y)]))))
    _ = ∑ x, ∑ y, |ν x| * M x y := Finset.sum_comm
    _ = ∑ x, |ν x| * c := Finset.sum_congr rfl (fun x _ => by rw [← Finset.mul_sum, hc x])
    _ = c * ∑ x, |ν x| := by rw [← Finset.sum_mul, mul_comm]

/-- a stochastic kernel never increases the `ℓ¹` distance -/
theorem l1_push_le (hK : Stochastic K) (ν : α → R) : l1 (push ν K) ≤ l1 ν := by
  have := l1_push_le_rowsum hK.1 hK.2 ν
  rwa [one_mul] at this

/-- **Doeblin contraction.**  If all entries of the stochastic kernel `P` are `≥ ε`, a signed
weight of total mass zero shrinks by the factor `1 − |α|·ε` in `ℓ¹`. -/
theorem l1_push_le_of_minor {P : α → α → R} (hP : Stochastic P) {ε : R}
    (hε : ∀ x y, ε ≤ P x y) (ν : α → R) (h0 : ∑ x, ν x = 0) :
    l1 (push ν P) ≤ (1 - (Fintype.card α : R) * ε) * l1 ν := by
  have hpush : push ν P = push ν (fun x y => P x y - ε) := by
    funext y
    simp only [push, mul_sub, Finset.sum_sub_distrib]
    rw [← Finset.sum_mul, h0, zero_mul, sub_zero]
  rw [hpush]
  refine l1_push_le_rowsum (fun x y => sub_nonneg.mpr (hε x y)) (fun x => ?_) ν
  rw [Finset.sum_sub_distrib, hP.2 x, Finset.sum_const, Finset.card_univ, nsmul_eq_mul]

/-- the contraction factor is a number in `[0, 1]` -/
theorem minor_factor_nonneg {P : α → α → R} (hP : Stochastic P) {ε : R}
    (hε : ∀ x y, ε ≤ P x y) : 0 ≤ 1 - (Fintype.card α : R) * ε := by
  rcases isEmpty_or_nonempty α with he | ⟨⟨x⟩⟩
  · simp [Fintype.card_eq_zero]
  · have : ∑ _y : α, ε ≤ ∑ y, P x y := Finset.sum_le_sum (fun y _ => hε x y)
    rw [hP.2 x, Finset.sum_const, Finset.card_univ, nsmul_eq_mul] at this
    linarith

/-- `m` blocks of `N` steps contract a mass-zero weight by `(1 − |α| ε)^m`. -/
theorem l1_push_iter_block (hK : Stochastic K) {N : ℕ} {ε : R}
    (hε : ∀ x y, ε ≤ iter K N x y) (ν : α → R) (h0 : ∑ x, ν x = 0) :
    ∀ m, l1 (push ν (iter K (N * m))) ≤ (1 - (Fintype.card α : R) * ε) ^ m * l1 ν := by
  have hP := stochastic_iter hK N
  have hρ := minor_factor_nonneg hP hε
  intro m
  induction m with
  | zero =>
    have : push ν (iter K (N * 0)) = ν := by
      funext y
      simp [push, idK]
    rw [this, pow_zero, one_mul]
  | succ m ih =>
    rw [Nat.mul_succ, push_iter_add]
    have hmass : ∑ x, push ν (iter K (N * m)) x = 0 := by
      rw [sum_push (rowSum_iter hK.2 _), h0]
    calc l1 (push (push ν (iter K (N * m))) (iter K N))
        ≤ (1 - (Fintype.card α : R) * ε) * l1 (push ν (iter K (N * m))) :=
          l1_push_le_of_minor hP hε _ hmass
      _ ≤ (1 - (Fintype.card α : R) * ε) * ((1 - (Fintype.card α : R) * ε) ^ m * l1 ν) :=
          mul_le_mul_of_nonneg_left ih hρ
      _ = (1 - (Fintype.card α : R) * ε) ^ (m + 1) * l1 ν := by ring

/-- … and the remaining `t mod N` steps do not increase the distance. -/
theorem l1_push_iter_le (hK : Stochastic K) {N : ℕ} {ε : R}
    (hε : ∀ x y, ε ≤ iter K N x y) (ν : α → R) (h0 : ∑ x, ν x = 0) (t : ℕ) :
    l1 (push ν (iter K t)) ≤ (1 - (Fintype.card α : R) * ε) ^ (t / N) * l1 ν := by
  have ht : t = N * (t / N) + t % N := (Nat.div_add_mod t N).symm
  conv_lhs => rw [ht, push_iter_add]
  exact le_trans (l1_push_le (stochastic_iter hK _) _) (l1_push_iter_block hK hε ν h0 _)

/-- **Geometric convergence to the invariant law.**  `K` stochastic and primitive, `π`
invariant: there are a block length `N ≥ 1` and a rate `ρ ∈ [0, 1)` such that for **every**
start vector `μ` with the mass of `π` (any sign) and every number `t` of steps
`‖μ Kᵗ − π‖₁ ≤ ρ^⌊t/N⌋ ‖μ − π‖₁`. -/
theorem geometric_convergence (hK : Stochastic K) (hprim : Primitive K) {π : α → R}
    (hπ : Invariant π K) :
    ∃ N : ℕ, 1 ≤ N ∧ ∃ ρ : R, 0 ≤ ρ ∧ ρ < 1 ∧ ∀ μ : α → R, ∑ x, μ x = ∑ x, π x → ∀ t,
      l1 (fun y => push μ (iter K t) y - π y) ≤ ρ ^ (t / N) * l1 (fun y => μ y - π y) := by
  rcases isEmpty_or_nonempty α with he | hne
  · exact ⟨1, le_rfl, 0, le_rfl, zero_lt_one, fun μ _ t => by simp [l1]⟩
  · obtain ⟨N0, hN0⟩ := hprim
    have hpos : ∀ x y, 0 < iter K (max N0 1) x y := hN0 _ (le_max_left _ _)
    obtain ⟨p0, _, hmin⟩ := Finset.exists_min_image (Finset.univ : Finset (α × α))
      (fun p => iter K (max N0 1) p.1 p.2) Finset.univ_nonempty
    have hε : ∀ x y, iter K (max N0 1) p0.1 p0.2 ≤ iter K (max N0 1) x y :=
      fun x y => hmin (x, y) (Finset.mem_univ _)
    have hε0 : 0 < iter K (max N0 1) p0.1 p0.2 := hpos _ _
    have hcard : (0 : R) < (Fintype.card α : R) := by exact_mod_cast Fintype.card_pos
    refine ⟨max N0 1, le_max_right _ _, 1 - (Fintype.card α : R) * iter K (max N0 1) p0.1 p0.2,
      minor_factor_nonneg (stochastic_iter hK _) hε, by nlinarith [mul_pos hcard hε0], ?_⟩
    intro μ hsum t
    have h0 : ∑ x, (μ x - π x) = 0 := by rw [Finset.sum_sub_distrib, hsum, sub_self]
    have := l1_push_iter_le hK hε (fun x => μ x - π x) h0 t
    rw [push_sub] at this
    have hπt : push π (iter K t) = π := invariant_iff_push.mp (invariant_iter hπ t)
    rw [hπt] at this
    exact this

end Converge

/-! ## Instantiation checks and a non-vacuity example -/

/-- the two-state flip-flop `0 ↔ 1` is irreducible (and periodic): uniqueness holds for it -/
example : Irreducible (fun a b : Bool => if a = b then (0 : ℚ) else 1) := by
  intro x y
  by_cases e : x = y
  · exact ⟨0, by simp [idK, e]⟩
  · exact ⟨1, by rw [iter_one]; simp [e]⟩

example {α : Type*} [Fintype α] [DecidableEq α] (K : α → α → ℝ) (π μ : α → ℝ) (hK : Nonneg K)
    (hirr : Irreducible K) (hπ : Invariant π K) (hμ : Invariant μ K) (hpos : ∀ x, 0 < π x)
    (hsum : ∑ x, μ x = ∑ x, π x) : μ = π :=
  invariant_unique hK hirr hπ hμ hpos hsum

end Qmc.Markov
