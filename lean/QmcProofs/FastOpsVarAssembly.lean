/-
C11, per-variable chains: assembly of the install branch on the canonical container, then the
full refinement of `change` (all paths of `mutate_p`).
-/
import QmcProofs.FastOpsVarInstall

namespace Qmc

/-- the cursor facts `mutate_p` relies on at slot `p` -/
structure CurOK (a : Cursor) (nv : Nat) (s : Slots) (p : Nat) : Prop where
  hP : a.lastP = prevOcc (occAt s) p
  hrel : ∀ v, v < nv → a.lastPRel v = prevRel s v p
  hvar : ∀ v, v < nv → a.lastVar ((a.varToSubvar v).getD 0) = (prevRel s v p).map (·.p)

theorem curOK_scan (nv : Nat) (s : Slots) (p u : Nat) : CurOK (cursorByScan nv s p u) nv s p := by
  constructor
  · rfl
  · intro v hv; exact lastPRel_scan nv s p u v hv
  · intro v hv
    simp [Cursor.varToSubvar, cursorByScan, Cursor.lastVar, List.getElem?_map, List.getElem?_range hv]

theorem occV_s1 (s0 : Slots) (p : Nat) (op : Op) (hsp : slotAt s0 p = none) (hpL : p < s0.length) (w : Nat) :
    occVAt (s1 s0 p op) w = PI s0 p op.vars w := by
  unfold s1
  rw [occV_set s0 p (some op) w hpL]
  unfold PI
  have hfalse : occVAt s0 w p = false := by unfold occVAt; rw [hsp]
  by_cases hw : w ∈ op.vars
  · simp [hw, hasVar]
  · simp only [hw, if_false]
    have : hasVar (some op) w = false := by simpa [hasVar] using hw
    rw [this, upd_self_eq hfalse]

theorem occV_s0_p (s0 : Slots) (p : Nat) (hsp : slotAt s0 p = none) (w : Nat) : occVAt s0 w p = false := by
  unfold occVAt; rw [hsp]

theorem relcongr (s0 : Slots) (p : Nat) (op : Op) (hsp : slotAt s0 p = none) (w : Nat) (o : Option Nat)
    (h : ∀ y, o = some y → occVAt s0 w y = true) :
    o.map (relAt s0 w) = o.map (relAt (s1 s0 p op) w) := by
  apply map_relAt_congr
  intro y hy e
  subst e
  have := h y hy
  rw [occV_s0_p s0 y hsp] at this
  cases this

theorem installLinks_canon (nv : Nat) (nb : Option Nat) (s0 : Slots) (p : Nat)
    (hsp : slotAt s0 p = none) (hwf : WF nv nb s0) (a : Cursor) (ha : CurOK a nv s0 p)
    (v : Nat) (hv : v < nv) :
    FastOps.installLinks (canon nv nb s0) a v = (prevRel s0 v p, nextRel s0 v p) := by
  unfold FastOps.installLinks
  simp only [ha.hrel v hv, ha.hvar v hv]
  congr 1
  unfold prevRel nextRel
  have hfalse := occV_s0_p s0 p hsp v
  cases hprev : prevOcc (occVAt s0 v) p with
  | none =>
    simp only [Option.map_none]
    rw [varEnd_canon nv nb s0 v hv]
    have h1 : (canonVarEnd s0 v).map (·.1) = firstRel s0 v :=
      zipOpt_fst _ _ (firstRel_isSome s0 v)
    rw [← firstOcc_eq_of_prevOcc_none hprev hfalse]
    change _ = firstRel s0 v
    rw [← h1]
    cases canonVarEnd s0 v with
    | none => rfl
    | some x => cases x; rfl
  | some pp =>
    simp only [Option.map_some]
    have hpp := (prevOcc_lt hprev).2
    unfold occVAt at hpp
    have hrp : (relAt s0 v pp).p = pp := rfl
    rw [hrp, getNode_canon]
    cases hs : slotAt s0 pp with
    | none => rw [hs] at hpp; cases hpp
    | some opp =>
      rw [hs] at hpp
      have hmem : v ∈ opp.vars := by simpa using hpp
      have hlt := List.idxOf_lt_length_of_mem hmem
      simp only [Option.map_some, canonNode, Op.indexOfVar, hlt, if_true, Option.getD_some,
        List.getElem?_map, List.getElem?_eq_getElem hlt, List.getElem_idxOf hlt, Option.join_some]
      unfold nextRel
      rw [nextOcc_eq_of_prevOcc_some hprev hfalse]

/-- B-insert, per-variable half -/
theorem install_var_canon (nv : Nat) (nb : Option Nat) (s0 : Slots) (p : Nat) (op : Op)
    (hsp : slotAt s0 p = none) (hpL : p < s0.length) (hwf : WF nv nb s0) (hok : OpOK nv nb op)
    (a : Cursor) (ha : CurOK a nv s0 p) :
    let c' := FastOps.install (canon nv nb s0) p op a
    (∀ q, c'.nfv q = (canon nv nb (s0.set p (some op))).nfv q) ∧
    (∀ q, c'.pfv q = (canon nv nb (s0.set p (some op))).pfv q) ∧
    c'.varEnds = (canon nv nb (s0.set p (some op))).varEnds := by
  obtain ⟨hne, hnodup, hlt, hbond⟩ := hok
  have hok' : OpOK nv nb op := ⟨hne, hnodup, hlt, hbond⟩
  have hlinks : op.vars.map (FastOps.installLinks (canon nv nb s0) a)
      = op.vars.map (fun v => (prevRel s0 v p, nextRel s0 v p)) := by
    apply List.map_congr_left
    intro v hv
    exact installLinks_canon nv nb s0 p hsp hwf a ha v (hlt v hv)
  have hprevs : (op.vars.map (FastOps.installLinks (canon nv nb s0) a)).map (·.1)
      = op.vars.map (fun v => prevRel s0 v p) := by rw [hlinks, List.map_map]; rfl
  have hnexts : (op.vars.map (FastOps.installLinks (canon nv nb s0) a)).map (·.2)
      = op.vars.map (fun v => nextRel s0 v p) := by rw [hlinks, List.map_map]; rfl
  -- base
  have hbase : VI1 s0 p op nv [] (canon nv nb s0) := by
    constructor
    · intro q _
      rw [nfv_canon]
      cases slotAt s0 q with
      | none => rfl
      | some oq =>
        simp only [Option.map_some]
        congr 1
        apply List.map_congr_left
        intro w _
        unfold nextRel nextRelI PI
        simp only [List.not_mem_nil, if_false]
        exact relcongr s0 p op hsp w _ (fun y hy => (nextOcc_gt hy).2.2)
    · intro q _
      rw [pfv_canon]
      cases slotAt s0 q with
      | none => rfl
      | some oq =>
        simp only [Option.map_some]
        congr 1
        apply List.map_congr_left
        intro w _
        unfold prevRel prevRelI PI
        simp only [List.not_mem_nil, if_false]
        exact relcongr s0 p op hsp w _ (fun y hy => (prevOcc_lt hy).2)
    · rw [nfv_canon, hsp]; rfl
    · rw [pfv_canon, hsp]; rfl
    · simp [canon, E0]
  -- first loop
  have h1 := fold_inv (VI1 s0 p op nv) (FastOps.installPrevWrite p) (fun x => x.1.2)
    (fun x => op.vars[x.2]? = some x.1.2 ∧ x.1.1 = prevRel s0 x.1.2 p)
    (fun D c x hx hD h => installPrev_step nv nb s0 p op hsp hpL hwf hok' D c x hx hD h)
    (((op.vars.map (fun v => prevRel s0 v p)).zip op.vars).zipIdx) [] (canon nv nb s0)
    (mem_zip_map_zipIdx op.vars _) (by rw [map_key_zip_map_zipIdx]; exact hnodup) (by simp) hbase
  rw [map_key_zip_map_zipIdx, List.append_nil] at h1
  -- convert
  have hconv : VI2 s0 p op nv []
      ((((op.vars.map (fun v => prevRel s0 v p)).zip op.vars).zipIdx).foldl (FastOps.installPrevWrite p)
        (canon nv nb s0)) := by
    constructor
    · intro q hq
      rw [h1.hn q hq]
      cases slotAt s0 q with
      | none => rfl
      | some oq =>
        simp only [Option.map_some]
        congr 1
        apply List.map_congr_left
        intro w _
        unfold nextRelI PI
        simp
    · exact h1.hp
    · exact h1.hnp
    · exact h1.hpp
    · rw [h1.hv]
      apply List.map_congr_left
      intro w _
      simp
  -- second loop
  have h2 := fold_inv (VI2 s0 p op nv) (FastOps.installNextWrite p) (fun x => x.1.2)
    (fun x => op.vars[x.2]? = some x.1.2 ∧ x.1.1 = nextRel s0 x.1.2 p)
    (fun D c x hx hD h => installNext_step nv nb s0 p op hsp hpL hwf hok' D c x hx hD h)
    (((op.vars.map (fun v => nextRel s0 v p)).zip op.vars).zipIdx) [] _
    (mem_zip_map_zipIdx op.vars _) (by rw [map_key_zip_map_zipIdx]; exact hnodup) (by simp) hconv
  rw [map_key_zip_map_zipIdx, List.append_nil] at h2
  -- final comparison
  have hlen : ∀ c2 : FastOps, c2.g = (canon nv nb s0).g → c2.ops.length = s0.length := by
    intro c2 h
    have := congrArg (fun x => x.ops.length) h
    simpa using this
  simp only [FastOps.install, hprevs, hnexts, FastOps.installGlobal]
  generalize hc2 : List.foldl (FastOps.installNextWrite p)
    (List.foldl (FastOps.installPrevWrite p) (canon nv nb s0)
      ((op.vars.map (fun v => prevRel s0 v p)).zip op.vars).zipIdx)
    ((op.vars.map (fun v => nextRel s0 v p)).zip op.vars).zipIdx = c2 at h2 ⊢
  have hc2g : c2.g = (canon nv nb s0).g := by
    rw [← hc2, FastOps.foldl_g _ (FastOps.installNextWrite_g p), FastOps.foldl_g _ (FastOps.installPrevWrite_g p)]
  have hL := hlen c2 hc2g
  have hPI : ∀ w, PI s0 p op.vars.reverse w = occVAt (s1 s0 p op) w := by
    intro w
    rw [occV_s1 s0 p op hsp hpL]
    unfold PI
    simp
  refine ⟨?_, ?_, ?_⟩
  · intro q
    rw [FastOps.nfv_installGlobalCore, nfv_canon, hL, slotAt_set]
    by_cases hq : p = q
    · subst hq
      simp only [hpL, and_self, if_true, Option.map_some]
      congr 1
      apply List.map_congr_left
      intro w _
      unfold nextRel
      rw [List.length_set, occV_set s0 p (some op) w hpL, nextOcc_upd_self]
      exact relcongr s0 p op hsp w _ (fun y hy => (nextOcc_gt hy).2.2)
    · simp only [hq, false_and, if_false]
      rw [h2.hn q (fun e => hq e.symm)]
      cases slotAt s0 q with
      | none => rfl
      | some oq =>
        simp only [Option.map_some]
        congr 1
        apply List.map_congr_left
        intro w _
        unfold nextRelI nextRel
        rw [List.length_set, occV_s1 s0 p op hsp hpL]
  · intro q
    rw [FastOps.pfv_installGlobalCore, pfv_canon, hL, slotAt_set]
    by_cases hq : p = q
    · subst hq
      simp only [hpL, and_self, if_true, Option.map_some]
      congr 1
      apply List.map_congr_left
      intro w _
      unfold prevRel
      rw [occV_set s0 p (some op) w hpL, prevOcc_upd_self]
      exact relcongr s0 p op hsp w _ (fun y hy => (prevOcc_lt hy).2)
    · simp only [hq, false_and, if_false]
      rw [h2.hp q (fun e => hq e.symm)]
      cases slotAt s0 q with
      | none => rfl
      | some oq =>
        simp only [Option.map_some]
        congr 1
        apply List.map_congr_left
        intro w _
        unfold prevRelI prevRel
        rw [hPI]
  · rw [FastOps.varEnds_installGlobalCore, h2.hv]
    simp only [canon]
    apply List.map_congr_left
    intro w _
    have hfalse := occV_s0_p s0 p hsp w
    by_cases hw : w ∈ op.vars
    · simp only [List.mem_reverse, hw, if_true]
      have := ends_insert (L := s0.length) hfalse hpL (relAt s0 w) (relAt (s1 s0 p op) w)
        (fun q hq => relAt_set_ne s0 p (some op) w q hq)
      simp only [] at this
      unfold canonVarEnd firstRel lastRel
      rw [List.length_set, occV_set s0 p (some op) w hpL]
      have hh : hasVar (some op) w = true := by simpa [hasVar] using hw
      rw [hh, ← this]
      unfold E2 E1 E0 canonVarEnd firstRel lastRel
      generalize prevOcc (occVAt s0 w) p = A
      generalize nextOcc (occVAt s0 w) s0.length p = B
      generalize zipOpt ((firstOcc (occVAt s0 w) s0.length).map (relAt s0 w))
        ((lastOcc (occVAt s0 w) s0.length).map (relAt s0 w)) = E
      rcases A with _ | a0 <;> rcases B with _ | b0 <;> rcases E with _ | ⟨x, y⟩ <;> rfl
    · simp only [List.mem_reverse, hw, if_false]
      unfold E0 canonVarEnd firstRel lastRel
      rw [List.length_set, occV_set s0 p (some op) w hpL]
      have hh : hasVar (some op) w = false := by simpa [hasVar] using hw
      rw [hh, upd_self_eq hfalse]
      congr 1
      · exact relcongr s0 p op hsp w _ (fun y hy => (firstOcc_mem hy).2)
      · exact relcongr s0 p op hsp w _ (fun y hy => (lastOcc_mem hy).2)


/-! ### the cursor at `p` does not depend on slot `p` -/

theorem prevRel_set_self (s : Slots) (p : Nat) (x : Option Op) (v : Nat) (hpL : p < s.length) :
    prevRel (s.set p x) v p = prevRel s v p := by
  unfold prevRel
  rw [occV_set s p x v hpL, prevOcc_upd_self]
  symm
  apply map_relAt_congr
  intro y hy e
  subst e
  have := (prevOcc_lt hy).1
  omega

theorem curOK_set (a : Cursor) (nv : Nat) (s : Slots) (p : Nat) (x : Option Op) (hpL : p < s.length)
    (h : CurOK a nv s p) : CurOK a nv (s.set p x) p := by
  constructor
  · rw [occ_set s p x hpL, prevOcc_upd_self]; exact h.hP
  · intro v hv; rw [prevRel_set_self s p x v hpL]; exact h.hrel v hv
  · intro v hv; rw [prevRel_set_self s p x v hpL]; exact h.hvar v hv

theorem WF_set (nv : Nat) (nb : Option Nat) (s : Slots) (p : Nat) (x : Option Op) (h : WF nv nb s)
    (hx : ∀ o, x = some o → OpOK nv nb o) : WF nv nb (s.set p x) := by
  intro q op hq
  rw [slotAt_set] at hq
  split at hq
  · exact hx op hq
  · exact h q op hq

theorem canon_setOp_none (nv : Nat) (nb : Option Nat) (s : Slots) (p : Nat) (h : slotAt s p = none) :
    (canon nv nb s).setOp p none = canon nv nb s := by
  apply FastOps.ext' <;> try simp
  intro q _
  rw [getNode_canon]
  intro e _
  subst e
  rw [h]; rfl

/-- B-remove, full -/
theorem uninstall_canon (nv : Nat) (nb : Option Nat) (s : Slots) (p : Nat) (op : Op)
    (hsp : slotAt s p = some op) (hwf : WF nv nb s) (a : Cursor) (ha : CurOK a nv s p) :
    FastOps.uninstall ((canon nv nb s).setOp p none) (canonNode s p op) a = canon nv nb (s.set p none) := by
  obtain ⟨h1, h2, h3⟩ := uninstall_var_canon nv nb s p op hsp hwf a ha.hrel
  apply FastOps.eq_of_g_v _ h1 h2 h3
  rw [FastOps.uninstall_g, FastOps.setOp_g, canon_g, canon_g]
  have := FastOps.uninstallG_canon nb s p op hsp a ha.hP
  simp only [Option.map_none]
  rw [← this]
  rfl

/-- B-insert, full -/
theorem install_canon (nv : Nat) (nb : Option Nat) (s0 : Slots) (p : Nat) (op : Op)
    (hsp : slotAt s0 p = none) (hpL : p < s0.length) (hwf : WF nv nb s0) (hok : OpOK nv nb op)
    (a : Cursor) (ha : CurOK a nv s0 p) :
    FastOps.install (canon nv nb s0) p op a = canon nv nb (s0.set p (some op)) := by
  obtain ⟨h1, h2, h3⟩ := install_var_canon nv nb s0 p op hsp hpL hwf hok a ha
  apply FastOps.eq_of_g_v _ h1 h2 h3
  rw [FastOps.install_g, canon_g, canon_g]
  exact FastOps.installG_canon nb s0 p op hsp hpL a ha.hP

theorem occV_set_sameVars (s : Slots) (p : Nat) (old o : Op) (hsp : slotAt s p = some old)
    (hv : old.vars = o.vars) (w : Nat) : occVAt (s.set p (some o)) w = occVAt s w := by
  rw [occV_set s p (some o) w (slotAt_lt hsp)]
  apply upd_self_eq
  unfold occVAt hasVar
  rw [hsp]
  simp only [hv]

theorem relAt_set_sameVars (s : Slots) (p : Nat) (old o : Op) (hsp : slotAt s p = some old)
    (hv : old.vars = o.vars) (w q : Nat) : relAt (s.set p (some o)) w q = relAt s w q := by
  by_cases hq : q = p
  · subst hq
    unfold relAt
    rw [slotAt_set, hsp]
    simp [slotAt_lt hsp, hv]
  · exact relAt_set_ne s p (some o) w q hq

/-- B-fast, full -/
theorem fastInstall_canon_full (nv : Nat) (nb : Option Nat) (s : Slots) (p : Nat) (old o : Op)
    (hsp : slotAt s p = some old) (hv : old.vars = o.vars) :
    FastOps.fastInstall ((canon nv nb s).setOp p none) p (canonNode s p old) o
      = canon nv nb (s.set p (some o)) := by
  have hpL := slotAt_lt hsp
  have hrel : relAt (s.set p (some o)) = relAt s := by
    funext w q; exact relAt_set_sameVars s p old o hsp hv w q
  have hocc : ∀ w, occVAt (s.set p (some o)) w = occVAt s w := occV_set_sameVars s p old o hsp hv
  apply FastOps.eq_of_g_v
  · rw [FastOps.fastInstall_g, FastOps.setOp_g, canon_g, canon_g]
    have := FastOps.fastInstall_canon nb s p old o hsp
    simp only [Option.map_none]
    rw [← this]
    rfl
  · intro q
    simp only [FastOps.fastInstall, FastOps.nfv_setOp, FastOps.nfv_incrBond, FastOps.nfv_decrBond,
      FastOps.length_setOp, FastOps.length_incrBond, FastOps.length_decrBond, length_canon, nfv_canon,
      slotAt_set]
    by_cases hq : p = q
    · subst hq
      simp only [hpL, and_self, if_true, Option.map_some, canonNode, ← hv]
      congr 1
      apply List.map_congr_left
      intro w _
      unfold nextRel
      rw [hocc, hrel, List.length_set]
    · simp only [hq, false_and, if_false]
      cases slotAt s q with
      | none => rfl
      | some oq =>
        simp only [Option.map_some]
        congr 1
        apply List.map_congr_left
        intro w _
        unfold nextRel
        rw [hocc, hrel, List.length_set]
  · intro q
    simp only [FastOps.fastInstall, FastOps.pfv_setOp, FastOps.pfv_incrBond, FastOps.pfv_decrBond,
      FastOps.length_setOp, FastOps.length_incrBond, FastOps.length_decrBond, length_canon, pfv_canon,
      slotAt_set]
    by_cases hq : p = q
    · subst hq
      simp only [hpL, and_self, if_true, Option.map_some, canonNode, ← hv]
      congr 1
      apply List.map_congr_left
      intro w _
      unfold prevRel
      rw [hocc, hrel]
    · simp only [hq, false_and, if_false]
      cases slotAt s q with
      | none => rfl
      | some oq =>
        simp only [Option.map_some]
        congr 1
        apply List.map_congr_left
        intro w _
        unfold prevRel
        rw [hocc, hrel]
  · simp only [FastOps.fastInstall, FastOps.varEnds_setOp, FastOps.varEnds_incrBond,
      FastOps.varEnds_decrBond, canon]
    apply List.map_congr_left
    intro w _
    unfold canonVarEnd firstRel lastRel
    rw [hocc, hrel, List.length_set]

/-- THE step on the container: `change` (the container part of `mutate_p`, all four paths) on
the canonical container of `s` with a correct cursor is the canonical container of the naive
update -/
theorem change_canon (nv : Nat) (nb : Option Nat) (s : Slots) (p : Nat) (new : Option Op)
    (a : Cursor) (hpL : p < s.length) (hwf : WF nv nb s) (hnew : ∀ o, new = some o → OpOK nv nb o)
    (ha : CurOK a nv s p) :
    FastOps.change (canon nv nb s) p new a = canon nv nb (s.set p new) := by
  unfold FastOps.change
  rw [getNode_canon]
  cases hold : slotAt s p with
  | none =>
    rw [canon_setOp_none nv nb s p hold]
    cases new with
    | none => simp [set_none_of_slotAt_none s p hold]
    | some o => simpa using install_canon nv nb s p o hold hpL hwf (hnew o rfl) a ha
  | some old =>
    cases new with
    | none => simpa using uninstall_canon nv nb s p old hold hwf a ha
    | some o =>
      simp only [Option.map_some]
      by_cases hv : (canonNode s p old).op.vars = o.vars
      · simp only [hv, beq_self_eq_true, if_true]
        exact fastInstall_canon_full nv nb s p old o hold hv
      · have : ((canonNode s p old).op.vars == o.vars) = false := by simpa using hv
        simp only [this, Bool.false_eq_true, if_false]
        rw [uninstall_canon nv nb s p old hold hwf a ha]
        have h0 : slotAt (s.set p none) p = none := by simp [slotAt_set, hpL]
        have hl0 : p < (s.set p none).length := by simpa using hpL
        rw [install_canon nv nb (s.set p none) p o h0 hl0 (WF_set nv nb s p none hwf (by simp))
          (hnew o rfl) a (curOK_set a nv s p none hpL ha), List.set_set]

end Qmc
