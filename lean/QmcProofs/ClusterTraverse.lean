/-
C09 / Law: correctness of the transliterated traversal (`expandLoop`, `travLoop` of
QmcModel/ClusterExact.lean) relative to an abstract specification of the navigation tables.
Stage 1: for every `nav` whose link partner function is a validity-preserving involution, one
expansion labels exactly a partner- and star-closed set, never meets a foreign label, and stops
within its fuel.
-/
import QmcModel.ClusterExact
import Mathlib.Algebra.Order.BigOperators.Group.Finset

namespace Qmc

/-! ### arrays -/

theorem getElem!_set!_gen {α : Type} [Inhabited α] (a : Array α) (i j : Nat) (v : α) :
    (a.set! i v)[j]! = if i = j ∧ i < a.size then v else a[j]! := by
  simp only [Array.getElem!_eq_getD, Array.getD_eq_getD_getElem?, Array.set!_eq_setIfInBounds,
    Array.getElem?_setIfInBounds]
  by_cases h : i = j
  · subst h
    by_cases h2 : i < a.size
    · simp [h2]
    · simp [h2]
  · simp [h]

theorem size_set!_gen {α : Type} (a : Array α) (i : Nat) (v : α) : (a.set! i v).size = a.size := by
  simp [Array.set!_eq_setIfInBounds]

/-! ### labels -/

/-- the cluster number of an op side `(p, side)` (`false` = inputs) -/
def Trav.lab (t : Trav) (q : Nat × Bool) : Option Nat := if q.2 then t.bout[q.1]! else t.bin[q.1]!

/-- `set_boundary` when it meets no foreign label -/
theorem setBoundary_spec (t : Trav) (p : Nat) (s : Bool) (c : Nat) (hp : p < t.bin.size) (hq : p < t.bout.size)
    (hok : t.lab (p, s) = none ∨ t.lab (p, s) = some c) :
    (t.setBoundary p s c).1.bad = t.bad ∧ (t.setBoundary p s c).1.frontier = t.frontier ∧
    (t.setBoundary p s c).1.reps = t.reps ∧ (t.setBoundary p s c).1.bin.size = t.bin.size ∧
    (t.setBoundary p s c).1.bout.size = t.bout.size ∧
    (∀ q, (t.setBoundary p s c).1.lab q = if q = (p, s) then some c else t.lab q) ∧
    (t.setBoundary p s c).2 = (((t.setBoundary p s c).1.lab (p, false)).isSome &&
      ((t.setBoundary p s c).1.lab (p, true)).isSome) := by
  cases s
  · -- inputs
    simp only [Trav.lab, Bool.false_eq_true, if_false] at hok
    rcases hok with h | h
    · have hval : t.setBoundary p false c =
          ({ t with bin := t.bin.set! p (some c) }, (some c).isSome && (t.bout[p]!).isSome) := by
        simp only [Trav.setBoundary, Bool.not_false, if_true, h]
      rw [hval]
      refine ⟨rfl, rfl, rfl, size_set!_gen _ _ _, rfl, ?_, ?_⟩
      · rintro ⟨q1, q2⟩
        cases q2
        · simp only [Trav.lab, Bool.false_eq_true, if_false, getElem!_set!_gen, hp, and_true, Prod.mk.injEq]
          by_cases hq1 : p = q1
          · simp [hq1]
          · have : ¬ q1 = p := fun e => hq1 e.symm
            simp [hq1, this]
        · simp [Trav.lab]
      · simp [Trav.lab, getElem!_set!_gen, hp]
    · have hval : t.setBoundary p false c = (t, (t.bin[p]!).isSome && (t.bout[p]!).isSome) := by
        simp only [Trav.setBoundary, Bool.not_false, if_true, h, beq_self_eq_true]
      rw [hval]
      refine ⟨rfl, rfl, rfl, rfl, rfl, ?_, ?_⟩
      · rintro ⟨q1, q2⟩
        by_cases hq' : (q1, q2) = (p, false)
        · rw [if_pos hq']; cases hq'; simp [Trav.lab, h]
        · rw [if_neg hq']
      · simp [Trav.lab]
  · simp only [Trav.lab, if_true] at hok
    rcases hok with h | h
    · have hval : t.setBoundary p true c =
          ({ t with bout := t.bout.set! p (some c) }, (t.bin[p]!).isSome && (some c).isSome) := by
        simp only [Trav.setBoundary, Bool.not_true, Bool.false_eq_true, if_false, h]
      rw [hval]
      refine ⟨rfl, rfl, rfl, rfl, size_set!_gen _ _ _, ?_, ?_⟩
      · rintro ⟨q1, q2⟩
        cases q2
        · simp [Trav.lab]
        · simp only [Trav.lab, if_true, getElem!_set!_gen, hq, and_true, Prod.mk.injEq]
          by_cases hq1 : p = q1
          · simp [hq1]
          · have : ¬ q1 = p := fun e => hq1 e.symm
            simp [hq1, this]
      · simp [Trav.lab, getElem!_set!_gen, hq]
    · have hval : t.setBoundary p true c = (t, (t.bin[p]!).isSome && (t.bout[p]!).isSome) := by
        simp only [Trav.setBoundary, Bool.not_true, Bool.false_eq_true, if_false, h, beq_self_eq_true, if_true]
      rw [hval]
      refine ⟨rfl, rfl, rfl, rfl, rfl, ?_, ?_⟩
      · rintro ⟨q1, q2⟩
        by_cases hq' : (q1, q2) = (p, true)
        · rw [if_pos hq']; cases hq'; simp [Trav.lab, h]
        · rw [if_neg hq']
      · simp [Trav.lab]

/-! ### the link partner of a leg -/

/-- legs are `(p, relvar, side)` -/
abbrev TLeg := Nat × Nat × Bool

def TLeg.side (x : TLeg) : Nat × Bool := (x.1, x.2.2)

/-- the leg at the other end of the world-line link of `x` -/
def Nav.partner (nav : Nav) (x : TLeg) : TLeg :=
  ((if !x.2.2 then (nav.prev[x.1]!)[x.2.1]! else (nav.next[x.1]!)[x.2.1]!).1,
   (if !x.2.2 then (nav.prev[x.1]!)[x.2.1]! else (nav.next[x.1]!)[x.2.1]!).2, !x.2.2)

def Nav.ValidLeg (nav : Nav) (x : TLeg) : Prop := x.1 < nav.ops.size ∧ x.2.1 < nav.nvAt x.1

/-- the legs a non-edge op pushes when it is entered through leg `(nrel, nside)` -/
def enterLegs (nav : Nav) (np nrel : Nat) (nside : Bool) : List TLeg :=
  (allLegs np (nav.nvAt np)).filter fun l => !(l.2.1 == nrel && l.2.2 == nside)

theorem expandLoop_nil (nav : Nav) (c fuel : Nat) (t : Trav) : expandLoop nav c (fuel + 1) [] t = t := rfl

theorem expandLoop_zero (nav : Nav) (c : Nat) (st : List TLeg) (t : Trav) :
    expandLoop nav c 0 st t = { t with bad := true } := by
  cases st <;> rfl

theorem expandLoop_cons (nav : Nav) (c fuel : Nat) (x : TLeg) (rest : List TLeg) (t : Trav) :
    expandLoop nav c (fuel + 1) (x :: rest) t =
      (if nav.isEdgeAt (nav.partner x).1 then
        expandLoop nav c fuel rest
          (if !((t.setBoundary x.1 x.2.2 c).1.setBoundary (nav.partner x).1 (nav.partner x).2.2 c).2 then
            { ((t.setBoundary x.1 x.2.2 c).1.setBoundary (nav.partner x).1 (nav.partner x).2.2 c).1 with
              frontier := ((nav.partner x).1, !(nav.partner x).2.2) ::
                ((t.setBoundary x.1 x.2.2 c).1.setBoundary (nav.partner x).1 (nav.partner x).2.2 c).1.frontier }
           else ((t.setBoundary x.1 x.2.2 c).1.setBoundary (nav.partner x).1 (nav.partner x).2.2 c).1)
      else if (((t.setBoundary x.1 x.2.2 c).1.bin[(nav.partner x).1]!).isNone &&
                ((t.setBoundary x.1 x.2.2 c).1.bout[(nav.partner x).1]!).isNone) ||
              ((t.setBoundary x.1 x.2.2 c).1.bin[(nav.partner x).1]! == some c &&
                ((t.setBoundary x.1 x.2.2 c).1.bout[(nav.partner x).1]!).isNone) ||
              (((t.setBoundary x.1 x.2.2 c).1.bin[(nav.partner x).1]!).isNone &&
                (t.setBoundary x.1 x.2.2 c).1.bout[(nav.partner x).1]! == some c) then
        expandLoop nav c fuel
          (pushAll rest (enterLegs nav (nav.partner x).1 (nav.partner x).2.1 (nav.partner x).2.2))
          ((((t.setBoundary x.1 x.2.2 c).1.setBoundary (nav.partner x).1 false c).1.setBoundary
            (nav.partner x).1 true c).1)
      else expandLoop nav c fuel rest (t.setBoundary x.1 x.2.2 c).1) := by
  obtain ⟨p, k, s⟩ := x
  cases s <;> rfl

/-! ### specification of the tables, invariant of one expansion -/

/-- what the traversal needs of the navigation tables: the link partner is an involution on the valid
legs, and an op treated as a cluster edge has one variable -/
structure NavSpec (nav : Nav) : Prop where
  valid : ∀ x, nav.ValidLeg x → nav.ValidLeg (nav.partner x)
  invol : ∀ x, nav.ValidLeg x → nav.partner (nav.partner x) = x
  edge1 : ∀ p, nav.isEdgeAt p = true → nav.nvAt p = 1
  posVars : ∀ p, p < nav.ops.size → (nav.ops[p]!).isSome = true → 0 < nav.nvAt p
  legsBound : ∑ p ∈ Finset.range nav.ops.size, 2 * nav.nvAt p ≤ nav.nlegs

/-- the labelling `B` found before cluster `c` is expanded: `c` is fresh, labelled sides are closed
under the link partner, the two sides of a non-edge op carry the same label -/
structure BeforeOK (nav : Nav) (c : Nat) (B : Nat × Bool → Option Nat) : Prop where
  fresh : ∀ q, B q ≠ some c
  closed : ∀ x, nav.ValidLeg x → ∀ c', B x.side = some c' → B (nav.partner x).side = some c'
  star : ∀ p, p < nav.ops.size → 0 < nav.nvAt p → nav.isEdgeAt p = false → B (p, false) = B (p, true)

/-- invariant of `expandLoop` (stack `st`, state `t`) -/
structure ExpInv (nav : Nav) (c : Nat) (B : Nat × Bool → Option Nat) (st : List TLeg) (t : Trav) : Prop where
  sizeIn : t.bin.size = nav.ops.size
  sizeOut : t.bout.size = nav.ops.size
  notBad : t.bad = false
  mono : ∀ q, t.lab q = B q ∨ (B q = none ∧ t.lab q = some c)
  stack : ∀ x ∈ st, nav.ValidLeg x ∧ B x.side = none
  closed : ∀ x, nav.ValidLeg x → t.lab x.side = some c → t.lab (nav.partner x).side = some c ∨ x ∈ st
  star : ∀ p, p < nav.ops.size → nav.isEdgeAt p = false →
    (∀ k, k < nav.nvAt p → ∀ s, t.lab (p, s) = some c ∨ (p, k, s) ∈ st) ∨
    (t.lab (p, false) ≠ some c ∧ t.lab (p, true) ≠ some c ∧ ∀ x ∈ st, x.1 ≠ p)

/-- adjacency of op sides: a side and the side of the link partner of one of its legs; the two sides of a
non-edge op -/
inductive NAdj (nav : Nav) : Nat × Bool → Nat × Bool → Prop
  | link (x : TLeg) : nav.ValidLeg x → NAdj nav x.side (nav.partner x).side
  | star (p : Nat) (s : Bool) : p < nav.ops.size → 0 < nav.nvAt p → nav.isEdgeAt p = false → NAdj nav (p, s) (p, !s)

/-- reachability of op sides -/
def NConn (nav : Nav) : Nat × Bool → Nat × Bool → Prop := Relation.ReflTransGen (NAdj nav)

/-- second invariant of `expandLoop`, for the cluster started at side `q0`: what is labelled is reachable from
`q0`; a cluster edge labelled on one side only has its other side in the frontier (or is the start side) -/
structure ExpInv2 (nav : Nav) (c : Nat) (q0 : Nat × Bool) (st : List TLeg) (t : Trav) : Prop where
  conn : ∀ q, t.lab q = some c → NConn nav q0 q
  stackConn : ∀ x ∈ st, NConn nav q0 x.side
  stackEdge : ∀ x ∈ st, nav.isEdgeAt x.1 = true → x.side = q0
  half : ∀ q s', nav.isEdgeAt q = true → t.lab (q, s') = some c → t.lab (q, !s') = none →
    (q, !s') ∈ t.frontier ∨ (q, s') = q0

/-- legs still to be pushed: `2·nv` for every non-edge op one of whose sides is unlabelled -/
def pendAt (nav : Nav) (t : Trav) (p : Nat) : Nat :=
  if nav.isEdgeAt p = false ∧ (t.lab (p, false) = none ∨ t.lab (p, true) = none) then 2 * nav.nvAt p else 0

def pend (nav : Nav) (t : Trav) : Nat := ∑ p ∈ Finset.range nav.ops.size, pendAt nav t p

theorem sum_gap {n : Nat} (f g : Nat → Nat) (i d : Nat) (hi : i < n) (hle : ∀ q, f q ≤ g q) (hgap : f i + d ≤ g i) :
    (∑ q ∈ Finset.range n, f q) + d ≤ ∑ q ∈ Finset.range n, g q := by
  have hi' : i ∈ Finset.range n := Finset.mem_range.mpr hi
  rw [← Finset.add_sum_erase _ f hi', ← Finset.add_sum_erase _ g hi']
  have := Finset.sum_le_sum (s := (Finset.range n).erase i) (fun q _ => hle q)
  omega

/-- a state `t'` obtained from `t` by labelling the sides in `N` with `c` -/
structure Relabel (c : Nat) (N : Nat × Bool → Bool) (t t' : Trav) : Prop where
  sizeIn : t'.bin.size = t.bin.size
  sizeOut : t'.bout.size = t.bout.size
  bad : t'.bad = t.bad
  reps : t'.reps = t.reps
  lab : ∀ q, t'.lab q = if N q then some c else t.lab q

theorem Relabel.persist {c : Nat} {N : Nat × Bool → Bool} {t t' : Trav} (h : Relabel c N t t') {q : Nat × Bool}
    (hq : t.lab q = some c) : t'.lab q = some c := by
  rw [h.lab]; split
  · rfl
  · exact hq

theorem Relabel.pendAt_le {c : Nat} {N : Nat × Bool → Bool} {t t' : Trav} (h : Relabel c N t t') (nav : Nav)
    (p : Nat) : pendAt nav t' p ≤ pendAt nav t p := by
  unfold pendAt
  by_cases h1 : nav.isEdgeAt p = false ∧ (t'.lab (p, false) = none ∨ t'.lab (p, true) = none)
  · rw [if_pos h1]
    have : nav.isEdgeAt p = false ∧ (t.lab (p, false) = none ∨ t.lab (p, true) = none) := by
      refine ⟨h1.1, ?_⟩
      rcases h1.2 with h2 | h2
      · left; rw [h.lab] at h2; split at h2
        · cases h2
        · exact h2
      · right; rw [h.lab] at h2; split at h2
        · cases h2
        · exact h2
    rw [if_pos this]
  · rw [if_neg h1]; exact Nat.zero_le _

theorem Relabel.pend_le {c : Nat} {N : Nat × Bool → Bool} {t t' : Trav} (h : Relabel c N t t') (nav : Nav) :
    pend nav t' ≤ pend nav t := Finset.sum_le_sum (fun p _ => h.pendAt_le nav p)

theorem relabel_of_set {c : Nat} {t : Trav} {p : Nat} {s : Bool} (hp : p < t.bin.size) (hq : p < t.bout.size)
    (hok : t.lab (p, s) = none ∨ t.lab (p, s) = some c) :
    Relabel c (fun q => decide (q = (p, s))) t (t.setBoundary p s c).1 := by
  obtain ⟨h1, _, h3, h4, h5, h6, _⟩ := setBoundary_spec t p s c hp hq hok
  exact ⟨h4, h5, h1, h3, fun q => by rw [h6 q]; simp⟩

theorem Relabel.trans {c : Nat} {N M : Nat × Bool → Bool} {t t' t'' : Trav} (h1 : Relabel c N t t')
    (h2 : Relabel c M t' t'') : Relabel c (fun q => M q || N q) t t'' := by
  refine ⟨h2.sizeIn.trans h1.sizeIn, h2.sizeOut.trans h1.sizeOut, h2.bad.trans h1.bad, h2.reps.trans h1.reps, ?_⟩
  intro q
  rw [h2.lab, h1.lab]
  cases M q <;> cases N q <;> simp

theorem lab_frontier (t : Trav) (f : List (Nat × Bool)) (q : Nat × Bool) :
    ({ t with frontier := f } : Trav).lab q = t.lab q := rfl

/-- the generic part of one step: mono, stack and closedness survive the labelling of `B`-free sides
`N ∋ side x`, provided the legs on the new sides are closed or pending -/
theorem expInv_step {nav : Nav} {c : Nat} {B : Nat × Bool → Option Nat} {x : TLeg} {rest st' : List TLeg}
    {t t' : Trav} {N : Nat × Bool → Bool} (hinv : ExpInv nav c B (x :: rest) t) (hr : Relabel c N t t')
    (hNx : N x.side = true) (hNB : ∀ q, N q = true → B q = none)
    (hsub : ∀ z ∈ rest, z ∈ st') (hst : ∀ z ∈ st', nav.ValidLeg z ∧ B z.side = none)
    (hcl : ∀ z, nav.ValidLeg z → N z.side = true → t'.lab (nav.partner z).side = some c ∨ z ∈ st')
    (hstar : ∀ p, p < nav.ops.size → nav.isEdgeAt p = false →
      (∀ k, k < nav.nvAt p → ∀ s, t'.lab (p, s) = some c ∨ (p, k, s) ∈ st') ∨
      (t'.lab (p, false) ≠ some c ∧ t'.lab (p, true) ≠ some c ∧ ∀ z ∈ st', z.1 ≠ p)) :
    ExpInv nav c B st' t' := by
  refine ⟨hr.sizeIn.trans hinv.sizeIn, hr.sizeOut.trans hinv.sizeOut, hr.bad.trans hinv.notBad, ?_, hst, ?_, hstar⟩
  · intro q
    rw [hr.lab]
    cases hN : N q
    · simp only [Bool.false_eq_true, if_false]; exact hinv.mono q
    · simp only [if_true]; exact Or.inr ⟨hNB q hN, trivial⟩
  · intro z hz hlab
    cases hN : N z.side
    · rw [hr.lab, hN] at hlab
      simp only [Bool.false_eq_true, if_false] at hlab
      rcases hinv.closed z hz hlab with h | h
      · exact Or.inl (hr.persist h)
      · rcases List.mem_cons.mp h with rfl | h
        · rw [hNx] at hN; cases hN
        · exact Or.inr (hsub z h)
    · exact hcl z hz hN

theorem expInv2_step {nav : Nav} {c : Nat} {q0 : Nat × Bool} {x : TLeg} {rest st' : List TLeg} {t t' : Trav}
    {N : Nat × Bool → Bool} (h2 : ExpInv2 nav c q0 (x :: rest) t) (hr : Relabel c N t t')
    (hNconn : ∀ q, N q = true → NConn nav q0 q)
    (hstc : ∀ z ∈ st', z ∈ rest ∨ (NConn nav q0 z.side ∧ nav.isEdgeAt z.1 = false))
    (hfsub : ∀ e ∈ t.frontier, e ∈ t'.frontier)
    (hhalfN : ∀ q s', nav.isEdgeAt q = true → N (q, s') = true → t'.lab (q, !s') = none →
      (q, !s') ∈ t'.frontier ∨ (q, s') = q0) : ExpInv2 nav c q0 st' t' := by
  refine ⟨?_, ?_, ?_, ?_⟩
  · intro q hq
    rw [hr.lab] at hq
    cases hN : N q
    · rw [hN] at hq; exact h2.conn q hq
    · exact hNconn q hN
  · intro z hz
    rcases hstc z hz with h | h
    · exact h2.stackConn z (List.mem_cons_of_mem _ h)
    · exact h.1
  · intro z hz hed
    rcases hstc z hz with h | h
    · exact h2.stackEdge z (List.mem_cons_of_mem _ h) hed
    · rw [h.2] at hed; cases hed
  · intro q s' hed hl hn
    cases hN : N (q, s')
    · rw [hr.lab, hN] at hl
      have hn' : t.lab (q, !s') = none := by
        rw [hr.lab] at hn
        split at hn
        · cases hn
        · exact hn
      rcases h2.half q s' hed hl hn' with h | h
      · exact Or.inl (hfsub _ h)
      · exact Or.inr h
    · exact hhalfN q s' hed hN hn

/-! ### lists of legs -/

theorem mem_allLegs (p n : Nat) (z : TLeg) : z ∈ allLegs p n ↔ z.1 = p ∧ z.2.1 < n := by
  obtain ⟨z1, z2, z3⟩ := z
  simp only [allLegs, List.mem_append, List.mem_map, List.mem_range, Prod.mk.injEq]
  constructor
  · rintro (⟨v, hv, rfl, rfl, rfl⟩ | ⟨v, hv, rfl, rfl, rfl⟩) <;> exact ⟨rfl, hv⟩
  · rintro ⟨rfl, h⟩
    cases z3
    · exact Or.inl ⟨z2, h, rfl, rfl, rfl⟩
    · exact Or.inr ⟨z2, h, rfl, rfl, rfl⟩

theorem length_allLegs (p n : Nat) : (allLegs p n).length = 2 * n := by
  simp [allLegs]; omega

theorem mem_pushAll {α : Type} (st xs : List α) (z : α) : z ∈ pushAll st xs ↔ z ∈ xs ∨ z ∈ st := by
  simp [pushAll]

theorem length_pushAll {α : Type} (st xs : List α) : (pushAll st xs).length = xs.length + st.length := by
  simp [pushAll]

theorem mem_enterLegs (nav : Nav) (np nrel : Nat) (ns : Bool) (z : TLeg) :
    z ∈ enterLegs nav np nrel ns ↔ (z.1 = np ∧ z.2.1 < nav.nvAt np) ∧ ¬ (z.2.1 = nrel ∧ z.2.2 = ns) := by
  simp only [enterLegs, List.mem_filter, mem_allLegs, Bool.not_eq_true', Bool.and_eq_false_iff, beq_eq_false_iff_ne,
    ne_eq, not_and_or]

theorem length_enterLegs (nav : Nav) (np nrel : Nat) (ns : Bool) (h : nrel < nav.nvAt np) :
    (enterLegs nav np nrel ns).length + 1 ≤ 2 * nav.nvAt np := by
  have hlt : (enterLegs nav np nrel ns).length < (allLegs np (nav.nvAt np)).length := by
    unfold enterLegs
    rw [List.length_filter_lt_length_iff_exists]
    exact ⟨(np, nrel, ns), (mem_allLegs _ _ _).mpr ⟨rfl, h⟩, by simp⟩
  rw [length_allLegs] at hlt
  omega

/-! ### one iteration -/

section step
variable {nav : Nav} {c : Nat} {B : Nat × Bool → Option Nat}

theorem TLeg.side_eq (z : TLeg) : z.side = (z.1, z.2.2) := rfl

/-- a side that is unlabelled or labelled `c` after the popped leg's side was set is `B`-free -/
theorem side_free (hB : BeforeOK nav c B) {x : TLeg} {rest : List TLeg} {t t1 : Trav}
    (hinv : ExpInv nav c B (x :: rest) t) (h1 : Relabel c (fun q => decide (q = x.side)) t t1) {q : Nat × Bool}
    (hq : t1.lab q = none ∨ t1.lab q = some c) : B q = none := by
  rcases hinv.mono q with h | h
  · rw [h1.lab] at hq
    by_cases hx : q = x.side
    · rw [hx]; exact (hinv.stack x (List.mem_cons_self ..)).2
    · simp only [hx, decide_false, Bool.false_eq_true, if_false] at hq
      rw [h] at hq
      rcases hq with hq | hq
      · exact hq
      · exact absurd hq (hB.fresh q)
  · exact h.1

/-- a side of the partner's op that carries a label after the popped leg's side was set carries `c` -/
theorem partner_label (hN : NavSpec nav) (hB : BeforeOK nav c B) {x : TLeg} {rest : List TLeg} {t t1 : Trav}
    (hinv : ExpInv nav c B (x :: rest) t) (h1 : Relabel c (fun q => decide (q = x.side)) t t1)
    (s' : Bool) (hs : nav.isEdgeAt (nav.partner x).1 = false ∨ s' = (nav.partner x).2.2) (c' : Nat)
    (hl : t1.lab ((nav.partner x).1, s') = some c') : c' = c := by
  have hxv := (hinv.stack x (List.mem_cons_self ..)).1
  have hxB := (hinv.stack x (List.mem_cons_self ..)).2
  have hyv := hN.valid x hxv
  by_contra hne
  rw [h1.lab] at hl
  by_cases hx : ((nav.partner x).1, s') = x.side
  · simp only [hx, decide_true, if_true, Option.some.injEq] at hl; exact hne hl.symm
  · simp only [hx, decide_false, Bool.false_eq_true, if_false] at hl
    rcases hinv.mono ((nav.partner x).1, s') with h | h
    · rw [hl] at h
      -- the partner's own side carries `c'` before
      have hys : B (nav.partner x).side = some c' := by
        rcases hs with hs | hs
        · have := hB.star (nav.partner x).1 hyv.1 (Nat.lt_of_le_of_lt (Nat.zero_le _) hyv.2) hs
          cases hs' : s' <;> cases hy2 : (nav.partner x).2.2 <;> rw [hs'] at h <;>
            simp only [TLeg.side_eq, hy2] <;> first | exact h.symm | (rw [this] at h; exact h.symm) | (rw [← this] at h; exact h.symm) | (rw [this]; exact h.symm) | (rw [← this]; exact h.symm)
        · rw [TLeg.side_eq, ← hs]; exact h.symm
      have := hB.closed _ hyv c' hys
      rw [hN.invol x hxv, hxB] at this
      cases this
    · rw [h.2] at hl; exact hne (Option.some.inj hl).symm

/-- first disjunct of the star clause survives a step -/
theorem star_first {x : TLeg} {rest st' : List TLeg} {t t' : Trav} {N : Nat × Bool → Bool}
    (hr : Relabel c N t t') (hNx : N x.side = true) (hsub : ∀ z ∈ rest, z ∈ st') {q : Nat}
    (h : ∀ k, k < nav.nvAt q → ∀ s, t.lab (q, s) = some c ∨ (q, k, s) ∈ x :: rest) :
    ∀ k, k < nav.nvAt q → ∀ s, t'.lab (q, s) = some c ∨ (q, k, s) ∈ st' := by
  intro k hk s
  rcases h k hk s with h | h
  · exact Or.inl (hr.persist h)
  · rcases List.mem_cons.mp h with h | h
    · left
      rw [hr.lab]
      have : N (q, s) = true := by rw [← hNx, ← h]; rfl
      rw [this]; rfl
    · exact Or.inr (hsub _ h)

/-- what one iteration hands to the next -/
structure StepRes (nav : Nav) (c : Nat) (B : Nat × Bool → Option Nat) (q0 : Nat × Bool) (x : TLeg)
    (rest : List TLeg) (t : Trav) (st' : List TLeg) (t' : Trav) : Prop where
  inv : ExpInv nav c B st' t'
  inv2 : ExpInv2 nav c q0 st' t'
  fsub : ∀ e ∈ t.frontier, e ∈ t'.frontier
  head : t'.lab x.side = some c
  sub : ∀ z ∈ rest, z ∈ st'
  reps : t'.reps = t.reps
  persist : ∀ q, t.lab q = some c → t'.lab q = some c
  fuel : st'.length + pend nav t' ≤ rest.length + pend nav t
  flen : t'.frontier.length ≤ t.frontier.length + 1
  front : ∀ e ∈ t'.frontier, e ∈ t.frontier ∨ (nav.isEdgeAt e.1 = true ∧ e.1 < nav.ops.size ∧ t'.lab (e.1, !e.2) = some c)

theorem expandLoop_step (hN : NavSpec nav) (hB : BeforeOK nav c B) (fuel : Nat) (x : TLeg) (rest : List TLeg)
    (t : Trav) (hinv : ExpInv nav c B (x :: rest) t) (q0 : Nat × Bool) (hinv2 : ExpInv2 nav c q0 (x :: rest) t) :
    ∃ st' t', expandLoop nav c (fuel + 1) (x :: rest) t = expandLoop nav c fuel st' t' ∧
      StepRes nav c B q0 x rest t st' t' := by
  have hxv := (hinv.stack x (List.mem_cons_self ..)).1
  have hxB := (hinv.stack x (List.mem_cons_self ..)).2
  have hyv := hN.valid x hxv
  have hpx : x.1 < t.bin.size := by rw [hinv.sizeIn]; exact hxv.1
  have hqx : x.1 < t.bout.size := by rw [hinv.sizeOut]; exact hxv.1
  have hokx : t.lab (x.1, x.2.2) = none ∨ t.lab (x.1, x.2.2) = some c := by
    rcases hinv.mono x.side with h | h
    · left; rw [← TLeg.side_eq, h, hxB]
    · right; exact h.2
  have h1 : Relabel c (fun q => decide (q = x.side)) t (t.setBoundary x.1 x.2.2 c).1 := relabel_of_set hpx hqx hokx
  generalize ht1 : (t.setBoundary x.1 x.2.2 c).1 = t1 at h1
  have hpy : (nav.partner x).1 < t1.bin.size := by rw [h1.sizeIn, hinv.sizeIn]; exact hyv.1
  have hqy : (nav.partner x).1 < t1.bout.size := by rw [h1.sizeOut, hinv.sizeOut]; exact hyv.1
  -- labels on the partner's op are absent or `c`
  have hlaby : ∀ s', (nav.isEdgeAt (nav.partner x).1 = false ∨ s' = (nav.partner x).2.2) →
      t1.lab ((nav.partner x).1, s') = none ∨ t1.lab ((nav.partner x).1, s') = some c := by
    intro s' hs
    cases hl : t1.lab ((nav.partner x).1, s') with
    | none => exact Or.inl rfl
    | some c' => exact Or.inr (by rw [partner_label hN hB hinv h1 s' hs c' hl])
  have hx1 : t1.lab x.side = some c := by rw [h1.lab]; simp
  -- closedness for the other legs on the side of `x`
  have hside : ∀ z, nav.ValidLeg z → z.side = x.side → z ≠ x →
      t.lab (nav.partner z).side = some c ∨ z ∈ rest := by
    intro z hz hzs hzx
    have hzs' : (z.1, z.2.2) = (x.1, x.2.2) := hzs
    have hz1 : z.1 = x.1 := (Prod.mk.inj hzs').1
    have hz2 : z.2.2 = x.2.2 := (Prod.mk.inj hzs').2
    cases hed : nav.isEdgeAt x.1
    · rcases hinv.star x.1 hxv.1 hed with h | h
      · rcases h z.2.1 (by rw [← hz1]; exact hz.2) z.2.2 with h' | h'
        · rcases hinv.closed z hz (by rw [TLeg.side_eq, hz1]; exact h') with h'' | h''
          · exact Or.inl h''
          · rcases List.mem_cons.mp h'' with h3 | h3
            · exact absurd h3 hzx
            · exact Or.inr h3
        · have : (x.1, z.2.1, z.2.2) = z := by rw [← hz1]
          rw [this] at h'
          rcases List.mem_cons.mp h' with h3 | h3
          · exact absurd h3 hzx
          · exact Or.inr h3
      · exact absurd rfl (h.2.2 x (List.mem_cons_self ..))
    · exfalso
      have hnv := hN.edge1 x.1 hed
      have hzk : z.2.1 = 0 := by have := hz.2; rw [hz1, hnv] at this; omega
      have hxk : x.2.1 = 0 := by have := hxv.2; rw [hnv] at this; omega
      apply hzx
      obtain ⟨z1, z2, z3⟩ := z
      obtain ⟨x1, x2, x3⟩ := x
      simp only at hz1 hz2 hzk hxk
      rw [hz1, hz2, hzk, hxk]
  have hcx : NConn nav q0 x.side := hinv2.stackConn x (List.mem_cons_self ..)
  have hcy : NConn nav q0 (nav.partner x).side := Relation.ReflTransGen.tail hcx (NAdj.link x hxv)
  have hxedge : nav.isEdgeAt x.1 = true → x.side = q0 := hinv2.stackEdge x (List.mem_cons_self ..)
  rw [expandLoop_cons, ht1]
  by_cases hed : nav.isEdgeAt (nav.partner x).1 = true
  · -- the link ends on a cluster edge
    rw [if_pos hed]
    have hoky := hlaby (nav.partner x).2.2 (Or.inr rfl)
    have h2 := relabel_of_set hpy hqy hoky
    obtain ⟨-, hf2, -, -, -, -, hb2⟩ := setBoundary_spec t1 _ _ c hpy hqy hoky
    generalize ht2 : (t1.setBoundary (nav.partner x).1 (nav.partner x).2.2 c) = r2 at h2 hf2 hb2
    have h12 := h1.trans h2
    obtain ⟨N, hNdef⟩ : ∃ N : Nat × Bool → Bool, N = fun q =>
        decide (q = ((nav.partner x).1, (nav.partner x).2.2)) || decide (q = x.side) := ⟨_, rfl⟩
    rw [← hNdef] at h12
    have hNy : N (nav.partner x).side = true := by rw [hNdef]; simp [TLeg.side_eq]
    have hNx : N x.side = true := by rw [hNdef]; simp
    have hy2 : r2.1.lab (nav.partner x).side = some c := by rw [h12.lab, hNy]; rfl
    have hNB : ∀ q, N q = true → B q = none := by
      intro q hq
      rw [hNdef] at hq
      simp only [Bool.or_eq_true, decide_eq_true_eq] at hq
      rcases hq with hq | hq
      · rw [hq]; exact side_free hB hinv h1 hoky
      · rw [hq]; exact hxB
    have hnvy := hN.edge1 _ hed
    have key : ∀ t3 : Trav, (∀ q, t3.lab q = r2.1.lab q) → t3.bin.size = r2.1.bin.size → t3.bout.size = r2.1.bout.size →
        t3.bad = r2.1.bad → t3.reps = r2.1.reps → ExpInv nav c B rest t3 ∧ pend nav t3 ≤ pend nav t ∧
          (∀ q, t.lab q = some c → t3.lab q = some c) := by
      intro t3 hl3 hs3 hs3' hb3 hr3
      have hr : Relabel c N t t3 := ⟨hs3.trans h12.sizeIn, hs3'.trans h12.sizeOut, hb3.trans h12.bad, hr3.trans h12.reps,
        fun q => by rw [hl3, h12.lab]⟩
      refine ⟨expInv_step hinv hr hNx hNB (fun z hz => hz)
        (fun z hz => hinv.stack z (List.mem_cons_of_mem _ hz)) ?_ ?_, hr.pend_le nav, fun q hq => hr.persist hq⟩
      · intro z hz hNz
        by_cases hzx : z = x
        · left; rw [hzx, hl3]; exact hy2
        · rw [hNdef] at hNz
          simp only [Bool.or_eq_true, decide_eq_true_eq] at hNz
          rcases hNz with hNz | hNz
          · -- `z` is the leg of the edge op we arrived at: its partner is `x`
            have hNz' : (z.1, z.2.2) = ((nav.partner x).1, (nav.partner x).2.2) := hNz
            have hz1 : z.1 = (nav.partner x).1 := (Prod.mk.inj hNz').1
            have hz2 : z.2.2 = (nav.partner x).2.2 := (Prod.mk.inj hNz').2
            have hzk : z.2.1 = 0 := by have := hz.2; rw [hz1, hnvy] at this; omega
            have hyk : (nav.partner x).2.1 = 0 := by have := hyv.2; rw [hnvy] at this; omega
            have : z = nav.partner x := by
              obtain ⟨z1, z2, z3⟩ := z
              generalize nav.partner x = y at *
              obtain ⟨y1, y2, y3⟩ := y
              simp only at hz1 hz2 hzk hyk
              rw [hz1, hz2, hzk, hyk]
            left
            rw [this, hN.invol x hxv, hl3, h12.lab, hNx]; rfl
          · rcases hside z hz hNz hzx with h | h
            · left; rw [hl3]; exact h12.persist h
            · exact Or.inr h
      · intro q hq heq
        rcases hinv.star q hq heq with h | h
        · exact Or.inl (star_first hr hNx (fun z hz => hz) h)
        · right
          have hqx : q ≠ x.1 := fun e => h.2.2 x (List.mem_cons_self ..) e.symm
          have hqy : q ≠ (nav.partner x).1 := fun e => by rw [e, hed] at heq; cases heq
          refine ⟨?_, ?_, fun z hz => h.2.2 z (List.mem_cons_of_mem _ hz)⟩
          · have : N (q, false) = false := by
              rw [hNdef]
              simp only [Bool.or_eq_false_iff, decide_eq_false_iff_not, TLeg.side_eq, Prod.mk.injEq, not_and]
              exact ⟨fun e => absurd e hqy, fun e => absurd e hqx⟩
            rw [hl3, h12.lab, this]; exact h.1
          · have : N (q, true) = false := by
              rw [hNdef]
              simp only [Bool.or_eq_false_iff, decide_eq_false_iff_not, TLeg.side_eq, Prod.mk.injEq, not_and]
              exact ⟨fun e => absurd e hqy, fun e => absurd e hqx⟩
            rw [hl3, h12.lab, this]; exact h.2.1
    have hf12 : r2.1.frontier = t.frontier := by
      rw [hf2]
      obtain ⟨-, hf1, -⟩ := setBoundary_spec t x.1 x.2.2 c hpx hqx hokx
      rw [← ht1]; exact hf1
    have hNconn : ∀ q, N q = true → NConn nav q0 q := by
      intro q hq
      rw [hNdef] at hq
      simp only [Bool.or_eq_true, decide_eq_true_eq] at hq
      rcases hq with hq | hq
      · rw [hq]; exact hcy
      · rw [hq]; exact hcx
    have hhalfx : ∀ q s', nav.isEdgeAt q = true → (q, s') = x.side → (q, s') = q0 := by
      intro q s' hq he
      have : q = x.1 := (Prod.mk.inj (he : (q, s') = (x.1, x.2.2))).1
      rw [he]; exact hxedge (this ▸ hq)
    by_cases hboth : (!r2.2) = true
    · rw [if_pos hboth]
      obtain ⟨k1, k2, k3⟩ := key { r2.1 with frontier := ((nav.partner x).1, !(nav.partner x).2.2) :: r2.1.frontier }
        (fun q => rfl) rfl rfl rfl rfl
      have hr3 : Relabel c N t { r2.1 with frontier := ((nav.partner x).1, !(nav.partner x).2.2) :: r2.1.frontier } :=
        ⟨h12.sizeIn, h12.sizeOut, h12.bad, h12.reps, fun q => by rw [lab_frontier, h12.lab]⟩
      have hi2 : ExpInv2 nav c q0 rest
          { r2.1 with frontier := ((nav.partner x).1, !(nav.partner x).2.2) :: r2.1.frontier } := by
        refine expInv2_step hinv2 hr3 hNconn (fun z hz => Or.inl hz)
          (fun e he => List.mem_cons_of_mem _ (hf12 ▸ he)) ?_
        intro q s' hq hNq _
        rw [hNdef] at hNq
        simp only [Bool.or_eq_true, decide_eq_true_eq] at hNq
        rcases hNq with hNq | hNq
        · left
          have e1 : q = (nav.partner x).1 := (Prod.mk.inj hNq).1
          have e2 : s' = (nav.partner x).2.2 := (Prod.mk.inj hNq).2
          rw [e1, e2]; exact List.mem_cons_self ..
        · exact Or.inr (hhalfx q s' hq hNq)
      refine ⟨rest, _, rfl, k1, hi2, fun e he => List.mem_cons_of_mem _ (hf12 ▸ he),
        by rw [lab_frontier, h12.lab, hNx]; rfl, fun z hz => hz, h12.reps, k3, by omega,
        by simp [hf12], ?_⟩
      intro e he
      simp only [List.mem_cons] at he
      rcases he with rfl | he
      · right
        refine ⟨hed, hyv.1, ?_⟩
        simp only [Bool.not_not]
        exact hy2
      · left; rw [← hf12]; exact he
    · rw [if_neg hboth]
      obtain ⟨k1, k2, k3⟩ := key r2.1 (fun q => rfl) rfl rfl rfl rfl
      have hi2 : ExpInv2 nav c q0 rest r2.1 := by
        refine expInv2_step hinv2 h12 hNconn (fun z hz => Or.inl hz) (fun e he => hf12 ▸ he) ?_
        intro q s' hq hNq hnone
        rw [hNdef] at hNq
        simp only [Bool.or_eq_true, decide_eq_true_eq] at hNq
        rcases hNq with hNq | hNq
        · exfalso
          have e1 : q = (nav.partner x).1 := (Prod.mk.inj hNq).1
          have e2 : s' = (nav.partner x).2.2 := (Prod.mk.inj hNq).2
          have hb : r2.2 = true := by simpa using hboth
          rw [hb2, Bool.and_eq_true] at hb
          rw [e1, e2] at hnone
          cases hs2 : (nav.partner x).2.2 <;> rw [hs2] at hnone <;> simp only [Bool.not_false, Bool.not_true] at hnone
          · rw [hnone] at hb; simp at hb
          · rw [hnone] at hb; simp at hb
        · exact Or.inr (hhalfx q s' hq hNq)
      exact ⟨rest, _, rfl, k1, hi2, fun e he => hf12 ▸ he, by rw [h12.lab, hNx]; rfl, fun z hz => hz, h12.reps, k3,
        by omega, by rw [hf12]; omega, fun e he => Or.inl (hf12 ▸ he)⟩
  · -- the link ends on an op that is not a cluster edge
    have hedf : nav.isEdgeAt (nav.partner x).1 = false := by simpa using hed
    rw [if_neg hed]
    have ha := hlaby false (Or.inl hedf)
    have hb := hlaby true (Or.inl hedf)
    have hlf : ∀ u : Trav, ∀ p, u.lab (p, false) = u.bin[p]! := fun _ _ => rfl
    have hlt : ∀ u : Trav, ∀ p, u.lab (p, true) = u.bout[p]! := fun _ _ => rfl
    obtain ⟨-, hf1, -⟩ := setBoundary_spec t x.1 x.2.2 c hpx hqx hokx
    rw [ht1] at hf1
    -- the not-entered case, shared
    have notEnter : t1.lab ((nav.partner x).1, false) = some c → t1.lab ((nav.partner x).1, true) = some c →
        StepRes nav c B q0 x rest t rest t1 := by
      intro ha' hb'
      have hy1 : t1.lab (nav.partner x).side = some c := by
        rw [TLeg.side_eq]; cases (nav.partner x).2.2
        · exact ha'
        · exact hb'
      have hNx : (fun q => decide (q = x.side)) x.side = true := by simp
      refine ⟨expInv_step hinv h1 hNx (fun q hq => by rw [of_decide_eq_true hq]; exact hxB) (fun z hz => hz)
        (fun z hz => hinv.stack z (List.mem_cons_of_mem _ hz)) ?_ ?_,
        expInv2_step hinv2 h1 (fun q hq => by rw [of_decide_eq_true hq]; exact hcx) (fun z hz => Or.inl hz)
          (fun e he => hf1 ▸ he) (fun q s' hq hNq _ => Or.inr (by
            have he : (q, s') = x.side := of_decide_eq_true hNq
            have : q = x.1 := (Prod.mk.inj (he : (q, s') = (x.1, x.2.2))).1
            rw [he]; exact hxedge (this ▸ hq))),
        fun e he => hf1 ▸ he, hx1, fun z hz => hz, h1.reps,
        fun q hq => h1.persist hq, by have := h1.pend_le nav; omega, by rw [hf1]; omega, fun e he => Or.inl (hf1 ▸ he)⟩
      · intro z hz hNz
        have hNz' : z.side = x.side := of_decide_eq_true hNz
        by_cases hzx : z = x
        · left; rw [hzx]; exact hy1
        · rcases hside z hz hNz' hzx with h | h
          · exact Or.inl (h1.persist h)
          · exact Or.inr h
      · intro q hq heq
        rcases hinv.star q hq heq with h | h
        · exact Or.inl (star_first h1 hNx (fun z hz => hz) h)
        · right
          have hqx : q ≠ x.1 := fun e => h.2.2 x (List.mem_cons_self ..) e.symm
          refine ⟨?_, ?_, fun z hz => h.2.2 z (List.mem_cons_of_mem _ hz)⟩
          · rw [h1.lab]
            have : decide ((q, false) = x.side) = false := by
              simp only [decide_eq_false_iff_not, TLeg.side_eq, Prod.mk.injEq, not_and]; exact fun e => absurd e hqx
            rw [this]; exact h.1
          · rw [h1.lab]
            have : decide ((q, true) = x.side) = false := by
              simp only [decide_eq_false_iff_not, TLeg.side_eq, Prod.mk.injEq, not_and]; exact fun e => absurd e hqx
            rw [this]; exact h.2.1
    -- the entered case, shared
    have enter : (t1.lab ((nav.partner x).1, false) = none ∨ t1.lab ((nav.partner x).1, true) = none) →
        StepRes nav c B q0 x rest t (pushAll rest (enterLegs nav (nav.partner x).1 (nav.partner x).2.1 (nav.partner x).2.2))
          ((t1.setBoundary (nav.partner x).1 false c).1.setBoundary (nav.partner x).1 true c).1 := by
      intro hnone
      have h2 := relabel_of_set hpy hqy ha
      obtain ⟨-, hf2, -, hs2, hs2', hl2, -⟩ := setBoundary_spec t1 _ false c hpy hqy ha
      generalize (t1.setBoundary (nav.partner x).1 false c).1 = t2 at h2 hf2 hs2 hs2' hl2
      have hb2 : t2.lab ((nav.partner x).1, true) = none ∨ t2.lab ((nav.partner x).1, true) = some c := by
        rw [hl2]; simpa using hb
      have h3 := relabel_of_set (hs2 ▸ hpy) (hs2' ▸ hqy) hb2
      obtain ⟨-, hf3, -⟩ := setBoundary_spec t2 _ true c (hs2 ▸ hpy) (hs2' ▸ hqy) hb2
      generalize (t2.setBoundary (nav.partner x).1 true c).1 = t3 at h3 hf3
      have h13 := (h1.trans h2).trans h3
      obtain ⟨N, hNdef⟩ : ∃ N : Nat × Bool → Bool, N = fun q =>
          decide (q = ((nav.partner x).1, true)) || (decide (q = ((nav.partner x).1, false)) || decide (q = x.side)) :=
        ⟨_, rfl⟩
      rw [← hNdef] at h13
      have hNx : N x.side = true := by rw [hNdef]; simp
      have hNy : ∀ s', N ((nav.partner x).1, s') = true := by intro s'; rw [hNdef]; cases s' <;> simp
      have hNiff : ∀ q, N q = true → q.1 = (nav.partner x).1 ∨ q = x.side := by
        intro q hq
        rw [hNdef] at hq
        simp only [Bool.or_eq_true, decide_eq_true_eq] at hq
        rcases hq with hq | hq | hq
        · left; rw [hq]
        · left; rw [hq]
        · right; exact hq
      have hl3 : ∀ s', t3.lab ((nav.partner x).1, s') = some c := by intro s'; rw [h13.lab, hNy]; rfl
      have hfr3 : t3.frontier = t.frontier := by rw [hf3, hf2, hf1]
      have hst' : ∀ z ∈ pushAll rest (enterLegs nav (nav.partner x).1 (nav.partner x).2.1 (nav.partner x).2.2),
          nav.ValidLeg z ∧ B z.side = none := by
        intro z hz
        rcases (mem_pushAll _ _ _).mp hz with hz | hz
        · obtain ⟨⟨hz1, hz2⟩, -⟩ := (mem_enterLegs _ _ _ _ _).mp hz
          refine ⟨⟨by rw [hz1]; exact hyv.1, by rw [hz1]; exact hz2⟩, ?_⟩
          rw [TLeg.side_eq, hz1]
          exact side_free hB hinv h1 (hlaby z.2.2 (Or.inl hedf))
        · exact hinv.stack z (List.mem_cons_of_mem _ hz)
      have hNB : ∀ q, N q = true → B q = none := by
        intro q hq
        rcases hNiff q hq with h | h
        · obtain ⟨q1, q2⟩ := q
          simp only at h
          rw [h]; exact side_free hB hinv h1 (hlaby q2 (Or.inl hedf))
        · rw [h]; exact hxB
      have hcy' : ∀ s', NConn nav q0 ((nav.partner x).1, s') := by
        intro s'
        by_cases e : s' = (nav.partner x).2.2
        · rw [e]; exact hcy
        · have : s' = !(nav.partner x).2.2 := by cases s' <;> cases h' : (nav.partner x).2.2 <;> simp_all
          rw [this]
          exact Relation.ReflTransGen.tail hcy
            (NAdj.star _ _ hyv.1 (Nat.lt_of_le_of_lt (Nat.zero_le _) hyv.2) hedf)
      have hi2 : ExpInv2 nav c q0
          (pushAll rest (enterLegs nav (nav.partner x).1 (nav.partner x).2.1 (nav.partner x).2.2)) t3 := by
        refine expInv2_step hinv2 h13 ?_ ?_ (fun e he => hfr3 ▸ he) ?_
        · intro q hq
          rcases hNiff q hq with h | h
          · obtain ⟨q1, q2⟩ := q
            simp only at h
            rw [h]; exact hcy' q2
          · rw [h]; exact hcx
        · intro z hz
          rcases (mem_pushAll _ _ _).mp hz with hz | hz
          · right
            have hz1 := ((mem_enterLegs _ _ _ _ _).mp hz).1.1
            exact ⟨by rw [TLeg.side_eq, hz1]; exact hcy' _, by rw [hz1]; exact hedf⟩
          · exact Or.inl hz
        · intro q s' hq hNq _
          rcases hNiff _ hNq with h | h
          · simp only at h; rw [h, hedf] at hq; cases hq
          · right
            have : q = x.1 := (Prod.mk.inj (h : (q, s') = (x.1, x.2.2))).1
            rw [h]; exact hxedge (this ▸ hq)
      refine ⟨expInv_step hinv h13 hNx hNB (fun z hz => (mem_pushAll _ _ _).mpr (Or.inr hz)) hst' ?_ ?_,
        hi2, fun e he => hfr3 ▸ he,
        by rw [h13.lab, hNx]; rfl, fun z hz => (mem_pushAll _ _ _).mpr (Or.inr hz),
        h13.reps, fun q hq => h13.persist hq, ?_, by rw [hfr3]; omega, fun e he => Or.inl (hfr3 ▸ he)⟩
      · intro z hz hNz
        by_cases hzx : z = x
        · left; rw [hzx, TLeg.side_eq]; exact hl3 _
        · by_cases hzy1 : z.1 = (nav.partner x).1
          · by_cases hzy : z = nav.partner x
            · left; rw [hzy, hN.invol x hxv, h13.lab, hNx]; rfl
            · right
              refine (mem_pushAll _ _ _).mpr (Or.inl ((mem_enterLegs _ _ _ _ _).mpr ⟨⟨hzy1, by rw [← hzy1]; exact hz.2⟩, ?_⟩))
              rintro ⟨e1, e2⟩
              apply hzy
              obtain ⟨z1, z2, z3⟩ := z
              generalize nav.partner x = y at *
              obtain ⟨y1, y2, y3⟩ := y
              simp only at hzy1 e1 e2
              rw [hzy1, e1, e2]
          · rcases hNiff _ hNz with h | h
            · exact absurd h hzy1
            · rcases hside z hz h hzx with h' | h'
              · exact Or.inl (h13.persist h')
              · exact Or.inr ((mem_pushAll _ _ _).mpr (Or.inr h'))
      · intro q hq heq
        by_cases hqy : q = (nav.partner x).1
        · left; intro k _ s'; left; rw [hqy]; exact hl3 s'
        · rcases hinv.star q hq heq with h | h
          · exact Or.inl (star_first h13 hNx (fun z hz => (mem_pushAll _ _ _).mpr (Or.inr hz)) h)
          · right
            have hqx : q ≠ x.1 := fun e => h.2.2 x (List.mem_cons_self ..) e.symm
            have hNq : ∀ s', N (q, s') = false := by
              intro s'
              cases hv : N (q, s') with
              | false => rfl
              | true =>
                rcases hNiff _ hv with h' | h'
                · exact absurd h' hqy
                · exact absurd (Prod.mk.inj (h' : (q, s') = (x.1, x.2.2))).1 hqx
            refine ⟨by rw [h13.lab, hNq]; exact h.1, by rw [h13.lab, hNq]; exact h.2.1, ?_⟩
            intro z hz
            rcases (mem_pushAll _ _ _).mp hz with hz | hz
            · rw [((mem_enterLegs _ _ _ _ _).mp hz).1.1]; exact fun e => hqy e.symm
            · exact h.2.2 z (List.mem_cons_of_mem _ hz)
      · -- the op just entered leaves the pending set
        have hgap : pend nav t3 + 2 * nav.nvAt (nav.partner x).1 ≤ pend nav t := by
          unfold pend
          refine sum_gap _ _ (nav.partner x).1 _ hyv.1 (fun q => h13.pendAt_le nav q) ?_
          have h3z : pendAt nav t3 (nav.partner x).1 = 0 := by
            unfold pendAt
            rw [if_neg]
            rintro ⟨-, h | h⟩ <;> rw [hl3] at h <;> cases h
          have htz : pendAt nav t (nav.partner x).1 = 2 * nav.nvAt (nav.partner x).1 := by
            unfold pendAt
            rw [if_pos]
            refine ⟨hedf, ?_⟩
            rcases hnone with h | h
            · left; rw [h1.lab] at h; split at h
              · cases h
              · exact h
            · right; rw [h1.lab] at h; split at h
              · cases h
              · exact h
          rw [h3z, htz]; omega
        have hlen := length_enterLegs nav (nav.partner x).1 (nav.partner x).2.1 (nav.partner x).2.2 hyv.2
        rw [length_pushAll]
        omega
    rcases ha with ha | ha <;> rcases hb with hb | hb
    · rw [if_pos (by rw [← hlf, ← hlt, ha, hb]; rfl)]
      exact ⟨_, _, rfl, enter (Or.inl ha)⟩
    · rw [if_pos (by rw [← hlf, ← hlt, ha, hb]; simp)]
      exact ⟨_, _, rfl, enter (Or.inl ha)⟩
    · rw [if_pos (by rw [← hlf, ← hlt, ha, hb]; simp)]
      exact ⟨_, _, rfl, enter (Or.inr hb)⟩
    · rw [if_neg (by rw [← hlf, ← hlt, ha, hb]; simp)]
      exact ⟨_, _, rfl, notEnter ha hb⟩

/-- what a finished expansion returns -/
structure ExpRes (nav : Nav) (c : Nat) (B : Nat × Bool → Option Nat) (q0 : Nat × Bool) (st : List TLeg)
    (t r : Trav) : Prop where
  inv : ExpInv nav c B [] r
  inv2 : ExpInv2 nav c q0 [] r
  fsub : ∀ e ∈ t.frontier, e ∈ r.frontier
  reps : r.reps = t.reps
  persist : ∀ q, t.lab q = some c → r.lab q = some c
  started : ∀ x ∈ st, r.lab x.side = some c
  measure : r.frontier.length + pend nav r ≤ t.frontier.length + st.length + pend nav t
  front : ∀ e ∈ r.frontier, e ∈ t.frontier ∨
    (nav.isEdgeAt e.1 = true ∧ e.1 < nav.ops.size ∧ r.lab (e.1, !e.2) = some c)

/-- **one expansion**: from a state satisfying the invariant and with enough fuel, `expandLoop` ends with an
empty stack, not `bad`, the invariant intact -/
theorem expandLoop_ok (hN : NavSpec nav) (hB : BeforeOK nav c B) (q0 : Nat × Bool) :
    ∀ (fuel : Nat) (st : List TLeg) (t : Trav),
    ExpInv nav c B st t → ExpInv2 nav c q0 st t → st.length + pend nav t < fuel →
    ExpRes nav c B q0 st t (expandLoop nav c fuel st t)
  | 0, _, _, _, _, h => absurd h (Nat.not_lt_zero _)
  | fuel + 1, [], t, hinv, hinv2, _ => by
    rw [expandLoop_nil]
    exact ⟨hinv, hinv2, fun _ h => h, rfl, fun _ h => h, fun x hx => by simp at hx, by omega, fun e he => Or.inl he⟩
  | fuel + 1, x :: rest, t, hinv, hinv2, hf => by
    obtain ⟨st', t', heq, hs⟩ := expandLoop_step hN hB fuel x rest t hinv q0 hinv2
    rw [heq]
    have ih := expandLoop_ok hN hB q0 fuel st' t' hs.inv hs.inv2
      (by have := hs.fuel; simp only [List.length_cons] at hf; omega)
    refine ⟨ih.inv, ih.inv2, fun e he => ih.fsub e (hs.fsub e he), ih.reps.trans hs.reps,
      fun q hq => ih.persist q (hs.persist q hq), ?_, ?_, ?_⟩
    · intro z hz
      rcases List.mem_cons.mp hz with rfl | hz
      · exact ih.persist _ hs.head
      · exact ih.started z (hs.sub z hz)
    · have h1 := ih.measure; have h2 := hs.fuel; have h3 := hs.flen
      simp only [List.length_cons]; omega
    · intro e he
      rcases ih.front e he with h | h
      · rcases hs.front e h with h' | h'
        · exact Or.inl h'
        · exact Or.inr ⟨h'.1, h'.2.1, ih.persist _ h'.2.2⟩
      · exact Or.inr h

/-- labels of other clusters are untouched, labels never disappear -/
theorem ExpRes.old {q0 : Nat × Bool} {st : List TLeg} {t r : Trav} (hB : BeforeOK nav c B)
    (hr : ExpRes nav c B q0 st t r)
    (ht : ∀ q, t.lab q = B q) (q : Nat × Bool) (c' : Nat) (h : t.lab q = some c') : r.lab q = some c' := by
  rcases hr.inv.mono q with h' | h'
  · rw [h', ← ht, h]
  · rw [← ht, h] at h'; cases h'.1

/-! ### the outer loop -/

/-- leg id of the first leg of an op side -/
def Nav.sideLeg (nav : Nav) (q : Nat × Bool) : Nat := nav.off[q.1]! + (if q.2 then nav.nvAt q.1 else 0)

/-- a frontier entry: the other side of its op is labelled -/
def GOK (nav : Nav) (t : Trav) (e : Nat × Bool) : Prop :=
  e.1 < nav.ops.size ∧ 0 < nav.nvAt e.1 ∧ (t.lab (e.1, !e.2)).isSome = true

/-- invariant of `travLoop` between expansions -/
structure OutInv (nav : Nav) (t : Trav) : Prop where
  sizeIn : t.bin.size = nav.ops.size
  sizeOut : t.bout.size = nav.ops.size
  notBad : t.bad = false
  labLt : ∀ q c', t.lab q = some c' → c' < t.reps.size
  closed : ∀ x, nav.ValidLeg x → ∀ c', t.lab x.side = some c' → t.lab (nav.partner x).side = some c'
  star : ∀ p, p < nav.ops.size → 0 < nav.nvAt p → nav.isEdgeAt p = false → t.lab (p, false) = t.lab (p, true)
  repsOK : ∀ i, i < t.reps.size → ∃ q : Nat × Bool, q.1 < nav.ops.size ∧ 0 < nav.nvAt q.1 ∧
    t.reps[i]! = nav.sideLeg q ∧ t.lab q = some i ∧ ∀ q', t.lab q' = some i → NConn nav q q'

/-- an op labelled on one side only has its other side in the frontier (or it is the exception `P`) -/
def HalfOK (nav : Nav) (t : Trav) (P : Nat × Bool → Prop) : Prop :=
  ∀ q s', q < nav.ops.size → 0 < nav.nvAt q → (t.lab (q, s')).isSome = true → t.lab (q, !s') = none →
    (q, !s') ∈ t.frontier ∨ P (q, !s')

def unlAt (nav : Nav) (t : Trav) (p : Nat) : Nat :=
  (if 0 < nav.nvAt p ∧ t.lab (p, false) = none then 2 * nav.nvAt p + 3 else 0) +
  (if 0 < nav.nvAt p ∧ t.lab (p, true) = none then 2 * nav.nvAt p + 3 else 0)

def unl (nav : Nav) (t : Trav) : Nat := ∑ p ∈ Finset.range nav.ops.size, unlAt nav t p

theorem getElem!_push {α : Type} [Inhabited α] (a : Array α) (x : α) (i : Nat) :
    (a.push x)[i]! = if i < a.size then a[i]! else if i = a.size then x else default := by
  simp only [Array.getElem!_eq_getD, Array.getD_eq_getD_getElem?, Array.getElem?_push]
  by_cases h1 : i = a.size
  · simp [h1]
  · by_cases h2 : i < a.size
    · simp [h1, h2]
    · have : a.size ≤ i := Nat.le_of_not_lt h2
      simp [h1, h2]

theorem pendAt_le_legs (t : Trav) (p : Nat) : pendAt nav t p ≤ 2 * nav.nvAt p := by
  unfold pendAt; split <;> omega

theorem pend_le_nlegs (hN : NavSpec nav) (t : Trav) : pend nav t ≤ nav.nlegs :=
  Nat.le_trans (Finset.sum_le_sum (fun p _ => pendAt_le_legs t p)) hN.legsBound

theorem nv_le_nlegs (hN : NavSpec nav) {p : Nat} (hp : p < nav.ops.size) : 2 * nav.nvAt p ≤ nav.nlegs :=
  Nat.le_trans (Finset.single_le_sum (f := fun p => 2 * nav.nvAt p) (fun _ _ => Nat.zero_le _)
    (Finset.mem_range.mpr hp)) hN.legsBound

/-- **one cluster**: expanding from an unlabelled side of an op keeps the invariant of the outer loop, labels the
side with the new cluster number, and pays for itself in the termination measure -/
theorem expand_from (hN : NavSpec nav) (ef : Nat) (hef : 2 * nav.nlegs + 1 ≤ ef) (u : Trav) (hu : OutInv nav u)
    (p : Nat) (s : Bool) (hp : p < nav.ops.size) (hnv : 0 < nav.nvAt p) (hfree : u.lab (p, s) = none)
    (hhalf : HalfOK nav u (fun e => e = (p, s))) (hsib : u.lab (p, !s) = none → (p, !s) ∈ u.frontier) :
    OutInv nav { expandWhole nav ef p s u.reps.size u with
        reps := (expandWhole nav ef p s u.reps.size u).reps.push (nav.sideLeg (p, s)) } ∧
    (expandWhole nav ef p s u.reps.size u).lab (p, s) = some u.reps.size ∧
    (∀ q c', u.lab q = some c' → (expandWhole nav ef p s u.reps.size u).lab q = some c') ∧
    (expandWhole nav ef p s u.reps.size u).frontier.length + pend nav (expandWhole nav ef p s u.reps.size u) +
      unl nav (expandWhole nav ef p s u.reps.size u) + 3 ≤ u.frontier.length + pend nav u + unl nav u ∧
    (∀ e ∈ (expandWhole nav ef p s u.reps.size u).frontier, e ∈ u.frontier ∨
      GOK nav (expandWhole nav ef p s u.reps.size u) e) ∧
    HalfOK nav (expandWhole nav ef p s u.reps.size u) (fun _ => False) := by
  have hB : BeforeOK nav u.reps.size u.lab :=
    ⟨fun q h => Nat.lt_irrefl _ (hu.labLt q _ h), hu.closed, hu.star⟩
  -- the start stack
  obtain ⟨st0, hst0, hvalid0, hlen0, hstar0, hmem0, hconn0, hedge0⟩ : ∃ st0 : List TLeg,
      expandWhole nav ef p s u.reps.size u = expandLoop nav u.reps.size ef st0 u ∧
      (∀ x ∈ st0, nav.ValidLeg x ∧ u.lab x.side = none) ∧ st0.length ≤ 2 * nav.nvAt p ∧
      (∀ q, q < nav.ops.size → nav.isEdgeAt q = false →
        (∀ k, k < nav.nvAt q → ∀ s', u.lab (q, s') = some u.reps.size ∨ (q, k, s') ∈ st0) ∨
        (u.lab (q, false) ≠ some u.reps.size ∧ u.lab (q, true) ≠ some u.reps.size ∧ ∀ x ∈ st0, x.1 ≠ q)) ∧
      (∃ k, (p, k, s) ∈ st0) ∧ (∀ x ∈ st0, NConn nav (p, s) x.side) ∧
      (∀ x ∈ st0, nav.isEdgeAt x.1 = true → x.side = (p, s)) := by
    have hfresh : ∀ q, u.lab q ≠ some u.reps.size := hB.fresh
    cases hed : nav.isEdgeAt p
    · -- not a cluster edge: all legs
      have hboth : ∀ s', u.lab (p, s') = none := by
        intro s'
        have := hu.star p hp hnv hed
        cases s <;> cases s' <;> first | exact hfree | (rw [this]; exact hfree) | (rw [← this]; exact hfree)
      have hall : ∀ x ∈ pushAll [] (allLegs p (nav.nvAt p)), x.1 = p := by
        intro x hx
        rw [mem_pushAll] at hx
        rcases hx with hx | hx
        · exact ((mem_allLegs _ _ _).mp hx).1
        · simp at hx
      refine ⟨pushAll [] (allLegs p (nav.nvAt p)), by simp [expandWhole, hed], ?_, ?_, ?_, ?_, ?_, ?_⟩
      · intro x hx
        rw [mem_pushAll] at hx
        rcases hx with hx | hx
        · obtain ⟨h1, h2⟩ := (mem_allLegs _ _ _).mp hx
          exact ⟨⟨by rw [h1]; exact hp, by rw [h1]; exact h2⟩, by rw [TLeg.side_eq, h1]; exact hboth _⟩
        · simp at hx
      · rw [length_pushAll, length_allLegs]; simp
      · intro q hq heq
        by_cases hqp : q = p
        · left; intro k hk s'; right
          rw [mem_pushAll]; left
          exact (mem_allLegs _ _ _).mpr ⟨hqp, by rw [← hqp]; exact hk⟩
        · right
          refine ⟨hfresh _, hfresh _, fun x hx => ?_⟩
          rw [mem_pushAll] at hx
          rcases hx with hx | hx
          · rw [((mem_allLegs _ _ _).mp hx).1]; exact fun e => hqp e.symm
          · simp at hx
      · exact ⟨0, (mem_pushAll _ _ _).mpr (Or.inl ((mem_allLegs _ _ _).mpr ⟨rfl, hnv⟩))⟩
      · intro x hx
        have hx1 := hall x hx
        rw [TLeg.side_eq, hx1]
        by_cases e : x.2.2 = s
        · rw [e]; exact Relation.ReflTransGen.refl
        · have : x.2.2 = !s := by cases h1 : x.2.2 <;> cases h2 : s <;> simp_all
          rw [this]
          exact Relation.ReflTransGen.single (NAdj.star p s hp hnv hed)
      · intro x hx hxe
        rw [hall x hx, hed] at hxe; cases hxe
    · refine ⟨[(p, 0, s)], by simp [expandWhole, hed], ?_, ?_, ?_, ⟨0, by simp⟩,
        fun x hx => by rw [List.mem_singleton.mp hx]; exact Relation.ReflTransGen.refl,
        fun x hx _ => by rw [List.mem_singleton.mp hx]; rfl⟩
      · intro x hx
        rw [List.mem_singleton] at hx
        rw [hx]; exact ⟨⟨hp, hnv⟩, hfree⟩
      · simp; omega
      · intro q hq heq
        right
        refine ⟨hfresh _, hfresh _, fun x hx => ?_⟩
        rw [List.mem_singleton] at hx
        rw [hx]
        intro e
        simp only at e
        rw [e, heq] at hed; cases hed
  have hinv0 : ExpInv nav u.reps.size u.lab st0 u :=
    ⟨hu.sizeIn, hu.sizeOut, hu.notBad, fun q => Or.inl rfl, hvalid0,
      fun x _ h => absurd h (hB.fresh _), hstar0⟩
  have hfuel : st0.length + pend nav u < ef := by
    have := pend_le_nlegs hN u; have := nv_le_nlegs hN hp; omega
  have hinv20 : ExpInv2 nav u.reps.size (p, s) st0 u :=
    ⟨fun q h => absurd h (hB.fresh _), hconn0, hedge0, fun q s' _ h => absurd h (hB.fresh _)⟩
  have hres := expandLoop_ok hN hB (p, s) ef st0 u hinv0 hinv20 hfuel
  rw [← hst0] at hres
  generalize expandWhole nav ef p s u.reps.size u = r at hres
  have hold : ∀ q c', u.lab q = some c' → r.lab q = some c' := fun q c' h => hres.old hB (fun _ => rfl) q c' h
  obtain ⟨k0, hk0⟩ := hmem0
  have hstart : r.lab (p, s) = some u.reps.size := hres.started _ hk0
  have hnone : ∀ q, r.lab q = none → u.lab q = none := by
    intro q h
    rcases hres.inv.mono q with h' | h'
    · rw [← h', h]
    · rw [h'.2] at h; cases h
  have hstar_r : ∀ q, q < nav.ops.size → 0 < nav.nvAt q → nav.isEdgeAt q = false → r.lab (q, false) = r.lab (q, true) := by
    intro q hq hqnv heq
    rcases hres.inv.star q hq heq with h | h
    · have h1 := h 0 hqnv false
      have h2 := h 0 hqnv true
      simp only [List.not_mem_nil, or_false] at h1 h2
      rw [h1, h2]
    · have e1 : r.lab (q, false) = u.lab (q, false) := by
        rcases hres.inv.mono (q, false) with h' | h'
        · exact h'
        · exact absurd h'.2 h.1
      have e2 : r.lab (q, true) = u.lab (q, true) := by
        rcases hres.inv.mono (q, true) with h' | h'
        · exact h'
        · exact absurd h'.2 h.2.1
      rw [e1, e2]; exact hu.star q hq hqnv heq
  refine ⟨⟨hres.inv.sizeIn, hres.inv.sizeOut, hres.inv.notBad, ?_, ?_, hstar_r, ?_⟩, hstart, hold, ?_, ?_, ?_⟩
  · intro q c' h
    have h : r.lab q = some c' := h
    show c' < (r.reps.push _).size
    rw [Array.size_push, hres.reps]
    rcases hres.inv.mono q with h' | h'
    · have := hu.labLt q c' (by rw [← h', h]); omega
    · rw [h'.2] at h; cases h; omega
  · intro x hx c' h
    show r.lab (nav.partner x).side = some c'
    have h : r.lab x.side = some c' := h
    by_cases hc : c' = u.reps.size
    · subst hc
      rcases hres.inv.closed x hx h with h' | h'
      · exact h'
      · simp at h'
    · rcases hres.inv.mono x.side with h' | h'
      · rw [h] at h'
        exact hold _ _ (hu.closed x hx c' h'.symm)
      · rw [h'.2] at h; exact absurd (Option.some.inj h).symm hc
  · intro i hi
    have hi' : i < r.reps.size + 1 := by simpa [Array.size_push] using hi
    show ∃ q : Nat × Bool, q.1 < nav.ops.size ∧ 0 < nav.nvAt q.1 ∧ (r.reps.push _)[i]! = nav.sideLeg q ∧
      r.lab q = some i ∧ ∀ q', r.lab q' = some i → NConn nav q q'
    rw [getElem!_push]
    by_cases hlt : i < r.reps.size
    · rw [if_pos hlt]
      have hlt' : i < u.reps.size := by rw [← hres.reps]; exact hlt
      obtain ⟨q, h1, h2, h3, h4, h5⟩ := hu.repsOK i hlt'
      refine ⟨q, h1, h2, by rw [hres.reps]; exact h3, hold _ _ h4, fun q' hq' => h5 q' ?_⟩
      rcases hres.inv.mono q' with h' | h'
      · rw [← h', hq']
      · rw [h'.2] at hq'; have := Option.some.inj hq'; omega
    · have : i = r.reps.size := by omega
      rw [if_neg hlt, if_pos this]
      exact ⟨(p, s), hp, hnv, rfl, by rw [this, hres.reps]; exact hstart,
        fun q' hq' => hres.inv2.conn q' (by rw [this, hres.reps] at hq'; exact hq')⟩
  · -- the termination measure
    have hgap : unl nav r + (2 * nav.nvAt p + 3) ≤ unl nav u := by
      unfold unl
      refine sum_gap _ _ p _ hp ?_ ?_
      · intro q
        unfold unlAt
        have m1 : (if 0 < nav.nvAt q ∧ r.lab (q, false) = none then 2 * nav.nvAt q + 3 else 0) ≤
            (if 0 < nav.nvAt q ∧ u.lab (q, false) = none then 2 * nav.nvAt q + 3 else 0) := by
          by_cases h : 0 < nav.nvAt q ∧ r.lab (q, false) = none
          · rw [if_pos h, if_pos ⟨h.1, hnone _ h.2⟩]
          · rw [if_neg h]; exact Nat.zero_le _
        have m2 : (if 0 < nav.nvAt q ∧ r.lab (q, true) = none then 2 * nav.nvAt q + 3 else 0) ≤
            (if 0 < nav.nvAt q ∧ u.lab (q, true) = none then 2 * nav.nvAt q + 3 else 0) := by
          by_cases h : 0 < nav.nvAt q ∧ r.lab (q, true) = none
          · rw [if_pos h, if_pos ⟨h.1, hnone _ h.2⟩]
          · rw [if_neg h]; exact Nat.zero_le _
        omega
      · unfold unlAt
        cases s
        · have a1 : ¬ (0 < nav.nvAt p ∧ r.lab (p, false) = none) := by rw [hstart]; simp
          have a2 : (0 < nav.nvAt p ∧ u.lab (p, false) = none) := ⟨hnv, hfree⟩
          have m2 : (if 0 < nav.nvAt p ∧ r.lab (p, true) = none then 2 * nav.nvAt p + 3 else 0) ≤
              (if 0 < nav.nvAt p ∧ u.lab (p, true) = none then 2 * nav.nvAt p + 3 else 0) := by
            by_cases h : 0 < nav.nvAt p ∧ r.lab (p, true) = none
            · rw [if_pos h, if_pos ⟨h.1, hnone _ h.2⟩]
            · rw [if_neg h]; exact Nat.zero_le _
          rw [if_neg a1, if_pos a2]; omega
        · have a1 : ¬ (0 < nav.nvAt p ∧ r.lab (p, true) = none) := by rw [hstart]; simp
          have a2 : (0 < nav.nvAt p ∧ u.lab (p, true) = none) := ⟨hnv, hfree⟩
          have m1 : (if 0 < nav.nvAt p ∧ r.lab (p, false) = none then 2 * nav.nvAt p + 3 else 0) ≤
              (if 0 < nav.nvAt p ∧ u.lab (p, false) = none then 2 * nav.nvAt p + 3 else 0) := by
            by_cases h : 0 < nav.nvAt p ∧ r.lab (p, false) = none
            · rw [if_pos h, if_pos ⟨h.1, hnone _ h.2⟩]
            · rw [if_neg h]; exact Nat.zero_le _
          rw [if_neg a1, if_pos a2]; omega
    have := hres.measure
    omega
  · intro e he
    rcases hres.front e he with h | h
    · exact Or.inl h
    · right
      exact ⟨h.2.1, by rw [hN.edge1 _ h.1]; exact Nat.one_pos, by rw [h.2.2]; rfl⟩
  · intro q s' hq hqnv hsome hn
    left
    obtain ⟨c'', hc''⟩ := Option.isSome_iff_exists.mp hsome
    by_cases hc : c'' = u.reps.size
    · rw [hc] at hc''
      cases hed : nav.isEdgeAt q
      · exfalso
        have := hstar_r q hq hqnv hed
        cases s'
        · simp only [Bool.not_false] at hn; rw [hc'', hn] at this; cases this
        · simp only [Bool.not_true] at hn; rw [hc'', hn] at this; cases this
      · rcases hres.inv2.half q s' hed hc'' hn with h | h
        · exact h
        · have e1 : q = p := (Prod.mk.inj h).1
          have e2 : s' = s := (Prod.mk.inj h).2
          rw [e1, e2] at hn ⊢
          exact hres.fsub _ (hsib (hnone _ hn))
    · have hu1 : u.lab (q, s') = some c'' := by
        rcases hres.inv.mono (q, s') with h' | h'
        · rw [← h', hc'']
        · rw [h'.2] at hc''; exact absurd (Option.some.inj hc'').symm hc
      rcases hhalf q s' hq hqnv (by rw [hu1]; rfl) (hnone _ hn) with h | h
      · exact hres.fsub _ h
      · exfalso
        have h : (q, !s') = (p, s) := h
        rw [h, hstart] at hn; cases hn

def Psi (nav : Nav) (t : Trav) : Nat := t.frontier.length + pend nav t + unl nav t

theorem travLoop_cons (ef fuel : Nat) (t : Trav) (p : Nat) (s : Bool) (rest : List (Nat × Bool))
    (h : t.frontier = (p, s) :: rest) :
    travLoop nav ef (fuel + 1) t =
      if ((t.bin[p]!).isSome && (t.bout[p]!).isSome) = true then travLoop nav ef fuel { t with frontier := rest }
      else travLoop nav ef fuel
        { expandWhole nav ef p s ({ t with frontier := rest } : Trav).reps.size { t with frontier := rest } with
          reps := (expandWhole nav ef p s ({ t with frontier := rest } : Trav).reps.size
            { t with frontier := rest }).reps.push (nav.sideLeg (p, s)) } := by
  rw [travLoop]
  simp only [h]
  rfl

theorem travLoop_nil (ef fuel : Nat) (t : Trav) (h : t.frontier = []) :
    travLoop nav ef (fuel + 1) t =
      match t.unmapped nav with
      | some p => travLoop nav ef fuel { t with frontier := [(p, false), (p, true)] }
      | none => t := by
  rw [travLoop]
  simp only [h]
  cases Trav.unmapped nav t <;> rfl

/-- popping one frontier entry -/
theorem travLoop_pop (hN : NavSpec nav) (ef : Nat) (hef : 2 * nav.nlegs + 1 ≤ ef) (fuel : Nat) (t : Trav)
    (hu : OutInv nav t) (p : Nat) (s : Bool) (rest : List (Nat × Bool)) (hfr : t.frontier = (p, s) :: rest)
    (hp : p < nav.ops.size) (hnv : 0 < nav.nvAt p)
    (hfree : ((t.lab (p, false)).isSome && (t.lab (p, true)).isSome) = false → t.lab (p, s) = none)
    (hboth : ((t.lab (p, false)).isSome && (t.lab (p, true)).isSome) = true → (t.lab (p, s)).isSome = true)
    (hrest : ∀ e ∈ rest, GOK nav t e ∨ e = (p, !s)) (hhalf : HalfOK nav t (fun _ => False))
    (hsib : t.lab (p, !s) = none → (p, !s) ∈ rest) :
    ∃ t'', travLoop nav ef (fuel + 1) t = travLoop nav ef fuel t'' ∧ OutInv nav t'' ∧
      (∀ e ∈ t''.frontier, GOK nav t'' e) ∧ HalfOK nav t'' (fun _ => False) ∧
      ((((t.lab (p, false)).isSome && (t.lab (p, true)).isSome) = true ∧ Psi nav t'' + 1 ≤ Psi nav t) ∨
        Psi nav t'' + 4 ≤ Psi nav t) := by
  rw [travLoop_cons ef fuel t p s rest hfr]
  have hbb : ((t.bin[p]!).isSome && (t.bout[p]!).isSome) = ((t.lab (p, false)).isSome && (t.lab (p, true)).isSome) := rfl
  rw [hbb]
  cases hb : ((t.lab (p, false)).isSome && (t.lab (p, true)).isSome)
  · -- a new cluster
    simp only [Bool.false_eq_true, if_false]
    have hu' : OutInv nav { t with frontier := rest } :=
      ⟨hu.sizeIn, hu.sizeOut, hu.notBad, hu.labLt, hu.closed, hu.star, hu.repsOK⟩
    have hhalf' : HalfOK nav { t with frontier := rest } (fun e => e = (p, s)) := by
      intro q s' hq hqnv hsome hn
      rcases hhalf q s' hq hqnv hsome hn with h | h
      · rw [hfr] at h
        rcases List.mem_cons.mp h with h | h
        · exact Or.inr h
        · exact Or.inl h
      · exact absurd h id
    obtain ⟨h1, h2, h3, h4, h5, h6⟩ := expand_from hN ef hef { t with frontier := rest } hu' p s hp hnv (hfree hb)
      hhalf' hsib
    refine ⟨_, rfl, h1, ?_, h6, Or.inr ?_⟩
    · intro e he
      rcases h5 e he with h | h
      · rcases hrest e h with h' | h'
        · refine ⟨h'.1, h'.2.1, ?_⟩
          obtain ⟨c', hc'⟩ := Option.isSome_iff_exists.mp h'.2.2
          show ((expandWhole nav ef p s ({ t with frontier := rest } : Trav).reps.size
            { t with frontier := rest }).lab (e.1, !e.2)).isSome = true
          rw [h3 _ c' hc']; rfl
        · refine ⟨by rw [h']; exact hp, by rw [h']; exact hnv, ?_⟩
          show ((expandWhole nav ef p s ({ t with frontier := rest } : Trav).reps.size
            { t with frontier := rest }).lab (e.1, !e.2)).isSome = true
          rw [h']
          simp only [Bool.not_not]
          rw [h2]; rfl
      · exact h
    · have e1 : Psi nav { t with frontier := rest } + 1 = Psi nav t := by
        unfold Psi
        have : pend nav { t with frontier := rest } = pend nav t := rfl
        have : unl nav { t with frontier := rest } = unl nav t := rfl
        simp only [hfr, List.length_cons]; omega
      have e2 : Psi nav { expandWhole nav ef p s ({ t with frontier := rest } : Trav).reps.size { t with frontier := rest } with
          reps := (expandWhole nav ef p s ({ t with frontier := rest } : Trav).reps.size
            { t with frontier := rest }).reps.push (nav.sideLeg (p, s)) } =
          Psi nav (expandWhole nav ef p s ({ t with frontier := rest } : Trav).reps.size { t with frontier := rest }) := rfl
      rw [e2]
      unfold Psi at e1 ⊢
      omega
  · simp only [if_true]
    refine ⟨_, rfl, ⟨hu.sizeIn, hu.sizeOut, hu.notBad, hu.labLt, hu.closed, hu.star, hu.repsOK⟩, ?_, ?_, Or.inl ⟨by simp, ?_⟩⟩
    · intro e he
      rcases hrest e he with h | h
      · exact h
      · refine ⟨by rw [h]; exact hp, by rw [h]; exact hnv, ?_⟩
        rw [h]; simp only [Bool.not_not]
        exact hboth hb
    · intro q s' hq hqnv hsome hn
      rcases hhalf q s' hq hqnv hsome hn with h | h
      · rw [hfr] at h
        rcases List.mem_cons.mp h with h | h
        · exfalso
          have hn' : t.lab (p, s) = none := by rw [← h]; exact hn
          have := hboth hb
          rw [hn'] at this; cases this
        · exact Or.inl h
      · exact absurd h id
    · unfold Psi
      have : pend nav { t with frontier := rest } = pend nav t := rfl
      have : unl nav { t with frontier := rest } = unl nav t := rfl
      simp only [hfr, List.length_cons]; omega

theorem unmapped_some (t : Trav) (p : Nat) (h : t.unmapped nav = some p) :
    p < nav.ops.size ∧ (nav.ops[p]!).isSome = true ∧ t.lab (p, false) = none ∧ t.lab (p, true) = none := by
  unfold Trav.unmapped at h
  have h1 := List.find?_some h
  have h2 := List.mem_of_find?_eq_some h
  simp only [Bool.and_eq_true, Option.isNone_iff_eq_none] at h1
  exact ⟨List.mem_range.mp h2, h1.1.1, h1.1.2, h1.2⟩

/-- **the outer loop**: from a state satisfying the invariant, with a frontier whose entries have their other side
labelled, and enough fuel, `travLoop` stops in a state satisfying the invariant (in particular not `bad`) -/
theorem travLoop_ok (hN : NavSpec nav) (ef : Nat) (hef : 2 * nav.nlegs + 1 ≤ ef) : ∀ (fuel : Nat) (t : Trav),
    OutInv nav t → (∀ e ∈ t.frontier, GOK nav t e) → HalfOK nav t (fun _ => False) → Psi nav t < fuel →
    OutInv nav (travLoop nav ef fuel t) ∧ HalfOK nav (travLoop nav ef fuel t) (fun _ => False) ∧
      (travLoop nav ef fuel t).frontier = [] ∧ (travLoop nav ef fuel t).unmapped nav = none := by
  intro fuel
  induction fuel using Nat.strong_induction_on with
  | _ fuel ih =>
    intro t hu hG hH hpsi
    cases fuel with
    | zero => exact absurd hpsi (Nat.not_lt_zero _)
    | succ fuel =>
      cases hfr : t.frontier with
      | cons e rest =>
        obtain ⟨p, s⟩ := e
        have hGe := hG (p, s) (by rw [hfr]; exact List.mem_cons_self ..)
        have hfree : ((t.lab (p, false)).isSome && (t.lab (p, true)).isSome) = false → t.lab (p, s) = none := by
          intro hb
          have h3 := hGe.2.2
          cases s
          · simp only [Bool.not_false] at h3
            rw [h3, Bool.and_true] at hb
            cases hl : t.lab (p, false) with
            | none => rfl
            | some _ => rw [hl] at hb; cases hb
          · simp only [Bool.not_true] at h3
            rw [h3, Bool.true_and] at hb
            cases hl : t.lab (p, true) with
            | none => rfl
            | some _ => rw [hl] at hb; cases hb
        have hboth : ((t.lab (p, false)).isSome && (t.lab (p, true)).isSome) = true → (t.lab (p, s)).isSome = true := by
          intro hb
          simp only [Bool.and_eq_true] at hb
          cases s
          · exact hb.1
          · exact hb.2
        obtain ⟨t'', heq, hu'', hG'', hH'', hm⟩ := travLoop_pop hN ef hef fuel t hu p s rest hfr hGe.1 hGe.2.1 hfree hboth
          (fun e he => Or.inl (hG e (by rw [hfr]; exact List.mem_cons_of_mem _ he))) hH
          (fun hn => by have := hGe.2.2; rw [hn] at this; cases this)
        rw [heq]
        exact ih fuel (Nat.lt_succ_self _) t'' hu'' hG'' hH'' (by rcases hm with h | h <;> omega)
      | nil =>
        rw [travLoop_nil ef fuel t hfr]
        cases hun : t.unmapped nav with
        | none => exact ⟨hu, hH, hfr, hun⟩
        | some p =>
          simp only
          obtain ⟨hp, hop, hl1, hl2⟩ := unmapped_some t p hun
          have hnv := hN.posVars p hp hop
          -- the measure is at least 6: two more iterations are available
          have hunl : 6 ≤ unl nav t := by
            unfold unl
            refine Nat.le_trans ?_ (Finset.single_le_sum (f := unlAt nav t) (fun _ _ => Nat.zero_le _)
              (Finset.mem_range.mpr hp))
            unfold unlAt
            rw [if_pos ⟨hnv, hl1⟩, if_pos ⟨hnv, hl2⟩]; omega
          have hpsi0 : Psi nav t = pend nav t + unl nav t := by unfold Psi; rw [hfr]; simp
          cases fuel with
          | zero => omega
          | succ fuel =>
            have hu2 : OutInv nav { t with frontier := [(p, false), (p, true)] } :=
              ⟨hu.sizeIn, hu.sizeOut, hu.notBad, hu.labLt, hu.closed, hu.star, hu.repsOK⟩
            have hlab2 : ∀ q, ({ t with frontier := [(p, false), (p, true)] } : Trav).lab q = t.lab q := fun _ => rfl
            have hH2 : HalfOK nav { t with frontier := [(p, false), (p, true)] } (fun _ => False) := by
              intro q s' hq hqnv hsome hn
              rcases hH q s' hq hqnv hsome hn with h | h
              · rw [hfr] at h; simp at h
              · exact absurd h id
            obtain ⟨t'', heq, hu'', hG'', hH'', hm⟩ := travLoop_pop hN ef hef fuel
              { t with frontier := [(p, false), (p, true)] } hu2 p false [(p, true)] rfl hp hnv
              (fun _ => by rw [hlab2]; exact hl1) (fun hb => by rw [hlab2, hl1] at hb; simp at hb)
              (fun e he => Or.inr (by simpa using he)) hH2 (fun _ => by simp)
            rw [heq]
            have hpsi2 : Psi nav { t with frontier := [(p, false), (p, true)] } = Psi nav t + 2 := by
              unfold Psi
              have : pend nav { t with frontier := [(p, false), (p, true)] } = pend nav t := rfl
              have : unl nav { t with frontier := [(p, false), (p, true)] } = unl nav t := rfl
              rw [hfr]; simp; omega
            refine ih fuel (by omega) t'' hu'' hG'' hH'' ?_
            rcases hm with h | h
            · rw [hlab2, hl1] at h; simp at h
            · omega

end step

end Qmc
