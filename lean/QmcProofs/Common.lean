/-
Lemmas about the shared model vocabulary (`QmcModel/Basic.lean`) that several areas need. Each used to be
declared once per area under the same name in `namespace Qmc` (sometimes with a different binder order),
which made the areas impossible to import together (design_notes/Cleanup.md). Core Lean only (no Mathlib:
`QmcProofs/Cluster.lean` and `QmcProofs/Worldline.lean` are Mathlib-free and import this file).

* `writeVars_length`  — was in Worldline.lean (this form) and Cluster.lean (`(vars) : ∀ vals st, …`).
* `readVars_length`   — was in Worldline.lean and HeatBath.lean, identical.
* `propagate_length`  — was in Worldline.lean (this form) and ClusterComponents.lean (explicit arguments).
The Mathlib-dependent shared lemma `genRangeF_nonneg` is in `QmcProofs/CommonRand.lean`.
-/
import QmcModel.Basic

namespace Qmc

theorem writeVars_length (st : List Bool) (vars : List Nat) (vals : List Bool) :
    (writeVars st vars vals).length = st.length := by
  unfold writeVars
  generalize vars.zip vals = z
  induction z generalizing st with
  | nil => rfl
  | cons x t ih => simp [List.foldl_cons, ih]

theorem readVars_length (st : List Bool) (vars : List Nat) : (readVars st vars).length = vars.length := by
  simp [readVars]

theorem propagate_length {st : List Bool} {s : Slots} {r : List Bool} (h : propagate st s = some r) :
    r.length = st.length := by
  induction s generalizing st with
  | nil => simp only [propagate, Option.some.injEq] at h; rw [h]
  | cons x t ih =>
    cases x with
    | none => exact ih (by simpa [propagate] using h)
    | some o =>
      simp only [propagate] at h
      cases ha : applyOp st o with
      | none => rw [ha] at h; cases h
      | some st1 =>
        rw [ha] at h
        have := ih h
        simp only [applyOp] at ha
        split at ha
        · simp only [Option.some.injEq] at ha
          rw [this, ← ha, writeVars_length]
        · cases ha

end Qmc
