/-
C11, global chain, steps 5–6 of Appendix B: `mutate_p` preserves the global invariant and
advances `last_p` to the scan cursor; `fill_args_at_p` produces the scan `last_p`; sweeps by
induction; growth.
-/
import QmcProofs.FastOpsGlobalCanon

namespace Qmc

/-- global invariant: every global pointer, `n`, `p_ends` and the bond counters are what a
direct scan of the slots gives -/
def GInv (nb : Option Nat) (c : FastOps) : Prop := c.g = canonG nb c.abs

theorem abs_canonG (nb : Option Nat) (s : Slots) : (canonG nb s).abs = s := by
  unfold canonG; rw [FastOps.abs_g, abs_canon]

@[simp] theorem length_abs (c : FastOps) : c.abs.length = c.ops.length := by simp [FastOps.abs]

theorem occ_abs (c : FastOps) (q : Nat) : occAt c.abs q = (c.getNode q).isSome := by
  unfold occAt; rw [slotAt_abs, FastOps.getPth]; cases c.getNode q <;> rfl

theorem writeA_length (s : Slots) (p : Nat) (new : Option (Option Op)) : (writeA s p new).length = s.length := by
  cases new <;> simp [writeA]

namespace FastOps

theorem advance_lastP (c : FastOps) (p : Nat) (a : Cursor) :
    (advance c p a).lastP = match c.getPth p with | none => a.lastP | some _ => some p := by
  unfold advance
  cases c.getPth p <;> rfl

theorem GInv_node {nb : Option Nat} {c : FastOps} (h : GInv nb c) {q : Nat} {nd : Node}
    (hq : c.getNode q = some nd) :
    nd.previousP = prevOcc (occAt c.abs) q ∧ nd.nextP = nextOcc (occAt c.abs) c.ops.length q := by
  have := congrArg (fun d => d.getNode q) h
  simp only [getNode_g, hq, getNode_canonG, slotAt_abs, getPth, Option.map_some] at this
  have e1 := congrArg Node.previousP (Option.some.inj this)
  have e2 := congrArg Node.nextP (Option.some.inj this)
  simp only [Node.g, canonNodeG, length_abs] at e1 e2
  exact ⟨e1, e2⟩

/-- Appendix B step 4/5 (global chain): one `mutate_p` -/
theorem mutatePWith_global {nb : Option Nat} {c : FastOps} {p : Nat} {new : Option (Option Op)}
    {a : Cursor} (h : GInv nb c) (hpL : p < c.ops.length) (ha : a.lastP = prevOcc (occAt c.abs) p) :
    GInv nb (mutatePWith c p new a).1 ∧ (mutatePWith c p new a).1.abs = writeA c.abs p new ∧
      (mutatePWith c p new a).2.lastP = prevOcc (occAt (writeA c.abs p new)) (p + 1) := by
  have key : ∀ c' : FastOps, GInv nb c' → c'.abs = writeA c.abs p new →
      (advance c' p a).lastP = prevOcc (occAt (writeA c.abs p new)) (p + 1) := by
    intro c' _ habs
    rw [advance_lastP, prevOcc_succ, ← habs, ← slotAt_abs]
    have hprev : prevOcc (occAt c'.abs) p = prevOcc (occAt c.abs) p := by
      rw [habs]
      cases new with
      | none => rfl
      | some x =>
        simp only [writeA]
        rw [occ_set _ _ _ (by simpa using hpL), prevOcc_upd_self]
    cases hs : slotAt c'.abs p with
    | none => simp [occAt, hs, hprev, ha]
    | some o => simp [occAt, hs]
  cases new with
  | none =>
    simp only [mutatePWith]
    exact ⟨h, rfl, key c h rfl⟩
  | some x =>
    simp only [mutatePWith]
    have hg : (change c p x a).g = canonG nb (c.abs.set p x) := by
      rw [change_g, h]
      exact changeG_canon nb c.abs p x a (by simpa using hpL) ha
    have habs : (change c p x a).abs = c.abs.set p x := by
      rw [← abs_g, hg, abs_canonG]
    have hG : GInv nb (change c p x a) := by
      unfold GInv; rw [hg, habs]
    exact ⟨hG, habs, key _ hG habs⟩

/-! ### `fill_args_at_p`: the `last_p` component -/

theorem foldl_lastP {α : Type} (f : Cursor → α → Cursor) (hf : ∀ a x, (f a x).lastP = a.lastP)
    (l : List α) (a : Cursor) : (l.foldl f a).lastP = a.lastP := by
  induction l generalizing a with
  | nil => rfl
  | cons x t ih => rw [List.foldl_cons, ih, hf]

theorem fillF_lastP (q : Nat) (node : Node) (a : Cursor) :
    (fillF q node a).1.lastP = if a.lastP.isNone then some q else a.lastP := by
  unfold fillF
  simp only []
  rw [foldl_lastP]
  · split <;> rfl
  · intro a x
    split
    · split <;> rfl
    · rfl

theorem fillAtP_lastP (node : Node) (a : Cursor) : (fillAtP node a).1.lastP = node.previousP := rfl

theorem fillWalk_lastP_some (c : FastOps) (fuel : Nat) (start : Option Nat) (a : Cursor)
    (h : a.lastP.isSome = true) : (fillWalk c fuel start a).lastP = a.lastP := by
  induction fuel generalizing start a with
  | zero => rfl
  | succ fuel ih =>
    cases start with
    | none => rfl
    | some q =>
      simp only [fillWalk]
      cases hq : c.getNode q with
      | none => rfl
      | some node =>
        simp only []
        have e : (fillF q node a).1.lastP = a.lastP := by
          rw [fillF_lastP]
          cases hl : a.lastP with
          | none => rw [hl] at h; cases h
          | some x => rfl
        split
        · rw [ih _ _ (by rw [e]; exact h), e]
        · exact e

theorem fillWalk_lastP_none (c : FastOps) (fuel : Nat) (q : Nat) (node : Node) (a : Cursor)
    (h : a.lastP = none) (hq : c.getNode q = some node) :
    (fillWalk c (fuel + 1) (some q) a).lastP = some q := by
  simp only [fillWalk, hq]
  have e : (fillF q node a).1.lastP = some q := by rw [fillF_lastP, h]; rfl
  split
  · rw [fillWalk_lastP_some _ _ _ _ (by rw [e]; rfl), e]
  · exact e

/-- `fill_args_at_p` finds the scan `last_p`, provided its early exit (`unfilled = 0`) is only
taken when there is no op below `p` (the one fact about `var_ends` the global chain needs) -/
theorem fillArgsAtP_lastP {nb : Option Nat} {c : FastOps} (h : GInv nb c) (p : Nat) (a : Cursor)
    (ha : a.lastP = none) (hu : a.unfilled = 0 → prevOcc (occAt c.abs) p = none) :
    (fillArgsAtP c p a).lastP = prevOcc (occAt c.abs) p := by
  unfold fillArgsAtP
  by_cases hu0 : a.unfilled > 0
  · simp only [hu0, if_true]
    cases hp : c.getNode p with
    | none =>
      simp only []
      have hs : scanDown c p = prevOcc (occAt c.abs) p := by
        unfold scanDown
        apply prevOcc_congr
        intro k; rw [occ_abs]
      rw [hs]
      cases hprev : prevOcc (occAt c.abs) p with
      | none => simp [fillWalk, ha]
      | some q =>
        obtain ⟨_, h2⟩ := prevOcc_lt hprev
        rw [occ_abs] at h2
        cases hq : c.getNode q with
        | none => rw [hq] at h2; cases h2
        | some node => exact fillWalk_lastP_none c p q node a ha hq
    | some node =>
      simp only []
      have hn := (GInv_node h hp).1
      split
      · cases hpp : node.previousP with
        | none => simp [fillWalk, fillAtP_lastP, hpp, ← hn]
        | some q =>
          rw [fillWalk_lastP_some _ _ _ _ (by rw [fillAtP_lastP, hpp]; rfl), fillAtP_lastP, ← hn, hpp]
      · rw [fillAtP_lastP, hn]
  · have : a.unfilled = 0 := by omega
    simp only [hu0, if_false, ha, hu this]

/-! ### sweeps -/

/-- `(pstart..pend).fold(mutate_p)` with a callback that observes the container only through
its global view -/
theorem sweepLoop_global {τ : Type} {nb : Option Nat}
    (f : FastOps → Option Op → τ → Option (Option Op) × τ)
    (hf : ∀ c o t, f c o t = f c.g o t) (nv : Nat) :
    ∀ (k p : Nat) (c : FastOps) (a : Cursor) (t : τ), GInv nb c → p + k ≤ c.ops.length →
      a.lastP = prevOcc (occAt c.abs) p →
      GInv nb (sweepLoop f p k c a t).1 ∧
        (sweepLoop f p k c a t).1.abs = (sweepLoopA nv nb f p k c.abs t).1 ∧
        (sweepLoop f p k c a t).2.2 = (sweepLoopA nv nb f p k c.abs t).2 := by
  intro k
  induction k with
  | zero => intro p c a t h _ _; exact ⟨h, rfl, rfl⟩
  | succ k ih =>
    intro p c a t h hk ha
    simp only [sweepLoop, sweepLoopA, mutateP]
    have hfe : f c (c.getPth p) t = f (canon nv nb c.abs) (slotAt c.abs p) t := by
      rw [hf c, hf (canon nv nb c.abs), canon_g, ← h, slotAt_abs]
    rw [← hfe]
    obtain ⟨h1, h2, h3⟩ := mutatePWith_global (new := (f c (c.getPth p) t).1) h (by omega) ha
    have := ih (p + 1) _ _ (f c (c.getPth p) t).2 h1
      (by rw [← length_abs, h2, writeA_length, length_abs]; omega) (by rw [h3, h2])
    rw [h2] at this
    exact this

theorem slotAt_append_none (s : Slots) (k q : Nat) : slotAt (s ++ List.replicate k none) q = slotAt s q := by
  unfold slotAt
  rw [List.getElem?_append]
  by_cases hq : q < s.length
  · rw [if_pos hq]
  · rw [if_neg hq, List.getElem?_replicate, List.getElem?_eq_none (Nat.le_of_not_lt hq)]
    split <;> rfl

theorem occ_append_none (s : Slots) (k : Nat) : occAt (s ++ List.replicate k none) = occAt s := by
  funext q; unfold occAt; rw [slotAt_append_none]

theorem getNode_append_none (c : FastOps) (k q : Nat) :
    ({ c with ops := c.ops ++ List.replicate k none } : FastOps).getNode q = c.getNode q := by
  simp only [getNode]
  rw [List.getElem?_append]
  by_cases hq : q < c.ops.length
  · rw [if_pos hq]
  · rw [if_neg hq, List.getElem?_replicate, List.getElem?_eq_none (Nat.le_of_not_lt hq)]
    split <;> rfl

theorem grow_global {nb : Option Nat} {c : FastOps} (h : GInv nb c) (k : Nat) :
    GInv nb (c.grow k) ∧ (c.grow k).abs = growA c.abs k := by
  unfold grow growA
  simp only [length_abs]
  by_cases hk : k > c.ops.length
  · simp only [hk, if_true]
    have habs : ({ c with ops := c.ops ++ List.replicate (k - c.ops.length) none } : FastOps).abs
        = c.abs ++ List.replicate (k - c.ops.length) none := by
      simp [abs]
    refine ⟨?_, habs⟩
    unfold GInv
    rw [habs]
    have hocc := occ_append_none c.abs (k - c.ops.length)
    have hout : ∀ q, c.abs.length ≤ q → occAt c.abs q = false := by
      intro q hq
      cases hh : occAt c.abs q with
      | false => rfl
      | true => have := occ_lt hh; omega
    have hL : c.abs.length ≤ (c.abs ++ List.replicate (k - c.ops.length) none).length := by simp
    apply ext'
    · simp
    · intro q hq
      rw [getNode_g, getNode_append_none, ← getNode_g, h, getNode_canonG, getNode_canonG, slotAt_append_none]
      cases slotAt c.abs q with
      | none => rfl
      | some op =>
        simp only [Option.map_some, canonNodeG, hocc]
        rw [nextOcc_extend hL hout]
    · have := congrArg FastOps.n h
      simp only [g_n, n_canonG] at this ⊢
      rw [this, countOps_append_none]
    · have := congrArg FastOps.pEnds h
      simp only [g_pEnds, pEnds_canonG] at this ⊢
      rw [this]
      simp only [canonEnds, hocc]
      rw [firstOcc_extend hL hout, lastOcc_extend hL hout]
    · rfl
    · have := congrArg FastOps.bondCounters h
      simp only [g_bc, bc_canonG] at this ⊢
      rw [this]
      congr 1
      funext kk
      apply List.map_congr_left
      intro b _
      rw [countBond_append_none]
  · simp only [hk, if_false]
    exact ⟨h, trivial⟩

end FastOps
end Qmc
