/-
Whole-timestep theorems, bridge: the hypotheses on the two spin-only kernels of a `timestep`
(QmcModel/SamplerCore.lean: `ClusterK`, `LoopK`) in the vocabulary of QmcModel/Basic.lean and
QmcProofs/RefinementBridge.lean only, so that the C09 side (QmcProofs/SamplerCluster.lean, proves them for
the exact `clusterUpdate`) and the C06/C07/C12 side (QmcProofs/SamplerStep.lean, uses them) state the SAME
propositions although no Lean file can import both sides (`Qmc.maskOp`, `Qmc.maskSlots`, `Qmc.Leg`,
`Qmc.absR` are declared twice — see design_notes/FullStep.md).
-/
import QmcProofs.RefinementBridge
import QmcModel.Rand

namespace Qmc.Sampler
open Qmc Qmc.Refine

/-- structural validity of the stored operators: legs match variables, variables distinct and in range
(C09's `ShapeOk ∧ NodupVars`; implied by C07's `Legal` for a well-formed Hamiltonian) -/
def Shape (c : Config) : Prop :=
  ∀ o, some o ∈ c.slots → o.ins.length = o.vars.length ∧ o.outs.length = o.vars.length ∧ o.vars.Nodup ∧
    ∀ v ∈ o.vars, v < c.state.length

/-- every stored operator is a term of `H` with positive matrix element (the part of C07's `Legal`
the weight argument of the cluster update needs) -/
def StoredOk (H : Ham) (c : Config) : Prop :=
  ∀ o, some o ∈ c.slots → o.bond < H.nbonds ∧ o.vars = H.vars o.bond ∧ o.const = H.const o.bond ∧
    0 < H.w o.bond o.ins o.outs

/-- what the cluster kernel of a `timestep` has to deliver on structurally valid strings of `H`:
a certified spin-only update (`FlipCert`) that keeps every changed matrix element positive -/
def ClusterCert (H : Ham) (K : Config → RS → Config × RS) : Prop :=
  ∀ c rs, Shape c → StoredOk H c → FlipCert c (K c rs).1 ∧ KeepsWeight H c.slots (K c rs).1.slots

end Qmc.Sampler
