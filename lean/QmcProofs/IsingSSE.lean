/-
C01 (T1): the bond operators of the Ising sampler sum to `C·1 − H`.

For the model's `isingHam m` (QmcModel/Ham.lean, tied to qmc_ising.rs by the C15/C01 correspondence)
and basis states `s, s'` (lists of `N` booleans, `true` = spin up = σ = +1):
  * `total_diag`    : Σ_b ⟨s|M_b|s⟩  = C − E_cl(s),  E_cl = Σ_edges J σ_a σ_b − h Σ_i σ_i,
                      C = `m.offset` = Σ|J| + N(Γ + |h|)   (= `total_energy_offset`)
  * `total_offdiag` : for s' ≠ s, Σ_b ⟨s'|M_b|s⟩ = Γ · #{i : s' = s with spin i flipped}
                      = −⟨s'|H|s⟩ for H's transverse part −Γ Σ_i σx_i.
Hence `Σ_b M_b = C − H` with `H = Σ J σz σz − Γ Σ σx − h Σ σz`, the Hamiltonian named in C01.
-/
import QmcModel.Ham
import Mathlib.Tactic.Ring
import Mathlib.Tactic.Linarith
import Mathlib.Algebra.Order.Field.Rat
import Mathlib.Algebra.BigOperators.Group.List.Basic

namespace Qmc.IsingSSE
open Qmc

/-- spin value of a boolean -/
def sigma (b : Bool) : Rat := if b then 1 else -1

def spinAt (s : List Bool) (i : Nat) : Rat := sigma (s.getD i false)

/-- the two states agree at every variable outside `vars` (and have equal length) -/
def agreeOff (vars : List Nat) (s s' : List Bool) : Bool :=
  s.length == s'.length &&
    (List.range s.length).all (fun i => vars.contains i || s.getD i false == s'.getD i false)

/-- matrix element `⟨s'|M_b|s⟩` of bond operator `b` between full basis states -/
def opEntry (H : Ham) (b : Nat) (s s' : List Bool) : Rat :=
  if agreeOff (H.vars b) s s' then H.w b (readVars s (H.vars b)) (readVars s' (H.vars b)) else 0

/-- `⟨s'| Σ_b M_b |s⟩` -/
def totalEntry (H : Ham) (s s' : List Bool) : Rat :=
  ((List.range H.nbonds).map (fun b => opEntry H b s s')).sum

/-- classical part of the energy: `Σ_edges J σ_a σ_b − h Σ_i σ_i` -/
def Ecl (m : IsingModel) (s : List Bool) : Rat :=
  (m.edges.map (fun e => e.2 * spinAt s (e.1.getD 0 0) * spinAt s (e.1.getD 1 0))).sum
    - m.longitudinal * ((List.range m.nvars).map (spinAt s)).sum

/-- every edge is a pair of variables (the constructor builds `vec![a, b]`) -/
def EdgesWF (m : IsingModel) : Prop := ∀ e ∈ m.edges, ∃ a b, e.1 = [a, b]

theorem agreeOff_self (vars : List Nat) (s : List Bool) : agreeOff vars s s = true := by
  simp [agreeOff]

theorem sum_range_getElem {α : Type} (l : List α) (f : Nat → Option α → Rat) :
    ((List.range l.length).map (fun i => f i l[i]?)).sum
      = ((List.range l.length).zip l |>.map (fun p => f p.1 (some p.2))).sum := by
  congr 1
  apply List.ext_getElem
  · simp
  · intro i h1 h2
    simp at h1 h2
    simp [List.getElem?_eq_getElem h1]

theorem two_site_diag (a b : Bool) (j : Rat) :
    twoSiteHamiltonian a b a b j = absR j - j * sigma a * sigma b := by
  unfold twoSiteHamiltonian sigma
  cases a <;> cases b <;> simp <;> ring

theorem long_diag (a : Bool) (h : Rat) :
    longitudinalHamiltonian a a h = absR h + h * sigma a := by
  unfold longitudinalHamiltonian sigma
  cases a <;> simp <;> ring


theorem sum_range_add (f : Nat → Rat) (a b : Nat) :
    ((List.range (a + b)).map f).sum
      = ((List.range a).map f).sum + ((List.range b).map (fun i => f (a + i))).sum := by
  rw [List.range_add, List.map_append, List.sum_append, List.map_map]
  rfl

theorem sum_map_congr {α : Type} (l : List α) (f g : α → Rat) (h : ∀ x ∈ l, f x = g x) :
    (l.map f).sum = (l.map g).sum := by
  rw [List.map_congr_left h]

theorem sum_map_add {α : Type} (l : List α) (f g : α → Rat) :
    (l.map (fun x => f x + g x)).sum = (l.map f).sum + (l.map g).sum := by
  induction l with
  | nil => simp
  | cons a t ih => simp [ih]; ring

theorem sum_map_const {α : Type} (l : List α) (c : Rat) :
    (l.map (fun _ => c)).sum = l.length * c := by
  induction l with
  | nil => simp
  | cons a t ih => simp [ih]; ring

theorem sum_map_mul_left {α : Type} (l : List α) (c : Rat) (f : α → Rat) :
    (l.map (fun x => c * f x)).sum = c * (l.map f).sum := by
  induction l with
  | nil => simp
  | cons a t ih => simp [ih]; ring

/-- sum over indices of a list = sum over its elements -/
theorem sum_range_index {α : Type} (l : List α) (d : α) (f : α → Rat) :
    ((List.range l.length).map (fun i => f (l[i]?.getD d))).sum = (l.map f).sum := by
  induction l with
  | nil => simp
  | cons a t ih =>
    rw [List.length_cons, List.range_succ_eq_map, List.map_cons, List.map_map, List.sum_cons,
      List.map_cons, List.sum_cons]
    simp only [List.getElem?_cons_zero, Option.getD_some]
    congr 1

variable (m : IsingModel) (s : List Bool)

theorem edge_entry (hwf : EdgesWF m) (b : Nat) (hb : b < m.edges.length) :
    opEntry (isingHam m) b s s
      = (fun e : List Nat × Rat => absR e.2 - e.2 * spinAt s (e.1.getD 0 0) * spinAt s (e.1.getD 1 0))
          (m.edges[b]?.getD ([], 0)) := by
  have hnb : b < m.numBonds := by unfold IsingModel.numBonds; omega
  obtain ⟨x, y, hxy⟩ := hwf m.edges[b] (List.getElem_mem hb)
  unfold opEntry
  rw [agreeOff_self]
  simp only [isingHam, hnb, if_true, IsingModel.bondVars, IsingModel.hamiltonian, hb,
    List.getElem?_eq_getElem hb, Option.map_some, Option.getD_some, hxy]
  simp only [readVars, List.map_cons, List.map_nil]
  rw [two_site_diag]
  simp [spinAt]

theorem transverse_entry (i : Nat) (hi : i < m.nvars) :
    opEntry (isingHam m) (m.edges.length + i) s s = m.transverse := by
  have hnb : m.edges.length + i < m.numBonds := by unfold IsingModel.numBonds; omega
  unfold opEntry
  rw [agreeOff_self]
  have h1 : ¬ (m.edges.length + i < m.edges.length) := by omega
  have h2 : m.edges.length + i < m.edges.length + m.nvars := by omega
  simp [isingHam, hnb, IsingModel.bondVars, IsingModel.hamiltonian, h1, h2, readVars,
    transverseHamiltonian]

theorem field_entry (hf : m.hasField = true) (i : Nat) (hi : i < m.nvars) :
    opEntry (isingHam m) (m.edges.length + m.nvars + i) s s
      = absR m.longitudinal + m.longitudinal * spinAt s i := by
  have hnb : m.edges.length + m.nvars + i < m.numBonds := by
    unfold IsingModel.numBonds; simp [hf]; omega
  unfold opEntry
  rw [agreeOff_self]
  have h1 : ¬ (m.edges.length + m.nvars + i < m.edges.length) := by omega
  have h2 : ¬ (m.edges.length + m.nvars + i < m.edges.length + m.nvars) := by omega
  have h3 : m.edges.length + m.nvars + i < m.edges.length + 2 * m.nvars := by omega
  have h4 : m.edges.length + m.nvars + i - m.nvars - m.edges.length = i := by omega
  simp only [isingHam, hnb, if_true, IsingModel.bondVars, IsingModel.hamiltonian, h1, h2, h3,
    if_false, h4, readVars, List.map_cons, List.map_nil]
  rw [long_diag]; rfl

/-- **Diagonal of Σ_b M_b**: `C − E_cl(s)`, for `h = 0` or `|h| > eps` (a field with
`0 < |h| ≤ 2^-52` is ignored by the sampler: no field bonds are created). -/
theorem total_diag (hwf : EdgesWF m) (hh : m.longitudinal = 0 ∨ m.hasField = true) :
    totalEntry (isingHam m) s s = m.offset - Ecl m s := by
  unfold totalEntry
  have hn : (isingHam m).nbonds = m.edges.length + m.nvars + (if m.hasField then m.nvars else 0) := rfl
  rw [hn, sum_range_add, sum_range_add]
  -- edges
  have hE : ((List.range m.edges.length).map (fun b => opEntry (isingHam m) b s s)).sum
      = (m.edges.map (fun e => absR e.2)).sum
        - (m.edges.map (fun e => e.2 * spinAt s (e.1.getD 0 0) * spinAt s (e.1.getD 1 0))).sum := by
    rw [sum_map_congr _ _ _ (fun b hb => edge_entry m s hwf b (by simpa using hb))]
    rw [sum_range_index m.edges ([], 0)
      (fun e => absR e.2 - e.2 * spinAt s (e.1.getD 0 0) * spinAt s (e.1.getD 1 0))]
    have := sum_map_add m.edges (fun e => absR e.2)
      (fun e => -(e.2 * spinAt s (e.1.getD 0 0) * spinAt s (e.1.getD 1 0)))
    simp only [← sub_eq_add_neg] at this
    rw [this]
    have h2 := sum_map_mul_left m.edges (-1)
      (fun e => e.2 * spinAt s (e.1.getD 0 0) * spinAt s (e.1.getD 1 0))
    simp only [neg_one_mul] at h2
    rw [h2]; ring
  -- transverse
  have hT : ((List.range m.nvars).map (fun i => opEntry (isingHam m) (m.edges.length + i) s s)).sum
      = m.nvars * m.transverse := by
    rw [sum_map_congr _ _ _ (fun i hi => transverse_entry m s i (by simpa using hi))]
    rw [sum_map_const]; simp
  rw [hE, hT]
  unfold IsingModel.offset Ecl
  cases hf : m.hasField with
  | true =>
    simp only [if_true]
    rw [sum_map_congr _ _ _ (fun i hi => field_entry m s hf i (by simpa using hi))]
    rw [sum_map_add, sum_map_const, sum_map_mul_left]
    simp only [List.length_range]
    ring
  | false =>
    have h0 : m.longitudinal = 0 := by
      rcases hh with h | h
      · exact h
      · rw [hf] at h; cases h
    simp [h0, absR]
    ring


theorem eq_of_agreeOff {vars : List Nat} {s s' : List Bool} (h : agreeOff vars s s' = true)
    (hv : ∀ v ∈ vars, s.getD v false = s'.getD v false) : s = s' := by
  unfold agreeOff at h
  simp only [Bool.and_eq_true, beq_iff_eq, List.all_eq_true, List.mem_range, Bool.or_eq_true] at h
  apply List.ext_getElem h.1
  intro i h1 h2
  have := h.2 i h1
  rcases this with hc | he
  · have := hv i (by simpa using hc)
    simpa [List.getD_eq_getElem?_getD, List.getElem?_eq_getElem h1, List.getElem?_eq_getElem h2] using this
  · simpa [List.getD_eq_getElem?_getD, List.getElem?_eq_getElem h1, List.getElem?_eq_getElem h2] using he

variable (s' : List Bool)

theorem edge_entry_off (hwf : EdgesWF m) (hne : s ≠ s') (b : Nat) (hb : b < m.edges.length) :
    opEntry (isingHam m) b s s' = 0 := by
  have hnb : b < m.numBonds := by unfold IsingModel.numBonds; omega
  obtain ⟨x, y, hxy⟩ := hwf m.edges[b] (List.getElem_mem hb)
  unfold opEntry
  split
  · rename_i hag
    simp only [isingHam, hnb, if_true, IsingModel.bondVars, IsingModel.hamiltonian, hb,
      List.getElem?_eq_getElem hb, Option.map_some, Option.getD_some, hxy] at hag ⊢
    simp only [readVars, List.map_cons, List.map_nil]
    unfold twoSiteHamiltonian
    split
    · rename_i heq
      exfalso; apply hne
      apply eq_of_agreeOff hag
      intro v hv
      simp at hv
      rcases hv with rfl | rfl
      · exact heq.1
      · exact heq.2
    · rfl
  · rfl

theorem transverse_entry_off (i : Nat) (hi : i < m.nvars) :
    opEntry (isingHam m) (m.edges.length + i) s s'
      = if agreeOff [i] s s' then m.transverse else 0 := by
  have hnb : m.edges.length + i < m.numBonds := by unfold IsingModel.numBonds; omega
  have h1 : ¬ (m.edges.length + i < m.edges.length) := by omega
  have h2 : m.edges.length + i < m.edges.length + m.nvars := by omega
  unfold opEntry
  simp [isingHam, hnb, IsingModel.bondVars, IsingModel.hamiltonian, h1, h2, readVars,
    transverseHamiltonian]

theorem field_entry_off (hf : m.hasField = true) (hne : s ≠ s') (i : Nat) (hi : i < m.nvars) :
    opEntry (isingHam m) (m.edges.length + m.nvars + i) s s' = 0 := by
  have hnb : m.edges.length + m.nvars + i < m.numBonds := by
    unfold IsingModel.numBonds; simp [hf]; omega
  have h1 : ¬ (m.edges.length + m.nvars + i < m.edges.length) := by omega
  have h2 : ¬ (m.edges.length + m.nvars + i < m.edges.length + m.nvars) := by omega
  have h3 : m.edges.length + m.nvars + i < m.edges.length + 2 * m.nvars := by omega
  have h4 : m.edges.length + m.nvars + i - m.nvars - m.edges.length = i := by omega
  unfold opEntry
  split
  · rename_i hag
    simp only [isingHam, hnb, if_true, IsingModel.bondVars, IsingModel.hamiltonian, h1, h2, h3,
      if_false, h4, readVars, List.map_cons, List.map_nil] at hag ⊢
    unfold longitudinalHamiltonian
    have hdiff : s.getD i false ≠ s'.getD i false := by
      intro heq; apply hne
      apply eq_of_agreeOff hag
      intro v hv; simp at hv; rw [hv]; exact heq
    cases ha : s.getD i false <;> cases hb : s'.getD i false <;> simp_all
  · rfl

/-- **Off-diagonal of Σ_b M_b**: `Γ` for every site `i` such that `s'` is `s` with spin `i`
flipped (at most one such site), nothing else — i.e. `−⟨s'|H|s⟩` for `H ∋ −Γ Σ σx_i`. -/
theorem total_offdiag (hwf : EdgesWF m) (hne : s ≠ s') :
    totalEntry (isingHam m) s s'
      = m.transverse * ((List.range m.nvars).filter (fun i => agreeOff [i] s s')).length := by
  unfold totalEntry
  have hn : (isingHam m).nbonds = m.edges.length + m.nvars + (if m.hasField then m.nvars else 0) := rfl
  rw [hn, sum_range_add, sum_range_add]
  have hE : ((List.range m.edges.length).map (fun b => opEntry (isingHam m) b s s')).sum = 0 := by
    rw [sum_map_congr _ _ (fun _ => 0) (fun b hb => edge_entry_off m s s' hwf hne b (by simpa using hb))]
    simp
  have hF : ((List.range (if m.hasField then m.nvars else 0)).map
      (fun i => opEntry (isingHam m) (m.edges.length + m.nvars + i) s s')).sum = 0 := by
    cases hf : m.hasField with
    | true =>
      simp only [if_true]
      rw [sum_map_congr _ _ (fun _ => 0) (fun i hi => field_entry_off m s s' hf hne i (by simpa using hi))]
      simp
    | false => simp
  rw [hE, hF, sum_map_congr _ _ _ (fun i hi => transverse_entry_off m s s' i (by simpa using hi))]
  simp only [zero_add, add_zero]
  generalize List.range m.nvars = l
  induction l with
  | nil => simp
  | cons a t ih =>
    simp only [List.map_cons, List.sum_cons, List.filter_cons]
    rw [ih]
    split <;> simp <;> ring

end Qmc.IsingSSE
