/-
`Good H c` — THE predicate that cuts the finite configuration space `Kernel.cfgSpace H N L` down to the
configurations that carry SSE weight: consistent world lines and legal operators.

SHARED DEFINITION, ONE PLACE.  Two developments meet here and must talk about the same set:
  * `QmcProofs/ConfigMarginal*.lean` (a-marginal): the marginal of `configWeight · 1_Good` on the spin state is the
    diagonal of the Taylor polynomial of `e^{β(C−H)}` (C01, T1–T3, `QmcProps/C01Capstone.lean`);
  * `QmcProofs/KernelInvarianceCut.lean` (a-kernel): one `timestep` leaves `configWeight · 1_Good` invariant.
**a-kernel may change this definition** (e.g. add a conjunct) if the invariance proof needs it; the marginal side only
uses the three consequences listed under "what the marginal side needs" below, so a change that keeps them costs one
line there.  Nothing else should be defined in this file; it imports model files only (no Mathlib), so that every proof
file can import it.

`Good H c := Consistent c ∧ Legal H c` with the project's existing predicates, nothing new:
  * `Consistent c` (QmcModel/Basic.lean; `OpContainer::verify`): propagating `c.state` through the operator string
    meets every operator's recorded inputs and returns to `c.state` (periodic world lines);
  * `Legal H c` (QmcModel/Worldline.lean; C07): every stored operator is a term of `H` (`bond < H.nbonds`,
    `vars = H.vars bond`, `const = H.const bond`), has the CANONICAL TAG (`tagDiag = true ↔ ins = outs`), is well formed
    (`Op.WF`: one input and one output value per variable, distinct variables, `tagDiag → outs = ins`) and has a
    POSITIVE matrix element `0 < H.w bond ins outs`.

What the marginal side needs (`QmcProofs/ConfigMarginal.lean`, `good_iff_struct`): for `c ∈ cfgSpace H N L` and `H` with
distinct in-range variables (`Kernel.VarsOK H N`),
  `Good H c ↔ Consistent c ∧ (∀ o, some o ∈ c.slots → o.tagDiag = decide (o.ins = o.outs)) ∧
              (∀ o, some o ∈ c.slots → 0 < H.w o.bond o.ins o.outs)`,
i.e. on the configuration space `Good` = consistent ∧ canonical tags ∧ positive weight.  Positivity could be dropped
without changing any sum when `H.w ≥ 0` (configurations with a zero matrix element have `configWeight = 0`); it is kept
because `Legal` has it and the kernels never create a zero-weight operator.
-/
import QmcModel.Worldline
import QmcModel.Cluster

namespace Qmc

/-- the support of the SSE measure inside the configuration space: consistent world lines, legal operators
(terms of `H`, canonical tag, positive matrix element) -/
def Good (H : Ham) (c : Config) : Prop := Consistent c ∧ Legal H c

theorem Good.consistent {H : Ham} {c : Config} (h : Good H c) : Consistent c := h.1

theorem Good.legal {H : Ham} {c : Config} (h : Good H c) : Legal H c := h.2

theorem mem_slots_of_mem_opsOf : ∀ {s : Slots} {o : Op}, o ∈ opsOf s → some o ∈ s
  | [], _, h => by simp [opsOf] at h
  | none :: t, o, h => by
    simp only [opsOf] at h; exact List.mem_cons_of_mem _ (mem_slots_of_mem_opsOf h)
  | some o' :: t, o, h => by
    simp only [opsOf, List.mem_cons] at h
    rcases h with rfl | h
    · simp
    · exact List.mem_cons_of_mem _ (mem_slots_of_mem_opsOf h)

/-- canonical tags in the form of C06/C07/Refinement (`Refine.TagCanonS`) -/
theorem Good.tag {H : Ham} {c : Config} (h : Good H c) :
    ∀ o, some o ∈ c.slots → o.tagDiag = decide (o.ins = o.outs) := by
  intro o ho
  have := (h.2 o ho).2.2.2.1
  cases ht : o.tagDiag
  · have : ¬ o.ins = o.outs := fun e => by rw [this.mpr e] at ht; cases ht
    simp [this]
  · simp [this.mp ht]

/-- canonical tags in the form of C09 / the cluster kernels (`TagCanon`, QmcModel/Cluster.lean) -/
theorem Good.tagCanon {H : Ham} {c : Config} (h : Good H c) : TagCanon c.slots := by
  intro o ho
  rw [h.tag o (mem_slots_of_mem_opsOf ho)]
  by_cases e : o.ins = o.outs <;> simp [e]

end Qmc
