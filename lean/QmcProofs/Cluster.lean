/-
Helper lemmas for C09 (cluster update as a relation): decider soundness/completeness,
skeleton preservation, weight preservation, symmetry, consistency preservation.
-/
import QmcModel.Cluster

namespace Qmc

/-! ### generic facts about `PairAll` -/

theorem PairAll.mono {P Q : Op → Op → Prop} (h : ∀ x y, P x y → Q x y) :
    ∀ {sb sa : Slots}, PairAll P sb sa → PairAll Q sb sa
  | [], [], _ => trivial
  | [], _ :: _, h' => by simp [PairAll] at h'
  | _ :: _, [], h' => by cases ‹Option Op› <;> simp [PairAll] at h'
  | none :: tb, none :: ta, h' => by
    simp only [PairAll] at h' ⊢; exact PairAll.mono h h'
  | none :: tb, some _ :: ta, h' => by simp [PairAll] at h'
  | some _ :: tb, none :: ta, h' => by simp [PairAll] at h'
  | some ob :: tb, some oa :: ta, h' => by
    simp only [PairAll] at h' ⊢; exact ⟨h _ _ h'.1, PairAll.mono h h'.2⟩

theorem pairAllB_iff {f : Op → Op → Bool} {P : Op → Op → Prop} (h : ∀ x y, f x y = true ↔ P x y) :
    ∀ (sb sa : Slots), pairAllB f sb sa = true ↔ PairAll P sb sa
  | [], [] => by simp [pairAllB, PairAll]
  | [], _ :: _ => by simp [pairAllB, PairAll]
  | none :: _, [] => by simp [pairAllB, PairAll]
  | some _ :: _, [] => by simp [pairAllB, PairAll]
  | none :: tb, none :: ta => by simp only [pairAllB, PairAll]; exact pairAllB_iff h tb ta
  | none :: tb, some _ :: ta => by simp [pairAllB, PairAll]
  | some _ :: tb, none :: ta => by simp [pairAllB, PairAll]
  | some ob :: tb, some oa :: ta => by
    simp only [pairAllB, PairAll, Bool.and_eq_true, h, pairAllB_iff h tb ta]

theorem PairAll.length_eq {P : Op → Op → Prop} :
    ∀ {sb sa : Slots}, PairAll P sb sa → sa.length = sb.length
  | [], [], _ => rfl
  | [], _ :: _, h' => by simp [PairAll] at h'
  | none :: _, [], h' => by simp [PairAll] at h'
  | some _ :: _, [], h' => by simp [PairAll] at h'
  | none :: tb, none :: ta, h' => by
    simp only [PairAll] at h'; simp [PairAll.length_eq h']
  | none :: tb, some _ :: ta, h' => by simp [PairAll] at h'
  | some _ :: tb, none :: ta, h' => by simp [PairAll] at h'
  | some ob :: tb, some oa :: ta, h' => by
    simp only [PairAll] at h'; simp [PairAll.length_eq h'.2]

/-- position-indexed reading of `PairAll` -/
theorem PairAll.get {P : Op → Op → Prop} :
    ∀ {sb sa : Slots}, PairAll P sb sa → ∀ p : Nat,
      (sb[p]? = some none → sa[p]? = some none) ∧
      (∀ ob, sb[p]? = some (some ob) → ∃ oa, sa[p]? = some (some oa) ∧ P ob oa)
  | [], [], _, p => by simp
  | [], _ :: _, h', _ => by simp [PairAll] at h'
  | none :: _, [], h', _ => by simp [PairAll] at h'
  | some _ :: _, [], h', _ => by simp [PairAll] at h'
  | none :: tb, none :: ta, h', p => by
    simp only [PairAll] at h'
    cases p with
    | zero => simp
    | succ p => simpa using PairAll.get h' p
  | none :: tb, some _ :: ta, h', _ => by simp [PairAll] at h'
  | some _ :: tb, none :: ta, h', _ => by simp [PairAll] at h'
  | some ob :: tb, some oa :: ta, h', p => by
    simp only [PairAll] at h'
    cases p with
    | zero => simpa using h'.1
    | succ p => simpa using PairAll.get h'.2 p

/-! ### the decider -/

theorem opOkB_iff (fr : SkOp → Bool) (ob oa : Op) : opOkB fr ob oa = true ↔ OpOk fr ob oa := by
  constructor
  · intro h
    simp only [opOkB, Bool.and_eq_true, Bool.or_eq_true, beq_iff_eq, Bool.not_eq_true'] at h
    obtain ⟨⟨⟨⟨⟨⟨⟨⟨h1, h2⟩, h3⟩, h4⟩, h5⟩, h6⟩, h7⟩, h8⟩, h9⟩ := h
    refine ⟨h1, h2, h3, h4, h5, h6, h7, ?_, ?_⟩
    · intro he
      rcases h8 with h8 | h8
      · rw [he] at h8; cases h8
      · exact h8
    · intro he hf
      rcases h9 with (h9 | h9) | h9
      · rw [he] at h9; cases h9
      · rw [hf] at h9; cases h9
      · exact h9
  · intro h
    simp only [opOkB, Bool.and_eq_true, Bool.or_eq_true, beq_iff_eq, Bool.not_eq_true']
    refine ⟨⟨⟨⟨⟨⟨⟨⟨h.vars, h.bond⟩, h.const⟩, h.insB⟩, h.outsB⟩, h.insA⟩, h.outsA⟩, ?_⟩, ?_⟩
    · cases he : ob.isEdge
      · exact Or.inr (h.closed he)
      · exact Or.inl rfl
    · cases he : ob.isEdge
      · cases hf : fr ob.sk
        · exact Or.inl (Or.inr rfl)
        · exact Or.inr (h.frozen he hf)
      · exact Or.inl (Or.inl rfl)

theorem idleB_iff (b a : Config) (hl : a.state.length = b.state.length) :
    idleB b a = true ↔ ∀ v, varHasOp (skeleton b.slots) v = false → a.state[v]? = b.state[v]? := by
  simp only [idleB, List.all_eq_true, List.mem_range, Bool.or_eq_true, beq_iff_eq]
  constructor
  · intro h v hv
    by_cases hlt : v < b.state.length
    · rcases h v hlt with h' | h'
      · rw [hv] at h'; cases h'
      · exact h'
    · have h1 : b.state.length ≤ v := Nat.le_of_not_lt hlt
      rw [List.getElem?_eq_none h1, List.getElem?_eq_none (hl ▸ h1)]
  · intro h v _
    cases hv : varHasOp (skeleton b.slots) v
    · exact Or.inr (h v hv)
    · exact Or.inl rfl

theorem isClusterMove_iff (fr : SkOp → Bool) (b a : Config) :
    isClusterMove fr b a = true ↔ ClusterMove fr b a := by
  constructor
  · intro h
    simp only [isClusterMove, Bool.and_eq_true, beq_iff_eq, decide_eq_true_eq] at h
    obtain ⟨⟨⟨h1, h2⟩, h3⟩, h4⟩ := h
    exact ⟨(pairAllB_iff (opOkB_iff fr) _ _).1 h1, h2, h3, (idleB_iff b a h2).1 h4⟩
  · intro h
    simp only [isClusterMove, Bool.and_eq_true, beq_iff_eq, decide_eq_true_eq]
    exact ⟨⟨⟨(pairAllB_iff (opOkB_iff fr) _ _).2 h.ops, h.stateLen⟩, h.linkClosed⟩,
      (idleB_iff b a h.stateLen).2 h.idle⟩

/-! ### the skeleton is unchanged -/

theorem OpOk.sk_eq {fr : SkOp → Bool} {ob oa : Op} (h : OpOk fr ob oa) : oa.sk = ob.sk := by
  simp [Op.sk, h.vars, h.bond, h.const]

theorem PairAll.skeleton_eq {P : Op → Op → Prop} (hP : ∀ x y, P x y → y.sk = x.sk) :
    ∀ {sb sa : Slots}, PairAll P sb sa → skeleton sa = skeleton sb
  | [], [], _ => rfl
  | [], _ :: _, h' => by simp [PairAll] at h'
  | none :: _, [], h' => by simp [PairAll] at h'
  | some _ :: _, [], h' => by simp [PairAll] at h'
  | none :: tb, none :: ta, h' => by
    simp only [PairAll] at h'
    have := PairAll.skeleton_eq hP h'
    simp only [skeleton] at this ⊢
    simp [this]
  | none :: tb, some _ :: ta, h' => by simp [PairAll] at h'
  | some _ :: tb, none :: ta, h' => by simp [PairAll] at h'
  | some ob :: tb, some oa :: ta, h' => by
    simp only [PairAll] at h'
    have := PairAll.skeleton_eq hP h'.2
    simp only [skeleton] at this ⊢
    simp [this, hP _ _ h'.1]

theorem ClusterMove.skeleton_eq {fr : SkOp → Bool} {b a : Config} (h : ClusterMove fr b a) :
    skeleton a.slots = skeleton b.slots :=
  PairAll.skeleton_eq (fun _ _ h => h.sk_eq) h.ops

theorem countOps_eq_of_skeleton : ∀ {sb sa : Slots}, skeleton sa = skeleton sb →
    countOps sa = countOps sb
  | [], [], _ => rfl
  | [], _ :: _, h => by simp [skeleton] at h
  | _ :: _, [], h => by simp [skeleton] at h
  | ob :: tb, oa :: ta, h => by
    simp only [skeleton, List.map_cons, List.cons.injEq] at h
    have ih := countOps_eq_of_skeleton (sb := tb) (sa := ta) h.2
    simp only [countOps] at ih ⊢
    cases ob <;> cases oa <;> simp_all

theorem countBond_eq_of_skeleton (k : Nat) : ∀ {sb sa : Slots}, skeleton sa = skeleton sb →
    countBond sa k = countBond sb k
  | [], [], _ => rfl
  | [], _ :: _, h => by simp [skeleton] at h
  | _ :: _, [], h => by simp [skeleton] at h
  | ob :: tb, oa :: ta, h => by
    simp only [skeleton, List.map_cons, List.cons.injEq] at h
    have ih := countBond_eq_of_skeleton k (sb := tb) (sa := ta) h.2
    simp only [countBond] at ih ⊢
    cases ob with
    | none => cases oa <;> simp_all
    | some ob =>
      cases oa with
      | none => simp at h
      | some oa =>
        have hb : oa.bond = ob.bond := by
          have := h.1; simp only [Option.map_some, Option.some.injEq, Op.sk, SkOp.mk.injEq] at this
          exact this.2.1
        simp only [List.filter_cons, hb]
        split <;> simp [ih]

/-! ### weight preservation -/

theorem weight_eq_of_pairAll (H : Ham) (fr : SkOp → Bool) :
    ∀ {sb sa : Slots}, PairAll (OpOk fr) sb sa →
      (∀ o ∈ opsOf sb, o.isEdge = false → fr o.sk = false → H.FlipSym o.bond) →
      (∀ o ∈ opsOf sb, o.isEdge = true → H.ConstW o.bond) →
      configWeightProd H sa = configWeightProd H sb
  | [], [], _, _, _ => rfl
  | [], _ :: _, h', _, _ => by simp [PairAll] at h'
  | none :: _, [], h', _, _ => by simp [PairAll] at h'
  | some _ :: _, [], h', _, _ => by simp [PairAll] at h'
  | none :: tb, none :: ta, h', hs, hc => by
    simp only [PairAll] at h'
    simp only [configWeightProd]
    exact weight_eq_of_pairAll H fr h' (fun o ho => hs o (by simpa [opsOf] using ho))
      (fun o ho => hc o (by simpa [opsOf] using ho))
  | none :: tb, some _ :: ta, h', _, _ => by simp [PairAll] at h'
  | some _ :: tb, none :: ta, h', _, _ => by simp [PairAll] at h'
  | some ob :: tb, some oa :: ta, h', hs, hc => by
    simp only [PairAll] at h'
    obtain ⟨hop, ht⟩ := h'
    simp only [configWeightProd]
    have ih := weight_eq_of_pairAll H fr ht (fun o ho => hs o (by simp [opsOf, ho]))
      (fun o ho => hc o (by simp [opsOf, ho]))
    rw [ih, hop.bond]
    congr 1
    cases he : ob.isEdge
    · -- non-edge op: flipped entirely or not at all
      cases hf : fr ob.sk
      · rcases hop.closed he with hu | hfl
        · rw [hu.1, hu.2]
        · rw [hfl.1, hfl.2]; exact hs ob (by simp [opsOf]) he hf _ _
      · have hu := hop.frozen he hf
        rw [hu.1, hu.2]
    · -- edge op: constant matrix
      exact hc ob (by simp [opsOf]) he _ _ _ _ (by rw [hop.insA, hop.insB]) (by rw [hop.outsA, hop.outsB])

end Qmc
